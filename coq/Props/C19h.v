(** C19 (history level) — "A global index update delivers all staking rewards to the right parties":
    the state premises of the whole-transaction theorem [C19_update_global_index_effect]
    (Props/C19.v) are discharged from reachability.  [w] below is always
    [run_ops ops (empty_world ut)], the world reached from the empty chain (chain unbonding time [ut])
    by the history [ops]: deployments, (re-)instantiations, gifts, time steps, slashes, reward
    accruals, delivery of unbonded coins, stub / price changes, transactions of arbitrary senders with
    arbitrary messages.  Property theorems only (proofs: Proofs/IndexHist.v, Proofs/IndexHistInv.v).

    How the premises of C19_update_global_index_effect are sorted:
    (a) INVARIANTS, proved for every reached world (sections A and B):
        - [RewardSolvent w]       (C14: recorded reward balance <= real balance), history envelope
                                  [user_roots ops] and [always (REnv d0) ops];
        - [RewardsToDispatcher w] from [IndexHist_WdInv w]: for the hub h of w, if
                                  hc_disp (h_cfg h) = Some a then withdraw_addr (w_env w) A_hub = a —
                                  NO hypothesis on the history (the hub's UpdateConfig emits
                                  SetWithdrawAddress in the same transaction; re-instantiating the
                                  hub clears the dispatcher field; nobody else can redirect the hub's
                                  rewards);
        - keeper rate <= 1        (C20, [PInv]) — no hypothesis;
        - registry without repetition: [IndexHist_RegSorted w] = the registry's validator list is
                                  strictly ascending ([StronglySorted N.lt]) — no hypothesis;
        - the six component states are present: from [Wired].
    (b) CONFIGURATION of the reached world, which the owners can change (E4) — [IndexCfgNow w] =
          Wired w /\ RewardWired w /\ for the dispatcher d and registry g of w:
          dp_swap d = A_swap /\ dp_oracle d = A_oracle /\ dp_keeper d is none of A_disp, A_hub,
          A_reward /\ rg_vals g <> [] /\ every listed validator exists ([is_val]).
        It is a predicate on the reached world, as [ExitEnv] in Props/C09h.v (E4 cannot hold in the
        empty start world, so it cannot be an [always] predicate from genesis).
    (c) facts about the CURRENT world that are not invariants — [IndexEnvNow w sender] =
          StubsOk (w_env w)          swap / oracle stubs answer, 0 < price <= 1e36            (E7)
          /\ IndexE1 w               magnitudes <= 1e18, global index <= 1e36                 (E1)
          /\ HubReady w sender       not paused, hs_bb + hs_bst > 0 ("stake is bonded"), sender is the
                                     updater or the registry
          /\ for the pre-dispatch world w1 (= [pre_dispatch w sender]) and the dispatcher dp:
             X_b = bal w1 A_disp (dp_bd dp) <= 1e18, X_st = bal w1 A_disp usei <= 1e18 and
             ~ Known_F2 (dp_rate dp) X_b X_st   (KNOWN FINDING F2: zero-coin sends — keeper rate 0,
             dust, keeper rate 1; Props/C17.v, Props/C19.v section 7).
    History envelope: [user_roots ops] (no transaction is signed by one of the nine contract
    addresses, Props/C09h.v) and [always (REnv d0) ops (empty_world ut)] (C14: while the reward
    contract exists its reward coin is d0, d0 is not in its swap list, its owner / pending owner are
    not contract addresses); for the accrual corollary also C16's [always MirrorEnv] and
    [insts_fresh] (Props/C09h.v).

    Vocabulary of the conclusions (Props/C19.v): [pre_dispatch], [touch_lim], [del_vals],
    [index_updated], [rate_of], [claims_st], [delegated]; [sum_acc r] (Props/C14.v) = sum over the
    holder records of (global index - holder index) * balance + pending, in 18-decimal atomics.
    [IndexHist_pre_state] and [IndexHist_end_state] (Proofs/IndexHist.v) abbreviate the two blocks of
    the conclusion of [C19_update_global_index_effect]; they are restated IN FULL by the two
    [C19h_def_*] theorems below.

    The success of a transaction is read off [step]: [step w (OTx s to m funds) = (w', (true, tr))]
    means every message of the tree executed (trace [tr]) and the new world is [w']; on failure the
    world is rolled back and the flag is false. *)
From Krp Require Import Tactics Prelude Fixed FMap Types Env Registry Cw20 Reward Dispatcher Hub Exec
     ExecP Hist Inv HubFrame HubAdmin Params DispatcherP RewardP RewardWorld MirrorWire MirrorP
     ExitWorld ExitHist IndexRun IndexEnv IndexHandlers IndexSwap IndexPhases IndexP IndexHistInv
     IndexHist.
From Coq Require Import Sorted.
Open Scope N_scope.

(** *** 0. the predicates, in full *)
Theorem C19h_def_IndexCfgNow : forall w, IndexCfgNow w <->
  Wired w /\ RewardWired w /\
  match w_disp w, w_reg w with
  | Some d, Some g =>
      dp_swap d = A_swap /\ dp_oracle d = A_oracle /\
      dp_keeper d <> A_disp /\ dp_keeper d <> A_hub /\ dp_keeper d <> A_reward /\
      rg_vals g <> [] /\ (forall v, In v (rg_vals g) -> is_val v = true)
  | _, _ => False
  end.
Proof. exact IndexHist_def_IndexCfgNow. Qed.

Theorem C19h_def_IndexEnvNow : forall w sender, IndexEnvNow w sender <->
  StubsOk (w_env w) /\ IndexE1 w /\ HubReady w sender /\
  forall w1 dp, pre_dispatch w sender = Some w1 -> w_disp w = Some dp ->
    bal (w_env w1) A_disp (dp_bd dp) <= LIM /\ bal (w_env w1) A_disp usei <= LIM /\
    ~ Known_F2 (dp_rate dp) (bal (w_env w1) A_disp (dp_bd dp)) (bal (w_env w1) A_disp usei).
Proof. exact IndexHist_def_IndexEnvNow. Qed.

Theorem C19h_def_pre_state : forall w h r dp g tb ts w1,
  IndexHist_pre_state w h r dp g tb ts w1 <->
  let e := w_env w in
  let e1 := w_env w1 in
  w_hub w1 = Some (set_h_state h (touch_lim (h_state h) (e_now e))) /\ w_reward w1 = Some r /\
  w_disp w1 = Some dp /\ w_reg w1 = Some g /\ w_bsei w1 = Some tb /\ w_stsei w1 = Some ts /\
  e_del e1 = e_del e /\ e_unb e1 = e_unb e /\ e_now e1 = e_now e /\
  (forall v d, In v (del_vals e A_hub) -> In d DENOMS -> pending e1 A_hub v d = 0) /\
  (forall a d, a <> A_disp -> a <> A_swap -> bal e1 a d = bal e a d).
Proof. exact IndexHist_def_pre_state. Qed.

Theorem C19h_def_end_state : forall w h r dp g tb ts w1 w',
  IndexHist_end_state w h r dp g tb ts w1 w' <->
  let e := w_env w in
  let now := e_now e in
  let bd := dp_bd dp in
  let keeper := dp_keeper dp in
  let e1 := w_env w1 in
  let X_b := bal e1 A_disp bd in
  let X_st := bal e1 A_disp usei in
  let kb := X_b * dp_rate dp / D in
  let ks := X_st * dp_rate dp / D in
  let rb := X_st - ks in
  let e' := w_env w' in
  w_bsei w' = Some tb /\ w_stsei w' = Some ts /\ w_disp w' = Some dp /\ w_reg w' = Some g /\
  w_reward w' = Some (index_updated r (bal e A_reward bd + (X_b - kb))) /\
  (exists h', w_hub w' = Some h' /\
     h_cfg h' = h_cfg h /\ h_params h' = h_params h /\ h_batch h' = h_batch h /\
     h_wait h' = h_wait h /\ h_hist h' = h_hist h /\ h_oldwait h' = h_oldwait h /\
     h_newowner h' = h_newowner h /\
     (rb = 0 -> h_state h' = touch_lim (h_state h) now) /\
     (rb <> 0 -> exists s1,
        query_actual_state w A_hub h = Some s1 /\
        h_state h' = mkHubState (hs_ber s1) (rate_of (hs_bst s1 + rb) (claims_st h ts))
                                (hs_bb s1) (hs_bst s1 + rb) now
                                (hs_phb (h_state h)) (hs_lut (h_state h)) (hs_lpb (h_state h)))) /\
  bal e' A_disp bd = 0 /\ bal e' A_disp usei = 0 /\
  (forall d, bal e' A_hub d = bal e A_hub d) /\
  bal e' A_reward bd = bal e A_reward bd + (X_b - kb) /\
  bal e' keeper bd = bal e1 keeper bd + kb /\ bal e' keeper usei = bal e1 keeper usei + ks /\
  (forall a d, a <> A_disp -> a <> A_swap -> a <> keeper -> a <> A_reward -> bal e' a d = bal e a d) /\
  delegated e' A_hub = delegated e A_hub + rb /\
  (forall y, y <> A_hub -> delegated e' y = delegated e y) /\
  (forall v d, In v (del_vals e A_hub) -> In d DENOMS -> pending e' A_hub v d = 0) /\
  e_unb e' = e_unb e /\ e_now e' = now.
Proof. exact IndexHist_def_end_state. Qed.

(** *** A. invariants of EVERY history (no hypothesis) *)

(** the distribution module pays the hub's staking rewards to whatever the hub's configuration names
    as dispatcher *)
Theorem C19h_withdraw_address_follows_config : forall ut ops h a,
  w_hub (run_ops ops (empty_world ut)) = Some h -> hc_disp (h_cfg h) = Some a ->
  withdraw_addr (w_env (run_ops ops (empty_world ut))) A_hub = a.
Proof. exact IndexHist_WdInv_reachable. Qed.

Theorem C19h_rewards_to_dispatcher_reachable : forall ut ops,
  Wired (run_ops ops (empty_world ut)) -> RewardsToDispatcher (run_ops ops (empty_world ut)).
Proof. exact IndexHist_rewards_to_dispatcher_reachable. Qed.

(** message level: a hub handler either is UpdateConfig{dispatcher = a} — then the dispatcher field
    is a afterwards and exactly [SetWithdrawAddress a] is emitted — or it keeps the dispatcher field
    and emits no SetWithdrawAddress *)
Theorem C19h_hub_handler_withdraw_address : forall w h self sender funds m h' out,
  hub_execute w h self sender funds m = Some (h', out) ->
  (exists a, out = [MSetWithdrawAddr a] /\ hc_disp (h_cfg h') = Some a) \/
  (hc_disp (h_cfg h') = hc_disp (h_cfg h) /\ forall x a, In x out -> x <> MSetWithdrawAddr a).
Proof. exact IndexHist_hub_disp. Qed.

(** the registry's validator list is strictly ascending, hence without repetition *)
Theorem C19h_registry_sorted_reachable : forall ut ops g,
  w_reg (run_ops ops (empty_world ut)) = Some g -> StronglySorted N.lt (rg_vals g).
Proof. exact IndexHist_RegSorted_reachable. Qed.

Theorem C19h_registry_nodup_reachable : forall ut ops g,
  w_reg (run_ops ops (empty_world ut)) = Some g -> NoDup (rg_vals g).
Proof. exact IndexHist_RegNoDup_reachable. Qed.

(** *** B. every invariant premise of C19_update_global_index_effect, in every reached world *)
Theorem C19h_premises_reachable : forall d0 ut ops,
  user_roots ops -> always (REnv d0) ops (empty_world ut) ->
  let w := run_ops ops (empty_world ut) in
  IndexCfgNow w ->
  Wired w /\ RewardWired w /\ RewardsToDispatcher w /\ IndexWiring w /\ RewardSolvent w.
Proof. exact IndexHist_premises_reachable. Qed.

(** *** C. the capstone: in every world reached inside the envelope, the pre-dispatch world exists
    (hub handler, every withdrawal and the dispatcher's swap leg execute — this needs the stub
    hypothesis [StubsOk] and the magnitudes [IndexE1] of [IndexEnvNow], nothing else) and the
    UpdateGlobalIndex transaction of [sender] SUCCEEDS with the end state of
    C19_update_global_index_effect *)
Theorem C19h_update_global_index_reachable : forall d0 ut ops sender,
  user_roots ops -> always (REnv d0) ops (empty_world ut) ->
  let w := run_ops ops (empty_world ut) in
  IndexCfgNow w -> IndexEnvNow w sender ->
  exists h r dp g tb ts w1 w' tr,
    w_hub w = Some h /\ w_reward w = Some r /\ w_disp w = Some dp /\ w_reg w = Some g /\
    w_bsei w = Some tb /\ w_stsei w = Some ts /\
    pre_dispatch w sender = Some w1 /\
    (let e := w_env w in
     let e1 := w_env w1 in
     w_hub w1 = Some (set_h_state h (touch_lim (h_state h) (e_now e))) /\ w_reward w1 = Some r /\
     w_disp w1 = Some dp /\ w_reg w1 = Some g /\ w_bsei w1 = Some tb /\ w_stsei w1 = Some ts /\
     e_del e1 = e_del e /\ e_unb e1 = e_unb e /\ e_now e1 = e_now e /\
     (forall v d, In v (del_vals e A_hub) -> In d DENOMS -> pending e1 A_hub v d = 0) /\
     (forall a d, a <> A_disp -> a <> A_swap -> bal e1 a d = bal e a d)) /\
    step w (OTx sender A_hub (WHub (HUpdateGlobal 0)) []) = (w', (true, tr)) /\
    (let e := w_env w in
     let now := e_now e in
     let bd := dp_bd dp in
     let keeper := dp_keeper dp in
     let e1 := w_env w1 in
     let X_b := bal e1 A_disp bd in
     let X_st := bal e1 A_disp usei in
     let kb := X_b * dp_rate dp / D in
     let ks := X_st * dp_rate dp / D in
     let rb := X_st - ks in
     let e' := w_env w' in
     w_bsei w' = Some tb /\ w_stsei w' = Some ts /\ w_disp w' = Some dp /\ w_reg w' = Some g /\
     w_reward w' = Some (index_updated r (bal e A_reward bd + (X_b - kb))) /\
     (exists h', w_hub w' = Some h' /\
        h_cfg h' = h_cfg h /\ h_params h' = h_params h /\ h_batch h' = h_batch h /\
        h_wait h' = h_wait h /\ h_hist h' = h_hist h /\ h_oldwait h' = h_oldwait h /\
        h_newowner h' = h_newowner h /\
        (rb = 0 -> h_state h' = touch_lim (h_state h) now) /\
        (rb <> 0 -> exists s1,
           query_actual_state w A_hub h = Some s1 /\
           h_state h' = mkHubState (hs_ber s1) (rate_of (hs_bst s1 + rb) (claims_st h ts))
                                   (hs_bb s1) (hs_bst s1 + rb) now
                                   (hs_phb (h_state h)) (hs_lut (h_state h)) (hs_lpb (h_state h)))) /\
     bal e' A_disp bd = 0 /\ bal e' A_disp usei = 0 /\
     (forall d, bal e' A_hub d = bal e A_hub d) /\
     bal e' A_reward bd = bal e A_reward bd + (X_b - kb) /\
     bal e' keeper bd = bal e1 keeper bd + kb /\ bal e' keeper usei = bal e1 keeper usei + ks /\
     (forall a d, a <> A_disp -> a <> A_swap -> a <> keeper -> a <> A_reward -> bal e' a d = bal e a d) /\
     delegated e' A_hub = delegated e A_hub + rb /\
     (forall y, y <> A_hub -> delegated e' y = delegated e y) /\
     (forall v d, In v (del_vals e A_hub) -> In d DENOMS -> pending e' A_hub v d = 0) /\
     e_unb e' = e_unb e /\ e_now e' = now).
Proof. exact IndexHist_update_global_index_reachable. Qed.

(** the success flag alone: the transaction executes whenever stake is bonded (inside the envelope) *)
Theorem C19h_update_global_index_succeeds : forall d0 ut ops sender,
  user_roots ops -> always (REnv d0) ops (empty_world ut) ->
  let w := run_ops ops (empty_world ut) in
  IndexCfgNow w -> IndexEnvNow w sender ->
  fst (snd (step w (OTx sender A_hub (WHub (HUpdateGlobal 0)) []))) = true.
Proof. exact IndexHist_update_succeeds. Qed.

(** *** D. corollaries over histories *)

(** no reward coin is left behind in the dispatcher, nothing is pending at the hub's validators *)
Theorem C19h_nothing_left_in_dispatcher : forall d0 ut ops sender,
  user_roots ops -> always (REnv d0) ops (empty_world ut) ->
  let w := run_ops ops (empty_world ut) in
  IndexCfgNow w -> IndexEnvNow w sender ->
  let w' := fst (step w (OTx sender A_hub (WHub (HUpdateGlobal 0)) [])) in
  forall dp, w_disp w = Some dp ->
    bal (w_env w') A_disp (dp_bd dp) = 0 /\ bal (w_env w') A_disp usei = 0 /\
    forall v d, In v (del_vals (w_env w) A_hub) -> In d DENOMS -> pending (w_env w') A_hub v d = 0.
Proof. exact IndexHist_nothing_left. Qed.

(** the hub's own liquid balance (every coin), its configuration and parameters, the open batch, the
    batch history, both wait lists (unbonders' claims) and the chain's unbonding entries are
    unaffected *)
Theorem C19h_hub_and_unbonders_untouched : forall d0 ut ops sender,
  user_roots ops -> always (REnv d0) ops (empty_world ut) ->
  let w := run_ops ops (empty_world ut) in
  IndexCfgNow w -> IndexEnvNow w sender ->
  let w' := fst (step w (OTx sender A_hub (WHub (HUpdateGlobal 0)) [])) in
  (forall d, bal (w_env w') A_hub d = bal (w_env w) A_hub d) /\
  e_unb (w_env w') = e_unb (w_env w) /\
  exists h h', w_hub w = Some h /\ w_hub w' = Some h' /\
    h_cfg h' = h_cfg h /\ h_params h' = h_params h /\ h_batch h' = h_batch h /\
    h_wait h' = h_wait h /\ h_hist h' = h_hist h /\ h_oldwait h' = h_oldwait h.
Proof. exact IndexHist_hub_and_unbonders_untouched. Qed.

(** both token ledgers are unchanged (nothing is minted, no balance moves); the hub's delegations grow
    by exactly the re-bonded amount rb; the bSei pool and the bSei rate change only by the slashing
    synchronisation [query_actual_state] (not at all when nothing is re-bonded); the stSei pool grows
    by rb and the stSei rate becomes (pool + rb) / claims *)
Theorem C19h_pools_and_tokens : forall d0 ut ops sender,
  user_roots ops -> always (REnv d0) ops (empty_world ut) ->
  let w := run_ops ops (empty_world ut) in
  IndexCfgNow w -> IndexEnvNow w sender ->
  let w' := fst (step w (OTx sender A_hub (WHub (HUpdateGlobal 0)) [])) in
  w_bsei w' = w_bsei w /\ w_stsei w' = w_stsei w /\
  exists h h' ts rb, w_hub w = Some h /\ w_hub w' = Some h' /\ w_stsei w = Some ts /\
    delegated (w_env w') A_hub = delegated (w_env w) A_hub + rb /\
    (rb = 0 -> hs_bb (h_state h') = hs_bb (h_state h) /\ hs_bst (h_state h') = hs_bst (h_state h) /\
               hs_ber (h_state h') = hs_ber (h_state h) /\ hs_ser (h_state h') = hs_ser (h_state h)) /\
    (rb <> 0 -> exists s1, query_actual_state w A_hub h = Some s1 /\
               hs_bb (h_state h') = hs_bb s1 /\ hs_ber (h_state h') = hs_ber s1 /\
               hs_bst (h_state h') = hs_bst s1 + rb /\
               hs_ser (h_state h') = rate_of (hs_bst s1 + rb) (claims_st h ts)).
Proof. exact IndexHist_pools_and_tokens. Qed.

(** bSei holders (composition with C14 and C16): the reward contract receives exactly
    delivered = X_b - floor(X_b * keeper rate); afterwards its recorded balance equals its real
    balance, and the holders' total accrued reward, in 18-decimal atomics, grew by
    (backlog + delivered) * 1e18 minus LESS THAN ONE base unit (1e18 atomics), where backlog = coins
    that sat in the contract not yet indexed; with no bSei in existence the state is unchanged and the
    coins wait for the next update *)
Theorem C19h_holders_accrual : forall d0 ut ops sender,
  user_roots ops -> always (REnv d0) ops (empty_world ut) ->
  always MirrorEnv ops (empty_world ut) -> insts_fresh ops (empty_world ut) ->
  let w := run_ops ops (empty_world ut) in
  IndexCfgNow w -> IndexEnvNow w sender ->
  let w' := fst (step w (OTx sender A_hub (WHub (HUpdateGlobal 0)) [])) in
  forall r dp w1, w_reward w = Some r -> w_disp w = Some dp -> pre_dispatch w sender = Some w1 ->
  let bd := dp_bd dp in
  let X_b := bal (w_env w1) A_disp bd in
  let delivered := X_b - X_b * dp_rate dp / D in
  let backlog := bal (w_env w) A_reward bd - rw_prev r in
  bal (w_env w') A_reward bd = bal (w_env w) A_reward bd + delivered /\
  exists r', w_reward w' = Some r' /\
    (rw_total r = 0 -> r' = r) /\
    (rw_total r <> 0 ->
       rw_prev r' = bal (w_env w') A_reward bd /\ rw_total r' = rw_total r /\
       sum_acc r' <= sum_acc r + (backlog + delivered) * D /\
       sum_acc r + (backlog + delivered) * D < sum_acc r' + D).
Proof. exact IndexHist_holders_accrual. Qed.

(** *** E. non-vacuity *)

(** [IndexHist_ops1] = the history behind [W_ok] of Props/C19.v (deploy, wire through the hub's
    UpdateConfig, one bSei and one stSei bond, 50000 usei accrue at validator 0 and 7000 uusd at
    validator 1; updater = 11): every hypothesis of the capstone holds, and BY THE THEOREMS the
    updater's transaction succeeds, empties the dispatcher and leaves the hub's liquid balance alone *)
Theorem C19h_nonvacuous_first_update :
  user_roots IndexHist_ops1 /\ always (REnv uusd) IndexHist_ops1 (empty_world 100) /\
  let w := run_ops IndexHist_ops1 (empty_world 100) in
  IndexCfgNow w /\ IndexEnvNow w 11 /\
  fst (snd (step w (OTx 11 A_hub (WHub (HUpdateGlobal 0)) []))) = true /\
  let w' := fst (step w (OTx 11 A_hub (WHub (HUpdateGlobal 0)) [])) in
  bal (w_env w') A_disp uusd = 0 /\ bal (w_env w') A_disp usei = 0 /\
  (forall d, bal (w_env w') A_hub d = bal (w_env w) A_hub d).
Proof. exact IndexHist_nonvacuous_1. Qed.

Theorem C19h_nonvacuous_first_update_world : run_ops IndexHist_ops1 (empty_world 100) = W_ok.
Proof. exact IndexHist_ops1_world. Qed.

(** [IndexHist_ops2] = ExitWorld.genesis_ops (Props/C09h.v) ++ rewards accrue, the updater (13) runs
    UpdateGlobalIndex, 5 s pass, rewards accrue at other validators: a REPEATED update.  Every
    hypothesis of the capstone and of the accrual corollary holds in the reached world (global index
    already positive, bSei in existence), and the second update succeeds by the theorem *)
Theorem C19h_nonvacuous_repeated_update :
  user_roots IndexHist_ops2 /\ always (REnv uusd) IndexHist_ops2 (empty_world 100) /\
  always MirrorEnv IndexHist_ops2 (empty_world 100) /\ insts_fresh IndexHist_ops2 (empty_world 100) /\
  let w := run_ops IndexHist_ops2 (empty_world 100) in
  IndexCfgNow w /\ IndexEnvNow w updater /\
  (exists r, w_reward w = Some r /\ 0 < rw_gi r /\ 0 < rw_total r) /\
  fst (snd (step w (OTx updater A_hub (WHub (HUpdateGlobal 0)) []))) = true.
Proof. exact IndexHist_nonvacuous_2. Qed.

(** *** F. KNOWN FINDING F2 is reachable by a third party (class dust of [Known_F2]; same root cause
    as C17 / C19 section 7, not a new class).  Deployment of [W_ok] with a 5 % keeper and NO pending
    rewards: the updater's UpdateGlobalIndex succeeds.  After ONE base unit of uusd (or usei, or
    uatom) was sent to the dispatcher's address — a plain bank transfer any account can make ([OGift])
    — the same transaction FAILS (world unchanged) although stake is bonded and the hub is not paused;
    the pre-dispatch balances are in [Known_F2].  A coin the dispatcher does not handle (ujunk) has no
    effect, and with enough genuine rewards pending the gift is harmless. *)
Theorem C19h_F2_third_party_witness :
  let w0 := index_world IndexHist_r5 [] in
  let w := index_world IndexHist_r5 [OGift A_disp uusd 1] in
  Wired w0 /\ HubReady w0 11 /\ fst (snd (step w0 ugi_op)) = true /\
  Wired w /\ HubReady w 11 /\ fst (snd (step w ugi_op)) = false /\ fst (step w ugi_op) = w /\
  (exists w1, pre_dispatch w 11 = Some w1 /\
     Known_F2 IndexHist_r5 (bal (w_env w1) A_disp uusd) (bal (w_env w1) A_disp usei)) /\
  fst (snd (step (index_world IndexHist_r5 [OGift A_disp usei 1]) ugi_op)) = false /\
  fst (snd (step (index_world IndexHist_r5 [OGift A_disp uatom 1]) ugi_op)) = false /\
  fst (snd (step (index_world IndexHist_r5 [OGift A_disp ujunk 1]) ugi_op)) = true /\
  fst (snd (step (index_world IndexHist_r5 [OGift A_disp uusd 1; OAccrue 0 usei 50000]) ugi_op)) = true.
Proof. exact IndexHist_F2_gift_witness. Qed.

Print Assumptions C19h_def_IndexCfgNow.
Print Assumptions C19h_def_IndexEnvNow.
Print Assumptions C19h_def_pre_state.
Print Assumptions C19h_def_end_state.
Print Assumptions C19h_withdraw_address_follows_config.
Print Assumptions C19h_rewards_to_dispatcher_reachable.
Print Assumptions C19h_hub_handler_withdraw_address.
Print Assumptions C19h_registry_sorted_reachable.
Print Assumptions C19h_registry_nodup_reachable.
Print Assumptions C19h_premises_reachable.
Print Assumptions C19h_update_global_index_reachable.
Print Assumptions C19h_update_global_index_succeeds.
Print Assumptions C19h_nothing_left_in_dispatcher.
Print Assumptions C19h_hub_and_unbonders_untouched.
Print Assumptions C19h_pools_and_tokens.
Print Assumptions C19h_holders_accrual.
Print Assumptions C19h_nonvacuous_first_update.
Print Assumptions C19h_nonvacuous_first_update_world.
Print Assumptions C19h_nonvacuous_repeated_update.
Print Assumptions C19h_F2_third_party_witness.
