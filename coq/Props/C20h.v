(** C20h — Stored parameters stay within their valid ranges under any update sequence: the
    TRANSACTION / HISTORY level capstone of Props/C20.v.  Property theorems only (proofs:
    Proofs/ParamsHist.v, Proofs/ParamsHistBase.v, Proofs/ParamsHistTx.v; examples and witnesses:
    Proofs/ParamsHistEx.v).

    EVERY theorem below except [C20h_hub_params_tx_reachable] holds for EVERY world [w] (no
    reachability, no invariant hypothesis) and, where an operation [o] is quantified, for every
    operation of the alphabet of Model/Exec.v; they apply in particular to the worlds
    [run_ops ops (empty_world ut)] reached by arbitrary histories.

    Named views (Proofs/ParamsHistBase.v), all [None] when the contract is not instantiated:
    - [hub_params_of w]   = the hub's stored [hub_params] record ([h_params]);
    - [hub_config_of w]   = the hub's stored [hub_config] record ([h_cfg]: creator = owner, updater,
                            dispatcher, registry, bSei, stSei, airdrop registry, rewards contract);
    - [hub_underlying w]  = [hp_underlying] of the hub's parameters; [disp_std w] = [dp_std];
    - [disp_config_of w]  = (dp_hub, dp_reward, dp_std, dp_bd, dp_keeper, dp_rate, dp_swap, dp_denoms,
                            dp_oracle): the dispatcher record minus owner and nominee;
    - [reward_config_of w] = (rw_hub, rw_denom, rw_swap, rw_denoms); [reg_hub_of w] = [rg_hub].
    Named predicates on operations:
    - [keeps_hub o] (Proofs/AuthHistOwn.v): [o] is neither [OReset] nor [OInstHub];
      [keeps_disp o] (Proofs/ParamsHist.v): [o] is neither [OReset] nor [OInstDisp];
    - [reinst c o] (Proofs/AuthHistOwn.v), [c] in [CHub | CReward | CDisp | CReg]: [o] is [OReset] or
      the instantiate operation of contract [c];
    - [hub_owner w], [hub_nominee w], [disp_owner w], [reward_owner w], [reg_owner w]
      (Proofs/AuthHistOwn.v): stored owner / pending owner, [None] if not instantiated;
    - [hub_params_op o]: [o] is [OReset], [OInstHub], or a transaction whose root is UpdateParams or
      MigrateUnbondWaitList addressed to the hub; [hub_config_op o]: [OReset], [OInstHub], or a root
      UpdateConfig / AcceptOwnership addressed to the hub; [disp_config_op o]: [OReset], [OInstDisp], or
      a root UpdateConfig / UpdateSwapContract / UpdateSwapDenom / UpdateOracleContract addressed to
      the dispatcher; [reward_config_op o]: [OReset], [OInstReward], or a root UpdateConfig /
      UpdateSwapDenom addressed to the reward contract; [reg_hub_op o]: [OReset], [OInstReg], or a root
      UpdateConfig carrying a hub address addressed to the registry (Proofs/ParamsHist.v);
    - [stranger_op own nom o] (Proofs/ParamsHist.v): [o] is a transaction signed by an address
      different from [own] and from [nom] whose root payload is not MigrateUnbondWaitList, or a
      non-transaction operation that is not [reinst CHub];
    - [admin_msg wm] (Proofs/AuthHistOwn.v): [wm] is one of the owner / nominee-only payloads.

    FINDINGS stated as theorems: (1) a supplied exchange-rate threshold above 1 is NOT rejected, it is
    stored as 1 ([C20h_thr_stored_clamped], [C20h_thr_above_one_accepted_witness]); (2) the hub's
    UpdateConfig is the one configuration message whose transaction is not the single root message: a
    supplied dispatcher address makes the hub emit SetWithdrawAddress, which changes the
    environment's withdraw-address table ([C20h_hub_config_tx]); (3) MigrateUnbondWaitList, which
    ANYBODY may send while the hub is paused, clears the pause flag on its last page
    ([C20h_hub_params_step]); (4) in the model a FAILED instantiate removes the contract instance
    ([C20h_inst_hub_step], [C20h_inst_disp_step]). *)
From Krp Require Import Tactics Prelude Fixed FMap Types Env Registry Cw20 Reward Dispatcher Hub Exec
     AuthHistEmit AuthHistOwn ExitWorld ParamsHistBase ParamsHistTx ParamsHist ParamsHistEx.
Open Scope N_scope.

(** * Part 1 — the denominations never change along any history *)

Theorem C20h_underlying_step : forall w o,
  keeps_hub o -> hub_underlying (fst (step w o)) = hub_underlying w.
Proof. exact underlying_step. Qed.

Theorem C20h_stdenom_step : forall w o,
  keeps_disp o -> disp_std (fst (step w o)) = disp_std w.
Proof. exact stdenom_step. Qed.

Theorem C20h_underlying_history : forall ops w,
  Forall keeps_hub ops -> hub_underlying (run_ops ops w) = hub_underlying w.
Proof. exact underlying_history. Qed.

Theorem C20h_stdenom_history : forall ops w,
  Forall keeps_disp ops -> disp_std (run_ops ops w) = disp_std w.
Proof. exact stdenom_history. Qed.

(** after an accepted instantiate (anywhere in a history from any world, in particular the empty
    one) and until the next reset / re-instantiation, the denomination read in every later world
    is the one named in the instantiate message *)
Theorem C20h_underlying_fixed_by_instantiate :
  forall ops1 sender epoch unbonding pegfee thr upd underlying rdenom ops2 w,
  pegfee <= D -> Forall keeps_hub ops2 ->
  hub_underlying
    (run_ops (ops1 ++ OInstHub sender epoch unbonding pegfee thr upd underlying rdenom :: ops2) w)
  = Some underlying.
Proof. exact underlying_fixed_by_instantiate. Qed.

Theorem C20h_stdenom_fixed_by_instantiate :
  forall ops1 sender hubaddr rewardaddr std bd keeper rate swap oracle denoms ops2 w,
  rate <= D -> Forall keeps_disp ops2 ->
  disp_std
    (run_ops (ops1 ++ OInstDisp sender hubaddr rewardaddr std bd keeper rate swap oracle denoms :: ops2) w)
  = Some std.
Proof. exact stdenom_fixed_by_instantiate. Qed.

(** a rejected instantiate (out-of-range value) leaves no instance at all *)
Theorem C20h_underlying_failed_instantiate :
  forall ops1 sender epoch unbonding pegfee thr upd underlying rdenom ops2 w,
  D < pegfee -> Forall keeps_hub ops2 ->
  hub_underlying
    (run_ops (ops1 ++ OInstHub sender epoch unbonding pegfee thr upd underlying rdenom :: ops2) w)
  = None.
Proof. exact underlying_failed_instantiate. Qed.

Theorem C20h_stdenom_failed_instantiate :
  forall ops1 sender hubaddr rewardaddr std bd keeper rate swap oracle denoms ops2 w,
  D < rate -> Forall keeps_disp ops2 ->
  disp_std
    (run_ops (ops1 ++ OInstDisp sender hubaddr rewardaddr std bd keeper rate swap oracle denoms :: ops2) w)
  = None.
Proof. exact stdenom_failed_instantiate. Qed.

(** the exclusions are necessary: a re-instantiation does change the denomination *)
Theorem C20h_reinst_changes_underlying_witness :
  hub_underlying world0 = Some usei /\
  hub_underlying (fst (step world0 (OInstHub A_owner 30 100 0 D updater uatom uusd))) = Some uatom /\
  hub_underlying (fst (step world0 (OReset 5))) = None.
Proof. exact reinst_changes_underlying_witness. Qed.

Theorem C20h_reinst_changes_stdenom_witness :
  disp_std world0 = Some usei /\
  disp_std (fst (step world0 (OInstDisp A_owner A_hub A_reward uatom uusd keeper 0 A_swap A_oracle [])))
  = Some uatom.
Proof. exact reinst_changes_stdenom_witness. Qed.

(** * Part 2 — the exact world after a successful root configuration transaction:
      signed by the owner; omitted field => stored value unchanged, supplied field => stored as
      supplied; nothing else changes; the trace is the root message *)

(** hub UpdateParams.  The new world is [w] with the bank transfer [e1] of the attached funds and the
    hub's parameter record replaced as displayed: the underlying denomination is kept, the pause
    flag becomes the message's option, the threshold (supplied or stored) is clamped to 1. *)
Theorem C20h_hub_params_tx : forall w s epoch unbonding pegfee thr pz rdenom f w' tr,
  step w (OTx s A_hub (WHub (HParams epoch unbonding pegfee thr pz rdenom)) f) = (w', (true, tr)) ->
  exists h e1,
    w_hub w = Some h /\ s = hc_creator (h_cfg h) /\
    send_coins (w_env w) s A_hub f = Some e1 /\
    (forall x, pegfee = Some x -> x <= D) /\
    (pz <> Some true -> h_oldwait h = []) /\
    tr = [(s, MWasm A_hub (WHub (HParams epoch unbonding pegfee thr pz rdenom)) f)] /\
    w' = mkWorld
           (Some (mkHub (h_cfg h) (h_state h)
                    (mkHubParams
                       (match epoch with Some x => x | None => hp_epoch (h_params h) end)
                       (hp_underlying (h_params h))
                       (match unbonding with Some x => x | None => hp_unbonding (h_params h) end)
                       (match pegfee with Some x => x | None => hp_pegfee (h_params h) end)
                       (N.min (match thr with Some x => x | None => hp_thr (h_params h) end) D)
                       (match rdenom with Some x => x | None => hp_rdenom (h_params h) end)
                       pz)
                    (h_batch h) (h_newowner h) (h_wait h) (h_hist h) (h_oldwait h)))
           (w_reward w) (w_disp w) (w_reg w) (w_bsei w) (w_stsei w) e1.
Proof. exact hub_params_tx. Qed.

(** the same, field by field, after any history from the empty world (there the stored threshold is
    <= 1, so an omitted threshold keeps its value exactly) *)
Theorem C20h_hub_params_tx_reachable : forall ut ops s epoch unbonding pegfee thr pz rdenom f w' tr,
  step (run_ops ops (empty_world ut))
       (OTx s A_hub (WHub (HParams epoch unbonding pegfee thr pz rdenom)) f) = (w', (true, tr)) ->
  exists h h',
    w_hub (run_ops ops (empty_world ut)) = Some h /\ w_hub w' = Some h' /\ s = hc_creator (h_cfg h) /\
    (epoch = None -> hp_epoch (h_params h') = hp_epoch (h_params h)) /\
    (unbonding = None -> hp_unbonding (h_params h') = hp_unbonding (h_params h)) /\
    (pegfee = None -> hp_pegfee (h_params h') = hp_pegfee (h_params h)) /\
    (thr = None -> hp_thr (h_params h') = hp_thr (h_params h)) /\
    (rdenom = None -> hp_rdenom (h_params h') = hp_rdenom (h_params h)) /\
    (forall x, epoch = Some x -> hp_epoch (h_params h') = x) /\
    (forall x, unbonding = Some x -> hp_unbonding (h_params h') = x) /\
    (forall x, pegfee = Some x -> hp_pegfee (h_params h') = x /\ x <= D) /\
    (forall x, thr = Some x -> hp_thr (h_params h') = N.min x D) /\
    (forall x, rdenom = Some x -> hp_rdenom (h_params h') = x) /\
    hp_paused (h_params h') = pz /\
    hp_underlying (h_params h') = hp_underlying (h_params h) /\
    hp_pegfee (h_params h') <= D /\ hp_thr (h_params h') <= D.
Proof. exact hub_params_tx_reachable. Qed.

(** hub UpdateConfig: all seven optional addresses; a token address only if previously unset; the
    hub must not be paused.  When a dispatcher address [x] is supplied the hub emits
    SetWithdrawAddress [x], executed as second message of the transaction: the environment's
    withdraw-address entry of the hub becomes [x]. *)
Theorem C20h_hub_config_tx : forall w s a b c d e f0 g f w' tr,
  step w (OTx s A_hub (WHub (HConfig a b c d e f0 g)) f) = (w', (true, tr)) ->
  exists h e1,
    w_hub w = Some h /\ s = hc_creator (h_cfg h) /\ Hub.paused h = false /\
    send_coins (w_env w) s A_hub f = Some e1 /\
    (c <> None -> hc_bsei (h_cfg h) = None) /\ (d <> None -> hc_stsei (h_cfg h) = None) /\
    tr = (s, MWasm A_hub (WHub (HConfig a b c d e f0 g)) f) ::
         match a with Some x => [(A_hub, MSetWithdrawAddr x)] | None => [] end /\
    w' = mkWorld
           (Some (mkHub
                    (mkHubConfig (hc_creator (h_cfg h))
                       (match g with Some x => x | None => hc_updater (h_cfg h) end)
                       (match a with Some x => Some x | None => hc_disp (h_cfg h) end)
                       (match b with Some x => Some x | None => hc_reg (h_cfg h) end)
                       (match c with Some x => Some x | None => hc_bsei (h_cfg h) end)
                       (match d with Some x => Some x | None => hc_stsei (h_cfg h) end)
                       (match e with Some x => Some x | None => hc_airdrop (h_cfg h) end)
                       (match f0 with Some x => Some x | None => hc_rewards (h_cfg h) end))
                    (h_state h) (h_params h) (h_batch h) (h_newowner h) (h_wait h) (h_hist h)
                    (h_oldwait h)))
           (w_reward w) (w_disp w) (w_reg w) (w_bsei w) (w_stsei w)
           (match a with Some x => do_set_withdraw_addr e1 A_hub x | None => e1 end).
Proof. exact hub_config_tx. Qed.

(** dispatcher UpdateConfig: the stSei reward denomination cannot be named at all ([std = None]),
    a supplied keeper rate is <= 1; owner, swap contract, swap denoms, oracle, nominee untouched *)
Theorem C20h_disp_config_tx : forall w s hubaddr rewardaddr std bd keeper rate f w' tr,
  step w (OTx s A_disp (WDisp (DConfig hubaddr rewardaddr std bd keeper rate)) f) = (w', (true, tr)) ->
  exists dp e1,
    w_disp w = Some dp /\ s = dp_owner dp /\ send_coins (w_env w) s A_disp f = Some e1 /\
    std = None /\ (forall r, rate = Some r -> r <= D) /\
    tr = [(s, MWasm A_disp (WDisp (DConfig hubaddr rewardaddr std bd keeper rate)) f)] /\
    w' = mkWorld (w_hub w) (w_reward w)
           (Some (mkDisp (dp_owner dp)
                    (match hubaddr with Some a => a | None => dp_hub dp end)
                    (match rewardaddr with Some a => a | None => dp_reward dp end)
                    (dp_std dp)
                    (match bd with Some x => x | None => dp_bd dp end)
                    (match keeper with Some a => a | None => dp_keeper dp end)
                    (match rate with Some x => x | None => dp_rate dp end)
                    (dp_swap dp) (dp_denoms dp) (dp_oracle dp) (dp_newowner dp)))
           (w_reg w) (w_bsei w) (w_stsei w) e1.
Proof. exact disp_config_tx. Qed.

(** dispatcher UpdateSwapDenom: appends the denom (even if present) or removes every occurrence *)
Theorem C20h_disp_swapdenom_tx : forall w s dn add f w' tr,
  step w (OTx s A_disp (WDisp (DSwapDenom dn add)) f) = (w', (true, tr)) ->
  exists dp e1,
    w_disp w = Some dp /\ s = dp_owner dp /\ send_coins (w_env w) s A_disp f = Some e1 /\
    tr = [(s, MWasm A_disp (WDisp (DSwapDenom dn add)) f)] /\
    w' = mkWorld (w_hub w) (w_reward w)
           (Some (mkDisp (dp_owner dp) (dp_hub dp) (dp_reward dp) (dp_std dp) (dp_bd dp) (dp_keeper dp)
                    (dp_rate dp) (dp_swap dp)
                    (if add then dp_denoms dp ++ [dn]
                     else filter (fun x => negb (x =? dn)) (dp_denoms dp))
                    (dp_oracle dp) (dp_newowner dp)))
           (w_reg w) (w_bsei w) (w_stsei w) e1.
Proof. exact disp_swapdenom_tx. Qed.

Theorem C20h_disp_swapcontract_tx : forall w s a f w' tr,
  step w (OTx s A_disp (WDisp (DSwapContract a)) f) = (w', (true, tr)) ->
  exists dp e1,
    w_disp w = Some dp /\ s = dp_owner dp /\ send_coins (w_env w) s A_disp f = Some e1 /\
    tr = [(s, MWasm A_disp (WDisp (DSwapContract a)) f)] /\
    w' = mkWorld (w_hub w) (w_reward w)
           (Some (mkDisp (dp_owner dp) (dp_hub dp) (dp_reward dp) (dp_std dp) (dp_bd dp) (dp_keeper dp)
                    (dp_rate dp) a (dp_denoms dp) (dp_oracle dp) (dp_newowner dp)))
           (w_reg w) (w_bsei w) (w_stsei w) e1.
Proof. exact disp_swapcontract_tx. Qed.

Theorem C20h_disp_oracle_tx : forall w s a f w' tr,
  step w (OTx s A_disp (WDisp (DOracle a)) f) = (w', (true, tr)) ->
  exists dp e1,
    w_disp w = Some dp /\ s = dp_owner dp /\ send_coins (w_env w) s A_disp f = Some e1 /\
    tr = [(s, MWasm A_disp (WDisp (DOracle a)) f)] /\
    w' = mkWorld (w_hub w) (w_reward w)
           (Some (mkDisp (dp_owner dp) (dp_hub dp) (dp_reward dp) (dp_std dp) (dp_bd dp) (dp_keeper dp)
                    (dp_rate dp) (dp_swap dp) (dp_denoms dp) a (dp_newowner dp)))
           (w_reg w) (w_bsei w) (w_stsei w) e1.
Proof. exact disp_oracle_tx. Qed.

(** reward UpdateConfig / UpdateSwapDenom: index state, holders, owner and nominee untouched *)
Theorem C20h_reward_config_tx : forall w s hubaddr dn swap f w' tr,
  step w (OTx s A_reward (WReward (RConfig hubaddr dn swap)) f) = (w', (true, tr)) ->
  exists r e1,
    w_reward w = Some r /\ s = rw_owner r /\ send_coins (w_env w) s A_reward f = Some e1 /\
    tr = [(s, MWasm A_reward (WReward (RConfig hubaddr dn swap)) f)] /\
    w' = mkWorld (w_hub w)
           (Some (mkReward (rw_owner r)
                    (match hubaddr with Some a => a | None => rw_hub r end)
                    (match dn with Some x => x | None => rw_denom r end)
                    (match swap with Some a => a | None => rw_swap r end)
                    (rw_denoms r) (rw_gi r) (rw_total r) (rw_prev r) (rw_holders r) (rw_newowner r)))
           (w_disp w) (w_reg w) (w_bsei w) (w_stsei w) e1.
Proof. exact reward_config_tx. Qed.

Theorem C20h_reward_swapdenom_tx : forall w s dn add f w' tr,
  step w (OTx s A_reward (WReward (RSwapDenom dn add)) f) = (w', (true, tr)) ->
  exists r e1,
    w_reward w = Some r /\ s = rw_owner r /\ send_coins (w_env w) s A_reward f = Some e1 /\
    tr = [(s, MWasm A_reward (WReward (RSwapDenom dn add)) f)] /\
    w' = mkWorld (w_hub w)
           (Some (mkReward (rw_owner r) (rw_hub r) (rw_denom r) (rw_swap r)
                    (if add then rw_denoms r ++ [dn]
                     else filter (fun x => negb (x =? dn)) (rw_denoms r))
                    (rw_gi r) (rw_total r) (rw_prev r) (rw_holders r) (rw_newowner r)))
           (w_disp w) (w_reg w) (w_bsei w) (w_stsei w) e1.
Proof. exact reward_swapdenom_tx. Qed.

(** registry UpdateConfig: validator list, owner and nominee untouched *)
Theorem C20h_reg_config_tx : forall w s hubaddr f w' tr,
  step w (OTx s A_reg (WReg (GConfig hubaddr)) f) = (w', (true, tr)) ->
  exists g e1,
    w_reg w = Some g /\ s = rg_owner g /\ send_coins (w_env w) s A_reg f = Some e1 /\
    tr = [(s, MWasm A_reg (WReg (GConfig hubaddr)) f)] /\
    w' = mkWorld (w_hub w) (w_reward w) (w_disp w)
           (Some (mkReg (rg_owner g) (match hubaddr with Some a => a | None => rg_hub g end)
                        (rg_vals g) (rg_newowner g)))
           (w_bsei w) (w_stsei w) e1.
Proof. exact reg_config_tx. Qed.

(** * Part 3 — parameters and configuration change ONLY through root transactions of the owner *)

(** no contract ever emits an owner-only message: in the trace of every successful transaction such
    a message occurs only at position 0, i.e. it is the root message signed by the transaction's
    sender (consequence of the closed message class of C10h) *)
Theorem C20h_admin_msg_only_root : forall w s tgt m f w' tr pre x to wm ff post,
  step w (OTx s tgt m f) = (w', (true, tr)) ->
  tr = pre ++ (x, MWasm to wm ff) :: post -> admin_msg wm = true ->
  pre = [] /\ x = s /\ to = tgt /\ wm = m /\ ff = f.
Proof. exact trace_root_only. Qed.

(** hub parameters: for every world and every operation, the parameter record is unchanged, or the
    operation resets / instantiates the hub, or it is a successful root UpdateParams signed by the
    stored owner whose trace is that single message, or it is a successful root
    MigrateUnbondWaitList (any signer) which turned the pause flag from [Some true] into [Some false]
    and changed no other field of the record *)
Theorem C20h_hub_params_step : forall w o,
  hub_params_of (fst (step w o)) = hub_params_of w \/
  reinst CHub o \/
  (exists s e u pf t pz rd f, o = OTx s A_hub (WHub (HParams e u pf t pz rd)) f /\
     hub_owner w = Some s /\
     snd (step w o) = (true, [(s, MWasm A_hub (WHub (HParams e u pf t pz rd)) f)])) \/
  (exists s lim f p, o = OTx s A_hub (WHub (HMigrate lim)) f /\
     hub_params_of w = Some p /\ hp_paused p = Some true /\
     hub_params_of (fst (step w o)) =
       Some (mkHubParams (hp_epoch p) (hp_underlying p) (hp_unbonding p) (hp_pegfee p) (hp_thr p)
                         (hp_rdenom p) (Some false)) /\
     snd (step w o) = (true, [(s, MWasm A_hub (WHub (HMigrate lim)) f)])).
Proof. exact hub_params_step. Qed.

Theorem C20h_hub_params_changes : forall w o,
  hub_params_of (fst (step w o)) <> hub_params_of w ->
  reinst CHub o \/
  (exists s e u pf t pz rd f, o = OTx s A_hub (WHub (HParams e u pf t pz rd)) f /\
     hub_owner w = Some s /\
     snd (step w o) = (true, [(s, MWasm A_hub (WHub (HParams e u pf t pz rd)) f)])) \/
  (exists s lim f p, o = OTx s A_hub (WHub (HMigrate lim)) f /\
     hub_params_of w = Some p /\ hp_paused p = Some true /\
     hub_params_of (fst (step w o)) =
       Some (mkHubParams (hp_epoch p) (hp_underlying p) (hp_unbonding p) (hp_pegfee p) (hp_thr p)
                         (hp_rdenom p) (Some false)) /\
     snd (step w o) = (true, [(s, MWasm A_hub (WHub (HMigrate lim)) f)])).
Proof. exact hub_params_changes. Qed.

(** hub config: unchanged, or reset / instantiate, or a successful root UpdateConfig signed by the
    stored owner (trace: the root, plus SetWithdrawAddress when a dispatcher address is supplied),
    or a successful root AcceptOwnership signed by the stored nominee, which replaced the creator
    field by the nominee and changed no other field *)
Theorem C20h_hub_config_step : forall w o,
  hub_config_of (fst (step w o)) = hub_config_of w \/
  reinst CHub o \/
  (exists s a b c d e f0 g f, o = OTx s A_hub (WHub (HConfig a b c d e f0 g)) f /\
     hub_owner w = Some s /\
     snd (step w o) = (true, (s, MWasm A_hub (WHub (HConfig a b c d e f0 g)) f) ::
                             match a with Some x => [(A_hub, MSetWithdrawAddr x)] | None => [] end)) \/
  (exists s f c, o = OTx s A_hub (WHub HAccept) f /\
     hub_nominee w = Some s /\ hub_config_of w = Some c /\
     hub_config_of (fst (step w o)) =
       Some (mkHubConfig s (hc_updater c) (hc_disp c) (hc_reg c) (hc_bsei c) (hc_stsei c)
                         (hc_airdrop c) (hc_rewards c)) /\
     snd (step w o) = (true, [(s, MWasm A_hub (WHub HAccept) f)])).
Proof. exact hub_config_step. Qed.

Theorem C20h_hub_config_changes : forall w o,
  hub_config_of (fst (step w o)) <> hub_config_of w ->
  reinst CHub o \/
  (exists s a b c d e f0 g f, o = OTx s A_hub (WHub (HConfig a b c d e f0 g)) f /\
     hub_owner w = Some s /\
     snd (step w o) = (true, (s, MWasm A_hub (WHub (HConfig a b c d e f0 g)) f) ::
                             match a with Some x => [(A_hub, MSetWithdrawAddr x)] | None => [] end)) \/
  (exists s f c, o = OTx s A_hub (WHub HAccept) f /\
     hub_nominee w = Some s /\ hub_config_of w = Some c /\
     hub_config_of (fst (step w o)) =
       Some (mkHubConfig s (hc_updater c) (hc_disp c) (hc_reg c) (hc_bsei c) (hc_stsei c)
                         (hc_airdrop c) (hc_rewards c)) /\
     snd (step w o) = (true, [(s, MWasm A_hub (WHub HAccept) f)])).
Proof. exact hub_config_changes. Qed.

(** dispatcher config (everything but owner / nominee, which C10h covers): unchanged, or reset /
    instantiate, or a successful root UpdateConfig / UpdateSwapContract / UpdateSwapDenom /
    UpdateOracleContract signed by the stored owner, whose trace is that single message *)
Theorem C20h_disp_config_step : forall w o,
  disp_config_of (fst (step w o)) = disp_config_of w \/
  reinst CDisp o \/
  (exists s dm f, o = OTx s A_disp (WDisp dm) f /\
     match dm with
     | DConfig _ _ _ _ _ _ | DSwapContract _ | DSwapDenom _ _ | DOracle _ => True
     | _ => False
     end /\
     disp_owner w = Some s /\
     snd (step w o) = (true, [(s, MWasm A_disp (WDisp dm) f)])).
Proof. exact disp_config_step. Qed.

Theorem C20h_disp_config_changes : forall w o,
  disp_config_of (fst (step w o)) <> disp_config_of w ->
  reinst CDisp o \/
  (exists s dm f, o = OTx s A_disp (WDisp dm) f /\
     match dm with
     | DConfig _ _ _ _ _ _ | DSwapContract _ | DSwapDenom _ _ | DOracle _ => True
     | _ => False
     end /\
     disp_owner w = Some s /\
     snd (step w o) = (true, [(s, MWasm A_disp (WDisp dm) f)])).
Proof. exact disp_config_changes. Qed.

(** reward config: unchanged, or reset / instantiate, or a successful root UpdateConfig /
    UpdateSwapDenom signed by the stored owner, whose trace is that single message *)
Theorem C20h_reward_config_step : forall w o,
  reward_config_of (fst (step w o)) = reward_config_of w \/
  reinst CReward o \/
  (exists s rm f, o = OTx s A_reward (WReward rm) f /\
     match rm with RConfig _ _ _ | RSwapDenom _ _ => True | _ => False end /\
     reward_owner w = Some s /\
     snd (step w o) = (true, [(s, MWasm A_reward (WReward rm) f)])).
Proof. exact reward_config_step. Qed.

Theorem C20h_reward_config_changes : forall w o,
  reward_config_of (fst (step w o)) <> reward_config_of w ->
  reinst CReward o \/
  (exists s rm f, o = OTx s A_reward (WReward rm) f /\
     match rm with RConfig _ _ _ | RSwapDenom _ _ => True | _ => False end /\
     reward_owner w = Some s /\
     snd (step w o) = (true, [(s, MWasm A_reward (WReward rm) f)])).
Proof. exact reward_config_changes. Qed.

(** registry: the stored hub address is unchanged, or reset / instantiate, or a successful root
    UpdateConfig carrying a hub address, signed by the stored owner — the only registry message that
    writes [rg_hub] *)
Theorem C20h_reg_hub_step : forall w o,
  reg_hub_of (fst (step w o)) = reg_hub_of w \/
  reinst CReg o \/
  (exists s a f, o = OTx s A_reg (WReg (GConfig (Some a))) f /\ reg_owner w = Some s /\
     reg_hub_of (fst (step w o)) = Some a /\
     snd (step w o) = (true, [(s, MWasm A_reg (WReg (GConfig (Some a))) f)])).
Proof. exact reg_hub_step. Qed.

Theorem C20h_reg_hub_changes : forall w o,
  reg_hub_of (fst (step w o)) <> reg_hub_of w ->
  reinst CReg o \/
  (exists s a f, o = OTx s A_reg (WReg (GConfig (Some a))) f /\ reg_owner w = Some s /\
     reg_hub_of (fst (step w o)) = Some a /\
     snd (step w o) = (true, [(s, MWasm A_reg (WReg (GConfig (Some a))) f)])).
Proof. exact reg_hub_changes. Qed.

(** along any history the stored record is constant on every stretch that contains no operation of
    the corresponding class — whatever else happens (bonding, unbonding, slashing, reward
    distribution, time, transactions of any sender to any contract, instantiation of the OTHER
    contracts) *)
Theorem C20h_hub_params_stretch : forall ops w,
  Forall (fun o => ~ hub_params_op o) ops -> hub_params_of (run_ops ops w) = hub_params_of w.
Proof. exact hub_params_stretch. Qed.

Theorem C20h_hub_config_stretch : forall ops w,
  Forall (fun o => ~ hub_config_op o) ops -> hub_config_of (run_ops ops w) = hub_config_of w.
Proof. exact hub_config_stretch. Qed.

Theorem C20h_disp_config_stretch : forall ops w,
  Forall (fun o => ~ disp_config_op o) ops -> disp_config_of (run_ops ops w) = disp_config_of w.
Proof. exact disp_config_stretch. Qed.

Theorem C20h_reward_config_stretch : forall ops w,
  Forall (fun o => ~ reward_config_op o) ops -> reward_config_of (run_ops ops w) = reward_config_of w.
Proof. exact reward_config_stretch. Qed.

Theorem C20h_reg_hub_stretch : forall ops w,
  Forall (fun o => ~ reg_hub_op o) ops -> reg_hub_of (run_ops ops w) = reg_hub_of w.
Proof. exact reg_hub_stretch. Qed.

Theorem C20h_hub_params_stretch_reachable : forall ut ops1 ops2,
  Forall (fun o => ~ hub_params_op o) ops2 ->
  hub_params_of (run_ops (ops1 ++ ops2) (empty_world ut)) = hub_params_of (run_ops ops1 (empty_world ut)).
Proof. exact hub_params_stretch_reachable. Qed.

(** a transaction that is not signed by the hub's owner and whose root is not a migration never
    changes the hub's parameters, whatever its target contract, payload and funds *)
Theorem C20h_hub_params_stranger_tx : forall w s tgt m f,
  hub_owner w <> Some s -> (forall lim, m <> WHub (HMigrate lim)) ->
  hub_params_of (fst (step w (OTx s tgt m f))) = hub_params_of w.
Proof. exact hub_params_stranger_tx. Qed.

(** ... nor does any sequence of transactions signed by addresses that are neither owner nor nominee
    (roots other than migrations; any target, payload, funds), interleaved with every
    non-transaction operation except reset / hub instantiate *)
Theorem C20h_hub_params_stranger_history : forall own nom ops w,
  Forall (stranger_op own nom) ops -> hub_owner w = Some own -> hub_nominee w = Some nom ->
  hub_params_of (run_ops ops w) = hub_params_of w /\
  hub_owner (run_ops ops w) = Some own /\ hub_nominee (run_ops ops w) = Some nom.
Proof. exact hub_params_stranger_history. Qed.

(** * Part 4 — ranges at the moment of acceptance; rejections; instantiate *)

Theorem C20h_pegfee_accepted_in_range : forall w s epoch unbonding x thr pz rdenom f w' tr,
  step w (OTx s A_hub (WHub (HParams epoch unbonding (Some x) thr pz rdenom)) f) = (w', (true, tr)) ->
  x <= D.
Proof. exact pegfee_accepted_in_range. Qed.

Theorem C20h_rate_accepted_in_range : forall w s hubaddr rewardaddr std bd keeper r f w' tr,
  step w (OTx s A_disp (WDisp (DConfig hubaddr rewardaddr std bd keeper (Some r))) f) = (w', (true, tr)) ->
  r <= D.
Proof. exact rate_accepted_in_range. Qed.

(** the statement "an accepted UpdateParams carrying threshold [y] has [y <= 1]" is FALSE: the
    threshold is never checked, it is clamped — accepted, and stored as min(y, 1) *)
Theorem C20h_thr_stored_clamped : forall w s epoch unbonding pegfee y pz rdenom f w' tr,
  step w (OTx s A_hub (WHub (HParams epoch unbonding pegfee (Some y) pz rdenom)) f) = (w', (true, tr)) ->
  exists h', w_hub w' = Some h' /\ hp_thr (h_params h') = N.min y D /\ hp_thr (h_params h') <= D.
Proof. exact thr_stored_clamped. Qed.

Theorem C20h_thr_above_one_accepted_witness :
  let m := WHub (HParams None None None (Some (2 * D)) (Some false) None) in
  D < 2 * D /\
  exists w', step world0 (OTx A_owner A_hub m []) = (w', (true, [(A_owner, MWasm A_hub m [])])) /\
    hub_params_of w' = Some (mkHubParams 30 usei 100 (D / 200) D uusd (Some false)).
Proof. exact thr_above_one_accepted_witness. Qed.

(** an out-of-range value makes the WHOLE update fail, whoever signs it and whatever the other
    fields are: the world is unchanged *)
Theorem C20h_hub_params_fee_rejected : forall w s epoch unbonding x thr pz rdenom f,
  D < x ->
  step w (OTx s A_hub (WHub (HParams epoch unbonding (Some x) thr pz rdenom)) f) = (w, (false, [])).
Proof. exact hub_params_fee_rejected. Qed.

Theorem C20h_disp_config_rate_rejected : forall w s hubaddr rewardaddr std bd keeper r f,
  D < r ->
  step w (OTx s A_disp (WDisp (DConfig hubaddr rewardaddr std bd keeper (Some r))) f) = (w, (false, [])).
Proof. exact disp_config_rate_rejected. Qed.

(** an update naming the stSei reward denomination is rejected (that denomination cannot be updated) *)
Theorem C20h_disp_config_std_rejected : forall w s hubaddr rewardaddr x bd keeper rate f,
  step w (OTx s A_disp (WDisp (DConfig hubaddr rewardaddr (Some x) bd keeper rate)) f) = (w, (false, [])).
Proof. exact disp_config_std_rejected. Qed.

(** an update trying to overwrite a token address that is already set is rejected *)
Theorem C20h_hub_config_token_rejected : forall w s a b c d e f0 g f h,
  w_hub w = Some h ->
  (c <> None /\ hc_bsei (h_cfg h) <> None) \/ (d <> None /\ hc_stsei (h_cfg h) <> None) ->
  step w (OTx s A_hub (WHub (HConfig a b c d e f0 g)) f) = (w, (false, [])).
Proof. exact hub_config_token_rejected. Qed.

(** the instantiate operations, as one equation each: accepted iff the peg fee (keeper rate) is
    <= 1; the threshold is clamped; the denominations are stored as given; a REJECTED instantiate
    sets the instance to [None] in the model (the previous instance, if any, is gone) *)
Theorem C20h_inst_hub_step : forall w sender epoch unbonding pegfee thr upd underlying rdenom,
  step w (OInstHub sender epoch unbonding pegfee thr upd underlying rdenom) =
  if pegfee <=? D
  then (set_w_hub w
          (Some (mkHub (mkHubConfig sender upd None None None None None None)
                       (mkHubState D D 0 0 (e_now (w_env w)) 0 (e_now (w_env w)) 0)
                       (mkHubParams epoch underlying unbonding pegfee (N.min thr D) rdenom (Some false))
                       (mkBatch 1 0 0) sender [] [] [])), (true, []))
  else (set_w_hub w None, (false, [])).
Proof. exact inst_hub_step. Qed.

Theorem C20h_inst_disp_step : forall w sender hubaddr rewardaddr std bd keeper rate swap oracle denoms,
  step w (OInstDisp sender hubaddr rewardaddr std bd keeper rate swap oracle denoms) =
  if rate <=? D
  then (set_w_disp w (Some (mkDisp sender hubaddr rewardaddr std bd keeper rate swap denoms oracle
                                   sender)), (true, []))
  else (set_w_disp w None, (false, [])).
Proof. exact inst_disp_step. Qed.

Theorem C20h_failed_inst_removes_witness :
  step world0 (OInstHub A_owner 30 100 (D + 1) D updater usei uusd) = (set_w_hub world0 None, (false, [])) /\
  step world0 (OInstDisp A_owner A_hub A_reward usei uusd keeper (D + 1) A_swap A_oracle [])
  = (set_w_disp world0 None, (false, [])).
Proof. exact failed_inst_removes_witness. Qed.

Print Assumptions C20h_underlying_step.
Print Assumptions C20h_stdenom_step.
Print Assumptions C20h_underlying_history.
Print Assumptions C20h_stdenom_history.
Print Assumptions C20h_underlying_fixed_by_instantiate.
Print Assumptions C20h_stdenom_fixed_by_instantiate.
Print Assumptions C20h_underlying_failed_instantiate.
Print Assumptions C20h_stdenom_failed_instantiate.
Print Assumptions C20h_reinst_changes_underlying_witness.
Print Assumptions C20h_reinst_changes_stdenom_witness.
Print Assumptions C20h_hub_params_tx.
Print Assumptions C20h_hub_params_tx_reachable.
Print Assumptions C20h_hub_config_tx.
Print Assumptions C20h_disp_config_tx.
Print Assumptions C20h_disp_swapdenom_tx.
Print Assumptions C20h_disp_swapcontract_tx.
Print Assumptions C20h_disp_oracle_tx.
Print Assumptions C20h_reward_config_tx.
Print Assumptions C20h_reward_swapdenom_tx.
Print Assumptions C20h_reg_config_tx.
Print Assumptions C20h_admin_msg_only_root.
Print Assumptions C20h_hub_params_step.
Print Assumptions C20h_hub_params_changes.
Print Assumptions C20h_hub_config_step.
Print Assumptions C20h_hub_config_changes.
Print Assumptions C20h_disp_config_step.
Print Assumptions C20h_disp_config_changes.
Print Assumptions C20h_reward_config_step.
Print Assumptions C20h_reward_config_changes.
Print Assumptions C20h_reg_hub_step.
Print Assumptions C20h_reg_hub_changes.
Print Assumptions C20h_hub_params_stretch.
Print Assumptions C20h_hub_config_stretch.
Print Assumptions C20h_disp_config_stretch.
Print Assumptions C20h_reward_config_stretch.
Print Assumptions C20h_reg_hub_stretch.
Print Assumptions C20h_hub_params_stretch_reachable.
Print Assumptions C20h_hub_params_stranger_tx.
Print Assumptions C20h_hub_params_stranger_history.
Print Assumptions C20h_pegfee_accepted_in_range.
Print Assumptions C20h_rate_accepted_in_range.
Print Assumptions C20h_thr_stored_clamped.
Print Assumptions C20h_thr_above_one_accepted_witness.
Print Assumptions C20h_hub_params_fee_rejected.
Print Assumptions C20h_disp_config_rate_rejected.
Print Assumptions C20h_disp_config_std_rejected.
Print Assumptions C20h_hub_config_token_rejected.
Print Assumptions C20h_inst_hub_step.
Print Assumptions C20h_inst_disp_step.
Print Assumptions C20h_failed_inst_removes_witness.
