(** C11 — Pause blocks every state-changing path except the owner's unpause.
    Property theorems only (proofs: Proofs/Pause.v). *)
From Krp Require Import Tactics Prelude Fixed FMap Types Env Registry Cw20 Hub Exec HubFrame HubAdmin Auth Pause.
Open Scope N_scope.

(** while paused, every message other than UpdateParams / MigrateUnbondWaitList is rejected by the
    hub, whoever sends it; the transaction then changes nothing and emits no message *)
Theorem C11_paused_blocks : forall w h self sender funds m,
  paused h = true ->
  (forall a b c d e f, m <> HParams a b c d e f) -> (forall l, m <> HMigrate l) ->
  hub_execute w h self sender funds m = None.
Proof. exact paused_blocks. Qed.

Theorem C11_paused_tx_rejected : forall w h sender funds m,
  w_hub w = Some h -> paused h = true ->
  (forall a b c d e f, m <> HParams a b c d e f) -> (forall l, m <> HMigrate l) ->
  step w (OTx sender A_hub (WHub m) funds) = (w, (false, [])).
Proof. exact paused_tx_rejected. Qed.

Theorem C11_params_owner_only : forall w h self sender funds a b c d e f h' out,
  hub_execute w h self sender funds (HParams a b c d e f) = Some (h', out) ->
  sender = hc_creator (h_cfg h).
Proof. exact paused_params_owner_only. Qed.

(** the hub cannot be unpaused while legacy wait-list entries remain (arbitrary legacy content) *)
Theorem C11_no_unpause_with_legacy : forall h sender a b c d pz f,
  h_oldwait h <> [] -> pz <> Some true ->
  execute_update_params h sender a b c d pz f = None.
Proof. exact no_unpause_with_legacy. Qed.

Theorem C11_migrate_unpauses_only_when_drained : forall h limit,
  hp_paused (h_params (migrate_wait_lists h limit)) <> hp_paused (h_params h) ->
  h_oldwait (migrate_wait_lists h limit) = [].
Proof. exact migrate_unpauses_only_when_drained. Qed.

(** queries keep working: they do not read the flag *)
Theorem C11_queries_ignore_pause : forall w self h pz u start limit,
  query_actual_state w self (with_paused h pz) = query_actual_state w self h /\
  hub_query_history (with_paused h pz) start limit = hub_query_history h start limit /\
  user_waits (with_paused h pz) u = user_waits h u /\
  h_batch (with_paused h pz) = h_batch h /\ h_cfg (with_paused h pz) = h_cfg h.
Proof. exact queries_ignore_pause. Qed.

(** a pause / unpause cycle restores exactly the pre-pause hub state (up to the representation of
    the cleared flag): no claim, pool total, batch, history entry or parameter differs *)
Theorem C11_pause_cycle_identity : forall h s1 s2 h1 h2 o1 o2 pz,
  HPInv h -> h_oldwait h = [] ->
  execute_update_params h s1 None None None None (Some true) None = Some (h1, o1) ->
  execute_update_params h1 s2 None None None None pz None = Some (h2, o2) ->
  h2 = with_paused h pz /\ paused h2 = (match pz with Some b => b | None => false end).
Proof. exact pause_cycle_identity. Qed.

Theorem C11_migrate_noop_without_legacy : forall h limit,
  h_oldwait h = [] -> migrate_wait_lists h limit = h.
Proof. exact migrate_noop. Qed.

Print Assumptions C11_paused_blocks.
Print Assumptions C11_paused_tx_rejected.
Print Assumptions C11_params_owner_only.
Print Assumptions C11_no_unpause_with_legacy.
Print Assumptions C11_migrate_unpauses_only_when_drained.
Print Assumptions C11_queries_ignore_pause.
Print Assumptions C11_pause_cycle_identity.
Print Assumptions C11_migrate_noop_without_legacy.
