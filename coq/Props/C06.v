(** C06 — Slashing is recognised exactly and shared pro-rata between the two pools; loss on stake
    slashed while unbonding is spread over the batches released together in proportion to their
    size, per token type.
    Property theorems only (proofs: Proofs/SlashP.v).

    Notation: D = 10^18; LIM = 10^18 is the magnitude bound of envelope E1 (DESIGN.md section 4);
    [delegated e x] = sum of x's delegations on the chain; [booked h] = hs_bb + hs_bst of the hub state.
    Short definitions from Proofs/SlashP.v used in the statements (restated by [C06_definitions]):
      batch_expected amount wrate = amount * wrate / D           coins a batch expects
      batch_charge u U L = min u (L * (u*D/U) / D + [L <> 0])    what a batch is charged for loss L
      split_b A st bt = A * (D - st*D/(st+bt)) / D  (0 if st+bt = 0)   bSei part of the arriving coins
      loss_of expected arrived = (|expected - arrived|, arrived > expected)
      pricing_msg m  <->  m is Bond, BondForStSei, BondRewards, CheckSlashing, Receive{Unbond} or
                          Receive{Convert}.
    All bounds are stated in integer form (no division), e.g.  x*T <= A*b < (x+2)*T  means
    A*b/T - 2 < x <= A*b/T over the reals. *)
From Krp Require Import Tactics Prelude Fixed FMap Types Env Registry Cw20 Reward Dispatcher Hub Exec
     Inv SlashP.
Open Scope N_scope.

Theorem C06_definitions :
  (forall amount wrate, batch_expected amount wrate = amount * wrate / D) /\
  (forall u U L, batch_charge u U L = N.min u (L * (u * D / U) / D + (if L =? 0 then 0 else 1))) /\
  (forall A st bt, split_b A st bt = A * (if 0 <? st + bt then D - st * D / (st + bt) else 0) / D) /\
  (forall x a, loss_of x a = if a <=? x then (x - a, false) else (a - x, true)) /\
  (forall m, pricing_msg m = true <->
     m = HBond \/ m = HBondSt \/ m = HBondRewards \/ m = HCheckSlashing \/
     (exists u a, m = HReceive u a HkUnbond) \/ (exists u a, m = HReceive u a HkConvert)).
Proof. exact Slash_defs. Qed.

(** ** the hub's view of the chain is the sum of its delegations *)
Theorem C06_actual_bonded_exact : forall w self h,
  hp_underlying (h_params h) = usei ->
  fits128 (delegated (w_env w) self) = true ->
  actual_bonded w self h = Some (delegated (w_env w) self).
Proof. exact actual_bonded_exact. Qed.

Theorem C06_actual_bonded_inv : forall w self h a,
  actual_bonded w self h = Some a ->
  hp_underlying (h_params h) = usei ->
  a = delegated (w_env w) self.
Proof. exact actual_bonded_inv. Qed.

(** ** a check that sees a loss books exactly the surviving delegated amount *)
Theorem C06_sync_exact : forall w self h s',
  query_actual_state w self h = Some s' ->
  hp_underlying (h_params h) = usei ->
  all_delegations (w_env w) self <> [] ->
  delegated (w_env w) self < booked h ->
  let A := delegated (w_env w) self in
  let bb := hs_bb (h_state h) in
  let bst := hs_bst (h_state h) in
  hs_bb s' + hs_bst s' = A /\
  hs_bb s' = A * (bb * D / (bb + bst)) / D /\
  hs_bst s' = A - hs_bb s' /\
  hs_lim s' = hs_lim (h_state h) /\ hs_phb s' = hs_phb (h_state h) /\
  hs_lut s' = hs_lut (h_state h) /\ hs_lpb s' = hs_lpb (h_state h).
Proof. exact sync_exact. Qed.

(** ... and shares it pro rata: under E1 each pool is within two base units of its exact share
    (bSei: at most its share and more than share - 2; stSei: at least its share and less than share + 2) *)
Theorem C06_sync_prorata : forall w self h s',
  query_actual_state w self h = Some s' ->
  hp_underlying (h_params h) = usei ->
  all_delegations (w_env w) self <> [] ->
  delegated (w_env w) self < booked h ->
  delegated (w_env w) self <= LIM ->
  let A := delegated (w_env w) self in
  let bb := hs_bb (h_state h) in
  let bst := hs_bst (h_state h) in
  let T := bb + bst in
  (hs_bb s' * T <= A * bb /\ A * bb < (hs_bb s' + 2) * T) /\
  (A * bst <= hs_bst s' * T /\ hs_bst s' * T < A * bst + 2 * T) /\
  (hs_bb s' <= A * bb / T /\ A * bb / T < hs_bb s' + 2) /\
  (A * bst / T <= hs_bst s' /\ hs_bst s' <= A * bst / T + 2).
Proof. exact sync_prorata. Qed.

(** empty pool on either side *)
Theorem C06_sync_empty_bsei_pool : forall w self h s',
  query_actual_state w self h = Some s' ->
  hp_underlying (h_params h) = usei ->
  all_delegations (w_env w) self <> [] ->
  delegated (w_env w) self < booked h ->
  hs_bb (h_state h) = 0 ->
  hs_bb s' = 0 /\ hs_bst s' = delegated (w_env w) self.
Proof. exact sync_empty_bsei_pool. Qed.

Theorem C06_sync_empty_stsei_pool : forall w self h s',
  query_actual_state w self h = Some s' ->
  hp_underlying (h_params h) = usei ->
  all_delegations (w_env w) self <> [] ->
  delegated (w_env w) self < booked h ->
  hs_bst (h_state h) = 0 ->
  hs_bb s' = delegated (w_env w) self /\ hs_bst s' = 0.
Proof. exact sync_empty_stsei_pool. Qed.

(** ** when the delegated amount is not below the books nothing changes *)
Theorem C06_sync_noop : forall w self h s',
  query_actual_state w self h = Some s' ->
  hp_underlying (h_params h) = usei ->
  booked h <= delegated (w_env w) self ->
  hs_bb s' = hs_bb (h_state h) /\ hs_bst s' = hs_bst (h_state h) /\
  hs_lim s' = hs_lim (h_state h) /\ hs_phb s' = hs_phb (h_state h) /\
  hs_lut s' = hs_lut (h_state h) /\ hs_lpb s' = hs_lpb (h_state h).
Proof. exact sync_noop. Qed.

Theorem C06_sync_no_delegations : forall w self h,
  all_delegations (w_env w) self = [] -> query_actual_state w self h = Some (h_state h).
Proof. exact sync_no_delegations. Qed.

Theorem C06_sync_zero_books : forall w self h s',
  query_actual_state w self h = Some s' -> booked h = 0 -> s' = h_state h.
Proof. exact sync_zero_books. Qed.

(** both cases in one: the booked total after a check is min(old books, delegated) *)
Theorem C06_sync_books_min : forall w self h s',
  query_actual_state w self h = Some s' ->
  hp_underlying (h_params h) = usei ->
  all_delegations (w_env w) self <> [] ->
  hs_bb s' + hs_bst s' = N.min (booked h) (delegated (w_env w) self).
Proof. exact sync_books_min. Qed.

(** a check never raises the booked total nor the bSei pool; the stSei pool can rise by at most one
    base unit under E1 (in the slashed case only), and not at all unless it is dust *)
Theorem C06_sync_never_raises : forall w self h s',
  query_actual_state w self h = Some s' ->
  hp_underlying (h_params h) = usei ->
  hs_bb s' + hs_bst s' <= booked h /\
  hs_bb s' <= hs_bb (h_state h) /\
  (delegated (w_env w) self <= LIM -> hs_bst s' <= hs_bst (h_state h) + 1) /\
  (delegated (w_env w) self * booked h <= hs_bst (h_state h) * D -> hs_bst s' <= hs_bst (h_state h)).
Proof. exact sync_never_raises. Qed.

(** WITNESS: that one unit does occur inside E1 (bSei pool 10000000000006, stSei pool 1, one unit
    lost: the stSei pool becomes 2 and its rate doubles) *)
Theorem C06_sync_st_pool_rise_exists :
  exists w self h s',
    query_actual_state w self h = Some s' /\ hp_underlying (h_params h) = usei /\
    delegated (w_env w) self <= LIM /\ booked h <= LIM /\
    delegated (w_env w) self < booked h /\
    hs_bst (h_state h) < hs_bst s' /\ hs_ser (h_state h) < hs_ser s'.
Proof. exact sync_st_pool_rise_exists. Qed.

(** ** after a slashing event *)
Theorem C06_slash_lowers_delegated : forall e v num den unb e' x,
  ev_slash e v num den unb = Some e' ->
  map fst (all_delegations e' x) = map fst (all_delegations e x) /\
  delegated e' x <= delegated e x.
Proof. exact slash_lowers_delegated. Qed.

Theorem C06_slash_then_check : forall w h v num den unb e' s',
  ev_slash (w_env w) v num den unb = Some e' ->
  hp_underlying (h_params h) = usei ->
  all_delegations (w_env w) A_hub <> [] ->
  query_actual_state (set_env w e') A_hub h = Some s' ->
  hs_bb s' + hs_bst s' = N.min (booked h) (delegated e' A_hub) /\
  delegated e' A_hub <= delegated (w_env w) A_hub /\
  (delegated e' A_hub < booked h -> hs_bb s' + hs_bst s' = delegated e' A_hub).
Proof. exact slash_then_check. Qed.

(** ** the check is idempotent and is the first thing every pricing operation does *)
Theorem C06_slashing_idempotent : forall w self h h1,
  slashing w self h = Some h1 -> slashing w self h1 = Some h1.
Proof. exact slashing_idempotent. Qed.

Theorem C06_sync_in_bond : forall w self sender funds k h,
  (forall r, execute_bond w h self sender funds k = Some r ->
     exists h1, slashing w self h = Some h1 /\ execute_bond w h1 self sender funds k = Some r) /\
  (forall h', slashing w self h = slashing w self h' ->
     execute_bond w h self sender funds k = execute_bond w h' self sender funds k).
Proof. exact sync_in_bond. Qed.

Theorem C06_sync_in_unbond : forall w self amount user h,
  (forall r, execute_unbond w h self amount user = Some r ->
     exists h1, slashing w self h = Some h1 /\ execute_unbond w h1 self amount user = Some r) /\
  (forall h', slashing w self h = slashing w self h' ->
     execute_unbond w h self amount user = execute_unbond w h' self amount user).
Proof. exact sync_in_unbond. Qed.

Theorem C06_sync_in_unbond_stsei : forall w self amount user h,
  (forall r, execute_unbond_stsei w h self amount user = Some r ->
     exists h1, slashing w self h = Some h1 /\ execute_unbond_stsei w h1 self amount user = Some r) /\
  (forall h', slashing w self h = slashing w self h' ->
     execute_unbond_stsei w h self amount user = execute_unbond_stsei w h' self amount user).
Proof. exact sync_in_unbond_stsei. Qed.

Theorem C06_sync_in_convert_stsei_bsei : forall w self amount user h,
  (forall r, convert_stsei_bsei w h self amount user = Some r ->
     exists h1, slashing w self h = Some h1 /\ convert_stsei_bsei w h1 self amount user = Some r) /\
  (forall h', slashing w self h = slashing w self h' ->
     convert_stsei_bsei w h self amount user = convert_stsei_bsei w h' self amount user).
Proof. exact sync_in_convert_stsei_bsei. Qed.

Theorem C06_sync_in_convert_bsei_stsei : forall w self amount user h,
  (forall r, convert_bsei_stsei w h self amount user = Some r ->
     exists h1, slashing w self h = Some h1 /\ convert_bsei_stsei w h1 self amount user = Some r) /\
  (forall h', slashing w self h = slashing w self h' ->
     convert_bsei_stsei w h self amount user = convert_bsei_stsei w h' self amount user).
Proof. exact sync_in_convert_bsei_stsei. Qed.

(** the same at the hub's entry point, for every message that prices tokens *)
Theorem C06_sync_in_every_pricing_msg : forall w self sender funds m h,
  pricing_msg m = true ->
  (forall r, hub_execute w h self sender funds m = Some r ->
     exists h1, slashing w self h = Some h1 /\ hub_execute w h1 self sender funds m = Some r) /\
  (forall h', slashing w self h = slashing w self h' ->
     hub_execute w h self sender funds m = hub_execute w h' self sender funds m).
Proof. exact sync_in_every_pricing_msg. Qed.

(** explicit CheckSlashing: exactly the synchronised hub, no messages *)
Theorem C06_check_slashing_result : forall w h self sender funds h' out,
  hub_execute w h self sender funds HCheckSlashing = Some (h', out) ->
  slashing w self h = Some h' /\ out = [] /\ paused h = false.
Proof. exact check_slashing_result. Qed.

Theorem C06_check_slashing_succeeds : forall w h self sender funds h1,
  paused h = false -> slashing w self h = Some h1 ->
  hub_execute w h self sender funds HCheckSlashing = Some (h1, []).
Proof. exact check_slashing_succeeds. Qed.

Theorem C06_check_slashing_tx : forall w sender h h1,
  w_hub w = Some h -> paused h = false -> slashing w A_hub h = Some h1 ->
  step w (OTx sender A_hub (WHub HCheckSlashing) []) =
    (set_hub w h1, (true, [(sender, MWasm A_hub (WHub HCheckSlashing) [])])).
Proof. exact check_slashing_tx. Qed.

Theorem C06_check_slashing_tx_inv : forall w sender w' tr,
  step w (OTx sender A_hub (WHub HCheckSlashing) []) = (w', (true, tr)) ->
  exists h h1, w_hub w = Some h /\ paused h = false /\ slashing w A_hub h = Some h1 /\
               w' = set_hub w h1 /\ w_env w' = w_env w.
Proof. exact check_slashing_tx_inv. Qed.

(** under E1 and the token wiring (E4) the check never fails *)
Theorem C06_sync_succeeds : forall w self h tb ts,
  hp_underlying (h_params h) = usei ->
  hc_bsei (h_cfg h) = Some A_bsei -> hc_stsei (h_cfg h) = Some A_stsei ->
  w_bsei w = Some tb -> w_stsei w = Some ts ->
  delegated (w_env w) self <= LIM -> booked h <= LIM ->
  tk_supply tb + cb_reqb (h_batch h) <= LIM -> tk_supply ts + cb_reqst (h_batch h) <= LIM ->
  exists s', query_actual_state w self h = Some s'.
Proof. exact sync_succeeds. Qed.

(** ** release groups: the share of one batch, per token type ([calculate_new_withdraw_rate]) *)
Theorem C06_group_charge_exact : forall amount wrate U L r,
  new_withdraw_rate amount wrate U L false = Some r ->
  amount <> 0 -> U <> 0 ->
  let u := batch_expected amount wrate in
  r = (u - batch_charge u U L) * D / amount.
Proof. exact group_charge_exact. Qed.

Theorem C06_group_charge_zero_total : forall amount wrate L r,
  new_withdraw_rate amount wrate 0 L false = Some r ->
  amount <> 0 ->
  let u := batch_expected amount wrate in
  r = (u - N.min u (if L =? 0 then 0 else 1)) * D / amount.
Proof. exact group_charge_zero_total. Qed.

Theorem C06_group_surplus_exact : forall amount wrate U L r,
  new_withdraw_rate amount wrate U L true = Some r ->
  amount <> 0 -> U <> 0 ->
  let u := batch_expected amount wrate in
  r = (u + (L * (u * D / U) / D - 1)) * D / amount.
Proof. exact group_surplus_exact. Qed.

Theorem C06_group_empty_batch : forall wrate U L neg r,
  new_withdraw_rate 0 wrate U L neg = Some r -> r = wrate.
Proof. exact group_empty_batch. Qed.

(** the charge is within one unit of the exact share u*L/U, never above what the batch expected *)
Theorem C06_group_charge_prorata : forall u U L,
  0 < U -> L <= U -> L <= LIM ->
  let s := batch_charge u U L in
  s <= u /\ s * U <= u * L + U /\ u * L < (s + 1) * U /\ (L = 0 -> s = 0).
Proof. exact group_charge_prorata. Qed.

Theorem C06_group_refloor : forall c amount,
  amount <> 0 ->
  let r := c * D / amount in
  amount * r / D <= c /\ (amount <= LIM -> c <= amount * r / D + 1).
Proof. exact group_refloor. Qed.

Theorem C06_group_no_loss_rate : forall amount wrate U r,
  new_withdraw_rate amount wrate U 0 false = Some r ->
  amount <> 0 -> U <> 0 ->
  r = batch_expected amount wrate * D / amount /\
  r <= wrate /\ amount * wrate < (r + 1) * amount + D.
Proof. exact group_no_loss_rate. Qed.

(** split of the arriving coins between the token types: exact, each side within one unit of pro rata *)
Theorem C06_group_split_prorata : forall A st bt,
  0 < st + bt -> A <= LIM ->
  let ba := split_b A st bt in
  let sa := A - ba in
  ba + sa = A /\
  (A * bt < (ba + 1) * (st + bt) /\ ba * (st + bt) < A * bt + (st + bt)) /\
  (A * st < (sa + 1) * (st + bt) /\ sa * (st + bt) < A * st + (st + bt)).
Proof. exact group_split_prorata. Qed.

(** inside the handler: every batch released together gets exactly these rates *)
Theorem C06_group_release_spec : forall h historical bal h',
  process_withdraw_rate h historical bal = Some h' ->
  let s := h_state h in
  let g := release_group (h_hist h) (hs_lpb s + 1) historical (length (h_hist h)) in
  g <> [] ->
  let st := sumN (map (fun ie => batch_expected (he_samt (snd ie)) (he_swithdraw (snd ie))) g) in
  let bt := sumN (map (fun ie => batch_expected (he_bamt (snd ie)) (he_bwithdraw (snd ie))) g) in
  hs_phb s <= bal /\
  let A := bal - hs_phb s in
  let ba := split_b A st bt in
  let sa := A - ba in
  (forall i e, In (i, e) g ->
     get N.eqb (h_hist h) i = Some e /\ he_released e = false /\
     exists sr br,
       new_withdraw_rate (he_samt e) (he_swithdraw e) st (fst (loss_of st sa)) (snd (loss_of st sa)) = Some sr /\
       new_withdraw_rate (he_bamt e) (he_bwithdraw e) bt (fst (loss_of bt ba)) (snd (loss_of bt ba)) = Some br /\
       get N.eqb (h_hist h') i =
         Some (mkHist (he_time e) (he_bamt e) (he_bapplied e) br (he_samt e) (he_sapplied e) sr true)) /\
  (forall k, ~ In k (map fst g) -> get N.eqb (h_hist h') k = get N.eqb (h_hist h) k) /\
  hs_bb (h_state h') = hs_bb s /\ hs_bst (h_state h') = hs_bst s /\ hs_phb (h_state h') = hs_phb s.
Proof. exact group_release_spec. Qed.

Theorem C06_group_release_prorata : forall h historical bal h',
  process_withdraw_rate h historical bal = Some h' ->
  let s := h_state h in
  let g := release_group (h_hist h) (hs_lpb s + 1) historical (length (h_hist h)) in
  g <> [] ->
  let st := sumN (map (fun ie => batch_expected (he_samt (snd ie)) (he_swithdraw (snd ie))) g) in
  let bt := sumN (map (fun ie => batch_expected (he_bamt (snd ie)) (he_bwithdraw (snd ie))) g) in
  let A := bal - hs_phb s in
  let ba := split_b A st bt in
  let sa := A - ba in
  forall i e, In (i, e) g ->
    exists e', get N.eqb (h_hist h') i = Some e' /\ he_released e' = true /\
      he_samt e' = he_samt e /\ he_bamt e' = he_bamt e /\
      (he_samt e <> 0 -> sa <= st ->
         let u := batch_expected (he_samt e) (he_swithdraw e) in
         he_swithdraw e' = (u - batch_charge u st (st - sa)) * D / he_samt e) /\
      (he_bamt e <> 0 -> ba <= bt ->
         let u := batch_expected (he_bamt e) (he_bwithdraw e) in
         he_bwithdraw e' = (u - batch_charge u bt (bt - ba)) * D / he_bamt e).
Proof. exact group_release_prorata. Qed.

Print Assumptions C06_definitions.
Print Assumptions C06_actual_bonded_exact.
Print Assumptions C06_actual_bonded_inv.
Print Assumptions C06_sync_exact.
Print Assumptions C06_sync_prorata.
Print Assumptions C06_sync_empty_bsei_pool.
Print Assumptions C06_sync_empty_stsei_pool.
Print Assumptions C06_sync_noop.
Print Assumptions C06_sync_no_delegations.
Print Assumptions C06_sync_zero_books.
Print Assumptions C06_sync_books_min.
Print Assumptions C06_sync_never_raises.
Print Assumptions C06_sync_st_pool_rise_exists.
Print Assumptions C06_slash_lowers_delegated.
Print Assumptions C06_slash_then_check.
Print Assumptions C06_slashing_idempotent.
Print Assumptions C06_sync_in_bond.
Print Assumptions C06_sync_in_unbond.
Print Assumptions C06_sync_in_unbond_stsei.
Print Assumptions C06_sync_in_convert_stsei_bsei.
Print Assumptions C06_sync_in_convert_bsei_stsei.
Print Assumptions C06_sync_in_every_pricing_msg.
Print Assumptions C06_check_slashing_result.
Print Assumptions C06_check_slashing_succeeds.
Print Assumptions C06_check_slashing_tx.
Print Assumptions C06_check_slashing_tx_inv.
Print Assumptions C06_sync_succeeds.
Print Assumptions C06_group_charge_exact.
Print Assumptions C06_group_charge_zero_total.
Print Assumptions C06_group_surplus_exact.
Print Assumptions C06_group_empty_batch.
Print Assumptions C06_group_charge_prorata.
Print Assumptions C06_group_refloor.
Print Assumptions C06_group_no_loss_rate.
Print Assumptions C06_group_split_prorata.
Print Assumptions C06_group_release_spec.
Print Assumptions C06_group_release_prorata.
