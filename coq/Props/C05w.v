(** C05 at TRANSACTION (world / observable) level — the peg-recovery fee is bounded and never
    over-collects past the 1:1 peg, for the four fee-charging paths Bond, Unbond (bSei),
    Convert stSei -> bSei and Convert bSei -> stSei.
    Property theorems only; proofs in Proofs/FeeTx.v (Bond, Converts), Proofs/FeeTxUnbond.v (Unbond),
    Proofs/FeeTxHist.v (histories, counter-example, non-vacuity).

    Props/C05.v speaks about the hub HANDLERS and takes "the supply after is S + minted / S - burned"
    and "the rate used is backing over claims" as explicit arithmetic links.  Here the links are
    closed: every theorem is about [run tx_fuel w [(user, root message)] [] = Some (w', tr)] — the whole
    message tree executed depth first (funds transfer, token Send, reward-contract mirror, hub handler,
    Delegate / Undelegate legs, token Mint / Burn, CheckSlashing callback) — about what the State
    query [hub_query_state _ A_hub] reports in the world before ([s]) and after ([s']) and about the
    token balances / unbond request of the sender stored in the two worlds.

    Vocabulary (each restated below as a [C05w_def_*] theorem proved by reflexivity):
      [w_claims_b w]     bSei total supply + bSei requests of the open batch, as stored in [w]
                         (token contract state and hub state)                       (RateTx.v, C04w)
      [conv_stb_fee h s sb d m0]  peg fee of a minting path (Bond with d = payment, stSei -> bSei with
                         d = coin value of the stSei): if rate_b < threshold then
                         min (m0 * peg_fee / 1e18) (sb + m0 + requests - (backing + d)) else 0,
                         [m0] the no-fee mint                                        (RateTxConvert.v, C04w)
      [conv_bst_fee h s sb a]     peg fee of bSei -> stSei                            (RateTxConvert.v, C04w)
      [unbond_b_fee h s sb a]     peg fee of a bSei Unbond of [a]: if rate_b < threshold then
                         min (a * peg_fee / 1e18) (sb + requests - backing) else 0
      [epoch_over w h]   hp_epoch < now - time of the last undelegation: the Receive{Unbond} hook
                         closes the open batch (ExitTx.v); [EpochOpen w]: not so in [w]
      [PegBelow w]       whatever the State query of [w] reports: bSei backing <= [w_claims_b w] and
                         bSei rate <= 1
      [PegDust k w]      reported bSei backing <= [w_claims_b w] + k
      [peg_mint_op o]    [o] is a Bond / BondForStSei / Convert stSei -> bSei transaction
      [peg_open_op o]    ... or a bSei Unbond transaction
      [rate_of B C]      (Inv.v) 1e18 when B = 0 or C = 0, else floor(B * 1e18 / C)
    Named hypotheses defined elsewhere: [Wired] (Inv.v, E4), [EntWf] (BooksP.v: delegation table well
    formed, stake booked only while the hub has a delegation entry — holds in every reachable world,
    C02_EntWf_reachable), [SoundRates], [RateEnv], [rate_op] (C04w), [LIM] = 1e18 (E1).
    "Starts with the bSei rate below 1" is [hs_ber s < D] for the state [s] the State query reports in [w].
    No hypothesis says that the reported rate is synchronised: [C05w_reported_rate] proves it from
    [Wired] and [EntWf].

    Findings.
    (1) Per transaction the property holds as stated: no fee at/above the threshold, fee <=
        floor(x * peg_fee), credited <= no-fee amount, and from a rate below 1 the pool ends with
        backing <= claims (Bond, stSei -> bSei, Unbond that leaves the batch open) or backing <= claims + 1
        (bSei -> stSei, Unbond that closes the batch); the + 1 is attained in both cases
        ([C05w_dust_trace] second line, [C05w_example_unbond_closing_dust]).
    (2) Along histories "backing <= claims, rate <= 1" is an invariant of Bond / BondForStSei /
        stSei -> bSei / non-closing bSei Unbond operations ([C05w_peg_below_history*]); the two
        redeeming operations can leave one unit of dust, AFTER which the reported rate is above 1 and
        "backing <= claims + k" is NOT an invariant for any fixed k: every later bond is priced above
        1 with floor rounding, so the surplus grows with the pool ([C05w_peg_dust_history_refuted]:
        +1, +2, +4, +14 along five successful Bond / Convert transactions). *)
From Krp Require Import Tactics Prelude Fixed FMap Types Env Registry Cw20 Reward Dispatcher Hub Exec
     ExecP Hist Inv Cw20P MirrorWire MirrorP HubRates BooksEnv BooksHub BooksP BooksLiquid
     IndexRun IndexPhases IndexP ExitWorld ExitP ExitTx RateTxLegs RateTx RateTxConvert RateTxExamples
     FeeTx FeeTxUnbond FeeTxHist.
Open Scope N_scope.

(** * 0. vocabulary *)
Theorem C05w_def_w_claims_b : forall w, w_claims_b w =
  match w_hub w, w_bsei w with
  | Some h, Some tb => tk_supply tb + cb_reqb (h_batch h) | _, _ => 0 end.
Proof. exact def_w_claims_b. Qed.

Theorem C05w_def_conv_stb_fee : forall h s sb d m0, conv_stb_fee h s sb d m0 =
  if hs_ber s <? hp_thr (h_params h)
  then N.min (m0 * hp_pegfee (h_params h) / D) (sb + m0 + cb_reqb (h_batch h) - (hs_bb s + d))
  else 0.
Proof. exact def_conv_stb_fee. Qed.

Theorem C05w_def_conv_bst_fee : forall h s sb amount, conv_bst_fee h s sb amount =
  if hs_ber s <? hp_thr (h_params h)
  then N.min (amount * hp_pegfee (h_params h) / D)
             (if hs_bb s =? 0 then sb + cb_reqb (h_batch h) - hs_bb s
              else (sb + cb_reqb (h_batch h) - hs_bb s) * (sb + cb_reqb (h_batch h) - amount) / hs_bb s)
  else 0.
Proof. exact def_conv_bst_fee. Qed.

Theorem C05w_def_unbond_b_fee : forall h s sb a, unbond_b_fee h s sb a =
  if hs_ber s <? hp_thr (h_params h)
  then N.min (a * hp_pegfee (h_params h) / D) (sb + cb_reqb (h_batch h) - hs_bb s)
  else 0.
Proof. exact def_unbond_b_fee. Qed.

Theorem C05w_def_epoch_over : forall w h,
  epoch_over w h = (hp_epoch (h_params h) <? e_now (w_env w) - hs_lut (h_state h)).
Proof. exact def_epoch_over. Qed.

Theorem C05w_def_EpochOpen : forall w,
  EpochOpen w <-> forall h, w_hub w = Some h -> epoch_over w h = false.
Proof. exact def_EpochOpen. Qed.

Theorem C05w_def_PegBelow : forall w, PegBelow w <->
  forall s, hub_query_state w A_hub = Some s -> hs_bb s <= w_claims_b w /\ hs_ber s <= D.
Proof. exact def_PegBelow. Qed.

Theorem C05w_def_PegDust : forall k w, PegDust k w <->
  forall s, hub_query_state w A_hub = Some s -> hs_bb s <= w_claims_b w + k.
Proof. exact def_PegDust. Qed.

Theorem C05w_def_peg_mint_op : forall o, peg_mint_op o <->
  (exists user hm funds, o = OTx user A_hub (WHub hm) funds /\ (hm = HBond \/ hm = HBondSt)) \/
  (exists user amount funds, o = OTx user A_stsei (WCw20 (CSend A_hub amount HkConvert)) funds).
Proof. exact def_peg_mint_op. Qed.

Theorem C05w_def_peg_open_op : forall o, peg_open_op o <->
  peg_mint_op o \/ (exists user a funds, o = OTx user A_bsei (WCw20 (CSend A_hub a HkUnbond)) funds).
Proof. exact def_peg_open_op. Qed.

(** * 1. the link between the reported rate and under-backing, in observable form.
    In a wired world in which stake is booked only while the hub has delegations the bSei rate the
    State query reports IS backing over claims of the same world, or the reported bSei pool is empty;
    hence a reported rate below 1 means backing <= claims; and backing <= claims + k bounds the exact
    rate by 1 + floor(k * 1e18 / claims). *)
Theorem C05w_reported_rate : forall w s,
  Wired w -> EntWf w -> hub_query_state w A_hub = Some s ->
  hs_ber s = rate_of (hs_bb s) (w_claims_b w) \/ hs_bb s = 0.
Proof. exact ft_reported. Qed.

Theorem C05w_rate_below_one : forall w s,
  Wired w -> EntWf w -> hub_query_state w A_hub = Some s -> hs_ber s < D -> hs_bb s <= w_claims_b w.
Proof. exact ft_below_one. Qed.

Theorem C05w_rate_dust : forall B C k, B <= C + k -> rate_of B C <= D + k * D / C.
Proof. exact ft_rate_dust. Qed.

(** * 2. Bond.  [p] the payment, [m0 = floor(p / rate_b)] the no-fee mint, [fee] the peg fee:
    the sender's bSei balance and the supply grow by exactly [m0 - fee]; [fee < m0] (never negative,
    something is always credited), [fee <= floor(m0 * peg_fee)]; at/above the threshold the fee is 0 and
    exactly [m0] is credited; in all cases  m0 - floor(m0 * peg_fee) <= credited <= m0. *)
Theorem C05w_bond_fee : forall w user funds w' tr h tb,
  Wired w -> EntWf w -> w_hub w = Some h -> w_bsei w = Some tb ->
  run tx_fuel w [(user, MWasm A_hub (WHub HBond) funds)] [] = Some (w', tr) ->
  exists p s tb',
    funds = [(usei, p)] /\ 0 < p /\ hub_query_state w A_hub = Some s /\ w_bsei w' = Some tb' /\
    let m0 := p * D / hs_ber s in
    let fee := conv_stb_fee h s (tk_supply tb) p m0 in
    tbal tb' user = tbal tb user + (m0 - fee) /\ tk_supply tb' = tk_supply tb + (m0 - fee) /\
    (forall a, a <> user -> tbal tb' a = tbal tb a) /\
    fee < m0 /\ fee <= m0 * hp_pegfee (h_params h) / D /\
    (hp_thr (h_params h) <= hs_ber s -> fee = 0 /\ tbal tb' user = tbal tb user + m0) /\
    tbal tb user + (m0 - m0 * hp_pegfee (h_params h) / D) <= tbal tb' user /\
    tbal tb' user <= tbal tb user + m0.
Proof. exact feetx_bond_fee. Qed.

(** no overshoot, observable form: a Bond that starts with the reported bSei rate below 1 ends in a
    world whose State query reports backing <= claims stored in that world, and a rate <= 1 which is
    backing over claims — exactly, no dust *)
Theorem C05w_bond_no_overshoot : forall w user funds w' tr s s',
  Wired w -> EntWf w ->
  run tx_fuel w [(user, MWasm A_hub (WHub HBond) funds)] [] = Some (w', tr) ->
  hub_query_state w A_hub = Some s -> hub_query_state w' A_hub = Some s' ->
  hs_ber s < D ->
  hs_bb s' <= w_claims_b w' /\ hs_ber s' <= D /\ hs_ber s' = rate_of (hs_bb s') (w_claims_b w').
Proof. exact feetx_bond_no_overshoot. Qed.

(** the same from "backing <= claims and rate <= 1" (the rate may be exactly 1) *)
Theorem C05w_bond_peg : forall w user funds w' tr s s',
  Wired w -> EntWf w ->
  run tx_fuel w [(user, MWasm A_hub (WHub HBond) funds)] [] = Some (w', tr) ->
  hub_query_state w A_hub = Some s -> hub_query_state w' A_hub = Some s' ->
  hs_bb s <= w_claims_b w -> hs_ber s <= D ->
  hs_bb s' <= w_claims_b w' /\ hs_ber s' <= D /\ hs_ber s' = rate_of (hs_bb s') (w_claims_b w').
Proof. exact feetx_bond_peg. Qed.

(** * 3. Unbond of bSei.  The world after the whole transaction (effect direction; Props/C09w.v has
    the success direction): [a] bSei leave the sender and the supply; the sender's bSei claim for the
    batch that was open grows by [a - fee]; either the request joins the open batch and the pools are
    the reported ones, or (epoch over) the batch — all earlier requests plus [a - fee] — is closed,
    priced at [r1] = backing over the claims AFTER fee and burn, and its coins leave the bSei pool;
    the State query of the new world reports at most the stored bSei pool. *)
Theorem C05w_unbond_tx_effect : forall w user a funds w' tr h tb,
  Wired w -> EntWf w -> w_hub w = Some h -> w_bsei w = Some tb ->
  run tx_fuel w [(user, MWasm A_bsei (WCw20 (CSend A_hub a HkUnbond)) funds)] [] = Some (w', tr) ->
  exists s h' tb',
    hub_query_state w A_hub = Some s /\
    let id := cb_id (h_batch h) in
    let fee := unbond_b_fee h s (tk_supply tb) a in
    let q := cb_reqb (h_batch h) + (a - fee) in
    let r1 := rate_of (hs_bb s) (tk_supply tb - a + q) in
    fee <= a /\ a <= tbal tb user /\ a <= tk_supply tb /\
    w_hub w' = Some h' /\ w_bsei w' = Some tb' /\ w_stsei w' = w_stsei w /\
    tk_supply tb' + a = tk_supply tb /\ tbal tb' user + a = tbal tb user /\
    (forall x, x <> user -> tbal tb' x = tbal tb x) /\
    wait_of h' user id = (fst (wait_of h user id) + (a - fee), snd (wait_of h user id)) /\
    (forall u b, (u, b) <> (user, id) -> wait_of h' u b = wait_of h u b) /\
    h_cfg h' = h_cfg h /\ h_params h' = h_params h /\
    (epoch_over w h = false ->
       h_batch h' = mkBatch id q (cb_reqst (h_batch h)) /\
       hs_bb (h_state h') = hs_bb s /\ hs_bst (h_state h') = hs_bst s /\ hs_ber (h_state h') = r1) /\
    (epoch_over w h = true ->
       h_batch h' = mkBatch (id + 1) 0 0 /\
       q * r1 / D <= hs_bb s /\ hs_bb (h_state h') = hs_bb s - q * r1 / D /\
       hs_bst (h_state h') = hs_bst s - cb_reqst (h_batch h) * hs_ser s / D /\ hs_ber (h_state h') = r1) /\
    (forall s', hub_query_state w' A_hub = Some s' -> hs_bb s' <= hs_bb (h_state h')).
Proof. exact unbond_b_tx_effect. Qed.

(** what the sender is credited: [a] tokens leave, the recorded claim grows by [a - fee];
    [fee <= a], [fee <= floor(a * peg_fee)]; at/above the threshold the claim is exactly [a];
    in all cases  a - floor(a * peg_fee) <= claim <= a *)
Theorem C05w_unbond_fee : forall w user a funds w' tr h tb,
  Wired w -> EntWf w -> w_hub w = Some h -> w_bsei w = Some tb ->
  run tx_fuel w [(user, MWasm A_bsei (WCw20 (CSend A_hub a HkUnbond)) funds)] [] = Some (w', tr) ->
  exists s h' tb',
    hub_query_state w A_hub = Some s /\ w_hub w' = Some h' /\ w_bsei w' = Some tb' /\
    let id := cb_id (h_batch h) in
    let fee := unbond_b_fee h s (tk_supply tb) a in
    tbal tb' user + a = tbal tb user /\ tk_supply tb' + a = tk_supply tb /\
    fst (wait_of h' user id) = fst (wait_of h user id) + (a - fee) /\
    snd (wait_of h' user id) = snd (wait_of h user id) /\
    fee <= a /\ fee <= a * hp_pegfee (h_params h) / D /\
    (hp_thr (h_params h) <= hs_ber s -> fee = 0 /\ fst (wait_of h' user id) = fst (wait_of h user id) + a) /\
    fst (wait_of h user id) + (a - a * hp_pegfee (h_params h) / D) <= fst (wait_of h' user id) /\
    fst (wait_of h' user id) <= fst (wait_of h user id) + a.
Proof. exact feetx_unbond_fee. Qed.

(** no overshoot, observable form (E1: bSei claims <= 1e18): from a reported rate below 1 the new world
    reports backing <= claims + 1, and backing <= claims exactly when the batch was not closed; the
    reported rate is backing over claims (or the reported pool is empty), hence <= 1 + floor(1e18 / claims),
    resp. <= 1 *)
Theorem C05w_unbond_no_overshoot : forall w user a funds w' tr h s s',
  Wired w -> EntWf w -> w_claims_b w <= LIM -> w_hub w = Some h ->
  run tx_fuel w [(user, MWasm A_bsei (WCw20 (CSend A_hub a HkUnbond)) funds)] [] = Some (w', tr) ->
  hub_query_state w A_hub = Some s -> hub_query_state w' A_hub = Some s' ->
  hs_ber s < D ->
  hs_bb s' <= w_claims_b w' + 1 /\
  (epoch_over w h = false -> hs_bb s' <= w_claims_b w') /\
  (hs_ber s' = rate_of (hs_bb s') (w_claims_b w') \/ hs_bb s' = 0) /\
  (0 < hs_bb s' -> hs_ber s' <= D + D / w_claims_b w') /\
  (0 < hs_bb s' -> epoch_over w h = false -> hs_ber s' <= D).
Proof. exact feetx_unbond_no_overshoot. Qed.

Theorem C05w_unbond_peg : forall w user a funds w' tr h s s',
  Wired w -> EntWf w -> w_claims_b w <= LIM -> w_hub w = Some h ->
  run tx_fuel w [(user, MWasm A_bsei (WCw20 (CSend A_hub a HkUnbond)) funds)] [] = Some (w', tr) ->
  hub_query_state w A_hub = Some s -> hub_query_state w' A_hub = Some s' ->
  hs_bb s <= w_claims_b w ->
  hs_bb s' <= w_claims_b w' + 1 /\
  (epoch_over w h = false -> hs_bb s' <= w_claims_b w') /\
  (hs_ber s' = rate_of (hs_bb s') (w_claims_b w') \/ hs_bb s' = 0) /\
  (0 < hs_bb s' -> hs_ber s' <= D + D / w_claims_b w') /\
  (0 < hs_bb s' -> epoch_over w h = false -> hs_ber s' <= D).
Proof. exact feetx_unbond_peg. Qed.

(** an Unbond that leaves the batch open (no magnitude bound needed): backing <= claims is kept and
    the reported rate stays <= 1 *)
Theorem C05w_unbond_open_peg : forall w user a funds w' tr h s s',
  Wired w -> EntWf w -> w_hub w = Some h -> epoch_over w h = false ->
  run tx_fuel w [(user, MWasm A_bsei (WCw20 (CSend A_hub a HkUnbond)) funds)] [] = Some (w', tr) ->
  hub_query_state w A_hub = Some s -> hub_query_state w' A_hub = Some s' ->
  hs_bb s <= w_claims_b w ->
  hs_bb s' <= w_claims_b w' /\ hs_ber s' <= D.
Proof. exact feetx_unbond_open_peg. Qed.

(** * 4. Convert stSei -> bSei.  [d = floor(amount x rate_st)] coins move, [m0 = floor(d / rate_b)]
    is the no-fee mint; as for Bond *)
Theorem C05w_conv_st_b_fee : forall w user amount funds w' tr h tb,
  Wired w -> EntWf w -> w_hub w = Some h -> w_bsei w = Some tb ->
  run tx_fuel w [(user, MWasm A_stsei (WCw20 (CSend A_hub amount HkConvert)) funds)] [] = Some (w', tr) ->
  exists s tb',
    hub_query_state w A_hub = Some s /\ w_bsei w' = Some tb' /\
    let d := amount * hs_ser s / D in
    let m0 := d * D / hs_ber s in
    let fee := conv_stb_fee h s (tk_supply tb) d m0 in
    tbal tb' user = tbal tb user + (m0 - fee) /\ tk_supply tb' = tk_supply tb + (m0 - fee) /\
    (forall a, a <> user -> tbal tb' a = tbal tb a) /\
    fee < m0 /\ fee <= m0 * hp_pegfee (h_params h) / D /\
    (hp_thr (h_params h) <= hs_ber s -> fee = 0 /\ tbal tb' user = tbal tb user + m0) /\
    tbal tb user + (m0 - m0 * hp_pegfee (h_params h) / D) <= tbal tb' user /\
    tbal tb' user <= tbal tb user + m0.
Proof. exact feetx_conv_st_b_fee. Qed.

Theorem C05w_conv_st_b_no_overshoot : forall w user amount funds w' tr s s',
  Wired w -> EntWf w ->
  run tx_fuel w [(user, MWasm A_stsei (WCw20 (CSend A_hub amount HkConvert)) funds)] [] = Some (w', tr) ->
  hub_query_state w A_hub = Some s -> hub_query_state w' A_hub = Some s' ->
  hs_ber s < D ->
  hs_bb s' <= w_claims_b w' /\ hs_ber s' <= D /\ hs_ber s' = rate_of (hs_bb s') (w_claims_b w').
Proof. exact feetx_conv_st_b_no_overshoot. Qed.

Theorem C05w_conv_st_b_peg : forall w user amount funds w' tr s s',
  Wired w -> EntWf w ->
  run tx_fuel w [(user, MWasm A_stsei (WCw20 (CSend A_hub amount HkConvert)) funds)] [] = Some (w', tr) ->
  hub_query_state w A_hub = Some s -> hub_query_state w' A_hub = Some s' ->
  hs_bb s <= w_claims_b w -> hs_ber s <= D ->
  hs_bb s' <= w_claims_b w' /\ hs_ber s' <= D /\ hs_ber s' = rate_of (hs_bb s') (w_claims_b w').
Proof. exact feetx_conv_st_b_peg. Qed.

(** * 5. Convert bSei -> stSei.  [credit x] = the stSei minted for redeeming [x] bSei at the reported
    rates: floor(floor(x x rate_b) / rate_st).  The sender is credited [credit (amount - fee)];
    [fee <= amount], [fee <= floor(amount * peg_fee)]; at/above the threshold no fee: exactly
    floor(amount x rate_b) coins move from the bSei pool to the stSei pool and [credit amount] is minted;
    in all cases  credit (amount - floor(amount * peg_fee)) <= credited <= credit amount. *)
Theorem C05w_conv_b_st_fee : forall w user amount funds w' tr h ts,
  Wired w -> EntWf w -> w_hub w = Some h -> w_stsei w = Some ts ->
  run tx_fuel w [(user, MWasm A_bsei (WCw20 (CSend A_hub amount HkConvert)) funds)] [] = Some (w', tr) ->
  exists s tb ts',
    hub_query_state w A_hub = Some s /\ w_bsei w = Some tb /\ w_stsei w' = Some ts' /\
    let fee := conv_bst_fee h s (tk_supply tb) amount in
    let credit x := x * hs_ber s / D * D / hs_ser s in
    tbal ts' user = tbal ts user + credit (amount - fee) /\
    tk_supply ts' = tk_supply ts + credit (amount - fee) /\
    (forall a, a <> user -> tbal ts' a = tbal ts a) /\
    fee <= amount /\ fee <= amount * hp_pegfee (h_params h) / D /\
    (hp_thr (h_params h) <= hs_ber s ->
       fee = 0 /\ tbal ts' user = tbal ts user + credit amount /\
       forall s', hub_query_state w' A_hub = Some s' ->
         hs_bb s' = hs_bb s - amount * hs_ber s / D /\ hs_bst s' = hs_bst s + amount * hs_ber s / D) /\
    tbal ts user + credit (amount - amount * hp_pegfee (h_params h) / D) <= tbal ts' user /\
    tbal ts' user <= tbal ts user + credit amount.
Proof. exact feetx_conv_b_st_fee. Qed.

(** no overshoot beyond one base unit (two floors), within E1 (bSei claims <= 1e18); rate form:
    reported rate' = backing' over claims' <= 1 + floor(1e18 / claims') *)
Theorem C05w_conv_b_st_no_overshoot : forall w user amount funds w' tr s s',
  Wired w -> EntWf w -> w_claims_b w <= LIM ->
  run tx_fuel w [(user, MWasm A_bsei (WCw20 (CSend A_hub amount HkConvert)) funds)] [] = Some (w', tr) ->
  hub_query_state w A_hub = Some s -> hub_query_state w' A_hub = Some s' ->
  hs_ber s < D ->
  hs_bb s' <= w_claims_b w' + 1 /\ hs_ber s' <= D + D / w_claims_b w' /\
  hs_ber s' = rate_of (hs_bb s') (w_claims_b w').
Proof. exact feetx_conv_b_st_no_overshoot. Qed.

Theorem C05w_conv_b_st_peg : forall w user amount funds w' tr s s',
  Wired w -> EntWf w -> w_claims_b w <= LIM ->
  run tx_fuel w [(user, MWasm A_bsei (WCw20 (CSend A_hub amount HkConvert)) funds)] [] = Some (w', tr) ->
  hub_query_state w A_hub = Some s -> hub_query_state w' A_hub = Some s' ->
  hs_bb s <= w_claims_b w ->
  hs_bb s' <= w_claims_b w' + 1 /\ hs_ber s' <= D + D / w_claims_b w' /\
  hs_ber s' = rate_of (hs_bb s') (w_claims_b w').
Proof. exact feetx_conv_b_st_peg. Qed.

(** * 6. one operation of a history, successful or not (a failed transaction leaves the world
    unchanged).  Operations that keep "backing <= claims, rate <= 1": *)
Theorem C05w_peg_step_bond : forall w user hm funds,
  Wired w -> EntWf w -> hm = HBond \/ hm = HBondSt -> PegBelow w ->
  PegBelow (fst (step w (OTx user A_hub (WHub hm) funds))).
Proof. exact peg_step_bond. Qed.

Theorem C05w_peg_step_conv_st_b : forall w user amount funds,
  Wired w -> EntWf w -> PegBelow w ->
  PegBelow (fst (step w (OTx user A_stsei (WCw20 (CSend A_hub amount HkConvert)) funds))).
Proof. exact peg_step_conv_st_b. Qed.

Theorem C05w_peg_step_unbond_open : forall w user a funds,
  Wired w -> EntWf w -> EpochOpen w -> PegBelow w ->
  PegBelow (fst (step w (OTx user A_bsei (WCw20 (CSend A_hub a HkUnbond)) funds))).
Proof. exact peg_step_unbond_open. Qed.

(** the two operations that can raise the bSei backing above the claims — by at most one unit *)
Theorem C05w_peg_step_conv_b_st : forall w user amount funds,
  Wired w -> EntWf w -> w_claims_b w <= LIM -> PegBelow w ->
  PegDust 1 (fst (step w (OTx user A_bsei (WCw20 (CSend A_hub amount HkConvert)) funds))).
Proof. exact peg_step_conv_b_st. Qed.

Theorem C05w_peg_step_unbond : forall w user a funds,
  Wired w -> EntWf w -> w_claims_b w <= LIM -> PegBelow w ->
  PegDust 1 (fst (step w (OTx user A_bsei (WCw20 (CSend A_hub a HkUnbond)) funds))).
Proof. exact peg_step_unbond. Qed.

(** * 7. histories.  Along every history of Bond / BondForStSei / Convert stSei -> bSei operations
    (any senders, amounts, funds; failing transactions included) "backing <= claims, rate <= 1" holds
    in every visited world once it holds; the same with bSei Unbond operations added, while no
    visited world has a batch due for closing *)
Theorem C05w_peg_below_history : forall ops w,
  Forall peg_mint_op ops -> Wired w -> EntWf w -> PegBelow w ->
  always PegBelow ops w /\ PegBelow (run_ops ops w).
Proof. exact peg_below_history. Qed.

Theorem C05w_peg_below_history_open : forall ops w,
  Forall peg_open_op ops -> Wired w -> EntWf w -> always EpochOpen ops w -> PegBelow w ->
  always PegBelow ops w /\ PegBelow (run_ops ops w).
Proof. exact peg_below_history_open. Qed.

(** COUNTER-EXAMPLE: "backing <= claims + dust" is not an invariant of histories.  From the slashed
    world [worldS] (Proofs/RateTxExamples.v; reported rate 0.9666, peg fee 0.5 %):
      alice Bond 12 345; alice Convert 903 928 bSei -> stSei; alice Bond 108 779; alice Bond 217 557;
      bob Bond 1 000 000
    — all five transactions succeed, every visited world is inside the envelope of C04w.  The State
    query reports (backing, claims, rate) of the bSei pool: *)
Theorem C05w_dust_trace :
  ft_obs worldS = Some (966666, 1000000, 966666000000000000) /\
  ft_obs (run_ops (firstn 1 ft_dust_ops) worldS) = Some (979011, 1012707, 966726802520373612) /\
  ft_obs (run_ops (firstn 2 ft_dust_ops) worldS) = Some (108780, 108779, 1000009192950845291) /\
  ft_obs (run_ops (firstn 3 ft_dust_ops) worldS) = Some (217559, 217557, 1000009192993100658) /\
  ft_obs (run_ops (firstn 4 ft_dust_ops) worldS) = Some (435116, 435112, 1000009193035356413) /\
  ft_obs (run_ops ft_dust_ops worldS) = Some (1435116, 1435102, 1000009755404145489).
Proof. exact ft_dust_trace. Qed.

Theorem C05w_def_ft_dust_ops : ft_dust_ops =
  [ OTx alice A_hub (WHub HBond) [(usei, 12345)];
    OTx alice A_bsei (WCw20 (CSend A_hub 903928 HkConvert)) [];
    OTx alice A_hub (WHub HBond) [(usei, 108779)];
    OTx alice A_hub (WHub HBond) [(usei, 217557)];
    OTx bob A_hub (WHub HBond) [(usei, 1000000)] ].
Proof. exact def_ft_dust_ops. Qed.

Theorem C05w_def_ft_keep_ops : ft_keep_ops =
  [ OTx alice A_hub (WHub HBond) [(usei, 500000)];
    OTx bob A_stsei (WCw20 (CSend A_hub 1000 HkConvert)) [];
    OTx alice A_bsei (WCw20 (CSend A_hub 1000 HkUnbond)) [];
    OTx bob A_hub (WHub HBondSt) [(usei, 777)] ].
Proof. exact def_ft_keep_ops. Qed.

Theorem C05w_def_worldSC : worldSC = run_ops [OAdvance 31] worldS.
Proof. exact def_worldSC. Qed.

Theorem C05w_def_ft_obs : forall w, ft_obs w =
  match hub_query_state w A_hub with
  | Some s => Some (hs_bb s, w_claims_b w, hs_ber s)
  | None => None end.
Proof. exact def_ft_obs. Qed.

Theorem C05w_peg_dust_history_refuted :
  Forall rate_op ft_dust_ops /\ Wired worldS /\ EntWf worldS /\ SoundRates worldS /\
  always RateEnv ft_dust_ops worldS /\ PegBelow worldS /\
  PegBelow (run_ops (firstn 1 ft_dust_ops) worldS) /\
  PegDust 1 (run_ops (firstn 2 ft_dust_ops) worldS) /\ ~ PegDust 0 (run_ops (firstn 2 ft_dust_ops) worldS) /\
  ~ PegDust 1 (run_ops (firstn 3 ft_dust_ops) worldS) /\
  ~ PegDust 3 (run_ops (firstn 4 ft_dust_ops) worldS) /\
  ~ PegDust 13 (run_ops ft_dust_ops worldS).
Proof. exact peg_dust_history_refuted. Qed.

(** * 8. non-vacuity (concrete worlds, by computation): [worldS] = [world0] after a 10 % slashing of
    one validator (alice holds all 1 000 000 bSei, bob all 2 000 000 stSei, reported rates 0.9666..,
    peg fee 0.5 %, threshold 1.0, epoch not over); [worldSC] = [worldS] 31 s later (epoch over).
    One successful transaction per path with a non-zero fee, the bounds checked. *)
Theorem C05w_example_hypotheses :
  Wired worldS /\ EntWf worldS /\ w_claims_b worldS <= LIM /\ PegBelow worldS /\ EpochOpen worldS /\
  hub_query_state worldS A_hub = Some rx_sS /\ hs_ber rx_sS < D /\
  (exists h, w_hub worldS = Some h /\ hs_ber rx_sS < hp_thr (h_params h) /\
             hp_pegfee (h_params h) = D / 200 /\ epoch_over worldS h = false) /\
  Wired worldSC /\ EntWf worldSC /\ w_claims_b worldSC <= LIM /\
  hub_query_state worldSC A_hub = Some rx_sS /\
  (exists h, w_hub worldSC = Some h /\ epoch_over worldSC h = true).
Proof. exact feetx_example_hypotheses. Qed.

Theorem C05w_example_bond :
  exists w1 tr tb tb1,
    run tx_fuel worldS [(alice, MWasm A_hub (WHub HBond) [(usei, 500000)])] [] = Some (w1, tr) /\
    w_bsei worldS = Some tb /\ w_bsei w1 = Some tb1 /\
    500000 * D / hs_ber rx_sS = 517241 /\ 517241 * (D / 200) / D = 2586 /\
    tbal tb1 alice = tbal tb alice + (517241 - 2586) /\
    ft_obs w1 = Some (1466666, 1514655, 968316877440737329).
Proof. exact feetx_example_bond. Qed.

Theorem C05w_example_unbond :
  exists w1 tr h1 tb tb1,
    run tx_fuel worldS [(alice, MWasm A_bsei (WCw20 (CSend A_hub 1000 HkUnbond)) [])] [] = Some (w1, tr) /\
    w_hub w1 = Some h1 /\ w_bsei worldS = Some tb /\ w_bsei w1 = Some tb1 /\
    1000 * (D / 200) / D = 5 /\
    wait_of h1 alice 1 = (995, 0) /\ tbal tb1 alice + 1000 = tbal tb alice /\
    ft_obs w1 = Some (966666, 999995, 966670833354166770).
Proof. exact feetx_example_unbond. Qed.

Theorem C05w_example_unbond_closing :
  exists w1 tr h1 w2 tr2 h2,
    run tx_fuel worldSC [(alice, MWasm A_bsei (WCw20 (CSend A_hub 1000 HkUnbond)) [])] [] = Some (w1, tr) /\
    w_hub w1 = Some h1 /\ wait_of h1 alice 1 = (995, 0) /\ h_batch h1 = mkBatch 2 0 0 /\
    ft_obs w1 = Some (965705, 999000, 966671671671671671) /\
    run tx_fuel worldSC [(alice, MWasm A_bsei (WCw20 (CSend A_hub 600000 HkUnbond)) [])] [] = Some (w2, tr2) /\
    w_hub w2 = Some h2 /\ wait_of h2 alice 1 = (597000, 0) /\ 600000 * (D / 200) / D = 3000 /\
    ft_obs w2 = Some (387830, 400000, 969575000000000000).
Proof. exact feetx_example_unbond_closing. Qed.

(** the + 1 of a closing Unbond is attained *)
Theorem C05w_example_unbond_closing_dust :
  exists w1 tr h1,
    run tx_fuel worldSC [(alice, MWasm A_bsei (WCw20 (CSend A_hub 1000000 HkUnbond)) [])] [] = Some (w1, tr) /\
    w_hub w1 = Some h1 /\ wait_of h1 alice 1 = (995000, 0) /\ h_batch h1 = mkBatch 2 0 0 /\
    ft_obs w1 = Some (1, 0, D).
Proof. exact feetx_example_unbond_closing_dust. Qed.

Theorem C05w_example_conv_st_b :
  exists w1 tr tb tb1,
    run tx_fuel worldS [(bob, MWasm A_stsei (WCw20 (CSend A_hub 1000 HkConvert)) [])] [] = Some (w1, tr) /\
    w_bsei worldS = Some tb /\ w_bsei w1 = Some tb1 /\
    1000 * hs_ser rx_sS / D = 966 /\ 966 * D / hs_ber rx_sS = 999 /\ 999 * (D / 200) / D = 4 /\
    tbal tb1 bob = tbal tb bob + (999 - 4) /\
    ft_obs w1 = Some (967632, 1000995, 966670163187628309).
Proof. exact feetx_example_conv_st_b. Qed.

(** proportional cap (1 000 bSei, fee 5) and restoring cap (990 000 bSei, fee 344 < 4 950: the pool ends
    exactly at the peg) *)
Theorem C05w_example_conv_b_st :
  exists w1 tr ts ts1 w2 tr2 h tb,
    run tx_fuel worldS [(alice, MWasm A_bsei (WCw20 (CSend A_hub 1000 HkConvert)) [])] [] = Some (w1, tr) /\
    w_stsei worldS = Some ts /\ w_stsei w1 = Some ts1 /\
    1000 * (D / 200) / D = 5 /\ (1000 - 5) * hs_ber rx_sS / D = 961 /\ 961 * D / hs_ser rx_sS = 994 /\
    tbal ts1 alice = tbal ts alice + 994 /\
    ft_obs w1 = Some (965705, 999000, 966671671671671671) /\
    run tx_fuel worldS [(alice, MWasm A_bsei (WCw20 (CSend A_hub 990000 HkConvert)) [])] [] = Some (w2, tr2) /\
    w_hub worldS = Some h /\ w_bsei worldS = Some tb /\
    conv_bst_fee h rx_sS (tk_supply tb) 990000 = 344 /\ 990000 * (D / 200) / D = 4950 /\
    ft_obs w2 = Some (10000, 10000, D).
Proof. exact feetx_example_conv_b_st. Qed.

Theorem C05w_example_history :
  Forall peg_open_op ft_keep_ops /\ always EpochOpen ft_keep_ops worldS /\
  Forall peg_mint_op (firstn 2 ft_keep_ops) /\
  ft_obs (run_ops ft_keep_ops worldS) = Some (1467632, 1515643, 968323015380270947).
Proof. exact peg_below_history_nonvacuous. Qed.

Print Assumptions C05w_def_w_claims_b.
Print Assumptions C05w_def_conv_stb_fee.
Print Assumptions C05w_def_conv_bst_fee.
Print Assumptions C05w_def_unbond_b_fee.
Print Assumptions C05w_def_epoch_over.
Print Assumptions C05w_def_EpochOpen.
Print Assumptions C05w_def_PegBelow.
Print Assumptions C05w_def_PegDust.
Print Assumptions C05w_def_peg_mint_op.
Print Assumptions C05w_def_peg_open_op.
Print Assumptions C05w_reported_rate.
Print Assumptions C05w_rate_below_one.
Print Assumptions C05w_rate_dust.
Print Assumptions C05w_bond_fee.
Print Assumptions C05w_bond_no_overshoot.
Print Assumptions C05w_bond_peg.
Print Assumptions C05w_unbond_tx_effect.
Print Assumptions C05w_unbond_fee.
Print Assumptions C05w_unbond_no_overshoot.
Print Assumptions C05w_unbond_peg.
Print Assumptions C05w_unbond_open_peg.
Print Assumptions C05w_conv_st_b_fee.
Print Assumptions C05w_conv_st_b_no_overshoot.
Print Assumptions C05w_conv_st_b_peg.
Print Assumptions C05w_conv_b_st_fee.
Print Assumptions C05w_conv_b_st_no_overshoot.
Print Assumptions C05w_conv_b_st_peg.
Print Assumptions C05w_peg_step_bond.
Print Assumptions C05w_peg_step_conv_st_b.
Print Assumptions C05w_peg_step_unbond_open.
Print Assumptions C05w_peg_step_conv_b_st.
Print Assumptions C05w_peg_step_unbond.
Print Assumptions C05w_peg_below_history.
Print Assumptions C05w_peg_below_history_open.
Print Assumptions C05w_dust_trace.
Print Assumptions C05w_def_ft_dust_ops.
Print Assumptions C05w_def_ft_obs.
Print Assumptions C05w_def_ft_keep_ops.
Print Assumptions C05w_def_worldSC.
Print Assumptions C05w_peg_dust_history_refuted.
Print Assumptions C05w_example_hypotheses.
Print Assumptions C05w_example_bond.
Print Assumptions C05w_example_unbond.
Print Assumptions C05w_example_unbond_closing.
Print Assumptions C05w_example_unbond_closing_dust.
Print Assumptions C05w_example_conv_st_b.
Print Assumptions C05w_example_conv_b_st.
Print Assumptions C05w_example_history.
