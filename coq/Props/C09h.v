(** C09 (history level) — "Holders can always exit": the state premises of the whole-transaction exit
    theorems (Props/C09w.v) and of the withdrawal theorem (Props/C01w.v) are discharged from
    reachability.  [w] below is always [run_ops ops (empty_world ut)], the world reached from the empty
    chain (chain unbonding time [ut]) by the history [ops]: deployments, (re-)instantiations, gifts,
    time steps, slashes, reward accruals, delivery of unbonded coins, transactions of arbitrary senders
    with arbitrary messages.  Property theorems only (proofs: Proofs/ExitHist.v).

    Named predicates (definitions in the proof files, all short):
    * signers
      - [contract_addrs] = [A_hub; A_reward; A_disp; A_reg; A_bsei; A_stsei; A_swap; A_oracle; A_airdrop];
        [user_root o] : if [o] is a transaction, its signer is none of these nine addresses;
        [user_roots ops] = forallb user_root ops = true : contracts hold no keys.  It implies the signer
        clauses of C14 ([NoRewardRoot] : no transaction signed by A_reward), of C01w ([FW_no_hub_root] :
        none signed by A_hub) and of C16 (none signed by A_bsei).
      - [insts_fresh ops w] : every (re-)instantiation of the bSei token or of the reward contract along
        [ops] from [w] leaves both ledgers empty ([FreshLedgers]: token balances [] and supply 0, reward
        holders [] and total 0);  [ops_ok ops w] (C16, Proofs/MirrorP.v) = that, plus "no transaction is
        signed by A_bsei".
    * history envelopes ([always E ops w0] : E holds in w0 and in every world visited by ops from w0)
      - [MirrorEnv w] (C16) = FreshLedgers w \/ Wired w : no bSei balance exists while the six contracts
        are not wired to each other;
      - [REnv d0 w] (C14) : if the reward contract exists, its reward denom is d0, d0 is not one of its
        swap denoms, and its owner / pending owner are not contract addresses;
      - [legacy_free ops] (E6, C07) : no injected pre-v2 wait entries;  [FW_hub_usei o] (E4) : a hub
        instantiation uses underlying_coin_denom = usei;  [FW_RelEnv w] (E1', C01w) : magnitude bound
        [GR_E1'] for the group of batches a withdrawal at w's block time would release.
    * envelope at the reached world (these are NOT invariants; each is a plain bound or flag)
      - [ExitEnv w] = Wired w (E4) /\ for the hub h and tokens tb, ts of w: paused h = false /\
        E1_exit w h tb ts (delegated, booked, claims of both tokens, batch id, the open batch's wait
        entries all <= 1e18) /\ BackedSynced w h tb ts (after the pool synchronisation [slashing] no pool
        has claims > 0 with backing = 0, i.e. not in the known class F5 / E8 "slashed to zero");
      - [RewardE1 w] : the reward contract's recorded balance rw_prev <= 1e18  ([LIM] = [D] = 10^18);
      - [WithdrawEnv w] : for the hub h of w: paused h = false /\ hp_unbonding <= now (otherwise the
        Rust `now - unbonding_period` underflows) /\ WD_E1 (GR_group h (now - hp_unbonding)) (bal A_hub usei)
        (hub balance, group totals and group entries <= 1e18, withdraw rates <= 2^128-1).
    * invariants proved here or elsewhere
      - [ClockInv w] : if the hub exists, hs_lut (last undelegation time) <= block time  (= [E2_clock]);
      - [RCore r] (C14, Proofs/RewardP.v) : sum of holder accruals <= rw_prev * 1e18, total = sum of
        balances, every holder index <= global index, holder keys unique;
      - [E1_holder r a] (Proofs/ExitTx.v) : holder index <= global index and
        (global index - holder index) * balance + pending <= 2^128 - 1;
      - [Wired], [Mirror], [TInv], [HPInv], [E1_exit], [E2_clock], [BooksSynced], [BackedSynced], [DelWf] :
        the premises of C09w_unbond_stsei_tx / C09w_unbond_bsei_tx, explained in Props/C09w.v.
    * withdrawal (Props/C01.v, Props/C01w.v): [process_withdraw_rate h t balance] the release step of
      WithdrawUnbonded, [WD_user_val h1 u] the value of u's wait entries on released batches after it,
      [WD_paid h1 u balance] the hub state after paying u.
    * examples: [xh_ops1] = genesis_ops ++ [OAdvance 31] (deploy, wire, alice bonds 1 000 000 for bSei,
      bob 2 000 000 for stSei, 31 s pass); [FW_ex_pre] (Proofs/FundWorld.v: deploy, wire, bonds, a 1 %
      slash, unbonds directly and by allowance, batch close, unbonding period over);
      [world1], [reward_of] as in Props/C09w.v.

    The success of a transaction is read off [step]: [fst (snd (step w (OTx s to m funds)))] is the
    success flag of the whole transaction (every message of its tree executed; otherwise the world is
    rolled back and the flag is false). *)
From Krp Require Import Tactics Prelude Fixed FMap Types Env Registry Cw20 Reward Dispatcher Hub Exec
     ExecP Hist Inv HubFrame HubAdmin Params Cw20P TokenWorld ClaimsStep ClaimsP LifeP GroupRelease
     WithdrawP RewardP RewardWorld BooksEnv BooksHub BooksP MirrorWire MirrorP ExitWorld ExitP ExitTx
     FundWorldHub FundWorld ExitHist.
Open Scope N_scope.

(** *** A. one signer predicate implies the signer clauses of C14, C01w and C16 *)
Theorem C09h_user_roots_no_reward : forall ops, user_roots ops -> NoRewardRoot ops.
Proof. exact user_roots_no_reward. Qed.

Theorem C09h_user_roots_no_hub : forall ops, user_roots ops -> forallb FW_no_hub_root ops = true.
Proof. exact user_roots_no_hub. Qed.

Theorem C09h_user_roots_not_bsei : forall ops, user_roots ops ->
  Forall (fun o => match o with OTx s _ _ _ => s <> A_bsei | _ => True end) ops.
Proof. exact user_roots_not_bsei. Qed.

Theorem C09h_user_roots_ops_ok : forall ops w, user_roots ops -> insts_fresh ops w -> ops_ok ops w.
Proof. exact user_roots_ops_ok. Qed.

(** *** B. invariants *)

(** E2_clock holds in every world of every history, without any hypothesis *)
Theorem C09h_ClockInv_reachable : forall ut ops, ClockInv (run_ops ops (empty_world ut)).
Proof. exact ClockInv_reachable. Qed.

(** the holder bound of the bSei exit from the C14 invariant and the E1 bound on the recorded balance *)
Theorem C09h_E1_holder_from_rcore : forall r a, RCore r -> rw_prev r <= LIM -> E1_holder r a.
Proof. exact E1_holder_from_rcore. Qed.

(** *** C. every premise of C09w_unbond_stsei_tx / C09w_unbond_bsei_tx, in every reached world *)
Theorem C09h_exit_premises_reachable : forall d0 ut ops,
  always MirrorEnv ops (empty_world ut) -> ops_ok ops (empty_world ut) ->
  user_roots ops -> always (REnv d0) ops (empty_world ut) ->
  let w := run_ops ops (empty_world ut) in
  ExitEnv w -> RewardE1 w ->
  exists h tb ts r,
    w_hub w = Some h /\ w_bsei w = Some tb /\ w_stsei w = Some ts /\ w_reward w = Some r /\
    Wired w /\ Mirror w /\ TInv tb /\ TInv ts /\ paused h = false /\ HPInv h /\ E1_exit w h tb ts /\
    E2_clock w h /\ BooksSynced w h /\ BackedSynced w h tb ts /\ DelWf (w_env w) /\
    forall u, E1_holder r u.
Proof. exact exit_premises_reachable. Qed.

(** *** D. holders can always exit *)

(** stSei: no hypothesis on the history at all *)
Theorem C09h_exit_stsei_reachable : forall ut ops,
  let w := run_ops ops (empty_world ut) in
  ExitEnv w ->
  forall user a ts, w_stsei w = Some ts -> user <> A_hub -> 0 < a <= tbal ts user ->
    fst (snd (step w (OTx user A_stsei (WCw20 (CSend A_hub a HkUnbond)) []))) = true.
Proof. exact exit_stsei_reachable. Qed.

(** bSei: history envelopes of C16 (mirror) and C14 (reward accounting) *)
Theorem C09h_exit_bsei_reachable : forall d0 ut ops,
  always MirrorEnv ops (empty_world ut) -> ops_ok ops (empty_world ut) ->
  user_roots ops -> always (REnv d0) ops (empty_world ut) ->
  let w := run_ops ops (empty_world ut) in
  ExitEnv w -> RewardE1 w ->
  forall user a tb, w_bsei w = Some tb -> user <> A_hub -> 0 < a <= tbal tb user ->
    fst (snd (step w (OTx user A_bsei (WCw20 (CSend A_hub a HkUnbond)) []))) = true.
Proof. exact exit_bsei_reachable. Qed.

(** the property: any holder can unbond any positive part of its stSei or bSei balance *)
Theorem C09h_exit_reachable : forall d0 ut ops,
  always MirrorEnv ops (empty_world ut) -> ops_ok ops (empty_world ut) ->
  user_roots ops -> always (REnv d0) ops (empty_world ut) ->
  let w := run_ops ops (empty_world ut) in
  ExitEnv w -> RewardE1 w ->
  forall user a, user <> A_hub -> 0 < a ->
    (forall ts, w_stsei w = Some ts -> a <= tbal ts user ->
       fst (snd (step w (OTx user A_stsei (WCw20 (CSend A_hub a HkUnbond)) []))) = true) /\
    (forall tb, w_bsei w = Some tb -> a <= tbal tb user ->
       fst (snd (step w (OTx user A_bsei (WCw20 (CSend A_hub a HkUnbond)) []))) = true).
Proof. exact exit_reachable. Qed.

(** *** E. ... and withdraw once released *)
Theorem C09h_withdraw_reachable : forall ut ops,
  legacy_free ops = true -> user_roots ops -> forallb FW_hub_usei ops = true ->
  always FW_RelEnv ops (empty_world ut) ->
  let w := run_ops ops (empty_world ut) in
  WithdrawEnv w ->
  forall h, w_hub w = Some h ->
  let balance := bal (w_env w) A_hub usei in
  let t := e_now (w_env w) - hp_unbonding (h_params h) in
  exists h1,
    process_withdraw_rate h t balance = Some h1 /\
    forall u, 1 <= WD_user_val h1 u ->
      let v := WD_user_val h1 u in
      exists w',
        step w (OTx u A_hub (WHub HWithdraw) []) =
        (w', (true, [(u, MWasm A_hub (WHub HWithdraw) []); (A_hub, MBank u [(usei, v)])])) /\
        w_hub w' = Some (WD_paid h1 u balance) /\
        (u <> A_hub -> bal (w_env w') u usei = bal (w_env w) u usei + v /\
                       bal (w_env w') A_hub usei = balance - v).
Proof. exact withdraw_reachable. Qed.

(** everything together: one history envelope, three conclusions *)
Theorem C09h_exit_withdraw_reachable : forall d0 ut ops,
  always MirrorEnv ops (empty_world ut) -> ops_ok ops (empty_world ut) ->
  user_roots ops -> always (REnv d0) ops (empty_world ut) ->
  legacy_free ops = true -> forallb FW_hub_usei ops = true -> always FW_RelEnv ops (empty_world ut) ->
  let w := run_ops ops (empty_world ut) in
  (ExitEnv w -> RewardE1 w ->
   forall user a, user <> A_hub -> 0 < a ->
     (forall ts, w_stsei w = Some ts -> a <= tbal ts user ->
        fst (snd (step w (OTx user A_stsei (WCw20 (CSend A_hub a HkUnbond)) []))) = true) /\
     (forall tb, w_bsei w = Some tb -> a <= tbal tb user ->
        fst (snd (step w (OTx user A_bsei (WCw20 (CSend A_hub a HkUnbond)) []))) = true)) /\
  (WithdrawEnv w ->
   forall h, w_hub w = Some h ->
   exists h1,
     process_withdraw_rate h (e_now (w_env w) - hp_unbonding (h_params h)) (bal (w_env w) A_hub usei)
       = Some h1 /\
     forall u, 1 <= WD_user_val h1 u ->
       fst (snd (step w (OTx u A_hub (WHub HWithdraw) []))) = true /\
       (u <> A_hub ->
        bal (w_env (fst (step w (OTx u A_hub (WHub HWithdraw) [])))) u usei
          = bal (w_env w) u usei + WD_user_val h1 u)).
Proof. exact exit_withdraw_reachable. Qed.

(** *** F. non-vacuity *)

(** every hypothesis of C09h_exit_reachable holds for the history [xh_ops1]; by the theorem alice can
    unbond any part of her 1 000 000 bSei and bob any part of his 2 000 000 stSei *)
Theorem C09h_nonvacuous_world1 :
  always MirrorEnv xh_ops1 (empty_world 100) /\ ops_ok xh_ops1 (empty_world 100) /\
  user_roots xh_ops1 /\ always (REnv uusd) xh_ops1 (empty_world 100) /\
  let w := run_ops xh_ops1 (empty_world 100) in
  ExitEnv w /\ RewardE1 w /\
  (forall a, 0 < a <= 1000000 ->
     fst (snd (step w (OTx alice A_bsei (WCw20 (CSend A_hub a HkUnbond)) []))) = true) /\
  (forall a, 0 < a <= 2000000 ->
     fst (snd (step w (OTx bob A_stsei (WCw20 (CSend A_hub a HkUnbond)) []))) = true).
Proof. exact xh_nonvacuous_world1. Qed.

(** [ops_ok] of that history obtained from [user_roots] and [insts_fresh] *)
Theorem C09h_nonvacuous_ops_ok :
  user_roots xh_ops1 /\ insts_fresh xh_ops1 (empty_world 100) /\ ops_ok xh_ops1 (empty_world 100).
Proof. exact (conj xh_ops1_roots (conj xh_ops1_insts_fresh xh_ops1_ok_by_theorem)). Qed.

(** the holder bound of C09h_exit_premises_reachable, for every address, in the world of [xh_ops1] *)
Theorem C09h_nonvacuous_holders : forall u, E1_holder (reward_of world1) u.
Proof. exact xh_holders_world1_by_theorem. Qed.

(** every hypothesis of C09h_exit_withdraw_reachable holds for the history [FW_ex_pre] (pools slashed,
    a closed batch matured, alice still holds 74 000 bSei and bob 40 000 stSei): both can unbond any part
    of their balances and bob's matured claim of 14906 is paid — all by the theorem *)
Theorem C09h_nonvacuous_cx :
  always MirrorEnv FW_ex_pre (empty_world 100) /\ ops_ok FW_ex_pre (empty_world 100) /\
  user_roots FW_ex_pre /\ always (REnv uusd) FW_ex_pre (empty_world 100) /\
  legacy_free FW_ex_pre = true /\ forallb FW_hub_usei FW_ex_pre = true /\
  always FW_RelEnv FW_ex_pre (empty_world 100) /\
  let w := run_ops FW_ex_pre (empty_world 100) in
  ExitEnv w /\ RewardE1 w /\ WithdrawEnv w /\
  (forall a, 0 < a <= 74000 ->
     fst (snd (step w (OTx cx_alice A_bsei (WCw20 (CSend A_hub a HkUnbond)) []))) = true) /\
  (forall a, 0 < a <= 40000 ->
     fst (snd (step w (OTx cx_bob A_stsei (WCw20 (CSend A_hub a HkUnbond)) []))) = true) /\
  fst (snd (step w (OTx cx_bob A_hub (WHub HWithdraw) []))) = true /\
  bal (w_env (fst (step w (OTx cx_bob A_hub (WHub HWithdraw) [])))) cx_bob usei
    = bal (w_env w) cx_bob usei + 14906.
Proof. exact xh_nonvacuous_cx. Qed.

Print Assumptions C09h_user_roots_no_reward.
Print Assumptions C09h_user_roots_no_hub.
Print Assumptions C09h_user_roots_not_bsei.
Print Assumptions C09h_user_roots_ops_ok.
Print Assumptions C09h_ClockInv_reachable.
Print Assumptions C09h_E1_holder_from_rcore.
Print Assumptions C09h_exit_premises_reachable.
Print Assumptions C09h_exit_stsei_reachable.
Print Assumptions C09h_exit_bsei_reachable.
Print Assumptions C09h_exit_reachable.
Print Assumptions C09h_withdraw_reachable.
Print Assumptions C09h_exit_withdraw_reachable.
Print Assumptions C09h_nonvacuous_world1.
Print Assumptions C09h_nonvacuous_ops_ok.
Print Assumptions C09h_nonvacuous_holders.
Print Assumptions C09h_nonvacuous_cx.
