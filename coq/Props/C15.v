(** C15 — Reward accrual is proportional to holdings and independent of others' actions.
    Property theorems only (proofs: Proofs/RewardP.v, Proofs/RewardWorld.v).

    Vocabulary (atomics, D = 10^18):
      hacc gi h = (gi - ho_idx h) * ho_bal h + ho_pend h;   acc r a = hacc (rw_gi r) (holder_of r a)
      index_step r bank = (bank - rw_prev r) * D / rw_total r   (index increment of one update:
                          newly delivered coins per bSei, as a floor-rounded 18-decimal number)
      RCore r   = the C14 invariant (sum of accrued <= prev*D, total = sum of balances,
                  holder indices <= global index, distinct keys)
      holder_op m = m is IncreaseBalance / DecreaseBalance / ClaimRewards;
      target s m  = the holder such a message is about (the address argument, or the claimer)
      target_of s m = Some of that holder, None for the other messages
      inc_amt m = amount of an IncreaseBalance, else 0
      req r1 r2 = equal reward states up to the order of the holder association list
                  (all scalar fields equal and [holder_of] equal at every address)
      split_rel h h1 h2 = same index, balance h = balance h1 + balance h2, pending likewise
      SplitSim r r' a a1 a2 = two executions: in r the position sits in account a, in r' it is
                  split over a1 and a2; index, total, prev, denom, hub and all other holders equal *)
From Krp Require Import Tactics Prelude Fixed FMap Types Env Registry Cw20 Reward Dispatcher Hub Exec
     ExecP Hist Inv RewardP RewardWorld.
Open Scope N_scope.

(** *** (a) one index update: every holder gains exactly balance * index increment, a formula
    that mentions no other holder; with total supply 0 nothing changes *)
Theorem C15_accrual_step : forall w r self s r' out a,
  reward_execute w r self s RUpdateIndex = Some (r', out) ->
  ho_idx (holder_of r a) <= rw_gi r ->
  holder_of r' a = holder_of r a /\
  (rw_total r = 0 -> r' = r) /\
  (rw_total r <> 0 ->
   rw_gi r' = rw_gi r + index_step r (bal (w_env w) self (rw_denom r)) /\
   acc r' a = acc r a + ho_bal (holder_of r a) * index_step r (bal (w_env w) self (rw_denom r))).
Proof. exact accrual_step. Qed.

(** the gain against the ideal pro-rata share b*c/T (in atomics b*c*D/T): never more, and short
    by less than b atomics = b / 10^18 base units (below one base unit for b <= 10^18) *)
Theorem C15_accrual_rounding : forall b c T,
  T <> 0 ->
  b * (c * D / T) <= b * (c * D) / T /\ (0 < b -> b * (c * D) / T < b * (c * D / T) + b).
Proof. exact accrual_rounding. Qed.

(** *** (b) balance changes settle first: accrued rewards stay with the holder, the index is
    checkpointed, nobody else is touched *)
Theorem C15_increase_preserves_acc : forall w r self s a amt r' out,
  reward_execute w r self s (RInc a amt) = Some (r', out) ->
  acc r' a = acc r a /\
  holder_of r' a = mkHolder (ho_bal (holder_of r a) + amt) (rw_gi r) (acc r a) /\
  rw_gi r' = rw_gi r /\ rw_prev r' = rw_prev r /\ rw_total r' = rw_total r + amt /\ out = [] /\
  (forall b, b <> a -> holder_of r' b = holder_of r b).
Proof. exact inc_preserves_acc. Qed.

Theorem C15_decrease_preserves_acc : forall w r self s a amt r' out,
  reward_execute w r self s (RDec a amt) = Some (r', out) ->
  acc r' a = acc r a /\
  holder_of r' a = mkHolder (ho_bal (holder_of r a) - amt) (rw_gi r) (acc r a) /\
  amt <= ho_bal (holder_of r a) /\
  rw_gi r' = rw_gi r /\ rw_prev r' = rw_prev r /\ rw_total r' = rw_total r - amt /\ out = [] /\
  (forall b, b <> a -> holder_of r' b = holder_of r b).
Proof. exact dec_preserves_acc. Qed.

Theorem C15_other_holder_untouched : forall w r self s m r' out b,
  reward_execute w r self s m = Some (r', out) -> target_of s m <> Some b ->
  holder_of r' b = holder_of r b /\ (m <> RUpdateIndex -> rw_gi r' = rw_gi r /\ acc r' b = acc r b).
Proof. exact other_holder_untouched. Qed.

(** tokens acquired after an update earn nothing from it *)
Theorem C15_late_tokens_earn_nothing : forall w r self s r1 o1 w' s' a amt r2 o2,
  reward_execute w r self s RUpdateIndex = Some (r1, o1) -> rw_total r <> 0 ->
  ho_idx (holder_of r a) <= rw_gi r ->
  reward_execute w' r1 self s' (RInc a amt) = Some (r2, o2) ->
  acc r2 a = acc r a + ho_bal (holder_of r a) * index_step r (bal (w_env w) self (rw_denom r)) /\
  ho_bal (holder_of r2 a) = ho_bal (holder_of r a) + amt.
Proof. exact late_tokens_earn_nothing. Qed.

(** (e) no other contract or chain message touches the reward state: transfers, sends, burns,
    unbonding reach it only as calls into its own handler *)
Theorem C15_reward_state_changes_only_by_handler : forall w s m w' out,
  step_msg w s m = Some (w', out) ->
  w_reward w' = w_reward w \/
  exists w1 r rm r' o,
    w_reward w = Some r /\ w_reward w' = Some r' /\
    reward_execute w1 r A_reward s rm = Some (r', o) /\
    (exists wm funds, m = MWasm A_reward wm funds /\
       (wm = WReward rm \/ exists n, wm = WHub (HUpdateGlobal n) /\ rm = RUpdateIndex)).
Proof. exact reward_state_changes_only_by_handler. Qed.

(** *** (c) operations about distinct holders commute, and each one's outcome (success or
    failure, payout) is independent of the other.  The side condition excludes only a 128-bit
    overflow of the mirrored supply; it holds under E1. *)
Theorem C15_ops_commute : forall wa wb r self s1 m1 s2 m2 r1 o1 r12 o2,
  RCore r -> holder_op m1 = true -> holder_op m2 = true -> target s1 m1 <> target s2 m2 ->
  rw_total r + inc_amt m1 + inc_amt m2 <= U128MAX ->
  reward_execute wa r self s1 m1 = Some (r1, o1) ->
  reward_execute wb r1 self s2 m2 = Some (r12, o2) ->
  exists r2 r21,
    reward_execute wb r self s2 m2 = Some (r2, o2) /\
    reward_execute wa r2 self s1 m1 = Some (r21, o1) /\ req r12 r21.
Proof. exact ops_commute. Qed.

Theorem C15_op_outcome_independent : forall wa wb r self s1 m1 s2 m2 r2 o2,
  RCore r -> holder_op m1 = true -> holder_op m2 = true -> target s1 m1 <> target s2 m2 ->
  rw_total r + inc_amt m1 + inc_amt m2 <= U128MAX ->
  reward_execute wb r self s2 m2 = Some (r2, o2) ->
  option_map snd (reward_execute wa r2 self s1 m1) = option_map snd (reward_execute wa r self s1 m1).
Proof. exact op_outcome_independent. Qed.

(** *** (d) one account or several: accrual is linear in the balance between settlements *)
Theorem C15_hacc_linear : forall gi h h1 h2,
  split_rel h h1 h2 -> hacc gi h = hacc gi h1 + hacc gi h2.
Proof. exact hacc_linear. Qed.

Theorem C15_split_payout : forall x1 x2,
  x1 / D + x2 / D <= (x1 + x2) / D /\ (x1 + x2) / D <= x1 / D + x2 / D + 1 /\
  (x1 + x2) / D * D + (x1 + x2) mod D = (x1 / D + x2 / D) * D + (x1 mod D + x2 mod D).
Proof. exact split_payout. Qed.

Theorem C15_split_acc : forall r r' a a1 a2,
  SplitSim r r' a a1 a2 -> acc r a = acc r' a1 + acc r' a2.
Proof. exact split_sim_acc. Qed.

Theorem C15_split_update : forall w self s r r' a a1 a2 r1 o,
  SplitSim r r' a a1 a2 -> reward_execute w r self s RUpdateIndex = Some (r1, o) ->
  exists r1', reward_execute w r' self s RUpdateIndex = Some (r1', o) /\ SplitSim r1 r1' a a1 a2.
Proof. exact split_sim_update. Qed.

Theorem C15_split_increase : forall w self s r r' a a1 a2 x1 x2 r1 o r1' o1 r2' o2,
  a1 <> a2 -> SplitSim r r' a a1 a2 ->
  reward_execute w r self s (RInc a (x1 + x2)) = Some (r1, o) ->
  reward_execute w r' self s (RInc a1 x1) = Some (r1', o1) ->
  reward_execute w r1' self s (RInc a2 x2) = Some (r2', o2) ->
  SplitSim r1 r2' a a1 a2.
Proof. exact split_sim_inc. Qed.

Theorem C15_split_decrease : forall w self s r r' a a1 a2 x1 x2 r1 o r1' o1 r2' o2,
  a1 <> a2 -> SplitSim r r' a a1 a2 ->
  reward_execute w r self s (RDec a (x1 + x2)) = Some (r1, o) ->
  reward_execute w r' self s (RDec a1 x1) = Some (r1', o1) ->
  reward_execute w r1' self s (RDec a2 x2) = Some (r2', o2) ->
  SplitSim r1 r2' a a1 a2.
Proof. exact split_sim_dec. Qed.

Theorem C15_split_other : forall w self s m r r' a a1 a2 r1 o,
  holder_op m = true -> target s m <> a -> target s m <> a1 -> target s m <> a2 ->
  SplitSim r r' a a1 a2 -> reward_execute w r self s m = Some (r1, o) ->
  exists r1', reward_execute w r' self s m = Some (r1', o) /\ SplitSim r1 r1' a a1 a2.
Proof. exact split_sim_other. Qed.

Print Assumptions C15_accrual_step.
Print Assumptions C15_accrual_rounding.
Print Assumptions C15_increase_preserves_acc.
Print Assumptions C15_decrease_preserves_acc.
Print Assumptions C15_other_holder_untouched.
Print Assumptions C15_late_tokens_earn_nothing.
Print Assumptions C15_reward_state_changes_only_by_handler.
Print Assumptions C15_ops_commute.
Print Assumptions C15_op_outcome_independent.
Print Assumptions C15_hacc_linear.
Print Assumptions C15_split_payout.
Print Assumptions C15_split_acc.
Print Assumptions C15_split_update.
Print Assumptions C15_split_increase.
Print Assumptions C15_split_decrease.
Print Assumptions C15_split_other.
