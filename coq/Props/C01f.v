(** C01f — coins attached to a transaction ([info.funds]) are a bank transfer followed by the plain
    transaction.  Frame facts used by the monitors of C01 / C02: the correspondence check attaches coins
    to arbitrary transactions and presents such a transaction as "bank transfer of the attached coins
    from the sender to the target, then the same transaction without coins".
    Property theorems only.  Proofs: Proofs/FundsFrame.v (handlers, transactions),
    Proofs/FundsFrameLiquid.v (hub liquid balance), Proofs/FundsFrameEx.v (examples, witness).

    Vocabulary (definitions are in Proofs/FundsFrame.v, both one line):
    - [FF_bond hm]           = hm is HBond, HBondSt or HBondRewards;
    - [FF_reads_funds t m]   = t is the hub's address and m = WHub hm with FF_bond hm: the only
                               (target, message) pairs whose handler reads the attached coins;
    - [coin_amt d cs]        (BooksEnv.v) = sum of the amounts of the coins of denom d in cs;
    - [not_withdraw], [no_gift], [NoRewardsToHub] (BooksLiquid.v): the conditions of C02 theorems 15/16;
    - a transaction's outcome is (success flag, trace); the trace lists the executed messages with
      their senders, the first entry is the root message INCLUDING its attached coins.
    The execute functions of the five other contracts (reward_execute, disp_execute, reg_execute,
    bsei_execute, stsei_execute) and of the stubs (swap_execute; airdrop accepts anything; oracle and
    every other address reject every execute message) take no funds argument at all; for them the
    independence is theorem 3 (the router [call] is the only place that holds the funds). *)
From Krp Require Import Tactics Prelude Fixed FMap Types Env Registry Cw20 Reward Dispatcher Hub Exec
     ExecP Hist BooksEnv BooksLiquid ExitWorld FundsFrame FundsFrameEx FundsFrameLiquid.
Open Scope N_scope.

(** ** 1. handlers *)

(** 1. every hub handler other than the three bond handlers ignores the attached coins *)
Theorem C01f_hub_execute_ignores_funds : forall w h self sender hm f1 f2,
  FF_bond hm = false ->
  hub_execute w h self sender f1 hm = hub_execute w h self sender f2 hm.
Proof. exact FF_hub_execute_ignores. Qed.

(** 2. the three bond handlers depend on the attached coins exactly through: "it is a single coin of
       the underlying denom with a non-zero amount" and that amount; every other coin list fails *)
Theorem C01f_hub_execute_bond_funds : forall w h self sender funds hm,
  FF_bond hm = true ->
  hub_execute w h self sender funds hm =
  match funds with
  | [(d, a)] =>
      if (d =? hp_underlying (h_params h)) && negb (a =? 0)
      then hub_execute w h self sender [(hp_underlying (h_params h), a)] hm
      else None
  | _ => None
  end.
Proof. exact FF_hub_execute_bond_funds. Qed.

Theorem C01f_bond_needs_single_coin : forall w h self sender funds hm r,
  FF_bond hm = true ->
  hub_execute w h self sender funds hm = Some r ->
  exists a, funds = [(hp_underlying (h_params h), a)] /\ 0 < a.
Proof. exact FF_bond_needs_single_coin. Qed.

(** 3. the router: for every target (the six contracts, the swap / oracle / airdrop stubs, any other
       address) and every message, the result of the call (new world, emitted messages, or failure)
       does not depend on the attached coins, unless it is a bond message to the hub *)
Theorem C01f_call_ignores_funds : forall w s t m f1 f2,
  FF_reads_funds t m = false -> call w s t m f1 = call w s t m f2.
Proof. exact FF_call_ignores. Qed.

(** ** 2. transactions *)

(** 4. the decomposition, as one equation: the transaction fails with the world unchanged if the sender
       cannot pay the attached coins or if the plain transaction fails in the world after the transfer
       (the transfer is rolled back); otherwise it succeeds with the world of the plain transaction,
       and its trace is the plain trace with the attached coins recorded on the root entry *)
Theorem C01f_tx_decompose : forall w s t m f,
  FF_reads_funds t m = false ->
  step w (OTx s t m f) =
  match send_coins (w_env w) s t f with
  | None => (w, (false, []))
  | Some e1 =>
      match step (set_env w e1) (OTx s t m []) with
      | (w', (true, tr0)) => (w', (true, (s, MWasm t m f) :: tl tr0))
      | (_, (false, _)) => (w, (false, []))
      end
  end.
Proof. exact FF_tx_decompose. Qed.

(** 5. success: same world; the two traces differ exactly in the coins of the root entry *)
Theorem C01f_tx_success_iff : forall w s t m f w' tr,
  FF_reads_funds t m = false ->
  (step w (OTx s t m f) = (w', (true, tr)) <->
   exists e1 rest,
     send_coins (w_env w) s t f = Some e1 /\
     step (set_env w e1) (OTx s t m []) = (w', (true, (s, MWasm t m []) :: rest)) /\
     tr = (s, MWasm t m f) :: rest).
Proof. exact FF_tx_success_iff. Qed.

(** 6. failure: exactly when the transfer or the plain transaction fails; a failed transaction leaves
       the world unchanged (and has an empty trace) *)
Theorem C01f_tx_failure_iff : forall w s t m f,
  FF_reads_funds t m = false ->
  (fst (snd (step w (OTx s t m f))) = false <->
   send_coins (w_env w) s t f = None \/
   exists e1, send_coins (w_env w) s t f = Some e1 /\
              fst (snd (step (set_env w e1) (OTx s t m []))) = false).
Proof. exact FF_tx_failure_iff. Qed.

Theorem C01f_tx_failed_unchanged : forall w s t m f,
  fst (snd (step w (OTx s t m f))) = false -> step w (OTx s t m f) = (w, (false, [])).
Proof. exact FF_tx_failed_unchanged. Qed.

(** 7. the sender cannot pay (any message, bond messages included) *)
Theorem C01f_tx_cannot_pay : forall w s t m f,
  send_coins (w_env w) s t f = None -> step w (OTx s t m f) = (w, (false, [])).
Proof. exact FF_tx_cannot_pay. Qed.

(** 8. the transfer is the bank message MBank t f executed for the sender (BankMsg::Send rejects an
       empty coin list, hence f <> []) *)
Theorem C01f_tx_decompose_bank : forall w s t m f,
  FF_reads_funds t m = false -> f <> [] ->
  step w (OTx s t m f) =
  match step_msg w s (MBank t f) with
  | None => (w, (false, []))
  | Some (w1, _) =>
      match step w1 (OTx s t m []) with
      | (w', (true, tr0)) => (w', (true, (s, MWasm t m f) :: tl tr0))
      | (_, (false, _)) => (w, (false, []))
      end
  end.
Proof. exact FF_tx_decompose_bank. Qed.

(** 9. the bond messages must be excluded: in the example world FF_w, Bond with 1000 usei succeeds,
       while the transfer of the 1000 usei followed by a plain Bond fails *)
Theorem C01f_bond_not_decomposable_witness :
  let f := [(usei, 1000)] in
  FF_reads_funds A_hub (WHub HBond) = true /\
  fst (snd (step FF_w (OTx alice A_hub (WHub HBond) f))) = true /\
  is_some (send_coins (w_env FF_w) alice A_hub f) = true /\
  fst (snd (step (FF_after_transfer FF_w alice A_hub f) (OTx alice A_hub (WHub HBond) []))) = false.
Proof. exact FF_bond_not_decomposable_witness. Qed.

(** 10. the bond form: a bond transaction succeeds only with exactly one attached coin, of the
        underlying denom, with a positive amount the sender can pay *)
Theorem C01f_bond_tx_single_coin : forall w s hm funds,
  FF_bond hm = true ->
  fst (snd (step w (OTx s A_hub (WHub hm) funds))) = true ->
  exists h a, w_hub w = Some h /\ funds = [(hp_underlying (h_params h), a)] /\ 0 < a /\
              a <= bal (w_env w) s (hp_underlying (h_params h)).
Proof. exact FF_bond_tx_single_coin. Qed.

(** 11. hence any extra coin makes the bond fail, whatever its denom and amount: every coin list of
        length other than one — in particular (c :: f) ++ extra with extra <> [] — fails, world unchanged *)
Theorem C01f_bond_tx_extra_fails : forall w s hm funds,
  FF_bond hm = true -> length funds <> 1%nat ->
  step w (OTx s A_hub (WHub hm) funds) = (w, (false, [])).
Proof. exact FF_bond_tx_extra_fails. Qed.

Theorem C01f_bond_tx_append_fails : forall w s hm c f extra,
  FF_bond hm = true -> extra <> [] ->
  step w (OTx s A_hub (WHub hm) ((c :: f) ++ extra)) = (w, (false, [])).
Proof. exact FF_bond_tx_append_fails. Qed.

(** 12. a single coin of another denom, or of amount 0, fails as well *)
Theorem C01f_bond_tx_wrong_coin_fails : forall w s hm h d a,
  FF_bond hm = true -> w_hub w = Some h -> d <> hp_underlying (h_params h) \/ a = 0 ->
  step w (OTx s A_hub (WHub hm) [(d, a)]) = (w, (false, [])).
Proof. exact FF_bond_tx_wrong_coin_fails. Qed.

(** ** 3. consequences for C01 / C02 *)

(** 13. (C01) WithdrawUnbonded with attached coins behaves exactly like a transfer of those coins to
        the hub followed by a plain WithdrawUnbonded (same world, same payout; the attached coins only
        appear on the root trace entry) ... *)
Theorem C01f_withdraw_with_funds : forall w s f,
  step w (OTx s A_hub (WHub HWithdraw) f) =
  match send_coins (w_env w) s A_hub f with
  | None => (w, (false, []))
  | Some e1 =>
      match step (set_env w e1) (OTx s A_hub (WHub HWithdraw) []) with
      | (w', (true, tr0)) => (w', (true, (s, MWasm A_hub (WHub HWithdraw) f) :: tl tr0))
      | (_, (false, _)) => (w, (false, []))
      end
  end.
Proof. exact FF_withdraw_with_funds. Qed.

(** 14. ... and that transfer is an unsolicited transfer to the hub: for every denom (in particular the
        underlying one) the hub's balance rises, and the sender's falls, by exactly the attached amount *)
Theorem C01f_transfer_to_hub_bal : forall e s f e1 d,
  s <> A_hub -> send_coins e s A_hub f = Some e1 ->
  bal e1 A_hub d = bal e A_hub d + coin_amt d f /\
  bal e1 s d + coin_amt d f = bal e s d.
Proof. exact FF_transfer_to_hub_bal. Qed.

(** 15. (C02) a successful transaction with attached coins whose handler does not read them (not a
        bond), sent by anyone but the hub, whose plain trace (root without coins, then the executed
        sub-messages) satisfies the conditions of C02 theorem 16 — no WithdrawUnbonded of the hub, no
        other message handing usei to the hub — changes the hub's liquid usei balance by exactly the
        attached usei amount when the target is the hub, and not at all otherwise *)
Theorem C01f_tx_liquid_eq : forall w s t m f w' tr,
  (forall h, w_hub w = Some h -> hp_underlying (h_params h) = usei) ->
  NoRewardsToHub (w_env w) -> s <> A_hub ->
  FF_reads_funds t m = false ->
  step w (OTx s t m f) = (w', (true, tr)) ->
  Forall (fun sm => not_withdraw sm /\ no_gift sm) ((s, MWasm t m []) :: tl tr) ->
  bal (w_env w') A_hub usei
  = bal (w_env w) A_hub usei + (if t =? A_hub then coin_amt usei f else 0).
Proof. exact FF_tx_liquid_eq. Qed.

(** 16. with only "no WithdrawUnbonded of the hub is executed" (C02 theorem 15): by at least that much *)
Theorem C01f_tx_liquid_ge : forall w s t m f w' tr,
  (forall h, w_hub w = Some h -> hp_underlying (h_params h) = usei) ->
  s <> A_hub ->
  FF_reads_funds t m = false ->
  step w (OTx s t m f) = (w', (true, tr)) ->
  Forall not_withdraw ((s, MWasm t m []) :: tl tr) ->
  bal (w_env w) A_hub usei + (if t =? A_hub then coin_amt usei f else 0)
  <= bal (w_env w') A_hub usei.
Proof. exact FF_tx_liquid_ge. Qed.

(** ** 4. non-vacuity (vm_compute in the example world FF_w of Proofs/FundsFrameEx.v) *)

(** 17. WithdrawUnbonded by alice with 777 usei attached: both sides compute to the same world; the
        attached coins are counted as arrived coins of the release (payout 401 442 instead of 401 000) *)
Theorem C01f_ex_withdraw :
  let f := [(usei, 777)] in
  let w1 := FF_after_transfer FF_w alice A_hub f in
  let w' := fst (step FF_w (OTx alice A_hub (WHub HWithdraw) f)) in
  is_some (send_coins (w_env FF_w) alice A_hub f) = true /\
  bal (w_env w1) A_hub usei = 701777 /\
  step FF_w (OTx alice A_hub (WHub HWithdraw) f) =
    (w', (true, [(alice, MWasm A_hub (WHub HWithdraw) f); (A_hub, MBank alice [(usei, 401442)])])) /\
  step w1 (OTx alice A_hub (WHub HWithdraw) []) =
    (w', (true, [(alice, MWasm A_hub (WHub HWithdraw) []); (A_hub, MBank alice [(usei, 401442)])])) /\
  bal (w_env w') A_hub usei = 300335 /\ bal (w_env w') alice usei = 9400665 /\
  snd (step FF_w (OTx alice A_hub (WHub HWithdraw) [])) =
    (true, [(alice, MWasm A_hub (WHub HWithdraw) []); (A_hub, MBank alice [(usei, 401000)])]).
Proof. exact FF_ex_withdraw. Qed.

(** 18. a bSei Send (unbond hook, 9 executed messages) with 5 usei attached: both sides equal; the
        5 usei stay on the token contract's account, so the world differs from the one without coins *)
Theorem C01f_ex_token_send :
  let f := [(usei, 5)] in
  let m := WCw20 (CSend A_hub 1000 HkUnbond) in
  let w1 := FF_after_transfer FF_w alice A_bsei f in
  let w' := fst (step FF_w (OTx alice A_bsei m f)) in
  is_some (send_coins (w_env FF_w) alice A_bsei f) = true /\
  fst (snd (step FF_w (OTx alice A_bsei m f))) = true /\
  step w1 (OTx alice A_bsei m []) = (w', (true, (alice, MWasm A_bsei m []) :: tl (snd (snd (step FF_w (OTx alice A_bsei m f)))))) /\
  snd (snd (step FF_w (OTx alice A_bsei m f))) =
    (alice, MWasm A_bsei m f) :: tl (snd (snd (step w1 (OTx alice A_bsei m [])))) /\
  length (snd (snd (step FF_w (OTx alice A_bsei m f)))) = 9%nat /\
  bal (w_env w') A_bsei usei = 5 /\ bal (w_env w') A_hub usei = 701000 /\
  w' <> fst (step FF_w (OTx alice A_bsei m [])).
Proof. exact FF_ex_token_send. Qed.

(** 19. the sender cannot pay (alice has no uusd): the transaction fails, the world is unchanged,
        although the plain WithdrawUnbonded would succeed *)
Theorem C01f_ex_cannot_pay :
  let f := [(usei, 777); (uusd, 3)] in
  send_coins (w_env FF_w) alice A_hub f = None /\
  step FF_w (OTx alice A_hub (WHub HWithdraw) f) = (FF_w, (false, [])) /\
  fst (snd (step FF_w (OTx alice A_hub (WHub HWithdraw) []))) = true.
Proof. exact FF_ex_cannot_pay. Qed.

(** 20. the transfer succeeds but the handler fails (keeper has no claim): everything is rolled back *)
Theorem C01f_ex_rollback :
  let w := fst (step FF_w (OGift keeper usei 1000)) in
  let f := [(usei, 777)] in
  is_some (send_coins (w_env w) keeper A_hub f) = true /\
  fst (snd (step (FF_after_transfer w keeper A_hub f) (OTx keeper A_hub (WHub HWithdraw) []))) = false /\
  step w (OTx keeper A_hub (WHub HWithdraw) f) = (w, (false, [])).
Proof. exact FF_ex_rollback. Qed.

(** 21. Bond with one coin succeeds; with an extra coin, with no coin, with a coin of another denom: fails *)
Theorem C01f_ex_bond_extra :
  fst (snd (step FF_w (OTx alice A_hub (WHub HBond) [(usei, 1000)]))) = true /\
  step FF_w (OTx alice A_hub (WHub HBond) ([(usei, 1000)] ++ [(usei, 1)])) = (FF_w, (false, [])) /\
  step FF_w (OTx alice A_hub (WHub HBond) []) = (FF_w, (false, [])) /\
  step FF_w (OTx alice A_hub (WHub HBond) [(uusd, 1000)]) = (FF_w, (false, [])).
Proof. exact FF_ex_bond_extra. Qed.

(** 22. the hypotheses of theorem 15 are satisfiable: CheckSlashing with 5 usei attached *)
Theorem C01f_tx_liquid_nonvacuous :
  let f := [(usei, 5)] in
  let tx := OTx alice A_hub (WHub HCheckSlashing) f in
  (forall h, w_hub FF_w = Some h -> hp_underlying (h_params h) = usei) /\
  NoRewardsToHub (w_env FF_w) /\ alice <> A_hub /\
  FF_reads_funds A_hub (WHub HCheckSlashing) = false /\
  step FF_w tx = (fst (step FF_w tx), (true, [(alice, MWasm A_hub (WHub HCheckSlashing) f)])) /\
  Forall (fun sm => not_withdraw sm /\ no_gift sm) [(alice, MWasm A_hub (WHub HCheckSlashing) [])] /\
  bal (w_env FF_w) A_hub usei = 701000 /\ coin_amt usei f = 5 /\
  bal (w_env (fst (step FF_w tx))) A_hub usei = 701005.
Proof. exact FF_tx_liquid_nonvacuous. Qed.

Print Assumptions C01f_hub_execute_ignores_funds.
Print Assumptions C01f_hub_execute_bond_funds.
Print Assumptions C01f_bond_needs_single_coin.
Print Assumptions C01f_call_ignores_funds.
Print Assumptions C01f_tx_decompose.
Print Assumptions C01f_tx_success_iff.
Print Assumptions C01f_tx_failure_iff.
Print Assumptions C01f_tx_failed_unchanged.
Print Assumptions C01f_tx_cannot_pay.
Print Assumptions C01f_tx_decompose_bank.
Print Assumptions C01f_bond_not_decomposable_witness.
Print Assumptions C01f_bond_tx_single_coin.
Print Assumptions C01f_bond_tx_extra_fails.
Print Assumptions C01f_bond_tx_append_fails.
Print Assumptions C01f_bond_tx_wrong_coin_fails.
Print Assumptions C01f_withdraw_with_funds.
Print Assumptions C01f_transfer_to_hub_bal.
Print Assumptions C01f_tx_liquid_eq.
Print Assumptions C01f_tx_liquid_ge.
Print Assumptions C01f_ex_withdraw.
Print Assumptions C01f_ex_token_send.
Print Assumptions C01f_ex_cannot_pay.
Print Assumptions C01f_ex_rollback.
Print Assumptions C01f_ex_bond_extra.
Print Assumptions C01f_tx_liquid_nonvacuous.
