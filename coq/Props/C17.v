(** C17 — Dispatcher splits rewards by bonded stake, takes a bounded fee, keeps nothing.
    Property theorems only; proofs in Proofs/DispatcherP.v.  [swap_info] models get_swap_info,
    [disp_execute ... DDispatch] models execute_dispatch_rewards, [dispatch_msgs] is the exact list
    of messages it emits (Model/Dispatcher.v); tied to the Rust code by the kernel stream `swapinfo`
    and by the history streams (dispatcher messages, bank balances, dispatcher Config). *)
From Krp Require Import Tactics Prelude Fixed FMap Types Env Dispatcher DispatcherP.
Open Scope N_scope.

(** 1. the swap the dispatcher requests never offers more of a coin than it holds
       ([x_b2st] = Decimal::inv of the oracle price [x_st2b]; see [C17_inv_hyp]) *)
Theorem C17_offer_le_held : forall std bd stb bb rst rb x_b2st x_st2b od oa ask,
  x_b2st * x_st2b <= D * D ->
  swap_info std bd stb bb rst rb x_b2st x_st2b = Some (od, oa, ask) ->
  (od = std /\ ask = bd /\ oa <= rst) \/ (od = bd /\ ask = std /\ oa <= rb).
Proof. exact offer_le_held. Qed.

Theorem C17_inv_hyp : forall p q, dinv p = Some q -> q * p <= D * D.
Proof. exact dinv_mul. Qed.

(** 2. buying the stSei-side coin at the oracle price leaves the stSei share within rounding
       (selling it leaves exactly the share: [share = rst - sell] by definition of [swap_info]) *)
Theorem C17_share_within_rounding : forall buy p q,
  0 < p -> q = D * D / p ->
  let bsell := buy * p / D in
  let got := bsell * q / D in
  got <= buy /\ buy <= got + buy * p / (D * D) + q / D + 2.
Proof. exact swap_buy_within_rounding. Qed.

(** 3. DispatchRewards: the exact messages — keeper gets floor(balance x rate) of each coin, the
       reward contract the rest of the bSei-side coin followed (last) by the index update, the hub
       the rest of the stSei-side coin as BondRewards funds *)
Theorem C17_dispatch_exact : forall w dp self sender dp' msgs,
  disp_execute w dp self sender DDispatch = Some (dp', msgs) ->
  sender = dp_hub dp /\ dp' = dp /\
  msgs = dispatch_msgs dp (bal (w_env w) self (dp_bd dp)) (bal (w_env w) self (dp_std dp)).
Proof. exact dispatch_exact. Qed.

Theorem C17_dispatch_conserves : forall dp b st,
  dp_rate dp <= D -> dp_bd dp <> dp_std dp ->
  sumN (map (sent_of (dp_bd dp)) (dispatch_msgs dp b st)) = b /\
  sumN (map (sent_of (dp_std dp)) (dispatch_msgs dp b st)) = st.
Proof. exact dispatch_conserves. Qed.

(** dispatch is accepted by the dispatcher for every balance and every keeper rate in [0,1] *)
Theorem C17_dispatch_succeeds : forall w dp self,
  dp_rate dp <= D ->
  bal (w_env w) self (dp_bd dp) <= U128MAX -> bal (w_env w) self (dp_std dp) <= U128MAX ->
  exists msgs, disp_execute w dp self (dp_hub dp) DDispatch = Some (dp, msgs).
Proof. exact dispatch_succeeds. Qed.

(** 4. the keeper rate can never be configured above 1 (instantiate and every message) *)
Theorem C17_rate_le_one_init : forall s h r std bd k rate sw orc ds dp,
  disp_instantiate s h r std bd k rate sw orc ds = Some dp -> DInv dp /\ dp_std dp = std.
Proof. exact disp_instantiate_inv. Qed.

Theorem C17_rate_le_one_step : forall w dp self sender m dp' msgs,
  disp_execute w dp self sender m = Some (dp', msgs) -> DInv dp -> DInv dp' /\ dp_std dp' = dp_std dp.
Proof. exact disp_execute_inv. Qed.

(** 5. no zero-coin transfer — outside the known class F2 (KNOWN FINDING, see DESIGN.md section 6:
       the repository's own test asserts the zero-coin sends, so it cannot be repaired) *)
Theorem C17_no_zero_transfer : forall dp b st,
  dp_rate dp <= D -> ~ Known_F2 (dp_rate dp) b st ->
  forall m x, In m (dispatch_msgs dp b st) -> In x (msg_amounts m) -> 0 < x.
Proof. exact no_zero_transfer. Qed.

Theorem C17_known_F2_witness :
  let dp := mkDisp 10 1 2 usei uusd 12 0 7 [usei; uusd] 8 10 in
  Known_F2 (dp_rate dp) 300 200 /\
  exists m, In m (dispatch_msgs dp 300 200) /\ In 0 (msg_amounts m).
Proof. exact known_F2_witness. Qed.

(** non-vacuity *)
Example C17_example_swapinfo :
  swap_info usei uusd 2000 1000 300 600 500000000000000000 2000000000000000000 = Some (uusd, 200, usei).
Proof. vm_compute. reflexivity. Qed.

Print Assumptions C17_offer_le_held.
Print Assumptions C17_inv_hyp.
Print Assumptions C17_share_within_rounding.
Print Assumptions C17_dispatch_exact.
Print Assumptions C17_dispatch_conserves.
Print Assumptions C17_dispatch_succeeds.
Print Assumptions C17_rate_le_one_init.
Print Assumptions C17_rate_le_one_step.
Print Assumptions C17_no_zero_transfer.
Print Assumptions C17_known_F2_witness.
