(** C04 — No user operation dilutes holders: a rate falls only through slashing.
    Property theorems only; proofs are in Proofs/HubRates.v.

    Level: the pricing handlers of the hub (Bond x3, Unbond x2 including the branch that closes
    the batch, Convert x2, CheckSlashing without loss) as functions of the world [w] and the hub
    state [h].  [h1] is the hub after the handler's first step, the synchronisation of the books
    with the delegations ([slashing], where a slashing loss - and only there - lowers the pools).
    The effect of the emitted Mint / Burn on the token supply is explicit: the theorems name the
    amount in the emitted message and compare the rate used by the handler with
    [rate_of backing' (supply +/- amount + requests')], the value the State query reports next.

    Vocabulary (Proofs/Inv.v, Proofs/HubRates.v):
    - [rate_of B C := if (B =? 0) || (C =? 0) then D else B * D / C]  (D = 10^18).
    - [Backed B C := 0 < C -> 0 < B]: existing claims have backing.  Its complement
      [B = 0 /\ 0 < C] is the known class of finding F5.
    - [Sound r B C := 0 < r /\ r * C <= B * D]: the 18-decimal rate [r] is positive and not above
      backing over claims.  By [C04_slashing_sound] it holds for the rates the handlers use whenever
      the synchronised pools are [Backed] and claims are within E1 (<= 10^18); it also holds for
      any positive stale rate of a pool without claims.  [Sound r B C] implies [Backed B C].
    In every theorem the conclusion for a token is guarded by [0 < C'] (claims after the step):
    when the claims become zero the rate is reset to 1.0 by definition (the exception the property allows). *)
From Krp Require Import Tactics Prelude Fixed FMap Types Env Registry Cw20 Hub Inv HubRates.
Open Scope N_scope.

(** where [Sound] comes from *)
Theorem C04_slashing_sound : forall w self h h1 sb ss,
  slashing w self h = Some h1 ->
  all_delegations (w_env w) self <> [] -> 0 < booked h ->
  hub_bsei_supply w h = Some sb -> hub_stsei_supply w h = Some ss ->
  Backed (hs_bb (h_state h1)) (sb + cb_reqb (h_batch h1)) ->
  Backed (hs_bst (h_state h1)) (ss + cb_reqst (h_batch h1)) ->
  sb + cb_reqb (h_batch h1) <= LIM -> ss + cb_reqst (h_batch h1) <= LIM ->
  hs_ber (h_state h1) = rate_of (hs_bb (h_state h1)) (sb + cb_reqb (h_batch h1)) /\
  hs_ser (h_state h1) = rate_of (hs_bst (h_state h1)) (ss + cb_reqst (h_batch h1)) /\
  Sound (hs_ber (h_state h1)) (hs_bb (h_state h1)) (sb + cb_reqb (h_batch h1)) /\
  Sound (hs_ser (h_state h1)) (hs_bst (h_state h1)) (ss + cb_reqst (h_batch h1)).
Proof. exact slashing_sound. Qed.

Theorem C04_synced_sound : forall B C, Backed B C -> C <= LIM -> Sound (rate_of B C) B C.
Proof. exact synced_sound. Qed.

Theorem C04_noclaims_sound : forall r B, 0 < r -> Sound r B 0.
Proof. exact noclaims_sound. Qed.

Theorem C04_sound_backed : forall r B C, Sound r B C -> Backed B C.
Proof. exact Sound_backed. Qed.

(** the arithmetic core: if [r * C' <= B' * D] for the new backing and claims, the pool stays
    backed and the new reported rate is at least [r] *)
Theorem C04_rate_step : forall r B' C', 0 < r -> r * C' <= B' * D ->
  Backed B' C' /\ (0 < C' -> r <= rate_of B' C').
Proof. exact rate_step. Qed.

(** Bond (bSei), peg fee on or off: one CMint of [mint]; the bSei rate over the supply after the
    mint is not below the rate before, and is what the hub stores; stSei pool and batch untouched *)
Theorem C04_bond_b_rate_mono : forall w h self sender funds h' out sb h1,
  execute_bond w h self sender funds BkB = Some (h', out) ->
  hub_bsei_supply w h = Some sb ->
  slashing w self h = Some h1 ->
  Sound (hs_ber (h_state h1)) (hs_bb (h_state h1)) (sb + cb_reqb (h_batch h1)) ->
  exists dmsgs tok mint,
    out = dmsgs ++ [MWasm tok (WCw20 (CMint sender mint)) []] /\
    Forall (fun m => exists v c, m = MDelegate v c) dmsgs /\
    let B' := hs_bb (h_state h') in
    let C' := sb + mint + cb_reqb (h_batch h') in
    Backed B' C' /\ (0 < C' -> hs_ber (h_state h1) <= rate_of B' C') /\
    hs_ber (h_state h') = rate_of B' C' /\
    hs_bst (h_state h') = hs_bst (h_state h1) /\ h_batch h' = h_batch h1.
Proof. exact bond_b_rate_mono. Qed.

(** BondForStSei *)
Theorem C04_bond_st_rate_mono : forall w h self sender funds h' out ss h1,
  execute_bond w h self sender funds BkSt = Some (h', out) ->
  slashing w self h = Some h1 ->
  Sound (hs_ser (h_state h1)) (hs_bst (h_state h1)) (ss + cb_reqst (h_batch h1)) ->
  exists dmsgs tok mint,
    out = dmsgs ++ [MWasm tok (WCw20 (CMint sender mint)) []] /\
    Forall (fun m => exists v c, m = MDelegate v c) dmsgs /\
    let B' := hs_bst (h_state h') in
    let C' := ss + mint + cb_reqst (h_batch h') in
    Backed B' C' /\ (0 < C' -> hs_ser (h_state h1) <= rate_of B' C') /\
    hs_bb (h_state h') = hs_bb (h_state h1) /\ h_batch h' = h_batch h1.
Proof. exact bond_st_rate_mono. Qed.

(** BondRewards: mints nothing (only delegations are emitted), strictly raises the stSei backing
    over unchanged claims, so the stSei rate does not fall; the bSei pool and rate are untouched *)
Theorem C04_bond_rw_rate_mono : forall w h self sender funds h' out ss h1,
  execute_bond w h self sender funds BkRw = Some (h', out) ->
  hub_stsei_supply w h = Some ss ->
  slashing w self h = Some h1 ->
  Sound (hs_ser (h_state h1)) (hs_bst (h_state h1)) (ss + cb_reqst (h_batch h1)) ->
  Forall (fun m => exists v c, m = MDelegate v c) out /\
  let B' := hs_bst (h_state h') in
  let C' := ss + cb_reqst (h_batch h') in
  hs_bst (h_state h1) < B' /\
  Backed B' C' /\ (0 < C' -> hs_ser (h_state h1) <= rate_of B' C') /\
  hs_ser (h_state h') = rate_of B' C' /\
  hs_bb (h_state h') = hs_bb (h_state h1) /\ hs_ber (h_state h') = hs_ber (h_state h1) /\
  h_batch h' = h_batch h1.
Proof. exact bond_rw_rate_mono. Qed.

(** Unbond (bSei), peg fee on or off, with or without closing the batch: the messages are
    undelegations and one CBurn of [amount]; over the supply after the burn neither rate falls *)
Theorem C04_unbond_b_rate_mono : forall w h self amount user h' out sb ss h1,
  execute_unbond w h self amount user = Some (h', out) ->
  hub_bsei_supply w h = Some sb ->
  slashing w self h = Some h1 ->
  Sound (hs_ber (h_state h1)) (hs_bb (h_state h1)) (sb + cb_reqb (h_batch h1)) ->
  Sound (hs_ser (h_state h1)) (hs_bst (h_state h1)) (ss + cb_reqst (h_batch h1)) ->
  exists msgs tok,
    out = msgs ++ [MWasm tok (WCw20 (CBurn amount)) []] /\
    Forall (fun m => exists v c, m = MUndelegate v c) msgs /\ amount <= sb /\
    let Cb' := sb - amount + cb_reqb (h_batch h') in
    let Cst' := ss + cb_reqst (h_batch h') in
    Backed (hs_bb (h_state h')) Cb' /\
    (0 < Cb' -> hs_ber (h_state h1) <= rate_of (hs_bb (h_state h')) Cb') /\
    Backed (hs_bst (h_state h')) Cst' /\
    (0 < Cst' -> hs_ser (h_state h1) <= rate_of (hs_bst (h_state h')) Cst').
Proof. exact unbond_b_rate_mono. Qed.

(** Unbond (stSei); [amount <= ss]: the emitted burn can be executed by the token *)
Theorem C04_unbond_st_rate_mono : forall w h self amount user h' out sb ss h1,
  execute_unbond_stsei w h self amount user = Some (h', out) ->
  slashing w self h = Some h1 ->
  amount <= ss ->
  Sound (hs_ber (h_state h1)) (hs_bb (h_state h1)) (sb + cb_reqb (h_batch h1)) ->
  Sound (hs_ser (h_state h1)) (hs_bst (h_state h1)) (ss + cb_reqst (h_batch h1)) ->
  exists msgs tok,
    out = msgs ++ [MWasm tok (WCw20 (CBurn amount)) []] /\
    Forall (fun m => exists v c, m = MUndelegate v c) msgs /\
    let Cb' := sb + cb_reqb (h_batch h') in
    let Cst' := ss - amount + cb_reqst (h_batch h') in
    Backed (hs_bb (h_state h')) Cb' /\
    (0 < Cb' -> hs_ber (h_state h1) <= rate_of (hs_bb (h_state h')) Cb') /\
    Backed (hs_bst (h_state h')) Cst' /\
    (0 < Cst' -> hs_ser (h_state h1) <= rate_of (hs_bst (h_state h')) Cst').
Proof. exact unbond_st_rate_mono. Qed.

(** Convert stSei -> bSei *)
Theorem C04_convert_st_b_rate_mono : forall w h self amount user h' out sb ss h1,
  convert_stsei_bsei w h self amount user = Some (h', out) ->
  hub_bsei_supply w h = Some sb -> hub_stsei_supply w h = Some ss ->
  slashing w self h = Some h1 ->
  Sound (hs_ber (h_state h1)) (hs_bb (h_state h1)) (sb + cb_reqb (h_batch h1)) ->
  Sound (hs_ser (h_state h1)) (hs_bst (h_state h1)) (ss + cb_reqst (h_batch h1)) ->
  exists stok btok mint,
    out = [MWasm btok (WCw20 (CMint user mint)) []; MWasm stok (WCw20 (CBurn amount)) []] /\
    amount <= ss /\ h_batch h' = h_batch h1 /\
    let Bb' := hs_bb (h_state h') in
    let Cb' := sb + mint + cb_reqb (h_batch h') in
    let Bst' := hs_bst (h_state h') in
    let Cst' := ss - amount + cb_reqst (h_batch h') in
    Backed Bb' Cb' /\ (0 < Cb' -> hs_ber (h_state h1) <= rate_of Bb' Cb') /\
    Backed Bst' Cst' /\ (0 < Cst' -> hs_ser (h_state h1) <= rate_of Bst' Cst') /\
    hs_ber (h_state h') = rate_of Bb' Cb' /\ hs_ser (h_state h') = rate_of Bst' Cst'.
Proof. exact convert_st_b_rate_mono. Qed.

(** Convert bSei -> stSei, peg fee on or off *)
Theorem C04_convert_b_st_rate_mono : forall w h self amount user h' out sb ss h1,
  convert_bsei_stsei w h self amount user = Some (h', out) ->
  hub_bsei_supply w h = Some sb -> hub_stsei_supply w h = Some ss ->
  slashing w self h = Some h1 ->
  Sound (hs_ber (h_state h1)) (hs_bb (h_state h1)) (sb + cb_reqb (h_batch h1)) ->
  Sound (hs_ser (h_state h1)) (hs_bst (h_state h1)) (ss + cb_reqst (h_batch h1)) ->
  exists stok btok mint,
    out = [MWasm stok (WCw20 (CMint user mint)) []; MWasm btok (WCw20 (CBurn amount)) []] /\
    amount <= sb /\ h_batch h' = h_batch h1 /\
    let Bb' := hs_bb (h_state h') in
    let Cb' := sb - amount + cb_reqb (h_batch h') in
    let Bst' := hs_bst (h_state h') in
    let Cst' := ss + mint + cb_reqst (h_batch h') in
    Backed Bb' Cb' /\ (0 < Cb' -> hs_ber (h_state h1) <= rate_of Bb' Cb') /\
    Backed Bst' Cst' /\ (0 < Cst' -> hs_ser (h_state h1) <= rate_of Bst' Cst') /\
    hs_ber (h_state h') = rate_of Bb' Cb' /\ hs_ser (h_state h') = rate_of Bst' Cst'.
Proof. exact convert_b_st_rate_mono. Qed.

(** the synchronisation itself lowers a pool only when stake was lost: with delegations at least
    the booked total both pools (and the batch) are untouched, as is every [rate_of pool claims] *)
Theorem C04_slashing_no_loss : forall w self h h1 actual,
  slashing w self h = Some h1 -> actual_bonded w self h = Some actual -> booked h <= actual ->
  hs_bb (h_state h1) = hs_bb (h_state h) /\ hs_bst (h_state h1) = hs_bst (h_state h).
Proof. exact slashing_no_loss. Qed.

Theorem C04_check_slashing_no_loss : forall w h self sender funds h' out actual,
  hub_execute w h self sender funds HCheckSlashing = Some (h', out) ->
  actual_bonded w self h = Some actual -> booked h <= actual ->
  out = [] /\ hs_bb (h_state h') = hs_bb (h_state h) /\ hs_bst (h_state h') = hs_bst (h_state h) /\
  h_batch h' = h_batch h.
Proof. exact check_slashing_no_loss. Qed.

(** the coin value floor(balance x rate) of a passive holder follows the rate *)
Theorem C04_coin_value_monotone : forall a r r', r <= r' -> a * r / D <= a * r' / D.
Proof. exact coin_value_monotone. Qed.

(** finding F5 (known class [B = 0 /\ 0 < C]): [Backed] can be lost through slashing.  bSei pool
    1 coin for 1 bSei, stSei pool 10^6, delegations slashed by 1 % to 990 000: the synchronised
    bSei pool is 0 while 1 bSei exists, and the reported bSei rate is 1.0 *)
Theorem C04_F5_backed_lost_witness :
  hub_bsei_supply F5_w F5_h = Some 1 /\ Backed (hs_bb (h_state F5_h)) (1 + cb_reqb (h_batch F5_h)) /\
  exists s', query_actual_state F5_w A_hub F5_h = Some s' /\
    hs_bb s' = 0 /\ hs_bst s' = 990000 /\ hs_ber s' = D /\
    ~ Backed (hs_bb s') (1 + cb_reqb (h_batch F5_h)).
Proof. exact F5_backed_lost_witness. Qed.

(** ... and in that state (no further loss pending) a Bond of 1 coin mints 1 bSei and takes the
    bSei rate from 1.0 to 0.5: outside [Backed] a rate falls without slashing *)
Theorem C04_F5_bond_lowers_rate_witness :
  actual_bonded F5_ws A_hub F5_hs = Some (booked F5_hs) /\
  exists s h' dmsgs,
    query_actual_state F5_ws A_hub F5_hs = Some s /\ hs_bb s = 0 /\ hs_ber s = D /\
    execute_bond F5_ws F5_hs A_hub 20 [(usei, 1)] BkB =
      Some (h', dmsgs ++ [MWasm A_bsei (WCw20 (CMint 20 1)) []]) /\
    hs_bb (h_state h') = 1 /\
    hs_ber (h_state h') = rate_of 1 (1 + 1 + 0) /\ hs_ber (h_state h') < hs_ber s.
Proof. exact F5_bond_lowers_rate_witness. Qed.

Print Assumptions C04_slashing_sound.
Print Assumptions C04_synced_sound.
Print Assumptions C04_noclaims_sound.
Print Assumptions C04_sound_backed.
Print Assumptions C04_rate_step.
Print Assumptions C04_bond_b_rate_mono.
Print Assumptions C04_bond_st_rate_mono.
Print Assumptions C04_bond_rw_rate_mono.
Print Assumptions C04_unbond_b_rate_mono.
Print Assumptions C04_unbond_st_rate_mono.
Print Assumptions C04_convert_st_b_rate_mono.
Print Assumptions C04_convert_b_st_rate_mono.
Print Assumptions C04_slashing_no_loss.
Print Assumptions C04_check_slashing_no_loss.
Print Assumptions C04_coin_value_monotone.
Print Assumptions C04_F5_backed_lost_witness.
Print Assumptions C04_F5_bond_lowers_rate_witness.
