(** C20 — Stored parameters stay within their valid ranges under any update sequence.
    Property theorems only (proofs: Proofs/Params.v, HubAdmin.v, DispatcherP.v). *)
From Krp Require Import Tactics Prelude Fixed FMap Types Env Registry Cw20 Reward Dispatcher Hub Exec
     ExecP HubFrame HubAdmin DispatcherP Auth Params.
Open Scope N_scope.

(** in every world reached by ANY history (instantiate messages, owner updates, user transactions,
    environment events, in any order and number): peg fee <= 1, threshold <= 1, keeper rate <= 1 *)
Theorem C20_params_in_range : forall ut ops, PInv (run_ops ops (empty_world ut)).
Proof. exact PInv_reachable. Qed.

(** no transaction changes the hub's underlying coin denomination or the dispatcher's stSei reward
    denomination (they are fixed by the instantiate message of the contract instance) *)
Theorem C20_denoms_fixed : forall w sender target m funds,
  PInv w -> denoms_of (fst (step w (OTx sender target m funds))) = denoms_of w.
Proof. exact denoms_fixed_by_tx. Qed.

(** omitted fields keep their stored value (hub pause flag: becomes the message's option) *)
Theorem C20_hub_params_omitted : forall h sender epoch unbonding pegfee thr pz rdenom h' out,
  HPInv h ->
  execute_update_params h sender epoch unbonding pegfee thr pz rdenom = Some (h', out) ->
  let p := h_params h in let p' := h_params h' in
  (epoch = None -> hp_epoch p' = hp_epoch p) /\
  (unbonding = None -> hp_unbonding p' = hp_unbonding p) /\
  (pegfee = None -> hp_pegfee p' = hp_pegfee p) /\
  (thr = None -> hp_thr p' = hp_thr p) /\
  (rdenom = None -> hp_rdenom p' = hp_rdenom p) /\
  hp_underlying p' = hp_underlying p /\ hp_paused p' = pz /\
  h_cfg h' = h_cfg h /\ h_state h' = h_state h /\ h_batch h' = h_batch h /\
  h_wait h' = h_wait h /\ h_hist h' = h_hist h.
Proof. exact hub_params_omitted. Qed.

Theorem C20_hub_config_omitted : forall h sender a b c d e f g h' out,
  execute_update_config h sender a b c d e f g = Some (h', out) ->
  (a = None -> hc_disp (h_cfg h') = hc_disp (h_cfg h)) /\
  (b = None -> hc_reg (h_cfg h') = hc_reg (h_cfg h)) /\
  (c = None -> hc_bsei (h_cfg h') = hc_bsei (h_cfg h)) /\
  (d = None -> hc_stsei (h_cfg h') = hc_stsei (h_cfg h)) /\
  (e = None -> hc_airdrop (h_cfg h') = hc_airdrop (h_cfg h)) /\
  (f = None -> hc_rewards (h_cfg h') = hc_rewards (h_cfg h)) /\
  (g = None -> hc_updater (h_cfg h') = hc_updater (h_cfg h)) /\
  h_params h' = h_params h.
Proof. exact hub_config_omitted. Qed.

Theorem C20_disp_config_omitted : forall w dp self sender hubaddr rewardaddr std bd keeper rate dp' out,
  disp_execute w dp self sender (DConfig hubaddr rewardaddr std bd keeper rate) = Some (dp', out) ->
  std = None /\
  (hubaddr = None -> dp_hub dp' = dp_hub dp) /\ (rewardaddr = None -> dp_reward dp' = dp_reward dp) /\
  (bd = None -> dp_bd dp' = dp_bd dp) /\ (keeper = None -> dp_keeper dp' = dp_keeper dp) /\
  (rate = None -> dp_rate dp' = dp_rate dp) /\
  dp_std dp' = dp_std dp /\ dp_owner dp' = dp_owner dp /\ dp_swap dp' = dp_swap dp /\
  dp_denoms dp' = dp_denoms dp /\ dp_oracle dp' = dp_oracle dp /\ dp_newowner dp' = dp_newowner dp.
Proof. exact disp_config_omitted. Qed.

Theorem C20_reward_config_omitted : forall w r self sender hubaddr d swap r' out,
  reward_execute w r self sender (RConfig hubaddr d swap) = Some (r', out) ->
  (hubaddr = None -> rw_hub r' = rw_hub r) /\ (d = None -> rw_denom r' = rw_denom r) /\
  (swap = None -> rw_swap r' = rw_swap r) /\
  rw_owner r' = rw_owner r /\ rw_denoms r' = rw_denoms r /\ rw_gi r' = rw_gi r /\
  rw_total r' = rw_total r /\ rw_prev r' = rw_prev r /\ rw_holders r' = rw_holders r.
Proof. exact reward_config_omitted. Qed.

Theorem C20_reg_config_omitted : forall w g sender g' out,
  reg_execute w g sender (GConfig None) = Some (g', out) -> g' = g.
Proof. exact reg_config_omitted. Qed.

(** a rejected update changes nothing *)
Theorem C20_rejected_changes_nothing : forall w sender target m funds w' tr,
  step w (OTx sender target m funds) = (w', (false, tr)) -> w' = w /\ tr = [].
Proof. exact tx_rejected_unchanged. Qed.

(** non-vacuity: a history that instantiates and updates reaches a world with a hub and a dispatcher *)
Example C20_example :
  let w := run_ops [OInstHub 10 30 100 5000000000000000 D 11 usei uusd;
                    OInstDisp 10 1 2 usei uusd 12 50000000000000000 7 8 [usei; uusd];
                    OTx 10 A_hub (WHub (HParams None None (Some D) (Some (2 * D)) None None)) []]
                   (empty_world 100) in
  exists h d, w_hub w = Some h /\ w_disp w = Some d /\ hp_pegfee (h_params h) = D /\ hp_thr (h_params h) = D.
Proof. vm_compute. eexists. eexists. repeat split. Qed.

Print Assumptions C20_params_in_range.
Print Assumptions C20_denoms_fixed.
Print Assumptions C20_hub_params_omitted.
Print Assumptions C20_hub_config_omitted.
Print Assumptions C20_disp_config_omitted.
Print Assumptions C20_reward_config_omitted.
Print Assumptions C20_reg_config_omitted.
Print Assumptions C20_rejected_changes_nothing.
