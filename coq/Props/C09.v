(** C09 — Holders can always exit; exits do not depend on the reward plumbing.
    Property theorems only (proofs: Proofs/NonInterf.v, Proofs/ExitP.v; example worlds: Proofs/ExitWorld.v).

    Named predicates used below (definitions in the proof files, all short):
    - [stub_eq w1 w2]  : the six contract states, bank, delegations, unbonding queue, pending rewards,
                         withdraw addresses, redelegation flags and the clock of the two worlds are equal;
                         only [e_price], [e_swapmode], [e_oraclemode] (the swap / oracle stubs) may differ.
    - [exit_wasm m]    : boolean class of root/inner messages: every message EXCEPT WSwap, dispatcher
                         SwapToRewardDenom (DSwap) and DispatchRewards, hub UpdateGlobalIndex, reward
                         SwapToRewardDenom (RSwap), registry RemoveValidator / Redelegations.
                         [exit_class] lifts it to CosmosMsgs (bank and staking messages are in the class).
    - [touches_stub m] : m is a WSwap delivered to A_swap or a DSwap delivered to A_disp (the only
                         executions that read a stub field).
    - [is_stub_op], [drop_stub_ops], [exit_op], [observed] : the stub-control operations of a history
                         (OSetPrice / OSwapMode / OOracleMode), a history without them, "every transaction
                         root is in [exit_wasm]", and the outcomes of all other operations.
    - [Wired] (E4, Proofs/Inv.v), [HPInv] (peg fee and threshold at most 1; invariant of every history,
      Proofs/Params.v), [TInv] (balances sum to supply; invariant of every history, C18).
    - [E1_exit w h tb ts] : delegated stake, booked stake, claims of each token (supply + open requests),
                         the batch id and the user's wait-list entries are at most 10^18.
    - [E2_clock w h]   : the last undelegation time is not in the future.
    - [BooksSynced w h]: after [slashing] has synchronised the pools, booked <= delegated (C02).
    - [Backed h tb ts] : claims_t > 0 -> backing_t > 0 for both tokens; [BackedSynced] = [Backed] after
                         sync; [Known_F5] is its negation (finding F5). *)
From Krp Require Import Tactics Prelude Fixed FMap Types Env Registry Cw20 Reward Dispatcher Hub Exec
     ExecP Inv HubAdmin Cw20P ExitWorld NonInterf ExitP.
Open Scope N_scope.

(** *** Part 1: exits do not depend on the swap / oracle contracts *)

(** one message that does not itself read a stub behaves identically whatever the stubs are *)
Theorem C09_step_msg_agree : forall w1 w2 s m,
  stub_eq w1 w2 -> touches_stub m = false ->
  match step_msg w1 s m, step_msg w2 s m with
  | Some (a, o1), Some (b, o2) => stub_eq a b /\ o1 = o2
  | None, None => True
  | _, _ => False
  end.
Proof. exact step_msg_agree. Qed.

(** messages of the class never read a stub, and the class is closed under "emitted by a handler" *)
Theorem C09_exit_class_no_stub : forall m, exit_class m = true -> touches_stub m = false.
Proof. exact exit_class_no_stub. Qed.

Theorem C09_exit_class_closed : forall w s m w' out,
  step_msg w s m = Some (w', out) -> exit_class m = true ->
  forallb (fun sm => exit_class (snd sm)) out = true.
Proof. exact exit_class_closed. Qed.

(** whole transactions: for ANY two stub behaviours (the worlds differ arbitrarily in price, swap
    mode and oracle mode) a transaction whose root is in the class has the same success flag, the
    same trace of executed messages, and results equal up to the stubs *)
Theorem C09_stub_independence : forall w1 w2 sender target m funds,
  stub_eq w1 w2 -> exit_wasm m = true ->
  snd (step w1 (OTx sender target m funds)) = snd (step w2 (OTx sender target m funds)) /\
  stub_eq (fst (step w1 (OTx sender target m funds))) (fst (step w2 (OTx sender target m funds))).
Proof. exact stub_independence. Qed.

(** the roots named by the property: Bond (bSei / stSei), WithdrawUnbonded, every token message of
    both tokens (Send{Unbond}, Send{Convert}, Transfer, TransferFrom, allowances, burns ...), ClaimRewards *)
Theorem C09_stub_independence_roots : forall w1 w2 sender target m funds,
  stub_eq w1 w2 ->
  (m = WHub HBond \/ m = WHub HBondSt \/ m = WHub HWithdraw \/
   (exists cm, m = WCw20 cm) \/ (exists r, m = WReward (RClaim r))) ->
  snd (step w1 (OTx sender target m funds)) = snd (step w2 (OTx sender target m funds)) /\
  stub_eq (fst (step w1 (OTx sender target m funds))) (fst (step w2 (OTx sender target m funds))).
Proof. exact stub_independence_roots. Qed.

(** histories: stub failures / garbage / price changes injected anywhere do not change any outcome *)
Theorem C09_history_stub_independence : forall ops1 ops2 w1 w2,
  stub_eq w1 w2 -> drop_stub_ops ops1 = drop_stub_ops ops2 -> forallb exit_op ops1 = true ->
  observed ops1 w1 = observed ops2 w2 /\ stub_eq (run_ops ops1 w1) (run_ops ops2 w2).
Proof. exact history_stub_independence. Qed.

(** the relation is not trivial: UpdateGlobalIndex (outside the class) does depend on the stubs *)
Theorem C09_stub_dependence_witness :
  let tx := OTx updater A_hub (WHub (HUpdateGlobal 0)) [] in
  fst (snd (step world0_rewards tx)) = true /\
  fst (snd (step (fst (step world0_rewards (OOracleMode OrFail))) tx)) = false /\
  fst (snd (step (fst (step world0_rewards (OSwapMode SwFail))) tx)) = false /\
  stub_eq world0_rewards (fst (step world0_rewards (OOracleMode OrFail))).
Proof. exact stub_dependence_witness. Qed.

(** *** Part 2: unbonding cannot fail *)

(** under E1 the pool synchronisation itself cannot fail *)
Theorem C09_slashing_succeeds : forall w h tb ts,
  HubWired w h tb ts ->
  delegated (w_env w) A_hub <= LIM -> booked h <= LIM ->
  claims_b h tb <= LIM -> claims_st h ts <= LIM ->
  exists h1, slashing w A_hub h = Some h1.
Proof. exact slashing_succeeds. Qed.

(** the hub's Receive{Unbond} handler succeeds for every positive amount up to the token supply *)
Theorem C09_unbond_succeeds : forall w h tb ts user a funds,
  Wired w -> w_hub w = Some h -> w_bsei w = Some tb -> w_stsei w = Some ts ->
  paused h = false -> HPInv h -> E1_exit w h tb ts -> E2_clock w h ->
  BooksSynced w h -> BackedSynced w h tb ts -> 0 < a ->
  (a <= tk_supply ts ->
     exists h' msgs, hub_execute w h A_hub A_stsei funds (HReceive user a HkUnbond)
                     = Some (h', msgs ++ [burn_msg A_stsei a])) /\
  (a <= tk_supply tb ->
     exists h' msgs, hub_execute w h A_hub A_bsei funds (HReceive user a HkUnbond)
                     = Some (h', msgs ++ [burn_msg A_bsei a])).
Proof. exact unbond_succeeds. Qed.

(** [Backed] is exactly "not in the known class F5"; [BooksSynced] follows from "the hub still has a
    delegation entry or nothing booked" (E8) *)
Theorem C09_backed_iff_not_F5 : forall h tb ts, Backed h tb ts <-> ~ Known_F5 h tb ts.
Proof. exact Backed_iff_not_F5. Qed.

Theorem C09_books_synced : forall w h tb ts,
  HubWired w h tb ts ->
  (all_delegations (w_env w) A_hub = [] -> booked h = 0) -> BooksSynced w h.
Proof. exact BooksSynced_intro. Qed.

(** KNOWN FINDING F5: a reachable world where every premise of [C09_unbond_succeeds] except
    [BackedSynced] holds (the synced bSei pool has backing 0 and a requested bSei) and the stSei
    holder's unbond fails *)
Theorem C09_unbond_F5_witness :
  Wired world_f5 /\ w_hub world_f5 = Some hub_f5 /\ w_bsei world_f5 = Some tb_f5 /\
  w_stsei world_f5 = Some ts_f5 /\ paused hub_f5 = false /\ HPInv hub_f5 /\
  E1_exit world_f5 hub_f5 tb_f5 ts_f5 /\ E2_clock world_f5 hub_f5 /\ BooksSynced world_f5 hub_f5 /\
  (exists h1, slashing world_f5 A_hub hub_f5 = Some h1 /\ Known_F5 h1 tb_f5 ts_f5) /\
  0 < 500 <= tbal ts_f5 bob /\
  hub_execute world_f5 hub_f5 A_hub A_stsei [] (HReceive bob 500 HkUnbond) = None /\
  snd (step world_f5 (OTx bob A_stsei (WCw20 (CSend A_hub 500 HkUnbond)) [])) = (false, []).
Proof. exact unbond_F5_witness. Qed.

(** the first unbond after the epoch period closes the batch with every request in it *)
Theorem C09_undelegated_by_first_after_epoch : forall w h sender user a h' out,
  receive_cw20 w h A_hub sender user a HkUnbond = Some (h', out) ->
  hp_epoch (h_params h) < e_now (w_env w) - hs_lut (h_state h) ->
  let cb := h_batch h in
  exists e awf msgs tok,
    get N.eqb (h_hist h') (cb_id cb) = Some e /\
    he_time e = e_now (w_env w) /\ he_released e = false /\
    ((hc_bsei (h_cfg h) = Some sender /\ awf <= a /\
      he_bamt e = cb_reqb cb + awf /\ he_samt e = cb_reqst cb /\
      wait_of h' user (cb_id cb) = (fst (wait_of h user (cb_id cb)) + awf, snd (wait_of h user (cb_id cb))))
     \/
     (hc_stsei (h_cfg h) = Some sender /\ awf = a /\
      he_bamt e = cb_reqb cb /\ he_samt e = cb_reqst cb + a /\
      wait_of h' user (cb_id cb) = (fst (wait_of h user (cb_id cb)), snd (wait_of h user (cb_id cb)) + a))) /\
    (forall k, k <> cb_id cb -> get N.eqb (h_hist h') k = get N.eqb (h_hist h) k) /\
    h_batch h' = mkBatch (cb_id cb + 1) 0 0 /\
    hs_lut (h_state h') = e_now (w_env w) /\
    out = msgs ++ [burn_msg tok a] /\
    forallb (fun m => match m with MUndelegate _ _ => true | _ => false end) msgs = true.
Proof. exact undelegated_by_first_after_epoch. Qed.

(** the token contracts accept the holder's Send{hub, a, hook} for any positive part of the balance *)
Theorem C09_token_send_unbond_succeeds : forall w tb ts user a hk,
  Wired w -> w_bsei w = Some tb -> w_stsei w = Some ts -> TInv tb -> TInv ts ->
  tk_supply tb <= LIM -> tk_supply ts <= LIM -> 0 < a ->
  (a <= tbal tb user ->
     a <= tk_supply tb /\
     exists tb', bsei_execute w tb user (CSend A_hub a hk)
                 = Some (tb', [m_dec A_reward user a; m_inc A_reward A_hub a; m_receive A_hub user a hk])) /\
  (a <= tbal ts user ->
     a <= tk_supply ts /\
     exists ts', stsei_execute w ts user (CSend A_hub a hk) = Some (ts', [m_receive A_hub user a hk])).
Proof. exact token_send_unbond_succeeds. Qed.

Print Assumptions C09_step_msg_agree.
Print Assumptions C09_exit_class_no_stub.
Print Assumptions C09_exit_class_closed.
Print Assumptions C09_stub_independence.
Print Assumptions C09_stub_independence_roots.
Print Assumptions C09_history_stub_independence.
Print Assumptions C09_stub_dependence_witness.
Print Assumptions C09_slashing_succeeds.
Print Assumptions C09_unbond_succeeds.
Print Assumptions C09_backed_iff_not_F5.
Print Assumptions C09_books_synced.
Print Assumptions C09_unbond_F5_witness.
Print Assumptions C09_undelegated_by_first_after_epoch.
Print Assumptions C09_token_send_unbond_succeeds.
