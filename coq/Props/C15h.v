(** C15 — Reward accrual is proportional to holdings and independent of others' actions,
    at HISTORY level (chain histories [run_ops ops w0] over the full operation alphabet of
    Model/Exec.v).  Property theorems only (proofs: Proofs/AccrualHist.v; vocabulary of
    Props/C15.v, Props/C14w.v, Props/C16.v).

    Model quantities (Proofs/RewardP.v): [acc r a = (rw_gi r - idx_a) * bal_a + pend_a] is the
    accrued reward of address [a] in reward state [r], in 18-decimal atomics (what the
    AccruedRewards query computes before truncation); a ClaimRewards pays the whole units
    [acc r a / D] and keeps [acc r a mod D].

    Ghost quantities (NOT part of the model; functions defined in Proofs/AccrualHist.v, computed
    along the history like [gfold] of C14w), for ONE observed address [a]:
      aupd  = { au_bal; au_new; au_tot }   one executed EFFECTIVE index update (UpdateGlobalIndex
              reaching the reward contract with non-zero mirrored supply):
                au_bal = b_k(a) = reward-contract balance of [a] when the update executed,
                au_new = c_k    = reward coins newly arrived (bank balance - recorded balance),
                au_tot = T_k    = mirrored supply;
      au_q u    = au_new u * D / au_tot u   = q_k, the index increment (reward per bSei, rounded down)
      au_term u = au_bal u * au_q u;   au_sum l = SUM of au_term over l
      au_bq u   = (au_bal u, au_q u)   what [a] sees of the update;   au_ct u = (au_new u, au_tot u)
      aghost = { ag_base; ag_upds : list aupd; ag_claims : list N }
                ag_base   = acc of [a] at the last (re)start (0 from the empty chain),
                ag_upds   = the executed effective updates, most recent first,
                ag_claims = whole units paid by each executed ClaimRewards SIGNED BY [a], most
                            recent first;   ag_claimed g = sumN (ag_claims g) * D  (atomics)
      amsg a w s m w' g = ghost after ONE executed message (s, m) taking world w to w'
                          (r = reward state of w, [rmsg_of m] as in C14w):
                            UpdateGlobalIndex, rw_total r <> 0: push
                              mkAU (ho_bal (holder_of r a)) (bal w' A_reward (rw_denom r) - rw_prev r)
                                   (rw_total r) on ag_upds;
                            ClaimRewards with s = a: push acc r a / D on ag_claims;
                            anything else: unchanged
      arun a            = Exec.run threading the ghost through amsg (same fuel, same stack order)
      astep a w o g     = ghost after operation o: OReset and OInstReward (the reward state is
                          replaced) restart it at ag_zero = mkAG 0 [] []; a transaction uses arun
                          (unchanged if the transaction fails); other operations: unchanged
      afold a ops w g   = astep folded along the history;  ag_init a w = mkAG (acc of a in w) [] []
      reinst o          = o is OReset or OInstReward;   NoReinst ops = no such operation in ops
      abt a w           = Some (balance of a, supply) of the reward state of w;
      AUfrom a w u      = abt a w = Some (au_bal u, au_tot u) /\ au_tot u <> 0
      AUok M u          = au_tot u <> 0 /\ au_bal u <= au_tot u /\ au_tot u <= M
      AInv a w g        = for the reward state r of w (if any): RCore r  /\
                          acc r a + ag_claimed g = ag_base g + au_sum (ag_upds g)
      RCoreW w          = RCore r for the reward state r of w (if any)
      calm_op o         = o is a transaction whose root message is [calm] (C14w part B: every cw20
                          message of both tokens incl. Send with Unbond / Convert hooks, hub Bond,
                          WithdrawUnbonded, ... — not ClaimRewards, nothing that reaches
                          UpdateGlobalIndex) or a non-transaction operation other than reset /
                          reward re-instantiation
      SplitUpds l l1 l2 = the three lists have equal length and, update by update,
                          au_q equal and au_bal u = au_bal u1 + au_bal u2;
      SplitBal l l1 l2  = the same with only the balance condition.

    Envelope.  The closed form needs NO envelope hypothesis beyond [RCoreW w0] for the start world
    (part of C14's invariant: [RWInv w0 -> RCoreW w0]; trivial for the empty chain), because the
    core invariant of the reward contract is preserved by every handler unconditionally.  It
    therefore holds in particular inside the envelope of C14w / C16 ([REnv d0] in every visited
    world, [NoRewardRoot], wiring).  Only two statements use more: E1 for the recorded supplies
    comes from [always (RTot LIM)] (as in C14w), and the identification of the recorded balance
    with the bSei ledger balance uses C16's [Mirror] of the world in which the operation starts.
    Every theorem about [run_ops ops w0] holds for every [ops], hence for every prefix of a
    history, i.e. in every visited world. *)
From Krp Require Import Tactics Prelude Fixed FMap Types Env Registry Cw20 Reward Dispatcher Hub Exec
     ExecP Hist Inv MirrorWire MirrorP NonInterf RewardP RewardWorld RewardHist ExitWorld AccrualHist.
Open Scope N_scope.

(** * PART A — the closed form *)

(** the instrumentation does not change the execution *)
Theorem C15h_ghost_run_same_world : forall a fuel w st g tr,
  option_map fst (arun a fuel w st g) = option_map fst (run fuel w st tr).
Proof. exact AccrualHist_arun_world. Qed.

(** one executed message of any contract, anywhere in a transaction *)
Theorem C15h_msg_step : forall a w s m w' out g,
  step_msg w s m = Some (w', out) -> AInv a w g -> AInv a w' (amsg a w s m w' g).
Proof. exact AccrualHist_msg_step. Qed.

(** one operation of a history (any of the operation alphabet, successful or failing) *)
Theorem C15h_step : forall a w o g,
  AInv a w g -> AInv a (fst (step w o)) (astep a w o g).
Proof. exact AccrualHist_step_inv. Qed.

Theorem C15h_reachable : forall a ops w0 g0,
  AInv a w0 g0 -> AInv a (run_ops ops w0) (afold a ops w0 g0).
Proof. exact AccrualHist_reachable. Qed.

(** (1) CLOSED FORM: in every reached world
      acc r a = base + SUM_k b_k(a) * q_k - claimed_atomics(a)      exactly, in atomics *)
Theorem C15h_closed_form : forall a ops w0 r,
  RCoreW w0 -> w_reward (run_ops ops w0) = Some r ->
  acc r a + ag_claimed (afold a ops w0 (ag_init a w0))
    = ag_base (afold a ops w0 (ag_init a w0)) + au_sum (ag_upds (afold a ops w0 (ag_init a w0))) /\
  acc r a = ag_base (afold a ops w0 (ag_init a w0)) + au_sum (ag_upds (afold a ops w0 (ag_init a w0)))
            - ag_claimed (afold a ops w0 (ag_init a w0)).
Proof. exact AccrualHist_closed_form. Qed.

(** from the empty chain: no hypothesis at all *)
Theorem C15h_closed_form_from_empty : forall a ut ops r,
  w_reward (run_ops ops (empty_world ut)) = Some r ->
  acc r a + ag_claimed (afold a ops (empty_world ut) ag_zero)
    = au_sum (ag_upds (afold a ops (empty_world ut) ag_zero)) /\
  acc r a = au_sum (ag_upds (afold a ops (empty_world ut) ag_zero))
            - ag_claimed (afold a ops (empty_world ut) ag_zero).
Proof. exact AccrualHist_closed_form_empty. Qed.

(** from a deployed world, without reset / re-instantiation: the base is what [a] had accrued *)
Theorem C15h_closed_form_from : forall a ops w0 r0 r,
  RCoreW w0 -> NoReinst ops -> w_reward w0 = Some r0 -> w_reward (run_ops ops w0) = Some r ->
  acc r a + ag_claimed (afold a ops w0 (ag_init a w0))
    = acc r0 a + au_sum (ag_upds (afold a ops w0 (ag_init a w0))).
Proof. exact AccrualHist_closed_form_from. Qed.

Theorem C15h_base_is_start_value : forall a ops w g,
  NoReinst ops -> ag_base (afold a ops w g) = ag_base g.
Proof. exact AccrualHist_base_noreinst. Qed.

Theorem C15h_envelope_of_C14 : forall w, RWInv w -> RCoreW w.
Proof. exact RWInv_RCoreW. Qed.

(** the recorded claim is what was paid: an executed ClaimRewards signed by [a] emits exactly one
    bank send of [acc r a / D] reward coins, records that amount, removes exactly the whole units
    ([acc] becomes [acc mod D]) and leaves the balance unchanged *)
Theorem C15h_claim_is_payout : forall a w m w' out g r rcp,
  step_msg w a m = Some (w', out) -> w_reward w = Some r -> rmsg_of m = Some (RClaim rcp) ->
  amsg a w a m w' g = mkAG (ag_base g) (ag_upds g) (acc r a / D :: ag_claims g) /\
  acc r a / D <> 0 /\
  out = [(A_reward, MBank (claim_to rcp a) [(rw_denom r, acc r a / D)])] /\
  exists r', w_reward w' = Some r' /\ acc r' a = acc r a mod D /\
             ho_bal (holder_of r' a) = ho_bal (holder_of r a).
Proof. exact AccrualHist_claim_is_payout. Qed.

(** (i) between two consecutive index updates: a history starting in ANY world (e.g. right after
    an update) that executes no effective index update changes [a]'s accrued reward only by [a]'s
    own claims — whatever any account, including [a], transfers, sends, unbonds, burns, bonds,
    converts, and whoever else claims *)
Theorem C15h_between_updates : forall a ops w0 r0 r,
  RCoreW w0 -> NoReinst ops -> w_reward w0 = Some r0 -> w_reward (run_ops ops w0) = Some r ->
  ag_upds (afold a ops w0 (ag_init a w0)) = [] ->
  acc r a + ag_claimed (afold a ops w0 (ag_init a w0)) = acc r0 a /\
  (ag_claims (afold a ops w0 (ag_init a w0)) = [] -> acc r a = acc r0 a).
Proof. exact AccrualHist_between_updates. Qed.

(** (ii) increments: over ANY continuation [ops2] of a history [ops1], "accrued + claimed" of [a]
    grows by exactly the terms [b_k(a) * q_k] of the effective updates executed during [ops2] *)
Theorem C15h_increment : forall a ops1 ops2 w0 r1 r2,
  RCoreW w0 -> NoReinst ops2 ->
  w_reward (run_ops ops1 w0) = Some r1 -> w_reward (run_ops (ops1 ++ ops2) w0) = Some r2 ->
  exists new,
    ag_upds (afold a (ops1 ++ ops2) w0 (ag_init a w0)) = new ++ ag_upds (afold a ops1 w0 (ag_init a w0)) /\
    acc r2 a + ag_claimed (afold a (ops1 ++ ops2) w0 (ag_init a w0))
      = acc r1 a + ag_claimed (afold a ops1 w0 (ag_init a w0)) + au_sum new.
Proof. exact AccrualHist_increment. Qed.

(** which balance b_k(a): the effective updates executed by one operation all see the balance of
    [a] and the supply of the world in which the operation STARTED (a transaction that executes an
    index update executes no Increase/DecreaseBalance) ... *)
Theorem C15h_update_sees_start_balance : forall a w o g,
  reinst o = false ->
  exists new, ag_upds (astep a w o g) = new ++ ag_upds g /\ Forall (AUfrom a w) new.
Proof. exact AccrualHist_step_upds. Qed.

(** ... which under C16's mirror are the bSei ledger balance of [a] and the bSei total supply *)
Theorem C15h_update_sees_bsei_balance : forall a w o g tb,
  reinst o = false -> Mirror w -> w_bsei w = Some tb ->
  exists new, ag_upds (astep a w o g) = new ++ ag_upds g /\
    Forall (fun u => au_bal u = tbal tb a /\ au_tot u = tk_supply tb /\ au_tot u <> 0) new.
Proof. exact AccrualHist_step_upds_mirror. Qed.

(** (iii) tokens that reach [a] after update k contribute nothing to the k-th term: whatever
    happens after a prefix [ops1] of a history, the terms recorded during [ops1] stay exactly as
    they are; later operations only add terms for later updates *)
Theorem C15h_terms_append_only : forall a ops1 ops2 w0 g0,
  NoReinst ops2 ->
  exists new,
    ag_upds (afold a (ops1 ++ ops2) w0 g0) = new ++ ag_upds (afold a ops1 w0 g0) /\
    au_sum (ag_upds (afold a (ops1 ++ ops2) w0 g0))
      = au_sum new + au_sum (ag_upds (afold a ops1 w0 g0)).
Proof. exact AccrualHist_late_tokens. Qed.

(** magnitudes: every executed effective update saw a non-zero supply, [a] held at most the
    supply, and the supply was within [M] if the mirrored supply is within [M] in every visited
    world (E1: M = LIM = 10^18) *)
Theorem C15h_updates_within_E1 : forall a M ops w0,
  RCoreW w0 -> always (RTot M) ops w0 ->
  Forall (AUok M) (ag_upds (afold a ops w0 (ag_init a w0))).
Proof. exact AccrualHist_upds_ok. Qed.

(** (ii) sub-unit rounding of one term against the ideal pro-rata share b * c / T
    (in atomics b * (c * D) / T): never more, short by less than b atomics ... *)
Theorem C15h_term_rounding : forall u,
  au_tot u <> 0 ->
  au_term u <= au_bal u * (au_new u * D) / au_tot u /\
  (0 < au_bal u -> au_bal u * (au_new u * D) / au_tot u < au_term u + au_bal u).
Proof. exact AccrualHist_term_rounding. Qed.

(** ... under E1 by less than one base unit (D atomics) ... *)
Theorem C15h_term_rounding_E1 : forall u,
  AUok LIM u ->
  au_term u <= au_bal u * (au_new u * D) / au_tot u /\
  au_bal u * (au_new u * D) / au_tot u < au_term u + D.
Proof. exact AccrualHist_term_rounding_E1. Qed.

(** ... and in whole base units the term and floor (b * c / T) differ by at most one *)
Theorem C15h_term_base_units : forall u,
  AUok LIM u ->
  au_term u / D <= au_bal u * au_new u / au_tot u /\
  au_bal u * au_new u / au_tot u <= au_term u / D + 1.
Proof. exact AccrualHist_term_base_units. Qed.

(** the effective updates recorded here are those recorded by the ghost [wg_upds] of C14w *)
Theorem C15h_updates_are_C14w_updates : forall a d0 ops w g y,
  Forall (fun o => match o with OInstReward _ _ _ _ _ => False | _ => True end) ops ->
  map au_tot (ag_upds g) = wg_upds y ->
  map au_tot (ag_upds (afold a ops w g)) = wg_upds (gfold d0 ops w y).
Proof. exact AccrualHist_upds_match_C14w. Qed.

(** * PART B — independence from other holders (two executions) *)

(** Two executions — arbitrary histories [opsA] from [wA] observing [aA], [opsB] from [wB] observing
    [aB]; the other holders, their number, their operations and the order of all operations are
    unconstrained — in which the observed holder starts with the same accrued reward, the executed
    effective updates contribute the same total SUM_k b_k * q_k and the holder claimed the same
    total, end with the same accrued reward *)
Theorem C15h_independent : forall aA aB opsA opsB wA wB rA rB,
  RCoreW wA -> RCoreW wB ->
  w_reward (run_ops opsA wA) = Some rA -> w_reward (run_ops opsB wB) = Some rB ->
  ag_base (afold aA opsA wA (ag_init aA wA)) = ag_base (afold aB opsB wB (ag_init aB wB)) ->
  au_sum (ag_upds (afold aA opsA wA (ag_init aA wA)))
    = au_sum (ag_upds (afold aB opsB wB (ag_init aB wB))) ->
  ag_claimed (afold aA opsA wA (ag_init aA wA)) = ag_claimed (afold aB opsB wB (ag_init aB wB)) ->
  acc rA aA = acc rB aB.
Proof. exact AccrualHist_independent. Qed.

(** (2) the form of the property text: two histories from the same start world with the same
    sequence of executed effective index updates as seen by [a] (balance held b_k(a), index delta
    q_k) and the same sequence of claims by [a] give [a] the same accrued reward *)
Theorem C15h_independent_lists : forall a opsA opsB w0 rA rB,
  RCoreW w0 -> NoReinst opsA -> NoReinst opsB ->
  w_reward (run_ops opsA w0) = Some rA -> w_reward (run_ops opsB w0) = Some rB ->
  map au_bq (ag_upds (afold a opsA w0 (ag_init a w0)))
    = map au_bq (ag_upds (afold a opsB w0 (ag_init a w0))) ->
  ag_claims (afold a opsA w0 (ag_init a w0)) = ag_claims (afold a opsB w0 (ag_init a w0)) ->
  acc rA a = acc rB a.
Proof. exact AccrualHist_independent_lists. Qed.

Theorem C15h_independent_from_empty : forall aA aB opsA opsB utA utB rA rB,
  w_reward (run_ops opsA (empty_world utA)) = Some rA ->
  w_reward (run_ops opsB (empty_world utB)) = Some rB ->
  map au_bq (ag_upds (afold aA opsA (empty_world utA) ag_zero))
    = map au_bq (ag_upds (afold aB opsB (empty_world utB) ag_zero)) ->
  ag_claims (afold aA opsA (empty_world utA) ag_zero)
    = ag_claims (afold aB opsB (empty_world utB) ag_zero) ->
  acc rA aA = acc rB aB.
Proof. exact AccrualHist_independent_empty. Qed.

(** order of operations: after a common prefix, two arbitrary continuations (one a permutation of
    the other, or with other holders' operations inserted / removed) that execute no effective
    index update and in which [a] makes the same claims leave [a] with the same accrued reward *)
Theorem C15h_reorder_segment : forall a pre seg seg' w0 r r',
  RCoreW w0 -> NoReinst seg -> NoReinst seg' ->
  w_reward (run_ops (pre ++ seg) w0) = Some r -> w_reward (run_ops (pre ++ seg') w0) = Some r' ->
  ag_upds (afold a (pre ++ seg) w0 (ag_init a w0)) = ag_upds (afold a pre w0 (ag_init a w0)) ->
  ag_upds (afold a (pre ++ seg') w0 (ag_init a w0)) = ag_upds (afold a pre w0 (ag_init a w0)) ->
  ag_claims (afold a (pre ++ seg) w0 (ag_init a w0))
    = ag_claims (afold a (pre ++ seg') w0 (ag_init a w0)) ->
  acc r a = acc r' a.
Proof. exact AccrualHist_reorder_segment. Qed.

(** "rewards already accrued stay with the holder who earned them", history level: along any
    sequence of calm operations — by anybody, including [a], in any order, of any length,
    successful or failing — the accrued reward of EVERY address is what it was before *)
Theorem C15h_calm_segment : forall a pre seg w0 r1 r,
  RCoreW w0 -> Forall calm_op seg ->
  w_reward (run_ops pre w0) = Some r1 -> w_reward (run_ops (pre ++ seg) w0) = Some r ->
  acc r a = acc r1 a.
Proof. exact AccrualHist_calm_segment. Qed.

(** swapping two adjacent calm operations of a history *)
Theorem C15h_swap_calm : forall a pre o1 o2 w0 r1 r r',
  RCoreW w0 -> calm_op o1 -> calm_op o2 ->
  w_reward (run_ops pre w0) = Some r1 ->
  w_reward (run_ops (pre ++ [o1; o2]) w0) = Some r ->
  w_reward (run_ops (pre ++ [o2; o1]) w0) = Some r' ->
  acc r a = acc r' a /\ acc r a = acc r1 a.
Proof. exact AccrualHist_swap_calm. Qed.

(** the hypothesis "same index deltas q_k" cannot be dropped, and beyond the next index update the
    order of OTHER holders' operations does matter: carol bonds 100 000 usei and unbonds 350 000
    bSei; bond first: both succeed (supply 750 000 at the next update); unbond first: it fails, the
    bond succeeds (supply 1 100 000).  Alice (700 000 bSei throughout, signing neither) has the same
    accrued reward right after the two operations in both orders, but the next update delivers a
    different reward per bSei.  This is the pro-rata rule itself, not a defect of the contracts. *)
Theorem C15h_swap_needs_same_rate_witness :
  calm_op ah_sw_o1 /\ calm_op ah_sw_o2 /\
  ag_upds (afold alice (ah_sw_pre ++ [ah_sw_o1; ah_sw_o2] ++ ah_sw_post) (empty_world 100) ag_zero)
    = [mkAU 700000 12996 750000; mkAU 700000 18050 1000000] /\
  ag_upds (afold alice (ah_sw_pre ++ [ah_sw_o2; ah_sw_o1] ++ ah_sw_post) (empty_world 100) ag_zero)
    = [mkAU 700000 12996 1100000; mkAU 700000 18050 1000000] /\
  exists r12 r21 r r',
    w_reward (run_ops (ah_sw_pre ++ [ah_sw_o1; ah_sw_o2]) (empty_world 100)) = Some r12 /\
    w_reward (run_ops (ah_sw_pre ++ [ah_sw_o2; ah_sw_o1]) (empty_world 100)) = Some r21 /\
    w_reward (run_ops (ah_sw_pre ++ [ah_sw_o1; ah_sw_o2] ++ ah_sw_post) (empty_world 100)) = Some r /\
    w_reward (run_ops (ah_sw_pre ++ [ah_sw_o2; ah_sw_o1] ++ ah_sw_post) (empty_world 100)) = Some r' /\
    acc r12 alice = 12635000000000000000000 /\ acc r21 alice = 12635000000000000000000 /\
    acc r alice = 24764600000000000000000 /\ acc r' alice = 20905181818181817800000.
Proof. exact AccrualHist_swap_needs_same_rate_witness. Qed.

(** * PART C — one account or several *)

(** in one history all observed addresses see the same (c_k, T_k), hence the same q_k *)
Theorem C15h_all_holders_same_updates : forall a a' ops w g g',
  map au_ct (ag_upds g) = map au_ct (ag_upds g') ->
  map au_ct (ag_upds (afold a ops w g)) = map au_ct (ag_upds (afold a' ops w g')).
Proof. exact AccrualHist_ct_same. Qed.

(** (3) history [opsA] with the position in the single account [a]; history [opsB] with the
    position split over [a1], [a2]: if at every executed effective update the reward per bSei
    agrees and b_k(a) = b_k(a1) + b_k(a2), then what the single account earned (still accrued +
    already claimed, above its start value) is EXACTLY the sum of what the parts earned (atomics) *)
Theorem C15h_split : forall a a1 a2 opsA opsB wA wB rA rB,
  RCoreW wA -> RCoreW wB ->
  w_reward (run_ops opsA wA) = Some rA -> w_reward (run_ops opsB wB) = Some rB ->
  SplitUpds (ag_upds (afold a opsA wA (ag_init a wA)))
            (ag_upds (afold a1 opsB wB (ag_init a1 wB))) (ag_upds (afold a2 opsB wB (ag_init a2 wB))) ->
  acc rA a + ag_claimed (afold a opsA wA (ag_init a wA))
    + ag_base (afold a1 opsB wB (ag_init a1 wB)) + ag_base (afold a2 opsB wB (ag_init a2 wB))
  = (acc rB a1 + ag_claimed (afold a1 opsB wB (ag_init a1 wB)))
    + (acc rB a2 + ag_claimed (afold a2 opsB wB (ag_init a2 wB)))
    + ag_base (afold a opsA wA (ag_init a wA)).
Proof. exact AccrualHist_split. Qed.

(** from the empty chain: the totals earned add exactly, so the whole units obtainable differ by
    less than one base unit, never in favour of the split position *)
Theorem C15h_split_units : forall a a1 a2 opsA opsB utA utB rA rB,
  w_reward (run_ops opsA (empty_world utA)) = Some rA ->
  w_reward (run_ops opsB (empty_world utB)) = Some rB ->
  SplitUpds (ag_upds (afold a opsA (empty_world utA) ag_zero))
            (ag_upds (afold a1 opsB (empty_world utB) ag_zero))
            (ag_upds (afold a2 opsB (empty_world utB) ag_zero)) ->
  let e := acc rA a + ag_claimed (afold a opsA (empty_world utA) ag_zero) in
  let e1 := acc rB a1 + ag_claimed (afold a1 opsB (empty_world utB) ag_zero) in
  let e2 := acc rB a2 + ag_claimed (afold a2 opsB (empty_world utB) ag_zero) in
  e = e1 + e2 /\ e1 / D + e2 / D <= e / D /\ e / D <= e1 / D + e2 / D + 1.
Proof. exact AccrualHist_split_units. Qed.

(** the part accounts live in the same history, so only the (c_k, T_k) of the two histories and
    the balance sums have to be compared *)
Theorem C15h_split_same_history : forall a a1 a2 opsA opsB utA utB,
  map au_ct (ag_upds (afold a opsA (empty_world utA) ag_zero))
    = map au_ct (ag_upds (afold a1 opsB (empty_world utB) ag_zero)) ->
  SplitBal (ag_upds (afold a opsA (empty_world utA) ag_zero))
           (ag_upds (afold a1 opsB (empty_world utB) ag_zero))
           (ag_upds (afold a2 opsB (empty_world utB) ag_zero)) ->
  SplitUpds (ag_upds (afold a opsA (empty_world utA) ag_zero))
            (ag_upds (afold a1 opsB (empty_world utB) ag_zero))
            (ag_upds (afold a2 opsB (empty_world utB) ag_zero)).
Proof. exact AccrualHist_split_same_history. Qed.

(** * PART D — non-vacuity (concrete chain histories, by computation)
    Deployment [genesis_ops] of ExitWorld.v (six wired contracts, keeper rate 5 %, alice bonds
    1 000 000 usei for bSei, bob 2 000 000 usei for stSei).  [ah_ops]: alice sends 300 000 bSei to
    carol; rewards accrue at the validators; index update 1 through the real pipeline (hub
    UpdateGlobalIndex -> dispatcher -> reward contract); alice sends 200 000 to dave; carol unbonds
    100 001; rewards accrue; index update 2; alice claims. *)

(** every operation succeeds; envelopes of C14w and C16 hold; alice's ghost: 700 000 bSei at update
    1 (q = 0.01805), 500 000 at update 2 (q = 0.013560015066683407, rounded down), one claim of
    19 415 uusd; closed form 7533341703500000 = 19415007533341703500000 - 19415 * 10^18 *)
Theorem C15h_nonvacuous :
  Forall (fun b => b = true) (ah_outcomes ah_ops (empty_world 100)) /\
  RCoreW (empty_world 100) /\ NoRewardRoot ah_ops /\ always (REnv uusd) ah_ops (empty_world 100) /\
  always (RTot LIM) ah_ops (empty_world 100) /\ always Mirror ah_ops (empty_world 100) /\
  afold alice ah_ops (empty_world 100) ag_zero
    = mkAG 0 [mkAU 500000 12204 899999; mkAU 700000 18050 1000000] [19415] /\
  map au_bq (ag_upds (afold alice ah_ops (empty_world 100) ag_zero))
    = [(500000, 13560015066683407); (700000, 18050000000000000)] /\
  au_sum (ag_upds (afold alice ah_ops (empty_world 100) ag_zero)) = 19415007533341703500000 /\
  ag_claimed (afold alice ah_ops (empty_world 100) ag_zero) = 19415000000000000000000 /\
  Forall (AUok LIM) (ag_upds (afold alice ah_ops (empty_world 100) ag_zero)) /\
  wg_upds (gfold uusd ah_ops (empty_world 100) g_zero) = [899999; 1000000] /\
  exists r, w_reward (run_ops ah_ops (empty_world 100)) = Some r /\
    acc r alice = 7533341703500000 /\
    acc r ah_carol = 8126989453321614716593 /\ acc r ah_dave = 2712003013336681400000 /\
    bal (w_env (run_ops ah_ops (empty_world 100))) alice uusd = 19415.
Proof. exact AccrualHist_nonvacuous. Qed.

(** the recorded balances are the bSei balances in the worlds in which the two updating
    transactions started *)
Theorem C15h_balances_nonvacuous :
  exists t1 t2,
    w_bsei (run_ops (genesis_ops ++ firstn 3 ah_acts) (empty_world 100)) = Some t1 /\
    w_bsei (run_ops (genesis_ops ++ firstn 8 ah_acts) (empty_world 100)) = Some t2 /\
    tbal t1 alice = 700000 /\ tk_supply t1 = 1000000 /\
    tbal t2 alice = 500000 /\ tk_supply t2 = 899999 /\
    tbal t2 ah_carol = 199999 /\ tbal t2 ah_dave = 200000.
Proof. exact AccrualHist_balances_nonvacuous. Qed.

(** between the two updates, from the world right after update 1: alice's transfer to dave,
    carol's unbond, accruals at the validators — alice's balance falls, her accrued reward stays *)
Theorem C15h_between_nonvacuous :
  RCoreW ah_w1 /\ NoReinst ah_seg /\ Forall calm_op ah_seg /\
  Forall (fun b => b = true) (ah_outcomes ah_seg ah_w1) /\
  ag_upds (afold alice ah_seg ah_w1 (ag_init alice ah_w1)) = [] /\
  ag_claims (afold alice ah_seg ah_w1 (ag_init alice ah_w1)) = [] /\
  exists r0 r, w_reward ah_w1 = Some r0 /\ w_reward (run_ops ah_seg ah_w1) = Some r /\
    acc r0 alice = 12635000000000000000000 /\ acc r alice = 12635000000000000000000 /\
    ho_bal (holder_of r0 alice) = 700000 /\ ho_bal (holder_of r alice) = 500000.
Proof. exact AccrualHist_between_nonvacuous. Qed.

(** a second history in which the OTHER holders are different accounts doing different things in
    a different order, alice holding the same balances at the two updates: hypotheses and
    conclusion of C15h_independent_lists (dave's rewards differ, alice's do not) *)
Theorem C15h_independent_nonvacuous :
  RCoreW ah_w0 /\ NoReinst ah_acts /\ NoReinst ah_actsB /\
  Forall (fun b => b = true) (ah_outcomes ah_actsB ah_w0) /\
  map au_bq (ag_upds (afold alice ah_acts ah_w0 (ag_init alice ah_w0)))
    = map au_bq (ag_upds (afold alice ah_actsB ah_w0 (ag_init alice ah_w0))) /\
  ag_claims (afold alice ah_acts ah_w0 (ag_init alice ah_w0))
    = ag_claims (afold alice ah_actsB ah_w0 (ag_init alice ah_w0)) /\
  exists rA rB, w_reward (run_ops ah_acts ah_w0) = Some rA /\ w_reward (run_ops ah_actsB ah_w0) = Some rB /\
    acc rA alice = 7533341703500000 /\ acc rB alice = 7533341703500000 /\
    acc rA ah_dave = 2712003013336681400000 /\ acc rB ah_dave = 8091155738254931309593.
Proof. exact AccrualHist_independent_nonvacuous. Qed.

(** alice's position split over alice and erin: hypotheses of C15h_split_units /
    C15h_split_same_history; 19415.0075... = 12190.5045... + 7224.5030... exactly; whole units
    19 415 against 12 190 + 7 224 *)
Theorem C15h_split_nonvacuous :
  map au_ct (ag_upds (afold alice ah_ops (empty_world 100) ag_zero))
    = map au_ct (ag_upds (afold alice ah_opsS (empty_world 100) ag_zero)) /\
  SplitBal (ag_upds (afold alice ah_ops (empty_world 100) ag_zero))
           (ag_upds (afold alice ah_opsS (empty_world 100) ag_zero))
           (ag_upds (afold ah_erin ah_opsS (empty_world 100) ag_zero)) /\
  SplitUpds (ag_upds (afold alice ah_ops (empty_world 100) ag_zero))
            (ag_upds (afold alice ah_opsS (empty_world 100) ag_zero))
            (ag_upds (afold ah_erin ah_opsS (empty_world 100) ag_zero)) /\
  ag_upds (afold alice ah_opsS (empty_world 100) ag_zero)
    = [mkAU 300000 12204 899999; mkAU 450000 18050 1000000] /\
  ag_upds (afold ah_erin ah_opsS (empty_world 100) ag_zero)
    = [mkAU 200000 12204 899999; mkAU 250000 18050 1000000] /\
  ag_claims (afold alice ah_opsS (empty_world 100) ag_zero) = [12190] /\
  ag_claims (afold ah_erin ah_opsS (empty_world 100) ag_zero) = [] /\
  exists rA rS,
    w_reward (run_ops ah_ops (empty_world 100)) = Some rA /\
    w_reward (run_ops ah_opsS (empty_world 100)) = Some rS /\
    acc rA alice + ag_claimed (afold alice ah_ops (empty_world 100) ag_zero) = 19415007533341703500000 /\
    acc rS alice + ag_claimed (afold alice ah_opsS (empty_world 100) ag_zero) = 12190504520005022100000 /\
    acc rS ah_erin + ag_claimed (afold ah_erin ah_opsS (empty_world 100) ag_zero) = 7224503013336681400000.
Proof. exact AccrualHist_split_nonvacuous. Qed.

Print Assumptions C15h_ghost_run_same_world.
Print Assumptions C15h_msg_step.
Print Assumptions C15h_step.
Print Assumptions C15h_reachable.
Print Assumptions C15h_closed_form.
Print Assumptions C15h_closed_form_from_empty.
Print Assumptions C15h_closed_form_from.
Print Assumptions C15h_base_is_start_value.
Print Assumptions C15h_envelope_of_C14.
Print Assumptions C15h_claim_is_payout.
Print Assumptions C15h_between_updates.
Print Assumptions C15h_increment.
Print Assumptions C15h_update_sees_start_balance.
Print Assumptions C15h_update_sees_bsei_balance.
Print Assumptions C15h_terms_append_only.
Print Assumptions C15h_updates_within_E1.
Print Assumptions C15h_term_rounding.
Print Assumptions C15h_term_rounding_E1.
Print Assumptions C15h_term_base_units.
Print Assumptions C15h_updates_are_C14w_updates.
Print Assumptions C15h_independent.
Print Assumptions C15h_independent_lists.
Print Assumptions C15h_independent_from_empty.
Print Assumptions C15h_reorder_segment.
Print Assumptions C15h_calm_segment.
Print Assumptions C15h_swap_calm.
Print Assumptions C15h_swap_needs_same_rate_witness.
Print Assumptions C15h_all_holders_same_updates.
Print Assumptions C15h_split.
Print Assumptions C15h_split_units.
Print Assumptions C15h_split_same_history.
Print Assumptions C15h_nonvacuous.
Print Assumptions C15h_balances_nonvacuous.
Print Assumptions C15h_between_nonvacuous.
Print Assumptions C15h_independent_nonvacuous.
Print Assumptions C15h_split_nonvacuous.
