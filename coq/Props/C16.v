(** C16 — Reward-contract balances mirror bSei token balances at all times.
    Property theorems only (proofs: Proofs/MirrorWire.v, Proofs/MirrorP.v).

    Vocabulary (definitions in Proofs/Inv.v and Proofs/MirrorP.v):
    - [Mirror w] (Inv.v): if the bSei token and the reward contract exist in [w], then for EVERY
      address the reward contract's staking balance equals the bSei balance, and the reward
      contract's total equals the bSei total supply.
    - [Wired w] (Inv.v): envelope E4 — the six contracts exist at their addresses and point at
      each other.
    - [FreshLedgers w]: the bSei token (if present) has no balances and supply 0 — i.e. it was
      instantiated WITHOUT initial balances — and the reward contract (if present) has no holders
      and total 0.
    - [MirrorEnv w := FreshLedgers w \/ Wired w]: no bSei balance exists while the wiring is incomplete.
    - [inst_ok w o] / [ops_ok ops w]: the root sender of every transaction is not the bSei contract
      address itself, and every (re-)instantiation of the bSei token or of the reward contract
      leaves both ledgers fresh.  [mirror_ok_op o] is the state-independent variant that forbids
      those two instantiate operations altogether.
    - [rewire_wasm m]: [m] is one of the four owner messages that can change the wiring (hub, reward,
      dispatcher, registry UpdateConfig); [plain m] / [plain_s (s, m)]: [m] is not such a message.
    - [rbal r o] / [lbal t o]: reward-side / token-side ledger at index [o : option addr]
      ([Some a] = account [a], [None] = the total); [dl o a x] = [x] if a change of [x] on account [a]
      is visible at index [o] (always for the total), else 0.
    - [pend inc o st]: sum over the pending message stack [st] of the amounts of
      IncreaseBalance ([inc = true]) / DecreaseBalance ([inc = false]) messages sent BY the bSei
      token TO the reward contract that concern index [o]; [tag A_bsei out] is [out] tagged with the
      sender bSei.
    - [Lag w st]: reward ledger + pending increases = bSei ledger + pending decreases, at every index.
    - [J w st := Wired w /\ Forall plain_s st /\ Lag w st]; [Prefixed st]: the pending
      Increase/DecreaseBalance messages form a prefix of the stack; [J2 := J /\ Prefixed];
      [mirror_msg sm]: [sm] is such a pending message.
    - [AccrualFits r a]: the accrued reward of [a] ((global index - holder index) * balance + pending)
      is representable in 128 bits — the arithmetic guard of Increase/DecreaseBalance. *)
From Krp Require Import Tactics Prelude Fixed FMap Types Env Registry Cw20 Reward Dispatcher Hub Exec
     ExecP Hist Inv Cw20P MirrorWire MirrorP.
Open Scope N_scope.

(** ** the property along histories *)

(** every history from the empty chain — any operations by any principals (holders, spenders, the
    hub, owners), any amounts: the mirror holds in EVERY visited world *)
Theorem C16_mirror_genesis : forall ut ops,
  always MirrorEnv ops (empty_world ut) -> ops_ok ops (empty_world ut) ->
  always Mirror ops (empty_world ut).
Proof. exact mirror_genesis. Qed.

(** from any mirrored world, along any history that keeps the wiring *)
Theorem C16_mirror_history : forall ops w0,
  always Wired ops w0 -> Forall mirror_ok_op ops -> Mirror w0 -> always Mirror ops w0.
Proof. exact always_mirror. Qed.

Theorem C16_mirror_final : forall ops w0,
  always Wired ops w0 -> Forall mirror_ok_op ops -> Mirror w0 -> Mirror (run_ops ops w0).
Proof. exact mirror_final. Qed.

(** starting from a token instantiated without initial balances *)
Theorem C16_fresh_is_mirrored : forall w, FreshLedgers w -> Mirror w.
Proof. exact Fresh_Mirror. Qed.

Theorem C16_instantiate_without_balances : forall hubaddr t,
  tok_instantiate false hubaddr 0 [] = Some t -> tk_bal t = [] /\ tk_supply t = 0.
Proof. exact inst_bsei_fresh. Qed.

Theorem C16_mirror_from_fresh : forall ut setup ops,
  let w1 := run_ops setup (empty_world ut) in
  FreshLedgers w1 -> always Wired ops w1 -> Forall mirror_ok_op ops -> always Mirror ops w1.
Proof. exact mirror_from_fresh. Qed.

(** purely syntactic hypotheses: no instantiate/reset operations, no re-wiring root messages —
    wiring and mirror are both preserved *)
Theorem C16_mirror_plain_history : forall ops w0,
  Wired w0 -> Mirror w0 -> Forall plain_op ops -> always (fun w => Wired w /\ Mirror w) ops w0.
Proof. exact mirror_plain_history. Qed.

(** one operation *)
Theorem C16_step : forall w o, Wired w -> mirror_ok_op o -> Mirror w -> Mirror (fst (step w o)).
Proof. exact step_mirror. Qed.

(** ** transactions *)
Theorem C16_tx : forall w sender target m funds w' tr,
  Wired w -> Mirror w -> sender <> A_bsei -> rewire_wasm m = false ->
  run tx_fuel w [(sender, MWasm target m funds)] [] = Some (w', tr) ->
  Mirror w' /\ Wired w'.
Proof. exact tx_mirror. Qed.

(** a re-wiring owner message touches neither ledger (no wiring assumption needed) *)
Theorem C16_tx_rewire : forall w sender target m funds w' tr,
  rewire_wasm m = true ->
  run tx_fuel w [(sender, MWasm target m funds)] [] = Some (w', tr) -> SameLedgers w w'.
Proof. exact tx_mirror_rewire. Qed.

(** the invariant over (world, pending stack) is preserved by EVERY message of every contract *)
Theorem C16_stack_step : forall w s m rest w' out,
  J2 w ((s, m) :: rest) -> step_msg w s m = Some (w', out) -> J2 w' (out ++ rest).
Proof. exact step_msg_J2. Qed.

Theorem C16_stack_root : forall w sender target m funds,
  Wired w -> Mirror w -> sender <> A_bsei -> rewire_wasm m = false ->
  J2 w [(sender, MWasm target m funds)].
Proof. exact J2_root. Qed.

(** inside a transaction the mirror is exact whenever the next message to execute is not itself a
    pending Increase/DecreaseBalance — in particular when the hub's Receive hook runs and when the
    Burn / Mint it emits during unbond and convert runs *)
Theorem C16_mirror_inside_tx : forall w hd rest,
  J2 w (hd :: rest) -> ~ mirror_msg hd -> Mirror w.
Proof. exact J2_head_mirror. Qed.

(** no handler of any contract ever emits a re-wiring message; non-re-wiring messages keep the wiring *)
Theorem C16_no_contract_rewires : forall w sender target m funds w' out,
  call w sender target m funds = Some (w', out) -> Forall plain out.
Proof. exact call_emits_plain. Qed.

Theorem C16_wiring_stable : forall w s m w' out,
  step_msg w s m = Some (w', out) -> plain m -> wdata w' = wdata w.
Proof. exact step_msg_wdata. Qed.

(** ** one lemma per bSei handler: emitted reward messages (who, how much) and ledger change *)
Theorem C16_transfer : forall w t sender to amt t' out,
  bsei_execute w t sender (CTransfer to amt) = Some (t', out) ->
  exists rc, query_reward_contract w t = Some rc /\
    out = [m_dec rc sender amt; m_inc rc to amt] /\ amt <= tbal t sender /\
    forall o, lbal t' o + dl o sender amt = lbal t o + dl o to amt.
Proof. exact bsei_transfer_mirror. Qed.

Theorem C16_burn : forall w t sender amt t' out,
  bsei_execute w t sender (CBurn amt) = Some (t', out) ->
  exists rc, query_reward_contract w t = Some rc /\
    out = [m_dec rc sender amt] /\ amt <= tbal t sender /\
    forall o, lbal t' o + dl o sender amt = lbal t o.
Proof. exact bsei_burn_mirror. Qed.

Theorem C16_mint : forall w t sender to amt t' out,
  bsei_execute w t sender (CMint to amt) = Some (t', out) ->
  exists rc, query_reward_contract w t = Some rc /\
    out = [m_inc rc to amt] /\ forall o, lbal t' o = lbal t o + dl o to amt.
Proof. exact bsei_mint_mirror. Qed.

Theorem C16_send : forall w t sender c amt hk t' out,
  bsei_execute w t sender (CSend c amt hk) = Some (t', out) ->
  exists rc, query_reward_contract w t = Some rc /\
    out = [m_dec rc sender amt; m_inc rc c amt; m_receive c sender amt hk] /\ amt <= tbal t sender /\
    forall o, lbal t' o + dl o sender amt = lbal t o + dl o c amt.
Proof. exact bsei_send_mirror. Qed.

(** allowance-based: the OWNER is debited (never the spender) *)
Theorem C16_transfer_from : forall w t sender ow to amt t' out,
  bsei_execute w t sender (CTransferFrom ow to amt) = Some (t', out) ->
  exists rc, query_reward_contract w t = Some rc /\
    out = [m_dec rc ow amt; m_inc rc to amt] /\ amt <= tbal t ow /\
    forall o, lbal t' o + dl o ow amt = lbal t o + dl o to amt.
Proof. exact bsei_transfer_from_mirror. Qed.

Theorem C16_burn_from : forall w t sender ow amt t' out,
  bsei_execute w t sender (CBurnFrom ow amt) = Some (t', out) ->
  exists rc, query_reward_contract w t = Some rc /\
    out = [m_dec rc ow amt; m_check_slashing (tk_hub t)] /\ amt <= tbal t ow /\
    forall o, lbal t' o + dl o ow amt = lbal t o.
Proof. exact bsei_burn_from_mirror. Qed.

Theorem C16_send_from : forall w t sender ow c amt hk t' out,
  bsei_execute w t sender (CSendFrom ow c amt hk) = Some (t', out) ->
  exists rc, query_reward_contract w t = Some rc /\
    out = [m_dec rc ow amt; m_inc rc c amt; m_receive c sender amt hk] /\ amt <= tbal t ow /\
    forall o, lbal t' o + dl o ow amt = lbal t o + dl o c amt.
Proof. exact bsei_send_from_mirror. Qed.

Theorem C16_allowance_msgs : forall w t sender m t' out,
  bsei_execute w t sender m = Some (t', out) ->
  match m with CIncAllow _ _ _ | CDecAllow _ _ _ => True | _ => False end ->
  out = [] /\ forall o, lbal t' o = lbal t o.
Proof. exact bsei_allow_mirror. Qed.

(** all bSei messages at once: ledger change = change announced to the reward contract *)
Theorem C16_bsei_announces_delta : forall w t sender m t' out,
  bsei_execute w t sender m = Some (t', out) -> query_reward_contract w t = Some A_reward ->
  forall o, lbal t o + pend true o (tag A_bsei out) = lbal t' o + pend false o (tag A_bsei out).
Proof. exact bsei_execute_lag. Qed.

(** the reward contract: Increase/DecreaseBalance are accepted only from the bSei token and change
    exactly the named holder's balance and the total by the amount; nothing else changes a balance *)
Theorem C16_reward_side : forall w r self sender rm r' out,
  query_bsei_addr w (rw_hub r) = Some A_bsei ->
  reward_execute w r self sender rm = Some (r', out) ->
  match rm with
  | RInc a x => sender = A_bsei /\ out = [] /\ forall o, rbal r' o = rbal r o + dl o a x
  | RDec a x => sender = A_bsei /\ out = [] /\ x <= rbal r (Some a) /\ x <= rw_total r /\
                forall o, rbal r' o + dl o a x = rbal r o
  | _ => forall o, rbal r' o = rbal r o
  end.
Proof. exact reward_execute_rbal. Qed.

(** ** corollary (used by C09/C14): DecreaseBalance cannot fail once the ledger accepted the debit *)
Theorem C16_dec_after_debit_succeeds : forall w t sender cm t' a amt more r,
  Wired w -> Mirror w -> w_bsei w = Some t -> w_reward w = Some r -> TInv t ->
  bsei_execute w t sender cm = Some (t', m_dec A_reward a amt :: more) ->
  AccrualFits r a ->
  exists r', step_msg (set_bsei w t') A_bsei (m_dec A_reward a amt)
             = Some (set_reward (set_bsei w t') r', []) /\
             forall o, rbal r' o + dl o a amt = rbal r o.
Proof. exact dec_after_debit_succeeds. Qed.

(** explicit magnitude bounds that imply the arithmetic guard *)
Theorem C16_accrual_fits_bound : forall r a,
  ho_idx (holder_of r a) <= rw_gi r ->
  ho_bal (holder_of r a) * D <= U128MAX ->
  (rw_gi r - ho_idx (holder_of r a)) * ho_bal (holder_of r a) + ho_pend (holder_of r a) <= U128MAX ->
  AccrualFits r a.
Proof. exact AccrualFits_bound. Qed.

(** ** non-vacuity and necessity of the excluded classes (concrete worlds, by computation) *)
Theorem C16_example_nonvacuous :
  Wired ex_w2 /\ Mirror ex_w2 /\
  exists tb r, w_bsei ex_w2 = Some tb /\ w_reward ex_w2 = Some r /\
    tbal tb ex_alice = 450 /\ tbal tb ex_bob = 350 /\ tk_supply tb = 800 /\
    ho_bal (holder_of r ex_alice) = 450 /\ ho_bal (holder_of r ex_bob) = 350 /\ rw_total r = 800.
Proof. exact example_mirror_nonvacuous. Qed.

Theorem C16_example_genesis_hypotheses :
  always MirrorEnv (ex_setup ++ ex_acts) (empty_world 50) /\ ops_ok (ex_setup ++ ex_acts) (empty_world 50).
Proof. exact (conj ex_genesis_env ex_genesis_ok). Qed.

Theorem C16_example_history_hypotheses :
  FreshLedgers ex_w1 /\ always Wired ex_acts ex_w1 /\ Forall mirror_ok_op ex_acts /\
  run_ops ex_setup (empty_world 50) = ex_w1 /\ run_ops ex_acts ex_w1 = ex_w2.
Proof. exact (conj ex_w1_fresh (conj ex_always_wired (conj ex_acts_ok (conj ex_w1_eq ex_w2_eq)))). Qed.

(** a root message "signed" by the bSei contract address would raise a reward balance *)
Theorem C16_refuted_by_bsei_sender :
  exists tb r,
    let w' := fst (step ex_w2 (OTx A_bsei A_reward (WReward (RInc 77 5)) [])) in
    w_bsei w' = Some tb /\ w_reward w' = Some r /\ rw_total r = 805 /\ tk_supply tb = 800.
Proof. exact mirror_refuted_by_bsei_sender. Qed.

(** with initial balances the mirror is false from the start *)
Theorem C16_refuted_by_initial_balances :
  exists tb r,
    let w' := fst (step ex_w1 (OInstBsei ex_owner A_hub [(ex_alice, 5)])) in
    Wired w' /\ w_bsei w' = Some tb /\ w_reward w' = Some r /\ rw_total r = 0 /\ tk_supply tb = 5.
Proof. exact mirror_refuted_by_initial_balances. Qed.

(** re-instantiating the reward contract while holders exist breaks the mirror *)
Theorem C16_refuted_by_reward_reinstantiate :
  exists tb r,
    let w' := fst (step ex_w2 (OInstReward ex_owner A_hub uusd A_swap [uatom])) in
    Wired w' /\ w_bsei w' = Some tb /\ w_reward w' = Some r /\ rw_total r = 0 /\ tk_supply tb = 800.
Proof. exact mirror_refuted_by_reward_reinstantiate. Qed.

Print Assumptions C16_mirror_genesis.
Print Assumptions C16_mirror_history.
Print Assumptions C16_mirror_final.
Print Assumptions C16_fresh_is_mirrored.
Print Assumptions C16_instantiate_without_balances.
Print Assumptions C16_mirror_from_fresh.
Print Assumptions C16_mirror_plain_history.
Print Assumptions C16_step.
Print Assumptions C16_tx.
Print Assumptions C16_tx_rewire.
Print Assumptions C16_stack_step.
Print Assumptions C16_stack_root.
Print Assumptions C16_mirror_inside_tx.
Print Assumptions C16_no_contract_rewires.
Print Assumptions C16_wiring_stable.
Print Assumptions C16_transfer.
Print Assumptions C16_burn.
Print Assumptions C16_mint.
Print Assumptions C16_send.
Print Assumptions C16_transfer_from.
Print Assumptions C16_burn_from.
Print Assumptions C16_send_from.
Print Assumptions C16_allowance_msgs.
Print Assumptions C16_bsei_announces_delta.
Print Assumptions C16_reward_side.
Print Assumptions C16_dec_after_debit_succeeds.
Print Assumptions C16_accrual_fits_bound.
Print Assumptions C16_example_nonvacuous.
Print Assumptions C16_example_genesis_hypotheses.
Print Assumptions C16_example_history_hypotheses.
Print Assumptions C16_refuted_by_bsei_sender.
Print Assumptions C16_refuted_by_initial_balances.
Print Assumptions C16_refuted_by_reward_reinstantiate.
