(** C02 — The hub never books more stake than is delegated; bonds are delegated in full; each batch
    undelegation removes from the books exactly what it undelegates; bonding, re-bonding, conversion
    and index updates never lower (bonds: never change) the hub's liquid balance.
    Property theorems only.  Proofs: Proofs/BooksEnv.v (environment), Proofs/BooksHub.v (handlers),
    Proofs/BooksP.v (transactions, histories), Proofs/BooksLiquid.v (liquid balance);
    non-vacuity examples: Proofs/BooksExamples.v.

    Vocabulary (definitions are in the proof files, all short):
    - [delegated e x]  (Inv.v)  = sum of the amounts of AllDelegations of [x];  [dv e x v] = the amount
      [x] has delegated to [v] (0 without entry);  [booked h] (Inv.v) = hs_bb + hs_bst;
      [Books w] (Inv.v) = for the hub state h of w, booked h <= delegated (w_env w) A_hub;
    - [DelWf e] = the chain's delegation table has unique keys and only entries on chain validators;
    - [dsum l] / [usum l] = sum of the amounts of the Delegate / Undelegate messages in [l];
      [NoDU l] = no Delegate / Undelegate message in [l]; [DUFirstL l] = they all come first in [l];
    - [is_pricing m] = m is Bond, BondForStSei, BondRewards, CheckSlashing or a Receive hook with
      Unbond / Convert;  [is_pricing_msg (s, m)] = m is a wasm message to the hub carrying such an m;
    - [Ent w] = the hub books stake only while it has at least one delegation entry,
      [EntWf w] = DelWf (w_env w) /\ Ent w  (holds in every reachable world: theorem 9);
    - [hub_emit_ok hm m] = message kind [m] may be emitted by the handler of [hm] (the table is the
      statement of theorem 14);  [not_withdraw], [no_gift], [NoRewardsToHub]: see theorems 15-17. *)
From Krp Require Import Tactics Prelude Fixed FMap Types Env Registry Cw20 Reward Dispatcher Hub Exec
     ExecP Hist Inv RegistryP HubFrame HubAdmin BooksEnv BooksHub BooksP BooksLiquid.
Open Scope N_scope.

(** ** (a) the chain environment seen through [delegated] *)

(** 1. AllDelegations lists the existing entries in validator order; [delegated] is the sum of the
       per-validator stakes *)
Theorem C02_all_delegations_order : forall e x,
  map fst (all_delegations e x) = filter (fun v => is_some (delegation e x v)) VALS /\
  delegated e x = sumN (map (dv e x) VALS).
Proof. exact all_delegations_order. Qed.

(** 2. a Delegate raises the delegator's stake by exactly the amount and takes exactly the amount out
       of its usei balance (staking rewards being paid elsewhere) *)
Theorem C02_delegate_effect : forall e x v c e',
  do_delegate e x v c = Some e' ->
  fst c = usei /\ 0 < snd c /\ is_val v = true /\ snd c <= bal e x usei /\
  delegated e' x = delegated e x + snd c /\
  dv e' x v = dv e x v + snd c /\ (forall v', v' <> v -> dv e' x v' = dv e x v') /\
  (forall y, y <> x -> delegated e' y = delegated e y) /\
  (withdraw_addr e x <> x -> bal e' x usei = bal e x usei - snd c) /\
  (forall a d, a <> x -> a <> withdraw_addr e x -> bal e' a d = bal e a d) /\
  e_unb e' = e_unb e.
Proof. exact delegate_effect. Qed.

(** 3. an Undelegate lowers the stake by exactly the amount, appends one unbonding entry maturing
       after the chain's unbonding time, and moves no coins except the reward payout *)
Theorem C02_undelegate_effect : forall e x v c e',
  do_undelegate e x v c = Some e' -> DelWf e ->
  fst c = usei /\ 0 < snd c /\ snd c <= dv e x v /\
  delegated e' x + snd c = delegated e x /\
  dv e' x v = dv e x v - snd c /\ (forall v', v' <> v -> dv e' x v' = dv e x v') /\
  (forall y, y <> x -> delegated e' y = delegated e y) /\
  e_unb e' = e_unb e ++ [(x, v, snd c, e_now e + e_ut e)] /\
  (forall a d, a <> withdraw_addr e x -> bal e' a d = bal e a d) /\
  (forall a d, bal e a d <= bal e' a d) /\ DelWf e'.
Proof. exact undelegate_effect. Qed.

(** 4. a Redelegate keeps the delegator's total stake (also when source = destination) *)
Theorem C02_redelegate_effect : forall e x src dst c e',
  do_redelegate e x src dst c = Some e' -> DelWf e ->
  fst c = usei /\ 0 < snd c /\ snd c <= dv e x src /\ can_redelegate e src = true /\ is_val dst = true /\
  delegated e' x = delegated e x /\
  (src <> dst -> dv e' x src = dv e x src - snd c /\ dv e' x dst = dv e x dst + snd c) /\
  (src = dst -> dv e' x src = dv e x src) /\
  (forall v', v' <> src -> v' <> dst -> dv e' x v' = dv e x v') /\
  (forall y, y <> x -> delegated e' y = delegated e y) /\
  e_unb e' = e_unb e /\ (forall a d, a <> withdraw_addr e x -> bal e' a d = bal e a d) /\ DelWf e'.
Proof. exact redelegate_effect. Qed.

(** 5. slashing only lowers stakes (of the slashed validator), keeps the set of entries; reward
       payouts never touch delegations *)
Theorem C02_slash_effect : forall e v num den unb e',
  ev_slash e v num den unb = Some e' ->
  (forall x v', dv e' x v' <= dv e x v') /\ (forall x v', v' <> v -> dv e' x v' = dv e x v') /\
  (forall x, delegated e' x <= delegated e x) /\
  (forall x, all_delegations e' x = [] <-> all_delegations e x = []) /\
  e_bank e' = e_bank e /\ (DelWf e -> DelWf e').
Proof. exact slash_effect. Qed.

Theorem C02_payout_effect : forall e x v,
  e_del (payout e x v) = e_del e /\ e_unb (payout e x v) = e_unb e /\
  (forall a d, a <> withdraw_addr e x -> bal (payout e x v) a d = bal e a d) /\
  (forall a d, bal e a d <= bal (payout e x v) a d).
Proof. exact payout_effect. Qed.

(** ** (b) the hub's handlers *)

(** 6. the slashing check: either both pools are untouched (no delegation entry, or booked <= actual),
       or the booked total becomes the actual delegation [act] (= [delegated] for the staking coin) *)
Theorem C02_slashing_check : forall w self h h1,
  slashing w self h = Some h1 ->
  exists act, act <= delegated (w_env w) self /\
    (hp_underlying (h_params h) = usei -> act = delegated (w_env w) self) /\
    ((hs_bb (h_state h1) = hs_bb (h_state h) /\ hs_bst (h_state h1) = hs_bst (h_state h) /\
      (all_delegations (w_env w) self = [] \/ booked h <= act))
     \/ (act < booked h /\ booked h1 = act)).
Proof. exact slashing_spec. Qed.

Theorem C02_slashing_restores : forall w self h h1,
  slashing w self h = Some h1 ->
  (booked h = 0 \/ all_delegations (w_env w) self <> []) ->
  booked h1 <= delegated (w_env w) self.
Proof. exact slashing_restores. Qed.

(** 7. every coin sent with Bond / BondForStSei / BondRewards ([k] any of the three) is delegated:
       exactly one payment coin in the hub's denom; the Delegate messages sum to exactly the payment,
       carry the payment's denom, go only to validators of the registry as it is at that moment, come
       before the Mint; the booked total is the synchronised total plus the payment *)
Theorem C02_bond_delegates_all : forall w h self sender funds k h' out,
  execute_bond w h self sender funds k = Some (h', out) ->
  exists pay h1 g,
    funds = [pay] /\ fst pay = hp_underlying (h_params h) /\ 0 < snd pay /\
    slashing w self h = Some h1 /\ w_reg w = Some g /\
    dsum out = snd pay /\ usum out = 0 /\ DUFirstL out /\
    booked h' = booked h1 + snd pay /\
    (forall v c, In (MDelegate v c) out -> In v (rg_vals g) /\ fst c = fst pay /\ 0 < snd c) /\
    (forall m, In m out -> (exists v c, m = MDelegate v c) \/
                           (exists tok mint, m = MWasm tok (WCw20 (CMint sender mint)) [])).
Proof. exact bond_delegates_all. Qed.

(** 8. a closing batch: the Undelegate messages sum to exactly the decrease of the books, pool by
       pool, and only name validators the hub has delegated to *)
Theorem C02_undelegate_books_exact : forall w self h h' out,
  process_undelegations w self h = Some (h', out) ->
  exists b_und st_und,
    usum out = b_und + st_und /\ dsum out = 0 /\ AllDU out /\
    hs_bb (h_state h') + b_und = hs_bb (h_state h) /\
    hs_bst (h_state h') + st_und = hs_bst (h_state h) /\
    booked h' + usum out = booked h /\
    (forall m, In m out -> exists v a, m = MUndelegate v (hp_underlying (h_params h), a) /\ 0 < a /\
                                       exists d, In (v, d) (all_delegations (w_env w) self)).
Proof. exact undelegate_books_exact. Qed.

(** conversion moves the same amount between the pools *)
Theorem C02_convert_moves_between_pools : forall w h self amount user h' out,
  (convert_stsei_bsei w h self amount user = Some (h', out) ->
   exists h1 d, slashing w self h = Some h1 /\
     hs_bb (h_state h') = hs_bb (h_state h1) + d /\ hs_bst (h_state h') + d = hs_bst (h_state h1) /\
     booked h' = booked h1 /\ NoDU out) /\
  (convert_bsei_stsei w h self amount user = Some (h', out) ->
   exists h1 d, slashing w self h = Some h1 /\
     hs_bb (h_state h') + d = hs_bb (h_state h1) /\ hs_bst (h_state h') = hs_bst (h_state h1) + d /\
     booked h' = booked h1 /\ NoDU out).
Proof. exact convert_moves_between_pools. Qed.

(** every hub message: pricing messages run the check and then move the books by exactly the emitted
    (Delegate - Undelegate) amounts; every other message leaves both pools alone and emits neither *)
Theorem C02_hub_execute_books : forall w h self sender funds m h' out,
  hub_execute w h self sender funds m = Some (h', out) ->
  (is_pricing m = true ->
     exists h1, slashing w self h = Some h1 /\ booked h' + usum out = booked h1 + dsum out) /\
  (is_pricing m = false ->
     hs_bb (h_state h') = hs_bb (h_state h) /\ hs_bst (h_state h') = hs_bst (h_state h) /\ NoDU out) /\
  DUFirstL out.
Proof. exact hub_execute_books. Qed.

(** ** (c) transactions and histories *)

(** 9. in every world reached by ANY history the delegation table is well formed and stake is booked
       only while the hub has a delegation entry *)
Theorem C02_EntWf_reachable : forall ut ops, EntWf (run_ops ops (empty_world ut)).
Proof. exact EntWf_reachable. Qed.

(** 10. after every successful transaction that executed a pricing hub message — whatever slashing
        happened before, whatever other messages (token hooks, reward contract, re-entrant
        CheckSlashing) are interleaved — booked <= delegated *)
Theorem C02_tx_books_after_pricing : forall w sender target m funds w' tr,
  EntWf w ->
  run tx_fuel w [(sender, MWasm target m funds)] [] = Some (w', tr) ->
  existsb is_pricing_msg tr = true ->
  DelWf (w_env w') /\ Books w'.
Proof. exact tx_books_after_pricing. Qed.

Theorem C02_books_after_pricing_reachable : forall ut ops sender target m funds w' tr,
  run tx_fuel (run_ops ops (empty_world ut)) [(sender, MWasm target m funds)] [] = Some (w', tr) ->
  existsb is_pricing_msg tr = true ->
  Books w'.
Proof. exact books_after_pricing_reachable. Qed.

(** Bond / BondForStSei / BondRewards / CheckSlashing sent to the hub, and Unbond / Convert (cw20
    Send of either token to the hub) are such transactions *)
Theorem C02_hub_pricing_tx_books : forall w sender hm funds w' tr,
  EntWf w -> is_pricing hm = true ->
  run tx_fuel w [(sender, MWasm A_hub (WHub hm) funds)] [] = Some (w', tr) ->
  Books w'.
Proof. exact hub_pricing_tx_books. Qed.

Theorem C02_token_send_tx_books : forall w sender target amt hk funds w' tr,
  EntWf w -> target = A_bsei \/ target = A_stsei -> hk = HkUnbond \/ hk = HkConvert ->
  run tx_fuel w [(sender, MWasm target (WCw20 (CSend A_hub amt hk)) funds)] [] = Some (w', tr) ->
  Books w'.
Proof. exact token_send_tx_books. Qed.

(** 11. [Books] is preserved by every successful transaction whatsoever, and by every operation of a
        history other than a slashing event *)
Theorem C02_tx_books_preserved : forall w sender target m funds w' tr,
  DelWf (w_env w) -> Books w ->
  run tx_fuel w [(sender, MWasm target m funds)] [] = Some (w', tr) ->
  DelWf (w_env w') /\ Books w'.
Proof. exact tx_books_preserved. Qed.

Theorem C02_step_books_preserved : forall w o,
  DelWf (w_env w) -> Books w -> (forall v num den unb, o <> OSlash v num den unb) ->
  DelWf (w_env (fst (step w o))) /\ Books (fst (step w o)).
Proof. exact step_books_preserved. Qed.

(** 12. exact form (E4: the hub's coin is the staking coin): starting within [Books], a successful
        transaction changes delegated and booked stake by the same amount *)
Theorem C02_tx_gap_preserved : forall w sender target m funds w' tr h h',
  DelWf (w_env w) -> w_hub w = Some h -> hp_underlying (h_params h) = usei ->
  booked h <= delegated (w_env w) A_hub ->
  run tx_fuel w [(sender, MWasm target m funds)] [] = Some (w', tr) ->
  w_hub w' = Some h' ->
  booked h' <= delegated (w_env w') A_hub /\
  delegated (w_env w') A_hub - booked h' = delegated (w_env w) A_hub - booked h.
Proof. exact tx_gap_preserved. Qed.

(** equality at synchronisation points.  [NoSurplus w] = DelWf (w_env w), the hub's coin is usei and
    delegated <= booked (nothing is delegated that is not booked; slashing only widens the
    difference).  It is kept by every transaction and by every operation of a history except a
    re-instantiation of the hub over existing delegations; together with theorem 10 it gives:
    after a successful pricing transaction the booked stake EQUALS the delegated stake *)
Theorem C02_tx_nosurplus_preserved : forall w sender target m funds w' tr,
  NoSurplus w -> run tx_fuel w [(sender, MWasm target m funds)] [] = Some (w', tr) -> NoSurplus w'.
Proof. exact tx_nosurplus_preserved. Qed.

Theorem C02_step_nosurplus_preserved : forall w o,
  NoSurplus w ->
  (forall a b c d e f g i, o <> OInstHub a b c d e f g i) ->
  NoSurplus (fst (step w o)).
Proof. exact step_nosurplus_preserved. Qed.

Theorem C02_tx_books_exact_after_pricing : forall w sender target m funds w' tr h',
  EntWf w -> NoSurplus w ->
  run tx_fuel w [(sender, MWasm target m funds)] [] = Some (w', tr) ->
  existsb is_pricing_msg tr = true ->
  w_hub w' = Some h' ->
  booked h' = delegated (w_env w') A_hub.
Proof. exact tx_books_exact_after_pricing. Qed.

(** ** (d) the hub's liquid balance *)

(** 13. the staking coins leaving the hub in one handler: the payment for the three bond handlers,
        nothing for every other handler *)
Theorem C02_hub_execute_dsum : forall w h self sender funds hm h' out,
  hub_execute w h self sender funds hm = Some (h', out) ->
  (hm = HBond \/ hm = HBondSt \/ hm = HBondRewards ->
     exists pay, funds = [pay] /\ fst pay = hp_underlying (h_params h) /\ dsum out = snd pay) /\
  (~ (hm = HBond \/ hm = HBondSt \/ hm = HBondRewards) -> dsum out = 0).
Proof. exact hub_execute_dsum. Qed.

(** 14. which messages each handler can emit: a bank send only in WithdrawUnbonded, Delegate only in
        the bond handlers, Undelegate only in Unbond, Redelegate only in RedelegateProxy; no message to
        another contract carries funds.  [hub_emit_ok hm m] is:
          MWasm _ _ f => f = [] | MBank _ _ => hm = HWithdraw
          | MDelegate _ _ => hm = HBond \/ hm = HBondSt \/ hm = HBondRewards
          | MUndelegate _ _ => exists u a, hm = HReceive u a HkUnbond
          | MRedelegate s _ _ => exists l, hm = HRedelProxy s l
          | MWithdrawReward _ => exists n, hm = HUpdateGlobal n
          | MSetWithdrawAddr a => exists b c d e f g, hm = HConfig (Some a) b c d e f g *)
Theorem C02_hub_execute_emits : forall w h self sender funds hm h' out,
  hub_execute w h self sender funds hm = Some (h', out) -> Forall (hub_emit_ok hm) out.
Proof. exact hub_execute_emits. Qed.

(** 15. a successful transaction that does not execute the hub's WithdrawUnbonded
        ([not_withdraw sm] = sm is not a WithdrawUnbonded message to the hub) never lowers the hub's
        usei balance: Bond*, Convert, UpdateGlobalIndex, CheckSlashing, RemoveValidator, token
        transfers and reward claims cannot consume coins reserved for unbonders *)
Theorem C02_tx_liquid_ge : forall w sender target m funds w' tr,
  (forall h, w_hub w = Some h -> hp_underlying (h_params h) = usei) ->
  (sender = A_hub -> funds = []) ->
  run tx_fuel w [(sender, MWasm target m funds)] [] = Some (w', tr) ->
  Forall not_withdraw tr ->
  bal (w_env w) A_hub usei <= bal (w_env w') A_hub usei.
Proof. exact tx_liquid_ge. Qed.

(** 16. if moreover no executed message hands usei to the hub other than as the payment of a bond
        ([no_gift]: no usei funds on a non-bond message to the hub, no usei bank send to the hub, no
        swap output in usei to the hub, no redirection of staking rewards to the hub) and staking
        rewards are not paid to the hub ([NoRewardsToHub]), the balance is exactly unchanged *)
Theorem C02_tx_liquid_eq : forall w sender target m funds w' tr,
  (forall h, w_hub w = Some h -> hp_underlying (h_params h) = usei) ->
  NoRewardsToHub (w_env w) ->
  (sender = A_hub -> funds = []) ->
  run tx_fuel w [(sender, MWasm target m funds)] [] = Some (w', tr) ->
  Forall (fun sm => not_withdraw sm /\ no_gift sm) tr ->
  bal (w_env w') A_hub usei = bal (w_env w) A_hub usei.
Proof. exact tx_liquid_eq. Qed.

(** 17. Bond / BondForStSei / BondRewards transactions meet those conditions by themselves: the
        payment arrives with the message and exactly the payment leaves as Delegate messages *)
Theorem C02_bond_tx_liquid_unchanged : forall w sender hm funds w' tr,
  is_bond_msg hm ->
  (forall h, w_hub w = Some h -> hp_underlying (h_params h) = usei) ->
  NoRewardsToHub (w_env w) -> sender <> A_hub ->
  run tx_fuel w [(sender, MWasm A_hub (WHub hm) funds)] [] = Some (w', tr) ->
  bal (w_env w') A_hub usei = bal (w_env w) A_hub usei.
Proof. exact bond_tx_liquid_unchanged. Qed.

Print Assumptions C02_all_delegations_order.
Print Assumptions C02_delegate_effect.
Print Assumptions C02_undelegate_effect.
Print Assumptions C02_redelegate_effect.
Print Assumptions C02_slash_effect.
Print Assumptions C02_payout_effect.
Print Assumptions C02_slashing_check.
Print Assumptions C02_slashing_restores.
Print Assumptions C02_bond_delegates_all.
Print Assumptions C02_undelegate_books_exact.
Print Assumptions C02_convert_moves_between_pools.
Print Assumptions C02_hub_execute_books.
Print Assumptions C02_EntWf_reachable.
Print Assumptions C02_tx_books_after_pricing.
Print Assumptions C02_books_after_pricing_reachable.
Print Assumptions C02_hub_pricing_tx_books.
Print Assumptions C02_token_send_tx_books.
Print Assumptions C02_tx_books_preserved.
Print Assumptions C02_step_books_preserved.
Print Assumptions C02_tx_gap_preserved.
Print Assumptions C02_tx_nosurplus_preserved.
Print Assumptions C02_step_nosurplus_preserved.
Print Assumptions C02_tx_books_exact_after_pricing.
Print Assumptions C02_hub_execute_dsum.
Print Assumptions C02_hub_execute_emits.
Print Assumptions C02_tx_liquid_ge.
Print Assumptions C02_tx_liquid_eq.
Print Assumptions C02_bond_tx_liquid_unchanged.
