(** C06 at HISTORY level (and the first sentence of C02 in its exact form) —
    "After validators are slashed, the next slashing check (explicit CheckSlashing or the one inside
    bond/unbond/convert) sets the booked stake to exactly the surviving delegated amount and reduces the
    bSei and stSei pools in proportion to their sizes (each within two base units of its exact share);
    when the delegated amount is not below the books nothing changes, so a check can never raise a pool."
    C02: "After every successful pricing operation (bond, unbond, convert, slashing check) the stake the
    hub books as bonded does not exceed what the hub actually has delegated on chain".
    Property theorems only; proofs in Proofs/SyncHist.v, examples and witnesses in Proofs/SyncHistEx.v.
    Handler level: Props/C06.v; transaction level of C02: Props/C02.v.  Appended to the C06 claim.

    WHAT IS PROVED
    A. Inside ANY successful transaction (any signer, target, message, funds; any message tree), until the
       first pricing hub message executes, neither pool, nor the hub's coin, nor the hub's delegated total
       changes (C06w_tx_no_pricing_frame); the FIRST pricing message therefore runs its slashing check on
       the pools and the delegated total of the world the transaction started in, and the handler (bond,
       unbond, convert, CheckSlashing) continues from the synchronised hub (C06w_first_check); that hub has:
       pools summing to exactly the surviving delegated amount, each pool within two base units of its
       pro-rata share, bSei pool not raised, stSei pool raised by at most one unit, when a loss was pending;
       both pools unchanged when none was (C06w_first_check_pools, C06w_root_check, C06w_first_check_op).
       For the explicit CheckSlashing transaction this is the FINAL world (C06w_check_slashing_tx_pools).
    B. The equality invariant.  Along EVERY history from the empty world whose hub instantiations use
       the staking coin, the signed gap booked - delegated is a ghost computed from the history alone
       (C06w_gap_exact): slashing events add the stake they remove, successful transactions that executed
       a pricing hub message cut it to min(gap, 0), (re-)instantiating the hub sets it to -delegated.
       If the hub is only instantiated while nothing is delegated ([SyncHist_fresh]; an address is
       instantiated once on a real chain) the gap is never negative and
            booked = delegated + unrecognised                          (C06w_unrecognised_exact)
       in every visited world, [unrecognised] = stake removed by slashing events since the last successful
       pricing transaction; hence after EVERY successful pricing transaction booked = delegated exactly
       (C06w_pricing_tx_exact, C06w_pricing_op_exact), and CheckSlashing writes off exactly [unrecognised]
       (C06w_check_writes_off_unrecognised, C06w_slash_then_check).  Without freshness: booked <= delegated
       after such a transaction, with equality iff delegated <= booked held before it; a pending loss is
       always recognised in full (C06w_pricing_tx_eq_iff).  delegated > booked arises ONLY by
       re-instantiating the hub over live delegations (C06w_reinst_surplus_witness) — not through rounding
       of per-validator slashing, RedelegateProxy, rewards or registry changes.
    C. "A check can never raise a pool", history level, whole operation alphabet, no hypothesis: one
       operation raises the booked total hs_bb + hs_bst by at most the coins attached to the Bond /
       BondForStSei / BondRewards messages it executed (C06w_msg_raise, C06w_step_raise); without such a
       message it never raises it (C06w_step_no_bond); over a history booked <= total bond payments
       (C06w_history_raise).  Per pool: A. above for the check itself.
    D. WITNESS (C06w_st_rise_reachable): the one-unit rise of the stSei pool (Props/C06.v,
       C06_sync_st_pool_rise_exists) happens in a REACHABLE world: pools 10 000 000 000 006 / 1, one base
       unit slashed, CheckSlashing books 10 000 000 000 004 / 2 — the stSei rate doubles.

    VOCABULARY (restated by the C06w_def_* theorems)
      [delegated e x], [booked h], [EntWf w]   Inv.v / BooksP.v; EntWf holds in every reachable world
                                               (C02_EntWf_reachable) and is the only hypothesis of part A
      [is_pricing hm]       hm is Bond, BondForStSei, BondRewards, CheckSlashing, Receive{Unbond|Convert}
      [is_pricing_msg (s,m)] m is a wasm message to the hub carrying such an hm
      [SyncHist_priced w o] the trace of operation o executed in w contains a pricing message (false for
                            failed transactions and for operations that are not transactions)
      [SyncHist_synced A bb bst s1]  what the check does to the pools (see C06w_def_synced; integer form
                            x*T <= A*b < (x+2)*T  means  A*b/T - 2 < x <= A*b/T over the reals)
      [SyncHist_removed w o] delegated before o minus delegated after o (non-zero only for OSlash)
      [SyncHist_gfold ops w g] / [SyncHist_gstep]  the signed ghost (Z)
      [SyncHist_ufold ops w u] / [SyncHist_ustep]  the ghost [unrecognised] (N)
      [SyncHist_usei_op o]  if o is OInstHub, its underlying coin is usei (E4)
      [SyncHist_fresh ops w] every OInstHub of the history uses usei and executes while the hub address
                            has nothing delegated
      [SyncHist_pay (s,m)]  the coins attached to m if m is a Bond / BondForStSei / BondRewards message to
                            the hub (a successful one carries exactly the payment), else 0
      [SyncHist_pfold ops w p]  p plus the sum of SyncHist_pay over everything the history executed
      [SyncHist_view w]     Some (hs_bb, hs_bst, delegated) of the world, None without hub
    Not needed: E1 magnitudes (except the LIM bound inside SyncHist_synced), wiring of the other contracts,
    "no transaction signed by the hub address". *)
From Krp Require Import Tactics Prelude Fixed FMap Types Env Registry Cw20 Reward Dispatcher Hub Exec
     ExecP Hist Inv BooksEnv BooksHub BooksP SlashP ExitWorld SyncHist SyncHistEx.
From Coq Require Import ZArith.
Open Scope N_scope.

(** * 0. vocabulary *)
Theorem C06w_def_quantities :
  (forall e x, delegated e x = sumN (map snd (all_delegations e x))) /\
  (forall h, booked h = hs_bb (h_state h) + hs_bst (h_state h)) /\
  (forall w, EntWf w <-> DelWf (w_env w) /\
     forall h, w_hub w = Some h -> booked h = 0 \/ all_delegations (w_env w) A_hub <> []).
Proof. exact SyncHist_def_quantities. Qed.

Theorem C06w_def_pricing :
  (forall hm, is_pricing hm =
     match hm with
     | HBond | HBondSt | HBondRewards | HCheckSlashing => true
     | HReceive _ _ HkUnbond | HReceive _ _ HkConvert => true
     | _ => false
     end) /\
  (forall s m, is_pricing_msg (s, m) =
     match m with MWasm to (WHub hm) _ => (to =? A_hub) && is_pricing hm | _ => false end) /\
  (forall w o, SyncHist_priced w o = existsb is_pricing_msg (snd (snd (step w o)))).
Proof. exact SyncHist_def_pricing. Qed.

Theorem C06w_def_synced : forall A bb bst s1, SyncHist_synced A bb bst s1 <->
  (A < bb + bst ->
     hs_bb s1 + hs_bst s1 = A /\
     hs_bb s1 = A * (bb * D / (bb + bst)) / D /\ hs_bst s1 = A - hs_bb s1 /\
     hs_bb s1 <= bb /\
     (A <= LIM ->
        (hs_bb s1 * (bb + bst) <= A * bb /\ A * bb < (hs_bb s1 + 2) * (bb + bst)) /\
        (A * bst <= hs_bst s1 * (bb + bst) /\ hs_bst s1 * (bb + bst) < A * bst + 2 * (bb + bst)) /\
        hs_bst s1 <= bst + 1)) /\
  (bb + bst <= A -> hs_bb s1 = bb /\ hs_bst s1 = bst).
Proof. exact SyncHist_def_synced. Qed.

Theorem C06w_def_ghosts :
  (forall w o, SyncHist_removed w o =
     delegated (w_env w) A_hub - delegated (w_env (fst (step w o))) A_hub) /\
  (forall w o g, SyncHist_gstep w o g =
     match o with
     | OReset _ => 0%Z
     | OInstHub _ _ _ _ _ _ _ _ => (- Z.of_N (delegated (w_env w) A_hub))%Z
     | OSlash _ _ _ _ => (g + Z.of_N (SyncHist_removed w o))%Z
     | OTx _ _ _ _ => if SyncHist_priced w o then Z.min g 0 else g
     | _ => g
     end) /\
  (forall w o u, SyncHist_ustep w o u =
     match o with
     | OReset _ => 0
     | OInstHub _ _ _ _ _ _ _ _ => 0
     | OSlash _ _ _ _ => u + SyncHist_removed w o
     | OTx _ _ _ _ => if SyncHist_priced w o then 0 else u
     | _ => u
     end) /\
  (forall ops w g, SyncHist_gfold ops w g =
     match ops with [] => g | o :: r => SyncHist_gfold r (fst (step w o)) (SyncHist_gstep w o g) end) /\
  (forall ops w u, SyncHist_ufold ops w u =
     match ops with [] => u | o :: r => SyncHist_ufold r (fst (step w o)) (SyncHist_ustep w o u) end).
Proof. exact SyncHist_def_ghosts. Qed.

Theorem C06w_def_envelope :
  (forall o, SyncHist_usei_op o <->
     match o with OInstHub _ _ _ _ _ _ und _ => und = usei | _ => True end) /\
  (forall w o, SyncHist_fresh_op w o <->
     match o with
     | OInstHub _ _ _ _ _ _ und _ => und = usei /\ delegated (w_env w) A_hub = 0
     | _ => True
     end) /\
  (forall ops w, SyncHist_fresh ops w <->
     match ops with [] => True | o :: r => SyncHist_fresh_op w o /\ SyncHist_fresh r (fst (step w o)) end).
Proof. exact SyncHist_def_envelope. Qed.

Theorem C06w_def_pay :
  (forall hm, SyncHist_is_bond hm = match hm with HBond | HBondSt | HBondRewards => true | _ => false end) /\
  (forall s m, SyncHist_pay (s, m) =
     match m with
     | MWasm to (WHub hm) funds => if (to =? A_hub) && SyncHist_is_bond hm then sumN (map snd funds) else 0
     | _ => 0
     end) /\
  (forall ops w p, SyncHist_pfold ops w p =
     match ops with
     | [] => p
     | o :: r => SyncHist_pfold r (fst (step w o)) (p + sumN (map SyncHist_pay (snd (snd (step w o)))))
     end).
Proof. exact SyncHist_def_pay. Qed.

Theorem C06w_def_view : forall w, SyncHist_view w =
  option_map (fun h => (hs_bb (h_state h), hs_bst (h_state h), delegated (w_env w) A_hub)) (w_hub w).
Proof. exact SyncHist_def_view. Qed.

(** * A. the first slashing check of a transaction *)

(** a successful transaction that executes no pricing hub message changes neither pool, nor the hub's
    coin, nor the delegated total *)
Theorem C06w_tx_no_pricing_frame : forall w sender target m funds w' tr h,
  EntWf w -> w_hub w = Some h ->
  run tx_fuel w [(sender, MWasm target m funds)] [] = Some (w', tr) ->
  existsb is_pricing_msg tr = false ->
  delegated (w_env w') A_hub = delegated (w_env w) A_hub /\
  forall h', w_hub w' = Some h' ->
    hs_bb (h_state h') = hs_bb (h_state h) /\ hs_bst (h_state h') = hs_bst (h_state h) /\
    hp_underlying (h_params h') = hp_underlying (h_params h).
Proof. exact SyncHist_tx_no_pricing_frame. Qed.

(** the trace splits at the first pricing message (s, hub <- hm with funds f); it executes in a world w2
    whose hub h2 still has the pools and the coin of the root world's hub h, after its funds have been
    moved (e1) the hub's delegated total is still the root world's; [slashing] produces h1 and the
    handler's result r is the one it computes from h1 *)
Theorem C06w_first_check : forall w sender target m funds w' tr h,
  EntWf w -> w_hub w = Some h ->
  run tx_fuel w [(sender, MWasm target m funds)] [] = Some (w', tr) ->
  existsb is_pricing_msg tr = true ->
  exists pre s hm f post w2 h2 e1 h1 r,
    tr = pre ++ (s, MWasm A_hub (WHub hm) f) :: post /\
    existsb is_pricing_msg pre = false /\ is_pricing hm = true /\
    EntWf w2 /\ w_hub w2 = Some h2 /\
    hs_bb (h_state h2) = hs_bb (h_state h) /\ hs_bst (h_state h2) = hs_bst (h_state h) /\
    hp_underlying (h_params h2) = hp_underlying (h_params h) /\
    send_coins (w_env w2) s A_hub f = Some e1 /\
    delegated e1 A_hub = delegated (w_env w) A_hub /\
    slashing (set_env w2 e1) A_hub h2 = Some h1 /\
    hub_execute (set_env w2 e1) h2 A_hub s f hm = Some r /\
    hub_execute (set_env w2 e1) h1 A_hub s f hm = Some r.
Proof. exact SyncHist_first_check. Qed.

(** what the check does, for the hub's coin = usei (E4) *)
Theorem C06w_synced_of_slashing : forall w self h h1,
  slashing w self h = Some h1 -> hp_underlying (h_params h) = usei ->
  (booked h = 0 \/ all_delegations (w_env w) self <> []) ->
  SyncHist_synced (delegated (w_env w) self) (hs_bb (h_state h)) (hs_bst (h_state h)) (h_state h1).
Proof. exact SyncHist_synced_of_slashing. Qed.

(** C06, any transaction: the synchronised hub h1 the first pricing handler continues from, in terms of
    the pools (h) and the delegated total of the world the transaction started in *)
Theorem C06w_first_check_pools : forall w sender target m funds w' tr h,
  EntWf w -> w_hub w = Some h -> hp_underlying (h_params h) = usei ->
  run tx_fuel w [(sender, MWasm target m funds)] [] = Some (w', tr) ->
  existsb is_pricing_msg tr = true ->
  exists pre s hm f post w2 h2 e1 h1 r,
    tr = pre ++ (s, MWasm A_hub (WHub hm) f) :: post /\
    existsb is_pricing_msg pre = false /\ is_pricing hm = true /\
    w_hub w2 = Some h2 /\ send_coins (w_env w2) s A_hub f = Some e1 /\
    slashing (set_env w2 e1) A_hub h2 = Some h1 /\
    hub_execute (set_env w2 e1) h2 A_hub s f hm = Some r /\
    hub_execute (set_env w2 e1) h1 A_hub s f hm = Some r /\
    SyncHist_synced (delegated (w_env w) A_hub) (hs_bb (h_state h)) (hs_bst (h_state h)) (h_state h1).
Proof. exact SyncHist_first_check_pools. Qed.

(** the same for one operation of a history *)
Theorem C06w_first_check_op : forall w o h,
  EntWf w -> w_hub w = Some h -> hp_underlying (h_params h) = usei -> SyncHist_priced w o = true ->
  exists pre s hm f post w2 h2 e1 h1 r,
    snd (step w o) = (true, pre ++ (s, MWasm A_hub (WHub hm) f) :: post) /\
    existsb is_pricing_msg pre = false /\ is_pricing hm = true /\
    w_hub w2 = Some h2 /\ send_coins (w_env w2) s A_hub f = Some e1 /\
    slashing (set_env w2 e1) A_hub h2 = Some h1 /\
    hub_execute (set_env w2 e1) h2 A_hub s f hm = Some r /\
    hub_execute (set_env w2 e1) h1 A_hub s f hm = Some r /\
    SyncHist_synced (delegated (w_env w) A_hub) (hs_bb (h_state h)) (hs_bst (h_state h)) (h_state h1).
Proof. exact SyncHist_first_check_op. Qed.

(** Bond / BondForStSei / BondRewards / CheckSlashing sent directly to the hub: the check runs in the
    root world itself *)
Theorem C06w_root_check : forall w sender hm funds w' tr h,
  EntWf w -> w_hub w = Some h -> hp_underlying (h_params h) = usei -> is_pricing hm = true ->
  run tx_fuel w [(sender, MWasm A_hub (WHub hm) funds)] [] = Some (w', tr) ->
  exists e1 h1 r,
    send_coins (w_env w) sender A_hub funds = Some e1 /\
    slashing (set_env w e1) A_hub h = Some h1 /\
    hub_execute (set_env w e1) h A_hub sender funds hm = Some r /\
    hub_execute (set_env w e1) h1 A_hub sender funds hm = Some r /\
    SyncHist_synced (delegated (w_env w) A_hub) (hs_bb (h_state h)) (hs_bst (h_state h)) (h_state h1).
Proof. exact SyncHist_root_check. Qed.

(** the explicit CheckSlashing transaction: the FINAL world carries the synchronised pools; booked =
    delegated afterwards when a loss was pending, nothing changes when none was *)
Theorem C06w_check_slashing_tx_pools : forall w sender w' tr h,
  EntWf w -> w_hub w = Some h -> hp_underlying (h_params h) = usei ->
  step w (OTx sender A_hub (WHub HCheckSlashing) []) = (w', (true, tr)) ->
  exists h', w_hub w' = Some h' /\ w_env w' = w_env w /\ slashing w A_hub h = Some h' /\
    SyncHist_synced (delegated (w_env w) A_hub) (hs_bb (h_state h)) (hs_bst (h_state h)) (h_state h') /\
    (delegated (w_env w) A_hub < booked h -> booked h' = delegated (w_env w') A_hub) /\
    (booked h <= delegated (w_env w) A_hub -> booked h' = booked h).
Proof. exact SyncHist_check_slashing_tx_pools. Qed.

(** * B. the equality invariant *)

(** one successful transaction (hub's coin = usei): the signed gap booked - delegated becomes
    min(gap, 0) if a pricing message executed and is unchanged otherwise *)
Theorem C06w_tx_gap : forall w sender target m funds w' tr h h',
  EntWf w -> w_hub w = Some h -> hp_underlying (h_params h) = usei ->
  run tx_fuel w [(sender, MWasm target m funds)] [] = Some (w', tr) -> w_hub w' = Some h' ->
  hp_underlying (h_params h') = usei /\
  (Z.of_N (booked h') - Z.of_N (delegated (w_env w') A_hub))%Z =
    if existsb is_pricing_msg tr
    then Z.min (Z.of_N (booked h) - Z.of_N (delegated (w_env w) A_hub)) 0
    else (Z.of_N (booked h) - Z.of_N (delegated (w_env w) A_hub))%Z.
Proof. exact SyncHist_tx_gap. Qed.

(** every history from the empty world: the gap is the ghost *)
Theorem C06w_gap_exact : forall ut ops,
  Forall SyncHist_usei_op ops ->
  let w := run_ops ops (empty_world ut) in
  forall h, w_hub w = Some h ->
    hp_underlying (h_params h) = usei /\
    (Z.of_N (booked h) - Z.of_N (delegated (w_env w) A_hub))%Z = SyncHist_gfold ops (empty_world ut) 0.
Proof. exact SyncHist_gap_exact. Qed.

(** fresh histories: booked = delegated + unrecognised, in the final world and (prefixes) in every
    visited world; in particular delegated <= booked always *)
Theorem C06w_unrecognised_exact : forall ut ops,
  SyncHist_fresh ops (empty_world ut) ->
  let w := run_ops ops (empty_world ut) in
  forall h, w_hub w = Some h ->
    hp_underlying (h_params h) = usei /\
    booked h = delegated (w_env w) A_hub + SyncHist_ufold ops (empty_world ut) 0.
Proof. exact SyncHist_unrecognised_exact. Qed.

Theorem C06w_unrecognised_exact_prefix : forall ut a b,
  SyncHist_fresh (a ++ b) (empty_world ut) ->
  let w := run_ops a (empty_world ut) in
  forall h, w_hub w = Some h ->
    hp_underlying (h_params h) = usei /\
    booked h = delegated (w_env w) A_hub + SyncHist_ufold a (empty_world ut) 0.
Proof. exact SyncHist_unrecognised_exact_prefix. Qed.

(** MAIN COROLLARY: after every successful transaction that executed the slashing check (Bond,
    BondForStSei, BondRewards, Receive{Unbond|Convert}, CheckSlashing - anywhere in its message tree)
    booked = delegated exactly *)
Theorem C06w_pricing_tx_exact : forall ut ops sender target m funds w' tr h',
  SyncHist_fresh ops (empty_world ut) ->
  run tx_fuel (run_ops ops (empty_world ut)) [(sender, MWasm target m funds)] [] = Some (w', tr) ->
  existsb is_pricing_msg tr = true -> w_hub w' = Some h' ->
  booked h' = delegated (w_env w') A_hub.
Proof. exact SyncHist_pricing_tx_exact. Qed.

Theorem C06w_pricing_op_exact : forall ut ops o h',
  SyncHist_fresh ops (empty_world ut) ->
  let w := run_ops ops (empty_world ut) in
  SyncHist_priced w o = true -> w_hub (fst (step w o)) = Some h' ->
  booked h' = delegated (w_env (fst (step w o))) A_hub.
Proof. exact SyncHist_pricing_op_exact. Qed.

(** without freshness (C02, first sentence, exact form): booked <= delegated afterwards, equality iff
    delegated <= booked before; a pending loss is recognised in full *)
Theorem C06w_pricing_tx_eq_iff : forall ut ops sender target m funds w' tr h',
  Forall SyncHist_usei_op ops ->
  let w := run_ops ops (empty_world ut) in
  run tx_fuel w [(sender, MWasm target m funds)] [] = Some (w', tr) ->
  existsb is_pricing_msg tr = true -> w_hub w' = Some h' ->
  exists h, w_hub w = Some h /\
    booked h' <= delegated (w_env w') A_hub /\
    (booked h' = delegated (w_env w') A_hub <-> delegated (w_env w) A_hub <= booked h) /\
    (delegated (w_env w) A_hub < booked h -> booked h' = delegated (w_env w') A_hub).
Proof. exact SyncHist_pricing_tx_eq_iff. Qed.

(** CheckSlashing after a fresh history writes off exactly [unrecognised] *)
Theorem C06w_check_writes_off_unrecognised : forall ut ops sender w' tr h,
  SyncHist_fresh ops (empty_world ut) ->
  let w := run_ops ops (empty_world ut) in
  w_hub w = Some h ->
  step w (OTx sender A_hub (WHub HCheckSlashing) []) = (w', (true, tr)) ->
  exists h', w_hub w' = Some h' /\ w_env w' = w_env w /\
    booked h' + SyncHist_ufold ops (empty_world ut) 0 = booked h /\
    booked h' = delegated (w_env w') A_hub /\
    SyncHist_synced (delegated (w_env w) A_hub) (hs_bb (h_state h)) (hs_bst (h_state h)) (h_state h').
Proof. exact SyncHist_check_writes_off_unrecognised. Qed.

(** the history shape "books in sync, ONE slashing event, CheckSlashing" *)
Theorem C06w_slash_then_check : forall ut ops v num den unb sender w' tr h,
  SyncHist_fresh ops (empty_world ut) ->
  SyncHist_ufold ops (empty_world ut) 0 = 0 ->
  let w0 := run_ops ops (empty_world ut) in
  let w := fst (step w0 (OSlash v num den unb)) in
  w_hub w = Some h ->
  step w (OTx sender A_hub (WHub HCheckSlashing) []) = (w', (true, tr)) ->
  exists h', w_hub w' = Some h' /\ w_env w' = w_env w /\
    w_hub w0 = Some h /\ booked h = delegated (w_env w0) A_hub /\
    booked h' + (delegated (w_env w0) A_hub - delegated (w_env w) A_hub) = booked h /\
    booked h' = delegated (w_env w) A_hub /\
    SyncHist_synced (delegated (w_env w) A_hub) (hs_bb (h_state h)) (hs_bst (h_state h)) (h_state h').
Proof. exact SyncHist_slash_then_check. Qed.

(** WITNESS: delegated > booked after re-instantiating the hub over the 3 000 000 usei delegated by
    [genesis_ops]; the ghost is -3 000 000; CheckSlashing and a Bond leave the surplus *)
Theorem C06w_reinst_surplus_witness :
  Forall SyncHist_usei_op SyncHist_reinst_ops /\
  ~ SyncHist_fresh SyncHist_reinst_ops (empty_world 100) /\
  SyncHist_gfold SyncHist_reinst_ops (empty_world 100) 0 = (-3000000)%Z /\
  SyncHist_view (run_ops SyncHist_reinst_ops (empty_world 100)) = Some (0, 0, 3000000) /\
  (let o := OTx bob A_hub (WHub HCheckSlashing) [] in
   SyncHist_priced (run_ops SyncHist_reinst_ops (empty_world 100)) o = true /\
   SyncHist_view (fst (step (run_ops SyncHist_reinst_ops (empty_world 100)) o)) = Some (0, 0, 3000000)) /\
  (let o := OTx alice A_hub (WHub HBond) [(usei, 1000)] in
   SyncHist_priced (run_ops SyncHist_reinst_ops (empty_world 100)) o = true /\
   SyncHist_view (fst (step (run_ops SyncHist_reinst_ops (empty_world 100)) o)) = Some (1000, 0, 3001000)).
Proof. exact SyncHist_reinst_surplus_witness. Qed.

(** * C. the booked total rises only by bond payments *)
Theorem C06w_msg_raise : forall w s m w' out h h',
  step_msg w s m = Some (w', out) -> w_hub w = Some h -> w_hub w' = Some h' ->
  booked h' <= booked h + SyncHist_pay (s, m).
Proof. exact SyncHist_msg_raise. Qed.

(** ONE operation, ANY operation of the alphabet (environment events, instantiations, transactions with
    any signer / target / message / funds, failing or not) *)
Theorem C06w_step_raise : forall w o h h',
  w_hub w = Some h -> w_hub (fst (step w o)) = Some h' ->
  booked h' <= booked h + sumN (map SyncHist_pay (snd (snd (step w o)))).
Proof. exact SyncHist_step_raise. Qed.

Theorem C06w_step_no_bond : forall w o h h',
  w_hub w = Some h -> w_hub (fst (step w o)) = Some h' ->
  Forall (fun sm => SyncHist_pay sm = 0) (snd (snd (step w o))) ->
  booked h' <= booked h.
Proof. exact SyncHist_step_no_bond. Qed.

Theorem C06w_history_raise : forall ut ops h,
  w_hub (run_ops ops (empty_world ut)) = Some h ->
  booked h <= SyncHist_pfold ops (empty_world ut) 0.
Proof. exact SyncHist_history_raise. Qed.

(** * D. WITNESS: the stSei pool does rise by one unit in a check, in a reachable world *)
Theorem C06w_st_rise_reachable :
  SyncHist_fresh SyncHist_rise_ops (empty_world 100) /\
  SyncHist_ufold SyncHist_rise_ops (empty_world 100) 0 = 1 /\
  SyncHist_view (run_ops SyncHist_rise_ops (empty_world 100)) = Some (10000000000006, 1, 10000000000006) /\
  let w' := fst (step (run_ops SyncHist_rise_ops (empty_world 100)) (OTx bob A_hub (WHub HCheckSlashing) [])) in
  SyncHist_view w' = Some (10000000000004, 2, 10000000000006) /\
  option_map (fun h => hs_ser (h_state h)) (w_hub (run_ops SyncHist_rise_ops (empty_world 100))) = Some D /\
  option_map (fun h => hs_ser (h_state h)) (w_hub w') = Some (2 * D).
Proof. exact SyncHist_st_rise_reachable. Qed.

(** * E. non-vacuity: [genesis_ops], a 10 % slash of validator 0, then each kind of pricing transaction *)
Theorem C06w_ex_fresh :
  SyncHist_fresh SyncHist_ex_ops (empty_world 100) /\
  SyncHist_ufold SyncHist_ex_ops (empty_world 100) 0 = 100000 /\
  SyncHist_gfold SyncHist_ex_ops (empty_world 100) 0 = 100000%Z /\
  SyncHist_view (run_ops SyncHist_ex_ops (empty_world 100)) = Some (1000000, 2000000, 2900000).
Proof. exact SyncHist_ex_fresh. Qed.

(** through C06w_first_check_op: the first check of each of the seven transactions (CheckSlashing, Bond,
    BondForStSei, Unbond bSei, Unbond stSei, Convert bSei->stSei, Convert stSei->bSei) hands its handler
    the pools 966 666 / 1 933 334, summing to the 2 900 000 that survived *)
Theorem C06w_ex_first_check :
  Forall (fun o =>
    exists pre s hm f post w2 h2 e1 h1 r,
      snd (step (run_ops SyncHist_ex_ops (empty_world 100)) o)
        = (true, pre ++ (s, MWasm A_hub (WHub hm) f) :: post) /\
      existsb is_pricing_msg pre = false /\ is_pricing hm = true /\
      slashing (set_env w2 e1) A_hub h2 = Some h1 /\
      hub_execute (set_env w2 e1) h1 A_hub s f hm = Some r /\
      hs_bb (h_state h1) = 966666 /\ hs_bst (h_state h1) = 1933334 /\
      hs_bb (h_state h1) + hs_bst (h_state h1)
        = delegated (w_env (run_ops SyncHist_ex_ops (empty_world 100))) A_hub)
    SyncHist_ex_txs.
Proof. exact SyncHist_ex_first_check. Qed.

(** through C06w_pricing_op_exact: each ends with booked = delegated; the final views, evaluated *)
Theorem C06w_ex_recognised :
  Forall (fun o => forall h', w_hub (fst (step (run_ops SyncHist_ex_ops (empty_world 100)) o)) = Some h' ->
                   booked h' = delegated (w_env (fst (step (run_ops SyncHist_ex_ops (empty_world 100)) o))) A_hub)
         SyncHist_ex_txs /\
  map (fun o => SyncHist_view (fst (step (run_ops SyncHist_ex_ops (empty_world 100)) o))) SyncHist_ex_txs =
    [ Some (966666, 1933334, 2900000);
      Some (967666, 1933334, 2901000);
      Some (966666, 1934334, 2901000);
      Some (966666, 1933334, 2900000);
      Some (966666, 1933334, 2900000);
      Some (965705, 1934295, 2900000);
      Some (967632, 1932368, 2900000) ].
Proof. exact SyncHist_ex_recognised. Qed.

Theorem C06w_ex_check_slashing :
  exists h w' tr h',
    w_hub (run_ops SyncHist_ex_ops (empty_world 100)) = Some h /\
    step (run_ops SyncHist_ex_ops (empty_world 100)) (OTx bob A_hub (WHub HCheckSlashing) []) = (w', (true, tr)) /\
    w_hub w' = Some h' /\ booked h = 3000000 /\ booked h' = 2900000 /\
    booked h' + SyncHist_ufold SyncHist_ex_ops (empty_world 100) 0 = booked h /\
    booked h' = delegated (w_env w') A_hub /\ hs_bb (h_state h') = 966666 /\ hs_bst (h_state h') = 1933334.
Proof. exact SyncHist_ex_check_slashing. Qed.

(** BondRewards inside UpdateGlobalIndex (rewards accrued on the slashed world) *)
Theorem C06w_ex_bond_rewards :
  SyncHist_fresh SyncHist_ex_ops2 (empty_world 100) /\
  SyncHist_ufold SyncHist_ex_ops2 (empty_world 100) 0 = 100000 /\
  SyncHist_view (run_ops SyncHist_ex_ops2 (empty_world 100)) = Some (1000000, 2000000, 2900000) /\
  In (A_disp, MWasm A_hub (WHub HBondRewards) [(usei, 66500)])
     (snd (snd (step (run_ops SyncHist_ex_ops2 (empty_world 100)) SyncHist_ex_tx2))) /\
  SyncHist_priced (run_ops SyncHist_ex_ops2 (empty_world 100)) SyncHist_ex_tx2 = true /\
  (forall h', w_hub (fst (step (run_ops SyncHist_ex_ops2 (empty_world 100)) SyncHist_ex_tx2)) = Some h' ->
              booked h' = delegated (w_env (fst (step (run_ops SyncHist_ex_ops2 (empty_world 100)) SyncHist_ex_tx2))) A_hub) /\
  SyncHist_view (fst (step (run_ops SyncHist_ex_ops2 (empty_world 100)) SyncHist_ex_tx2))
    = Some (966666, 1999834, 2966500) /\
  sumN (map SyncHist_pay (snd (snd (step (run_ops SyncHist_ex_ops2 (empty_world 100)) SyncHist_ex_tx2)))) = 66500.
Proof. exact SyncHist_ex_bond_rewards. Qed.

Theorem C06w_ex_slash_then_check_nonvacuous :
  SyncHist_fresh genesis_ops (empty_world 100) /\
  SyncHist_ufold genesis_ops (empty_world 100) 0 = 0 /\
  let w := fst (step (run_ops genesis_ops (empty_world 100)) (OSlash 0 1 10 false)) in
  SyncHist_view w = Some (1000000, 2000000, 2900000) /\
  fst (snd (step w (OTx bob A_hub (WHub HCheckSlashing) []))) = true.
Proof. exact SyncHist_ex_slash_then_check_nonvacuous. Qed.

(** C06w_step_raise is tight: a Bond of 1000 on the un-slashed world raises the booked total by exactly
    1000; CheckSlashing, Unbond and Convert carry no payment *)
Theorem C06w_ex_raise :
  let w := run_ops genesis_ops (empty_world 100) in
  let o := OTx alice A_hub (WHub HBond) [(usei, 1000)] in
  SyncHist_view w = Some (1000000, 2000000, 3000000) /\
  SyncHist_view (fst (step w o)) = Some (1001000, 2000000, 3001000) /\
  sumN (map SyncHist_pay (snd (snd (step w o)))) = 1000 /\
  Forall (fun o' => sumN (map SyncHist_pay (snd (snd (step w o')))) = 0 /\ fst (snd (step w o')) = true)
    [ OTx bob A_hub (WHub HCheckSlashing) [];
      OTx alice A_bsei (WCw20 (CSend A_hub 1000 HkUnbond)) [];
      OTx bob A_stsei (WCw20 (CSend A_hub 1000 HkConvert)) [] ].
Proof. exact SyncHist_ex_raise. Qed.

(** C06w_tx_no_pricing_frame is not vacuous: a bSei transfer and a validator removal (RedelegateProxy
    moves the hub's stake off validator 2) succeed on the slashed world, execute no pricing message and
    leave pools, delegated total and the unrecognised 100 000 as they were *)
Theorem C06w_ex_no_pricing :
  Forall (fun o =>
    fst (snd (step (run_ops SyncHist_ex_ops (empty_world 100)) o)) = true /\
    SyncHist_priced (run_ops SyncHist_ex_ops (empty_world 100)) o = false /\
    SyncHist_view (fst (step (run_ops SyncHist_ex_ops (empty_world 100)) o)) = Some (1000000, 2000000, 2900000) /\
    SyncHist_ufold (SyncHist_ex_ops ++ [o]) (empty_world 100) 0 = 100000)
    [ OTx alice A_bsei (WCw20 (CTransfer bob 10)) [];
      OTx A_owner A_reg (WReg (GRemove 2)) [] ] /\
  all_delegations (w_env (fst (step (run_ops SyncHist_ex_ops (empty_world 100))
                                    (OTx A_owner A_reg (WReg (GRemove 2)) [])))) A_hub
    = [(0, 1450000); (1, 1450000)].
Proof. exact SyncHist_ex_no_pricing. Qed.

Print Assumptions C06w_def_quantities.
Print Assumptions C06w_def_pricing.
Print Assumptions C06w_def_synced.
Print Assumptions C06w_def_ghosts.
Print Assumptions C06w_def_envelope.
Print Assumptions C06w_def_pay.
Print Assumptions C06w_def_view.
Print Assumptions C06w_tx_no_pricing_frame.
Print Assumptions C06w_first_check.
Print Assumptions C06w_synced_of_slashing.
Print Assumptions C06w_first_check_pools.
Print Assumptions C06w_first_check_op.
Print Assumptions C06w_root_check.
Print Assumptions C06w_check_slashing_tx_pools.
Print Assumptions C06w_tx_gap.
Print Assumptions C06w_gap_exact.
Print Assumptions C06w_unrecognised_exact.
Print Assumptions C06w_unrecognised_exact_prefix.
Print Assumptions C06w_pricing_tx_exact.
Print Assumptions C06w_pricing_op_exact.
Print Assumptions C06w_pricing_tx_eq_iff.
Print Assumptions C06w_check_writes_off_unrecognised.
Print Assumptions C06w_slash_then_check.
Print Assumptions C06w_reinst_surplus_witness.
Print Assumptions C06w_msg_raise.
Print Assumptions C06w_step_raise.
Print Assumptions C06w_step_no_bond.
Print Assumptions C06w_history_raise.
Print Assumptions C06w_st_rise_reachable.
Print Assumptions C06w_ex_fresh.
Print Assumptions C06w_ex_first_check.
Print Assumptions C06w_ex_recognised.
Print Assumptions C06w_ex_check_slashing.
Print Assumptions C06w_ex_bond_rewards.
Print Assumptions C06w_ex_slash_then_check_nonvacuous.
Print Assumptions C06w_ex_raise.
Print Assumptions C06w_ex_no_pricing.
