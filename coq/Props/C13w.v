(** C13 at world level, composed with C19 — the COMPLETE RemoveValidator transaction, including the
    UpdateGlobalIndex the registry appends to it.  Property theorems only; proofs in Proofs/RemoveTx.v
    (which builds on Proofs/RemoveP.v, RemoveEnd.v for C13 and Proofs/IndexP.v, IndexPhases.v,
    IndexRun.v for C19).

    Props/C13.v analyses a SUCCESSFUL removal; Props/C19.v proves success and effect of an
    UpdateGlobalIndex sent as a root transaction.  Here the removal is PROVED to succeed (outside the
    class of finding F2) and its final world is described.

    The transaction tree:
      registry.RemoveValidator v (sender = registry owner)
        -> hub.RedelegateProxy v redels    -> MRedelegate v -> dst, for every entry of redels
                                              (the chain pays the pending rewards of source and
                                               destination to the withdraw address = dispatcher)
        -> hub.UpdateGlobalIndex           -> the tree of C19 (withdrawals, swap leg, dispatch leg)

    Vocabulary (definitions of Proofs/RemoveTx.v, each restated below as a [C13w_def_*] theorem):
      [remove_msg v]        MWasm A_reg (WReg (GRemove v)) []
      [remove_mid w o v]    the world just before the appended UpdateGlobalIndex executes (registry
                            update, proxy and all redelegations done), computed with [run]
      [disp_due e d]        dispatcher's balance of coin [d] + the hub's pending rewards of that coin at
                            every validator: what an index update would collect
      [RemoveE1 w]          E1 magnitude: [disp_due] <= 10^18 (the bound of [IndexE1] counted over all
                            validators, because the redelegations create new delegation entries)
      [PendClean e]         no reward pending for the hub at a validator without delegation entry
      [same_cfg e e']       clock, unbonding time and queue, withdraw addresses, redelegation bans, stub
                            price and modes of [e'] are those of [e]
      [due_frame e e']      [same_cfg], [disp_due] preserved, every balance but the dispatcher's
                            preserved, no balance decreased
      [not_hub_redel sm]    the executed message [sm] is not a redelegation sent by the hub
    and of the files above: [redel_all], [redel_stack], [redel_total], [redels_of], [removal_msgs], [dv],
    [DelWf] (C13.v); [pre_dispatch], [root_msg], [Exec], [IndexWiring], [StubsOk], [IndexE1],
    [RewardSolvent], [HubReady], [RegOk], [index_updated], [del_vals], [pend_total], [Known_F2] (C19.v). *)
From Krp Require Import Tactics Prelude Fixed FMap Types Env Registry Cw20 Reward Dispatcher Hub Exec
     ExecP Hist Inv RegistryP DispatcherP HubFrame HubAdmin BooksEnv BooksHub BooksP RemoveP RemoveEnd
     IndexRun IndexEnv IndexHandlers IndexSwap IndexPhases IndexP RemoveTx.
Open Scope N_scope.

(** * 0. vocabulary *)
Theorem C13w_def_remove_msg : forall v, remove_msg v = MWasm A_reg (WReg (GRemove v)) [].
Proof. exact def_remove_msg. Qed.

Theorem C13w_def_remove_mid : forall w owner v, remove_mid w owner v =
  (do r <- step_msg w owner (remove_msg v);
   do r2 <- run tx_fuel (fst r) (removelast (snd r)) [];
   Some (fst r2)).
Proof. exact def_remove_mid. Qed.

Theorem C13w_def_disp_due : forall e d, disp_due e d = bal e A_disp d + pend_total e A_hub VALS d.
Proof. exact def_disp_due. Qed.

Theorem C13w_def_RemoveE1 : forall w, RemoveE1 w <-> (forall d, disp_due (w_env w) d <= LIM).
Proof. exact def_RemoveE1. Qed.

Theorem C13w_def_PendClean : forall e, PendClean e <->
  (forall v d, delegation e A_hub v = None -> pending e A_hub v d = 0).
Proof. exact def_PendClean. Qed.

Theorem C13w_def_same_cfg : forall e e', same_cfg e e' <->
  e_now e' = e_now e /\ e_ut e' = e_ut e /\ e_unb e' = e_unb e /\ e_wdaddr e' = e_wdaddr e /\
  e_noredel e' = e_noredel e /\ e_price e' = e_price e /\ e_swapmode e' = e_swapmode e /\
  e_oraclemode e' = e_oraclemode e.
Proof. exact def_same_cfg. Qed.

Theorem C13w_def_due_frame : forall e e', due_frame e e' <->
  same_cfg e e' /\ (forall d, disp_due e' d = disp_due e d) /\
  (forall a d, a <> A_disp -> bal e' a d = bal e a d) /\
  (forall a d, bal e a d <= bal e' a d).
Proof. exact def_due_frame. Qed.

Theorem C13w_def_not_hub_redel : forall sm, not_hub_redel sm <->
  (fst sm = A_hub -> forall s d c, snd sm <> MRedelegate s d c).
Proof. exact def_not_hub_redel. Qed.

(** * 1. the two handlers succeed *)

(** the registry: sent by the owner, something is left ([RegOk] of the remaining list), the chain allows
    the redelegation, E1 on the stake: the removal is accepted and emits RedelegateProxy with the plan
    [redels_of vals dl] (amounts [dl] summing to the whole stake on [v], over the remaining validators
    in ascending order of stake) followed by UpdateGlobalIndex *)
Theorem C13w_reg_remove_ok : forall w g v amt,
  let g' := set_rg_vals g (remove_val v (rg_vals g)) in
  rg_hub g = A_hub -> RegOk g' -> delegated (w_env w) A_hub <= LIM -> amt <= LIM ->
  delegation (w_env w) A_hub v = Some amt -> can_redelegate (w_env w) v = true ->
  exists dl, let vals := sort_asc (reg_query_validators w g') in
    length dl = length vals /\ sumN dl = amt /\
    reg_execute w g (rg_owner g) (GRemove v) = Some (g', removal_msgs A_hub v (redels_of vals dl)).
Proof. exact reg_remove_ok. Qed.

(** the hub: not paused, the sender is its registry: forwards 1:1 *)
Theorem C13w_hub_redel_proxy_ok : forall w h src l,
  paused h = false -> hc_reg (h_cfg h) = Some A_reg ->
  hub_execute w h A_hub A_reg [] (HRedelProxy src l) =
  Some (h, map (fun p : val * coin => MRedelegate src (fst p) (snd p)) l).
Proof. exact hub_redel_proxy_ok. Qed.

(** * 2. the chain executes the planned redelegations *)

(** positive usei amounts to real validators other than the source, together at most the stake on the
    source, the chain allowing redelegation from it: every MRedelegate executes *)
Theorem C13w_redel_all_ok : forall x src l e,
  DelWf e -> can_redelegate e src = true ->
  (forall p, In p l -> fst (snd p) = usei /\ 0 < snd (snd p) /\ is_val (fst p) = true /\ fst p <> src) ->
  redel_total l <= dv e x src ->
  exists e2, redel_all e x src l = Some e2.
Proof. exact redel_all_ok. Qed.

(** the hub's redelegations pay pending rewards of source and destinations to the dispatcher BEFORE the
    index update: the dispatcher's balance grows by exactly what stops being pending ([disp_due] is
    preserved), no other balance changes, nothing else of the environment but the delegation table *)
Theorem C13w_redel_all_frame : forall src l e e2,
  redel_all e A_hub src l = Some e2 -> withdraw_addr e A_hub = A_disp -> is_val src = true ->
  due_frame e e2.
Proof. exact redel_all_frame. Qed.

(** in the executor: the forwarded redelegations run one after the other, then the rest of the stack *)
Theorem C13w_run_redels_fwd : forall src l w e2 f rest tr,
  redel_all (w_env w) A_hub src l = Some e2 ->
  run (length l + f) w (redel_stack src l ++ rest) tr = run f (set_env w e2) rest (tr ++ redel_stack src l).
Proof. exact run_redels_fwd. Qed.

(** * 3. hypothesis transfer: the world after the redelegations (registry list [l] instead of the old
    one, environment [e2]) satisfies every hypothesis of C19_update_global_index_effect again, for the
    sender A_reg.  The only clause that needs more than C19's own hypotheses is the E1 bound on the
    dispatcher: redelegating creates delegation entries, so the bound is needed over all validators
    ([RemoveE1]) *)
Theorem C13w_mid_hyps : forall w g l e2,
  w_reg w = Some g -> RegOk (set_rg_vals g l) ->
  due_frame (w_env w) e2 -> delegated e2 A_hub = delegated (w_env w) A_hub ->
  Wired w -> RewardWired w -> RewardsToDispatcher w -> IndexWiring w -> StubsOk (w_env w) ->
  IndexE1 w -> RemoveE1 w -> RewardSolvent w -> HubReady w A_reg ->
  let w2 := set_env (set_reg w (set_rg_vals g l)) e2 in
  Wired w2 /\ RewardWired w2 /\ RewardsToDispatcher w2 /\ IndexWiring w2 /\ StubsOk (w_env w2) /\
  IndexE1 w2 /\ RemoveE1 w2 /\ RewardSolvent w2 /\ HubReady w2 A_reg.
Proof. exact mid_hyps. Qed.

Theorem C13w_RegOk_remove : forall g v,
  RegOk g -> remove_val v (rg_vals g) <> [] -> RegOk (set_rg_vals g (remove_val v (rg_vals g))).
Proof. exact RegOk_remove. Qed.

(** under [PendClean], [RemoveE1] is the bound [IndexE1] already contains *)
Theorem C13w_RemoveE1_of_clean : forall w h r tb ts,
  w_hub w = Some h -> w_reward w = Some r -> w_bsei w = Some tb -> w_stsei w = Some ts ->
  IndexE1 w -> PendClean (w_env w) -> RemoveE1 w.
Proof. exact RemoveE1_of_clean. Qed.

(** * 4. the index update of C19 is a tree of at most 40 messages (so that it still fits the
    transaction's fuel after the removal's own messages) *)
Theorem C13w_ugi_exec : forall w sender h r dp g tb ts,
  Wired w -> RewardWired w -> RewardsToDispatcher w -> IndexWiring w -> StubsOk (w_env w) ->
  IndexE1 w -> RewardSolvent w -> HubReady w sender ->
  w_hub w = Some h -> w_reward w = Some r -> w_disp w = Some dp -> w_reg w = Some g ->
  w_bsei w = Some tb -> w_stsei w = Some ts ->
  (forall w1, pre_dispatch w sender = Some w1 ->
     bal (w_env w1) A_disp (dp_bd dp) <= LIM /\ bal (w_env w1) A_disp usei <= LIM /\
     ~ Known_F2 (dp_rate dp) (bal (w_env w1) A_disp (dp_bd dp)) (bal (w_env w1) A_disp usei)) ->
  exists w' n, Exec w [(sender, root_msg)] w' n /\ (n <= 40)%nat.
Proof. exact ugi_exec. Qed.

(** * 5. THE THEOREM.  For every world [w] satisfying the hypotheses of C19 (for the sender A_reg) and
    [RemoveE1], with a well-formed delegation table, every validator [v] on which the hub has a
    delegation [amt] that the chain lets be redelegated, [v] not being the only registered validator,
    and the registry owner as sender:
    (a) the registry update, RedelegateProxy and every redelegation always execute, reaching the
        intermediate world [w2]: registry without [v]; other contracts untouched; nothing left on [v];
        the hub's total stake unchanged; the rewards pending on source and destinations paid to the
        dispatcher (no other balance changed, [disp_due] preserved);
    (b) [w2] satisfies every hypothesis of C19 again, so the appended UpdateGlobalIndex reaches its
        pre-dispatch world [w1];
    (c) if the balances [X_b], [X_st] the dispatcher holds in [w1] are within E1 and outside the class
        of finding F2, the WHOLE transaction SUCCEEDS; its executed messages are the removal, the proxy,
        the redelegations (summing to [amt], to registered validators only) and then exactly the
        messages [tr2] of the C19 transaction from [w2], among which the hub sends no redelegation;
        and in the final world: [v] is not registered and the registry is not empty; nothing is
        delegated to [v]; the hub's delegated stake grew by exactly the re-bonded amount
        [rb = X_st - keeper fee], other delegators' stake is unchanged; token ledgers and dispatcher
        state are unchanged; the reward index was updated on a balance that grew by X_b - keeper fee;
        hub config, parameters, open batch, wait lists and history are unchanged, and IF the books
        were within the delegations before (no unrecognised slash pending: [booked h <= delegated])
        the booked stake grew by exactly [rb] too, so delegated - booked is unchanged; the dispatcher
        holds nothing of either reward coin; every balance of the hub is unchanged, as is every
        account outside dispatcher / swap / keeper / reward contract; no reward stays pending at the
        hub's validators; unbonding queue and clock are unchanged. *)
Theorem C13w_remove_tx_effect : forall w owner v h r dp g tb ts amt,
  Wired w -> RewardWired w -> RewardsToDispatcher w -> IndexWiring w -> StubsOk (w_env w) ->
  IndexE1 w -> RemoveE1 w -> RewardSolvent w -> HubReady w A_reg -> DelWf (w_env w) ->
  w_hub w = Some h -> w_reward w = Some r -> w_disp w = Some dp -> w_reg w = Some g ->
  w_bsei w = Some tb -> w_stsei w = Some ts ->
  owner = rg_owner g -> remove_val v (rg_vals g) <> [] ->
  delegation (w_env w) A_hub v = Some amt -> can_redelegate (w_env w) v = true ->
  let e := w_env w in
  let g' := set_rg_vals g (remove_val v (rg_vals g)) in
  let bd := dp_bd dp in
  let keeper := dp_keeper dp in
  exists w2,
    remove_mid w owner v = Some w2 /\
    let e2 := w_env w2 in
    w_reg w2 = Some g' /\ w_hub w2 = Some h /\ w_reward w2 = Some r /\ w_disp w2 = Some dp /\
    w_bsei w2 = Some tb /\ w_stsei w2 = Some ts /\
    DelWf e2 /\ dv e2 A_hub v = 0 /\ (0 < amt -> delegation e2 A_hub v = None) /\
    delegated e2 A_hub = delegated e A_hub /\
    (forall a d, a <> A_disp -> bal e2 a d = bal e a d) /\
    (forall d, disp_due e2 d = disp_due e d) /\
    (Wired w2 /\ RewardWired w2 /\ RewardsToDispatcher w2 /\ IndexWiring w2 /\ StubsOk e2 /\
     IndexE1 w2 /\ RemoveE1 w2 /\ RewardSolvent w2 /\ HubReady w2 A_reg) /\
    exists w1,
      pre_dispatch w2 A_reg = Some w1 /\
      let X_b := bal (w_env w1) A_disp bd in
      let X_st := bal (w_env w1) A_disp usei in
      let kb := X_b * dp_rate dp / D in
      let rb := X_st - X_st * dp_rate dp / D in
      (X_b <= LIM -> X_st <= LIM -> ~ Known_F2 (dp_rate dp) X_b X_st ->
       exists w' tr redels tr2,
         run tx_fuel w [(owner, remove_msg v)] [] = Some (w', tr) /\
         tr = (owner, remove_msg v) :: (A_reg, MWasm A_hub (WHub (HRedelProxy v redels)) [])
                :: redel_stack v redels ++ tr2 /\
         run tx_fuel w2 [(A_reg, root_msg)] [] = Some (w', tr2) /\
         Forall not_hub_redel tr2 /\
         redel_total redels = amt /\
         (forall dst c, In (dst, c) redels -> In dst (rg_vals g') /\ fst c = usei /\ 0 < snd c) /\
         let e' := w_env w' in
         w_reg w' = Some g' /\ ~ In v (rg_vals g') /\ rg_vals g' <> [] /\
         dv e' A_hub v = 0 /\ (0 < amt -> delegation e' A_hub v = None) /\
         delegated e' A_hub = delegated e A_hub + rb /\
         (forall y, y <> A_hub -> delegated e' y = delegated e y) /\
         w_bsei w' = Some tb /\ w_stsei w' = Some ts /\ w_disp w' = Some dp /\
         w_reward w' = Some (index_updated r (bal e A_reward bd + (X_b - kb))) /\
         (exists h', w_hub w' = Some h' /\
            h_cfg h' = h_cfg h /\ h_params h' = h_params h /\ h_batch h' = h_batch h /\
            h_wait h' = h_wait h /\ h_hist h' = h_hist h /\ h_oldwait h' = h_oldwait h /\
            h_newowner h' = h_newowner h /\
            (booked h <= delegated e A_hub ->
               booked h' = booked h + rb /\ booked h' <= delegated e' A_hub /\
               delegated e' A_hub - booked h' = delegated e A_hub - booked h)) /\
         bal e' A_disp bd = 0 /\ bal e' A_disp usei = 0 /\
         (forall d, bal e' A_hub d = bal e A_hub d) /\
         bal e' A_reward bd = bal e A_reward bd + (X_b - kb) /\
         (forall a d, a <> A_disp -> a <> A_swap -> a <> keeper -> a <> A_reward -> bal e' a d = bal e a d) /\
         (forall u d, In u (del_vals e2 A_hub) -> In d DENOMS -> pending e' A_hub u d = 0) /\
         e_unb e' = e_unb e /\ e_now e' = e_now e).
Proof. exact remove_tx_effect. Qed.

(** summary form on the history operation, the intermediate and pre-dispatch worlds being given: the
    operation [OTx owner A_reg (WReg (GRemove v)) []] SUCCEEDS; every redelegation the hub sends in it
    moves stake away from [v] to another validator *)
Theorem C13w_remove_tx_succeeds : forall w owner v h r dp g tb ts amt w2 w1,
  Wired w -> RewardWired w -> RewardsToDispatcher w -> IndexWiring w -> StubsOk (w_env w) ->
  IndexE1 w -> RemoveE1 w -> RewardSolvent w -> HubReady w A_reg -> DelWf (w_env w) ->
  w_hub w = Some h -> w_reward w = Some r -> w_disp w = Some dp -> w_reg w = Some g ->
  w_bsei w = Some tb -> w_stsei w = Some ts ->
  owner = rg_owner g -> remove_val v (rg_vals g) <> [] ->
  delegation (w_env w) A_hub v = Some amt -> can_redelegate (w_env w) v = true ->
  remove_mid w owner v = Some w2 -> pre_dispatch w2 A_reg = Some w1 ->
  let e := w_env w in
  let X_b := bal (w_env w1) A_disp (dp_bd dp) in
  let X_st := bal (w_env w1) A_disp usei in
  let rb := X_st - X_st * dp_rate dp / D in
  X_b <= LIM -> X_st <= LIM -> ~ Known_F2 (dp_rate dp) X_b X_st ->
  exists w' tr,
    step w (OTx owner A_reg (WReg (GRemove v)) []) = (w', (true, tr)) /\
    let e' := w_env w' in
    (exists gr, w_reg w' = Some gr /\ rg_vals gr = remove_val v (rg_vals g) /\ ~ In v (rg_vals gr) /\
                rg_vals gr <> []) /\
    dv e' A_hub v = 0 /\ (0 < amt -> delegation e' A_hub v = None) /\
    delegated e' A_hub = delegated e A_hub + rb /\
    (forall s src dst c, In (s, MRedelegate src dst c) tr -> s = A_hub -> src = v /\ dst <> v) /\
    w_bsei w' = Some tb /\ w_stsei w' = Some ts /\
    (exists h', w_hub w' = Some h' /\ h_batch h' = h_batch h /\ h_wait h' = h_wait h /\ h_hist h' = h_hist h /\
       (booked h <= delegated e A_hub ->
          booked h' = booked h + rb /\ delegated e' A_hub - booked h' = delegated e A_hub - booked h)) /\
    bal e' A_disp (dp_bd dp) = 0 /\ bal e' A_disp usei = 0 /\
    (forall d, bal e' A_hub d = bal e A_hub d).
Proof. exact remove_tx_succeeds. Qed.

(** at any point of any operation history (the delegation table of a reachable world is well formed) *)
Theorem C13w_remove_tx_effect_reachable : forall ut ops owner v h r dp g tb ts amt,
  let w := run_ops ops (empty_world ut) in
  Wired w -> RewardWired w -> RewardsToDispatcher w -> IndexWiring w -> StubsOk (w_env w) ->
  IndexE1 w -> RemoveE1 w -> RewardSolvent w -> HubReady w A_reg ->
  w_hub w = Some h -> w_reward w = Some r -> w_disp w = Some dp -> w_reg w = Some g ->
  w_bsei w = Some tb -> w_stsei w = Some ts ->
  owner = rg_owner g -> remove_val v (rg_vals g) <> [] ->
  delegation (w_env w) A_hub v = Some amt -> can_redelegate (w_env w) v = true ->
  exists w2 w1,
    remove_mid w owner v = Some w2 /\ pre_dispatch w2 A_reg = Some w1 /\
    let X_b := bal (w_env w1) A_disp (dp_bd dp) in
    let X_st := bal (w_env w1) A_disp usei in
    let rb := X_st - X_st * dp_rate dp / D in
    (X_b <= LIM -> X_st <= LIM -> ~ Known_F2 (dp_rate dp) X_b X_st ->
     exists w' tr,
       step w (OTx owner A_reg (WReg (GRemove v)) []) = (w', (true, tr)) /\
       (exists gr, w_reg w' = Some gr /\ rg_vals gr = remove_val v (rg_vals g) /\ ~ In v (rg_vals gr) /\
                   rg_vals gr <> []) /\
       dv (w_env w') A_hub v = 0 /\
       delegated (w_env w') A_hub = delegated (w_env w) A_hub + rb /\
       (booked h <= delegated (w_env w) A_hub ->
          exists h', w_hub w' = Some h' /\ booked h' = booked h + rb /\
                     delegated (w_env w') A_hub - booked h' = delegated (w_env w) A_hub - booked h)).
Proof. exact remove_tx_effect_reachable. Qed.

(** * 6. finding F2 inside a removal (KNOWN FINDING — genuine defect of execute_dispatch_rewards, same
    root cause as C17 / C19 section 7; this is the remark "a removal can fail through F2" of DESIGN.md).
    World [W_dust]: the wired world of C19 (registry [0; 1; 2] owned by 10, 1 000 000 usei delegated to
    each validator, 5 % keeper) with 10 usei of rewards pending at validator 1.  Every hypothesis of the
    theorem above holds for the removal of validator 1 by the owner; the prefix executes (stake moved
    to validators 0 and 2); the pre-dispatch balances of the appended index update are 4 uusd and
    6 usei, in the class [Known_F2]; and the whole RemoveValidator transaction FAILS, leaving the
    world unchanged — the validator stays registered.  The same removal succeeds with no rewards
    pending, and with the larger rewards of [W_ok]. *)
Theorem C13w_F2_witness :
  (exists h r dp g tb ts,
     let w := W_dust in
     Wired w /\ RewardWired w /\ RewardsToDispatcher w /\ IndexWiring w /\ StubsOk (w_env w) /\
     IndexE1 w /\ RemoveE1 w /\ RewardSolvent w /\ HubReady w A_reg /\ DelWf (w_env w) /\
     w_hub w = Some h /\ w_reward w = Some r /\ w_disp w = Some dp /\ w_reg w = Some g /\
     w_bsei w = Some tb /\ w_stsei w = Some ts /\
     rm_owner = rg_owner g /\ remove_val 1 (rg_vals g) <> [] /\
     delegation (w_env w) A_hub 1 = Some 1000000 /\ can_redelegate (w_env w) 1 = true) /\
  (exists w2 w1,
     remove_mid W_dust rm_owner 1 = Some w2 /\
     all_delegations (w_env w2) A_hub = [(0, 1500000); (2, 1500000)] /\
     pre_dispatch w2 A_reg = Some w1 /\
     bal (w_env w1) A_disp uusd = 4 /\ bal (w_env w1) A_disp usei = 6 /\
     Known_F2 50000000000000000 (bal (w_env w1) A_disp uusd) (bal (w_env w1) A_disp usei)) /\
  fst (snd (step W_dust rm_op)) = false /\ fst (step W_dust rm_op) = W_dust /\
  fst (snd (step (index_world 50000000000000000 []) rm_op)) = true /\
  fst (snd (step W_ok rm_op)) = true.
Proof. exact remove_tx_F2_witness. Qed.

Theorem C13w_def_examples :
  rm_owner = 10 /\ rm_op = OTx rm_owner A_reg (WReg (GRemove 1)) [] /\
  W_dust = index_world 50000000000000000 [OAccrue 1 usei 10] /\
  W_ok = index_world 50000000000000000 [OAccrue 0 usei 50000; OAccrue 1 uusd 7000].
Proof. exact def_examples. Qed.

(** * 7. non-vacuity: a concrete world ([W_ok], validator 1 removed by the owner) satisfies every
    hypothesis of the theorem, with the removed validator registered, rewards pending both on it and on
    a remaining validator, the books within the delegations, no reward pending without entry, and
    pre-dispatch balances that are positive, within E1 and outside F2 *)
Theorem C13w_nonvacuous :
  exists w owner v h r dp g tb ts amt w2 w1,
    (Wired w /\ RewardWired w /\ RewardsToDispatcher w /\ IndexWiring w /\ StubsOk (w_env w) /\
     IndexE1 w /\ RemoveE1 w /\ RewardSolvent w /\ HubReady w A_reg /\ DelWf (w_env w) /\
     w_hub w = Some h /\ w_reward w = Some r /\ w_disp w = Some dp /\ w_reg w = Some g /\
     w_bsei w = Some tb /\ w_stsei w = Some ts /\
     owner = rg_owner g /\ remove_val v (rg_vals g) <> [] /\
     delegation (w_env w) A_hub v = Some amt /\ can_redelegate (w_env w) v = true) /\
    In v (rg_vals g) /\ 0 < amt /\ booked h <= delegated (w_env w) A_hub /\ PendClean (w_env w) /\
    0 < pending (w_env w) A_hub v uusd /\ 0 < pending (w_env w) A_hub 0 usei /\
    remove_mid w owner v = Some w2 /\ pre_dispatch w2 A_reg = Some w1 /\
    0 < bal (w_env w1) A_disp (dp_bd dp) <= LIM /\ 0 < bal (w_env w1) A_disp usei <= LIM /\
    ~ Known_F2 (dp_rate dp) (bal (w_env w1) A_disp (dp_bd dp)) (bal (w_env w1) A_disp usei).
Proof. exact remove_tx_nonvacuous. Qed.

(** the transaction succeeds there with the predicted end state: validator 1 unregistered and without
    stake, 36 100 usei re-bonded (38 000 at the dispatcher minus the 5 % keeper fee) on both sides of the
    books, dispatcher empty, keeper 950 uusd + 1 900 usei, reward contract 18 050 uusd, hub's liquid
    balance unchanged *)
Theorem C13w_example_state :
  fst (snd (step W_ok rm_op)) = true /\
  let w' := fst (step W_ok rm_op) in
  (match w_reg w' with Some g => rg_vals g | None => [] end) = [0; 2] /\
  all_delegations (w_env W_ok) A_hub = [(0, 1000000); (1, 1000000); (2, 1000000)] /\
  all_delegations (w_env w') A_hub = [(0, 1518050); (2, 1518050)] /\
  delegated (w_env w') A_hub = delegated (w_env W_ok) A_hub + 36100 /\
  (match w_hub w' with Some h => (hs_bb (h_state h), hs_bst (h_state h)) | None => (0, 0) end) = (1000000, 2036100) /\
  bal (w_env w') A_disp uusd = 0 /\ bal (w_env w') A_disp usei = 0 /\
  bal (w_env w') 12 uusd = 950 /\ bal (w_env w') 12 usei = 1900 /\
  bal (w_env w') A_reward uusd = 18050 /\
  bal (w_env w') A_hub usei = bal (w_env W_ok) A_hub usei.
Proof. exact remove_tx_example_state. Qed.

Print Assumptions C13w_def_remove_msg.
Print Assumptions C13w_def_remove_mid.
Print Assumptions C13w_def_disp_due.
Print Assumptions C13w_def_RemoveE1.
Print Assumptions C13w_def_PendClean.
Print Assumptions C13w_def_same_cfg.
Print Assumptions C13w_def_due_frame.
Print Assumptions C13w_def_not_hub_redel.
Print Assumptions C13w_reg_remove_ok.
Print Assumptions C13w_hub_redel_proxy_ok.
Print Assumptions C13w_redel_all_ok.
Print Assumptions C13w_redel_all_frame.
Print Assumptions C13w_run_redels_fwd.
Print Assumptions C13w_mid_hyps.
Print Assumptions C13w_RegOk_remove.
Print Assumptions C13w_RemoveE1_of_clean.
Print Assumptions C13w_ugi_exec.
Print Assumptions C13w_remove_tx_effect.
Print Assumptions C13w_remove_tx_succeeds.
Print Assumptions C13w_remove_tx_effect_reachable.
Print Assumptions C13w_F2_witness.
Print Assumptions C13w_def_examples.
Print Assumptions C13w_nonvacuous.
Print Assumptions C13w_example_state.
