(** C07 — Every unbonded token is recorded in exactly one batch claim of its sender.
    Property theorems only (proofs: Proofs/ClaimsStep.v, Proofs/ClaimsP.v).

    Vocabulary (definitions in Proofs/ClaimsStep.v and Proofs/ClaimsP.v):
    - [wsum f m i]      = Σ over the wait-list entries (u, i) of batch [i] of [f (bsei, stsei)]
                          ([f] = [fst] for bSei, [snd] for stSei);
    - [HistShape h]     : 1 <= open batch id, and the history ids are exactly 1 .. id-1, ascending;
    - [ClaimsInv h]     : wait-list keys unique and, per user, in ascending batch order; [HistShape];
                          wait entries only for batch ids 1..c (c = open batch id); the wait-list sums
                          of batch c equal the open batch totals; for every history entry the sums
                          are <= its amounts, with EQUALITY as long as the entry is unreleased
                          (claims are removed only for released batches);
    - [legacy_free ops] : envelope E6 — the history injects no pre-v2 wait-list entry;
    - [unbond_fee w h self amt] : the peg-recovery fee the bSei unbond handler charges (0 when the
                          rate is at or above the recovery threshold);
    - [released_at hist b] : batch [b] is in [hist] with its released flag set.
    All step theorems hold for EVERY hub state / world; the hypotheses [h_oldwait h = []] (E6) and
    [NoDup (keys (h_wait h))] (part of [ClaimsInv]) are stated where needed.  [ClaimsInv] is shown
    for every world reached by any legacy-free history of any length, users, tokens, epochs. *)
From Krp Require Import Tactics Prelude Fixed FMap Types Env Registry Cw20 Reward Dispatcher Hub Exec
     ExecP HubFrame ClaimsStep ClaimsP.
From Coq Require Import Sorted.
Open Scope N_scope.

(** *** the invariant: established by instantiate, preserved by every hub message, reachable *)
Theorem C07_instantiate :
  forall sender now epoch unbonding pegfee thr updater underlying rdenom h,
  hub_instantiate sender now epoch unbonding pegfee thr updater underlying rdenom = Some h ->
  h_oldwait h = [] /\ ClaimsInv h.
Proof. exact claims_inv_instantiate. Qed.

Theorem C07_execute_preserves : forall w h self sender funds m h' out,
  h_oldwait h = [] -> ClaimsInv h ->
  hub_execute w h self sender funds m = Some (h', out) ->
  h_oldwait h' = [] /\ ClaimsInv h'.
Proof. exact claims_inv_execute. Qed.

Theorem C07_invariant_reachable : forall ut ops,
  legacy_free ops = true ->
  forall h, w_hub (run_ops ops (empty_world ut)) = Some h -> h_oldwait h = [] /\ ClaimsInv h.
Proof. exact ClaimsInv_reachable. Qed.

(** the same, spelled out: in every reachable world, for the open batch the users' claims add up to
    the batch totals; for every closed batch they add up to the amounts stored in the history (which
    are the amounts undelegated, see C08_undelegated_amount) until the batch is released, and never
    exceed them afterwards *)
Theorem C07_claims_sums_reachable : forall ut ops h,
  legacy_free ops = true -> w_hub (run_ops ops (empty_world ut)) = Some h ->
  let c := cb_id (h_batch h) in
  NoDup (keys (h_wait h)) /\
  (forall u i, get eqbAN (h_wait h) (u, i) <> None -> 1 <= i <= c) /\
  (forall i, get N.eqb (h_hist h) i <> None <-> 1 <= i < c) /\
  wsum fst (h_wait h) c = cb_reqb (h_batch h) /\
  wsum snd (h_wait h) c = cb_reqst (h_batch h) /\
  (forall i e, get N.eqb (h_hist h) i = Some e ->
     wsum fst (h_wait h) i <= he_bamt e /\ wsum snd (h_wait h) i <= he_samt e /\
     (he_released e = false ->
      wsum fst (h_wait h) i = he_bamt e /\ wsum snd (h_wait h) i = he_samt e)).
Proof. exact claims_sums_reachable. Qed.

(** E6 is needed: migrating a legacy entry overwrites a v2 claim (concrete world of ClaimsP.v) *)
Theorem C07_legacy_excluded_witness :
  let w := run_ops [OLegacyWait cx_alice 1 7;
                    OTx cx_owner A_hub (WHub (HParams None None None None (Some true) None)) [];
                    OTx cx_owner A_hub (WHub (HMigrate None)) []] cx_w1 in
  exists h, w_hub w = Some h /\ wsum fst (h_wait h) 1 = 4982 /\ cb_reqb (h_batch h) = 24875.
Proof. exact claims_inv_refuted_by_legacy. Qed.

(** *** an accepted Unbond: burns exactly the amount sent (last message, to the calling token),
    credits amount - fee (bSei) / amount (stSei) to wait(cw20 sender, open batch) and to the batch
    total — [c] is the id of the open batch BEFORE the call, also when the call closes it — and
    changes no other wait entry *)
Theorem C07_unbond_effect : forall w h self sender funds user amt h' out,
  hub_execute w h self sender funds (HReceive user amt HkUnbond) = Some (h', out) ->
  let c := cb_id (h_batch h) in
  (hc_bsei (h_cfg h) = Some sender \/ hc_stsei (h_cfg h) = Some sender) /\
  exists msgs db dst,
    out = msgs ++ [MWasm sender (WCw20 (CBurn amt)) []] /\
    (hc_bsei (h_cfg h) = Some sender ->
       dst = 0 /\ exists fee, unbond_fee w h self amt = Some fee /\ fee <= amt /\ db = amt - fee) /\
    (hc_bsei (h_cfg h) <> Some sender -> db = 0 /\ dst = amt) /\
    wait_of h' user c = (fst (wait_of h user c) + db, snd (wait_of h user c) + dst) /\
    (forall k, k <> (user, c) -> get eqbAN (h_wait h') k = get eqbAN (h_wait h) k) /\
    ((msgs = [] /\ h_hist h' = h_hist h /\
      h_batch h' = mkBatch c (cb_reqb (h_batch h) + db) (cb_reqst (h_batch h) + dst))
     \/
     (h_batch h' = mkBatch (c + 1) 0 0 /\
      exists e, get N.eqb (h_hist h') c = Some e /\ he_released e = false /\
                he_bamt e = cb_reqb (h_batch h) + db /\ he_samt e = cb_reqst (h_batch h) + dst /\
                forall i, i <> c -> get N.eqb (h_hist h') i = get N.eqb (h_hist h) i)).
Proof. exact unbond_effect. Qed.

(** "the cw20 sender": the Receive hook built by either token names the caller of Send / SendFrom
    (for SendFrom the spender, not the owner whose tokens move) and the amount moved *)
Theorem C07_bsei_hook_names_caller : forall w t sender m t' out c u a hk,
  bsei_execute w t sender m = Some (t', out) ->
  In (MWasm c (WHub (HReceive u a hk)) []) out ->
  u = sender /\ (m = CSend c a hk \/ exists o, m = CSendFrom o c a hk).
Proof. exact bsei_hook_names_caller. Qed.

Theorem C07_stsei_hook_names_caller : forall w t sender m t' out c u a hk,
  stsei_execute w t sender m = Some (t', out) ->
  In (MWasm c (WHub (HReceive u a hk)) []) out ->
  u = sender /\ (m = CSend c a hk \/ exists o, m = CSendFrom o c a hk).
Proof. exact stsei_hook_names_caller. Qed.

(** *** how claims are created and removed: for every wait entry (u, i), across one successful hub
    message it is unchanged, or credited by an Unbond hook sent by a registered token contract, or
    removed by its owner's WithdrawUnbonded for a batch that is released *)
Theorem C07_wait_change_cases : forall w h self sender funds m h' out u i,
  h_oldwait h = [] -> NoDup (keys (h_wait h)) ->
  hub_execute w h self sender funds m = Some (h', out) ->
  get eqbAN (h_wait h') (u, i) = get eqbAN (h_wait h) (u, i) \/
  (exists amt db dst, m = HReceive u amt HkUnbond /\
     (hc_bsei (h_cfg h) = Some sender \/ hc_stsei (h_cfg h) = Some sender) /\
     i = cb_id (h_batch h) /\
     get eqbAN (h_wait h') (u, i) = Some (fst (wait_of h u i) + db, snd (wait_of h u i) + dst)) \/
  (m = HWithdraw /\ sender = u /\ get eqbAN (h_wait h) (u, i) <> None /\
   get eqbAN (h_wait h') (u, i) = None /\
   exists e, get N.eqb (h_hist h') i = Some e /\ he_released e = true).
Proof. exact wait_change_cases. Qed.

Theorem C07_claims_only_via_tokens : forall w h self sender funds m h' out k x',
  h_oldwait h = [] -> NoDup (keys (h_wait h)) ->
  hub_execute w h self sender funds m = Some (h', out) ->
  get eqbAN (h_wait h') k = Some x' -> get eqbAN (h_wait h) k <> Some x' ->
  exists user amt, m = HReceive user amt HkUnbond /\
    (hc_bsei (h_cfg h) = Some sender \/ hc_stsei (h_cfg h) = Some sender) /\
    k = (user, cb_id (h_batch h)).
Proof. exact claims_only_via_tokens. Qed.

Theorem C07_claims_removed_only_by_owner : forall w h self sender funds m h' out u i x,
  h_oldwait h = [] -> NoDup (keys (h_wait h)) ->
  hub_execute w h self sender funds m = Some (h', out) ->
  get eqbAN (h_wait h) (u, i) = Some x -> get eqbAN (h_wait h') (u, i) <> Some x ->
  (m = HWithdraw /\ sender = u /\ get eqbAN (h_wait h') (u, i) = None /\
   exists e, get N.eqb (h_hist h') i = Some e /\ he_released e = true)
  \/
  (exists amt db dst, m = HReceive u amt HkUnbond /\ i = cb_id (h_batch h) /\
     get eqbAN (h_wait h') (u, i) = Some (fst x + db, snd x + dst)).
Proof. exact claims_removed_only_by_owner. Qed.

(** *** queries *)

(** UnbondRequests{address}: exactly the address's wait entries ... *)
Theorem C07_unbond_requests_faithful : forall h u b x,
  NoDup (keys (h_wait h)) ->
  (In (b, x) (user_waits h u) <-> get eqbAN (h_wait h) (u, b) = Some x).
Proof. exact user_waits_faithful. Qed.

(** ... in every reachable world, each batch once, in ascending batch order *)
Theorem C07_unbond_requests_reachable : forall ut ops h u,
  legacy_free ops = true -> w_hub (run_ops ops (empty_world ut)) = Some h ->
  StronglySorted N.lt (map fst (user_waits h u)) /\
  (forall b x, In (b, x) (user_waits h u) <-> get eqbAN (h_wait h) (u, b) = Some x).
Proof. exact user_waits_sorted_reachable. Qed.

(** AllHistory{start_from, limit}: in ascending id order, exactly the history entries with ids
    start+1 .. start+min(limit or 10, 100) that exist *)
Theorem C07_all_history_slice : forall h start limit,
  HistShape h ->
  let s := opt_or start 0 in
  let lim := N.to_nat (N.min (opt_or limit 10) 100) in
  let res := hub_query_history h start limit in
  map fst res = ids_from (s + 1) (Nat.min lim (N.to_nat (cb_id (h_batch h) - 1 - s))) /\
  (forall i e, In (i, e) res <->
               (get N.eqb (h_hist h) i = Some e /\ s < i /\ i <= s + N.of_nat lim)).
Proof. exact query_history_slice. Qed.

Theorem C07_all_history_slice_reachable : forall ut ops h start limit,
  legacy_free ops = true -> w_hub (run_ops ops (empty_world ut)) = Some h ->
  let s := opt_or start 0 in
  let lim := N.to_nat (N.min (opt_or limit 10) 100) in
  let res := hub_query_history h start limit in
  map fst res = ids_from (s + 1) (Nat.min lim (N.to_nat (cb_id (h_batch h) - 1 - s))) /\
  (forall i e, In (i, e) res <->
               (get N.eqb (h_hist h) i = Some e /\ s < i /\ i <= s + N.of_nat lim)).
Proof. exact query_history_slice_reachable. Qed.

Print Assumptions C07_instantiate.
Print Assumptions C07_execute_preserves.
Print Assumptions C07_invariant_reachable.
Print Assumptions C07_claims_sums_reachable.
Print Assumptions C07_legacy_excluded_witness.
Print Assumptions C07_unbond_effect.
Print Assumptions C07_bsei_hook_names_caller.
Print Assumptions C07_stsei_hook_names_caller.
Print Assumptions C07_wait_change_cases.
Print Assumptions C07_claims_only_via_tokens.
Print Assumptions C07_claims_removed_only_by_owner.
Print Assumptions C07_unbond_requests_faithful.
Print Assumptions C07_unbond_requests_reachable.
Print Assumptions C07_all_history_slice.
Print Assumptions C07_all_history_slice_reachable.
