(** C03 — Reported exchange rates equal backing over claims and price every mint / redeem.
    Property theorems only; proofs are in Proofs/HubRates.v.

    Level: the hub handlers of Model/Hub.v as functions of the world [w] (token supplies,
    delegations) and the hub state [h].  Minted / burned amounts are read off the emitted cw20
    messages.  [self] is the hub's own address.

    Vocabulary (all short; defined in Proofs/Inv.v and Proofs/HubRates.v):
    - [rate_of B C := if (B =? 0) || (C =? 0) then D else B * D / C]   (D = 10^18): backing over
      claims as an 18-decimal number, 1.0 when either is zero.
    - [booked h := hs_bb (h_state h) + hs_bst (h_state h)], [LIM := 10^18] (envelope E1).
    - [sync_pools actual bb bst]: the books after synchronisation with the delegated total:
        if actual < bb + bst then (bb', actual - bb') with bb' = actual * (bb * D / (bb + bst)) / D
        else (bb, bst).
    - [synced_state s actual cb cst]: [s] with the pools replaced by [sync_pools actual ..] and the
      rates replaced by [rate_of bb' cb], [rate_of bst' cst]; all other fields kept.
    - [hr_undelegated out]: sum of the amounts of the MUndelegate messages in [out]. *)
From Krp Require Import Tactics Prelude Fixed FMap Types Env Registry Cw20 Hub Inv HubRates.
Open Scope N_scope.

(** *** 1. reported rates *)

(** the rate function of packages/basset/src/hub.rs is [rate_of] (any inputs), and cannot fail
    within E1 *)
Theorem C03_exchange_rate_is_rate_of : forall b i r x,
  exchange_rate b i r = Some x -> x = rate_of b (i + r).
Proof. exact exchange_rate_some. Qed.

Theorem C03_exchange_rate_total : forall b i r,
  b <= LIM -> i + r <= U128MAX -> exchange_rate b i r = Some (rate_of b (i + r)).
Proof. exact exchange_rate_total. Qed.

(** whenever stake is bonded (and booked), the State query reports the synchronised pools and, for
    each token, backing over (total supply + open requests) of the same world *)
Theorem C03_reported_rate : forall w self h s',
  query_actual_state w self h = Some s' ->
  all_delegations (w_env w) self <> [] -> 0 < booked h ->
  exists actual sb ss,
    actual_bonded w self h = Some actual /\
    hub_bsei_supply w h = Some sb /\ hub_stsei_supply w h = Some ss /\
    s' = synced_state (h_state h) actual (sb + cb_reqb (h_batch h)) (ss + cb_reqst (h_batch h)).
Proof. exact reported_rate. Qed.

(** ... and under E1 the query cannot fail *)
Theorem C03_reported_rate_total : forall w self h actual sb ss,
  all_delegations (w_env w) self <> [] -> 0 < booked h ->
  actual_bonded w self h = Some actual ->
  hub_bsei_supply w h = Some sb -> hub_stsei_supply w h = Some ss ->
  hs_bb (h_state h) <= LIM -> hs_bst (h_state h) <= LIM -> actual <= LIM ->
  sb + cb_reqb (h_batch h) <= U128MAX -> ss + cb_reqst (h_batch h) <= U128MAX ->
  query_actual_state w self h =
  Some (synced_state (h_state h) actual (sb + cb_reqb (h_batch h)) (ss + cb_reqst (h_batch h))).
Proof. exact reported_rate_total. Qed.

(** [actual] is the sum of the hub's delegations *)
Theorem C03_actual_is_delegated : forall w self h,
  hp_underlying (h_params h) = usei -> delegated (w_env w) self <= U128MAX ->
  actual_bonded w self h = Some (delegated (w_env w) self).
Proof. exact actual_bonded_delegated. Qed.

(** the pro-rata split hands out exactly the delegated total, the bSei share rounded down *)
Theorem C03_sync_pools_sum : forall actual bb bst, actual < bb + bst ->
  fst (sync_pools actual bb bst) + snd (sync_pools actual bb bst) = actual /\
  fst (sync_pools actual bb bst) * (bb + bst) <= actual * bb.
Proof. exact sync_pools_sum. Qed.

(** degenerate cases: nothing delegated, or nothing booked: the stored state is reported as is *)
Theorem C03_reported_rate_nodeleg : forall w self h,
  all_delegations (w_env w) self = [] -> query_actual_state w self h = Some (h_state h).
Proof. exact reported_rate_nodeleg. Qed.

Theorem C03_reported_rate_unbooked : forall w self h s',
  query_actual_state w self h = Some s' -> booked h = 0 -> s' = h_state h.
Proof. exact reported_rate_unbooked. Qed.

(** *** 2. bond *)

(** Bond: exactly one payment coin [p > 0] of the underlying denom; exactly one cw20 message,
    CMint to the sender of [floor(p / rate_b) - fee]; fee = 0 at or above the threshold, else
    min(floor(m0 x peg fee), claims after - backing after); all other messages are delegations;
    the rate stored afterwards is backing over claims for the supply after the mint *)
Theorem C03_bond_b_mints : forall w h self sender funds h' out sb,
  execute_bond w h self sender funds BkB = Some (h', out) ->
  hub_bsei_supply w h = Some sb ->
  exists h1 p vals xs tok,
    slashing w self h = Some h1 /\
    funds = [(hp_underlying (h_params h), p)] /\ 0 < p /\
    hc_bsei (h_cfg h) = Some tok /\
    let s := h_state h1 in
    let r := hs_ber s in
    let m0 := p * D / r in
    let fee := if r <? hp_thr (h_params h)
               then N.min (m0 * hp_pegfee (h_params h) / D)
                          (sb + m0 + cb_reqb (h_batch h) - (hs_bb s + p))
               else 0 in
    r <> 0 /\ fee <= m0 /\
    out = delegate_msgs vals xs (hp_underlying (h_params h)) ++
          [MWasm tok (WCw20 (CMint sender (m0 - fee))) []] /\
    h' = set_h_state h1 (set_ber (set_bonded s (hs_bb s + p) (hs_bst s))
                                 (rate_of (hs_bb s + p) (sb + (m0 - fee) + cb_reqb (h_batch h)))).
Proof. exact bond_b_mints. Qed.

Theorem C03_delegate_msgs_only_delegate : forall vals xs dn,
  Forall (fun m => exists v c, m = MDelegate v c) (delegate_msgs vals xs dn).
Proof. exact delegate_msgs_only_delegate. Qed.

(** BondForStSei: mints [floor(p / rate_st)], no fee *)
Theorem C03_bond_st_mints : forall w h self sender funds h' out,
  execute_bond w h self sender funds BkSt = Some (h', out) ->
  exists h1 p vals xs tok,
    slashing w self h = Some h1 /\
    funds = [(hp_underlying (h_params h), p)] /\ 0 < p /\
    hc_stsei (h_cfg h) = Some tok /\
    let s := h_state h1 in
    hs_ser s <> 0 /\
    out = delegate_msgs vals xs (hp_underlying (h_params h)) ++
          [MWasm tok (WCw20 (CMint sender (p * D / hs_ser s))) []] /\
    h' = set_h_state h1 (set_bonded s (hs_bb s) (hs_bst s + p)).
Proof. exact bond_st_mints. Qed.

(** BondRewards: only the dispatcher; delegations only, no token message; the payment goes to the
    stSei pool *)
Theorem C03_bond_rw_mints : forall w h self sender funds h' out ss,
  execute_bond w h self sender funds BkRw = Some (h', out) ->
  hub_stsei_supply w h = Some ss ->
  exists h1 p vals xs,
    slashing w self h = Some h1 /\
    hc_disp (h_cfg h) = Some sender /\
    funds = [(hp_underlying (h_params h), p)] /\ 0 < p /\
    let s := h_state h1 in
    out = delegate_msgs vals xs (hp_underlying (h_params h)) /\
    h' = set_h_state h1 (set_ser (set_bonded s (hs_bb s) (hs_bst s + p))
                                 (rate_of (hs_bst s + p) (ss + cb_reqst (h_batch h)))).
Proof. exact bond_rw_mints. Qed.

(** no payment, a zero coin, a coin of another denom, two coins: rejected (all three bond kinds) *)
Theorem C03_bond_rejects_empty : forall w h self sender k, execute_bond w h self sender [] k = None.
Proof. exact bond_rejects_empty. Qed.

Theorem C03_bond_rejects_zero : forall w h self sender k dn,
  execute_bond w h self sender [(dn, 0)] k = None.
Proof. exact bond_rejects_zero. Qed.

Theorem C03_bond_rejects_denom : forall w h self sender k dn a,
  dn <> hp_underlying (h_params h) -> execute_bond w h self sender [(dn, a)] k = None.
Proof. exact bond_rejects_denom. Qed.

Theorem C03_bond_rejects_two : forall w h self sender k c1 c2 rest,
  execute_bond w h self sender (c1 :: c2 :: rest) k = None.
Proof. exact bond_rejects_two. Qed.

(** a Mint of 0 tokens is rejected by both token contracts, so a bond or convert whose price
    rounds to 0 tokens fails as a whole (transactions are atomic): no payment for no tokens *)
Theorem C03_mint_zero_rejected : forall t sender to, tok_mint t sender to 0 = None.
Proof. exact mint_zero_rejected. Qed.

Theorem C03_mint_zero_rejected_bsei : forall w t sender to, bsei_execute w t sender (CMint to 0) = None.
Proof. exact mint_zero_rejected_bsei. Qed.

Theorem C03_mint_zero_rejected_stsei : forall w t sender to, stsei_execute w t sender (CMint to 0) = None.
Proof. exact mint_zero_rejected_stsei. Qed.

(** *** 3. convert *)

Theorem C03_convert_st_b_prices : forall w h self amount user h' out sb ss,
  convert_stsei_bsei w h self amount user = Some (h', out) ->
  hub_bsei_supply w h = Some sb -> hub_stsei_supply w h = Some ss ->
  exists h1 stok btok,
    slashing w self h = Some h1 /\
    hc_stsei (h_cfg h) = Some stok /\ hc_bsei (h_cfg h) = Some btok /\
    let s := h_state h1 in
    let cb := h_batch h in
    let d := amount * hs_ser s / D in
    let m0 := d * D / hs_ber s in
    let fee := if hs_ber s <? hp_thr (h_params h)
               then N.min (m0 * hp_pegfee (h_params h) / D) (sb + m0 + cb_reqb cb - (hs_bb s + d))
               else 0 in
    hs_ber s <> 0 /\ fee <= m0 /\ d <= hs_bst s /\ amount <= ss /\
    out = [MWasm btok (WCw20 (CMint user (m0 - fee))) []; MWasm stok (WCw20 (CBurn amount)) []] /\
    h' = set_h_state h1 (set_rates (set_bonded s (hs_bb s + d) (hs_bst s - d))
                           (rate_of (hs_bb s + d) (sb + (m0 - fee) + cb_reqb cb))
                           (rate_of (hs_bst s - d) (ss - amount + cb_reqst cb))).
Proof. exact convert_st_b_prices. Qed.

Theorem C03_convert_b_st_prices : forall w h self amount user h' out sb ss,
  convert_bsei_stsei w h self amount user = Some (h', out) ->
  hub_bsei_supply w h = Some sb -> hub_stsei_supply w h = Some ss ->
  exists h1 stok btok,
    slashing w self h = Some h1 /\
    hc_stsei (h_cfg h) = Some stok /\ hc_bsei (h_cfg h) = Some btok /\
    let s := h_state h1 in
    let cb := h_batch h in
    let c := sb + cb_reqb cb in
    let gap := c - hs_bb s in
    let fee := if hs_ber s <? hp_thr (h_params h)
               then N.min (amount * hp_pegfee (h_params h) / D)
                          (if hs_bb s =? 0 then gap else gap * (c - amount) / hs_bb s)
               else 0 in
    let d := (amount - fee) * hs_ber s / D in
    let m := d * D / hs_ser s in
    hs_ser s <> 0 /\ fee <= amount /\ d <= hs_bb s /\ amount <= sb /\
    out = [MWasm stok (WCw20 (CMint user m)) []; MWasm btok (WCw20 (CBurn amount)) []] /\
    h' = set_h_state h1 (set_rates (set_bonded s (hs_bb s - d) (hs_bst s + d))
                           (rate_of (hs_bb s - d) (sb - amount + cb_reqb cb))
                           (rate_of (hs_bst s + d) (ss + m + cb_reqst cb))).
Proof. exact convert_b_st_prices. Qed.

(** *** 4. unbond requests and the undelegation of a batch *)

(** closing a batch: Undelegate messages for floor(reqb x rate_b) + floor(reqst x rate_st) coins,
    exactly these amounts leave the pools, the rates are recorded as applied and withdraw rates *)
Theorem C03_undelegation_value : forall w self h h' msgs,
  process_undelegations w self h = Some (h', msgs) ->
  let s := h_state h in
  let cb := h_batch h in
  let b_und := cb_reqb cb * hs_ber s / D in
  let st_und := cb_reqst cb * hs_ser s / D in
  hr_undelegated msgs = b_und + st_und /\
  Forall (fun m => exists v c, m = MUndelegate v c) msgs /\
  b_und <= hs_bb s /\ st_und <= hs_bst s /\
  h_state h' = mkHubState (hs_ber s) (hs_ser s) (hs_bb s - b_und) (hs_bst s - st_und)
                          (hs_lim s) (hs_phb s) (e_now (w_env w)) (hs_lpb s) /\
  h_batch h' = mkBatch (cb_id cb + 1) 0 0 /\
  get N.eqb (h_hist h') (cb_id cb) =
    Some (mkHist (e_now (w_env w)) (cb_reqb cb) (hs_ber s) (hs_ber s)
                 (cb_reqst cb) (hs_ser s) (hs_ser s) false).
Proof. exact undelegation_value. Qed.

(** Unbond (bSei): either the request is only recorded (rate recomputed over the claims after the
    burn), or it closes the batch; then the bSei rate in the history entry is backing over claims
    including the closing request, and the stSei rate is the synchronised one *)
Theorem C03_unbond_b_cases : forall w h self amount user h' out sb,
  execute_unbond w h self amount user = Some (h', out) ->
  hub_bsei_supply w h = Some sb ->
  exists h1,
    slashing w self h = Some h1 /\
    let s := h_state h1 in
    let cb := h_batch h in
    let fee := if hs_ber s <? hp_thr (h_params h)
               then N.min (amount * hp_pegfee (h_params h) / D) (sb + cb_reqb cb - hs_bb s)
               else 0 in
    let reqb' := cb_reqb cb + (amount - fee) in
    let r1 := rate_of (hs_bb s) (sb - amount + reqb') in
    (h_batch h' = mkBatch (cb_id cb) reqb' (cb_reqst cb) /\ h_state h' = set_ber s r1 /\
     hr_undelegated out = 0)
    \/
    (hp_epoch (h_params h) < e_now (w_env w) - hs_lut s /\
     h_batch h' = mkBatch (cb_id cb + 1) 0 0 /\
     get N.eqb (h_hist h') (cb_id cb) =
       Some (mkHist (e_now (w_env w)) reqb' r1 r1 (cb_reqst cb) (hs_ser s) (hs_ser s) false) /\
     hr_undelegated out = reqb' * r1 / D + cb_reqst cb * hs_ser s / D /\
     hs_bb (h_state h') = hs_bb s - reqb' * r1 / D /\
     hs_bst (h_state h') = hs_bst s - cb_reqst cb * hs_ser s / D).
Proof. exact unbond_b_cases. Qed.

(** ... and what it emits: the undelegations (if any) and one CBurn of the whole amount *)
Theorem C03_unbond_b_effect : forall w h self amount user h' out sb,
  execute_unbond w h self amount user = Some (h', out) ->
  hub_bsei_supply w h = Some sb ->
  exists h1 h2 msgs tok,
    slashing w self h = Some h1 /\
    let s := h_state h1 in
    let cb := h_batch h in
    let fee := if hs_ber s <? hp_thr (h_params h)
               then N.min (amount * hp_pegfee (h_params h) / D) (sb + cb_reqb cb - hs_bb s)
               else 0 in
    let reqb' := cb_reqb cb + (amount - fee) in
    fee <= amount /\ amount <= sb /\
    add_wait h1 user (cb_id cb) true (amount - fee) = Some h2 /\
    maybe_undelegate w self
      (set_h_batch (set_h_state h2 (set_ber s (rate_of (hs_bb s) (sb - amount + reqb'))))
                   (mkBatch (cb_id cb) reqb' (cb_reqst cb))) = Some (h', msgs) /\
    hc_bsei (h_cfg h) = Some tok /\
    out = msgs ++ [MWasm tok (WCw20 (CBurn amount)) []].
Proof. exact unbond_b_effect. Qed.

Theorem C03_unbond_st_cases : forall w h self amount user h' out,
  execute_unbond_stsei w h self amount user = Some (h', out) ->
  exists h1,
    slashing w self h = Some h1 /\
    let s := h_state h1 in
    let cb := h_batch h in
    let reqst' := cb_reqst cb + amount in
    (h_batch h' = mkBatch (cb_id cb) (cb_reqb cb) reqst' /\ h_state h' = s /\
     hr_undelegated out = 0)
    \/
    (hp_epoch (h_params h) < e_now (w_env w) - hs_lut s /\
     h_batch h' = mkBatch (cb_id cb + 1) 0 0 /\
     get N.eqb (h_hist h') (cb_id cb) =
       Some (mkHist (e_now (w_env w)) (cb_reqb cb) (hs_ber s) (hs_ber s)
                    reqst' (hs_ser s) (hs_ser s) false) /\
     hr_undelegated out = cb_reqb cb * hs_ber s / D + reqst' * hs_ser s / D /\
     hs_bb (h_state h') = hs_bb s - cb_reqb cb * hs_ber s / D /\
     hs_bst (h_state h') = hs_bst s - reqst' * hs_ser s / D).
Proof. exact unbond_st_cases. Qed.

Theorem C03_unbond_st_effect : forall w h self amount user h' out,
  execute_unbond_stsei w h self amount user = Some (h', out) ->
  exists h1 h2 msgs tok,
    slashing w self h = Some h1 /\
    let cb := h_batch h in
    add_wait h1 user (cb_id cb) false amount = Some h2 /\
    maybe_undelegate w self
      (set_h_batch h2 (mkBatch (cb_id cb) (cb_reqb cb) (cb_reqst cb + amount))) = Some (h', msgs) /\
    hc_stsei (h_cfg h) = Some tok /\
    out = msgs ++ [MWasm tok (WCw20 (CBurn amount)) []].
Proof. exact unbond_st_effect. Qed.

(** the rates used by the handlers are the synchronised ones: after the first step of every
    handler the stored rates are backing over claims (bonded, booked hub) *)
Theorem C03_slashing_synced : forall w self h h1,
  slashing w self h = Some h1 ->
  all_delegations (w_env w) self <> [] -> 0 < booked h ->
  exists sb ss, hub_bsei_supply w h = Some sb /\ hub_stsei_supply w h = Some ss /\
    hs_ber (h_state h1) = rate_of (hs_bb (h_state h1)) (sb + cb_reqb (h_batch h1)) /\
    hs_ser (h_state h1) = rate_of (hs_bst (h_state h1)) (ss + cb_reqst (h_batch h1)).
Proof. exact slashing_synced. Qed.

(** *** 5. every rounding is in the pool's favour *)

Theorem C03_round_mint : forall p r fee, (p * D / r - fee) * r <= p * D.
Proof. exact round_mint. Qed.

Theorem C03_round_value : forall a fee r, (a - fee) * r / D * D <= a * r.
Proof. exact round_value. Qed.

Theorem C03_bond_b_rounding : forall w h self sender funds h' out sb,
  execute_bond w h self sender funds BkB = Some (h', out) ->
  hub_bsei_supply w h = Some sb ->
  exists h1 p dmsgs tok mint,
    slashing w self h = Some h1 /\ funds = [(hp_underlying (h_params h), p)] /\
    out = dmsgs ++ [MWasm tok (WCw20 (CMint sender mint)) []] /\
    mint * hs_ber (h_state h1) <= p * D.
Proof. exact bond_b_rounding. Qed.

Theorem C03_bond_st_rounding : forall w h self sender funds h' out,
  execute_bond w h self sender funds BkSt = Some (h', out) ->
  exists h1 p dmsgs tok mint,
    slashing w self h = Some h1 /\ funds = [(hp_underlying (h_params h), p)] /\
    out = dmsgs ++ [MWasm tok (WCw20 (CMint sender mint)) []] /\
    mint * hs_ser (h_state h1) <= p * D.
Proof. exact bond_st_rounding. Qed.

Theorem C03_convert_st_b_rounding : forall w h self amount user h' out sb ss,
  convert_stsei_bsei w h self amount user = Some (h', out) ->
  hub_bsei_supply w h = Some sb -> hub_stsei_supply w h = Some ss ->
  exists h1 stok btok mint,
    slashing w self h = Some h1 /\
    out = [MWasm btok (WCw20 (CMint user mint)) []; MWasm stok (WCw20 (CBurn amount)) []] /\
    let d := hs_bb (h_state h') - hs_bb (h_state h1) in
    hs_bst (h_state h') = hs_bst (h_state h1) - d /\ d <= hs_bst (h_state h1) /\
    d * D <= amount * hs_ser (h_state h1) /\ mint * hs_ber (h_state h1) <= d * D.
Proof. exact convert_st_b_rounding. Qed.

Theorem C03_convert_b_st_rounding : forall w h self amount user h' out sb ss,
  convert_bsei_stsei w h self amount user = Some (h', out) ->
  hub_bsei_supply w h = Some sb -> hub_stsei_supply w h = Some ss ->
  exists h1 stok btok mint,
    slashing w self h = Some h1 /\
    out = [MWasm stok (WCw20 (CMint user mint)) []; MWasm btok (WCw20 (CBurn amount)) []] /\
    let d := hs_bst (h_state h') - hs_bst (h_state h1) in
    hs_bb (h_state h') = hs_bb (h_state h1) - d /\ d <= hs_bb (h_state h1) /\
    d * D <= amount * hs_ber (h_state h1) /\ mint * hs_ser (h_state h1) <= d * D.
Proof. exact convert_b_st_rounding. Qed.

Theorem C03_undelegation_rounding : forall w self h h' msgs,
  process_undelegations w self h = Some (h', msgs) ->
  hr_undelegated msgs * D <=
    cb_reqb (h_batch h) * hs_ber (h_state h) + cb_reqst (h_batch h) * hs_ser (h_state h).
Proof. exact undelegation_rounding. Qed.

Print Assumptions C03_exchange_rate_is_rate_of.
Print Assumptions C03_exchange_rate_total.
Print Assumptions C03_reported_rate.
Print Assumptions C03_reported_rate_total.
Print Assumptions C03_actual_is_delegated.
Print Assumptions C03_sync_pools_sum.
Print Assumptions C03_reported_rate_nodeleg.
Print Assumptions C03_reported_rate_unbooked.
Print Assumptions C03_bond_b_mints.
Print Assumptions C03_delegate_msgs_only_delegate.
Print Assumptions C03_bond_st_mints.
Print Assumptions C03_bond_rw_mints.
Print Assumptions C03_bond_rejects_empty.
Print Assumptions C03_bond_rejects_zero.
Print Assumptions C03_bond_rejects_denom.
Print Assumptions C03_bond_rejects_two.
Print Assumptions C03_mint_zero_rejected.
Print Assumptions C03_mint_zero_rejected_bsei.
Print Assumptions C03_mint_zero_rejected_stsei.
Print Assumptions C03_convert_st_b_prices.
Print Assumptions C03_convert_b_st_prices.
Print Assumptions C03_undelegation_value.
Print Assumptions C03_unbond_b_cases.
Print Assumptions C03_unbond_b_effect.
Print Assumptions C03_unbond_st_cases.
Print Assumptions C03_unbond_st_effect.
Print Assumptions C03_slashing_synced.
Print Assumptions C03_round_mint.
Print Assumptions C03_round_value.
Print Assumptions C03_bond_b_rounding.
Print Assumptions C03_bond_st_rounding.
Print Assumptions C03_convert_st_b_rounding.
Print Assumptions C03_convert_b_st_rounding.
Print Assumptions C03_undelegation_rounding.
