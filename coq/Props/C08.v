(** C08 — Unbonding time-lock holds and the batch lifecycle only moves forward.
    Property theorems only (proofs: Proofs/ClaimsStep.v, Proofs/LifeP.v, Proofs/LifeLock.v).

    Vocabulary (definitions in those files):
    - [HistShape h]   : 1 <= open batch id, history ids are exactly 1 .. id-1 in ascending order;
    - [LifeInv h]     : [HistShape]; last_processed_batch < open batch id; an entry is released iff
                        its id <= last_processed_batch; undelegation times strictly increase with the
                        id, are <= last_unbonded_time, and the newest equals last_unbonded_time;
    - [closed_batch w h h'] : the call closed the open batch of [h]: last_unbonded_time <= now and
                        epoch_period < now - last_unbonded_time (strict), the batch becomes
                        (id+1, 0, 0), last_unbonded_time = now, and the history gains exactly the entry
                        for the old id, stamped [now], unreleased, withdraw rates = applied rates;
    - [released_version e e'] : [e'] equals [e] except for the two withdraw rates and released = true;
    - [undelegated_sum out]   : total amount of the Undelegate messages in [out];
    - [paid_entry hist bx v]  : the batch of wait entry [bx] is released in [hist] and [v] is the entry
                        valued at that batch's withdraw rates; [released_at hist b]: batch b released;
    - [sets_unbonding m]      : [m] is a hub UpdateParams carrying an unbonding_period;
      [unbonding_fixed U ops w] (envelope E2): along the history no executed message sets the
                        unbonding period and every hub instantiation uses [U];
    - [keeps_hub o]           : [o] is neither OReset nor a hub (re-)instantiation.
    [LifeInv] holds in every world reached by ANY history (no envelope hypothesis at all). *)
From Krp Require Import Tactics Prelude Fixed FMap Types Env Registry Cw20 Reward Dispatcher Hub Exec
     ExecP HubFrame ClaimsStep ClaimsP LifeP LifeLock.
Open Scope N_scope.

(** *** the lifecycle invariant *)
Theorem C08_instantiate :
  forall sender now epoch unbonding pegfee thr updater underlying rdenom h,
  hub_instantiate sender now epoch unbonding pegfee thr updater underlying rdenom = Some h -> LifeInv h.
Proof. exact life_inv_instantiate. Qed.

Theorem C08_execute_preserves : forall w h self sender funds m h' out,
  LifeInv h -> hub_execute w h self sender funds m = Some (h', out) -> LifeInv h'.
Proof. exact life_inv_execute. Qed.

Theorem C08_invariant_reachable : forall ut ops h,
  w_hub (run_ops ops (empty_world ut)) = Some h -> LifeInv h.
Proof. exact LifeInv_reachable. Qed.

(** block time never decreases: no message of a transaction changes it, and no operation of a
    history lowers it (OReset starts a new chain) *)
Theorem C08_time_fixed_within_tx : forall w s m w' out,
  step_msg w s m = Some (w', out) -> e_now (w_env w') = e_now (w_env w).
Proof. exact step_msg_now. Qed.

Theorem C08_time_monotone : forall w o,
  (forall ut, o <> OReset ut) -> e_now (w_env w) <= e_now (w_env (fst (step w o))).
Proof. exact step_now_monotone. Qed.

(** *** undelegation: at most once per batch, only after more than one epoch *)
Theorem C08_undelegate_once : forall w h self sender funds m h' out,
  hub_execute w h self sender funds m = Some (h', out) ->
  (exists x, In x out /\ is_undelegate x = true) ->
  (exists user amount, m = HReceive user amount HkUnbond) /\ closed_batch w h h'.
Proof. exact undelegate_once. Qed.

Theorem C08_close_only_after_epoch : forall w h self sender funds m h' out,
  hub_execute w h self sender funds m = Some (h', out) ->
  cb_id (h_batch h') <> cb_id (h_batch h) ->
  (exists user amount, m = HReceive user amount HkUnbond) /\ closed_batch w h h'.
Proof. exact close_only_after_epoch. Qed.

Theorem C08_batch_id_monotone : forall w h self sender funds m h' out,
  hub_execute w h self sender funds m = Some (h', out) ->
  cb_id (h_batch h') = cb_id (h_batch h) \/ cb_id (h_batch h') = cb_id (h_batch h) + 1.
Proof. exact batch_id_monotone. Qed.

Theorem C08_undelegation_spacing : forall w h self sender funds m h' out e_prev e_new,
  LifeInv h -> hub_execute w h self sender funds m = Some (h', out) ->
  cb_id (h_batch h') <> cb_id (h_batch h) ->
  get N.eqb (h_hist h) (cb_id (h_batch h) - 1) = Some e_prev ->
  get N.eqb (h_hist h') (cb_id (h_batch h)) = Some e_new ->
  he_time e_prev + hp_epoch (h_params h) < he_time e_new.
Proof. exact undelegation_spacing. Qed.

(** the amount undelegated for a batch = its requests valued at the rates recorded in its entry *)
Theorem C08_undelegated_amount : forall w h self sender funds m h' out,
  hub_execute w h self sender funds m = Some (h', out) ->
  cb_id (h_batch h') <> cb_id (h_batch h) ->
  exists e bund sund,
    get N.eqb (h_hist h') (cb_id (h_batch h)) = Some e /\
    mulU (he_samt e) (he_sapplied e) = Some sund /\ mulU (he_bamt e) (he_bapplied e) = Some bund /\
    undelegated_sum out = bund + sund /\
    he_bapplied e = hs_ber (h_state h') /\ he_sapplied e = hs_ser (h_state h').
Proof. exact undelegated_amount. Qed.

(** *** history entries: written once, released once, then immutable *)
Theorem C08_hist_entry_step : forall w h self sender funds m h' out i e,
  HistShape h -> hub_execute w h self sender funds m = Some (h', out) ->
  get N.eqb (h_hist h) i = Some e ->
  get N.eqb (h_hist h') i = Some e \/
  (m = HWithdraw /\ he_released e = false /\
   hs_lpb (h_state h) < i <= hs_lpb (h_state h') /\
   hp_unbonding (h_params h) <= e_now (w_env w) /\
   he_time e + hp_unbonding (h_params h) <= e_now (w_env w) /\
   exists e', get N.eqb (h_hist h') i = Some e' /\ released_version e e').
Proof. exact hist_entry_step. Qed.

Theorem C08_released_immutable : forall w h self sender funds m h' out i e,
  HistShape h -> hub_execute w h self sender funds m = Some (h', out) ->
  get N.eqb (h_hist h) i = Some e -> (he_released e = true \/ i <= hs_lpb (h_state h)) ->
  get N.eqb (h_hist h') i = Some e.
Proof. exact released_immutable. Qed.

(** along any history that does not replace the hub instance, a released entry is found, identical,
    in every later world *)
Theorem C08_released_forever : forall i e, he_released e = true -> forall ops w,
  forallb keeps_hub ops = true ->
  (exists h, w_hub w = Some h /\ LifeInv h /\ get N.eqb (h_hist h) i = Some e) ->
  (exists h, w_hub (run_ops ops w) = Some h /\ LifeInv h /\ get N.eqb (h_hist h) i = Some e).
Proof. exact released_forever. Qed.

(** *** the time-lock *)
Theorem C08_release_after_period : forall w h self sender funds m h' out i e e',
  HistShape h -> hub_execute w h self sender funds m = Some (h', out) ->
  get N.eqb (h_hist h) i = Some e -> he_released e = false ->
  get N.eqb (h_hist h') i = Some e' -> he_released e' = true ->
  m = HWithdraw /\ hp_unbonding (h_params h) <= e_now (w_env w) /\
  he_time e + hp_unbonding (h_params h) <= e_now (w_env w) /\
  hs_lpb (h_state h) < i <= hs_lpb (h_state h') /\ released_version e e'.
Proof. exact release_after_period. Qed.

(** boundary second, early side: before time + unbonding_period no message releases the batch *)
Theorem C08_release_not_early : forall w h self sender funds m h' out i e,
  HistShape h -> hub_execute w h self sender funds m = Some (h', out) ->
  get N.eqb (h_hist h) i = Some e -> he_released e = false ->
  e_now (w_env w) < he_time e + hp_unbonding (h_params h) ->
  get N.eqb (h_hist h') i = Some e.
Proof. exact release_not_early. Qed.

(** boundary second, late side: from time + unbonding_period on, an accepted WithdrawUnbonded
    releases the batch next in line *)
Theorem C08_release_at_boundary : forall w h self sender funds h' out e,
  hub_execute w h self sender funds HWithdraw = Some (h', out) ->
  get N.eqb (h_hist h) (hs_lpb (h_state h) + 1) = Some e -> he_released e = false ->
  he_time e + hp_unbonding (h_params h) <= e_now (w_env w) ->
  exists e', get N.eqb (h_hist h') (hs_lpb (h_state h) + 1) = Some e' /\ released_version e e' /\
             hs_lpb (h_state h) + 1 <= hs_lpb (h_state h').
Proof. exact release_at_boundary. Qed.

(** both sides on a concrete chain (epoch 30 s, unbonding 100 s, batch 1 undelegated at 1000031):
    at 1000130 the withdrawal is rejected, at 1000131 it is paid *)
Theorem C08_release_boundary_example :
  (let w := run_ops [OAdvance 99] cx_w2 in
   e_now (w_env w) = 1000031 + 100 - 1 /\
   step w (OTx cx_alice A_hub (WHub HWithdraw) []) = (w, (false, []))) /\
  (let w := run_ops [OAdvance 100] cx_w2 in
   e_now (w_env w) = 1000031 + 100 /\
   snd (step w (OTx cx_alice A_hub (WHub HWithdraw) []))
   = (true, [(cx_alice, MWasm A_hub (WHub HWithdraw) []); (A_hub, MBank cx_alice [(usei, 20816)])])).
Proof. exact example_release_boundary. Qed.

(** a withdrawal pays exactly the sender's wait entries of batches that are released (in the state
    after the call); no other hub message emits a Bank message *)
Theorem C08_no_pay_before_release : forall w h self sender funds h' out,
  hub_execute w h self sender funds HWithdraw = Some (h', out) ->
  exists amount vs,
    out = [MBank sender [(hp_underlying (h_params h), amount)]] /\ amount <> 0 /\
    Forall2 (paid_entry (h_hist h'))
            (filter (fun bx => released_at (h_hist h') (fst bx)) (user_waits h sender)) vs /\
    amount = sumN vs.
Proof. exact no_pay_before_release. Qed.

Theorem C08_bank_only_by_withdraw : forall w h self sender funds m h' out x,
  hub_execute w h self sender funds m = Some (h', out) -> In x out -> is_bank x = true ->
  m = HWithdraw.
Proof. exact bank_only_by_withdraw. Qed.

(** history level, envelope E2 (unbonding period [U] never changed): in every reached world every
    released batch was undelegated at least [U] seconds ago ... *)
Theorem C08_timelock_reachable : forall U ut ops,
  unbonding_fixed U ops (empty_world ut) ->
  forall h, w_hub (run_ops ops (empty_world ut)) = Some h ->
    hp_unbonding (h_params h) = U /\
    forall i e, get N.eqb (h_hist h) i = Some e -> he_released e = true ->
                he_time e + U <= e_now (w_env (run_ops ops (empty_world ut))).
Proof. exact timelock_reachable. Qed.

(** ... and a withdrawal in such a world pays only for batches with time + U <= now *)
Theorem C08_withdraw_pays_only_matured : forall U w h self sender funds h' out,
  LifeInv h -> hp_unbonding (h_params h) = U ->
  (forall i e, get N.eqb (h_hist h) i = Some e -> he_released e = true -> he_time e + U <= e_now (w_env w)) ->
  hub_execute w h self sender funds HWithdraw = Some (h', out) ->
  exists amount vs,
    out = [MBank sender [(hp_underlying (h_params h), amount)]] /\ amount <> 0 /\
    Forall2 (fun bx v => exists e, get N.eqb (h_hist h') (fst bx) = Some e /\ he_released e = true /\
                                   he_time e + U <= e_now (w_env w) /\
                                   claim_value e (snd bx) = Some v)
            (filter (fun bx => released_at (h_hist h') (fst bx)) (user_waits h sender)) vs /\
    amount = sumN vs.
Proof. exact withdraw_pays_only_matured. Qed.

Print Assumptions C08_instantiate.
Print Assumptions C08_execute_preserves.
Print Assumptions C08_invariant_reachable.
Print Assumptions C08_time_fixed_within_tx.
Print Assumptions C08_time_monotone.
Print Assumptions C08_undelegate_once.
Print Assumptions C08_close_only_after_epoch.
Print Assumptions C08_batch_id_monotone.
Print Assumptions C08_undelegation_spacing.
Print Assumptions C08_undelegated_amount.
Print Assumptions C08_hist_entry_step.
Print Assumptions C08_released_immutable.
Print Assumptions C08_released_forever.
Print Assumptions C08_release_after_period.
Print Assumptions C08_release_not_early.
Print Assumptions C08_release_at_boundary.
Print Assumptions C08_release_boundary_example.
Print Assumptions C08_no_pay_before_release.
Print Assumptions C08_bank_only_by_withdraw.
Print Assumptions C08_timelock_reachable.
Print Assumptions C08_withdraw_pays_only_matured.
