(** C01 (arrival identity, history level) — "The total paid for a set of batches released together
    never exceeds the coins that actually arrived from undelegation (after any slashing of the
    unbonding stake) and, absent slashing and unsolicited transfers, falls short of it by no more
    than a few base units of rounding dust per batch and claim."
    Props/C01.v proves the release arithmetic for ANY amount A = bank(hub) - prev_hub_balance of
    arriving coins; this file proves that in every world reached by a history A really is what the
    staking module delivered for exactly the batches of the release group (post-slashing amounts)
    plus unsolicited transfers.  Property theorems only (proofs: Proofs/ArrivalEnv.v,
    Proofs/ArrivalSums.v, Proofs/Arrival.v).  Appended to the C01 claim.

    Named objects (definitions in the proof files; GR_*, WD_* as in Props/C01.v)
    - the hub's unbonding entries held by the staking module ([e_unb], delegator = A_hub):
      [Arr_usum P e]       sum of the CURRENT (post-slashing) amounts of those whose completion time
                           satisfies [P];  [Arr_fle e T] = completion <= T;  [Arr_inflight e] = all;
      [Arr_und_amt (s,m)]  the amount of [m] if it is an Undelegate message sent by the hub, else 0;
    - the hub's unbonding history, read in world [w] (now = block time, ut = CHAIN unbonding time):
      [GR_batch_value e]   floor(samt*swithdraw/1e18) + floor(bamt*bwithdraw/1e18); for an unreleased
                           entry this is "the coins undelegated for the batch": its requests valued
                           at the recorded rates = the sum of its Undelegate messages (C01a_closing_value);
      [Arr_W P w]          sum of GR_batch_value over history entries with now < time + ut (still
                           unbonding) and P (time + ut);
      [Arr_M P w]          ... over unreleased entries with time + ut <= now (matured) and P (time + ut);
      [Arr_U w]            ... over all unreleased entries;  [Arr_phb w] prev_hub_balance, 0 if no hub;
      [Arr_all]            the window that accepts every completion time;
    - [Arr_rel ex x y]     x = y if ex = true, x <= y if ex = false.  ex = true is used for histories
                           in which no slashing event touches unbonding entries.
    - [Arr_HubInv w]       if the hub exists: LifeInv h (C08: ids 1..cb_id-1, released = prefix
                           1..last_processed_batch, undelegation times strictly increasing) and every
                           released entry has time + ut <= now;
      [Arr_Inv ex w]       Arr_HubInv w /\ forall P, Arr_rel ex (Arr_usum P env) (Arr_W P w);
      [Arr_J ex phb0 M0 w stack]  the same inside a transaction, the pending Undelegate messages of
                           the hub ([Arr_PU stack]) counted as in flight for the window containing
                           now + ut; no pending call of the hub's WithdrawUnbonded ([Arr_nw]);
                           prev_hub_balance = phb0 and Arr_M = M0 unchanged.
    - ghosts, computed along the history by [Arr_gfold P ops w0 g0] (step function [Arr_gstep]):
      [ag_arr]   at every successful OAdvance dt add Arr_usum (t <= now + dt /\ P t) of the world before
                 the advance — by C01a_advance_delivers exactly the coins the staking module then credits
                 to the hub for entries with completion time in P;
      [ag_gift]  at every OGift to (A_hub, usei) add the amount;
      both restart at 0 at OReset and at every SUCCESSFUL transaction whose root is the hub's
      WithdrawUnbonded (which sets prev_hub_balance := balance - payment);
      [Arr_All ex P w g]   Arr_Inv ex w /\ Arr_rel ex (ag_arr g) (Arr_M P w);
      [Arr_BalR q w g]     Arr_rel q (Arr_phb w + ag_arr g + ag_gift g) (bal A_hub usei).
    - envelope, per visited world:
      [Arr_Env0 w]   E2/E4: 0 < chain unbonding time, and if the hub exists its underlying coin is usei and
                     its unbonding_period equals the chain unbonding time;
      [Arr_Env w]    Arr_NR (w_env w) /\ Arr_Env0 w, [Arr_NR e] = staking rewards in usei never accrue to
                     a delegator whose withdraw address is the hub (E4: rewards go to the dispatcher);
    - envelope, per operation:
      [Arr_opok0 ex w o]  a transaction is not signed by the hub's own address (contracts hold no
                     keys, cf. C01w_hub_root_witness); OInstHub only while no hub exists (an address is
                     instantiated once); if ex = true an OSlash does not touch unbonding entries;
      [Arr_giftfree w o]  every message executed by the transaction satisfies [no_gift] (C02): it hands
                     no usei to the hub except as the payment of Bond/BondForStSei/BondRewards, and
                     does not redirect rewards to the hub — unsolicited transfers are then exactly
                     the OGift operations, which the ghost counts;
      [Arr_opok ex w o] = both;  [Arr_ok0], [Arr_ok] = the same for every operation of the history in
                     the world where it executes;  [Arr_nogift o]: o is not a gift of usei to the hub.
      [Arr_check gf ex ops w0]: boolean check of the whole envelope of a concrete history
                     (gf = true: Arr_Env/Arr_ok, gf = false: Arr_Env0/Arr_ok0).
    E3 (delivery) is a property of the environment model, proved here as C01a_advance_delivers.
    Not needed: E1 magnitudes, wiring of the other contracts, E6 (legacy wait list). *)
From Krp Require Import Tactics Prelude Fixed FMap Types Env Registry Cw20 Reward Dispatcher Hub Exec
     ExecP Hist ClaimsStep ClaimsP LifeP GroupRelease WithdrawP BooksEnv BooksLiquid
     ArrivalEnv ArrivalSums Arrival.
Open Scope N_scope.

(** *** A. (2) separation by time and in-flight conservation — no ghosts, general envelope *)

(** in every reached world: C08 invariant, released batches are a full unbonding time old, and for
    EVERY window P of completion times the hub's in-flight coins completing in P are (exactly / at
    most) the coins undelegated for the still-unbonding batches completing in P *)
Theorem C01a_inflight_invariant : forall ex ut ops,
  always Arr_Env0 ops (empty_world ut) -> Arr_ok0 ex ops (empty_world ut) ->
  let w := run_ops ops (empty_world ut) in
  Arr_HubInv w /\ forall P, Arr_rel ex (Arr_usum P (w_env w)) (Arr_W P w).
Proof. exact Arr_inflight_reachable. Qed.

(** spelled out: nothing that has completed is still held by the staking module; every in-flight
    coin belongs to a still-unbonding batch; the entries of batch i complete at time_i + unbonding
    time and carry (exactly / at most) its undelegated coins; released = old enough = prefix *)
Theorem C01a_separation : forall ex ut ops,
  always Arr_Env0 ops (empty_world ut) -> Arr_ok0 ex ops (empty_world ut) ->
  let w := run_ops ops (empty_world ut) in
  let now := e_now (w_env w) in
  let cut := e_ut (w_env w) in
  Arr_fle (w_env w) now = 0 /\
  (forall P, (forall h i e, w_hub w = Some h -> get N.eqb (h_hist h) i = Some e ->
                            now < he_time e + cut -> P (he_time e + cut) = false) ->
             Arr_usum P (w_env w) = 0) /\
  forall h i e, w_hub w = Some h -> get N.eqb (h_hist h) i = Some e ->
    Arr_rel ex (Arr_usum (fun t => t =? he_time e + cut) (w_env w))
               (if now <? he_time e + cut then GR_batch_value e else 0) /\
    (he_released e = true -> he_time e + cut <= now) /\
    (he_released e = true <-> i <= hs_lpb (h_state h)).
Proof. exact Arr_separation. Qed.

(** *** B. (1) conservation *)

(** gift-free envelope: balance + in-flight = prev_hub_balance + coins undelegated for all unreleased
    batches + gifts since the last withdrawal (ex = true); "<=" when unbonding entries are slashed *)
Theorem C01a_conservation : forall ex ut ops,
  always Arr_Env ops (empty_world ut) -> Arr_ok ex ops (empty_world ut) ->
  let w := run_ops ops (empty_world ut) in
  let g := Arr_gfold Arr_all ops (empty_world ut) ag_zero in
  Arr_rel ex (bal (w_env w) A_hub usei + Arr_inflight (w_env w)) (Arr_phb w + Arr_U w + ag_gift g).
Proof. exact Arr_conservation. Qed.

(** general envelope without slashing of unbonding entries (in-transaction transfers to the hub and
    rewards paid to the hub allowed): unsolicited coins only add to the left-hand side *)
Theorem C01a_conservation_ge : forall ut ops,
  always Arr_Env0 ops (empty_world ut) -> Arr_ok0 true ops (empty_world ut) ->
  let w := run_ops ops (empty_world ut) in
  let g := Arr_gfold Arr_all ops (empty_world ut) ag_zero in
  Arr_phb w + Arr_U w + ag_gift g <= bal (w_env w) A_hub usei + Arr_inflight (w_env w).
Proof. exact Arr_conservation_ge. Qed.

(** *** C. (3) the arrival identity *)

(** general envelope: the coins delivered since the last withdrawal (and the gifts) are in the balance
    on top of prev_hub_balance; they are (exactly / at most) what the release group of a withdrawal
    at this block time expects; and this holds window by window *)
Theorem C01a_delivered_group : forall ex ut ops,
  always Arr_Env0 ops (empty_world ut) -> Arr_ok0 ex ops (empty_world ut) ->
  let w := run_ops ops (empty_world ut) in
  let g := Arr_gfold Arr_all ops (empty_world ut) ag_zero in
  forall h, w_hub w = Some h ->
    let grp := GR_group h (e_now (w_env w) - hp_unbonding (h_params h)) in
    hs_phb (h_state h) + ag_arr g + ag_gift g <= bal (w_env w) A_hub usei /\
    (hp_unbonding (h_params h) <= e_now (w_env w) ->
     Arr_rel ex (ag_arr g) (GR_tot_s grp + GR_tot_b grp)) /\
    (forall P, Arr_rel ex (ag_arr (Arr_gfold P ops (empty_world ut) ag_zero)) (Arr_M P w)).
Proof. exact Arr_delivered_group. Qed.

(** batch by batch: the coins delivered from entries completing at time_i + unbonding time are
    (exactly / at most) the coins undelegated for batch i if it is unreleased and matured — i.e. in
    the release group — and none otherwise; no coin is delivered at any other completion time:
    the hub cannot count coins of other batches as arrival *)
Theorem C01a_delivered_per_batch : forall ex ut ops,
  always Arr_Env0 ops (empty_world ut) -> Arr_ok0 ex ops (empty_world ut) ->
  let w := run_ops ops (empty_world ut) in
  let now := e_now (w_env w) in
  let cut := e_ut (w_env w) in
  (forall h i e, w_hub w = Some h -> get N.eqb (h_hist h) i = Some e ->
     Arr_rel ex (ag_arr (Arr_gfold (fun t => t =? he_time e + cut) ops (empty_world ut) ag_zero))
                (if negb (he_released e) && (he_time e + cut <=? now) then GR_batch_value e else 0)) /\
  (forall P, (forall h i e, w_hub w = Some h -> get N.eqb (h_hist h) i = Some e ->
                            he_released e = false -> he_time e + cut <= now -> P (he_time e + cut) = false) ->
             ag_arr (Arr_gfold P ops (empty_world ut) ag_zero) = 0).
Proof. exact Arr_delivered_per_batch. Qed.

(** gift-free envelope: what the next release treats as arrived, balance - prev_hub_balance, IS the
    coins delivered for the group (after slashing of their unbonding entries) plus the gifts *)
Theorem C01a_arrival_identity : forall ex ut ops,
  always Arr_Env ops (empty_world ut) -> Arr_ok ex ops (empty_world ut) ->
  let w := run_ops ops (empty_world ut) in
  let g := Arr_gfold Arr_all ops (empty_world ut) ag_zero in
  forall h, w_hub w = Some h ->
    let grp := GR_group h (e_now (w_env w) - hp_unbonding (h_params h)) in
    bal (w_env w) A_hub usei = hs_phb (h_state h) + ag_arr g + ag_gift g /\
    (hp_unbonding (h_params h) <= e_now (w_env w) ->
     Arr_rel ex (ag_arr g) (GR_tot_s grp + GR_tot_b grp)) /\
    (forall P, Arr_rel ex (ag_arr (Arr_gfold P ops (empty_world ut) ag_zero)) (Arr_M P w)).
Proof. exact Arr_arrival_identity. Qed.

(** the release performed by a WithdrawUnbonded executed in [w] (no usei attached) uses exactly that
    difference: it releases GR_group with A = bal(hub) - prev_hub_balance (or nothing if the group
    is empty) *)
Theorem C01a_release_uses_arrival : forall w h s funds w1 out,
  w_hub w = Some h -> hp_underlying (h_params h) = usei -> s <> A_hub ->
  BooksEnv.coin_amt usei funds = 0 ->
  step_msg w s (MWasm A_hub (WHub HWithdraw) funds) = Some (w1, out) ->
  let balance := bal (w_env w) A_hub usei in
  let grp := GR_group h (e_now (w_env w) - hp_unbonding (h_params h)) in
  exists h1,
    process_withdraw_rate h (e_now (w_env w) - hp_unbonding (h_params h)) balance = Some h1 /\
    w_hub w1 = Some (WD_paid h1 s balance) /\
    ((grp = [] /\ h1 = h) \/
     (grp <> [] /\ hs_phb (h_state h) <= balance /\ h1 = GR_after h grp (balance - hs_phb (h_state h)))).
Proof. exact Arr_release_uses_arrival. Qed.

(** *** D. the two sentences of the property *)

(** Corollary A (gift-free envelope, any slashing): the total value credited to the batches released
    together <= coins delivered for them (post-slashing) + gifts, and the delivered coins never
    exceed what the group expected *)
Theorem C01a_never_exceeds : forall ut ops,
  always Arr_Env ops (empty_world ut) -> Arr_ok false ops (empty_world ut) ->
  let w := run_ops ops (empty_world ut) in
  let g := Arr_gfold Arr_all ops (empty_world ut) ag_zero in
  forall h, w_hub w = Some h ->
    let grp := GR_group h (e_now (w_env w) - hp_unbonding (h_params h)) in
    let A := bal (w_env w) A_hub usei - hs_phb (h_state h) in
    hs_phb (h_state h) <= bal (w_env w) A_hub usei /\
    A = ag_arr g + ag_gift g /\
    (hp_unbonding (h_params h) <= e_now (w_env w) -> ag_arr g <= GR_tot_s grp + GR_tot_b grp) /\
    (GR_E1' grp A ->
     sumN (map (fun ie => GR_batch_value (snd ie)) (GR_release grp A)) <= ag_arr g + ag_gift g).
Proof. exact Arr_release_never_exceeds. Qed.

(** ... in the general envelope the unsolicited part of A is not itemised: A >= delivered + gifts *)
Theorem C01a_never_exceeds_general : forall ut ops,
  always Arr_Env0 ops (empty_world ut) -> Arr_ok0 false ops (empty_world ut) ->
  let w := run_ops ops (empty_world ut) in
  let g := Arr_gfold Arr_all ops (empty_world ut) ag_zero in
  forall h, w_hub w = Some h ->
    let grp := GR_group h (e_now (w_env w) - hp_unbonding (h_params h)) in
    let A := bal (w_env w) A_hub usei - hs_phb (h_state h) in
    hs_phb (h_state h) <= bal (w_env w) A_hub usei /\
    ag_arr g + ag_gift g <= A /\
    (hp_unbonding (h_params h) <= e_now (w_env w) -> ag_arr g <= GR_tot_s grp + GR_tot_b grp) /\
    (GR_E1' grp A -> sumN (map (fun ie => GR_batch_value (snd ie)) (GR_release grp A)) <= A).
Proof. exact Arr_release_never_exceeds_general. Qed.

(** Corollary B (no slashing of unbonding entries, no unsolicited transfers): the arriving coins are
    exactly what the group expects, every batch is credited exactly its expectation and the group
    falls short of the arrived coins by at most 2 base units per batch *)
Theorem C01a_no_loss_exact : forall ut ops,
  always Arr_Env ops (empty_world ut) -> Arr_ok true ops (empty_world ut) ->
  forallb Arr_nogift ops = true ->
  let w := run_ops ops (empty_world ut) in
  forall h, w_hub w = Some h -> hp_unbonding (h_params h) <= e_now (w_env w) ->
    let grp := GR_group h (e_now (w_env w) - hp_unbonding (h_params h)) in
    let A := bal (w_env w) A_hub usei - hs_phb (h_state h) in
    hs_phb (h_state h) <= bal (w_env w) A_hub usei /\
    A = GR_tot_s grp + GR_tot_b grp /\
    (A <= D ->
     GR_release grp A = map (fun ie => (fst ie, GR_rel_exact (snd ie))) grp /\
     ((forall ie, In ie grp -> he_samt (snd ie) <= D /\ he_bamt (snd ie) <= D) ->
      A <= sumN (map (fun ie => GR_batch_value (snd ie)) (GR_release grp A)) + 2 * N.of_nat (length grp))).
Proof. exact Arr_release_exact. Qed.

(** *** E. how the invariants are kept: operations, transactions, messages *)

Theorem C01a_operation_preserves : forall ex P w o g,
  Arr_Env0 w -> Arr_opok0 ex w o -> Arr_All ex P w g ->
  Arr_All ex P (fst (step w o)) (Arr_gstep P w o g).
Proof. exact Arr_step_All. Qed.

(** the balance identity (q = true: needs Arr_NR and Arr_giftfree) / inequality (q = false) *)
Theorem C01a_operation_balance : forall q ex w o g,
  Arr_Env0 w -> Arr_opok0 ex w o -> (q = true -> Arr_NR (w_env w) /\ Arr_giftfree w o) ->
  Arr_Inv ex w -> Arr_BalR q w g ->
  Arr_BalR q (fst (step w o)) (Arr_gstep Arr_all w o g).
Proof. exact Arr_step_BalR. Qed.

(** a successful WithdrawUnbonded transaction: afterwards the balance equals prev_hub_balance and no
    unreleased batch is matured — every matured batch was in the release group *)
Theorem C01a_withdraw_tx : forall ex w s funds w' tr,
  s <> A_hub -> Arr_Env0 w -> Arr_Inv ex w ->
  run tx_fuel w [(s, MWasm A_hub (WHub HWithdraw) funds)] [] = Some (w', tr) ->
  Arr_Inv ex w' /\ bal (w_env w') A_hub usei = Arr_phb w' /\ forall P, Arr_M P w' = 0.
Proof. exact Arr_tx_W. Qed.

(** any other transaction executes no WithdrawUnbonded of the hub, keeps prev_hub_balance and the
    matured batches, and keeps the in-flight invariant *)
Theorem C01a_other_tx : forall ex w s target m funds w' tr,
  Arr_nwb (MWasm target m funds) = true -> 0 < e_ut (w_env w) -> Arr_Inv ex w ->
  run tx_fuel w [(s, MWasm target m funds)] [] = Some (w', tr) ->
  Arr_Inv ex w' /\ Arr_phb w' = Arr_phb w /\ (forall P, Arr_M P w' = Arr_M P w) /\ Forall Arr_nw tr.
Proof. exact Arr_tx_N. Qed.

Theorem C01a_message_preserves : forall ex phb0 M0 w s m rest w' out,
  Arr_J ex phb0 M0 w ((s, m) :: rest) -> step_msg w s m = Some (w', out) ->
  Arr_J ex phb0 M0 w' (out ++ rest).
Proof. exact Arr_step_J. Qed.

(** *** F. the facts about the environment model and the hub the proof rests on *)

(** E3 in the model: a time advance credits to the hub exactly the current amounts of its entries
    with completion <= the new block time, removes exactly those, and touches nothing else *)
Theorem C01a_advance_delivers : forall e dt,
  let now' := e_now e + dt in
  let e' := ev_advance e dt in
  e_now e' = now' /\ e_ut e' = e_ut e /\ e_pend e' = e_pend e /\ e_wdaddr e' = e_wdaddr e /\
  bal e' A_hub usei = bal e A_hub usei + Arr_fle e now' /\
  Arr_fle e' now' = 0 /\
  (forall T1 T2, now' <= T1 -> Arr_fint e' T1 T2 = Arr_fint e T1 T2) /\
  Arr_inflight e' + Arr_fle e now' = Arr_inflight e.
Proof. exact Arr_advance_spec. Qed.

Theorem C01a_advance_windows : forall e dt P,
  Arr_usum P (ev_advance e dt) = Arr_usum (fun t => P t && negb (t <=? e_now e + dt)) e.
Proof. exact Arr_advance_usum. Qed.

(** one executed message: clock and chain unbonding time unchanged; the hub's in-flight coins grow
    by exactly the amount of the message if it is an Undelegate sent by the hub, completing at
    now + chain unbonding time *)
Theorem C01a_message_env : forall w s m w' out P,
  step_msg w s m = Some (w', out) ->
  e_now (w_env w') = e_now (w_env w) /\ e_ut (w_env w') = e_ut (w_env w) /\
  Arr_usum P (w_env w') =
  Arr_usum P (w_env w) + (if P (e_now (w_env w) + e_ut (w_env w)) then Arr_und_amt (s, m) else 0).
Proof. exact Arr_step_usum. Qed.

(** slashing never raises an in-flight amount, leaves them alone when it does not touch unbonding
    entries, and never touches the bank *)
Theorem C01a_slash_env : forall e v num den unb e',
  ev_slash e v num den unb = Some e' ->
  (forall P, Arr_usum P e' <= Arr_usum P e) /\
  (unb = false -> e_unb e' = e_unb e) /\
  e_bank e' = e_bank e /\ e_now e' = e_now e /\ e_ut e' = e_ut e /\
  e_pend e' = e_pend e /\ e_wdaddr e' = e_wdaddr e.
Proof. exact Arr_slash_spec. Qed.

(** a hub message other than WithdrawUnbonded leaves the history alone and emits no Undelegate, or
    appends the entry of the batch it closes — stamped with the block time, unreleased — and its
    Undelegate messages add up to exactly the value of that entry *)
Theorem C01a_closing_value : forall w h self sender funds m h' out,
  hub_execute w h self sender funds m = Some (h', out) -> m <> HWithdraw ->
  (h_hist h' = h_hist h /\ undelegated_sum out = 0) \/
  (exists entry, h_hist h' = hist_put (h_hist h) (cb_id (h_batch h)) entry /\
                 he_time entry = e_now (w_env w) /\ he_released entry = false /\
                 GR_batch_value entry = undelegated_sum out).
Proof. exact Arr_exec_hist. Qed.

(** under the C08 invariant the matured unreleased batches are exactly the release group *)
Theorem C01a_group_is_matured : forall h, LifeInv h -> forall now ut, ut <= now ->
  Arr_hsum (Arr_fM now ut (fun _ => true)) (h_hist h)
  = GR_tot_s (GR_group h (now - ut)) + GR_tot_b (GR_group h (now - ut)).
Proof. exact Arr_M_group. Qed.

(** *** G. the envelope of a concrete history can be checked by computation *)
Theorem C01a_check_sound : forall ex ops w,
  Arr_check true ex ops w = true -> always Arr_Env ops w /\ Arr_ok ex ops w.
Proof. exact Arr_check_sound. Qed.

Theorem C01a_check0_sound : forall ex ops w,
  Arr_check false ex ops w = true -> always Arr_Env0 ops w /\ Arr_ok0 ex ops w.
Proof. exact Arr_check0_sound. Qed.

(** *** H. non-vacuity (deployment of ClaimsP.v: epoch 30 s, hub unbonding_period = chain unbonding
    time = 100 s) and necessity of the clause 0 < unbonding time *)

(** bond, 1 % slash of bonded stake, three unbonds, 31 s later a fourth unbond closes batch 1
    (35723 usei undelegated), 100 s later: every hypothesis of C01a_no_loss_exact holds; arrived
    = delivered = expected = 9950 + 25773 = 35723; the release then credits 35722 *)
Theorem C01a_nonvacuous_no_loss :
  let w := run_ops Arr_ex_ops1 (empty_world 100) in
  always Arr_Env Arr_ex_ops1 (empty_world 100) /\ Arr_ok true Arr_ex_ops1 (empty_world 100) /\
  forallb Arr_nogift Arr_ex_ops1 = true /\
  Arr_gfold Arr_all Arr_ex_ops1 (empty_world 100) ag_zero = mkAG 35723 0 /\
  Arr_inflight (w_env w) = 0 /\ bal (w_env w) A_hub usei = 35723 /\
  exists h, w_hub w = Some h /\
    let grp := GR_group h (e_now (w_env w) - hp_unbonding (h_params h)) in
    hp_unbonding (h_params h) <= e_now (w_env w) /\ hs_phb (h_state h) = 0 /\
    length grp = 1%nat /\ GR_tot_s grp = 9950 /\ GR_tot_b grp = 25773 /\
    GR_E1' grp 35723 /\ 35723 <= D /\
    (forall ie, In ie grp -> he_samt (snd ie) <= D /\ he_bamt (snd ie) <= D) /\
    sumN (map (fun ie => GR_batch_value (snd ie)) (GR_release grp 35723)) = 35722.
Proof. exact Arr_ex1_nonvacuous. Qed.

(** the same with a 10 % slash of validator 0 INCLUDING its unbonding entries half-way: only
    33974 of the expected 35723 usei are delivered, all of it counted as arrived; the release then
    credits 33971 <= 33974 *)
Theorem C01a_nonvacuous_unbonding_slash :
  let w := run_ops Arr_ex_ops2 (empty_world 100) in
  always Arr_Env Arr_ex_ops2 (empty_world 100) /\ Arr_ok false Arr_ex_ops2 (empty_world 100) /\
  Arr_check true true Arr_ex_ops2 (empty_world 100) = false /\
  Arr_gfold Arr_all Arr_ex_ops2 (empty_world 100) ag_zero = mkAG 33974 0 /\
  Arr_inflight (w_env w) = 0 /\ bal (w_env w) A_hub usei = 33974 /\
  exists h, w_hub w = Some h /\
    let grp := GR_group h (e_now (w_env w) - hp_unbonding (h_params h)) in
    hp_unbonding (h_params h) <= e_now (w_env w) /\ hs_phb (h_state h) = 0 /\
    GR_tot_s grp + GR_tot_b grp = 35723 /\ GR_E1' grp 33974 /\
    sumN (map (fun ie => GR_batch_value (snd ie)) (GR_release grp 33974)) = 33971.
Proof. exact Arr_ex2_slashed. Qed.

(** after alice's withdrawal (prev_hub_balance = 14907 reserved for bob), a gift of 7 usei, and two
    more batches closed 40 s apart, both matured: the group is {2, 3}; delivered 2985 for batch 2,
    1982 for batch 3, nothing for batch 1; balance 19881 = 14907 + 4967 + 7 *)
Theorem C01a_nonvacuous_two_batches_gift :
  let w := run_ops Arr_ex_ops3 (empty_world 100) in
  let cut := e_ut (w_env w) in
  always Arr_Env Arr_ex_ops3 (empty_world 100) /\ Arr_ok true Arr_ex_ops3 (empty_world 100) /\
  Arr_gfold Arr_all Arr_ex_ops3 (empty_world 100) ag_zero = mkAG 4967 7 /\
  ag_arr (Arr_gfold (fun t => t =? 1000131 + cut) Arr_ex_ops3 (empty_world 100) ag_zero) = 2985 /\
  ag_arr (Arr_gfold (fun t => t =? 1000171 + cut) Arr_ex_ops3 (empty_world 100) ag_zero) = 1982 /\
  ag_arr (Arr_gfold (fun t => t =? 1000031 + cut) Arr_ex_ops3 (empty_world 100) ag_zero) = 0 /\
  bal (w_env w) A_hub usei = 19881 /\
  exists h, w_hub w = Some h /\
    let grp := GR_group h (e_now (w_env w) - hp_unbonding (h_params h)) in
    hs_phb (h_state h) = 14907 /\
    map (fun ie => (fst ie, he_time (snd ie), GR_batch_value (snd ie))) grp
      = [(2, 1000131, 2985); (3, 1000171, 1982)] /\
    GR_tot_s grp + GR_tot_b grp = 4967 /\ GR_E1' grp 4974 /\
    sumN (map (fun ie => GR_batch_value (snd ie)) (GR_release grp 4974)) <= 4974.
Proof. exact Arr_ex3_two_batches_gift. Qed.

(** an in-transaction transfer (5 usei attached to CheckSlashing) is outside the gift-free envelope
    and inside the general one: balance 35728 > 0 + 35723 + 0 *)
Theorem C01a_nonvacuous_general :
  let w := run_ops Arr_ex_ops4 (empty_world 100) in
  always Arr_Env0 Arr_ex_ops4 (empty_world 100) /\ Arr_ok0 true Arr_ex_ops4 (empty_world 100) /\
  Arr_check true true Arr_ex_ops4 (empty_world 100) = false /\
  Arr_gfold Arr_all Arr_ex_ops4 (empty_world 100) ag_zero = mkAG 35723 0 /\
  bal (w_env w) A_hub usei = 35728 /\ Arr_phb w = 0 /\ Arr_M Arr_all w = 35723.
Proof. exact Arr_ex4_intx_gift. Qed.

(** with chain unbonding time 0 (= hub unbonding_period) the model delivers only at the next time
    advance while the batch is releasable at once: 35723 usei are completed but undelivered, only a
    gift of 1000 has arrived, and alice's withdrawal releases batch 1 against it (paid 581).  The
    clause 0 < chain unbonding time of Arr_Env0 is needed in the model; this is the model's rendering
    of the one-block delivery window E3 of DESIGN.md section 4, outside the envelope *)
Theorem C01a_unbonding_time_zero_witness :
  let w := run_ops Arr_ex_ops0 (empty_world 0) in
  Arr_ok true Arr_ex_ops0 (empty_world 0) /\ e_ut (w_env w) = 0 /\
  Arr_fle (w_env w) (e_now (w_env w)) = 35723 /\ Arr_M Arr_all w = 35723 /\
  bal (w_env w) A_hub usei - Arr_phb w = 1000 /\
  Arr_gfold Arr_all Arr_ex_ops0 (empty_world 0) ag_zero = mkAG 0 1000 /\
  snd (step w (OTx cx_alice A_hub (WHub HWithdraw) []))
  = (true, [(cx_alice, MWasm A_hub (WHub HWithdraw) []); (A_hub, MBank cx_alice [(usei, 581)])]).
Proof. exact Arr_ut0_witness. Qed.

(** if the hub could be instantiated again at its address while a batch is unbonding, the new instance
    would receive 35723 usei that no batch of its (empty) history expects: the clause "OInstHub only
    while no hub exists" of Arr_opok0 is needed in the model (a CosmWasm address is instantiated once) *)
Theorem C01a_reinstantiate_witness :
  let w := run_ops Arr_ex_opsR (empty_world 100) in
  Arr_check false true Arr_ex_opsR (empty_world 100) = false /\
  Arr_check false true (cx_setup ++ cx_acts1 ++ cx_acts2) (empty_world 100) = true /\
  Arr_gfold Arr_all Arr_ex_opsR (empty_world 100) ag_zero = mkAG 35723 0 /\
  bal (w_env w) A_hub usei = 35723 /\ Arr_phb w = 0 /\ Arr_U w = 0 /\ Arr_M Arr_all w = 0.
Proof. exact Arr_reinstantiate_witness. Qed.

Print Assumptions C01a_inflight_invariant.
Print Assumptions C01a_separation.
Print Assumptions C01a_conservation.
Print Assumptions C01a_conservation_ge.
Print Assumptions C01a_delivered_group.
Print Assumptions C01a_delivered_per_batch.
Print Assumptions C01a_arrival_identity.
Print Assumptions C01a_release_uses_arrival.
Print Assumptions C01a_never_exceeds.
Print Assumptions C01a_never_exceeds_general.
Print Assumptions C01a_no_loss_exact.
Print Assumptions C01a_operation_preserves.
Print Assumptions C01a_operation_balance.
Print Assumptions C01a_withdraw_tx.
Print Assumptions C01a_other_tx.
Print Assumptions C01a_message_preserves.
Print Assumptions C01a_advance_delivers.
Print Assumptions C01a_advance_windows.
Print Assumptions C01a_message_env.
Print Assumptions C01a_slash_env.
Print Assumptions C01a_closing_value.
Print Assumptions C01a_group_is_matured.
Print Assumptions C01a_check_sound.
Print Assumptions C01a_check0_sound.
Print Assumptions C01a_nonvacuous_no_loss.
Print Assumptions C01a_nonvacuous_unbonding_slash.
Print Assumptions C01a_nonvacuous_two_batches_gift.
Print Assumptions C01a_nonvacuous_general.
Print Assumptions C01a_unbonding_time_zero_witness.
Print Assumptions C01a_reinstantiate_witness.
