(** C13 — Removing a validator moves its whole stake to the remaining ones.
    Property theorems only.  Proofs: Proofs/RemoveP.v (handlers, environment, transaction
    decomposition), Proofs/RemoveEnd.v (end of the transaction, histories); they build on
    Proofs/BooksEnv.v / BooksHub.v / BooksP.v (C02).  Non-vacuity examples: Proofs/BooksExamples.v
    ([bk_remove_hyps], [bk_remove_result], [bk_remove_last_fails], [bk_remove_noredel]).

    Vocabulary (short definitions in the proof files):
    - [remove_val v l] (Model/Registry.v) = [l] without [v];
    - [redel_total l] = sum of the amounts of a redelegation list [(destination, coin)];
      [amt_to d l] = the part of it going to [d];
      [removal_msgs hub v l] = [RedelegateProxy v l to hub; UpdateGlobalIndex to hub];
      [redel_all e x src l] = executing [Redelegate src -> dst] of delegator [x] for every entry of [l],
      in order;  [redel_stack src l] = those messages as sent by the hub;
    - [dv e x v] = the amount [x] has delegated to [v] (0 without entry);  [delegated], [booked]
      (Inv.v);  [DelWf e] = well-formed delegation table (holds in every reachable world,
      C02_EntWf_reachable);  [same_contracts_but_reg w w2] = hub, reward, dispatcher and both token
      states of [w2] are those of [w]. *)
From Krp Require Import Tactics Prelude Fixed FMap Types Env Registry Cw20 Reward Dispatcher Hub Exec
     ExecP Hist Inv RegistryP HubFrame HubAdmin BooksEnv BooksHub BooksP RemoveP RemoveEnd.
Open Scope N_scope.

(** ** the registry handler *)

(** 1. a successful RemoveValidator comes from the owner, takes the validator out of the list and
       leaves a non-empty list; only the list changes *)
Theorem C13_reg_remove_spec : forall w g sender v g' msgs,
  reg_execute w g sender (GRemove v) = Some (g', msgs) ->
  sender = rg_owner g /\ rg_vals g' = remove_val v (rg_vals g) /\ ~ In v (rg_vals g') /\
  rg_vals g' <> [] /\ rg_owner g' = rg_owner g /\ rg_hub g' = rg_hub g /\
  rg_newowner g' = rg_newowner g /\ reg_redelegate_msgs w g' v = Some msgs.
Proof. exact reg_remove_spec. Qed.

(** 2. the last validator cannot be removed; nobody but the owner can remove *)
Theorem C13_reg_remove_last_fails : forall w g sender v,
  remove_val v (rg_vals g) = [] -> reg_execute w g sender (GRemove v) = None.
Proof. exact reg_remove_last_fails. Qed.

Theorem C13_reg_remove_only_owner : forall w g sender v,
  sender <> rg_owner g -> reg_execute w g sender (GRemove v) = None.
Proof. exact reg_remove_only_owner. Qed.

(** 3. the messages of a removal ([g] is the registry AFTER the removal): when the chain allows
       redelegation, RedelegateProxy with amounts summing to exactly the hub's delegation on the
       validator, each positive, in usei, to validators still registered, followed by the hub's
       UpdateGlobalIndex; when the chain refuses the redelegation of a positive stake, or the hub has
       no delegation there, no message at all *)
Theorem C13_reg_redelegate_msgs_spec : forall w g v msgs,
  reg_redelegate_msgs w g v = Some msgs ->
  match delegation (w_env w) (rg_hub g) v with
  | None => msgs = []
  | Some amt =>
      (can_redelegate (w_env w) v = false /\ 0 < amt -> msgs = []) /\
      (can_redelegate (w_env w) v = true \/ amt = 0 ->
         exists redels, msgs = removal_msgs (rg_hub g) v redels /\ redel_total redels = amt /\
           forall dst c, In (dst, c) redels -> In dst (rg_vals g) /\ fst c = usei /\ 0 < snd c)
  end.
Proof. exact reg_redelegate_msgs_spec. Qed.

(** ** the hub *)

(** 4. RedelegateProxy forwards 1:1 as Redelegate messages, changes nothing in the hub, and is
       accepted only from the registry *)
Theorem C13_hub_redel_proxy_spec : forall w h self sender funds src l h' out,
  hub_execute w h self sender funds (HRedelProxy src l) = Some (h', out) ->
  paused h = false /\ hc_reg (h_cfg h) = Some sender /\ h' = h /\
  out = map (fun p : val * coin => MRedelegate src (fst p) (snd p)) l.
Proof. exact hub_redel_proxy_spec. Qed.

Theorem C13_hub_redel_proxy_only_registry : forall w h self sender funds src l,
  hc_reg (h_cfg h) <> Some sender -> hub_execute w h self sender funds (HRedelProxy src l) = None.
Proof. exact hub_redel_proxy_only_registry. Qed.

(** ** the chain *)

(** 5. executing the redelegations empties the source by exactly their total, adds to every
       destination what was sent to it, keeps the delegator's total stake, moves no coins except
       reward payouts; when the total is the whole stake the source entry disappears *)
Theorem C13_redel_all_spec : forall x src l e e',
  redel_all e x src l = Some e' -> DelWf e -> (forall p, In p l -> fst p <> src) ->
  DelWf e' /\
  dv e' x src + redel_total l = dv e x src /\
  (forall d, d <> src -> dv e' x d = dv e x d + amt_to d l) /\
  delegated e' x = delegated e x /\
  (forall y, y <> x -> all_delegations e' y = all_delegations e y) /\
  (l <> [] -> redel_total l = dv e x src -> delegation e' x src = None) /\
  (forall p, In p l -> fst (snd p) = usei /\ 0 < snd (snd p) /\ is_val (fst p) = true) /\
  e_wdaddr e' = e_wdaddr e /\ e_noredel e' = e_noredel e /\ e_unb e' = e_unb e /\
  (forall a d, bal e a d <= bal e' a d) /\
  (forall a d, a <> withdraw_addr e x -> bal e' a d = bal e a d).
Proof. exact redel_all_spec. Qed.

(** ** the RemoveValidator transaction (E4: the registry points at the hub) *)

(** 6. a successful removal of a validator on which the hub has [amt] delegated, the chain allowing
       redelegation, is: the registry update; RedelegateProxy; the redelegations, after which (world
       [w2]) nothing is left on the validator, every remaining validator holds what it held plus
       what was sent to it, the hub's total delegated stake and the states of the hub and of all other
       contracts are unchanged; and then exactly the UpdateGlobalIndex appended by the registry
       (whose only effect on delegations is the re-bonding of rewards) *)
Theorem C13_remove_tx_decompose : forall w sender v funds w' tr g amt,
  DelWf (w_env w) -> w_reg w = Some g -> rg_hub g = A_hub ->
  delegation (w_env w) A_hub v = Some amt -> can_redelegate (w_env w) v = true ->
  run tx_fuel w [(sender, MWasm A_reg (WReg (GRemove v)) funds)] [] = Some (w', tr) ->
  exists g' redels w2 fuel2,
    sender = rg_owner g /\ rg_vals g' = remove_val v (rg_vals g) /\ ~ In v (rg_vals g') /\
    rg_vals g' <> [] /\ rg_hub g' = A_hub /\
    redel_total redels = amt /\
    (forall dst c, In (dst, c) redels -> In dst (rg_vals g') /\ fst c = usei /\ 0 < snd c) /\
    w_reg w2 = Some g' /\ same_contracts_but_reg w w2 /\ DelWf (w_env w2) /\
    dv (w_env w2) A_hub v = 0 /\ (0 < amt -> delegation (w_env w2) A_hub v = None) /\
    (forall d, d <> v -> dv (w_env w2) A_hub d = dv (w_env w) A_hub d + amt_to d redels) /\
    delegated (w_env w2) A_hub = delegated (w_env w) A_hub /\
    run fuel2 w2 [(A_reg, MWasm A_hub (WHub (HUpdateGlobal 0)) [])]
        ((sender, MWasm A_reg (WReg (GRemove v)) funds)
         :: (A_reg, MWasm A_hub (WHub (HRedelProxy v redels)) []) :: redel_stack v redels)
      = Some (w', tr).
Proof. exact remove_tx_decompose. Qed.

(** 7. at the END of the transaction: the validator is not registered, the registry is not empty, and
       nothing is delegated to the validator (the re-bonding of rewards delegates only to registered
       validators, nothing else creates delegations) *)
Theorem C13_remove_tx_end : forall w sender v funds w' tr g amt,
  DelWf (w_env w) -> w_reg w = Some g -> rg_hub g = A_hub ->
  delegation (w_env w) A_hub v = Some amt -> can_redelegate (w_env w) v = true ->
  run tx_fuel w [(sender, MWasm A_reg (WReg (GRemove v)) funds)] [] = Some (w', tr) ->
  exists g',
    sender = rg_owner g /\ w_reg w' = Some g' /\ rg_vals g' = remove_val v (rg_vals g) /\
    ~ In v (rg_vals g') /\ rg_vals g' <> [] /\
    dv (w_env w') A_hub v = 0 /\ (0 < amt -> delegation (w_env w') A_hub v = None).
Proof. exact remove_tx_end. Qed.

(** the same at any point of any operation history *)
Theorem C13_remove_tx_end_reachable : forall ut ops sender v funds w' tr g amt,
  let w := run_ops ops (empty_world ut) in
  w_reg w = Some g -> rg_hub g = A_hub ->
  delegation (w_env w) A_hub v = Some amt -> can_redelegate (w_env w) v = true ->
  run tx_fuel w [(sender, MWasm A_reg (WReg (GRemove v)) funds)] [] = Some (w', tr) ->
  exists g',
    sender = rg_owner g /\ w_reg w' = Some g' /\ rg_vals g' = remove_val v (rg_vals g) /\
    ~ In v (rg_vals g') /\ rg_vals g' <> [] /\
    dv (w_env w') A_hub v = 0 /\ (0 < amt -> delegation (w_env w') A_hub v = None).
Proof. exact remove_tx_end_reachable. Qed.

(** 8. delegated minus booked stake is the same before and after the removal transaction (E4: the
       hub's coin is the staking coin; the books being within the delegations before) *)
Theorem C13_remove_tx_gap : forall w sender v funds w' tr h h',
  DelWf (w_env w) -> w_hub w = Some h -> hp_underlying (h_params h) = usei ->
  booked h <= delegated (w_env w) A_hub ->
  run tx_fuel w [(sender, MWasm A_reg (WReg (GRemove v)) funds)] [] = Some (w', tr) ->
  w_hub w' = Some h' ->
  booked h' <= delegated (w_env w') A_hub /\
  delegated (w_env w') A_hub - booked h' = delegated (w_env w) A_hub - booked h.
Proof. exact remove_tx_gap. Qed.

(** 9. if the hub has no delegation on the validator, or the chain refuses the redelegation of a
       positive stake, the transaction only removes the registry entry (stated, not claimed as
       moving stake) *)
Theorem C13_remove_tx_noredel : forall w sender v funds w' tr g,
  w_reg w = Some g -> rg_hub g = A_hub ->
  (delegation (w_env w) A_hub v = None \/
   exists amt, delegation (w_env w) A_hub v = Some amt /\ 0 < amt /\ can_redelegate (w_env w) v = false) ->
  run tx_fuel w [(sender, MWasm A_reg (WReg (GRemove v)) funds)] [] = Some (w', tr) ->
  exists g', sender = rg_owner g /\ w_reg w' = Some g' /\ rg_vals g' = remove_val v (rg_vals g) /\
    ~ In v (rg_vals g') /\ rg_vals g' <> [] /\
    w_hub w' = w_hub w /\ e_del (w_env w') = e_del (w_env w) /\
    tr = [(sender, MWasm A_reg (WReg (GRemove v)) funds)].
Proof. exact remove_tx_noredel. Qed.

(** 10. subsequent bonds (any of the three kinds) are delegated only to validators registered at
        that moment, hence never to a removed one *)
Theorem C13_later_bonds_avoid_removed : forall w h self sender funds k h' out g v,
  execute_bond w h self sender funds k = Some (h', out) ->
  w_reg w = Some g -> ~ In v (rg_vals g) ->
  forall v' c, In (MDelegate v' c) out -> In v' (rg_vals g) /\ v' <> v.
Proof. exact later_bonds_avoid_removed. Qed.

Print Assumptions C13_reg_remove_spec.
Print Assumptions C13_reg_remove_last_fails.
Print Assumptions C13_reg_remove_only_owner.
Print Assumptions C13_reg_redelegate_msgs_spec.
Print Assumptions C13_hub_redel_proxy_spec.
Print Assumptions C13_hub_redel_proxy_only_registry.
Print Assumptions C13_redel_all_spec.
Print Assumptions C13_remove_tx_decompose.
Print Assumptions C13_remove_tx_end.
Print Assumptions C13_remove_tx_end_reachable.
Print Assumptions C13_remove_tx_gap.
Print Assumptions C13_remove_tx_noredel.
Print Assumptions C13_later_bonds_avoid_removed.
