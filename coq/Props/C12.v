(** C12 — Stake distribution conserves amounts and never worsens validator imbalance.
    Property theorems only; proofs are in Proofs/RegistryP.v.  [deleg] / [undeleg] are the model
    of registry::common::calculate_delegations / calculate_undelegations (Model/Registry.v), tied to
    the Rust functions by the kernel streams `deleg` and `undeleg`. *)
From Krp Require Import Tactics Prelude Fixed Types Registry RegistryP.
Open Scope N_scope.

(** 1. for any non-empty validator list and any amount in the u128-safe range the delegation plan
       distributes exactly the whole amount: nothing is left over *)
Theorem C12_deleg_total : forall A ds,
  ds <> [] -> sumN ds + A <= U128MAX ->
  exists xs, deleg A ds = Some (0, xs) /\ length xs = length ds /\ sumN xs = A.
Proof. exact deleg_total. Qed.

(** 2. nothing goes to a validator already above the even share, and nobody is lifted above the
       even share rounded up.  [even_target T n i] = T/n + [i < T mod n], T = total after delegation *)
Theorem C12_deleg_bounds : forall A ds r xs,
  deleg A ds = Some (r, xs) ->
  let T := sumN ds + A in let n := len ds in
  forall j, (j < length ds)%nat ->
    (even_target T n (N.of_nat j) < nth j ds 0 -> nth j xs 0 = 0) /\
    (0 < nth j xs 0 -> nth j ds 0 + nth j xs 0 <= even_target T n (N.of_nat j)) /\
    even_target T n (N.of_nat j) <= T / n + 1.
Proof. exact deleg_bounds. Qed.

(** 3. the undelegation plan removes exactly the request, never more from a validator than it
       holds, pushes nobody below the even share rounded down, and terminates (the [while] loop of
       the Rust code runs at most once: the fuel of the model, 4, is never exhausted) *)
Theorem C12_undeleg_total : forall U ds,
  ds <> [] -> U <= sumN ds -> sumN ds <= U128MAX ->
  exists ys, undeleg U ds = Some ys /\ length ys = length ds /\ sumN ys = U /\
    forall j, (j < length ds)%nat ->
      nth j ys 0 <= nth j ds 0 /\
      (0 < nth j ys 0 -> (sumN ds - U) / len ds <= nth j ds 0 - nth j ys 0).
Proof. exact undeleg_total. Qed.

(** 4. the plans fail exactly when the list is empty, the request exceeds the total, or the
       u128 sums overflow *)
Theorem C12_deleg_err_iff : forall A ds,
  deleg A ds = None <-> (ds = [] \/ U128MAX < sumN ds + A).
Proof. exact deleg_err_iff. Qed.

Theorem C12_undeleg_err_iff : forall U ds,
  undeleg U ds = None <-> (ds = [] \/ sumN ds < U \/ U128MAX < sumN ds).
Proof. exact undeleg_err_iff. Qed.

(** non-vacuity: concrete unsorted lists with ties and zeros meet the hypotheses *)
Example C12_example_deleg : deleg 20 [30; 0; 10] = Some (0, [0; 20; 0]).
Proof. vm_compute. reflexivity. Qed.
Example C12_example_undeleg : undeleg 25 [30; 0; 10; 10] = Some [23; 0; 2; 0].
Proof. vm_compute. reflexivity. Qed.

Print Assumptions C12_deleg_total.
Print Assumptions C12_deleg_bounds.
Print Assumptions C12_undeleg_total.
Print Assumptions C12_deleg_err_iff.
Print Assumptions C12_undeleg_err_iff.
