(** * ClaimsStep: exact effect of every hub message on the unbonding books
    (wait list, open batch, history, last-undelegation time, last-processed batch).
    Shared by ClaimsP.v (C07) and LifeP.v (C08).

    Main lemmas
    - [unbond_b_spec], [unbond_st_spec]  : what an accepted Unbond hook does ([unbond_shape]);
    - [pwr_spec]                         : what [process_withdraw_rate] does to history / lpb;
    - [finished_amount_spec]             : the amount and batch list computed for a withdrawal;
    - [withdraw_spec]                    : what an accepted WithdrawUnbonded does;
    - [hub_execute_cases]                : every successful hub message is a quiet step (books
                                           unchanged, no Undelegate / Bank message), a migration,
                                           an unbond, or a withdrawal;
    - [hubw_run_ops]                     : lifting of a hub-state invariant to every history.  *)
From Krp Require Import Tactics Prelude Fixed FMap Types Env Registry Cw20 Reward Dispatcher Hub Exec
     ExecP HubFrame HubAdmin Pause RegistryP.
Open Scope N_scope.

(** ** finite-map facts not in Base/FMap.v *)
Section FMapMore.
  Context {K V : Type}.
  Variable eqb : K -> K -> bool.
  Hypothesis eqb_eq : forall a b, eqb a b = true <-> a = b.

  Lemma get_none_iff (m : fmap K V) k : get eqb m k = None <-> ~ In k (keys m).
  Proof.
    induction m as [|[k' v'] r IH]; cbn [get keys map fst In].
    - tauto.
    - destruct (eqb k k') eqn:E.
      + apply eqb_eq in E. subst. split; [discriminate | intros H; exfalso; apply H; auto].
      + assert (k' <> k) by (intros ->; rewrite (eqb_refl eqb eqb_eq) in E; discriminate).
        unfold keys in IH. rewrite IH. tauto.
  Qed.

  Lemma get_some_in (m : fmap K V) k v : get eqb m k = Some v -> In (k, v) m.
  Proof.
    induction m as [|[k' v'] r IH]; cbn [get In]; [discriminate|].
    destruct (eqb k k') eqn:E.
    - apply eqb_eq in E. subst. intros H. inversion H; subst. auto.
    - auto.
  Qed.

  Lemma in_get_nodup (m : fmap K V) k v : NoDup (keys m) -> In (k, v) m -> get eqb m k = Some v.
  Proof.
    induction m as [|[k' v'] r IH]; cbn [get In keys map fst]; [tauto|].
    intros Hnd [Hin|Hin].
    - inversion Hin; subst. rewrite (eqb_refl eqb eqb_eq). reflexivity.
    - inversion Hnd as [|? ? Hni Hnd']; subst.
      destruct (eqb k k') eqn:E.
      + apply eqb_eq in E. subst. exfalso. apply Hni. change (In (fst (k', v)) (map fst r)).
        apply in_map. exact Hin.
      + apply IH; assumption.
  Qed.

  Lemma set_present (m : fmap K V) k v :
    get eqb m k <> None -> keys (set eqb m k v) = keys m.
  Proof.
    induction m as [|[k' v'] r IH]; cbn [get set keys map fst]; [congruence|].
    destruct (eqb k k') eqn:E.
    - apply eqb_eq in E. subst. reflexivity.
    - intros H. cbn [map fst]. f_equal. apply IH. exact H.
  Qed.

  Lemma set_absent (m : fmap K V) k v : get eqb m k = None -> set eqb m k v = m ++ [(k, v)].
  Proof.
    induction m as [|[k' v'] r IH]; cbn [get set app]; [reflexivity|].
    destruct (eqb k k') eqn:E; [discriminate|]. intros H. f_equal. apply IH. exact H.
  Qed.

  Lemma nodup_snoc (l : list K) k : NoDup l -> ~ In k l -> NoDup (l ++ [k]).
  Proof.
    induction l as [|a l IH]; cbn [app]; intros Hnd Hni.
    - constructor; [tauto | constructor].
    - inversion Hnd as [|? ? Ha Hl]; subst. constructor.
      + rewrite in_app_iff. cbn [In]. intros [H|[H|[]]]; [tauto|]. subst. apply Hni. left. reflexivity.
      + apply IH; [exact Hl|]. intros H. apply Hni. right. exact H.
  Qed.

  Lemma nodup_set (m : fmap K V) k v : NoDup (keys m) -> NoDup (keys (set eqb m k v)).
  Proof.
    intros Hnd. destruct (get eqb m k) as [x|] eqn:E.
    - rewrite set_present by congruence. exact Hnd.
    - rewrite (set_absent _ _ _ E). unfold keys. rewrite map_app. cbn [map fst].
      apply get_none_iff in E. apply nodup_snoc; assumption.
  Qed.

  Lemma keys_del_incl (m : fmap K V) k k' : In k' (keys (del eqb m k)) -> In k' (keys m).
  Proof.
    induction m as [|[k0 v0] r IH]; cbn [del keys map fst In]; [tauto|].
    destruct (eqb k k0); cbn [map fst In]; [auto|]. intros [H|H]; [auto|right; apply IH; exact H].
  Qed.

  Lemma nodup_del (m : fmap K V) k : NoDup (keys m) -> NoDup (keys (del eqb m k)).
  Proof.
    induction m as [|[k0 v0] r IH]; cbn [del keys map fst]; [auto|].
    intros Hnd. inversion Hnd as [|? ? Hni Hnd']; subst.
    destruct (eqb k k0); [exact Hnd'|]. cbn [map fst]. constructor.
    - intros Hin. apply Hni. apply keys_del_incl in Hin. exact Hin.
    - apply IH. exact Hnd'.
  Qed.

  Lemma get_del_same (m : fmap K V) k : NoDup (keys m) -> get eqb (del eqb m k) k = None.
  Proof.
    induction m as [|[k0 v0] r IH]; cbn [del get keys map fst]; [auto|].
    intros Hnd. inversion Hnd as [|? ? Hni Hnd']; subst.
    destruct (eqb k k0) eqn:E.
    - apply eqb_eq in E. subst. apply get_none_iff. exact Hni.
    - cbn [get]. rewrite E. apply IH. exact Hnd'.
  Qed.

  Lemma get_del_cases (m : fmap K V) k k2 :
    NoDup (keys m) -> get eqb (del eqb m k) k2 = if eqb k2 k then None else get eqb m k2.
  Proof.
    intros Hnd. destruct (eqb k2 k) eqn:E.
    - apply eqb_eq in E. subst. apply get_del_same. exact Hnd.
    - apply get_del_other; [exact eqb_eq|]. intros ->. rewrite (eqb_refl eqb eqb_eq) in E. discriminate.
  Qed.
End FMapMore.

Lemma eqbAN_eq a b : eqbAN a b = true <-> a = b.
Proof. apply eqbNN_eq. Qed.

Lemma Neqb_eq a b : N.eqb a b = true <-> a = b.
Proof. apply N.eqb_eq. Qed.

(** ** per-batch sums of the wait list: Σ_u f (wait (u, i)) *)
Definition wsum (f : N * N -> N) (m : fmap (addr * N) (N * N)) (i : N) : N :=
  sumN (map (fun kv => if snd (fst kv) =? i then f (snd kv) else 0) m).

Definition wgetf (f : N * N -> N) (m : fmap (addr * N) (N * N)) (k : addr * N) : N :=
  match get eqbAN m k with Some v => f v | None => 0 end.

Lemma wsum_set f m k v i :
  wsum f (set eqbAN m k v) i + (if snd k =? i then wgetf f m k else 0)
  = wsum f m i + (if snd k =? i then f v else 0).
Proof.
  unfold wsum, wgetf. induction m as [|[k' v'] r IH]; cbn [set get map sumN fst snd].
  - destruct (snd k =? i); lia.
  - destruct (eqbAN k k') eqn:E; cbn [map sumN fst snd].
    + apply eqbAN_eq in E. subst k'. destruct (snd k =? i); lia.
    + destruct (get eqbAN r k); destruct (snd k =? i); destruct (snd k' =? i); lia.
Qed.

Lemma wsum_del f m k i :
  wsum f (del eqbAN m k) i + (if snd k =? i then wgetf f m k else 0) = wsum f m i.
Proof.
  unfold wsum, wgetf. induction m as [|[k' v'] r IH]; cbn [del get map sumN fst snd].
  - destruct (snd k =? i); lia.
  - destruct (eqbAN k k') eqn:E; cbn [map sumN fst snd].
    + apply eqbAN_eq in E. subst k'. destruct (snd k =? i); lia.
    + destruct (get eqbAN r k); destruct (snd k =? i); destruct (snd k' =? i); lia.
Qed.

Lemma wsum_other_set f m k v i : snd k <> i -> wsum f (set eqbAN m k v) i = wsum f m i.
Proof. intros H. pose proof (wsum_set f m k v i) as E. destruct (snd k =? i) eqn:B; lia. Qed.

Lemma wsum_other_del f m k i : snd k <> i -> wsum f (del eqbAN m k) i = wsum f m i.
Proof. intros H. pose proof (wsum_del f m k i) as E. destruct (snd k =? i) eqn:B; lia. Qed.

Lemma wsum_del_le f m k i : wsum f (del eqbAN m k) i <= wsum f m i.
Proof. pose proof (wsum_del f m k i). lia. Qed.

Lemma wsum_nil f i : wsum f [] i = 0.
Proof. reflexivity. Qed.

(** a batch nobody has an entry for sums to zero *)
Lemma wsum_absent f m i : (forall u, get eqbAN m (u, i) = None) -> wsum f m i = 0.
Proof.
  unfold wsum. induction m as [|[[u b] v] r IH]; intros H; cbn [map sumN fst snd]; [reflexivity|].
  destruct (b =? i) eqn:E.
  - apply N.eqb_eq in E. subst b. specialize (H u). cbn [get] in H.
    rewrite (eqb_refl eqbAN eqbAN_eq) in H. discriminate.
  - rewrite IH; [lia|]. intros u0. specialize (H u0). cbn [get] in H.
    destruct (eqbAN (u0, i) (u, b)) eqn:E2; [discriminate | exact H].
Qed.

(** ** consecutive ids *)
Fixpoint ids_from (s : N) (n : nat) : list N :=
  match n with O => [] | S k => s :: ids_from (s + 1) k end.

Lemma ids_from_in n : forall s i, In i (ids_from s n) <-> s <= i < s + N.of_nat n.
Proof.
  induction n as [|n IH]; intros s i; cbn [ids_from In].
  - lia.
  - rewrite IH. lia.
Qed.

Lemma ids_from_snoc n : forall s, ids_from s (S n) = ids_from s n ++ [s + N.of_nat n].
Proof.
  induction n as [|n IH]; intros s.
  - cbn. f_equal. lia.
  - change (ids_from s (S (S n))) with (s :: ids_from (s + 1) (S n)). rewrite IH.
    cbn [ids_from app]. do 3 f_equal. lia.
Qed.

Lemma ids_from_length n : forall s, length (ids_from s n) = n.
Proof. induction n as [|n IH]; intros s; cbn [ids_from length]; [reflexivity | rewrite IH; reflexivity]. Qed.

(** ** [hist_put] *)
Lemma hget_put_same m i e : get N.eqb (hist_put m i e) i = Some e.
Proof.
  induction m as [|[j e'] r IH]; cbn [hist_put get].
  - rewrite N.eqb_refl. reflexivity.
  - destruct (i =? j) eqn:E1; cbn [get].
    + rewrite N.eqb_refl. reflexivity.
    + destruct (i <? j); cbn [get]; [rewrite N.eqb_refl; reflexivity | rewrite E1; exact IH].
Qed.

Lemma hget_put_other m i e k : k <> i -> get N.eqb (hist_put m i e) k = get N.eqb m k.
Proof.
  intros Hne. induction m as [|[j e'] r IH]; cbn [hist_put get].
  - assert (E : (k =? i) = false) by lia. rewrite E. reflexivity.
  - destruct (i =? j) eqn:E1; cbn [get].
    + assert (i = j) by lia. subst j. assert (E : (k =? i) = false) by lia. rewrite E. reflexivity.
    + destruct (i <? j); cbn [get].
      * assert (E : (k =? i) = false) by lia. rewrite E. reflexivity.
      * destruct (k =? j); [reflexivity | exact IH].
Qed.

Lemma hkeys_put_in : forall m s n i e,
  map fst m = ids_from s n -> s <= i < s + N.of_nat n -> map fst (hist_put m i e) = map fst m.
Proof.
  induction m as [|[j e'] r IH]; intros s n i e Hk Hi.
  - destruct n; cbn in Hk; [lia | discriminate].
  - destruct n as [|n]; [discriminate|]. cbn [map fst ids_from] in Hk. inversion Hk as [[Hj Hr]].
    cbn [hist_put]. destruct (i =? s) eqn:E1; [cbn [map fst]; f_equal; lia|].
    assert (E2 : (i <? s) = false) by lia. rewrite E2. cbn [map fst]. f_equal.
    eapply IH; [exact Hr | lia].
Qed.

Lemma hkeys_put_end : forall m s n e,
  map fst m = ids_from s n -> map fst (hist_put m (s + N.of_nat n) e) = ids_from s (S n).
Proof.
  induction m as [|[j e'] r IH]; intros s n e Hk.
  - destruct n; [|discriminate]. cbn. f_equal. lia.
  - destruct n as [|n]; [discriminate|]. cbn [map fst ids_from] in Hk. inversion Hk as [[Hj Hr]].
    cbn [hist_put].
    assert (E1 : (s + N.of_nat (S n) =? s) = false) by lia.
    assert (E2 : (s + N.of_nat (S n) <? s) = false) by lia. rewrite E1, E2.
    cbn [map fst]. change (ids_from s (S (S n))) with (s :: ids_from (s + 1) (S n)). f_equal.
    replace (s + N.of_nat (S n)) with (s + 1 + N.of_nat n) by lia. apply IH. exact Hr.
Qed.

Lemma hget_keys (m : fmap N hist_entry) i : get N.eqb m i <> None <-> In i (map fst m).
Proof.
  pose proof (get_none_iff N.eqb Neqb_eq m i) as H. unfold keys in H.
  destruct (get N.eqb m i); split; intros X; try congruence.
  - destruct (in_dec N.eq_dec i (map fst m)); [assumption|]. exfalso. apply H in n. discriminate.
  - exfalso. apply H; auto.
Qed.

(** the batch ids of the history are exactly 1 .. cb_id - 1, in ascending order *)
Definition HistShape (h : hub) : Prop :=
  1 <= cb_id (h_batch h) /\
  map fst (h_hist h) = ids_from 1 (N.to_nat (cb_id (h_batch h) - 1)).

Lemma shape_get h i : HistShape h ->
  (get N.eqb (h_hist h) i <> None <-> 1 <= i < cb_id (h_batch h)).
Proof.
  intros [H1 Hk]. rewrite hget_keys, Hk, ids_from_in. lia.
Qed.

Lemma shape_put_in h i e e0 : HistShape h -> get N.eqb (h_hist h) i = Some e0 ->
  map fst (hist_put (h_hist h) i e) = map fst (h_hist h).
Proof.
  intros Hs Hg. assert (Hi : 1 <= i < cb_id (h_batch h)) by (apply shape_get; [assumption|congruence]).
  destruct Hs as [H1 Hk]. eapply hkeys_put_in; [exact Hk | lia].
Qed.

Lemma shape_put_end h e : HistShape h ->
  map fst (hist_put (h_hist h) (cb_id (h_batch h)) e) = ids_from 1 (N.to_nat (cb_id (h_batch h) + 1 - 1)).
Proof.
  intros [H1 Hk].
  replace (N.to_nat (cb_id (h_batch h) + 1 - 1)) with (S (N.to_nat (cb_id (h_batch h) - 1))) by lia.
  replace (cb_id (h_batch h)) with (1 + N.of_nat (N.to_nat (cb_id (h_batch h) - 1))) at 1 by lia.
  apply hkeys_put_end. exact Hk.
Qed.

(** ** slashing keeps the two lifecycle fields of the state *)
Lemma qas_times w self h s' : query_actual_state w self h = Some s' ->
  hs_lut s' = hs_lut (h_state h) /\ hs_lpb s' = hs_lpb (h_state h).
Proof.
  unfold query_actual_state. intros H.
  destruct (all_delegations (w_env w) self); [inversion H; subst; auto|].
  bind_inv H as actual Ha. bind_inv H as st Hst.
  destruct (st =? 0); [inversion H; subst; auto|].
  bind_inv H as bi Hbi. bind_inv H as si Hsi. bind_inv H as s1 Hs1.
  bind_inv H as ber Hber. bind_inv H as ser Hser. inversion H; subst. cbn.
  destruct (actual <? st).
  - bind_inv Hs1 as r Hr. bind_inv Hs1 as bb Hbb. bind_inv Hs1 as bst Hbst. inversion Hs1; subst. cbn. auto.
  - inversion Hs1; subst. auto.
Qed.

Lemma slashing_times w self h h1 : slashing w self h = Some h1 ->
  hs_lut (h_state h1) = hs_lut (h_state h) /\ hs_lpb (h_state h1) = hs_lpb (h_state h).
Proof.
  unfold slashing. intros H. bind_inv H as s Hs. inversion H; subst. cbn. eapply qas_times; eauto.
Qed.

(** ** [add_wait] *)
Lemma add_wait_spec h u b is_b amt h' : add_wait h u b is_b amt = Some h' ->
  h' = set_h_wait h (set eqbAN (h_wait h) (u, b)
         (fst (wait_of h u b) + (if is_b then amt else 0),
          snd (wait_of h u b) + (if is_b then 0 else amt))).
Proof.
  unfold add_wait. destruct (wait_of h u b) as [x y]. cbn [fst snd]. intros H.
  bind_inv H as x' Hx. bind_inv H as y' Hy. inversion H; subst. clear H.
  destruct is_b; unfold add128, narrow128 in *.
  - destruct (fits128 (x + amt)); [|discriminate]. inversion Hx; inversion Hy; subst.
    rewrite N.add_0_r. reflexivity.
  - destruct (fits128 (y + amt)); [|discriminate]. inversion Hx; inversion Hy; subst.
    rewrite N.add_0_r. reflexivity.
Qed.

(** ** undelegation messages *)
Definition is_undelegate (m : cmsg) : bool := match m with MUndelegate _ _ => true | _ => false end.
Definition is_bank (m : cmsg) : bool := match m with MBank _ _ => true | _ => false end.

(** total amount of the Undelegate messages of a message list *)
Definition undelegated_sum (out : list cmsg) : N :=
  sumN (map (fun m => match m with MUndelegate _ c => snd c | _ => 0 end) out).

Lemma undelegated_sum_app a b : undelegated_sum (a ++ b) = undelegated_sum a + undelegated_sum b.
Proof. unfold undelegated_sum. rewrite map_app, sumN_app. reflexivity. Qed.

Lemma pick_msgs_sum d : forall (vals : list (val * N)) ys, length ys = length vals ->
  undelegated_sum (flat_map (fun p => if snd p =? 0 then []
                                      else [MUndelegate (fst (fst p)) (d, snd p)]) (combine vals ys))
  = sumN ys /\
  forallb is_undelegate (flat_map (fun p => if snd p =? 0 then []
                                      else [MUndelegate (fst (fst p)) (d, snd p)]) (combine vals ys)) = true.
Proof.
  induction vals as [|v vals IH]; intros [|y ys] Hl; try discriminate Hl.
  - split; reflexivity.
  - cbn [combine flat_map]. injection Hl as Hl. destruct (IH ys Hl) as [IH1 IH2].
    rewrite undelegated_sum_app, forallb_app, IH1, IH2. cbn [snd fst sumN].
    destruct (y =? 0) eqn:E; cbn; [split; [lia|reflexivity] | split; [lia|reflexivity]].
Qed.

Lemma pick_validator_spec w self h claim msgs : pick_validator w self h claim = Some msgs ->
  undelegated_sum msgs = claim /\ forallb is_undelegate msgs = true.
Proof.
  unfold pick_validator. intros H. bind_inv H as ys Hys. inversion H; subst. clear H.
  set (vals := sort_desc (all_delegations (w_env w) self)) in *.
  assert (Hn : undeleg claim (map snd vals) <> None) by congruence.
  rewrite undeleg_err_iff in Hn.
  destruct (undeleg_total claim (map snd vals)) as (ys' & E & Hlen & Hsum & _).
  - intros X. apply Hn. auto.
  - destruct (N.le_gt_cases claim (sumN (map snd vals))); [assumption|]. exfalso. apply Hn. auto.
  - destruct (N.le_gt_cases (sumN (map snd vals)) U128MAX); [assumption|]. exfalso. apply Hn. auto.
  - rewrite E in Hys. inversion Hys; subst ys'. rewrite map_length in Hlen.
    destruct (pick_msgs_sum (hp_underlying (h_params h)) vals ys Hlen) as [S1 S2].
    split; [rewrite S1; exact Hsum | exact S2].
Qed.

(** [closes w h rb rs h' msgs]: the call closed the open batch of [h] with totals [rb]/[rs]:
    more than one epoch has passed since the last undelegation, the batch id advanced by one with
    zeroed totals, the history gained the entry for the old id stamped with the block time, and
    [msgs] are Undelegate messages whose amounts add up to the requests valued at the recorded
    rates. *)
Definition closes (w : world) (h : hub) (rb rs : N) (h' : hub) (msgs : list cmsg) : Prop :=
  let now := e_now (w_env w) in
  hs_lut (h_state h) <= now /\ hp_epoch (h_params h) < now - hs_lut (h_state h) /\
  h_batch h' = mkBatch (cb_id (h_batch h) + 1) 0 0 /\
  hs_lut (h_state h') = now /\
  forallb is_undelegate msgs = true /\
  exists entry bund sund,
    h_hist h' = hist_put (h_hist h) (cb_id (h_batch h)) entry /\
    he_time entry = now /\ he_bamt entry = rb /\ he_samt entry = rs /\ he_released entry = false /\
    he_bwithdraw entry = he_bapplied entry /\ he_swithdraw entry = he_sapplied entry /\
    he_bapplied entry = hs_ber (h_state h') /\ he_sapplied entry = hs_ser (h_state h') /\
    mulU rs (he_sapplied entry) = Some sund /\ mulU rb (he_bapplied entry) = Some bund /\
    undelegated_sum msgs = bund + sund.

Lemma closes_transport w h0 h rb rs h' msgs :
  hs_lut (h_state h) = hs_lut (h_state h0) -> hp_epoch (h_params h) = hp_epoch (h_params h0) ->
  cb_id (h_batch h) = cb_id (h_batch h0) -> h_hist h = h_hist h0 ->
  closes w h rb rs h' msgs -> closes w h0 rb rs h' msgs.
Proof. unfold closes. intros -> -> -> ->. tauto. Qed.

Lemma process_undelegations_spec w self h h' msgs :
  process_undelegations w self h = Some (h', msgs) ->
  h_wait h' = h_wait h /\ hs_lpb (h_state h') = hs_lpb (h_state h) /\
  h_batch h' = mkBatch (cb_id (h_batch h) + 1) 0 0 /\
  hs_lut (h_state h') = e_now (w_env w) /\
  forallb is_undelegate msgs = true /\
  exists entry bund sund,
    h_hist h' = hist_put (h_hist h) (cb_id (h_batch h)) entry /\
    he_time entry = e_now (w_env w) /\ he_bamt entry = cb_reqb (h_batch h) /\
    he_samt entry = cb_reqst (h_batch h) /\ he_released entry = false /\
    he_bwithdraw entry = he_bapplied entry /\ he_swithdraw entry = he_sapplied entry /\
    he_bapplied entry = hs_ber (h_state h') /\ he_sapplied entry = hs_ser (h_state h') /\
    mulU (cb_reqst (h_batch h)) (he_sapplied entry) = Some sund /\
    mulU (cb_reqb (h_batch h)) (he_bapplied entry) = Some bund /\
    undelegated_sum msgs = bund + sund.
Proof.
  unfold process_undelegations. intros H.
  bind_inv H as sund Hsu. bind_inv H as bund Hbu. bind_inv H as claim Hcl. bind_inv H as ms Hms.
  bind_inv H as bst Hbst. bind_inv H as bb Hbb. bind_inv H as id' Hid. inversion H; subst. clear H.
  apply pick_validator_spec in Hms. destruct Hms as [Hsum Hall].
  unfold add64 in Hid. destruct (fits64 (cb_id (h_batch h) + 1)); [|discriminate]. inversion Hid; subst.
  unfold add128, narrow128 in Hcl. destruct (fits128 (bund + sund)); [|discriminate]. inversion Hcl; subst.
  cbn. repeat split; try assumption.
  eexists _, bund, sund. cbn. repeat split; assumption.
Qed.

Lemma maybe_undelegate_spec w self h h' msgs : maybe_undelegate w self h = Some (h', msgs) ->
  h_wait h' = h_wait h /\ hs_lpb (h_state h') = hs_lpb (h_state h) /\
  ((h' = h /\ msgs = [] /\ hs_lut (h_state h) <= e_now (w_env w) /\
    e_now (w_env w) - hs_lut (h_state h) <= hp_epoch (h_params h))
   \/ closes w h (cb_reqb (h_batch h)) (cb_reqst (h_batch h)) h' msgs).
Proof.
  unfold maybe_undelegate, sub64. intros H.
  destruct (hs_lut (h_state h) <=? e_now (w_env w)) eqn:E1; cbn [bind] in H; [|discriminate].
  destruct (hp_epoch (h_params h) <? e_now (w_env w) - hs_lut (h_state h)) eqn:E2.
  - apply process_undelegations_spec in H.
    destruct H as (Hw & Hl & Hb & Ht & Hall & entry & bund & sund & Hrest).
    split; [exact Hw|]. split; [exact Hl|]. right. unfold closes.
    split; [lia|]. split; [lia|]. split; [exact Hb|]. split; [exact Ht|]. split; [exact Hall|].
    exists entry, bund, sund. exact Hrest.
  - inversion H; subst. split; [reflexivity|]. split; [reflexivity|]. left.
    repeat split; lia.
Qed.

(** ** the Unbond hook *)

(** the peg-recovery fee charged on a bSei unbond of [amount] (0 when the rate is at or above the
    recovery threshold), as the handler computes it after applying pending slashing *)
Definition unbond_fee (w : world) (h : hub) (self : addr) (amount : N) : result N :=
  do h1 <- slashing w self h;
  let s := h_state h1 in
  do supply <- hub_bsei_supply w h1;
  if hs_ber s <? hp_thr (h_params h) then
    do max_fee <- mulU amount (hp_pegfee (h_params h));
    do c <- add128 supply (cb_reqb (h_batch h1));
    do required <- sub128 c (hs_bb s);
    Some (peg_fee max_fee required)
  else Some 0.

(** what an accepted Unbond does to the books: [db]/[dst] are the bSei / stSei amounts credited *)
Definition unbond_shape (w : world) (h : hub) (user : addr) (db dst : N) (h' : hub) (msgs : list cmsg)
  : Prop :=
  let c := cb_id (h_batch h) in
  let rb := cb_reqb (h_batch h) + db in
  let rs := cb_reqst (h_batch h) + dst in
  h_wait h' = set eqbAN (h_wait h) (user, c)
                  (fst (wait_of h user c) + db, snd (wait_of h user c) + dst) /\
  hs_lpb (h_state h') = hs_lpb (h_state h) /\
  static_eq h h' /\
  ((msgs = [] /\ h_batch h' = mkBatch c rb rs /\ h_hist h' = h_hist h /\
    hs_lut (h_state h') = hs_lut (h_state h) /\
    hs_lut (h_state h) <= e_now (w_env w) /\
    e_now (w_env w) - hs_lut (h_state h) <= hp_epoch (h_params h))
   \/ closes w h rb rs h' msgs).

Lemma unbond_b_spec w h self amount user h' out :
  execute_unbond w h self amount user = Some (h', out) ->
  exists fee msgs tok,
    unbond_fee w h self amount = Some fee /\ fee <= amount /\ hc_bsei (h_cfg h) = Some tok /\
    out = msgs ++ [MWasm tok (WCw20 (CBurn amount)) []] /\
    unbond_shape w h user (amount - fee) 0 h' msgs.
Proof.
  intros H0. pose proof (execute_unbond_static _ _ _ _ _ _ _ H0) as Hst.
  unfold execute_unbond in H0. unfold unbond_fee.
  bind_inv H0 as h1 Hh1. cbn [bind].
  pose proof (slashing_frame _ _ _ _ Hh1) as (F1 & F2 & F3 & F4 & F5 & F6 & F7).
  pose proof (slashing_times _ _ _ _ Hh1) as (T1 & T2).
  bind_inv H0 as supply Hs. cbn [bind].
  bind_inv H0 as awf Hawf. bind_inv H0 as reqb Hreqb. bind_inv H0 as h2 Hh2.
  bind_inv H0 as supply' Hs'. bind_inv H0 as ber Hber. bind_inv H0 as r Hr. destruct r as [h4 msgs].
  bind_inv H0 as tok Htok. inversion H0; subst h' out. clear H0.
  apply add_wait_spec in Hh2. subst h2.
  apply maybe_undelegate_spec in Hr. cbn [h_wait set_h_batch set_h_state set_h_wait h_state h_params
    h_batch cb_reqb cb_reqst cb_id hs_lpb hs_lut set_ber set_rates h_hist] in Hr.
  destruct Hr as (Hw & Hl & Hcase).
  assert (Hfee : exists fee, (if hs_ber (h_state h1) <? hp_thr (h_params h)
                   then do max_fee <- mulU amount (hp_pegfee (h_params h));
                        do c <- add128 supply (cb_reqb (h_batch h1));
                        do required <- sub128 c (hs_bb (h_state h1)); Some (peg_fee max_fee required)
                   else Some 0) = Some fee /\ fee <= amount /\ awf = amount - fee).
  { destruct (hs_ber (h_state h1) <? hp_thr (h_params h)).
    - bind_inv Hawf as mf Hmf. cbn [bind]. bind_inv Hawf as c Hc. cbn [bind].
      bind_inv Hawf as rq Hrq. cbn [bind].
      unfold sub128 in Hawf. destruct (peg_fee mf rq <=? amount) eqn:E; [|discriminate].
      inversion Hawf; subst. eexists. split; [reflexivity|]. split; [lia | reflexivity].
    - inversion Hawf; subst. exists 0. split; [reflexivity|]. split; lia. }
  destruct Hfee as (fee & Efee & Hle & ->).
  exists fee, msgs, tok. split; [exact Efee|]. split; [exact Hle|].
  assert (Htok' : hc_bsei (h_cfg h) = Some tok).
  { destruct Hst as (C1 & _). rewrite <- C1. exact Htok. }
  split; [exact Htok'|]. split; [reflexivity|].
  unfold add128, narrow128 in Hreqb. destruct (fits128 (cb_reqb (h_batch h1) + (amount - fee))); [|discriminate].
  inversion Hreqb; subst reqb. clear Hreqb.
  assert (Hwo : wait_of h1 user (cb_id (h_batch h1)) = wait_of h user (cb_id (h_batch h))).
  { unfold wait_of. rewrite F5, F3. reflexivity. }
  unfold unbond_shape. cbn zeta.
  split. { rewrite Hw, Hwo, F5, F3. cbn. rewrite N.add_0_r. reflexivity. }
  split. { rewrite Hl. exact T2. }
  split; [exact Hst|].
  destruct Hcase as [(E4 & Em & Hlt & Hep) | Hcl].
  - left. subst h4 msgs. cbn. rewrite F3, F6, T1, F2 in *. rewrite N.add_0_r. repeat split; assumption.
  - right. rewrite N.add_0_r. rewrite <- F3.
    eapply closes_transport; [| | | |exact Hcl]; cbn; auto; congruence.
Qed.

Lemma unbond_st_spec w h self amount user h' out :
  execute_unbond_stsei w h self amount user = Some (h', out) ->
  exists msgs tok,
    hc_stsei (h_cfg h) = Some tok /\
    out = msgs ++ [MWasm tok (WCw20 (CBurn amount)) []] /\
    unbond_shape w h user 0 amount h' msgs.
Proof.
  intros H0. pose proof (execute_unbond_stsei_static _ _ _ _ _ _ _ H0) as Hst.
  unfold execute_unbond_stsei in H0.
  bind_inv H0 as h1 Hh1.
  pose proof (slashing_frame _ _ _ _ Hh1) as (F1 & F2 & F3 & F4 & F5 & F6 & F7).
  pose proof (slashing_times _ _ _ _ Hh1) as (T1 & T2).
  bind_inv H0 as reqst Hreq. bind_inv H0 as h2 Hh2.
  bind_inv H0 as r Hr. destruct r as [h4 msgs].
  bind_inv H0 as tok Htok. inversion H0; subst h' out. clear H0.
  apply add_wait_spec in Hh2. subst h2.
  apply maybe_undelegate_spec in Hr. cbn [h_wait set_h_batch set_h_state set_h_wait h_state h_params
    h_batch cb_reqb cb_reqst cb_id hs_lpb hs_lut h_hist] in Hr.
  destruct Hr as (Hw & Hl & Hcase).
  exists msgs, tok.
  assert (Htok' : hc_stsei (h_cfg h) = Some tok).
  { destruct Hst as (C1 & _). rewrite <- C1. exact Htok. }
  split; [exact Htok'|]. split; [reflexivity|].
  unfold add128, narrow128 in Hreq. destruct (fits128 (cb_reqst (h_batch h1) + amount)); [|discriminate].
  inversion Hreq; subst reqst. clear Hreq.
  assert (Hwo : wait_of h1 user (cb_id (h_batch h1)) = wait_of h user (cb_id (h_batch h))).
  { unfold wait_of. rewrite F5, F3. reflexivity. }
  unfold unbond_shape. cbn zeta.
  split. { rewrite Hw, Hwo, F5, F3. cbn. rewrite N.add_0_r. reflexivity. }
  split. { rewrite Hl. exact T2. }
  split; [exact Hst|].
  destruct Hcase as [(E4 & Em & Hlt & Hep) | Hcl].
  - left. subst h4 msgs. cbn. rewrite F3, F6, T1, F2 in *. rewrite N.add_0_r. repeat split; assumption.
  - right. rewrite N.add_0_r. rewrite <- F3.
    eapply closes_transport; [| | | |exact Hcl]; cbn; auto; congruence.
Qed.

(** ** release of matured batches *)
Lemma release_group_spec hist historical : forall fuel start,
  let g := release_group hist start historical fuel in
  map fst g = ids_from start (length g) /\
  (forall k e, In (k, e) g ->
     get N.eqb hist k = Some e /\ he_released e = false /\ he_time e <= historical) /\
  (length g = fuel \/
   match get N.eqb hist (start + N.of_nat (length g)) with
   | None => True
   | Some e => historical < he_time e \/ he_released e = true
   end).
Proof.
  induction fuel as [|f IH]; intros start; cbn [release_group].
  - cbn. split; [reflexivity|]. split; [tauto | left; reflexivity].
  - destruct (get N.eqb hist start) as [e|] eqn:Eg.
    + destruct (historical <? he_time e) eqn:Et.
      * cbn. split; [reflexivity|]. split; [tauto|]. right. rewrite N.add_0_r, Eg. left. lia.
      * destruct (he_released e) eqn:Er.
        -- cbn. split; [reflexivity|]. split; [tauto|]. right. rewrite N.add_0_r, Eg. right. exact Er.
        -- specialize (IH (start + 1)). cbn zeta in IH. destruct IH as (I1 & I2 & I3).
           cbn [map fst length ids_from In]. split; [rewrite I1; reflexivity|]. split.
           ++ intros k e0 [Hin|Hin]; [inversion Hin; subst; repeat split; [assumption|assumption|lia] | apply I2; exact Hin].
           ++ destruct I3 as [I3|I3]; [left; lia|]. right.
              replace (start + N.of_nat (S (length (release_group hist (start + 1) historical f))))
                with (start + 1 + N.of_nat (length (release_group hist (start + 1) historical f))) by lia.
              exact I3.
    + cbn. split; [reflexivity|]. split; [tauto|]. right. rewrite N.add_0_r, Eg. exact I.
Qed.

(** [e'] is the released version of the unreleased entry [e]: only the two withdraw rates and
    the flag differ *)
Definition released_version (e e' : hist_entry) : Prop :=
  he_time e' = he_time e /\ he_bamt e' = he_bamt e /\ he_bapplied e' = he_bapplied e /\
  he_samt e' = he_samt e /\ he_sapplied e' = he_sapplied e /\ he_released e' = true.

Section PwrFold.
  Variable stepf : fmap N hist_entry -> N * hist_entry -> result (fmap N hist_entry).
  Hypothesis stepf_spec : forall hist i e hist1, stepf hist (i, e) = Some hist1 ->
    exists e', hist1 = hist_put hist i e' /\ released_version e e'.

  Lemma pwr_fold_spec : forall g hist0 hist', foldM stepf g hist0 = Some hist' ->
    (forall k, ~ In k (map fst g) -> get N.eqb hist' k = get N.eqb hist0 k) /\
    (NoDup (map fst g) -> forall k e, In (k, e) g ->
       exists e', get N.eqb hist' k = Some e' /\ released_version e e') /\
    (forall s n, map fst hist0 = ids_from s n -> (forall k, In k (map fst g) -> s <= k < s + N.of_nat n) ->
       map fst hist' = map fst hist0).
  Proof.
    induction g as [|[i e] g IH]; intros hist0 hist' H; cbn [foldM] in H.
    - inversion H; subst. split; [auto|]. split; [intros _ k e []|auto].
    - bind_inv H as hist1 H1. apply stepf_spec in H1. destruct H1 as (e' & -> & Hrv).
      destruct (IH _ _ H) as (I1 & I2 & I3). cbn [map fst In]. split; [|split].
      + intros k Hk. rewrite I1 by tauto. apply hget_put_other. intros ->. apply Hk. auto.
      + intros Hnd k e0 [Hin|Hin].
        * inversion Hin; subst. inversion Hnd; subst. rewrite I1 by assumption.
          rewrite hget_put_same. eauto.
        * inversion Hnd; subst. apply I2; assumption.
      + intros s n Hk Hr. rewrite (I3 s n).
        * eapply hkeys_put_in; [exact Hk | apply Hr; auto].
        * erewrite hkeys_put_in; [exact Hk | exact Hk | apply Hr; auto].
        * intros k Hin. apply Hr. auto.
  Qed.
End PwrFold.

Lemma fold_last_ids : forall (g : list (N * hist_entry)) start a,
  map fst g = ids_from start (length g) -> a + 1 = start ->
  fold_left (fun (_ : N) ie => fst ie) g a = a + N.of_nat (length g).
Proof.
  induction g as [|[i e] g IH]; intros start a Hk Ha; cbn [fold_left length].
  - cbn. lia.
  - cbn [map fst length ids_from] in Hk. inversion Hk as [[Hi Hr]]. cbn [fst].
    rewrite (IH (start + 1) start); [lia | exact Hr | reflexivity].
Qed.

Lemma pwr_spec h historical hbal h' : process_withdraw_rate h historical hbal = Some h' ->
  exists n : nat,
    hs_lpb (h_state h') = hs_lpb (h_state h) + N.of_nat n /\
    hs_lut (h_state h') = hs_lut (h_state h) /\
    h_wait h' = h_wait h /\ h_batch h' = h_batch h /\
    (forall k, hs_lpb (h_state h) < k <= hs_lpb (h_state h) + N.of_nat n ->
       exists e e', get N.eqb (h_hist h) k = Some e /\ he_released e = false /\
                    he_time e <= historical /\
                    get N.eqb (h_hist h') k = Some e' /\ released_version e e') /\
    (forall k, ~ (hs_lpb (h_state h) < k <= hs_lpb (h_state h) + N.of_nat n) ->
       get N.eqb (h_hist h') k = get N.eqb (h_hist h) k) /\
    (HistShape h -> map fst (h_hist h') = map fst (h_hist h)) /\
    (n = length (h_hist h) \/
     match get N.eqb (h_hist h) (hs_lpb (h_state h) + 1 + N.of_nat n) with
     | None => True
     | Some e => historical < he_time e \/ he_released e = true
     end).
Proof.
  unfold process_withdraw_rate. intros H.
  pose proof (release_group_spec (h_hist h) historical (length (h_hist h)) (hs_lpb (h_state h) + 1))
    as Hg. cbn zeta in Hg.
  set (g := release_group (h_hist h) (hs_lpb (h_state h) + 1) historical (length (h_hist h))) in *.
  destruct Hg as (G1 & G2 & G3).
  destruct g as [|g0 gr] eqn:Eg.
  - inversion H; subst h'. exists 0%nat. cbn [length] in *.
    rewrite N.add_0_r. repeat split; try reflexivity.
    + intros k Hk. lia.
    + destruct G3 as [G3|G3]; [left; exact G3 | right; exact G3].
  - rewrite <- Eg in *. clear Eg g0 gr.
    bind_inv H as tot Htot. destruct tot as [st_total b_total].
    bind_inv H as change Hch. check_inv H as Hneg.
    bind_inv H as both Hboth. bind_inv H as b_ratio Hbr. bind_inv H as b_actual Hba.
    bind_inv H as b_sl Hbsl. bind_inv H as st_actual Hsta. bind_inv H as st_sl Hstsl.
    bind_inv H as hist' Hhist. inversion H; subst h'. clear H.
    eapply pwr_fold_spec in Hhist.
    2:{ intros hist i e hist1 Hs. bind_inv Hs as sr Hsr. bind_inv Hs as br Hbrr. inversion Hs; subst.
        eexists. split; [reflexivity|]. unfold released_version. cbn. repeat split. }
    destruct Hhist as (P1 & P2 & P3).
    assert (Hnd : NoDup (map fst g)).
    { rewrite G1. clear. generalize (hs_lpb (h_state h) + 1). induction (length g) as [|n IH]; intros s; cbn [ids_from]; constructor.
      - rewrite ids_from_in. lia.
      - apply IH. }
    exists (length g). cbn [h_state set_h_state set_h_hist hs_lpb hs_lut h_wait h_batch h_hist].
    split. { apply (fold_last_ids g (hs_lpb (h_state h) + 1)); [exact G1 | reflexivity]. }
    split; [reflexivity|]. split; [reflexivity|]. split; [reflexivity|].
    split; [|split; [|split]].
    + intros k Hk.
      assert (Hin : In k (map fst g)) by (rewrite G1, ids_from_in; lia).
      apply in_map_iff in Hin. destruct Hin as ([k0 e] & Hk0 & Hin). cbn [fst] in Hk0. subst k0.
      destruct (G2 _ _ Hin) as (A1 & A2 & A3).
      destruct (P2 Hnd _ _ Hin) as (e' & B1 & B2). exists e, e'. auto.
    + intros k Hk. apply P1. rewrite G1, ids_from_in. lia.
    + intros [Hs1 Hs2]. eapply P3; [exact Hs2|].
      intros k Hin. apply in_map_iff in Hin. destruct Hin as ([k0 e] & Hk0 & Hin). cbn [fst] in Hk0. subst k0.
      destruct (G2 _ _ Hin) as (A1 & _).
      assert (Hk : In k (map fst (h_hist h))) by (apply hget_keys; congruence).
      rewrite Hs2, ids_from_in in Hk. exact Hk.
    + exact G3.
Qed.

(** ** the amount and the batch list of a withdrawal *)
Definition released_at (hist : fmap N hist_entry) (b : N) : bool :=
  match get N.eqb hist b with Some e => he_released e | None => false end.

(** [v] is the payout of wait entry [bx] = (batch, (bsei, stsei)): its batch is released and [v] is
    the entry valued at that batch's withdraw rates *)
Definition paid_entry (hist : fmap N hist_entry) (bx : N * (N * N)) (v : N) : Prop :=
  exists e, get N.eqb hist (fst bx) = Some e /\ he_released e = true /\
            claim_value e (snd bx) = Some v.

Lemma finished_fold_spec h : forall l t0 bs0 t bs,
  foldM (fun acc bx =>
           match get N.eqb (h_hist h) (fst bx) with
           | Some e =>
               if he_released e then
                 do v <- claim_value e (snd bx);
                 do t <- add128 (fst acc) v;
                 Some (t, snd acc ++ [fst bx])
               else Some acc
           | None => Some acc
           end) l (t0, bs0) = Some (t, bs) ->
  let rl := filter (fun bx => released_at (h_hist h) (fst bx)) l in
  bs = bs0 ++ map fst rl /\ exists vs, Forall2 (paid_entry (h_hist h)) rl vs /\ t = t0 + sumN vs.
Proof.
  induction l as [|bx l IH]; intros t0 bs0 t bs H; cbn [foldM filter] in *.
  - inversion H; subst. cbn. split; [rewrite app_nil_r; reflexivity|]. exists []. split; [constructor | cbn; lia].
  - destruct (get N.eqb (h_hist h) (fst bx)) as [e|] eqn:Eg.
    + destruct (he_released e) eqn:Er.
      * assert (Hra : released_at (h_hist h) (fst bx) = true) by (unfold released_at; rewrite Eg; exact Er).
        rewrite Hra.
        bind_inv H as acc1 Hacc. bind_inv Hacc as v Hv. bind_inv Hacc as t1 Ht1. inversion Hacc; subst acc1.
        cbn [fst snd] in *. apply IH in H. cbn zeta in H. destruct H as (Hb & vs & Hf & Ht).
        cbn [map fst]. split; [rewrite Hb, <- app_assoc; reflexivity|].
        exists (v :: vs). split.
        -- constructor; [|exact Hf]. exists e. auto.
        -- unfold add128, narrow128 in Ht1. destruct (fits128 (t0 + v)); [|discriminate].
           inversion Ht1; subst. cbn [sumN]. lia.
      * assert (Hra : released_at (h_hist h) (fst bx) = false) by (unfold released_at; rewrite Eg; exact Er).
        rewrite Hra. cbn [bind] in H. apply IH in H. exact H.
    + assert (Hra : released_at (h_hist h) (fst bx) = false) by (unfold released_at; rewrite Eg; reflexivity).
      rewrite Hra. cbn [bind] in H. apply IH in H. exact H.
Qed.

Lemma finished_amount_spec h u amount batches : finished_amount h u = Some (amount, batches) ->
  let rl := filter (fun bx => released_at (h_hist h) (fst bx)) (user_waits h u) in
  batches = map fst rl /\ exists vs, Forall2 (paid_entry (h_hist h)) rl vs /\ amount = sumN vs.
Proof.
  unfold finished_amount. intros H. apply finished_fold_spec in H. cbn zeta in *.
  destruct H as (Hb & vs & Hf & Ht). split; [exact Hb|]. exists vs. split; [exact Hf | lia].
Qed.

(** what an accepted WithdrawUnbonded does *)
Definition withdraw_shape (w : world) (h : hub) (self sender : addr) (h' : hub) (out : list cmsg) : Prop :=
  exists h1 amount vs,
    hp_unbonding (h_params h) <= e_now (w_env w) /\
    process_withdraw_rate h (e_now (w_env w) - hp_unbonding (h_params h))
                          (bal (w_env w) self (hp_underlying (h_params h))) = Some h1 /\
    let rl := filter (fun bx => released_at (h_hist h1) (fst bx)) (user_waits h sender) in
    h_wait h' = fold_left (fun m b => del eqbAN m (sender, b)) (map fst rl) (h_wait h) /\
    h_hist h' = h_hist h1 /\ h_batch h' = h_batch h /\
    hs_lut (h_state h') = hs_lut (h_state h) /\ hs_lpb (h_state h') = hs_lpb (h_state h1) /\
    static_eq h h' /\
    amount <> 0 /\ out = [MBank sender [(hp_underlying (h_params h), amount)]] /\
    Forall2 (paid_entry (h_hist h1)) rl vs /\ amount = sumN vs.

Lemma withdraw_spec w h self sender h' out :
  execute_withdraw w h self sender = Some (h', out) -> withdraw_shape w h self sender h' out.
Proof.
  intros H0. pose proof (execute_withdraw_static _ _ _ _ _ _ H0) as Hst.
  unfold execute_withdraw in H0. unfold sub64 in H0.
  destruct (hp_unbonding (h_params h) <=? e_now (w_env w)) eqn:Eu; cbn [bind] in H0; [|discriminate].
  bind_inv H0 as h1 Hh1. bind_inv H0 as fa Hfa. destruct fa as [amount batches].
  check_inv H0 as Hnz. bind_inv H0 as prev Hprev. inversion H0; subst h' out. clear H0.
  pose proof (pwr_spec _ _ _ _ Hh1) as (n & L1 & L2 & L3 & L4 & _).
  apply finished_amount_spec in Hfa. cbn zeta in Hfa. destruct Hfa as (Hb & vs & Hf & Ha).
  assert (Huw : user_waits h1 sender = user_waits h sender) by (unfold user_waits; rewrite L3; reflexivity).
  rewrite Huw in *.
  exists h1, amount, vs. split; [lia|]. split; [exact Hh1|]. cbn zeta.
  split; [cbn; rewrite Hb, L3; reflexivity|].
  split; [reflexivity|]. split; [cbn; exact L4|]. split; [cbn; exact L2|]. split; [reflexivity|].
  split; [exact Hst|]. split; [lia|]. split; [reflexivity|]. split; [exact Hf | exact Ha].
Qed.

(** ** all other messages leave the books alone *)
Definition books_eq (h h' : hub) : Prop :=
  h_wait h' = h_wait h /\ h_hist h' = h_hist h /\ h_batch h' = h_batch h /\
  hs_lut (h_state h') = hs_lut (h_state h) /\ hs_lpb (h_state h') = hs_lpb (h_state h) /\
  h_oldwait h' = h_oldwait h.

(** no Undelegate and no Bank message *)
Definition quiet_out (out : list cmsg) : Prop :=
  forall m, In m out -> is_undelegate m = false /\ is_bank m = false.

Lemma books_eq_refl h : books_eq h h.
Proof. repeat split. Qed.

Lemma quiet_nil : quiet_out [].
Proof. intros m []. Qed.

Lemma quiet_app a b : quiet_out a -> quiet_out b -> quiet_out (a ++ b).
Proof. intros Ha Hb m Hin. apply in_app_iff in Hin. destruct Hin; auto. Qed.

Lemma quiet_delegate vals xs d : quiet_out (delegate_msgs vals xs d).
Proof.
  intros m Hin. unfold delegate_msgs in Hin. apply in_flat_map in Hin. destruct Hin as (p & _ & Hin).
  destruct (snd p =? 0); [destruct Hin|]. destruct Hin as [<-|[]]. split; reflexivity.
Qed.

Lemma execute_bond_books w h self sender funds k h' out :
  execute_bond w h self sender funds k = Some (h', out) -> books_eq h h' /\ quiet_out out.
Proof.
  intros H0. pose proof (execute_bond_frame _ _ _ _ _ _ _ _ H0) as (F1 & F2 & F3 & F4 & F5 & F6 & F7).
  unfold execute_bond in H0. rename H0 into H.
  bind_inv H as dispaddr Hd. check_inv H as Hauth. check_inv H as Hlen.
  bind_inv H as pay Hpay. bind_inv H as h1 Hh1.
  apply slashing_times in Hh1. destruct Hh1 as (T1 & T2).
  bind_inv H as mint Hmint. bind_inv H as supply Hsupply. bind_inv H as s' Hs'.
  assert (Ht : hs_lut s' = hs_lut (h_state h1) /\ hs_lpb s' = hs_lpb (h_state h1)).
  { destruct k.
    - bind_inv Hs' as bb Hbb. bind_inv Hs' as ber Hber. inversion Hs'; subst. cbn. auto.
    - bind_inv Hs' as bst Hbst. inversion Hs'; subst. cbn. auto.
    - bind_inv Hs' as bst Hbst. bind_inv Hs' as ser Hser. inversion Hs'; subst. cbn. auto. }
  destruct Ht as (T3 & T4).
  bind_inv H as vals Hvals. destruct vals as [|v0 vr]; [discriminate|].
  bind_inv H as r Hr.
  assert (Hq : forall tok, quiet_out (delegate_msgs (v0 :: vr) (snd r) (fst pay) ++
                                       [MWasm tok (WCw20 (CMint sender mint)) []])).
  { intros tok. apply quiet_app; [apply quiet_delegate|]. intros m [<-|[]]. split; reflexivity. }
  destruct k.
  - bind_inv H as tok Htok. inversion H; subst. split; [|apply Hq].
    unfold books_eq. cbn in *. repeat split; congruence.
  - bind_inv H as tok Htok. inversion H; subst. split; [|apply Hq].
    unfold books_eq. cbn in *. repeat split; congruence.
  - inversion H; subst. split; [|apply quiet_delegate].
    unfold books_eq. cbn in *. repeat split; congruence.
Qed.

Lemma convert_stsei_bsei_books w h self amount user h' out :
  convert_stsei_bsei w h self amount user = Some (h', out) -> books_eq h h' /\ quiet_out out.
Proof.
  unfold convert_stsei_bsei. intros H.
  bind_inv H as h1 Hh1. pose proof (slashing_frame _ _ _ _ Hh1) as (F1 & F2 & F3 & F4 & F5 & F6 & F7).
  apply slashing_times in Hh1. destruct Hh1 as (T1 & T2).
  bind_inv H as a1 E1. bind_inv H as a2 E2. bind_inv H as a3 E3. bind_inv H as a4 E4.
  bind_inv H as a5 E5. bind_inv H as a6 E6. bind_inv H as a7 E7. bind_inv H as a8 E8.
  bind_inv H as a9 E9. bind_inv H as a10 E10. bind_inv H as a11 E11. bind_inv H as a12 E12.
  bind_inv H as a13 E13. inversion H; subst. split.
  - unfold books_eq. cbn. repeat split; assumption.
  - intros m [<-|[<-|[]]]; split; reflexivity.
Qed.

Lemma convert_bsei_stsei_books w h self amount user h' out :
  convert_bsei_stsei w h self amount user = Some (h', out) -> books_eq h h' /\ quiet_out out.
Proof.
  unfold convert_bsei_stsei. intros H.
  bind_inv H as h1 Hh1. pose proof (slashing_frame _ _ _ _ Hh1) as (F1 & F2 & F3 & F4 & F5 & F6 & F7).
  apply slashing_times in Hh1. destruct Hh1 as (T1 & T2).
  bind_inv H as a1 E1. bind_inv H as a2 E2. bind_inv H as a3 E3. bind_inv H as a4 E4.
  bind_inv H as a5 E5. bind_inv H as a6 E6. bind_inv H as a7 E7. bind_inv H as a8 E8.
  bind_inv H as a9 E9. bind_inv H as a10 E10. bind_inv H as a11 E11. bind_inv H as a12 E12.
  bind_inv H as a13 E13. inversion H; subst. split.
  - unfold books_eq. cbn. repeat split; assumption.
  - intros m [<-|[<-|[]]]; split; reflexivity.
Qed.

Lemma update_global_books w h self sender n h' out :
  execute_update_global w h self sender n = Some (h', out) -> books_eq h h' /\ quiet_out out.
Proof.
  unfold execute_update_global. intros H. check_inv H as Hauth.
  bind_inv H as d Hd. bind_inv H as hooks Hhooks. inversion H; subst. split; [repeat split|].
  apply quiet_app; [|apply quiet_app].
  - destruct (n =? 0); [inversion Hhooks; subst; apply quiet_nil|].
    bind_inv Hhooks as reg Hreg. inversion Hhooks; subst.
    intros m Hin. apply repeat_spec in Hin. subst. split; reflexivity.
  - intros m Hin. apply in_map_iff in Hin. destruct Hin as (x & <- & _). split; reflexivity.
  - intros m [<-|[<-|[]]]; split; reflexivity.
Qed.

(** ** every successful hub message is of one of four kinds *)
Inductive hub_case (w : world) (h : hub) (self sender : addr) (m : hub_msg) (h' : hub)
          (out : list cmsg) : Prop :=
| HC_quiet :
    (forall l, m <> HMigrate l) -> (forall u a, m <> HReceive u a HkUnbond) -> m <> HWithdraw ->
    books_eq h h' -> quiet_out out -> hub_case w h self sender m h' out
| HC_migrate limit :
    m = HMigrate limit -> h' = migrate_wait_lists h limit -> out = [] ->
    hub_case w h self sender m h' out
| HC_unbond user amount db dst msgs :
    m = HReceive user amount HkUnbond ->
    out = msgs ++ [MWasm sender (WCw20 (CBurn amount)) []] ->
    ((hc_bsei (h_cfg h) = Some sender /\ dst = 0 /\
      exists fee, unbond_fee w h self amount = Some fee /\ fee <= amount /\ db = amount - fee) \/
     (hc_bsei (h_cfg h) <> Some sender /\ hc_stsei (h_cfg h) = Some sender /\ db = 0 /\ dst = amount)) ->
    unbond_shape w h user db dst h' msgs ->
    hub_case w h self sender m h' out
| HC_withdraw :
    m = HWithdraw -> withdraw_shape w h self sender h' out ->
    hub_case w h self sender m h' out.

Lemma hub_execute_cases w h self sender funds m h' out :
  hub_execute w h self sender funds m = Some (h', out) -> hub_case w h self sender m h' out.
Proof.
  intros H. unfold hub_execute in H.
  destruct m.
  - (* Bond *) check_inv H as Hp. apply execute_bond_books in H. destruct H.
    apply HC_quiet; try congruence; assumption.
  - check_inv H as Hp. apply execute_bond_books in H. destruct H.
    apply HC_quiet; try congruence; assumption.
  - check_inv H as Hp. apply execute_bond_books in H. destruct H.
    apply HC_quiet; try congruence; assumption.
  - (* UpdateGlobal *) check_inv H as Hp. apply update_global_books in H. destruct H.
    apply HC_quiet; try congruence; assumption.
  - (* Withdraw *) check_inv H as Hp. apply HC_withdraw; [reflexivity|]. apply withdraw_spec. exact H.
  - (* CheckSlashing *) check_inv H as Hp. bind_inv H as h1 Hh1. inversion H; subst.
    pose proof (slashing_frame _ _ _ _ Hh1) as (F1 & F2 & F3 & F4 & F5 & F6 & F7).
    apply slashing_times in Hh1. destruct Hh1 as (T1 & T2).
    apply HC_quiet; try congruence; [|apply quiet_nil]. repeat split; assumption.
  - (* Params *) apply update_params_spec in H. destruct H as (_ & _ & _ & -> & ->).
    apply HC_quiet; try congruence; [|apply quiet_nil]. repeat split.
  - (* Config *) check_inv H as Hp. pose proof H as H2. apply update_config_spec in H.
    destruct H as (_ & _ & _ & _ & _ & Ho & Hs & Hb & Hw & Hh & _).
    apply HC_quiet; try congruence.
    + unfold books_eq. rewrite Hs. repeat split; assumption.
    + unfold execute_update_config in H2. check_inv H2 as X1. check_inv H2 as X2. check_inv H2 as X3.
      inversion H2; subst. destruct disp; [|apply quiet_nil]. intros m [<-|[]]. split; reflexivity.
  - (* SetOwner *) check_inv H as Hp. check_inv H as Hs. inversion H; subst.
    apply HC_quiet; try congruence; [|apply quiet_nil]. repeat split.
  - (* Accept *) check_inv H as Hp. check_inv H as Hs. inversion H; subst.
    apply HC_quiet; try congruence; [|apply quiet_nil]. repeat split.
  - (* RedelProxy *) check_inv H as Hp. bind_inv H as reg Hreg. check_inv H as Hs. inversion H; subst.
    apply HC_quiet; try congruence; [apply books_eq_refl|].
    intros m Hin. apply in_map_iff in Hin. destruct Hin as (x & <- & _). split; reflexivity.
  - (* SwapHook *) check_inv H as Hp. check_inv H as Hs. bind_inv H as t Ht. check_inv H as Hb.
    inversion H; subst. apply HC_quiet; try congruence; [apply books_eq_refl|].
    intros m [<-|[]]. split; reflexivity.
  - (* ClaimAirdrop *) check_inv H as Hp. bind_inv H as reg Hreg. check_inv H as Hs. inversion H; subst.
    apply HC_quiet; try congruence; [apply books_eq_refl|].
    intros m [<-|[<-|[]]]; split; reflexivity.
  - (* Migrate *) destruct (paused h); [|discriminate]. inversion H; subst.
    eapply HC_migrate; reflexivity.
  - (* Receive *) check_inv H as Hp. unfold receive_cw20 in H.
    bind_inv H as b Hb. bind_inv H as st Hst.
    destruct h0; [| |discriminate].
    + (* Unbond *)
      destruct (sender =? b) eqn:E1.
      * apply N.eqb_eq in E1. subst b. apply unbond_b_spec in H.
        destruct H as (fee & msgs & tok & Hfee & Hle & Htok & -> & Hshape).
        assert (tok = sender) by congruence. subst tok.
        eapply HC_unbond; [reflexivity | reflexivity | | exact Hshape].
        left. split; [exact Hb|]. split; [reflexivity|]. exists fee. auto.
      * destruct (sender =? st) eqn:E2; [|discriminate]. apply N.eqb_eq in E2. subst st.
        apply unbond_st_spec in H. destruct H as (msgs & tok & Htok & -> & Hshape).
        assert (tok = sender) by congruence. subst tok.
        eapply HC_unbond; [reflexivity | reflexivity | | exact Hshape].
        right. split; [|auto]. rewrite Hb. intros X. inversion X. lia.
    + (* Convert *)
      destruct (sender =? b) eqn:E1.
      * apply convert_bsei_stsei_books in H. destruct H. apply HC_quiet; try congruence; assumption.
      * destruct (sender =? st) eqn:E2; [|discriminate].
        apply convert_stsei_bsei_books in H. destruct H. apply HC_quiet; try congruence; assumption.
Qed.

(** ** lifting a hub-state invariant to every history *)
Definition HubW (P : hub -> Prop) (w : world) : Prop := forall h, w_hub w = Some h -> P h.

Definition not_legacy (o : op) : bool := match o with OLegacyWait _ _ _ => false | _ => true end.

(** E6: the history contains no injection of pre-v2 wait-list entries *)
Definition legacy_free (ops : list op) : bool := forallb not_legacy ops.

Section Lift.
  Variable P : hub -> Prop.
  Hypothesis P_exec : forall w h self sender funds m h' out,
    P h -> hub_execute w h self sender funds m = Some (h', out) -> P h'.
  Hypothesis P_inst : forall sender now epoch unbonding pegfee thr updater underlying rdenom h,
    hub_instantiate sender now epoch unbonding pegfee thr updater underlying rdenom = Some h -> P h.

  Lemma step_msg_hubw w s m w' out : HubW P w -> step_msg w s m = Some (w', out) -> HubW P w'.
  Proof.
    intros HI H. apply step_msg_inv in H. destruct H as [e' -> _ _ | to wm funds e1 o -> Hsend Hc _].
    - exact HI.
    - unfold HubW in *.
      destruct Hc as [h hm h' -> -> Hw He -> | r rm r' -> _ Hw He -> | d dm d' -> -> Hw He ->
                     | g gm g' -> -> Hw He -> | t cm t' -> -> Hw He -> | t cm t' -> -> Hw He ->
                     | sm e' -> -> He -> -> | -> -> ->]; cbn [w_hub set_hub set_reward set_disp
                        set_reg set_bsei set_stsei set_env] in *; try assumption.
      intros h0 E. inversion E; subst. eapply P_exec; [|exact He]. apply HI. exact Hw.
  Qed.

  Lemma step_hubw_tx w sender target m funds :
    HubW P w -> HubW P (fst (step w (OTx sender target m funds))).
  Proof.
    intros HI. cbn [step]. destruct (run tx_fuel w _ []) as [[w1 tr1]|] eqn:E; cbn [fst]; [|exact HI].
    eapply (run_preserves (HubW P)); [|exact HI|exact E]. intros. eapply step_msg_hubw; eauto.
  Qed.

  Lemma step_hubw w o :
    (forall a b amt h, o = OLegacyWait a b amt -> P h ->
                       P (set_h_oldwait h (oldwait_put (h_oldwait h) (a, b) amt))) ->
    HubW P w -> HubW P (fst (step w o)).
  Proof.
    intros Hleg HI. destruct o; try exact HI.
    - intros x E. discriminate.
    - cbn [step]. destruct (e_now (w_env w) + dt <=? 18446744073); exact HI.
    - cbn [step]. destruct (ev_slash _ _ _ _ _); exact HI.
    - cbn [step]. destruct (ev_accrue _ _ _ _ _); exact HI.
    - cbn [step]. destruct (p =? 0); exact HI.
    - cbn [step]. destruct (w_hub w) as [h|] eqn:Hw; [|exact HI]. cbn [fst].
      intros h0 E. cbn in E. inversion E; subst. eapply Hleg; [reflexivity|]. apply HI. exact Hw.
    - cbn [step fst]. intros h0 E. cbn in E. eapply P_inst. exact E.
    - apply step_hubw_tx. exact HI.
  Qed.

  (** for invariants that do not mention the legacy list: every history *)
  Lemma hubw_run_ops_all :
    (forall h x, P h -> P (set_h_oldwait h x)) ->
    forall ops w, HubW P w -> HubW P (run_ops ops w).
  Proof.
    intros Hleg ops. unfold run_ops. induction ops as [|o ops IH]; intros w HI; cbn [fold_left]; [exact HI|].
    apply IH. apply step_hubw; [|exact HI]. intros. apply Hleg. assumption.
  Qed.

  (** for invariants that need E6: legacy-free histories *)
  Lemma hubw_run_ops :
    forall ops w, legacy_free ops = true -> HubW P w -> HubW P (run_ops ops w).
  Proof.
    unfold run_ops, legacy_free. induction ops as [|o ops IH]; intros w Hl HI; cbn [fold_left]; [exact HI|].
    cbn [forallb] in Hl. apply andb_true_iff in Hl. destruct Hl as [Ho Hl].
    apply IH; [exact Hl|]. apply step_hubw; [|exact HI].
    intros a b amt h ->. discriminate.
  Qed.
End Lift.

Lemma hubw_empty P ut : HubW P (empty_world ut).
Proof. intros h E. discriminate. Qed.
