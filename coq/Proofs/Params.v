(** * Params (C20): stored parameters stay in range along every history; denominations are fixed
    for the lifetime of a contract instance; omitted fields keep their stored value. *)
From Krp Require Import Tactics Prelude Fixed FMap Types Env Registry Cw20 Reward Dispatcher Hub Exec
     ExecP HubFrame HubAdmin DispatcherP.
Open Scope N_scope.

Definition PInv (w : world) : Prop :=
  (forall h, w_hub w = Some h -> HPInv h) /\ (forall d, w_disp w = Some d -> DInv d).

Definition denoms_of (w : world) : option denom * option denom :=
  (option_map (fun h => hp_underlying (h_params h)) (w_hub w), option_map dp_std (w_disp w)).

Lemma PInv_env w e : PInv w -> PInv (set_env w e).
Proof. intros H. exact H. Qed.

Lemma step_msg_pinv w s m w' out :
  PInv w -> step_msg w s m = Some (w', out) -> PInv w' /\ denoms_of w' = denoms_of w.
Proof.
  intros HI H. apply step_msg_inv in H. destruct H as [e' -> _ _ | to wm funds e1 o -> Hsend Hc _].
  - split; [exact HI | reflexivity].
  - destruct HI as [Hh Hd]. unfold PInv, denoms_of.
    destruct Hc as [h hm h' -> -> Hw He -> | r rm r' -> _ Hw He -> | d dm d' -> -> Hw He ->
                   | g gm g' -> -> Hw He -> | t cm t' -> -> Hw He -> | t cm t' -> -> Hw He ->
                   | sm e' -> -> He -> -> | -> -> ->]; cbn [w_hub w_disp set_hub set_reward set_disp
                      set_reg set_bsei set_stsei set_env] in *;
      try (split; [split; assumption | reflexivity]).
    + (* hub *) pose proof (hub_execute_pinv _ _ _ _ _ _ _ _ He (Hh _ Hw)) as [Hi Hu].
      split; [split|].
      * intros h0 E. inversion E; subst. exact Hi.
      * exact Hd.
      * rewrite Hw. cbn [option_map]. rewrite Hu. reflexivity.
    + (* dispatcher *) pose proof (disp_execute_inv _ _ _ _ _ _ _ He (Hd _ Hw)) as [Hi Hu].
      split; [split|].
      * exact Hh.
      * intros d0 E. inversion E; subst. exact Hi.
      * rewrite Hw. cbn [option_map]. rewrite Hu. reflexivity.
Qed.

Lemma run_pinv fuel : forall w stack tr w' tr',
  PInv w -> run fuel w stack tr = Some (w', tr') -> PInv w' /\ denoms_of w' = denoms_of w.
Proof.
  induction fuel as [|f IH]; intros w stack tr w' tr' HI H.
  - destruct stack as [|[s m] rest]; cbn [run] in H; [inversion H; subst; auto | discriminate].
  - destruct stack as [|[s m] rest]; cbn [run] in H; [inversion H; subst; auto|].
    bind_inv H as r Hr. destruct r as [w1 out]. cbn [fst snd] in H.
    destruct (step_msg_pinv _ _ _ _ _ HI Hr) as [HI1 Hd1].
    destruct (IH _ _ _ _ _ HI1 H) as [HI2 Hd2]. split; [exact HI2 | congruence].
Qed.

Lemma step_pinv w o : PInv w -> PInv (fst (step w o)).
Proof.
  intros HI. destruct o; cbn [step]; try exact HI.
  - (* reset *) split; intros x E; discriminate.
  - destruct (e_now (w_env w) + dt <=? 18446744073); exact HI.
  - destruct (ev_slash _ _ _ _ _); exact HI.
  - destruct (ev_accrue _ _ _ _ _); exact HI.
  - destruct (p =? 0); exact HI.
  - (* legacy wait *) destruct (w_hub w) as [h|] eqn:Hw; [|exact HI]. cbn [fst].
    destruct HI as [Hh Hd]. split; [|exact Hd].
    intros h0 E. cbn in E. inversion E; subst. apply (Hh _ Hw).
  - (* inst hub *) cbn [fst]. destruct HI as [Hh Hd]. split; [|exact Hd].
    intros h0 E. cbn in E. apply hub_instantiate_pinv in E. tauto.
  - (* inst disp *) cbn [fst]. destruct HI as [Hh Hd]. split; [exact Hh|].
    intros d0 E. cbn in E. apply disp_instantiate_inv in E. tauto.
  - (* tx *) destruct (run tx_fuel w _ []) as [[w1 tr1]|] eqn:E; cbn [fst]; [|exact HI].
    eapply run_pinv in E; [|exact HI]. tauto.
Qed.

(** C20, reachable form: in every world reached by any history the stored parameters are in range *)
Theorem PInv_reachable ut ops : PInv (run_ops ops (empty_world ut)).
Proof.
  apply run_ops_preserves.
  - split; intros x E; discriminate.
  - intros w o. apply step_pinv.
Qed.

(** no transaction changes the underlying coin denomination or the stSei reward denomination *)
Theorem denoms_fixed_by_tx w sender target m funds :
  PInv w -> denoms_of (fst (step w (OTx sender target m funds))) = denoms_of w.
Proof.
  intros HI. cbn [step]. destruct (run tx_fuel w _ []) as [[w1 tr1]|] eqn:E; cbn [fst]; [|reflexivity].
  eapply run_pinv in E; [|exact HI]. tauto.
Qed.

(** an update that omits a field leaves that field's stored value unchanged
    (hub: the pause flag excepted, which becomes the message's option) *)
Theorem hub_params_omitted h sender epoch unbonding pegfee thr pz rdenom h' out :
  HPInv h ->
  execute_update_params h sender epoch unbonding pegfee thr pz rdenom = Some (h', out) ->
  let p := h_params h in let p' := h_params h' in
  (epoch = None -> hp_epoch p' = hp_epoch p) /\
  (unbonding = None -> hp_unbonding p' = hp_unbonding p) /\
  (pegfee = None -> hp_pegfee p' = hp_pegfee p) /\
  (thr = None -> hp_thr p' = hp_thr p) /\
  (rdenom = None -> hp_rdenom p' = hp_rdenom p) /\
  hp_underlying p' = hp_underlying p /\ hp_paused p' = pz /\
  h_cfg h' = h_cfg h /\ h_state h' = h_state h /\ h_batch h' = h_batch h /\
  h_wait h' = h_wait h /\ h_hist h' = h_hist h.
Proof.
  intros [_ Ht] H. apply update_params_spec in H. destruct H as (_ & _ & _ & _ & ->). cbn.
  repeat split; try (intros ->; cbn; reflexivity).
  intros ->. cbn. lia.
Qed.

Theorem disp_config_omitted w dp self sender hubaddr rewardaddr std bd keeper rate dp' out :
  disp_execute w dp self sender (DConfig hubaddr rewardaddr std bd keeper rate) = Some (dp', out) ->
  std = None /\
  (hubaddr = None -> dp_hub dp' = dp_hub dp) /\ (rewardaddr = None -> dp_reward dp' = dp_reward dp) /\
  (bd = None -> dp_bd dp' = dp_bd dp) /\ (keeper = None -> dp_keeper dp' = dp_keeper dp) /\
  (rate = None -> dp_rate dp' = dp_rate dp) /\
  dp_std dp' = dp_std dp /\ dp_owner dp' = dp_owner dp /\ dp_swap dp' = dp_swap dp /\
  dp_denoms dp' = dp_denoms dp /\ dp_oracle dp' = dp_oracle dp /\ dp_newowner dp' = dp_newowner dp.
Proof.
  cbn [disp_execute]. intros H. check_inv H as Hs. check_inv H as Hstd. check_inv H as Hr.
  inversion H; subst. cbn. destruct std; [discriminate|].
  repeat split; intros ->; reflexivity.
Qed.

Theorem reward_config_omitted w r self sender hubaddr d swap r' out :
  reward_execute w r self sender (RConfig hubaddr d swap) = Some (r', out) ->
  (hubaddr = None -> rw_hub r' = rw_hub r) /\ (d = None -> rw_denom r' = rw_denom r) /\
  (swap = None -> rw_swap r' = rw_swap r) /\
  rw_owner r' = rw_owner r /\ rw_denoms r' = rw_denoms r /\ rw_gi r' = rw_gi r /\
  rw_total r' = rw_total r /\ rw_prev r' = rw_prev r /\ rw_holders r' = rw_holders r.
Proof.
  cbn [reward_execute]. intros H. check_inv H as Hs. inversion H; subst. cbn.
  repeat split; intros ->; reflexivity.
Qed.

Theorem reg_config_omitted w g sender g' out :
  reg_execute w g sender (GConfig None) = Some (g', out) -> g' = g.
Proof. cbn [reg_execute]. intros H. check_inv H as Hs. inversion H; subst. reflexivity. Qed.

Theorem hub_config_omitted h sender a b c d e f g h' out :
  execute_update_config h sender a b c d e f g = Some (h', out) ->
  (a = None -> hc_disp (h_cfg h') = hc_disp (h_cfg h)) /\
  (b = None -> hc_reg (h_cfg h') = hc_reg (h_cfg h)) /\
  (c = None -> hc_bsei (h_cfg h') = hc_bsei (h_cfg h)) /\
  (d = None -> hc_stsei (h_cfg h') = hc_stsei (h_cfg h)) /\
  (e = None -> hc_airdrop (h_cfg h') = hc_airdrop (h_cfg h)) /\
  (f = None -> hc_rewards (h_cfg h') = hc_rewards (h_cfg h)) /\
  (g = None -> hc_updater (h_cfg h') = hc_updater (h_cfg h)) /\
  h_params h' = h_params h.
Proof.
  intros H. apply update_config_spec in H.
  destruct H as (_ & _ & _ & Hp & _ & _ & _ & _ & _ & _ & _ & Eu & Ea & Eb & Ec & Ed & Ee & Ef).
  repeat split; try (intros ->; assumption). exact Hp.
Qed.
