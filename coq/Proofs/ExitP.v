(** * ExitP: holders can always exit (property C09, first sentence), handler level.

    Main results
    - [slashing_spec] / [slashing_succeeds] : what the pool synchronisation does; under E1 it cannot fail.
    - [unbond_succeeds]      : while the hub is not paused, for every 0 < a <= total supply of the token
                               (hence every positive part of any holder's balance) the hub's
                               Receive{Unbond} handler succeeds, for stSei and for bSei: every failing
                               branch (slashing arithmetic, peg-fee subtractions, supply - a, wait-list
                               addition, the undelegation plan, pool subtractions) is unreachable.
                               Premises (all named): Wired (E4), HPInv (proved invariant), E1_exit, E2_clock,
                               BooksSynced (Books after sync), BackedSynced (= not Known_F5 after sync).
    - [unbond_F5_witness]    : the excluded class is real (finding F5): a reachable world where every
                               other premise holds, the synced hub has backing 0 and a requested bSei,
                               and bob's stSei unbond fails (handler and transaction).
    - [undelegated_by_first_after_epoch] : a successful unbond arriving more than epoch_period after
                               the last undelegation closes the batch: the history entry holds ALL requests
                               of the batch including this one, batch id + 1, only Undelegate + Burn emitted.
    - [token_send_unbond_succeeds] : the token contracts accept Send{hub, a, hook} from a holder of
                               a > 0 tokens and emit exactly the mirror updates and the hub Receive.
    - [BooksSynced_intro], [BooksSynced_of_Books], [Backed_iff_not_F5] : how the named premises relate.
    - non-vacuity: [unbond_succeeds_nonvacuous], [unbond_tx_examples]. *)
From Krp Require Import Tactics Prelude Fixed FMap Types Env Registry Cw20 Reward Dispatcher Hub Exec
     ExecP Inv RegistryP HubFrame HubAdmin Cw20P ExitWorld.
Open Scope N_scope.

(** ** Arithmetic *)
Lemma LIM_D_fits : LIM * D <= U128MAX.
Proof. vm_compute. discriminate. Qed.
Lemma LIM_fits : LIM <= U128MAX.
Proof. vm_compute. discriminate. Qed.
Lemma LIM2_fits : LIM + LIM <= U128MAX.
Proof. vm_compute. discriminate. Qed.
Lemma LIM_fits64 : LIM + 1 <= U64MAX.
Proof. vm_compute. discriminate. Qed.

Lemma narrow128_ok x : x <= U128MAX -> narrow128 x = Some x.
Proof. intros H. unfold narrow128, fits128. apply N.leb_le in H. rewrite H. reflexivity. Qed.

Lemma add128_ok a b : a + b <= U128MAX -> add128 a b = Some (a + b).
Proof. intros H. unfold add128. apply narrow128_ok. exact H. Qed.

Lemma sub128_ok a b : b <= a -> sub128 a b = Some (a - b).
Proof. intros H. unfold sub128. apply N.leb_le in H. rewrite H. reflexivity. Qed.

Lemma mulU_ok a r : a * r / D <= U128MAX -> mulU a r = Some (a * r / D).
Proof.
  intros H. unfold mulU. destruct ((a =? 0) || (r =? 0)) eqn:E.
  - f_equal. apply orb_true_iff in E. destruct E as [E|E]; apply N.eqb_eq in E; subst.
    + rewrite N.mul_0_l. symmetry. apply N.div_0_l. exact D_nz.
    + rewrite N.mul_0_r. symmetry. apply N.div_0_l. exact D_nz.
  - apply narrow128_ok. exact H.
Qed.

Lemma ratio_ok a b : b <> 0 -> a * D / b <= U128MAX -> ratio a b = Some (a * D / b).
Proof.
  intros Hb H. unfold ratio. apply N.eqb_neq in Hb. rewrite Hb. apply narrow128_ok. exact H.
Qed.

Lemma div_le_num a b : a / b <= a.
Proof.
  destruct (N.eq_dec b 0) as [->|Hb]; [destruct a; cbn; lia|]. apply N.div_le_upper_bound; [exact Hb|].
  nia.
Qed.

Lemma exchange_rate_val B I R :
  B <= LIM -> I + R <= LIM -> exchange_rate B I R = Some (rate_of B (I + R)).
Proof.
  intros HB HC. unfold exchange_rate, rate_of.
  pose proof LIM_fits. rewrite add128_ok by lia. cbn [bind].
  destruct ((B =? 0) || (I + R =? 0)) eqn:E; [reflexivity|].
  apply orb_false_iff in E. destruct E as [E1 E2]. apply N.eqb_neq in E2.
  apply ratio_ok; [exact E2|].
  pose proof (div_le_num (B * D) (I + R)). pose proof LIM_D_fits.
  assert (B * D <= LIM * D) by (apply N.mul_le_mono_r; exact HB). lia.
Qed.

(** the amount owed to [Q] claims priced at [rate_of B C] never exceeds the backing [B], unless
    the pool is in the known class "no backing but claims" (finding F5) *)
Lemma owed_le_backing Q B C :
  Q <= C -> (0 < C -> 0 < B) -> Q * rate_of B C / D <= B.
Proof.
  intros HQ HB. unfold rate_of.
  destruct (N.eq_dec C 0) as [HC|HC].
  - assert (Q = 0) by lia. subst Q. rewrite N.mul_0_l, N.div_0_l by exact D_nz. lia.
  - assert (B <> 0) by lia.
    assert (E : (B =? 0) || (C =? 0) = false)
      by (apply orb_false_iff; split; apply N.eqb_neq; assumption).
    rewrite E. apply N.div_le_upper_bound; [exact D_nz|].
    pose proof (N.mul_div_le (B * D) C HC) as H1.
    assert (H2 : Q * (B * D / C) <= C * (B * D / C)) by (apply N.mul_le_mono_r; exact HQ).
    lia.
Qed.

(** a rate below 1 means the pool is short of its claims *)
Lemma rate_lt_one B C : rate_of B C < D -> B < C.
Proof.
  unfold rate_of. destruct ((B =? 0) || (C =? 0)) eqn:E; [lia|].
  apply orb_false_iff in E. destruct E as [E1 E2]. apply N.eqb_neq in E2.
  intros H. destruct (N.lt_ge_cases B C) as [|Hge]; [assumption|]. exfalso.
  assert (D <= B * D / C); [|lia].
  apply N.div_le_lower_bound; [exact E2|]. nia.
Qed.

(** ** Sorting keeps the stakes *)
Lemma insert_sorted_sum (before : val * N -> val * N -> bool) x l :
  sumN (map snd (insert_sorted before x l)) = snd x + sumN (map snd l).
Proof.
  induction l as [|y l IH]; cbn [insert_sorted map sumN]; [reflexivity|].
  destruct (before x y); cbn [map sumN]; [reflexivity|]. rewrite IH. lia.
Qed.

Lemma stable_sort_sum (before : val * N -> val * N -> bool) l :
  sumN (map snd (stable_sort before l)) = sumN (map snd l).
Proof.
  unfold stable_sort.
  assert (H : forall acc, sumN (map snd (fold_left (fun acc x => insert_sorted before x acc) l acc))
                          = sumN (map snd l) + sumN (map snd acc)).
  { induction l as [|x l IH]; intros acc; cbn [fold_left map sumN]; [lia|].
    rewrite IH, insert_sorted_sum. lia. }
  rewrite H. cbn. lia.
Qed.

(** ** Synchronising the pools with the delegations ([slashing]) *)
Definition HubWired (w : world) (h : hub) (tb ts : token) : Prop :=
  hc_bsei (h_cfg h) = Some A_bsei /\ hc_stsei (h_cfg h) = Some A_stsei /\
  hp_underlying (h_params h) = usei /\ w_bsei w = Some tb /\ w_stsei w = Some ts.

Lemma Wired_hub w h tb ts :
  Wired w -> w_hub w = Some h -> w_bsei w = Some tb -> w_stsei w = Some ts -> HubWired w h tb ts.
Proof.
  intros HW Hh Hb Hs. apply Wired_inv in HW.
  destruct HW as (h0 & r & d & g & tb0 & ts0 & E1 & E2 & E3 & E4 & E5 & E6 & W1 & W2 & W3 & W4 & W5 & _).
  rewrite Hh in E1. inversion E1; subst h0. unfold HubWired. repeat split; assumption.
Qed.

Lemma hub_supplies w h tb ts : HubWired w h tb ts ->
  hub_bsei_supply w h = Some (tk_supply tb) /\ hub_stsei_supply w h = Some (tk_supply ts).
Proof.
  intros (W1 & W2 & W3 & W4 & W5). unfold hub_bsei_supply, hub_stsei_supply. rewrite W1, W2. cbn [bind].
  unfold query_total_supply, token_at. cbn. rewrite W4, W5. split; reflexivity.
Qed.

Lemma foldM_add128_sum : forall (l : list (val * N)) acc,
  acc + sumN (map snd l) <= U128MAX ->
  foldM (fun acc d => add128 acc (snd d)) l acc = Some (acc + sumN (map snd l)).
Proof.
  induction l as [|d l IH]; intros acc H; cbn [foldM map sumN] in *; [f_equal; lia|].
  rewrite add128_ok by lia. cbn [bind]. rewrite IH by lia. f_equal. lia.
Qed.

Lemma foldM_add128_inv : forall (l : list (val * N)) acc x,
  foldM (fun acc d => add128 acc (snd d)) l acc = Some x -> x = acc + sumN (map snd l).
Proof.
  induction l as [|d l IH]; intros acc x H; cbn [foldM map sumN] in *; [inversion H; lia|].
  bind_inv H as y Hy. apply IH in H. unfold add128, narrow128 in Hy.
  destruct (fits128 (acc + snd d)); inversion Hy. lia.
Qed.

Lemma actual_bonded_eq w h : hp_underlying (h_params h) = usei ->
  actual_bonded w A_hub h = foldM (fun acc d => add128 acc (snd d)) (all_delegations (w_env w) A_hub) 0.
Proof. intros H. unfold actual_bonded. rewrite H. reflexivity. Qed.

Definition fresh_rates (h : hub) (tb ts : token) : Prop :=
  exchange_rate (hs_bb (h_state h)) (tk_supply tb) (cb_reqb (h_batch h)) = Some (hs_ber (h_state h)) /\
  exchange_rate (hs_bst (h_state h)) (tk_supply ts) (cb_reqst (h_batch h)) = Some (hs_ser (h_state h)).

(** what [slashing] does: only the pools and the rates change; the pools never grow; when the hub has
    delegations and booked stake, afterwards the booked stake is covered by the delegations and the
    rates are the fresh "backing / claims" of the new pools *)
Lemma slashing_spec w h tb ts h1 :
  HubWired w h tb ts -> slashing w A_hub h = Some h1 ->
  h_cfg h1 = h_cfg h /\ h_params h1 = h_params h /\ h_batch h1 = h_batch h /\
  h_newowner h1 = h_newowner h /\ h_wait h1 = h_wait h /\ h_hist h1 = h_hist h /\
  h_oldwait h1 = h_oldwait h /\
  hs_lim (h_state h1) = hs_lim (h_state h) /\ hs_phb (h_state h1) = hs_phb (h_state h) /\
  hs_lut (h_state h1) = hs_lut (h_state h) /\ hs_lpb (h_state h1) = hs_lpb (h_state h) /\
  booked h1 <= booked h /\
  (all_delegations (w_env w) A_hub = [] \/ booked h = 0 -> h_state h1 = h_state h) /\
  (all_delegations (w_env w) A_hub <> [] -> booked h <> 0 ->
     booked h1 <= delegated (w_env w) A_hub /\ fresh_rates h1 tb ts).
Proof.
  intros HW H. pose proof (slashing_frame _ _ _ _ H) as (F1 & F2 & F3 & F4 & F5 & F6 & F7).
  repeat (split; [assumption|]).
  destruct (hub_supplies _ _ _ _ HW) as [Sb Ss]. destruct HW as (W1 & W2 & W3 & W4 & W5).
  unfold slashing in H. bind_inv H as s1 Hs. inversion H; subst h1. clear H.
  unfold fresh_rates, booked. cbn [h_state h_batch set_h_state] in *.
  unfold query_actual_state in Hs. unfold delegated.
  destruct (all_delegations (w_env w) A_hub) as [|d0 dl] eqn:Edl.
  { inversion Hs; subst s1. do 4 (split; [reflexivity|]). split; [lia|]. split; [reflexivity|].
    intros Hne; congruence. }
  rewrite <- Edl in *. rewrite (actual_bonded_eq w h W3) in Hs.
  bind_inv Hs as actual Hact. apply foldM_add128_inv in Hact. rewrite N.add_0_l in Hact.
  bind_inv Hs as total Htot. unfold add128, narrow128 in Htot.
  destruct (fits128 (hs_bb (h_state h) + hs_bst (h_state h))); inversion Htot; subst total; clear Htot.
  destruct (hs_bb (h_state h) + hs_bst (h_state h) =? 0) eqn:Ez.
  { inversion Hs; subst s1. do 4 (split; [reflexivity|]). split; [lia|]. split; [reflexivity|].
    intros _ Hne. lia. }
  rewrite Sb, Ss in Hs. cbn [bind] in Hs.
  bind_inv Hs as s2 Hs2. bind_inv Hs as ber Hber. bind_inv Hs as ser Hser. inversion Hs; subst s1; clear Hs.
  cbn [hs_lim hs_phb hs_lut hs_lpb hs_bb hs_bst hs_ber hs_ser set_rates].
  assert (Hnil : all_delegations (w_env w) A_hub = [] \/ hs_bb (h_state h) + hs_bst (h_state h) = 0 -> False).
  { intros [Hn | Hn]; [rewrite Hn in Edl; discriminate | lia]. }
  destruct (actual <? hs_bb (h_state h) + hs_bst (h_state h)) eqn:Elt.
  - bind_inv Hs2 as r Hr. bind_inv Hs2 as bb Hbb. bind_inv Hs2 as bst Hbst. inversion Hs2; subst s2; clear Hs2.
    cbn [hs_lim hs_phb hs_lut hs_lpb hs_bb hs_bst hs_ber hs_ser set_bonded] in *.
    unfold sub128 in Hbst. destruct (bb <=? actual) eqn:Ele; inversion Hbst; subst bst.
    do 4 (split; [reflexivity|]). split; [lia|]. split; [intros Hn; destruct (Hnil Hn)|].
    intros _ _. split; [lia|]. split; assumption.
  - inversion Hs2; subst s2.
    do 4 (split; [reflexivity|]). split; [lia|]. split; [intros Hn; destruct (Hnil Hn)|].
    intros _ _. split; [lia|]. split; assumption.
Qed.

(** under the E1 magnitudes no arithmetic guard of [slashing] can fire *)
Lemma slashing_succeeds w h tb ts :
  HubWired w h tb ts ->
  delegated (w_env w) A_hub <= LIM -> booked h <= LIM ->
  claims_b h tb <= LIM -> claims_st h ts <= LIM ->
  exists h1, slashing w A_hub h = Some h1.
Proof.
  intros HW Hdel Hbk Hcb Hcs. destruct (hub_supplies _ _ _ _ HW) as [Sb Ss].
  destruct HW as (W1 & W2 & W3 & W4 & W5).
  unfold slashing, query_actual_state. unfold delegated, booked, claims_b, claims_st in *.
  pose proof LIM_fits as HL. pose proof LIM_D_fits as HLD. unfold LIM in *.
  destruct (all_delegations (w_env w) A_hub) as [|d0 dl] eqn:Edl; [eexists; reflexivity|].
  rewrite <- Edl in *. rewrite (actual_bonded_eq w h W3).
  rewrite (foldM_add128_sum (all_delegations (w_env w) A_hub) 0) by lia. cbn [bind]. rewrite N.add_0_l.
  set (actual := sumN (map snd (all_delegations (w_env w) A_hub))) in *.
  rewrite add128_ok by lia. cbn [bind].
  set (bb := hs_bb (h_state h)) in *. set (bst := hs_bst (h_state h)) in *.
  destruct (bb + bst =? 0) eqn:Ez; [eexists; reflexivity|].
  rewrite Sb, Ss. cbn [bind].
  destruct (actual <? bb + bst) eqn:Elt.
  - assert (Hr : bb * D / (bb + bst) <= D).
    { apply N.div_le_upper_bound; [lia|]. apply N.mul_le_mono_r. lia. }
    rewrite ratio_ok; [|lia|lia]. cbn [bind].
    assert (Hb : actual * (bb * D / (bb + bst)) / D <= actual).
    { apply N.div_le_upper_bound; [exact D_nz|]. rewrite (N.mul_comm D actual). apply N.mul_le_mono_l. exact Hr. }
    rewrite mulU_ok by lia. cbn [bind]. rewrite sub128_ok by exact Hb. cbn [bind].
    cbn [set_bonded hs_bb hs_bst].
    remember (actual * (bb * D / (bb + bst)) / D) as X eqn:EX. clear EX Hr.
    rewrite exchange_rate_val by (unfold LIM; lia). cbn [bind]. rewrite exchange_rate_val by (unfold LIM; lia). cbn [bind].
    eexists; reflexivity.
  - cbn [bind]. fold bb bst. rewrite exchange_rate_val by (unfold LIM; lia). cbn [bind].
    rewrite exchange_rate_val by (unfold LIM; lia). cbn [bind]. eexists; reflexivity.
Qed.

(** ** Named premises *)

(** E1 (DESIGN.md section 4), the part the unbond path needs: magnitudes at most 10^18 *)
Definition E1_exit (w : world) (h : hub) (tb ts : token) : Prop :=
  delegated (w_env w) A_hub <= LIM /\ booked h <= LIM /\
  claims_b h tb <= LIM /\ claims_st h ts <= LIM /\ cb_id (h_batch h) <= LIM /\
  (forall u, fst (wait_of h u (cb_id (h_batch h))) <= LIM /\
             snd (wait_of h u (cb_id (h_batch h))) <= LIM).

(** E2: block time does not run backwards past the last undelegation *)
Definition E2_clock (w : world) (h : hub) : Prop := hs_lut (h_state h) <= e_now (w_env w).

(** every pool with claims has backing; its negation is the known class F5 *)
Definition Backed (h : hub) (tb ts : token) : Prop :=
  (0 < claims_b h tb -> 0 < hs_bb (h_state h)) /\ (0 < claims_st h ts -> 0 < hs_bst (h_state h)).
Definition Known_F5 (h : hub) (tb ts : token) : Prop :=
  (hs_bb (h_state h) = 0 /\ 0 < claims_b h tb) \/ (hs_bst (h_state h) = 0 /\ 0 < claims_st h ts).

Lemma Backed_iff_not_F5 h tb ts : Backed h tb ts <-> ~ Known_F5 h tb ts.
Proof. unfold Backed, Known_F5. split; [intros [A B] [[C E]|[C E]]; lia | intros H; split; intros; lia]. Qed.

(** the two invariants are needed in the state the handler works on, i.e. after [slashing] has
    synchronised the pools with the delegations (a slashing event is only noticed then) *)
Definition BooksSynced (w : world) (h : hub) : Prop :=
  forall h1, slashing w A_hub h = Some h1 -> booked h1 <= delegated (w_env w) A_hub.
Definition BackedSynced (w : world) (h : hub) (tb ts : token) : Prop :=
  forall h1, slashing w A_hub h = Some h1 -> Backed h1 tb ts.

(** [BooksSynced] holds as soon as the hub still has a delegation entry or nothing booked (E8:
    "validator set slashed to zero" excluded); in particular under the pre-sync [Books] *)
Lemma BooksSynced_intro w h tb ts :
  HubWired w h tb ts ->
  (all_delegations (w_env w) A_hub = [] -> booked h = 0) -> BooksSynced w h.
Proof.
  intros HW H h1 Hs. pose proof (slashing_spec _ _ _ _ _ HW Hs) as
      (_ & _ & _ & _ & _ & _ & _ & _ & _ & _ & _ & Hle & _ & Hmain).
  destruct (N.eq_dec (booked h) 0) as [Hz|Hnz]; [lia|].
  destruct (all_delegations (w_env w) A_hub) as [|d0 dl] eqn:E; [specialize (H eq_refl); lia|].
  apply Hmain; [discriminate | exact Hnz].
Qed.

Lemma BooksSynced_of_Books w h tb ts :
  HubWired w h tb ts -> w_hub w = Some h -> Books w -> BooksSynced w h.
Proof.
  intros HW Hh HB. eapply BooksSynced_intro; [exact HW|]. intros E. specialize (HB h Hh).
  unfold delegated in HB. rewrite E in HB. cbn in HB. lia.
Qed.

(** ** The undelegation step *)
Lemma pick_validator_ok w h claim :
  claim <= delegated (w_env w) A_hub -> 0 < delegated (w_env w) A_hub ->
  delegated (w_env w) A_hub <= LIM ->
  exists msgs, pick_validator w A_hub h claim = Some msgs.
Proof.
  intros Hc Hpos Hlim. unfold pick_validator, delegated in *.
  set (vals := sort_desc (all_delegations (w_env w) A_hub)).
  assert (Hsum : sumN (map snd vals) = sumN (map snd (all_delegations (w_env w) A_hub)))
    by apply stable_sort_sum.
  assert (Hne : map snd vals <> []) by (intros E; rewrite E in Hsum; cbn [sumN] in Hsum; lia).
  pose proof LIM_fits.
  destruct (undeleg_total claim (map snd vals) Hne) as (ys & Hy & _); [lia | lia |].
  rewrite Hy. cbn [bind]. eexists; reflexivity.
Qed.

Lemma process_undelegations_ok w h Cb Cst :
  hs_ber (h_state h) = rate_of (hs_bb (h_state h)) Cb ->
  hs_ser (h_state h) = rate_of (hs_bst (h_state h)) Cst ->
  cb_reqb (h_batch h) <= Cb -> cb_reqst (h_batch h) <= Cst ->
  (0 < Cb -> 0 < hs_bb (h_state h)) -> (0 < Cst -> 0 < hs_bst (h_state h)) ->
  booked h <= delegated (w_env w) A_hub -> 0 < delegated (w_env w) A_hub ->
  delegated (w_env w) A_hub <= LIM -> cb_id (h_batch h) <= LIM ->
  exists r, process_undelegations w A_hub h = Some r.
Proof.
  intros Hber Hser Hqb Hqs Hbb Hbs Hbk Hpos Hlim Hid. unfold process_undelegations, booked in *.
  pose proof (owed_le_backing _ _ _ Hqb Hbb) as Ob. pose proof (owed_le_backing _ _ _ Hqs Hbs) as Os.
  rewrite <- Hber in Ob. rewrite <- Hser in Os.
  remember (cb_reqb (h_batch h) * hs_ber (h_state h) / D) as ub eqn:Eub.
  remember (cb_reqst (h_batch h) * hs_ser (h_state h) / D) as us eqn:Eus.
  pose proof LIM_fits as HL. pose proof LIM_fits64 as HL64.
  rewrite (mulU_ok (cb_reqst (h_batch h))) by (rewrite <- Eus; lia). cbn [bind].
  rewrite (mulU_ok (cb_reqb (h_batch h))) by (rewrite <- Eub; lia). cbn [bind].
  rewrite <- Eub, <- Eus. rewrite add128_ok by lia. cbn [bind].
  destruct (pick_validator_ok w h (ub + us)) as [msgs Hm]; [lia | exact Hpos | exact Hlim |].
  rewrite Hm. cbn [bind]. rewrite !sub128_ok by lia. cbn [bind].
  unfold add64, fits64. assert (Hf : (cb_id (h_batch h) + 1 <=? U64MAX) = true) by lia.
  rewrite Hf. cbn [bind]. eexists; reflexivity.
Qed.

Lemma maybe_undelegate_ok w h Cb Cst :
  hs_lut (h_state h) <= e_now (w_env w) ->
  hs_ber (h_state h) = rate_of (hs_bb (h_state h)) Cb ->
  hs_ser (h_state h) = rate_of (hs_bst (h_state h)) Cst ->
  cb_reqb (h_batch h) <= Cb -> cb_reqst (h_batch h) <= Cst ->
  (0 < Cb -> 0 < hs_bb (h_state h)) -> (0 < Cst -> 0 < hs_bst (h_state h)) ->
  booked h <= delegated (w_env w) A_hub -> 0 < delegated (w_env w) A_hub ->
  delegated (w_env w) A_hub <= LIM -> cb_id (h_batch h) <= LIM ->
  exists r, maybe_undelegate w A_hub h = Some r.
Proof.
  intros Hclk. intros. unfold maybe_undelegate, sub64.
  assert (Hc : (hs_lut (h_state h) <=? e_now (w_env w)) = true) by lia. rewrite Hc. cbn [bind].
  destruct (hp_epoch (h_params h) <? e_now (w_env w) - hs_lut (h_state h)); [|eexists; reflexivity].
  eapply process_undelegations_ok; eassumption.
Qed.

(** ** Facts about the synchronised hub that both unbond handlers use *)
Lemma synced_facts w h tb ts h1 :
  HubWired w h tb ts -> slashing w A_hub h = Some h1 ->
  E1_exit w h tb ts -> Backed h1 tb ts -> booked h1 <= delegated (w_env w) A_hub ->
  0 < claims_b h1 tb \/ 0 < claims_st h1 ts ->
  HubWired w h1 tb ts /\ h_batch h1 = h_batch h /\ h_wait h1 = h_wait h /\ h_cfg h1 = h_cfg h /\
  h_params h1 = h_params h /\ hs_lut (h_state h1) = hs_lut (h_state h) /\
  booked h1 <= LIM /\ 0 < delegated (w_env w) A_hub /\
  hs_ber (h_state h1) = rate_of (hs_bb (h_state h1)) (claims_b h1 tb) /\
  hs_ser (h_state h1) = rate_of (hs_bst (h_state h1)) (claims_st h1 ts).
Proof.
  intros HW Hs (Hdel & Hbk & Hcb & Hcs & Hid & Hwt) [Bb Bs] Hbooks Hcl.
  pose proof (slashing_spec _ _ _ _ _ HW Hs) as
      (F1 & F2 & F3 & F4 & F5 & F6 & F7 & G1 & G2 & G3 & G4 & Hle & _ & Hmain).
  assert (HW1 : HubWired w h1 tb ts).
  { destruct HW as (W1 & W2 & W3 & W4 & W5). unfold HubWired. rewrite F1, F2. repeat split; assumption. }
  assert (Hpos1 : 0 < booked h1) by (unfold booked; destruct Hcl as [Hc|Hc]; [apply Bb in Hc | apply Bs in Hc]; lia).
  assert (Hne : all_delegations (w_env w) A_hub <> []).
  { intros E. unfold delegated in Hbooks. rewrite E in Hbooks. cbn [map sumN] in Hbooks. lia. }
  destruct (Hmain Hne ltac:(lia)) as (_ & Rb & Rs).
  assert (Hbk1 : booked h1 <= LIM) by lia.
  unfold claims_b, claims_st in *. rewrite F3 in *. unfold booked in Hbk1.
  rewrite exchange_rate_val in Rb by lia. rewrite exchange_rate_val in Rs by lia.
  split; [exact HW1|]. repeat split; try assumption; try reflexivity; try lia; congruence.
Qed.

Definition burn_msg (tok : addr) (a : N) : cmsg := MWasm tok (WCw20 (CBurn a)) [].

(** ** stSei unbond cannot fail *)
Lemma unbond_stsei_ok w h tb ts h1 user a :
  HubWired w h tb ts -> slashing w A_hub h = Some h1 ->
  E1_exit w h tb ts -> E2_clock w h -> Backed h1 tb ts -> booked h1 <= delegated (w_env w) A_hub ->
  0 < a <= tk_supply ts ->
  exists h' msgs, execute_unbond_stsei w h A_hub a user = Some (h', msgs ++ [burn_msg A_stsei a]).
Proof.
  intros HW Hs HE1 Hclk HB Hbooks [Ha0 Ha].
  assert (Hcl : 0 < claims_b h1 tb \/ 0 < claims_st h1 ts) by (right; unfold claims_st; lia).
  pose proof (synced_facts _ _ _ _ _ HW Hs HE1 HB Hbooks Hcl) as
      (HW1 & F3 & F5 & F1 & F2 & Flut & Hbk1 & Hdpos & Rb & Rs).
  destruct HE1 as (Hdel & Hbk & Hcb & Hcs & Hid & Hwt). destruct HB as [Bb Bs].
  unfold execute_unbond_stsei. rewrite Hs. cbn [bind]. rewrite F3.
  unfold claims_b, claims_st in *. rewrite F3 in *. pose proof LIM_fits as HL. pose proof LIM2_fits as HL2.
  rewrite add128_ok by lia. cbn [bind].
  unfold add_wait. assert (Hw1 : wait_of h1 user (cb_id (h_batch h)) = wait_of h user (cb_id (h_batch h)))
    by (unfold wait_of; rewrite F5; reflexivity).
  rewrite Hw1. specialize (Hwt user). destruct (wait_of h user (cb_id (h_batch h))) as [x y].
  cbn [fst snd] in Hwt. cbn [bind]. rewrite add128_ok by lia. cbn [bind].
  match goal with |- context[maybe_undelegate w A_hub ?h3] => set (hh := h3) end.
  destruct (maybe_undelegate_ok w hh (tk_supply tb + cb_reqb (h_batch h)) (tk_supply ts + cb_reqst (h_batch h)))
    as [[h4 msgs] Hm]; subst hh; cbn [h_state h_batch set_h_batch set_h_wait cb_reqb cb_reqst cb_id];
    try assumption; try lia.
  { unfold E2_clock in Hclk. lia. }
  rewrite Hm. cbn [bind].
  apply maybe_undelegate_static in Hm. destruct Hm as (S1 & _). cbn [h_cfg set_h_batch set_h_wait] in S1.
  destruct HW1 as (_ & W2 & _). rewrite S1, W2. cbn [bind]. eexists. eexists. reflexivity.
Qed.

(** ** bSei unbond cannot fail *)
Lemma unbond_bsei_ok w h tb ts h1 user a :
  HubWired w h tb ts -> slashing w A_hub h = Some h1 -> HPInv h ->
  E1_exit w h tb ts -> E2_clock w h -> Backed h1 tb ts -> booked h1 <= delegated (w_env w) A_hub ->
  0 < a <= tk_supply tb ->
  exists h' msgs, execute_unbond w h A_hub a user = Some (h', msgs ++ [burn_msg A_bsei a]).
Proof.
  intros HW Hs [Hpf Hthr] HE1 Hclk HB Hbooks [Ha0 Ha].
  assert (Hcl : 0 < claims_b h1 tb \/ 0 < claims_st h1 ts) by (left; unfold claims_b; lia).
  pose proof (synced_facts _ _ _ _ _ HW Hs HE1 HB Hbooks Hcl) as
      (HW1 & F3 & F5 & F1 & F2 & Flut & Hbk1 & Hdpos & Rb & Rs).
  destruct HE1 as (Hdel & Hbk & Hcb & Hcs & Hid & Hwt). destruct HB as [Bb Bs].
  unfold execute_unbond. rewrite Hs. cbn [bind].
  rewrite (proj1 (hub_supplies _ _ _ _ HW1)). cbn [bind]. rewrite F3.
  unfold claims_b, claims_st, booked in *. rewrite F3 in *.
  pose proof LIM_fits as HL. pose proof LIM2_fits as HL2.
  assert (Hbbpos : 0 < hs_bb (h_state h1)) by (apply Bb; lia).
  (* the peg fee *)
  match goal with |- context[bind (if ?c then ?t else ?e) _] =>
    assert (Hfee : exists awf, (if c then t else e) = Some awf /\ awf <= a) end.
  { destruct (hs_ber (h_state h1) <? hp_thr (h_params h)) eqn:Ethr; [|exists a; split; [reflexivity|lia]].
    assert (Hmf : a * hp_pegfee (h_params h) / D <= a).
    { apply N.div_le_upper_bound; [exact D_nz|]. rewrite (N.mul_comm D a). apply N.mul_le_mono_l. exact Hpf. }
    remember (a * hp_pegfee (h_params h) / D) as mf eqn:Emf.
    rewrite mulU_ok by (rewrite <- Emf; lia). cbn [bind]. rewrite <- Emf.
    rewrite add128_ok by lia. cbn [bind].
    assert (Hshort : hs_bb (h_state h1) < tk_supply tb + cb_reqb (h_batch h)).
    { apply rate_lt_one. rewrite <- Rb. lia. }
    rewrite sub128_ok by lia. cbn [bind]. unfold peg_fee.
    rewrite sub128_ok by lia. eexists. split; [reflexivity | lia]. }
  destruct Hfee as (awf & Hfee & Hawf). rewrite Hfee. cbn [bind].
  rewrite add128_ok by lia. cbn [bind].
  unfold add_wait. assert (Hw1 : wait_of h1 user (cb_id (h_batch h)) = wait_of h user (cb_id (h_batch h)))
    by (unfold wait_of; rewrite F5; reflexivity).
  rewrite Hw1. specialize (Hwt user). destruct (wait_of h user (cb_id (h_batch h))) as [x y].
  cbn [fst snd] in Hwt. rewrite add128_ok by lia. cbn [bind].
  rewrite sub128_ok by lia. cbn [bind].
  rewrite exchange_rate_val by lia. cbn [bind].
  match goal with |- context[maybe_undelegate w A_hub ?h3] => set (hh := h3) end.
  destruct (maybe_undelegate_ok w hh (tk_supply tb - a + (cb_reqb (h_batch h) + awf))
                                (tk_supply ts + cb_reqst (h_batch h)))
    as [[h4 msgs] Hm]; subst hh; unfold booked;
    cbn [h_state h_batch set_h_batch set_h_wait set_h_state set_ber set_rates hs_ber hs_ser hs_bb hs_bst
         hs_lut cb_reqb cb_reqst cb_id];
    try assumption; try lia; try reflexivity.
  { unfold E2_clock in Hclk. lia. }
  rewrite Hm. cbn [bind].
  apply maybe_undelegate_static in Hm. destruct Hm as (S1 & _).
  cbn [h_cfg set_h_batch set_h_wait set_h_state] in S1.
  destruct HW1 as (W1 & _). rewrite S1, W1. cbn [bind]. eexists. eexists. reflexivity.
Qed.

(** ** unbond_succeeds *)
Lemma receive_unbond_unfold w h tb ts user a :
  HubWired w h tb ts ->
  receive_cw20 w h A_hub A_stsei user a HkUnbond = execute_unbond_stsei w h A_hub a user /\
  receive_cw20 w h A_hub A_bsei user a HkUnbond = execute_unbond w h A_hub a user.
Proof.
  intros (W1 & W2 & _). unfold receive_cw20. rewrite W1, W2. cbn [bind]. split; reflexivity.
Qed.

(** While the hub is not paused, any positive amount up to the token's total supply (hence any
    positive part of any holder's balance) can be unbonded: the hub's Receive{Unbond} handler cannot
    fail, for stSei and for bSei.  Premises: trusted wiring (E4), parameters in range ([HPInv], proved
    invariant of every history, Proofs/Params.v), E1 magnitudes, E2 clock, and — in the state
    synchronised by [slashing] — [Books] (booked stake covered by delegations) and [Backed]
    (= not in the known class F5). *)
Theorem unbond_succeeds w h tb ts user a funds :
  Wired w -> w_hub w = Some h -> w_bsei w = Some tb -> w_stsei w = Some ts ->
  paused h = false -> HPInv h -> E1_exit w h tb ts -> E2_clock w h ->
  BooksSynced w h -> BackedSynced w h tb ts -> 0 < a ->
  (a <= tk_supply ts ->
     exists h' msgs, hub_execute w h A_hub A_stsei funds (HReceive user a HkUnbond)
                     = Some (h', msgs ++ [burn_msg A_stsei a])) /\
  (a <= tk_supply tb ->
     exists h' msgs, hub_execute w h A_hub A_bsei funds (HReceive user a HkUnbond)
                     = Some (h', msgs ++ [burn_msg A_bsei a])).
Proof.
  intros HWd Hh Hb Hst Hp HPI HE1 Hclk HBooks HBacked Ha.
  pose proof (Wired_hub _ _ _ _ HWd Hh Hb Hst) as HW.
  destruct (receive_unbond_unfold w h tb ts user a HW) as [Rs Rb].
  assert (Hsl : exists h1, slashing w A_hub h = Some h1).
  { destruct HE1 as (A1 & A2 & A3 & A4 & _). eapply slashing_succeeds; eassumption. }
  destruct Hsl as [h1 Hsl].
  unfold hub_execute. rewrite Hp. cbn [negb]. rewrite Rs, Rb. split; intros Hle.
  - eapply unbond_stsei_ok; eauto.
  - eapply unbond_bsei_ok; eauto.
Qed.

(** ** The known class F5 is exactly what [Backed] excludes: witness *)

(** alice holds 1 bSei backed by 1 usei, bob 1 000 000 stSei; every validator is slashed by 1 %:
    the pro-rata split floors the bSei pool to 0 while 1 bSei still exists *)
Definition f5_ops : list op :=
  [ OInstHub A_owner 30 100 (D / 200) D updater usei uusd;
    OInstReward A_owner A_hub uusd A_swap [uatom];
    OInstDisp A_owner A_hub A_reward usei uusd keeper (D / 20) A_swap A_oracle [usei; uusd; uatom];
    OInstReg A_owner A_hub [0];
    OInstBsei A_owner A_hub [];
    OInstStsei A_owner A_hub 2 [];
    OTx A_owner A_hub (WHub (HConfig (Some A_disp) (Some A_reg) (Some A_bsei) (Some A_stsei)
                                     (Some A_airdrop) (Some A_reward) None)) [];
    OGift alice usei 10; OGift bob usei 10000000;
    OTx alice A_hub (WHub HBond) [(usei, 1)];
    OTx bob A_hub (WHub HBondSt) [(usei, 1000000)];
    OSlash 0 1 100 false;
    OTx alice A_bsei (WCw20 (CSend A_hub 1 HkUnbond)) [];      (* accepted: epoch not over *)
    OAdvance 31 ].
Definition world_f5 : world := run_ops f5_ops (empty_world 100).
Definition hub_of (w : world) : hub :=
  match w_hub w with Some h => h | None => mkHub (mkHubConfig 0 0 None None None None None None)
     (mkHubState 0 0 0 0 0 0 0 0) (mkHubParams 0 0 0 0 0 0 None) (mkBatch 0 0 0) 0 [] [] [] end.
Definition tok_of (o : option token) : token :=
  match o with Some t => t | None => mkToken 0 0 None [] [] end.

Lemma wait_bounded_of_forallb h :
  forallb (fun kv => (fst (snd kv) <=? LIM) && (snd (snd kv) <=? LIM)) (h_wait h) = true ->
  forall u b, fst (wait_of h u b) <= LIM /\ snd (wait_of h u b) <= LIM.
Proof.
  intros H u b. unfold wait_of. induction (h_wait h) as [|[k v] r IH]; cbn [get].
  - cbn. unfold LIM. pose proof D_pos. lia.
  - cbn [forallb fst snd] in H. apply andb_true_iff in H. destruct H as [H1 H2].
    destruct (eqbAN (u, b) k); [|exact (IH H2)]. apply andb_true_iff in H1. lia.
Qed.

Definition hub_f5 : hub := hub_of world_f5.
Definition tb_f5 : token := tok_of (w_bsei world_f5).
Definition ts_f5 : token := tok_of (w_stsei world_f5).
Lemma some_inj {A} (a b : A) : Some a = Some b -> a = b.
Proof. intros H. inversion H. reflexivity. Qed.

Definition synced_of (w : world) (h : hub) : hub :=
  match slashing w A_hub h with Some x => x | None => h end.

Lemma synced_f5 : slashing world_f5 A_hub hub_f5 = Some (synced_of world_f5 hub_f5).
Proof. vm_compute. reflexivity. Qed.

(** finding F5: in [world_f5] every premise of [unbond_succeeds] holds except [Backed] — the
    synchronised hub is in the class [Known_F5] (bSei pool: backing 0, one requested bSei) — and
    bob's stSei unbond fails, at handler level and as a transaction *)
Lemma unbond_F5_witness :
  Wired world_f5 /\ w_hub world_f5 = Some hub_f5 /\ w_bsei world_f5 = Some tb_f5 /\
  w_stsei world_f5 = Some ts_f5 /\ paused hub_f5 = false /\ HPInv hub_f5 /\
  E1_exit world_f5 hub_f5 tb_f5 ts_f5 /\ E2_clock world_f5 hub_f5 /\ BooksSynced world_f5 hub_f5 /\
  (exists h1, slashing world_f5 A_hub hub_f5 = Some h1 /\ Known_F5 h1 tb_f5 ts_f5) /\
  0 < 500 <= tbal ts_f5 bob /\
  hub_execute world_f5 hub_f5 A_hub A_stsei [] (HReceive bob 500 HkUnbond) = None /\
  snd (step world_f5 (OTx bob A_stsei (WCw20 (CSend A_hub 500 HkUnbond)) [])) = (false, []).
Proof.
  split; [vm_compute; repeat split|]. do 4 (split; [vm_compute; reflexivity|]).
  split; [split; vm_compute; discriminate|].
  split.
  { unfold E1_exit. do 5 (split; [vm_compute; discriminate|]).
    intros u. apply (wait_bounded_of_forallb hub_f5). vm_compute. reflexivity. }
  split; [vm_compute; discriminate|].
  split; [intros h1 H; rewrite synced_f5 in H; apply some_inj in H; subst h1; vm_compute; discriminate|].
  split.
  { eexists. split; [exact synced_f5|]. left. split; vm_compute; reflexivity. }
  split; [split; vm_compute; [reflexivity | discriminate]|].
  split; vm_compute; reflexivity.
Qed.

(** ** Non-vacuity: the concrete world of Proofs/ExitWorld.v, 31 s later (epoch 30 s is over, so the
    unbond also closes the batch and undelegates) *)
Definition world1 : world := run_ops [OAdvance 31] world0.
Definition hub1 : hub := hub_of world1.
Definition tb1 : token := tok_of (w_bsei world1).
Definition ts1 : token := tok_of (w_stsei world1).

Lemma synced_1 : slashing world1 A_hub hub1 = Some (synced_of world1 hub1).
Proof. vm_compute. reflexivity. Qed.

Example unbond_succeeds_nonvacuous :
  Wired world1 /\ w_hub world1 = Some hub1 /\ w_bsei world1 = Some tb1 /\ w_stsei world1 = Some ts1 /\
  paused hub1 = false /\ HPInv hub1 /\ E1_exit world1 hub1 tb1 ts1 /\ E2_clock world1 hub1 /\
  BooksSynced world1 hub1 /\ BackedSynced world1 hub1 tb1 ts1 /\
  0 < tk_supply tb1 /\ 0 < tk_supply ts1 /\
  hp_epoch (h_params hub1) < e_now (w_env world1) - hs_lut (h_state hub1).
Proof.
  split; [vm_compute; repeat split|]. do 4 (split; [vm_compute; reflexivity|]).
  split; [split; vm_compute; discriminate|].
  split.
  { unfold E1_exit. do 5 (split; [vm_compute; discriminate|]).
    intros u. apply (wait_bounded_of_forallb hub1). vm_compute. reflexivity. }
  split; [vm_compute; discriminate|].
  split; [intros h1 H; rewrite synced_1 in H; apply some_inj in H; subst h1; vm_compute; discriminate|].
  split; [intros h1 H; rewrite synced_1 in H; apply some_inj in H; subst h1; split; intros _; vm_compute; reflexivity|].
  repeat split; vm_compute; reflexivity.
Qed.

(** ** undelegated_by_first_after_epoch *)
Lemma get_hist_put_same m i e : get N.eqb (hist_put m i e) i = Some e.
Proof.
  induction m as [|[j e'] r IH]; cbn [hist_put get].
  - rewrite N.eqb_refl. reflexivity.
  - destruct (i =? j) eqn:E1; cbn [get]; [rewrite N.eqb_refl; reflexivity|].
    destruct (i <? j); cbn [get]; [rewrite N.eqb_refl; reflexivity | rewrite E1; exact IH].
Qed.

Lemma get_hist_put_other m i e k : k <> i -> get N.eqb (hist_put m i e) k = get N.eqb m k.
Proof.
  intros Hk. apply N.eqb_neq in Hk. induction m as [|[j e'] r IH]; cbn [hist_put get].
  - rewrite Hk. reflexivity.
  - destruct (i =? j) eqn:E1; cbn [get].
    + apply N.eqb_eq in E1. subst j. rewrite Hk. reflexivity.
    + destruct (i <? j); cbn [get]; [rewrite Hk; reflexivity|]. destruct (k =? j); [reflexivity | exact IH].
Qed.

Lemma slashing_lut w self h h1 :
  slashing w self h = Some h1 -> hs_lut (h_state h1) = hs_lut (h_state h).
Proof.
  unfold slashing. intros H. bind_inv H as s1 Hs. inversion H; subst h1. cbn [h_state set_h_state].
  unfold query_actual_state in Hs. inv_all Hs; try reflexivity.
  match goal with E : (if ?c then _ else _) = Some _ |- _ => destruct c; inv_all E; reflexivity end.
Qed.

(** what a batch-closing [maybe_undelegate] does to the in-memory hub *)
Definition closed_batch (now : N) (h h' : hub) : Prop :=
  let cb := h_batch h in
  exists e,
    get N.eqb (h_hist h') (cb_id cb) = Some e /\
    he_time e = now /\ he_released e = false /\
    he_bamt e = cb_reqb cb /\ he_samt e = cb_reqst cb /\
    he_bapplied e = hs_ber (h_state h) /\ he_sapplied e = hs_ser (h_state h) /\
    (forall k, k <> cb_id cb -> get N.eqb (h_hist h') k = get N.eqb (h_hist h) k) /\
    h_batch h' = mkBatch (cb_id cb + 1) 0 0 /\
    hs_lut (h_state h') = now /\ h_wait h' = h_wait h.

Lemma maybe_undelegate_closes w self h h' msgs :
  maybe_undelegate w self h = Some (h', msgs) ->
  hp_epoch (h_params h) < e_now (w_env w) - hs_lut (h_state h) ->
  closed_batch (e_now (w_env w)) h h' /\
  forallb (fun m => match m with MUndelegate _ _ => true | _ => false end) msgs = true.
Proof.
  unfold maybe_undelegate, sub64. intros H Hep.
  destruct (hs_lut (h_state h) <=? e_now (w_env w)); [|discriminate]. cbn [bind] in H.
  apply N.ltb_lt in Hep. rewrite Hep in H. unfold process_undelegations in H.
  bind_inv H as su E1. bind_inv H as bu E2. bind_inv H as cl E3. bind_inv H as ms E4.
  bind_inv H as bst E5. bind_inv H as bb E6. bind_inv H as id' E7. inversion H; subst h' msgs. clear H.
  unfold add64 in E7. destruct (fits64 (cb_id (h_batch h) + 1)); inversion E7; subst id'.
  split.
  - unfold closed_batch. eexists. cbn [h_hist h_batch h_state h_wait set_h_state set_h_batch set_h_hist hs_lut].
    split; [apply get_hist_put_same|]. cbn [he_time he_released he_bamt he_samt he_bapplied he_sapplied].
    repeat split; try reflexivity. intros k Hk. apply get_hist_put_other. exact Hk.
  - unfold pick_validator in E4. bind_inv E4 as ys Hys. inversion E4; subst ms.
    clear. induction (combine (sort_desc (all_delegations (w_env w) self)) ys) as [|p l IH]; [reflexivity|].
    cbn [flat_map]. rewrite forallb_app, IH. destruct (snd p =? 0); reflexivity.
Qed.

(** If the epoch period has passed since the last undelegation, a successful unbond — the first one
    to arrive — closes the open batch: the new history entry carries ALL requests of the batch
    including this one (for bSei: the amount after the peg fee, which is what the user's wait-list
    entry records), the batch id increases, a fresh empty batch is opened, and the only messages
    emitted are Undelegate messages followed by the Burn. *)
Theorem undelegated_by_first_after_epoch w h sender user a h' out :
  receive_cw20 w h A_hub sender user a HkUnbond = Some (h', out) ->
  hp_epoch (h_params h) < e_now (w_env w) - hs_lut (h_state h) ->
  let cb := h_batch h in
  exists e awf msgs tok,
    get N.eqb (h_hist h') (cb_id cb) = Some e /\
    he_time e = e_now (w_env w) /\ he_released e = false /\
    ((hc_bsei (h_cfg h) = Some sender /\ awf <= a /\
      he_bamt e = cb_reqb cb + awf /\ he_samt e = cb_reqst cb /\
      wait_of h' user (cb_id cb) = (fst (wait_of h user (cb_id cb)) + awf, snd (wait_of h user (cb_id cb))))
     \/
     (hc_stsei (h_cfg h) = Some sender /\ awf = a /\
      he_bamt e = cb_reqb cb /\ he_samt e = cb_reqst cb + a /\
      wait_of h' user (cb_id cb) = (fst (wait_of h user (cb_id cb)), snd (wait_of h user (cb_id cb)) + a))) /\
    (forall k, k <> cb_id cb -> get N.eqb (h_hist h') k = get N.eqb (h_hist h) k) /\
    h_batch h' = mkBatch (cb_id cb + 1) 0 0 /\
    hs_lut (h_state h') = e_now (w_env w) /\
    out = msgs ++ [burn_msg tok a] /\
    forallb (fun m => match m with MUndelegate _ _ => true | _ => false end) msgs = true.
Proof.
  intros H Hep cb. unfold receive_cw20 in H. bind_inv H as b Hb. bind_inv H as st Hst.
  destruct (sender =? b) eqn:Eb.
  - apply N.eqb_eq in Eb. subst b. unfold execute_unbond in H.
    bind_inv H as h1 Hh1. pose proof (slashing_lut _ _ _ _ Hh1) as Hlut.
    pose proof (slashing_frame _ _ _ _ Hh1) as (F1 & F2 & F3 & F4 & F5 & F6 & F7).
    bind_inv H as supply Hs. bind_inv H as awf Hawf. bind_inv H as reqb Hreqb.
    bind_inv H as h2 Hh2. bind_inv H as supply' Hs'. bind_inv H as ber Hber.
    bind_inv H as r Hr. destruct r as [h4 msgs]. bind_inv H as tok Htok. inversion H; subst h' out. clear H.
    assert (Hle : awf <= a).
    { destruct (hs_ber (h_state h1) <? hp_thr (h_params h)); [|inversion Hawf; lia].
      bind_inv Hawf as mf Hmf. bind_inv Hawf as c Hc. bind_inv Hawf as rq Hrq.
      unfold sub128 in Hawf. destruct (peg_fee mf rq <=? a); inversion Hawf. lia. }
    unfold add128, narrow128 in Hreqb. destruct (fits128 (cb_reqb (h_batch h1) + awf)); inversion Hreqb; subst reqb.
    unfold add_wait in Hh2. destruct (wait_of h1 user (cb_id (h_batch h1))) as [x y] eqn:Ew.
    bind_inv Hh2 as x' Hx'. cbn [bind] in Hh2. inversion Hh2; subst h2. clear Hh2.
    unfold add128, narrow128 in Hx'. destruct (fits128 (x + awf)); inversion Hx'; subst x'.
    apply maybe_undelegate_closes in Hr;
      [|cbn [h_params h_state set_h_batch set_h_state set_h_wait set_ber set_rates hs_lut]; rewrite F2, Hlut; exact Hep].
    destruct Hr as [(e & G1 & G2 & G3 & G4 & G5 & _ & _ & G6 & G7 & G8 & G9) Hm].
    cbn [h_batch h_hist h_wait set_h_batch set_h_state set_h_wait cb_id cb_reqb cb_reqst] in *.
    assert (Ew0 : wait_of h user (cb_id (h_batch h)) = (x, y)).
    { rewrite <- Ew, F3. unfold wait_of. rewrite F5. reflexivity. }
    exists e, awf, msgs, tok. subst cb. rewrite F3 in *. rewrite F6 in G6.
    split; [exact G1|]. split; [exact G2|]. split; [exact G3|].
    split.
    { left. split; [first [exact Hb | reflexivity]|]. split; [exact Hle|]. split; [exact G4|]. split; [exact G5|].
      rewrite Ew0. cbn [fst snd]. unfold wait_of. rewrite G9.
      rewrite (get_set_same eqbAN); [reflexivity|]. exact eqbNN_eq. }
    split; [exact G6|]. split; [exact G7|]. split; [exact G8|]. split; [reflexivity | exact Hm].
  - destruct (sender =? st) eqn:Est; [|discriminate].
    apply N.eqb_eq in Est. subst st. unfold execute_unbond_stsei in H.
    bind_inv H as h1 Hh1. pose proof (slashing_lut _ _ _ _ Hh1) as Hlut.
    pose proof (slashing_frame _ _ _ _ Hh1) as (F1 & F2 & F3 & F4 & F5 & F6 & F7).
    bind_inv H as reqst Hreqst. bind_inv H as h2 Hh2.
    bind_inv H as r Hr. destruct r as [h4 msgs]. bind_inv H as tok Htok. inversion H; subst h' out. clear H.
    unfold add128, narrow128 in Hreqst. destruct (fits128 (cb_reqst (h_batch h1) + a)); inversion Hreqst; subst reqst.
    unfold add_wait in Hh2. destruct (wait_of h1 user (cb_id (h_batch h1))) as [x y] eqn:Ew.
    cbn [bind] in Hh2. bind_inv Hh2 as y' Hy'. inversion Hh2; subst h2. clear Hh2.
    unfold add128, narrow128 in Hy'. destruct (fits128 (y + a)); inversion Hy'; subst y'.
    apply maybe_undelegate_closes in Hr;
      [|cbn [h_params h_state set_h_batch set_h_state set_h_wait hs_lut]; rewrite F2, Hlut; exact Hep].
    destruct Hr as [(e & G1 & G2 & G3 & G4 & G5 & _ & _ & G6 & G7 & G8 & G9) Hm].
    cbn [h_batch h_hist h_wait set_h_batch set_h_state set_h_wait cb_id cb_reqb cb_reqst] in *.
    assert (Ew0 : wait_of h user (cb_id (h_batch h)) = (x, y)).
    { rewrite <- Ew, F3. unfold wait_of. rewrite F5. reflexivity. }
    exists e, a, msgs, tok. subst cb. rewrite F3 in *. rewrite F6 in G6.
    split; [exact G1|]. split; [exact G2|]. split; [exact G3|].
    split.
    { right. split; [first [exact Hst | reflexivity]|]. split; [reflexivity|]. split; [exact G4|]. split; [exact G5|].
      rewrite Ew0. cbn [fst snd]. unfold wait_of. rewrite G9.
      rewrite (get_set_same eqbAN); [reflexivity|]. exact eqbNN_eq. }
    split; [exact G6|]. split; [exact G7|]. split; [exact G8|]. split; [reflexivity | exact Hm].
Qed.

(** ** Token level: the holder's Send{hub, a, Unbond} is accepted by the token contract *)
Lemma tok_move_ok t from to amt :
  amt <= tbal t from -> tbal t to + amt <= U128MAX -> exists t', tok_move t from to amt = Some t'.
Proof.
  intros Hle Hfit. unfold tok_move. rewrite sub128_ok by exact Hle. cbn [bind].
  destruct (N.eq_dec to from) as [->|Hne].
  - rewrite tbal_set_same. rewrite add128_ok by lia. cbn [bind]. eexists; reflexivity.
  - rewrite tbal_set_other by exact Hne. rewrite add128_ok by exact Hfit. cbn [bind]. eexists; reflexivity.
Qed.

Lemma holder_le_supply t x : TInv t -> tbal t x <= tk_supply t.
Proof. intros H. unfold TInv in H. rewrite <- H. apply tbal_le_sum. Qed.

Lemma wired_reward_contract w tb :
  Wired w -> w_bsei w = Some tb -> query_reward_contract w tb = Some A_reward.
Proof.
  intros HW Hb. apply Wired_inv in HW.
  destruct HW as (h & r & d & g & tb0 & ts0 & E1 & E2 & E3 & E4 & E5 & E6 & W1 & W2 & W3 & W4 & W5 & W6 &
                  W7 & W8 & W9 & W10 & W11 & W12).
  rewrite Hb in E5. inversion E5; subst tb0. unfold query_reward_contract.
  rewrite W11, E1. cbn [bind]. rewrite W1. cbn [bind]. rewrite E3. cbn [bind]. rewrite W8. reflexivity.
Qed.

(** a holder of [a > 0] tokens: the token contract accepts the Send and emits exactly the mirror
    updates (bSei only) and the hub's Receive{Unbond}; the amount is within the token supply, so
    [unbond_succeeds] applies to the emitted Receive *)
Theorem token_send_unbond_succeeds w tb ts user a hk :
  Wired w -> w_bsei w = Some tb -> w_stsei w = Some ts -> TInv tb -> TInv ts ->
  tk_supply tb <= LIM -> tk_supply ts <= LIM -> 0 < a ->
  (a <= tbal tb user ->
     a <= tk_supply tb /\
     exists tb', bsei_execute w tb user (CSend A_hub a hk)
                 = Some (tb', [m_dec A_reward user a; m_inc A_reward A_hub a; m_receive A_hub user a hk])) /\
  (a <= tbal ts user ->
     a <= tk_supply ts /\
     exists ts', stsei_execute w ts user (CSend A_hub a hk) = Some (ts', [m_receive A_hub user a hk])).
Proof.
  intros HW Hb Hs Tb Ts Lb Ls Ha. pose proof LIM2_fits as HL2. split; intros Hle.
  - pose proof (holder_le_supply tb user Tb). pose proof (holder_le_supply tb A_hub Tb).
    split; [lia|]. unfold bsei_execute. rewrite (wired_reward_contract w tb HW Hb). cbn [bind].
    assert (Hz : negb (a =? 0) = true) by (apply negb_true_iff; apply N.eqb_neq; lia). rewrite Hz.
    destruct (tok_move_ok tb user A_hub a Hle) as [tb' Hm]; [lia|]. rewrite Hm. cbn [bind].
    eexists; reflexivity.
  - pose proof (holder_le_supply ts user Ts). pose proof (holder_le_supply ts A_hub Ts).
    split; [lia|]. unfold stsei_execute.
    assert (Hz : negb (a =? 0) = true) by (apply negb_true_iff; apply N.eqb_neq; lia). rewrite Hz.
    destruct (tok_move_ok ts user A_hub a Hle) as [ts' Hm]; [lia|]. rewrite Hm. cbn [bind].
    eexists; reflexivity.
Qed.

(** whole transactions on the concrete world (full and partial balances, both tokens): they succeed
    and, the epoch being over, undelegate *)
Example unbond_tx_examples :
  fst (snd (step world1 (OTx alice A_bsei (WCw20 (CSend A_hub 1000000 HkUnbond)) []))) = true /\
  fst (snd (step world1 (OTx alice A_bsei (WCw20 (CSend A_hub 1 HkUnbond)) []))) = true /\
  fst (snd (step world1 (OTx bob A_stsei (WCw20 (CSend A_hub 2000000 HkUnbond)) []))) = true /\
  existsb (fun sm => match snd sm with MUndelegate _ _ => true | _ => false end)
          (snd (snd (step world1 (OTx bob A_stsei (WCw20 (CSend A_hub 7 HkUnbond)) [])))) = true.
Proof. vm_compute. repeat split. Qed.
