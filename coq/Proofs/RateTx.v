(** * RateTx: C03 / C04 at TRANSACTION level for Bond and BondForStSei.

    The handler-level theorems of Proofs/HubRates.v take the effect of the emitted cw20 Mint on the
    token supply as an explicit arithmetic link.  Here the link is closed: the theorems speak about
    the world AFTER the whole transaction (funds transfer, hub handler, Delegate messages, token
    Mint, reward-contract IncreaseBalance) and about what the State query reports in it.

    Vocabulary
    - [w_claims_b w] / [w_claims_st w]: total supply + open unbond requests of bSei / stSei in [w].
    - [bond_b_amount h s sb p]: what C03_bond_b_mints mints for payment [p] when the State query
      reports [s] and the bSei supply is [sb]:  floor(p / rate_b) - peg fee.
    - [SoundRates w]: the reported rates are positive and not above backing over claims
      ([Sound] of HubRates.v); [RatesExact w]: they ARE backing over claims; [BackedW w]: claims
      have backing (the complement of finding F5).
    - [RateE1 w]: envelope E1 on the hub's quantities; [RegOk g] (IndexPhases.v): the registry is
      non-empty and lists real validators without repetition.

    Main theorems
    - [bondst_tx_effect] / [bond_tx_effect]: the world after a successful BondForStSei / Bond
      transaction: token supply and the sender's balance grew by exactly the mint of C03, (bSei) the
      reward contract recorded it, the hub's delegated stake grew by exactly the payment, the booked
      pools are as in C03, and the State query of the new world reports backing over claims for the
      new supply.
    - [bond_tx_mirror]: Mirror holds again after the transaction.
    - [bond_tx_hub_balance]: the hub's liquid usei balance is unchanged.
    - [bondst_tx_rate_mono] / [bond_tx_rate_mono]: no reported rate is lower after the transaction
      (C04 at transaction level); the new reported rates are exact rates of backed pools.
    - [bond_tx_invariants]: Wired, EntWf, RatesExact, BackedW and (within E1) SoundRates hold again.
    - [bond_tx_reports]: within E1 the State query of the new world answers.
    - [rt_execute_bond_st_some] / [rt_execute_bond_b_some]: within E1 the hub handler succeeds.
    - [bondst_tx_succeeds] / [bond_tx_succeeds]: under wiring, E1 and the ledger invariants the
      whole transaction succeeds, leg by leg.
    - [rate_monotone_step], [rate_step_invariants]: history-level corollary for one operation
      OTx _ A_hub Bond/BondForStSei, successful or not.
    - [rt_exact_of_bonded], [rt_sound_of_exact]: where [RatesExact] / [SoundRates] come from.
    - [def_*]: the vocabulary restated. *)
From Coq Require Import Permutation.
From Krp Require Import Tactics Prelude Fixed FMap Types Env Registry Cw20 Reward Dispatcher Hub Exec
     ExecP Hist Inv RegistryP HubFrame HubAdmin Cw20P MirrorWire MirrorP HubRates
     BooksEnv BooksHub BooksP BooksLiquid IndexRun IndexEnv IndexHandlers IndexPhases RateTxLegs.
Open Scope N_scope.
Ltac Zify.zify_post_hook ::= Z.div_mod_to_equations.

(** ** vocabulary *)
Definition w_claims_b (w : world) : N :=
  match w_hub w, w_bsei w with Some h, Some tb => claims_b h tb | _, _ => 0 end.
Definition w_claims_st (w : world) : N :=
  match w_hub w, w_stsei w with Some h, Some ts => claims_st h ts | _, _ => 0 end.

Definition bond_b_amount (h : hub) (s : hub_state) (sb p : N) : N :=
  let r := hs_ber s in
  let m0 := p * D / r in
  let fee := if r <? hp_thr (h_params h)
             then N.min (m0 * hp_pegfee (h_params h) / D)
                        (sb + m0 + cb_reqb (h_batch h) - (hs_bb s + p))
             else 0 in
  m0 - fee.

Definition SoundRates (w : world) : Prop :=
  forall s, hub_query_state w A_hub = Some s ->
    Sound (hs_ber s) (hs_bb s) (w_claims_b w) /\ Sound (hs_ser s) (hs_bst s) (w_claims_st w).

Definition RatesExact (w : world) : Prop :=
  forall s, hub_query_state w A_hub = Some s ->
    hs_ber s = rate_of (hs_bb s) (w_claims_b w) /\ hs_ser s = rate_of (hs_bst s) (w_claims_st w).

Definition BackedW (w : world) : Prop :=
  forall s, hub_query_state w A_hub = Some s ->
    Backed (hs_bb s) (w_claims_b w) /\ Backed (hs_bst s) (w_claims_st w).

Definition RateE1 (w : world) : Prop :=
  match w_hub w, w_bsei w, w_stsei w with
  | Some h, Some tb, Some ts =>
      delegated (w_env w) A_hub <= LIM /\ booked h <= LIM /\
      claims_b h tb <= LIM /\ claims_st h ts <= LIM /\
      hp_pegfee (h_params h) <= D /\ hp_thr (h_params h) <= D /\
      hs_ber (h_state h) <= U128MAX /\ hs_ser (h_state h) <= U128MAX
  | _, _, _ => False
  end.

(** ** the State query *)
Lemma rt_supplies w h tb ts :
  hc_bsei (h_cfg h) = Some A_bsei -> hc_stsei (h_cfg h) = Some A_stsei ->
  w_bsei w = Some tb -> w_stsei w = Some ts ->
  hub_bsei_supply w h = Some (tk_supply tb) /\ hub_stsei_supply w h = Some (tk_supply ts).
Proof.
  intros Hb Hs Htb Hts. unfold hub_bsei_supply, hub_stsei_supply, query_total_supply, token_at.
  rewrite Hb, Hs. cbn [bind].
  change (A_bsei =? A_bsei) with true. change (A_stsei =? A_bsei) with false.
  change (A_stsei =? A_stsei) with true. cbv iota. rewrite Htb, Hts. split; reflexivity.
Qed.

(** the query does not look at the bank *)
Lemma rt_qas_env w e h :
  e_del e = e_del (w_env w) ->
  query_actual_state (set_env w e) A_hub h = query_actual_state w A_hub h.
Proof.
  intros He. apply qas_ext; try reflexivity. cbn [w_env set_env].
  apply all_delegations_same_del. exact He.
Qed.

(** when the books are within the delegations the query reports the stored pools and, for each
    token, backing over claims *)
Lemma rt_query_nosync w h s' sb ss :
  hp_underlying (h_params h) = usei ->
  hub_bsei_supply w h = Some sb -> hub_stsei_supply w h = Some ss ->
  query_actual_state w A_hub h = Some s' ->
  0 < booked h -> booked h <= delegated (w_env w) A_hub ->
  hs_bb s' = hs_bb (h_state h) /\ hs_bst s' = hs_bst (h_state h) /\
  hs_ber s' = rate_of (hs_bb (h_state h)) (sb + cb_reqb (h_batch h)) /\
  hs_ser s' = rate_of (hs_bst (h_state h)) (ss + cb_reqst (h_batch h)).
Proof.
  intros Hu Hsb Hss Hq Hpos Hle.
  assert (Hne : all_delegations (w_env w) A_hub <> []) by (apply delegated_pos_entries; lia).
  destruct (reported_rate _ _ _ _ Hq Hne Hpos) as (actual & sb' & ss' & Ha & E1 & E2 & ->).
  rewrite Hsb in E1. rewrite Hss in E2. inversion E1; inversion E2; subst sb' ss'.
  apply actual_bonded_spec in Ha. destruct Ha as [_ Ha]. specialize (Ha Hu). subst actual.
  unfold synced_state, sync_pools, booked in *.
  assert (E : (delegated (w_env w) A_hub <? hs_bb (h_state h) + hs_bst (h_state h)) = false) by lia.
  rewrite E. cbn [fst snd hs_bb hs_bst hs_ber hs_ser]. repeat split.
Qed.

(** every reported rate is a Decimal (fits 128 bits) when the stored ones are *)
Lemma rt_exchange_rate_fits b i r x : exchange_rate b i r = Some x -> x <= U128MAX.
Proof.
  unfold exchange_rate. intros H. bind_inv H as a Ha.
  destruct ((b =? 0) || (a =? 0)).
  - inversion H; subst. vm_compute. discriminate.
  - unfold ratio, narrow128, fits128 in H. destruct (a =? 0); [discriminate|].
    destruct (b * D / a <=? U128MAX) eqn:E; [|discriminate]. inversion H; subst. lia.
Qed.

Lemma rt_qas_fits w self h s :
  query_actual_state w self h = Some s ->
  hs_ber (h_state h) <= U128MAX -> hs_ser (h_state h) <= U128MAX ->
  hs_ber s <= U128MAX /\ hs_ser s <= U128MAX.
Proof.
  unfold query_actual_state. intros H F1 F2.
  destruct (all_delegations (w_env w) self) as [|d0 dr]; [inversion H; subst; auto|].
  bind_inv H as actual Hact. bind_inv H as total Htot.
  destruct (total =? 0); [inversion H; subst; auto|].
  bind_inv H as sb Hsb. bind_inv H as ss Hss. bind_inv H as s1 Hs1.
  bind_inv H as ber Hber. bind_inv H as ser Hser. inversion H; subst s; clear H.
  apply rt_exchange_rate_fits in Hber. apply rt_exchange_rate_fits in Hser.
  cbn [set_rates hs_ber hs_ser]. auto.
Qed.

(** ** decomposition of a successful Bond / BondForStSei transaction *)
Lemma rt_bond_decompose w user hm k funds w' tr h :
  (hm = HBond /\ k = BkB) \/ (hm = HBondSt /\ k = BkSt) ->
  w_hub w = Some h ->
  run tx_fuel w [(user, MWasm A_hub (WHub hm) funds)] [] = Some (w', tr) ->
  exists e1 h' o n,
    paused h = false /\
    send_coins (w_env w) user A_hub funds = Some e1 /\
    execute_bond (set_env w e1) h A_hub user funds k = Some (h', o) /\
    Exec (set_hub (set_env w e1) h') (map (fun x => (A_hub, x)) o) w' n.
Proof.
  intros Hk Hh H. apply run_Exec in H. destruct H as [n H].
  apply Exec_cons_inv in H. destruct H as (w1 & out & w2 & n1 & n2 & Hs & H1 & H2 & _).
  apply Exec_nil_inv in H2. subst w2.
  apply rt_root_inv in Hs. destruct Hs as (h0 & e1 & h' & o & Hh0 & Hsend & He & -> & ->).
  rewrite Hh in Hh0. inversion Hh0; subst h0; clear Hh0.
  exists e1, h', o, n1.
  destruct Hk as [[-> ->]|[-> ->]]; cbn [hub_execute] in He;
    (destruct (paused h) eqn:Hp; [discriminate He|]); cbn [negb] in He; auto.
Qed.

(** the environment after the funds transfer and the delegations *)
Lemma rt_send_del e s to funds e1 : send_coins e s to funds = Some e1 -> e_del e1 = e_del e.
Proof. intros H. apply send_coins_static in H. destruct H as (_ & _ & H & _). exact H. Qed.

Lemma rt_dsum_bond w h self sender funds k h' out dmsgs tail :
  execute_bond w h self sender funds k = Some (h', out) ->
  out = dmsgs ++ [tail] -> dmsg_amt tail = 0 ->
  exists p, funds = [(hp_underlying (h_params h), p)] /\ 0 < p /\ dsum dmsgs = p.
Proof.
  intros H Eo Ht. destruct (bond_delegates_all _ _ _ _ _ _ _ _ H) as (pay & h1 & g & E1 & E2 & E3 & _ & _ & E5 & _).
  destruct pay as [dn p]. cbn [fst snd] in *. subst dn. exists p. split; [exact E1|]. split; [exact E3|].
  rewrite Eo, dsum_app in E5. unfold dsum at 2 in E5. cbn [map sumN] in E5. lia.
Qed.

Lemma rt_booked_after_sync w e1 h h1 :
  Ent w -> w_hub w = Some h -> e_del e1 = e_del (w_env w) ->
  slashing (set_env w e1) A_hub h = Some h1 ->
  booked h1 <= delegated (w_env w) A_hub.
Proof.
  intros Hent Hh Hdel Hsl.
  rewrite <- (delegated_same_del (w_env w) e1 A_hub Hdel).
  apply (slashing_restores (set_env w e1) A_hub h h1 Hsl). cbn [w_env set_env].
  rewrite (all_delegations_same_del (w_env w) e1 A_hub Hdel). apply Hent. exact Hh.
Qed.

(** ** BondForStSei: the world after the transaction *)
Theorem bondst_tx_effect w user funds w' tr h tb ts :
  Wired w -> EntWf w ->
  w_hub w = Some h -> w_bsei w = Some tb -> w_stsei w = Some ts ->
  run tx_fuel w [(user, MWasm A_hub (WHub HBondSt) funds)] [] = Some (w', tr) ->
  exists p s h' ts',
    funds = [(usei, p)] /\ 0 < p /\
    hub_query_state w A_hub = Some s /\ hs_ser s <> 0 /\
    let mint := p * D / hs_ser s in
    0 < mint /\
    w_hub w' = Some h' /\ w_bsei w' = Some tb /\ w_stsei w' = Some ts' /\
    w_reward w' = w_reward w /\ w_disp w' = w_disp w /\ w_reg w' = w_reg w /\
    tk_supply ts' = tk_supply ts + mint /\ tbal ts' user = tbal ts user + mint /\
    (forall a, a <> user -> tbal ts' a = tbal ts a) /\
    delegated (w_env w') A_hub = delegated (w_env w) A_hub + p /\
    hs_bb s + hs_bst s <= delegated (w_env w) A_hub /\
    h_batch h' = h_batch h /\ h_cfg h' = h_cfg h /\ h_params h' = h_params h /\
    hs_bb (h_state h') = hs_bb s /\ hs_bst (h_state h') = hs_bst s + p /\
    (forall s', hub_query_state w' A_hub = Some s' ->
       hs_bb s' = hs_bb s /\ hs_bst s' = hs_bst s + p /\
       hs_ber s' = rate_of (hs_bb s) (tk_supply tb + cb_reqb (h_batch h)) /\
       hs_ser s' = rate_of (hs_bst s + p) (tk_supply ts + mint + cb_reqst (h_batch h))).
Proof.
  intros HW [Hwf Hent] Hh Hb Hs H.
  destruct (Wired_inv _ HW) as (h0 & r & d & g & tb0 & ts0 & Hh0 & Hr & Hd & Hg & Hb0 & Hs0 &
                                Wd & Wr & Wb & Ws & Wu & _).
  rewrite Hh in Hh0. inversion Hh0; subst h0; clear Hh0.
  rewrite Hb in Hb0. inversion Hb0; subst tb0; clear Hb0.
  rewrite Hs in Hs0. inversion Hs0; subst ts0; clear Hs0.
  destruct (rt_bond_decompose w user HBondSt BkSt funds w' tr h (or_intror (conj eq_refl eq_refl)) Hh H)
    as (e1 & h' & o & n & Hp & Hsend & He & Hex).
  pose proof (rt_send_del _ _ _ _ _ Hsend) as Hdel1.
  destruct (bond_st_mints _ _ _ _ _ _ _ He) as (h1 & p & vals & xs & tok & Hsl & Hf & Hpos & Htok & E3).
  cbv zeta in E3. destruct E3 as (Hser & Eo & Eh).
  rewrite Wu in *. rewrite Ws in Htok. inversion Htok; subst tok; clear Htok.
  pose proof (rt_booked_after_sync w e1 h h1 Hent Hh Hdel1 Hsl) as Hbk.
  pose proof (slashing_frame _ _ _ _ Hsl) as (F1 & F2 & F3 & _).
  unfold slashing in Hsl. bind_inv Hsl as s Hq. inversion Hsl; subst h1; clear Hsl.
  cbn [h_state set_h_state] in *.
  rewrite rt_qas_env in Hq by exact Hdel1.
  destruct (rt_dsum_bond _ _ _ _ _ _ _ _ _ _ He Eo eq_refl) as (p' & Hf' & _ & Hds).
  rewrite Hf in Hf'. injection Hf' as _ Ep. rewrite <- Ep in Hds. clear Ep p'.
  rewrite Eo, map_app in Hex. apply Exec_app_inv in Hex. destruct Hex as (w2 & m1 & m2 & Hdl & Hm).
  apply rt_delegates_inv in Hdl; [|apply delegate_msgs_only_delegate].
  destruct Hdl as (e2 & -> & Hdel2 & _).
  cbn [map] in Hm. apply (rt_stsei_mint_inv _ _ _ _ _ ts) in Hm; [|exact Hs].
  destruct Hm as (ts' & -> & Hmint).
  apply tok_mint_spec in Hmint. destruct Hmint as (Hmpos & _ & _ & Hsup & _ & _ & _ & Hbal & Hoth).
  cbn [w_env set_env set_hub] in Hdel2. rewrite (delegated_same_del (w_env w) e1 A_hub Hdel1), Hds in Hdel2.
  exists p, s, h', ts'.
  split; [exact Hf|]. split; [exact Hpos|].
  split; [unfold hub_query_state; rewrite Hh; exact Hq|]. split; [exact Hser|]. cbv zeta.
  split; [exact Hmpos|].
  cbn [w_hub w_bsei w_stsei w_reward w_disp w_reg w_env set_stsei set_env set_hub].
  split; [reflexivity|]. split; [exact Hb|]. split; [reflexivity|].
  split; [reflexivity|]. split; [reflexivity|]. split; [reflexivity|].
  split; [exact Hsup|]. split; [exact Hbal|]. split; [exact Hoth|]. split; [exact Hdel2|].
  split; [unfold booked in Hbk; cbn [h_state set_h_state] in Hbk; exact Hbk|].
  subst h'. cbn [h_batch h_cfg h_params h_state set_h_state set_bonded hs_bb hs_bst].
  split; [reflexivity|]. split; [reflexivity|]. split; [reflexivity|].
  split; [reflexivity|]. split; [reflexivity|].
  intros s' Hq'. unfold hub_query_state in Hq'. cbn [w_hub set_stsei set_env set_hub bind] in Hq'.
  set (h' := set_h_state (set_h_state h s) (set_bonded s (hs_bb s) (hs_bst s + p))) in *.
  set (wf := set_stsei (set_env (set_hub (set_env w e1) h') e2) ts') in *.
  destruct (rt_supplies wf h' tb ts' Wb Ws Hb eq_refl) as [Sb Ss].
  destruct (rt_query_nosync wf h' s' _ _ Wu Sb Ss Hq') as (Q1 & Q2 & Q3 & Q4).
  - unfold booked, h'. cbn [h_state set_h_state set_bonded hs_bb hs_bst]. lia.
  - unfold booked in *. unfold h', wf. cbn [h_state set_h_state set_bonded hs_bb hs_bst w_env set_stsei set_env].
    cbn [h_state set_h_state] in Hbk. lia.
  - unfold h' in *. cbn [h_state h_batch set_h_state set_bonded hs_bb hs_bst] in *.
    rewrite Hsup in Q4. repeat split; assumption.
Qed.

Lemma rt_wired_bond w e h h' :
  Wired w -> w_hub w = Some h -> h_cfg h' = h_cfg h -> h_params h' = h_params h ->
  Wired (set_env (set_hub w h') e).
Proof.
  intros HW Hh Hc Hp. eapply Wired_wdata; [|exact HW].
  unfold wdata. cbn [w_hub w_reward w_disp w_reg w_bsei w_stsei set_env set_hub]. rewrite Hh.
  cbn [option_map]. unfold wd_hub. rewrite Hc, Hp. reflexivity.
Qed.

Lemma rt_dl_same a x : dl (Some a) a x = x.
Proof. unfold dl, MirrorP.sel. rewrite N.eqb_refl. reflexivity. Qed.
Lemma rt_dl_other a b x : a <> b -> dl (Some a) b x = 0.
Proof. intros H. unfold dl, MirrorP.sel. assert (E : (a =? b) = false) by lia. rewrite E. reflexivity. Qed.
Lemma rt_dl_total b x : dl None b x = x.
Proof. reflexivity. Qed.

(** ** Bond: the world after the transaction *)
Theorem bond_tx_effect w user funds w' tr h tb ts r :
  Wired w -> EntWf w ->
  w_hub w = Some h -> w_bsei w = Some tb -> w_stsei w = Some ts -> w_reward w = Some r ->
  run tx_fuel w [(user, MWasm A_hub (WHub HBond) funds)] [] = Some (w', tr) ->
  exists p s h' tb' r',
    funds = [(usei, p)] /\ 0 < p /\
    hub_query_state w A_hub = Some s /\ hs_ber s <> 0 /\
    let mint := bond_b_amount h s (tk_supply tb) p in
    0 < mint /\
    w_hub w' = Some h' /\ w_bsei w' = Some tb' /\ w_stsei w' = Some ts /\
    w_reward w' = Some r' /\ w_disp w' = w_disp w /\ w_reg w' = w_reg w /\
    tk_supply tb' = tk_supply tb + mint /\ tbal tb' user = tbal tb user + mint /\
    (forall a, a <> user -> tbal tb' a = tbal tb a) /\
    rw_total r' = rw_total r + mint /\
    ho_bal (holder_of r' user) = ho_bal (holder_of r user) + mint /\
    (forall a, a <> user -> ho_bal (holder_of r' a) = ho_bal (holder_of r a)) /\
    delegated (w_env w') A_hub = delegated (w_env w) A_hub + p /\
    hs_bb s + hs_bst s <= delegated (w_env w) A_hub /\
    h_batch h' = h_batch h /\ h_cfg h' = h_cfg h /\ h_params h' = h_params h /\
    hs_bb (h_state h') = hs_bb s + p /\ hs_bst (h_state h') = hs_bst s /\
    hs_ber (h_state h') = rate_of (hs_bb s + p) (tk_supply tb + mint + cb_reqb (h_batch h)) /\
    (forall s', hub_query_state w' A_hub = Some s' ->
       hs_bb s' = hs_bb s + p /\ hs_bst s' = hs_bst s /\
       hs_ber s' = rate_of (hs_bb s + p) (tk_supply tb + mint + cb_reqb (h_batch h)) /\
       hs_ser s' = rate_of (hs_bst s) (tk_supply ts + cb_reqst (h_batch h))).
Proof.
  intros HW [Hwf Hent] Hh Hb Hs Hrw H.
  destruct (Wired_inv _ HW) as (h0 & r0 & d & g & tb0 & ts0 & Hh0 & Hr & Hd & Hg & Hb0 & Hs0 &
                                Wd & Wr & Wb & Ws & Wu & _).
  rewrite Hh in Hh0. inversion Hh0; subst h0; clear Hh0.
  rewrite Hb in Hb0. inversion Hb0; subst tb0; clear Hb0.
  rewrite Hs in Hs0. inversion Hs0; subst ts0; clear Hs0.
  rewrite Hrw in Hr. inversion Hr; subst r0; clear Hr.
  destruct (rt_bond_decompose w user HBond BkB funds w' tr h (or_introl (conj eq_refl eq_refl)) Hh H)
    as (e1 & h' & o & n & Hp & Hsend & He & Hex).
  pose proof (rt_send_del _ _ _ _ _ Hsend) as Hdel1.
  destruct (rt_supplies (set_env w e1) h tb ts Wb Ws Hb Hs) as [Sb0 _].
  destruct (bond_b_mints _ _ _ _ _ _ _ _ He Sb0) as (h1 & p & vals & xs & tok & Hsl & Hf & Hpos & Htok & E3).
  cbv zeta in E3. destruct E3 as (Hber & Hfee & Eo & Eh).
  rewrite Wu in *. rewrite Wb in Htok. inversion Htok; subst tok; clear Htok.
  pose proof (rt_booked_after_sync w e1 h h1 Hent Hh Hdel1 Hsl) as Hbk.
  pose proof (slashing_frame _ _ _ _ Hsl) as (F1 & F2 & F3 & _).
  unfold slashing in Hsl. bind_inv Hsl as s Hq. inversion Hsl; subst h1; clear Hsl.
  cbn [h_state set_h_state] in *.
  rewrite rt_qas_env in Hq by exact Hdel1.
  destruct (rt_dsum_bond _ _ _ _ _ _ _ _ _ _ He Eo eq_refl) as (p' & Hf' & _ & Hds).
  rewrite Hf in Hf'. injection Hf' as _ Ep. rewrite <- Ep in Hds. clear Ep p'.
  fold (bond_b_amount h s (tk_supply tb) p) in Eo, Eh.
  set (mint := bond_b_amount h s (tk_supply tb) p) in *.
  rewrite Eo, map_app in Hex. apply Exec_app_inv in Hex. destruct Hex as (w2 & m1 & m2 & Hdl & Hm).
  apply rt_delegates_inv in Hdl; [|apply delegate_msgs_only_delegate].
  destruct Hdl as (e2 & -> & Hdel2 & _).
  assert (HW2 : Wired (set_env (set_hub (set_env w e1) h') e2)).
  { apply (rt_wired_bond (set_env w e1) e2 h h'); [exact HW | exact Hh | subst h'; reflexivity | subst h'; reflexivity]. }
  cbn [map] in Hm. apply (rt_bsei_mint_inv _ _ _ _ _ tb HW2 Hb) in Hm.
  destruct Hm as (tb' & r0 & r' & Hr0 & -> & Hmint & Hrb).
  cbn [w_reward set_env set_hub] in Hr0. rewrite Hrw in Hr0. inversion Hr0; subst r0; clear Hr0.
  apply tok_mint_spec in Hmint. destruct Hmint as (Hmpos & _ & _ & Hsup & _ & _ & _ & Hbal & Hoth).
  cbn [w_env set_env set_hub] in Hdel2. rewrite (delegated_same_del (w_env w) e1 A_hub Hdel1), Hds in Hdel2.
  exists p, s, h', tb', r'.
  split; [exact Hf|]. split; [exact Hpos|].
  split; [unfold hub_query_state; rewrite Hh; exact Hq|]. split; [exact Hber|]. cbv zeta. fold mint.
  split; [exact Hmpos|].
  cbn [w_hub w_bsei w_stsei w_reward w_disp w_reg w_env set_reward set_bsei set_env set_hub].
  split; [reflexivity|]. split; [reflexivity|]. split; [exact Hs|].
  split; [reflexivity|]. split; [reflexivity|]. split; [reflexivity|].
  split; [exact Hsup|]. split; [exact Hbal|]. split; [exact Hoth|].
  split; [specialize (Hrb None); cbn [rbal] in Hrb; rewrite rt_dl_total in Hrb; exact Hrb|].
  split; [specialize (Hrb (Some user)); cbn [rbal] in Hrb; rewrite rt_dl_same in Hrb; exact Hrb|].
  split; [intros a Ha; specialize (Hrb (Some a)); cbn [rbal] in Hrb; rewrite rt_dl_other in Hrb by exact Ha; lia|].
  split; [exact Hdel2|].
  split; [unfold booked in Hbk; cbn [h_state set_h_state] in Hbk; exact Hbk|].
  subst h'. cbn [h_batch h_cfg h_params h_state set_h_state set_bonded set_ber set_rates hs_bb hs_bst hs_ber].
  split; [reflexivity|]. split; [reflexivity|]. split; [reflexivity|].
  split; [reflexivity|]. split; [reflexivity|]. split; [reflexivity|].
  intros s' Hq'. unfold hub_query_state in Hq'. cbn [w_hub set_reward set_bsei set_env set_hub bind] in Hq'.
  match type of Hq' with query_actual_state ?W _ ?H' = _ => set (wf := W) in *; set (h' := H') in * end.
  destruct (rt_supplies wf h' tb' ts Wb Ws eq_refl Hs) as [Sb Ss].
  destruct (rt_query_nosync wf h' s' _ _ Wu Sb Ss Hq') as (Q1 & Q2 & Q3 & Q4).
  - unfold booked, h'. cbn [h_state set_h_state set_bonded set_ber set_rates hs_bb hs_bst]. lia.
  - unfold booked in *. unfold h', wf.
    cbn [h_state set_h_state set_bonded set_ber set_rates hs_bb hs_bst w_env set_reward set_bsei set_env].
    cbn [h_state set_h_state] in Hbk. lia.
  - unfold h' in *. cbn [h_state h_batch set_h_state set_bonded set_ber set_rates hs_bb hs_bst] in *.
    rewrite Hsup in Q3. repeat split; assumption.
Qed.

(** ** success of the hub handler within E1 *)
Lemma rt_LIMD_fits : LIM + LIM * D + LIM <= U128MAX.
Proof. apply N.leb_le. vm_compute. reflexivity. Qed.

Lemma rt_ddiv_ok a r : 0 < r -> r <= U128MAX -> a <= LIM -> ddiv a r = Some (a * D / r).
Proof.
  intros Hr Hf Ha. rewrite ddiv_eq by (unfold fits128; lia).
  apply (ratio_ok a r LIM); [lia | exact Ha |]. pose proof LIM_D_fits. lia.
Qed.

Lemma rt_div_le_num a r : 0 < r -> a * D / r <= a * D.
Proof.
  intros Hr. apply N.div_le_upper_bound; [lia|].
  assert (1 * (a * D) <= r * (a * D)) by (apply N.mul_le_mono_r; lia). lia.
Qed.

Lemma rt_exchange_rate_some b i r :
  b <= 2 * LIM -> i + r <= U128MAX -> exists x, exchange_rate b i r = Some x.
Proof.
  intros Hb Hc. unfold exchange_rate. rewrite add128_ok by exact Hc. cbn [bind].
  destruct ((b =? 0) || (i + r =? 0)) eqn:E; [eauto|].
  apply orb_false_iff in E. destruct E as [E1 E2].
  rewrite (ratio_ok b (i + r) (2 * LIM)); [eauto | lia | exact Hb |]. pose proof LIM_D_fits. lia.
Qed.

Lemma rt_vals_deleg w g p :
  RegOk g -> rg_hub g = A_hub -> delegated (w_env w) A_hub <= LIM -> p <= LIM ->
  let vals := sort_asc (reg_query_validators w g) in
  exists v0 vr xs, vals = v0 :: vr /\ deleg p (map snd vals) = Some (0, xs) /\
    length xs = length vals /\ sumN xs = p.
Proof.
  intros Hok Hgh Hdel Hp vals.
  destruct (vals_facts w g Hok Hgh Hdel) as (Hne & _ & _ & _ & Hsum). fold vals in Hne, Hsum.
  pose proof LIM_fits as HL.
  destruct (deleg_total p (map snd vals)) as (xs & Hxs & Hlen & Hs).
  - destruct vals; [congruence | discriminate].
  - lia.
  - rewrite map_length in Hlen. destruct vals as [|v0 vr] eqn:Ev; [congruence|].
    exists v0, vr, xs. repeat split; assumption.
Qed.

Lemma rt_execute_bond_st_some w h user p s1 ts g :
  hc_disp (h_cfg h) = Some A_disp -> hc_reg (h_cfg h) = Some A_reg ->
  hc_stsei (h_cfg h) = Some A_stsei -> hp_underlying (h_params h) = usei ->
  w_reg w = Some g -> w_stsei w = Some ts -> RegOk g -> rg_hub g = A_hub ->
  delegated (w_env w) A_hub <= LIM -> 0 < p -> p <= LIM ->
  query_actual_state w A_hub h = Some s1 ->
  0 < hs_ser s1 -> hs_ser s1 <= U128MAX -> hs_bst s1 <= LIM -> tk_supply ts <= LIM ->
  let vals := sort_asc (reg_query_validators w g) in
  exists h' xs,
    execute_bond w h A_hub user [(usei, p)] BkSt =
      Some (h', delegate_msgs vals xs usei ++
                [MWasm A_stsei (WCw20 (CMint user (p * D / hs_ser s1))) []]) /\
    length xs = length vals /\ sumN xs = p.
Proof.
  intros Hcd Hcr Hcs Hu Hg Hts Hok Hgh Hdel Hpos Hp Hq Hser Hserf Hbst Hsup vals.
  pose proof rt_LIMD_fits as HF. pose proof LIM_fits as HL.
  destruct (rt_vals_deleg w g p Hok Hgh Hdel Hp) as (v0 & vr & xs & Ev & Hxs & Hxl & Hxsum).
  fold vals in Ev, Hxs, Hxl.
  unfold execute_bond. rewrite Hcd. cbn [bind].
  change (N.of_nat (length [(usei, p)]) <=? 1) with true. cbv iota.
  rewrite Hu, find_payment_one by lia. cbn [bind snd fst].
  unfold slashing. rewrite Hq. cbn [bind]. cbn [h_state set_h_state h_batch h_params].
  assert (Hss : hub_stsei_supply w (set_h_state h s1) = Some (tk_supply ts)).
  { unfold hub_stsei_supply, query_total_supply, token_at. cbn [h_cfg set_h_state]. rewrite Hcs. cbn [bind].
    change (A_stsei =? A_bsei) with false. change (A_stsei =? A_stsei) with true. cbv iota.
    rewrite Hts. reflexivity. }
  rewrite Hss. rewrite rt_ddiv_ok by assumption. cbn [bind].
  pose proof (rt_div_le_num p (hs_ser s1) Hser) as Hm.
  assert (HpD : p * D <= LIM * D) by (apply N.mul_le_mono_r; exact Hp).
  rewrite add128_ok by lia. cbn [bind]. rewrite add128_ok by lia. cbn [bind].
  rewrite (vfd_spec w _ g) by (cbn [h_cfg set_h_state]; assumption). cbn [bind]. fold vals.
  rewrite Ev. rewrite Ev in Hxs, Hxl. rewrite Hxs. cbn [bind]. cbn [h_cfg set_h_state]. rewrite Hcs. cbn [bind snd fst].
  do 2 eexists. split; [reflexivity|]. split; assumption.
Qed.

(** below the threshold (rate < 1) the claims exceed the backing: the peg-fee computation
    [claims after - backing after] cannot underflow *)
Lemma rt_fee_gap B C p r thr :
  r = rate_of B C -> 0 < r -> r < thr -> thr <= D -> B + p <= C + p * D / r.
Proof.
  intros Hr Hpos Hlt Hthr. unfold rate_of in Hr.
  destruct ((B =? 0) || (C =? 0)) eqn:E; [lia|].
  apply orb_false_iff in E. destruct E as [E1 E2].
  assert (HBC : B < C).
  { destruct (N.lt_ge_cases B C) as [|Hge]; [assumption|]. exfalso.
    assert (D <= B * D / C); [|lia]. apply N.div_le_lower_bound; [lia|].
    apply N.mul_le_mono_r. exact Hge. }
  assert (Hp : p <= p * D / r).
  { apply N.div_le_lower_bound; [lia|]. rewrite (N.mul_comm r p). apply N.mul_le_mono_l. lia. }
  lia.
Qed.

Lemma rt_execute_bond_b_some w h user p s1 tb g :
  hc_disp (h_cfg h) = Some A_disp -> hc_reg (h_cfg h) = Some A_reg ->
  hc_bsei (h_cfg h) = Some A_bsei -> hp_underlying (h_params h) = usei ->
  w_reg w = Some g -> w_bsei w = Some tb -> RegOk g -> rg_hub g = A_hub ->
  delegated (w_env w) A_hub <= LIM -> 0 < p -> p <= LIM ->
  query_actual_state w A_hub h = Some s1 ->
  (hs_ber s1 < hp_thr (h_params h) ->
   hs_bb s1 + p <= tk_supply tb + cb_reqb (h_batch h) + p * D / hs_ber s1) ->
  0 < hs_ber s1 -> hs_ber s1 <= U128MAX -> hs_bb s1 <= LIM ->
  tk_supply tb + cb_reqb (h_batch h) <= LIM ->
  hp_pegfee (h_params h) <= D -> hp_thr (h_params h) <= D ->
  let vals := sort_asc (reg_query_validators w g) in
  exists h' xs mint,
    execute_bond w h A_hub user [(usei, p)] BkB =
      Some (h', delegate_msgs vals xs usei ++ [MWasm A_bsei (WCw20 (CMint user mint)) []]) /\
    length xs = length vals /\ sumN xs = p /\ mint <= p * D / hs_ber s1.
Proof.
  intros Hcd Hcr Hcb Hu Hg Htb Hok Hgh Hdel Hpos Hp Hq Hex Hber Hberf Hbb Hcl Hfee Hthr vals.
  pose proof rt_LIMD_fits as HF. pose proof LIM_fits as HL.
  destruct (rt_vals_deleg w g p Hok Hgh Hdel Hp) as (v0 & vr & xs & Ev & Hxs & Hxl & Hxsum).
  fold vals in Ev, Hxs, Hxl.
  unfold execute_bond. rewrite Hcd. cbn [bind].
  change (N.of_nat (length [(usei, p)]) <=? 1) with true. cbv iota.
  rewrite Hu, find_payment_one by lia. cbn [bind snd fst].
  unfold slashing. rewrite Hq. cbn [bind]. cbn [h_state set_h_state h_batch h_params].
  assert (Hsb : hub_bsei_supply w (set_h_state h s1) = Some (tk_supply tb)).
  { unfold hub_bsei_supply, query_total_supply, token_at. cbn [h_cfg set_h_state]. rewrite Hcb. cbn [bind].
    change (A_bsei =? A_bsei) with true. cbv iota. rewrite Htb. reflexivity. }
  rewrite Hsb. rewrite rt_ddiv_ok by assumption. cbn [bind].
  set (m := p * D / hs_ber s1) in *. set (sb := tk_supply tb) in *. set (q := cb_reqb (h_batch h)) in *.
  pose proof (rt_div_le_num p (hs_ber s1) Hber) as Hm. fold m in Hm.
  assert (HpD : p * D <= LIM * D) by (apply N.mul_le_mono_r; exact Hp).
  assert (Hmint : exists mint,
    (if hs_ber s1 <? hp_thr (h_params h)
     then do max_fee <- mulU m (hp_pegfee (h_params h));
          do a1 <- add128 sb m; do a2 <- add128 a1 q; do b1 <- add128 (hs_bb s1) p;
          do required <- sub128 a2 b1; sub128 m (peg_fee max_fee required)
     else Some m) = Some mint /\ mint <= m).
  { destruct (hs_ber s1 <? hp_thr (h_params h)) eqn:Ethr; [|exists m; split; [reflexivity|lia]].
    assert (HD : LIM * D * D / D <= U128MAX) by (rewrite N.div_mul by exact D_nz; lia).
    rewrite (mulU_ok m (hp_pegfee (h_params h)) (LIM * D) D) by (try exact HD; lia). cbn [bind].
    rewrite add128_ok by lia. cbn [bind]. rewrite add128_ok by lia. cbn [bind].
    rewrite add128_ok by lia. cbn [bind].
    pose proof (Hex ltac:(lia)) as Hgap.
    fold m sb q in Hgap. rewrite sub128_ok by lia. cbn [bind].
    assert (Hmf : m * hp_pegfee (h_params h) / D <= m).
    { apply N.div_le_upper_bound; [exact D_nz|]. rewrite (N.mul_comm D m). apply N.mul_le_mono_l. exact Hfee. }
    unfold peg_fee. rewrite sub128_ok by lia. eexists. split; [reflexivity|apply N.le_sub_l]. }
  destruct Hmint as (mint & Emint & Hmle). rewrite Emint. cbn [bind].
  rewrite add128_ok by lia. cbn [bind]. rewrite add128_ok by lia. cbn [bind].
  destruct (rt_exchange_rate_some (hs_bb s1 + p) (sb + mint) q) as [ber' Hber']; [lia|lia|].
  rewrite Hber'. cbn [bind].
  rewrite (vfd_spec w _ g) by (cbn [h_cfg set_h_state]; assumption). cbn [bind]. fold vals.
  rewrite Ev. rewrite Ev in Hxs, Hxl. rewrite Hxs. cbn [bind]. cbn [h_cfg set_h_state]. rewrite Hcb. cbn [bind snd fst].
  do 3 eexists. split; [reflexivity|]. split; [assumption|]. split; assumption.
Qed.

(** ** success of the whole transaction *)

(** the root step: funds transfer + hub handler *)
Lemma rt_root_step w user hm k p h h' o :
  (hm = HBond /\ k = BkB) \/ (hm = HBondSt /\ k = BkSt) ->
  w_hub w = Some h -> paused h = false -> p <> 0 -> p <= bal (w_env w) user usei ->
  execute_bond (set_env w (xfer (w_env w) user A_hub usei p)) h A_hub user [(usei, p)] k = Some (h', o) ->
  step_msg w user (MWasm A_hub (WHub hm) [(usei, p)]) =
  Some (set_hub (set_env w (xfer (w_env w) user A_hub usei p)) h', map (fun x => (A_hub, x)) o).
Proof.
  intros Hk Hh Hpz Hnz Hle He. cbn [step_msg].
  rewrite send_coins_one, (send_coin_ok _ _ _ _ _ Hnz Hle). cbn [bind].
  rewrite rt_call_hub. cbn [w_hub set_env]. rewrite Hh. cbn [bind].
  destruct Hk as [[-> ->]|[-> ->]]; cbn [hub_execute]; rewrite Hpz; cbn [negb]; rewrite He; reflexivity.
Qed.

(** the Delegate legs of a bond: the hub holds the payment, every target is a real validator *)
Lemma rt_bond_delegates_ok w0 w g e xs p :
  RegOk g -> rg_hub g = A_hub -> delegated (w_env w) A_hub <= LIM ->
  let vals := sort_asc (reg_query_validators w g) in
  length xs = length vals -> sumN xs = p -> p <= bal e A_hub usei ->
  exists e' n,
    Exec (set_env w0 e) (map (fun m => (A_hub, m)) (delegate_msgs vals xs usei)) (set_env w0 e') n /\
    (n <= 12)%nat.
Proof.
  intros Hok Hgh Hdel vals Hxl Hxs Hbal.
  destruct (vals_facts w g Hok Hgh Hdel) as (_ & Hvlen & _ & Hvval & _). fold vals in Hvlen, Hvval.
  set (ps := deleg_pairs vals xs).
  destruct (rt_delegates_ok w0 ps e) as (e' & Hex).
  - intros q Hq. split; [|eapply deleg_pairs_nz; exact Hq].
    apply Hvval. eapply deleg_pairs_fst_incl. apply in_map. exact Hq.
  - unfold ps. rewrite deleg_pairs_sum by exact Hxl. lia.
  - exists e', (length ps). split.
    + rewrite delegate_msgs_pairs, map_map. exact Hex.
    + unfold ps, deleg_pairs. eapply Nat.le_trans; [apply IndexSwap.filter_len_le|].
      rewrite map_length, combine_length. lia.
Qed.

Lemma rt_E1_inv w h tb ts :
  RateE1 w -> w_hub w = Some h -> w_bsei w = Some tb -> w_stsei w = Some ts ->
  delegated (w_env w) A_hub <= LIM /\ booked h <= LIM /\
  claims_b h tb <= LIM /\ claims_st h ts <= LIM /\
  hp_pegfee (h_params h) <= D /\ hp_thr (h_params h) <= D /\
  hs_ber (h_state h) <= U128MAX /\ hs_ser (h_state h) <= U128MAX.
Proof. unfold RateE1. intros H Hh Hb Hs. rewrite Hh, Hb, Hs in H. exact H. Qed.

(** facts about the reported state within E1 *)
Lemma rt_reported_bounds w h tb ts s :
  Wired w -> RateE1 w -> w_hub w = Some h -> w_bsei w = Some tb -> w_stsei w = Some ts ->
  query_actual_state w A_hub h = Some s ->
  hs_bb s <= LIM /\ hs_bst s <= LIM /\ hs_ber s <= U128MAX /\ hs_ser s <= U128MAX.
Proof.
  intros HW HE Hh Hb Hs Hq.
  destruct (Wired_inv _ HW) as (h0 & r & d & g & tb0 & ts0 & Hh0 & _ & _ & _ & Hb0 & Hs0 &
                                _ & _ & Wb & Ws & Wu & _).
  rewrite Hh in Hh0. inversion Hh0; subst h0. rewrite Hb in Hb0. inversion Hb0; subst tb0.
  rewrite Hs in Hs0. inversion Hs0; subst ts0.
  destruct (rt_E1_inv w h tb ts HE Hh Hb Hs) as (E1 & E2 & E3 & E4 & _ & _ & E7 & E8).
  destruct (qas_ok w A_hub h tb ts Wu Wb Ws Hb Hs E1 E2 E3 E4) as (s1 & Hq1 & B1 & B2 & _).
  rewrite Hq in Hq1. inversion Hq1; subst s1.
  destruct (rt_qas_fits w A_hub h s Hq E7 E8) as [F1 F2]. unfold booked in E2.
  repeat split; lia.
Qed.

Theorem bondst_tx_succeeds w user p h g tb ts s :
  Wired w -> RateE1 w ->
  w_hub w = Some h -> w_reg w = Some g -> w_bsei w = Some tb -> w_stsei w = Some ts ->
  paused h = false -> RegOk g -> TInv ts -> tk_minter ts = Some (A_hub, None) ->
  user <> A_hub -> 0 < p -> p <= LIM -> p <= bal (w_env w) user usei ->
  hub_query_state w A_hub = Some s -> 0 < hs_ser s -> 0 < p * D / hs_ser s ->
  exists w' tr, run tx_fuel w [(user, MWasm A_hub (WHub HBondSt) [(usei, p)])] [] = Some (w', tr).
Proof.
  intros HW HE Hh Hg Hb Hs Hpz Hok HT Hmin Hu Hpos Hp Hbal Hq Hser Hmint.
  destruct (Wired_inv _ HW) as (h0 & r & d & g0 & tb0 & ts0 & Hh0 & _ & _ & Hg0 & Hb0 & Hs0 &
                                Wd & Wr & Wb & Ws & Wu & _ & _ & _ & _ & Wg & _).
  rewrite Hh in Hh0. inversion Hh0; subst h0. rewrite Hb in Hb0. inversion Hb0; subst tb0.
  rewrite Hs in Hs0. inversion Hs0; subst ts0. rewrite Hg in Hg0. inversion Hg0; subst g0.
  unfold hub_query_state in Hq. rewrite Hh in Hq. cbn [bind] in Hq.
  destruct (rt_E1_inv w h tb ts HE Hh Hb Hs) as (E1 & E2 & E3 & E4 & _).
  destruct (rt_reported_bounds w h tb ts s HW HE Hh Hb Hs Hq) as (B1 & B2 & B3 & B4).
  set (e1 := xfer (w_env w) user A_hub usei p). set (w1 := set_env w e1).
  assert (Hdel1 : e_del e1 = e_del (w_env w)) by reflexivity.
  assert (Hq1 : query_actual_state w1 A_hub h = Some s) by (unfold w1; rewrite rt_qas_env; assumption).
  assert (Hd1 : delegated (w_env w1) A_hub <= LIM).
  { unfold w1. cbn [w_env set_env]. rewrite (delegated_same_del (w_env w) e1 A_hub Hdel1). exact E1. }
  assert (Hsup : tk_supply ts <= LIM) by (unfold claims_st in E4; lia).
  destruct (rt_execute_bond_st_some w1 h user p s ts g Wd Wr Ws Wu Hg Hs Hok Wg Hd1 Hpos Hp Hq1 Hser B4 B2 Hsup)
    as (h' & xs & Hbond & Hxl & Hxs).
  destruct (rt_bond_delegates_ok (set_hub w1 h') w1 g e1 xs p Hok Wg Hd1 Hxl Hxs) as (e2 & n & Hex & Hn).
  { unfold e1. rewrite bal_xfer by exact Hu. change (usei =? usei) with true. cbv iota.
    assert (E : (A_hub =? user) = false) by lia. rewrite E, N.eqb_refl. lia. }
  pose proof rt_LIMD_fits as HF.
  destruct (rt_stsei_mint_ok (set_env (set_hub w1 h') e2) user (p * D / hs_ser s) ts Hs Hmin Hmint) as (ts' & Hm).
  { pose proof (rt_div_le_num p (hs_ser s) Hser). assert (p * D <= LIM * D) by (apply N.mul_le_mono_r; exact Hp). lia. }
  { unfold TInv in HT. rewrite <- HT. apply tbal_le_sum. }
  assert (Hroot := rt_root_step w user HBondSt BkSt p h h' _ (or_intror (conj eq_refl eq_refl)) Hh Hpz
                     ltac:(lia) Hbal Hbond).
  fold e1 w1 in Hroot. rewrite map_app in Hroot. cbn [map] in Hroot.
  assert (Hall : Exec w [(user, MWasm A_hub (WHub HBondSt) [(usei, p)])]
                      (set_stsei (set_env (set_hub w1 h') e2) ts') (S ((n + 1) + 0))).
  { eapply Exec_cons; [exact Hroot | | constructor].
    eapply Exec_app; [exact Hex | exact Hm]. }
  destruct (Exec_tx _ _ _ _ Hall) as [tr Htr]; [unfold tx_fuel; lia|].
  eauto.
Qed.

Lemma rt_rate_of_pos B C : C <= LIM -> 0 < rate_of B C.
Proof.
  intros HC. unfold rate_of. destruct ((B =? 0) || (C =? 0)) eqn:E; [exact D_pos|].
  apply orb_false_iff in E. destruct E as [E1 E2]. unfold LIM in HC.
  assert (1 <= B * D / C); [|lia]. apply N.div_le_lower_bound; [lia|].
  assert (1 * D <= B * D) by (apply N.mul_le_mono_r; lia). lia.
Qed.

(** the peg-fee computation [claims after - backing after] cannot underflow for the rate the query
    reports in a world where stake is booked only while the hub has delegations: the reported rate
    is either the exact one, or the bSei pool is empty *)
Lemma rt_gap_reported w h tb ts s p :
  Ent w -> w_hub w = Some h -> w_bsei w = Some tb -> w_stsei w = Some ts ->
  hc_bsei (h_cfg h) = Some A_bsei -> hc_stsei (h_cfg h) = Some A_stsei ->
  query_actual_state w A_hub h = Some s -> 0 < hs_ber s ->
  hs_ber s < hp_thr (h_params h) -> hp_thr (h_params h) <= D ->
  hs_bb s + p <= tk_supply tb + cb_reqb (h_batch h) + p * D / hs_ber s.
Proof.
  intros Hent Hh Hb Hs Wb Ws Hq Hber Hlt Hthr.
  assert (Hp : p <= p * D / hs_ber s).
  { apply N.div_le_lower_bound; [lia|]. rewrite (N.mul_comm (hs_ber s) p). apply N.mul_le_mono_l. lia. }
  assert (Hz : booked h = 0 -> s = h_state h -> hs_bb s + p <= tk_supply tb + cb_reqb (h_batch h) + p * D / hs_ber s).
  { intros Hb0 ->. unfold booked in Hb0. lia. }
  destruct (rt_supplies w h tb ts Wb Ws Hb Hs) as [S1 S2].
  apply qas_inv in Hq.
  destruct Hq as [[He Es]|[Hne (actual & _ & [[Hb0 Es]|(Hpos & sb & ss & E1 & E2 & Es)])]].
  - apply Hz; [|exact Es]. destruct (Hent h Hh) as [Z|Z]; [exact Z|contradiction].
  - apply Hz; assumption.
  - rewrite S1 in E1. inversion E1; subst sb. subst s.
    unfold synced_state in *. cbn [hs_bb hs_ber] in *.
    eapply rt_fee_gap; [reflexivity | exact Hber | exact Hlt | exact Hthr].
Qed.

Theorem bond_tx_succeeds w user p h g tb ts r s :
  Wired w -> EntWf w -> RateE1 w -> Mirror w ->
  w_hub w = Some h -> w_reg w = Some g -> w_bsei w = Some tb -> w_stsei w = Some ts ->
  w_reward w = Some r ->
  paused h = false -> RegOk g -> TInv tb -> tk_minter tb = Some (A_hub, None) ->
  AccrualFits r user ->
  user <> A_hub -> 0 < p -> p <= LIM -> p <= bal (w_env w) user usei ->
  hub_query_state w A_hub = Some s -> 0 < hs_ber s ->
  0 < bond_b_amount h s (tk_supply tb) p ->
  exists w' tr, run tx_fuel w [(user, MWasm A_hub (WHub HBond) [(usei, p)])] [] = Some (w', tr).
Proof.
  intros HW HEnt HE HM Hh Hg Hb Hs Hr Hpz Hok HT Hmin HA Hu Hpos Hp Hbal Hq Hber Hmint.
  destruct (Wired_inv _ HW) as (h0 & r0 & d & g0 & tb0 & ts0 & Hh0 & Hr0 & _ & Hg0 & Hb0 & Hs0 &
                                Wd & Wr & Wb & Ws & Wu & _ & _ & _ & _ & Wg & _).
  rewrite Hh in Hh0. inversion Hh0; subst h0. rewrite Hb in Hb0. inversion Hb0; subst tb0.
  rewrite Hs in Hs0. inversion Hs0; subst ts0. rewrite Hg in Hg0. inversion Hg0; subst g0.
  rewrite Hr in Hr0. inversion Hr0; subst r0.
  unfold hub_query_state in Hq. rewrite Hh in Hq. cbn [bind] in Hq.
  destruct (rt_E1_inv w h tb ts HE Hh Hb Hs) as (E1 & E2 & E3 & E4 & E5 & E6 & _).
  destruct (rt_reported_bounds w h tb ts s HW HE Hh Hb Hs Hq) as (B1 & B2 & B3 & B4).
  assert (Hex : hs_ber s < hp_thr (h_params h) ->
                hs_bb s + p <= tk_supply tb + cb_reqb (h_batch h) + p * D / hs_ber s).
  { intros Hlt. apply (rt_gap_reported w h tb ts s p (proj2 HEnt) Hh Hb Hs Wb Ws Hq Hber Hlt E6). }
  set (e1 := xfer (w_env w) user A_hub usei p). set (w1 := set_env w e1).
  assert (Hdel1 : e_del e1 = e_del (w_env w)) by reflexivity.
  assert (Hq1 : query_actual_state w1 A_hub h = Some s) by (unfold w1; rewrite rt_qas_env; assumption).
  assert (Hd1 : delegated (w_env w1) A_hub <= LIM).
  { unfold w1. cbn [w_env set_env]. rewrite (delegated_same_del (w_env w) e1 A_hub Hdel1). exact E1. }
  unfold claims_b in E3.
  destruct (rt_execute_bond_b_some w1 h user p s tb g Wd Wr Wb Wu Hg Hb Hok Wg Hd1 Hpos Hp Hq1 Hex Hber B3 B1 E3 E5 E6)
    as (h' & xs & mint & Hbond & Hxl & Hxs & Hmle).
  (* the minted amount is the one of C03 *)
  destruct (rt_supplies w1 h tb ts Wb Ws Hb Hs) as [Sb0 _].
  destruct (bond_b_mints _ _ _ _ _ _ _ _ Hbond Sb0) as (h1 & p' & vals' & xs' & tok & Hsl & Hf & _ & _ & E).
  cbv zeta in E. destruct E as (_ & _ & Eo & _).
  unfold slashing in Hsl. rewrite Hq1 in Hsl. cbn [bind] in Hsl. inversion Hsl; subst h1; clear Hsl.
  cbn [h_state set_h_state] in Eo. injection Hf as _ Ep. subst p'.
  apply app_inj_tail in Eo. destruct Eo as [_ Eo]. injection Eo as _ Em.
  fold (bond_b_amount h s (tk_supply tb) p) in Em. rewrite <- Em in Hmint.
  pose proof (execute_bond_frame _ _ _ _ _ _ _ _ Hbond) as (F1 & F2 & _).
  destruct (rt_bond_delegates_ok (set_hub w1 h') w1 g e1 xs p Hok Wg Hd1 Hxl Hxs) as (e2 & n & Hexd & Hn).
  { unfold e1. rewrite bal_xfer by exact Hu. change (usei =? usei) with true. cbv iota.
    assert (E : (A_hub =? user) = false) by lia. rewrite E, N.eqb_refl. lia. }
  pose proof rt_LIMD_fits as HF.
  assert (HW2 : Wired (set_env (set_hub w1 h') e2)).
  { apply (rt_wired_bond w1 e2 h h'); [exact HW | exact Hh | exact F1 | exact F2]. }
  destruct (HM tb r Hb Hr) as [M1 M2].
  destruct (rt_bsei_mint_ok (set_env (set_hub w1 h') e2) user mint tb r HW2 Hb Hr Hmin Hmint) as (tb' & r' & Hm).
  { pose proof (rt_div_le_num p (hs_ber s) Hber). assert (p * D <= LIM * D) by (apply N.mul_le_mono_r; exact Hp). lia. }
  { unfold TInv in HT. rewrite <- HT. apply tbal_le_sum. }
  { apply M1. } { exact M2. } { exact HA. }
  assert (Hroot := rt_root_step w user HBond BkB p h h' _ (or_introl (conj eq_refl eq_refl)) Hh Hpz
                     ltac:(lia) Hbal Hbond).
  fold e1 w1 in Hroot. rewrite map_app in Hroot. cbn [map] in Hroot.
  assert (Hall : Exec w [(user, MWasm A_hub (WHub HBond) [(usei, p)])]
                      (set_reward (set_bsei (set_env (set_hub w1 h') e2) tb') r') (S ((n + 2) + 0))).
  { eapply Exec_cons; [exact Hroot | | constructor].
    eapply Exec_app; [exact Hexd | exact Hm]. }
  destruct (Exec_tx _ _ _ _ Hall) as [tr Htr]; [unfold tx_fuel; lia|].
  eauto.
Qed.

(** ** C04 at transaction level *)
Lemma rt_claims_b w h tb : w_hub w = Some h -> w_bsei w = Some tb ->
  w_claims_b w = tk_supply tb + cb_reqb (h_batch h).
Proof. intros Hh Hb. unfold w_claims_b, claims_b. rewrite Hh, Hb. reflexivity. Qed.

Lemma rt_claims_st w h ts : w_hub w = Some h -> w_stsei w = Some ts ->
  w_claims_st w = tk_supply ts + cb_reqst (h_batch h).
Proof. intros Hh Hs. unfold w_claims_st, claims_st. rewrite Hh, Hs. reflexivity. Qed.

(** exact and backed reported rates within E1 are sound *)
Lemma rt_sound_of_exact w :
  RatesExact w -> BackedW w -> w_claims_b w <= LIM -> w_claims_st w <= LIM -> SoundRates w.
Proof.
  intros HX HB L1 L2 s Hq. destruct (HX s Hq) as [X1 X2]. destruct (HB s Hq) as [B1 B2].
  rewrite X1, X2. split; apply synced_sound; assumption.
Qed.

(** a hub that has delegations and booked stake reports exact rates *)
Lemma rt_exact_of_bonded w :
  Wired w -> all_delegations (w_env w) A_hub <> [] ->
  (forall h, w_hub w = Some h -> 0 < booked h) -> RatesExact w.
Proof.
  intros HW Hne Hbk s Hq.
  destruct (Wired_inv _ HW) as (h & r & d & g & tb & ts & Hh & _ & _ & _ & Hb & Hs & _ & _ & Wb & Ws & _).
  unfold hub_query_state in Hq. rewrite Hh in Hq. cbn [bind] in Hq.
  destruct (reported_rate _ _ _ _ Hq Hne (Hbk h Hh)) as (actual & sb & ss & _ & E1 & E2 & ->).
  destruct (rt_supplies w h tb ts Wb Ws Hb Hs) as [S1 S2].
  rewrite S1 in E1. rewrite S2 in E2. inversion E1; inversion E2; subst sb ss.
  rewrite (rt_claims_b w h tb Hh Hb), (rt_claims_st w h ts Hh Hs).
  unfold synced_state. cbn [hs_ber hs_ser hs_bb hs_bst]. split; reflexivity.
Qed.

Theorem bondst_tx_rate_mono w user funds w' tr s s' :
  Wired w -> EntWf w -> SoundRates w ->
  run tx_fuel w [(user, MWasm A_hub (WHub HBondSt) funds)] [] = Some (w', tr) ->
  hub_query_state w A_hub = Some s -> hub_query_state w' A_hub = Some s' ->
  (0 < w_claims_b w' -> hs_ber s <= hs_ber s') /\
  hs_ser s <= hs_ser s' /\ 0 < w_claims_st w' /\
  Backed (hs_bb s') (w_claims_b w') /\ Backed (hs_bst s') (w_claims_st w') /\
  hs_ber s' = rate_of (hs_bb s') (w_claims_b w') /\ hs_ser s' = rate_of (hs_bst s') (w_claims_st w').
Proof.
  intros HW HE HS H Hq Hq'.
  destruct (Wired_inv _ HW) as (h & r & d & g & tb & ts & Hh & _ & _ & _ & Hb & Hs & _).
  destruct (bondst_tx_effect w user funds w' tr h tb ts HW HE Hh Hb Hs H)
    as (p & s0 & h' & ts' & _ & Hpos & Hq0 & Hser & E).
  cbv zeta in E. rewrite Hq in Hq0. inversion Hq0; subst s0; clear Hq0.
  destruct E as (Hm & Hh' & Hb' & Hs' & _ & _ & _ & Hsup & _ & _ & _ & _ & Hbt & _ & _ & _ & _ & Hrep).
  destruct (Hrep s' Hq') as (Q1 & Q2 & Q3 & Q4).
  destruct (HS s Hq) as [[Rb Lb] [Rs Ls]].
  rewrite (rt_claims_b w h tb Hh Hb) in Lb. rewrite (rt_claims_st w h ts Hh Hs) in Ls.
  rewrite (rt_claims_b w' h' tb Hh' Hb'), (rt_claims_st w' h' ts' Hh' Hs'), Hbt, Hsup.
  rewrite Q1, Q2, Q3, Q4.
  destruct (rate_step _ _ _ Rb Lb) as [Kb Kr].
  set (mint := p * D / hs_ser s) in *.
  assert (Hmr : mint * hs_ser s <= p * D) by apply div_mul_le_l.
  assert (Hk : hs_ser s * (tk_supply ts + mint + cb_reqst (h_batch h)) <= (hs_bst s + p) * D)
    by (clearbody mint; lia).
  destruct (rate_step _ _ _ Rs Hk) as [Kb' Kr'].
  split; [exact Kr|]. split; [apply Kr'; lia|]. split; [lia|]. repeat split; assumption.
Qed.

Theorem bond_tx_rate_mono w user funds w' tr s s' :
  Wired w -> EntWf w -> SoundRates w ->
  run tx_fuel w [(user, MWasm A_hub (WHub HBond) funds)] [] = Some (w', tr) ->
  hub_query_state w A_hub = Some s -> hub_query_state w' A_hub = Some s' ->
  hs_ber s <= hs_ber s' /\ 0 < w_claims_b w' /\
  (0 < w_claims_st w' -> hs_ser s <= hs_ser s') /\
  Backed (hs_bb s') (w_claims_b w') /\ Backed (hs_bst s') (w_claims_st w') /\
  hs_ber s' = rate_of (hs_bb s') (w_claims_b w') /\ hs_ser s' = rate_of (hs_bst s') (w_claims_st w').
Proof.
  intros HW HE HS H Hq Hq'.
  destruct (Wired_inv _ HW) as (h & r & d & g & tb & ts & Hh & Hr & _ & _ & Hb & Hs & _).
  destruct (bond_tx_effect w user funds w' tr h tb ts r HW HE Hh Hb Hs Hr H)
    as (p & s0 & h' & tb' & r' & _ & Hpos & Hq0 & Hber & E).
  cbv zeta in E. rewrite Hq in Hq0. inversion Hq0; subst s0; clear Hq0.
  destruct E as (Hm & Hh' & Hb' & Hs' & _ & _ & _ & Hsup & _ & _ & _ & _ & _ & _ & _ & Hbt & _ & _ & _ & _ & _ & Hrep).
  destruct (Hrep s' Hq') as (Q1 & Q2 & Q3 & Q4).
  destruct (HS s Hq) as [[Rb Lb] [Rs Ls]].
  rewrite (rt_claims_b w h tb Hh Hb) in Lb. rewrite (rt_claims_st w h ts Hh Hs) in Ls.
  rewrite (rt_claims_b w' h' tb' Hh' Hb'), (rt_claims_st w' h' ts Hh' Hs'), Hbt, Hsup.
  rewrite Q1, Q2, Q3, Q4.
  destruct (rate_step _ _ _ Rs Ls) as [Kb' Kr'].
  assert (Hmr : bond_b_amount h s (tk_supply tb) p * hs_ber s <= p * D) by (unfold bond_b_amount; apply round_mint).
  set (mint := bond_b_amount h s (tk_supply tb) p) in *.
  assert (Hk : hs_ber s * (tk_supply tb + mint + cb_reqb (h_batch h)) <= (hs_bb s + p) * D)
    by (clearbody mint; lia).
  destruct (rate_step _ _ _ Rb Hk) as [Kb Kr].
  split; [apply Kr; lia|]. split; [lia|]. split; [exact Kr'|]. repeat split; assumption.
Qed.

(** the invariants are re-established: the world after the transaction is wired, well-formed,
    reports exact rates of backed pools, hence (within E1) sound rates again *)
Lemma rt_tx_wired w user hm funds w' tr :
  Wired w -> hm = HBond \/ hm = HBondSt ->
  run tx_fuel w [(user, MWasm A_hub (WHub hm) funds)] [] = Some (w', tr) -> Wired w'.
Proof.
  intros HW Hk H. eapply Wired_wdata; [|exact HW].
  eapply tx_wdata; [|exact H]. destruct Hk as [-> | ->]; reflexivity.
Qed.

Theorem bond_tx_invariants w user hm funds w' tr :
  Wired w -> EntWf w -> SoundRates w -> hm = HBond \/ hm = HBondSt ->
  run tx_fuel w [(user, MWasm A_hub (WHub hm) funds)] [] = Some (w', tr) ->
  Wired w' /\ EntWf w' /\ RatesExact w' /\ BackedW w' /\
  (w_claims_b w' <= LIM -> w_claims_st w' <= LIM -> SoundRates w').
Proof.
  intros HW HE HS Hk H.
  assert (HW' : Wired w') by (eapply rt_tx_wired; eauto).
  assert (HE' : EntWf w') by (eapply tx_entwf; eauto).
  assert (HXB : RatesExact w' /\ BackedW w').
  { destruct (Wired_inv _ HW) as (h & r & d & g & tb & ts & Hh & _ & _ & _ & Hb & Hs & Wd & Wr & Wb & Ws & Wu & _).
    destruct (hub_query_state w A_hub) as [s|] eqn:Hq.
    - split; intros s' Hq'; destruct Hk as [-> | ->].
      + destruct (bond_tx_rate_mono w user funds w' tr s s' HW HE HS H Hq Hq') as (_ & _ & _ & A & B & C & E). auto.
      + destruct (bondst_tx_rate_mono w user funds w' tr s s' HW HE HS H Hq Hq') as (_ & _ & _ & A & B & C & E). auto.
      + destruct (bond_tx_rate_mono w user funds w' tr s s' HW HE HS H Hq Hq') as (_ & _ & _ & A & B & C & E). auto.
      + destruct (bondst_tx_rate_mono w user funds w' tr s s' HW HE HS H Hq Hq') as (_ & _ & _ & A & B & C & E). auto.
    - exfalso. destruct Hk as [-> | ->].
      + destruct (Wired_inv _ HW) as (_ & r0 & _ & _ & _ & _ & _ & Hr & _).
        destruct (bond_tx_effect w user funds w' tr h tb ts r0 HW HE Hh Hb Hs Hr H) as (p & s0 & h' & tb' & r' & _ & _ & Hq0 & _).
        congruence.
      + destruct (bondst_tx_effect w user funds w' tr h tb ts HW HE Hh Hb Hs H) as (p & s0 & h' & ts' & _ & _ & Hq0 & _).
        congruence. }
  destruct HXB as [HX HB].
  split; [exact HW'|]. split; [exact HE'|]. split; [exact HX|]. split; [exact HB|].
  intros L1 L2. apply rt_sound_of_exact; assumption.
Qed.

(** ** the reward mirror and the hub's liquid balance *)
Theorem bond_tx_mirror w user hm funds w' tr :
  Wired w -> EntWf w -> Mirror w -> hm = HBond \/ hm = HBondSt ->
  run tx_fuel w [(user, MWasm A_hub (WHub hm) funds)] [] = Some (w', tr) -> Mirror w'.
Proof.
  intros HW HE HM Hk H.
  destruct (Wired_inv _ HW) as (h & r & d & g & tb & ts & Hh & Hr & _ & _ & Hb & Hs & _).
  destruct (HM tb r Hb Hr) as [M1 M2].
  destruct Hk as [-> | ->].
  - destruct (bond_tx_effect w user funds w' tr h tb ts r HW HE Hh Hb Hs Hr H)
      as (p & s & h' & tb' & r' & _ & _ & _ & _ & E).
    cbv zeta in E.
    destruct E as (_ & _ & Hb' & _ & Hr' & _ & _ & T1 & T2 & T3 & R1 & R2 & R3 & _).
    intros tb2 r2 Hb2 Hr2. rewrite Hb' in Hb2. rewrite Hr' in Hr2. inversion Hb2; inversion Hr2; subst tb2 r2.
    split; [|lia]. intros a. destruct (N.eq_dec a user) as [->|Hne].
    + rewrite R2, T2, M1. reflexivity.
    + rewrite R3, T3 by exact Hne. apply M1.
  - destruct (bondst_tx_effect w user funds w' tr h tb ts HW HE Hh Hb Hs H)
      as (p & s & h' & ts' & _ & _ & _ & _ & E).
    cbv zeta in E. destruct E as (_ & _ & Hb' & _ & Hr' & _).
    intros tb2 r2 Hb2 Hr2. rewrite Hb' in Hb2. rewrite Hr', Hr in Hr2. inversion Hb2; inversion Hr2; subst tb2 r2.
    split; assumption.
Qed.

Theorem bond_tx_hub_balance w user hm funds w' tr :
  Wired w -> NoRewardsToHub (w_env w) -> user <> A_hub -> hm = HBond \/ hm = HBondSt ->
  run tx_fuel w [(user, MWasm A_hub (WHub hm) funds)] [] = Some (w', tr) ->
  bal (w_env w') A_hub usei = bal (w_env w) A_hub usei.
Proof.
  intros HW Hnr Hu Hk H.
  destruct (Wired_inv _ HW) as (h & r & d & g & tb & ts & Hh & _ & _ & _ & _ & _ & _ & _ & _ & _ & Wu & _).
  eapply (bond_tx_liquid_unchanged w user hm funds w' tr); try eassumption.
  - destruct Hk as [-> | ->]; [left | right; left]; reflexivity.
  - intros h0 Hh0. rewrite Hh in Hh0. inversion Hh0; subst h0. exact Wu.
Qed.

(** ** within E1 the State query of the new world answers *)
Lemma rt_query_total w h tb ts :
  hc_bsei (h_cfg h) = Some A_bsei -> hc_stsei (h_cfg h) = Some A_stsei ->
  hp_underlying (h_params h) = usei ->
  w_hub w = Some h -> w_bsei w = Some tb -> w_stsei w = Some ts ->
  0 < booked h -> booked h <= delegated (w_env w) A_hub -> delegated (w_env w) A_hub <= LIM ->
  tk_supply tb + cb_reqb (h_batch h) <= U128MAX -> tk_supply ts + cb_reqst (h_batch h) <= U128MAX ->
  exists s, hub_query_state w A_hub = Some s.
Proof.
  intros Wb Ws Wu Hh Hb Hs Hpos Hbk Hdel Lb Ls.
  destruct (rt_supplies w h tb ts Wb Ws Hb Hs) as [S1 S2].
  pose proof LIM_fits as HL.
  unfold hub_query_state. rewrite Hh. cbn [bind]. eexists.
  apply (reported_rate_total w A_hub h (delegated (w_env w) A_hub) (tk_supply tb) (tk_supply ts)); try assumption.
  - apply delegated_pos_entries. lia.
  - apply actual_bonded_delegated; [exact Wu | lia].
  - unfold booked in *. lia.
  - unfold booked in *. lia.
Qed.

Theorem bond_tx_reports w user hm funds w' tr p :
  Wired w -> EntWf w -> RateE1 w -> hm = HBond \/ hm = HBondSt ->
  run tx_fuel w [(user, MWasm A_hub (WHub hm) funds)] [] = Some (w', tr) ->
  funds = [(usei, p)] -> delegated (w_env w) A_hub + p <= LIM ->
  exists s', hub_query_state w' A_hub = Some s'.
Proof.
  intros HW HE HE1 Hk H Hf Hlim.
  destruct (Wired_inv _ HW) as (h & r & d & g & tb & ts & Hh & Hr & _ & _ & Hb & Hs & _ & _ & Wb & Ws & Wu & _).
  destruct (rt_E1_inv w h tb ts HE1 Hh Hb Hs) as (E1 & E2 & E3 & E4 & _).
  pose proof rt_LIMD_fits as HF. unfold claims_b, claims_st in E3, E4.
  assert (HpD : p * D <= LIM * D) by (apply N.mul_le_mono_r; lia).
  destruct Hk as [-> | ->].
  - destruct (bond_tx_effect w user funds w' tr h tb ts r HW HE Hh Hb Hs Hr H)
      as (p0 & s & h' & tb' & r' & Hf0 & Hpos & _ & Hber & E).
    rewrite Hf in Hf0. injection Hf0 as Ep. subst p0. cbv zeta in E.
    destruct E as (_ & Hh' & Hb' & Hs' & _ & _ & _ & T1 & _ & _ & _ & _ & _ & Hd' & Hbk & Hbt & Hc' & Hp' & B1 & B2 & _).
    assert (Hmle : bond_b_amount h s (tk_supply tb) p <= p * D).
    { unfold bond_b_amount. eapply N.le_trans; [apply N.le_sub_l|]. apply rt_div_le_num. lia. }
    apply (rt_query_total w' h' tb' ts); try assumption; try (rewrite ?Hc', ?Hp'; assumption).
    + unfold booked. rewrite B1, B2. lia.
    + unfold booked. rewrite B1, B2, Hd'. lia.
    + lia.
    + rewrite T1, Hbt. lia.
    + rewrite Hbt. lia.
  - destruct (bondst_tx_effect w user funds w' tr h tb ts HW HE Hh Hb Hs H)
      as (p0 & s & h' & ts' & Hf0 & Hpos & _ & Hser & E).
    rewrite Hf in Hf0. injection Hf0 as Ep. subst p0. cbv zeta in E.
    destruct E as (_ & Hh' & Hb' & Hs' & _ & _ & _ & T1 & _ & _ & Hd' & Hbk & Hbt & Hc' & Hp' & B1 & B2 & _).
    assert (Hmle : p * D / hs_ser s <= p * D) by (apply rt_div_le_num; lia).
    apply (rt_query_total w' h' tb ts'); try assumption; try (rewrite ?Hc', ?Hp'; assumption).
    + unfold booked. rewrite B1, B2. lia.
    + unfold booked. rewrite B1, B2, Hd'. lia.
    + lia.
    + rewrite Hbt. lia.
    + rewrite T1, Hbt. lia.
Qed.

(** ** history-level corollary: one Bond / BondForStSei operation, successful or not *)
Theorem rate_monotone_step w user hm funds s s' :
  Wired w -> EntWf w -> SoundRates w -> hm = HBond \/ hm = HBondSt ->
  let w' := fst (step w (OTx user A_hub (WHub hm) funds)) in
  hub_query_state w A_hub = Some s -> hub_query_state w' A_hub = Some s' ->
  (0 < w_claims_b w' -> hs_ber s <= hs_ber s') /\ (0 < w_claims_st w' -> hs_ser s <= hs_ser s').
Proof.
  intros HW HE HS Hk w' Hq Hq'. subst w'.
  destruct (step_tx_cases w user A_hub (WHub hm) funds) as [E | (w1 & tr & Hrun & E)]; rewrite E in *.
  - rewrite Hq in Hq'. inversion Hq'; subst s'. split; intros _; lia.
  - destruct Hk as [-> | ->].
    + destruct (bond_tx_rate_mono w user funds w1 tr s s' HW HE HS Hrun Hq Hq') as (A & _ & B & _). auto.
    + destruct (bondst_tx_rate_mono w user funds w1 tr s s' HW HE HS Hrun Hq Hq') as (A & B & _). auto.
Qed.

Theorem rate_step_invariants w user hm funds :
  Wired w -> EntWf w -> SoundRates w -> hm = HBond \/ hm = HBondSt ->
  let w' := fst (step w (OTx user A_hub (WHub hm) funds)) in
  Wired w' /\ EntWf w' /\ (w_claims_b w' <= LIM -> w_claims_st w' <= LIM -> SoundRates w').
Proof.
  intros HW HE HS Hk w'. subst w'.
  destruct (step_tx_cases w user A_hub (WHub hm) funds) as [E | (w1 & tr & Hrun & E)]; rewrite E.
  - auto.
  - destruct (bond_tx_invariants w user hm funds w1 tr HW HE HS Hk Hrun) as (A & B & _ & _ & C). auto.
Qed.

(** ** the vocabulary, restated (for the property file) *)
Lemma def_w_claims_b : forall w, w_claims_b w =
  match w_hub w, w_bsei w with
  | Some h, Some tb => tk_supply tb + cb_reqb (h_batch h) | _, _ => 0 end.
Proof. reflexivity. Qed.

Lemma def_w_claims_st : forall w, w_claims_st w =
  match w_hub w, w_stsei w with
  | Some h, Some ts => tk_supply ts + cb_reqst (h_batch h) | _, _ => 0 end.
Proof. reflexivity. Qed.

Lemma def_bond_b_amount : forall h s sb p, bond_b_amount h s sb p =
  p * D / hs_ber s -
  (if hs_ber s <? hp_thr (h_params h)
   then N.min (p * D / hs_ber s * hp_pegfee (h_params h) / D)
              (sb + p * D / hs_ber s + cb_reqb (h_batch h) - (hs_bb s + p))
   else 0).
Proof. reflexivity. Qed.

Lemma def_SoundRates : forall w, SoundRates w <->
  forall s, hub_query_state w A_hub = Some s ->
    (0 < hs_ber s /\ hs_ber s * w_claims_b w <= hs_bb s * D) /\
    (0 < hs_ser s /\ hs_ser s * w_claims_st w <= hs_bst s * D).
Proof. intros w. reflexivity. Qed.

Lemma def_RatesExact : forall w, RatesExact w <->
  forall s, hub_query_state w A_hub = Some s ->
    hs_ber s = rate_of (hs_bb s) (w_claims_b w) /\ hs_ser s = rate_of (hs_bst s) (w_claims_st w).
Proof. intros w. reflexivity. Qed.

Lemma def_BackedW : forall w, BackedW w <->
  forall s, hub_query_state w A_hub = Some s ->
    (0 < w_claims_b w -> 0 < hs_bb s) /\ (0 < w_claims_st w -> 0 < hs_bst s).
Proof. intros w. reflexivity. Qed.

Lemma def_RateE1 : forall w, RateE1 w <->
  match w_hub w, w_bsei w, w_stsei w with
  | Some h, Some tb, Some ts =>
      delegated (w_env w) A_hub <= LIM /\ hs_bb (h_state h) + hs_bst (h_state h) <= LIM /\
      tk_supply tb + cb_reqb (h_batch h) <= LIM /\ tk_supply ts + cb_reqst (h_batch h) <= LIM /\
      hp_pegfee (h_params h) <= D /\ hp_thr (h_params h) <= D /\
      hs_ber (h_state h) <= U128MAX /\ hs_ser (h_state h) <= U128MAX
  | _, _, _ => False
  end.
Proof. intros w. reflexivity. Qed.
