(** * WithdrawP: WithdrawUnbonded at the hub-contract level (C01, handler level).
    The hub's bank balance of the staking coin is whatever [bal (w_env w) self underlying] is.

    Main results (all closed under the global context):
    - [WD_withdraw_exact]      : a successful [execute_withdraw] performs the release
                                 ([process_withdraw_rate]), pays the sender exactly the value of its
                                 claims on released batches in one [MBank], removes exactly those wait
                                 entries, sets prev_hub_balance to balance - amount, changes nothing else.
    - [WD_withdraw_ok]         : converse: when the release succeeds, the amount is non-zero and within
                                 the balance, the handler succeeds.
    - [WD_withdraw_frame], [WD_released_final] : configuration, parameters, open batch, pools and
                                 rates are untouched; a released history entry is never rewritten.
    - [WD_wait_of_after]       : the effect on the wait list stated through [wait_of].
    - [WD_group_paid_le_arrived] : all wait entries on the batches released by a call are together worth
                                 at most balance - prev_hub_balance (hypotheses: E1', claims <= batch amounts).
    - [WD_paid_once]           : an immediately repeated withdraw by the same sender (same block time,
                                 any balance) fails.
    - [WD_fund_withdraw]       : the funding invariant [WD_Fund] is preserved by [execute_withdraw].
    - [WD_fund_frame]          : and by every hub transition that keeps wait list, released history
                                 entries and prev_hub_balance (instances: bond, convert, slashing check,
                                 update_global, unbond of both tokens).
    - [WD_fund_step]           : one [hub_execute] step preserves [WD_Fund] (withdrawal: bank lowered by
                                 the payment; other messages: bank not lowered).
    - [WD_withdraw_succeeds]   : under [WD_Fund] and the E1 magnitudes, a claimant whose released claims are
                                 worth >= 1 succeeds.
    - [WD_order_independent]   : two distinct claimants are paid the same amounts in either order and
                                 the final hub states are equal. *)
From Krp Require Import Tactics Prelude Fixed FMap Types Env Registry Cw20 Hub HubFrame GroupRelease.
Open Scope N_scope.

(** ** 1. History lookups after [hist_put] *)
Lemma WD_get_put_same m i e : get N.eqb (hist_put m i e) i = Some e.
Proof.
  induction m as [|[j e'] r IH]; cbn [hist_put get].
  - rewrite N.eqb_refl. reflexivity.
  - destruct (i =? j) eqn:E1; cbn [get].
    + rewrite N.eqb_refl. reflexivity.
    + destruct (i <? j); cbn [get].
      * rewrite N.eqb_refl. reflexivity.
      * rewrite E1. exact IH.
Qed.

Lemma WD_get_put_other m i j e : j <> i -> get N.eqb (hist_put m i e) j = get N.eqb m j.
Proof.
  intros Hne. assert (Hji : (j =? i) = false) by (apply N.eqb_neq; exact Hne).
  induction m as [|[k e'] r IH]; cbn [hist_put get].
  - rewrite Hji. reflexivity.
  - destruct (i =? k) eqn:E1; cbn [get].
    + apply N.eqb_eq in E1. subst k. rewrite Hji. reflexivity.
    + destruct (i <? k); cbn [get].
      * rewrite Hji. reflexivity.
      * destruct (j =? k); [reflexivity | exact IH].
Qed.

Lemma WD_get_in (l : list (N * hist_entry)) j e : get N.eqb l j = Some e -> In j (map fst l).
Proof.
  induction l as [|[k e'] r IH]; cbn [get map fst]; [discriminate|].
  destruct (j =? k) eqn:E; intros H.
  - apply N.eqb_eq in E. left. symmetry. exact E.
  - right. exact (IH H).
Qed.

Lemma WD_get_notin (l : list (N * hist_entry)) j : ~ In j (map fst l) -> get N.eqb l j = None.
Proof.
  intros H. destruct (get N.eqb l j) eqn:E; [|reflexivity]. apply WD_get_in in E. contradiction.
Qed.

Lemma WD_get_put_all hist (l : list (N * hist_entry)) j :
  NoDup (map fst l) ->
  get N.eqb (GR_put_all hist l) j =
  match get N.eqb l j with Some e => Some e | None => get N.eqb hist j end.
Proof.
  unfold GR_put_all. revert hist. induction l as [|[i e] l IH]; intros hist Hnd.
  - reflexivity.
  - cbn [fold_left fst snd map] in *. inversion Hnd as [|x xs Hni Hnd']; subst.
    rewrite (IH _ Hnd'). cbn [get].
    destruct (j =? i) eqn:E.
    + apply N.eqb_eq in E. subst j. rewrite (WD_get_notin l i Hni). apply WD_get_put_same.
    + destruct (get N.eqb l j); [reflexivity|]. apply WD_get_put_other. apply N.eqb_neq. exact E.
Qed.

(** ** 2. Structure of a release group *)
Fixpoint WD_ids (i : N) (n : nat) : list N :=
  match n with O => [] | S n' => i :: WD_ids (i + 1) n' end.

Lemma WD_ids_in i n j : In j (WD_ids i n) -> i <= j < i + N.of_nat n.
Proof.
  revert i. induction n as [|n IH]; intros i; cbn [WD_ids In]; [tauto|].
  intros [<-|H]; [lia|]. apply IH in H. lia.
Qed.

Lemma WD_ids_nodup i n : NoDup (WD_ids i n).
Proof.
  revert i. induction n as [|n IH]; intros i; cbn [WD_ids]; constructor.
  - intros H. apply WD_ids_in in H. lia.
  - apply IH.
Qed.

Lemma WD_rg_ids hist i t fuel :
  map fst (release_group hist i t fuel) = WD_ids i (length (release_group hist i t fuel)).
Proof.
  revert i. induction fuel as [|f IH]; intros i; cbn [release_group]; [reflexivity|].
  destruct (get N.eqb hist i) as [e|]; [|reflexivity].
  destruct (t <? he_time e); [reflexivity|]. destruct (he_released e); [reflexivity|].
  cbn [map fst length WD_ids]. rewrite IH. reflexivity.
Qed.

Lemma WD_rg_nodup hist i t fuel : NoDup (map fst (release_group hist i t fuel)).
Proof. rewrite WD_rg_ids. apply WD_ids_nodup. Qed.

Lemma WD_rg_in hist i t fuel j e :
  In (j, e) (release_group hist i t fuel) ->
  get N.eqb hist j = Some e /\ he_released e = false /\ (t <? he_time e) = false /\ i <= j.
Proof.
  revert i. induction fuel as [|f IH]; intros i; cbn [release_group]; [intros []|].
  destruct (get N.eqb hist i) as [e0|] eqn:Eg; [|intros []].
  destruct (t <? he_time e0) eqn:Et; [intros []|]. destruct (he_released e0) eqn:Er; [intros []|].
  intros [H|H].
  - inversion H; subst. repeat split; try assumption. lia.
  - apply IH in H. destruct H as (H1 & H2 & H3 & H4). repeat split; try assumption. lia.
Qed.

Lemma WD_last_ids (g : list (N * hist_entry)) i x :
  map fst g = WD_ids i (length g) ->
  GR_last g x = match g with [] => x | _ => i + N.of_nat (length g) - 1 end.
Proof.
  unfold GR_last. revert i x. induction g as [|[j e] g IH]; intros i x H; [reflexivity|].
  cbn [map fst length WD_ids fold_left] in *. inversion H as [[Hj Hrest]].
  rewrite (IH (i + 1) i Hrest).
  destruct g; cbn [length]; lia.
Qed.

(** keys of [hist] that are [>= i] *)
Definition WD_cnt (hist : fmap N hist_entry) (i : N) : nat :=
  length (filter (fun k => i <=? k) (map fst hist)).

Lemma WD_cnt_le_length hist i : (WD_cnt hist i <= length hist)%nat.
Proof.
  unfold WD_cnt. rewrite <- (map_length fst hist).
  induction (map fst hist) as [|k l IH]; cbn [filter length]; [lia|].
  destruct (i <=? k); cbn [length]; lia.
Qed.

Lemma WD_filter_ge_mono (k : N) (l : list N) :
  (length (filter (fun x => (k + 1 <=? x)%N) l) <= length (filter (fun x => (k <=? x)%N) l))%nat.
Proof.
  induction l as [|x l IH]; cbn [filter]; [lia|].
  destruct (k + 1 <=? x) eqn:A; destruct (k <=? x) eqn:B; cbn [length]; lia.
Qed.

Lemma WD_cnt_step hist i : In i (map fst hist) -> (WD_cnt hist (i + 1) < WD_cnt hist i)%nat.
Proof.
  unfold WD_cnt. induction (map fst hist) as [|k l IH]; cbn [In filter]; [tauto|].
  intros [<-|H].
  - assert (E1 : (k + 1 <=? k) = false) by lia. rewrite E1, N.leb_refl. cbn [length].
    pose proof (WD_filter_ge_mono k l) as Hm. lia.
  - specialize (IH H).
    destruct (i + 1 <=? k) eqn:A; destruct (i <=? k) eqn:B; cbn [length]; lia.
Qed.

(** where a release group stops, the next batch is absent, too young or already released *)
Definition WD_stops (hist : fmap N hist_entry) (t j : N) : Prop :=
  match get N.eqb hist j with
  | None => True
  | Some e => (t <? he_time e) = true \/ he_released e = true
  end.

Lemma WD_rg_stop hist t fuel i :
  (WD_cnt hist i <= fuel)%nat ->
  WD_stops hist t (i + N.of_nat (length (release_group hist i t fuel))).
Proof.
  revert i. induction fuel as [|f IH]; intros i Hc; cbn [release_group].
  - cbn [length N.of_nat]. rewrite N.add_0_r. unfold WD_stops.
    destruct (get N.eqb hist i) as [e|] eqn:Eg; [|exact I].
    apply WD_get_in in Eg. apply WD_cnt_step in Eg. lia.
  - unfold WD_stops.
    destruct (get N.eqb hist i) as [e|] eqn:Eg.
    + destruct (t <? he_time e) eqn:Et.
      { cbn [length N.of_nat]. rewrite N.add_0_r, Eg. left. exact Et. }
      destruct (he_released e) eqn:Er.
      { cbn [length N.of_nat]. rewrite N.add_0_r, Eg. right. exact Er. }
      cbn [length]. replace (i + N.of_nat (S (length (release_group hist (i + 1) t f))))
        with (i + 1 + N.of_nat (length (release_group hist (i + 1) t f))) by lia.
      apply IH. apply WD_get_in in Eg. apply WD_cnt_step in Eg. lia.
    + cbn [length N.of_nat]. rewrite N.add_0_r, Eg. exact I.
Qed.

Lemma WD_rg_empty hist t fuel j : WD_stops hist t j -> release_group hist j t fuel = [].
Proof.
  unfold WD_stops. destruct fuel as [|f]; cbn [release_group]; [reflexivity|].
  destruct (get N.eqb hist j) as [e|]; [|reflexivity].
  intros [H|H]; rewrite H; [reflexivity|]. destruct (t <? he_time e); reflexivity.
Qed.

(** ** 3. Wait list, claims and [finished_amount] *)

(** batch [b] has a released history entry *)
Definition WD_rel (hist : fmap N hist_entry) (b : N) : bool :=
  match get N.eqb hist b with Some e => he_released e | None => false end.

(** wait entry [kv = ((user, batch), (bsei, stsei))] belongs to [u] and its batch is released *)
Definition WD_mine (u : addr) (hist : fmap N hist_entry) (kv : (addr * N) * (N * N)) : bool :=
  (fst (fst kv) =? u) && WD_rel hist (snd (fst kv)).

(** what a wait entry is worth now: its claim value if the batch is released, else 0 *)
Definition WD_entry_val (hist : fmap N hist_entry) (kv : (addr * N) * (N * N)) : N :=
  match get N.eqb hist (snd (fst kv)) with
  | Some e => if he_released e then GR_claim_val e (snd kv) else 0
  | None => 0
  end.

Definition WD_is_user (u : addr) (kv : (addr * N) * (N * N)) : bool := fst (fst kv) =? u.

(** value of all released claims of user [u] *)
Definition WD_user_val (h : hub) (u : addr) : N :=
  sumN (map (WD_entry_val (h_hist h)) (filter (WD_is_user u) (h_wait h))).

(** value of all released claims of all users *)
Definition WD_R (h : hub) : N := sumN (map (WD_entry_val (h_hist h)) (h_wait h)).

Definition WD_fa_step (hist : fmap N hist_entry) (acc : N * list N) (bx : N * (N * N))
  : result (N * list N) :=
  match get N.eqb hist (fst bx) with
  | Some e =>
      if he_released e then
        do v <- claim_value e (snd bx);
        do t <- add128 (fst acc) v;
        Some (t, snd acc ++ [fst bx])
      else Some acc
  | None => Some acc
  end.

Lemma WD_fa_unfold h u :
  finished_amount h u = foldM (WD_fa_step (h_hist h)) (user_waits h u) (0, []).
Proof. reflexivity. Qed.

Lemma WD_fa_gen hist u wait t0 l0 amt bs :
  foldM (WD_fa_step hist)
        (flat_map (fun kv : (addr * N) * (N * N) =>
                     if fst (fst kv) =? u then [(snd (fst kv), snd kv)] else []) wait)
        (t0, l0) = Some (amt, bs) ->
  amt = t0 + sumN (map (WD_entry_val hist) (filter (WD_is_user u) wait)) /\
  bs = l0 ++ map (fun kv => snd (fst kv)) (filter (WD_mine u hist) wait).
Proof.
  revert t0 l0. induction wait as [|[[a b] x] r IH]; intros t0 l0 H.
  - cbn in H. inversion H; subst. cbn. rewrite app_nil_r. split; [lia|reflexivity].
  - cbn [flat_map fst snd] in H. cbn [filter].
    change (WD_is_user u (a, b, x)) with (a =? u).
    change (WD_mine u hist (a, b, x)) with ((a =? u) && WD_rel hist b).
    destruct (a =? u) eqn:Eu; cbn [andb].
    + cbn [app foldM] in H. bind_inv H as acc' Hstep.
      unfold WD_fa_step in Hstep. cbn [fst snd] in Hstep.
      cbn [map sumN].
      change (WD_entry_val hist (a, b, x)) with
        (match get N.eqb hist b with
         | Some e => if he_released e then GR_claim_val e x else 0 | None => 0 end).
      unfold WD_rel.
      destruct (get N.eqb hist b) as [e|] eqn:Eg.
      * destruct (he_released e) eqn:Er.
        -- bind_inv Hstep as v Hv. apply GR_claim_value_val in Hv.
           bind_inv Hstep as t Ht. apply GR_narrow128_val in Ht. destruct Ht as [-> _].
           inversion Hstep; subst acc'. apply IH in H. destruct H as [-> ->].
           cbn [map fst snd]. rewrite <- app_assoc. cbn [app]. subst v.
           split; [lia|reflexivity].
        -- inversion Hstep; subst acc'. apply IH in H. destruct H as [-> ->].
           split; [lia|reflexivity].
      * inversion Hstep; subst acc'. apply IH in H. destruct H as [-> ->].
        split; [lia|reflexivity].
    + cbn [app] in H. apply IH in H. exact H.
Qed.

Lemma WD_fa_spec h u amt bs :
  finished_amount h u = Some (amt, bs) ->
  amt = WD_user_val h u /\
  bs = map (fun kv => snd (fst kv)) (filter (WD_mine u (h_hist h)) (h_wait h)).
Proof.
  rewrite WD_fa_unfold. unfold user_waits. intros H. apply WD_fa_gen in H.
  unfold WD_user_val. cbn [app] in H. destruct H as [-> ->]. split; [lia|reflexivity].
Qed.

Lemma WD_mulU_ok a r : a * r / D <= U128MAX -> mulU a r = Some (a * r / D).
Proof.
  intros H. unfold mulU. destruct (a =? 0) eqn:Ea; cbn [orb].
  - apply N.eqb_eq in Ea. subst a. rewrite N.mul_0_l, N.div_0_l by exact D_nz. reflexivity.
  - destruct (r =? 0) eqn:Er.
    + apply N.eqb_eq in Er. subst r. rewrite N.mul_0_r, N.div_0_l by exact D_nz. reflexivity.
    + unfold narrow128, fits128. apply N.leb_le in H. rewrite H. reflexivity.
Qed.

Lemma WD_claim_value_ok e x : GR_claim_val e x <= U128MAX -> claim_value e x = Some (GR_claim_val e x).
Proof.
  unfold GR_claim_val, claim_value. intros H.
  assert (H1 : snd x * he_swithdraw e / D <= U128MAX).
  { revert H. generalize (snd x * he_swithdraw e / D) (fst x * he_bwithdraw e / D). intros; lia. }
  assert (H2 : fst x * he_bwithdraw e / D <= U128MAX).
  { revert H. generalize (snd x * he_swithdraw e / D) (fst x * he_bwithdraw e / D). intros; lia. }
  rewrite (WD_mulU_ok _ _ H1). cbn [bind]. rewrite (WD_mulU_ok _ _ H2). cbn [bind].
  unfold add128, narrow128, fits128. apply N.leb_le in H. rewrite H. reflexivity.
Qed.

Lemma WD_fa_gen_ok hist u wait t0 l0 :
  t0 + sumN (map (WD_entry_val hist) (filter (WD_is_user u) wait)) <= U128MAX ->
  foldM (WD_fa_step hist)
        (flat_map (fun kv : (addr * N) * (N * N) =>
                     if fst (fst kv) =? u then [(snd (fst kv), snd kv)] else []) wait)
        (t0, l0) =
  Some (t0 + sumN (map (WD_entry_val hist) (filter (WD_is_user u) wait)),
        l0 ++ map (fun kv => snd (fst kv)) (filter (WD_mine u hist) wait)).
Proof.
  revert t0 l0. induction wait as [|[[a b] x] r IH]; intros t0 l0 H.
  - cbn. rewrite app_nil_r, N.add_0_r. reflexivity.
  - cbn [flat_map fst snd]. cbn [filter] in *.
    change (WD_is_user u (a, b, x)) with (a =? u) in *.
    change (WD_mine u hist (a, b, x)) with ((a =? u) && WD_rel hist b).
    destruct (a =? u) eqn:Eu; cbn [andb].
    + cbn [app foldM]. unfold WD_fa_step at 1. cbn [fst snd].
      cbn [map sumN] in *.
      change (WD_entry_val hist (a, b, x)) with
        (match get N.eqb hist b with
         | Some e => if he_released e then GR_claim_val e x else 0 | None => 0 end) in *.
      unfold WD_rel.
      destruct (get N.eqb hist b) as [e|] eqn:Eg.
      * destruct (he_released e) eqn:Er.
        -- rewrite WD_claim_value_ok by lia. cbn [bind].
           unfold add128, narrow128, fits128.
           assert (Hf : (t0 + GR_claim_val e x <=? U128MAX) = true) by lia. rewrite Hf. cbn [bind].
           rewrite IH by lia. cbn [map fst snd]. rewrite <- app_assoc. cbn [app].
           f_equal; f_equal; lia.
        -- cbn [bind]. rewrite IH by lia. f_equal; f_equal; lia.
      * cbn [bind]. rewrite IH by lia. f_equal; f_equal; lia.
    + cbn [app]. apply IH. exact H.
Qed.

Lemma WD_fa_ok h u :
  WD_user_val h u <= U128MAX ->
  finished_amount h u =
  Some (WD_user_val h u, map (fun kv => snd (fst kv)) (filter (WD_mine u (h_hist h)) (h_wait h))).
Proof.
  intros H. rewrite WD_fa_unfold. unfold user_waits, WD_user_val in *.
  rewrite WD_fa_gen_ok by lia. reflexivity.
Qed.

(** deleting the paid keys one by one = filtering the paid entries out *)
Lemma WD_del_skip (u : addr) (kv : (addr * N) * (N * N)) bs r :
  (forall b, In b bs -> eqbAN (u, b) (fst kv) = false) ->
  fold_left (fun m b => del eqbAN m (u, b)) bs (kv :: r) =
  kv :: fold_left (fun m b => del eqbAN m (u, b)) bs r.
Proof.
  revert r. induction bs as [|b bs IH]; intros r H; [reflexivity|].
  cbn [fold_left del]. destruct kv as [k v]. cbn [fst] in H.
  rewrite (H b (or_introl eq_refl)). apply IH. intros b' Hb'. apply H. right. exact Hb'.
Qed.

Lemma WD_fold_del_filter (u : addr) (Q : N -> bool) (wait : fmap (addr * N) (N * N)) :
  let P := fun kv : (addr * N) * (N * N) => (fst (fst kv) =? u) && Q (snd (fst kv)) in
  fold_left (fun m b => del eqbAN m (u, b)) (map (fun kv => snd (fst kv)) (filter P wait)) wait =
  filter (fun kv => negb (P kv)) wait.
Proof.
  intros P. induction wait as [|[[a b] x] r IH]; [reflexivity|].
  cbn [filter]. destruct (P (a, b, x)) eqn:EP; cbn [negb].
  - cbn [map fold_left fst snd del]. unfold P in EP. cbn [fst snd] in EP.
    apply andb_true_iff in EP. destruct EP as [Ea _].
    assert (Hk : eqbAN (u, b) (a, b) = true).
    { unfold eqbAN, eqbNN. cbn [fst snd]. rewrite N.eqb_refl, andb_true_r. rewrite N.eqb_sym. exact Ea. }
    rewrite Hk. exact IH.
  - rewrite WD_del_skip; [rewrite IH; reflexivity|].
    intros b' Hb'. apply in_map_iff in Hb'. destruct Hb' as ([[a' b''] x'] & Hbb & Hin).
    cbn [fst snd] in Hbb. subst b''. apply filter_In in Hin. destruct Hin as [_ HP'].
    unfold P in HP', EP. cbn [fst snd] in *.
    apply andb_true_iff in HP'. destruct HP' as [_ HQ'].
    unfold eqbAN, eqbNN. cbn [fst snd].
    destruct (u =? a) eqn:Eua; [|reflexivity]. cbn [andb].
    destruct (b' =? b) eqn:Ebb; [|reflexivity].
    apply N.eqb_eq in Eua. apply N.eqb_eq in Ebb. subst a b'.
    rewrite N.eqb_refl, HQ' in EP. discriminate EP.
Qed.

(** the value of all claims splits into the paid part and the rest *)
Lemma WD_sum_filter_split {T} (f : T -> N) (P : T -> bool) l :
  sumN (map f l) = sumN (map f (filter P l)) + sumN (map f (filter (fun x => negb (P x)) l)).
Proof.
  induction l as [|x l IH]; cbn [filter map sumN]; [reflexivity|].
  destruct (P x); cbn [negb map sumN]; lia.
Qed.

Lemma WD_fold_del_mine u hist (wait : fmap (addr * N) (N * N)) :
  fold_left (fun m b => del eqbAN m (u, b))
            (map (fun kv => snd (fst kv)) (filter (WD_mine u hist) wait)) wait =
  filter (fun kv => negb (WD_mine u hist kv)) wait.
Proof. exact (WD_fold_del_filter u (WD_rel hist) wait). Qed.

(** ** 4. [execute_withdraw]: exact effect *)

(** the hub after paying [sender] its released claims out of balance [balance]
    ([h1] = the hub after the release step) *)
Definition WD_paid (h1 : hub) (sender : addr) (balance : N) : hub :=
  let s := h_state h1 in
  set_h_state
    (set_h_wait h1 (filter (fun kv => negb (WD_mine sender (h_hist h1) kv)) (h_wait h1)))
    (mkHubState (hs_ber s) (hs_ser s) (hs_bb s) (hs_bst s) (hs_lim s)
                (balance - WD_user_val h1 sender) (hs_lut s) (hs_lpb s)).

(** what the release step leaves alone *)
Lemma WD_pwr_frame h t balance h1 :
  process_withdraw_rate h t balance = Some h1 ->
  h_wait h1 = h_wait h /\ h_batch h1 = h_batch h /\ h_params h1 = h_params h /\ h_cfg h1 = h_cfg h /\
  h_newowner h1 = h_newowner h /\ h_oldwait h1 = h_oldwait h /\
  hs_phb (h_state h1) = hs_phb (h_state h) /\ hs_ber (h_state h1) = hs_ber (h_state h) /\
  hs_ser (h_state h1) = hs_ser (h_state h) /\ hs_bb (h_state h1) = hs_bb (h_state h) /\
  hs_bst (h_state h1) = hs_bst (h_state h) /\ hs_lim (h_state h1) = hs_lim (h_state h) /\
  hs_lut (h_state h1) = hs_lut (h_state h).
Proof.
  intros H. apply GR_pwr_spec in H. destruct H as [[_ ->]|(_ & _ & ->)]; cbn; repeat split.
Qed.

Theorem WD_withdraw_exact w h self sender h' msgs :
  execute_withdraw w h self sender = Some (h', msgs) ->
  let p := h_params h in
  let balance := bal (w_env w) self (hp_underlying p) in
  hp_unbonding p <= e_now (w_env w) /\
  exists h1,
    process_withdraw_rate h (e_now (w_env w) - hp_unbonding p) balance = Some h1 /\
    WD_user_val h1 sender <> 0 /\ WD_user_val h1 sender <= balance /\
    msgs = [MBank sender [(hp_underlying p, WD_user_val h1 sender)]] /\
    h' = WD_paid h1 sender balance.
Proof.
  unfold execute_withdraw. intros H. cbv zeta.
  bind_inv H as historical Hh. unfold sub64 in Hh.
  destruct (hp_unbonding (h_params h) <=? e_now (w_env w)) eqn:Et; [|discriminate].
  inversion Hh; subst historical. clear Hh.
  bind_inv H as h1 Hh1. bind_inv H as fa Hfa. destruct fa as [amount batches].
  apply WD_fa_spec in Hfa. destruct Hfa as [-> ->].
  check_inv H as Hnz. bind_inv H as prev Hprev. unfold sub128 in Hprev.
  destruct (WD_user_val h1 sender <=? bal (w_env w) self (hp_underlying (h_params h))) eqn:Hle; [|discriminate].
  inversion Hprev; subst prev. inversion H; subst h' msgs.
  split; [lia|]. exists h1. split; [reflexivity|]. split; [lia|]. split; [lia|]. split; [reflexivity|].
  unfold WD_paid. rewrite WD_fold_del_mine. reflexivity.
Qed.

Theorem WD_withdraw_ok w h self sender h1 :
  let p := h_params h in
  let balance := bal (w_env w) self (hp_underlying p) in
  hp_unbonding p <= e_now (w_env w) ->
  process_withdraw_rate h (e_now (w_env w) - hp_unbonding p) balance = Some h1 ->
  WD_user_val h1 sender <> 0 -> WD_user_val h1 sender <= balance ->
  WD_user_val h1 sender <= U128MAX ->
  execute_withdraw w h self sender =
  Some (WD_paid h1 sender balance, [MBank sender [(hp_underlying p, WD_user_val h1 sender)]]).
Proof.
  cbv zeta. intros Ht Hp Hnz Hle H128. unfold execute_withdraw.
  unfold sub64. assert (E1 : (hp_unbonding (h_params h) <=? e_now (w_env w)) = true) by lia.
  rewrite E1. cbn [bind]. rewrite Hp. cbn [bind].
  rewrite (WD_fa_ok h1 sender H128). cbn [bind].
  assert (E2 : (WD_user_val h1 sender =? 0) = false) by lia. rewrite E2. cbn [negb].
  unfold sub128.
  assert (E3 : (WD_user_val h1 sender <=? bal (w_env w) self (hp_underlying (h_params h))) = true) by lia.
  rewrite E3. cbn [bind]. unfold WD_paid. rewrite WD_fold_del_mine. reflexivity.
Qed.

(** effect on the wait list through [wait_of]: the sender's entries on released batches are gone,
    every other entry (other users, unreleased batches) is unchanged *)
Lemma WD_get_filter (Pk : addr * N -> bool) (m : fmap (addr * N) (N * N)) k :
  get eqbAN (filter (fun kv => negb (Pk (fst kv))) m) k = if Pk k then None else get eqbAN m k.
Proof.
  induction m as [|[k' v] r IH]; cbn [filter get fst].
  - destruct (Pk k); reflexivity.
  - destruct (Pk k') eqn:E'; cbn [negb get].
    + rewrite IH. destruct (Pk k) eqn:E; [reflexivity|].
      destruct (eqbAN k k') eqn:Ek; [|reflexivity].
      apply eqbNN_eq in Ek. subst k'. congruence.
    + destruct (eqbAN k k') eqn:Ek.
      * apply eqbNN_eq in Ek. subst k'. rewrite E'. reflexivity.
      * exact IH.
Qed.

Theorem WD_wait_of_after h1 sender balance u b :
  wait_of (WD_paid h1 sender balance) u b =
  if (u =? sender) && WD_rel (h_hist h1) b then (0, 0) else wait_of h1 u b.
Proof.
  unfold wait_of, WD_paid. cbn [h_wait set_h_state set_h_wait].
  pose proof (WD_get_filter (fun k => (fst k =? sender) && WD_rel (h_hist h1) (snd k)) (h_wait h1) (u, b)) as H.
  cbn [fst snd] in H. unfold WD_mine. rewrite H.
  destruct ((u =? sender) && WD_rel (h_hist h1) b); reflexivity.
Qed.

(** ** 5. Paid once *)
Lemma WD_get_map_rel (F : hist_entry -> hist_entry) (g : list (N * hist_entry)) j :
  get N.eqb (map (fun ie => (fst ie, F (snd ie))) g) j =
  match get N.eqb g j with Some e => Some (F e) | None => None end.
Proof.
  induction g as [|[i e] g IH]; cbn [map get fst snd]; [reflexivity|].
  destruct (j =? i); [reflexivity | exact IH].
Qed.

Lemma WD_release_keys g A : map fst (GR_release g A) = map fst g.
Proof. unfold GR_release. cbv zeta. rewrite map_map. reflexivity. Qed.

(** history after the release of the group of [h] *)
Lemma WD_hist_after h t A j :
  get N.eqb (h_hist (GR_after h (GR_group h t) A)) j =
  match get N.eqb (GR_release (GR_group h t) A) j with
  | Some e => Some e
  | None => get N.eqb (h_hist h) j
  end.
Proof.
  unfold GR_after. cbn [h_hist set_h_state set_h_hist].
  apply WD_get_put_all. rewrite WD_release_keys. apply WD_rg_nodup.
Qed.

(** a released entry is final: the release step never rewrites it; the entries of the group are
    replaced by their released versions, nothing else changes in the history *)
Lemma WD_get_group_in (g : list (N * hist_entry)) j e : get N.eqb g j = Some e -> In (j, e) g.
Proof.
  induction g as [|[i e0] g IH]; cbn [get]; [discriminate|].
  destruct (j =? i) eqn:E; intros H.
  - apply N.eqb_eq in E. inversion H; subst. left. reflexivity.
  - right. exact (IH H).
Qed.

Theorem WD_released_final h t balance h1 j e :
  process_withdraw_rate h t balance = Some h1 ->
  get N.eqb (h_hist h) j = Some e -> he_released e = true ->
  get N.eqb (h_hist h1) j = Some e.
Proof.
  intros Hp Hg Hr. apply GR_pwr_spec in Hp. destruct Hp as [[_ ->]|(_ & _ & ->)]; [exact Hg|].
  rewrite WD_hist_after. unfold GR_release. cbv zeta. rewrite WD_get_map_rel.
  destruct (get N.eqb (GR_group h t) j) as [e0|] eqn:E; [|exact Hg].
  apply WD_get_group_in in E. apply WD_rg_in in E. destruct E as (Hg' & Hr' & _).
  rewrite Hg in Hg'. inversion Hg'; subst e0. congruence.
Qed.

(** what a successful withdrawal leaves alone: configuration, parameters, open batch, pools, rates *)
Theorem WD_withdraw_frame w h self sender h' msgs :
  execute_withdraw w h self sender = Some (h', msgs) ->
  h_cfg h' = h_cfg h /\ h_params h' = h_params h /\ h_batch h' = h_batch h /\
  h_newowner h' = h_newowner h /\ h_oldwait h' = h_oldwait h /\
  hs_ber (h_state h') = hs_ber (h_state h) /\ hs_ser (h_state h') = hs_ser (h_state h) /\
  hs_bb (h_state h') = hs_bb (h_state h) /\ hs_bst (h_state h') = hs_bst (h_state h) /\
  hs_lim (h_state h') = hs_lim (h_state h) /\ hs_lut (h_state h') = hs_lut (h_state h) /\
  (forall j e, get N.eqb (h_hist h) j = Some e -> he_released e = true ->
               get N.eqb (h_hist h') j = Some e).
Proof.
  intros H. apply WD_withdraw_exact in H. cbv zeta in H.
  destruct H as (_ & h1 & Hp & _ & _ & _ & ->).
  pose proof (WD_pwr_frame _ _ _ _ Hp) as (F1 & F2 & F3 & F4 & F5 & F6 & F7 & F8 & F9 & F10 & F11 & F12 & F13).
  cbn. repeat split; try assumption.
  intros j e Hg Hr. exact (WD_released_final _ _ _ _ _ _ Hp Hg Hr).
Qed.

Lemma WD_after_stops h t balance h1 :
  process_withdraw_rate h t balance = Some h1 ->
  WD_stops (h_hist h1) t (hs_lpb (h_state h1) + 1).
Proof.
  intros H. apply GR_pwr_spec in H.
  pose proof (WD_rg_stop (h_hist h) t (length (h_hist h)) (hs_lpb (h_state h) + 1)
                         (WD_cnt_le_length _ _)) as Hs.
  fold (GR_group h t) in Hs.
  destruct H as [[Hg ->]|(Hg & _ & ->)].
  - rewrite Hg in Hs. cbn [length N.of_nat] in Hs. rewrite N.add_0_r in Hs. exact Hs.
  - set (g := GR_group h t) in *.
    assert (Hids : map fst g = WD_ids (hs_lpb (h_state h) + 1) (length g)) by apply WD_rg_ids.
    assert (Hlast : hs_lpb (h_state (GR_after h g (balance - hs_phb (h_state h)))) + 1 =
                    hs_lpb (h_state h) + 1 + N.of_nat (length g)).
    { unfold GR_after. cbn [h_state set_h_state hs_lpb]. rewrite (WD_last_ids g _ _ Hids).
      destruct g as [|g0 gr]; [contradiction|]. cbn [length]. lia. }
    rewrite Hlast. unfold WD_stops in *. subst g. rewrite WD_hist_after.
    assert (Hnone : get N.eqb (GR_release (GR_group h t) (balance - hs_phb (h_state h)))
                        (hs_lpb (h_state h) + 1 + N.of_nat (length (GR_group h t))) = None).
    { apply WD_get_notin. rewrite WD_release_keys, Hids. intros Hin. apply WD_ids_in in Hin. lia. }
    rewrite Hnone. exact Hs.
Qed.

Lemma WD_entry_val_unreleased hist kv : WD_rel hist (snd (fst kv)) = false -> WD_entry_val hist kv = 0.
Proof.
  unfold WD_rel, WD_entry_val. destruct (get N.eqb hist (snd (fst kv))) as [e|]; [|reflexivity].
  intros ->. reflexivity.
Qed.

Lemma WD_user_val_paid h1 sender balance : WD_user_val (WD_paid h1 sender balance) sender = 0.
Proof.
  unfold WD_user_val, WD_paid. cbn [h_hist h_wait set_h_state set_h_wait].
  induction (h_wait h1) as [|kv r IH]; [reflexivity|].
  cbn [filter]. destruct (WD_mine sender (h_hist h1) kv) eqn:Em; cbn [negb]; [exact IH|].
  cbn [filter]. destruct (WD_is_user sender kv) eqn:Eu; [|exact IH].
  cbn [map sumN]. rewrite IH. rewrite WD_entry_val_unreleased; [reflexivity|].
  unfold WD_mine in Em. unfold WD_is_user in Eu. rewrite Eu in Em. exact Em.
Qed.

Theorem WD_paid_once w h self sender h' msgs w' :
  execute_withdraw w h self sender = Some (h', msgs) ->
  e_now (w_env w') = e_now (w_env w) ->
  execute_withdraw w' h' self sender = None.
Proof.
  intros H Hnow. apply WD_withdraw_exact in H. cbv zeta in H.
  destruct H as (Ht & h1 & Hp & _ & _ & _ & ->).
  destruct (execute_withdraw w' (WD_paid h1 sender _) self sender) as [[h'' msgs'']|] eqn:E; [|reflexivity].
  exfalso. apply WD_withdraw_exact in E. cbv zeta in E.
  destruct E as (_ & h2 & Hp2 & Hnz & _).
  pose proof (WD_pwr_frame _ _ _ _ Hp) as (_ & _ & Hpar & _).
  apply WD_after_stops in Hp.
  apply GR_pwr_spec in Hp2.
  assert (Hg : GR_group (WD_paid h1 sender (bal (w_env w) self (hp_underlying (h_params h))))
                        (e_now (w_env w') - hp_unbonding (h_params (WD_paid h1 sender (bal (w_env w) self (hp_underlying (h_params h)))))) = []).
  { unfold GR_group, WD_paid. cbn [h_hist h_state h_params set_h_state set_h_wait hs_lpb].
    apply WD_rg_empty. rewrite Hnow, Hpar. exact Hp. }
  destruct Hp2 as [[_ ->]|(Hne & _)]; [|contradiction].
  apply Hnz. apply WD_user_val_paid.
Qed.

(** ** 6. The release step adds claims worth at most the arrived coins *)

(** claims [(bsei, stsei)] recorded in the wait list on batch [i] *)
Definition WD_batch_claims (wait : fmap (addr * N) (N * N)) (i : N) : list (N * N) :=
  map snd (filter (fun kv => snd (fst kv) =? i) wait).

(** C07-type hypothesis: the claims recorded on each batch of the group do not exceed the batch's
    amounts (C07 states: claims + already withdrawn = amount) *)
Definition WD_claims_le (h : hub) (g : list (N * hist_entry)) : Prop :=
  forall i e, In (i, e) g ->
    sumN (map fst (WD_batch_claims (h_wait h) i)) <= he_bamt e /\
    sumN (map snd (WD_batch_claims (h_wait h) i)) <= he_samt e.

(** value of a wait entry under the freshly released entries [l] only *)
Definition WD_new_val (l : list (N * hist_entry)) (kv : (addr * N) * (N * N)) : N :=
  match get N.eqb l (snd (fst kv)) with Some e' => GR_claim_val e' (snd kv) | None => 0 end.

Lemma WD_sum_zero {T} (l : list T) : sumN (map (fun _ => 0) l) = 0.
Proof. induction l as [|x l IH]; cbn [map sumN]; lia. Qed.

Lemma WD_sum_batch (f : N * N -> N) (wait : fmap (addr * N) (N * N)) i :
  sumN (map (fun kv => if snd (fst kv) =? i then f (snd kv) else 0) wait) =
  sumN (map f (WD_batch_claims wait i)).
Proof.
  unfold WD_batch_claims. induction wait as [|kv r IH]; [reflexivity|].
  cbn [map sumN filter]. destruct (snd (fst kv) =? i); cbn [map sumN]; lia.
Qed.

Lemma WD_sum_by_batch (l : list (N * hist_entry)) (wait : fmap (addr * N) (N * N)) :
  NoDup (map fst l) ->
  sumN (map (WD_new_val l) wait) =
  sumN (map (fun ie => sumN (map (GR_claim_val (snd ie)) (WD_batch_claims wait (fst ie)))) l).
Proof.
  induction l as [|[i e] l IH]; intros Hnd.
  - cbn [map sumN]. unfold WD_new_val. cbn [get]. apply WD_sum_zero.
  - inversion Hnd as [|x xs Hni Hnd']; subst. cbn [map sumN fst snd].
    rewrite <- (IH Hnd'). rewrite <- (WD_sum_batch (GR_claim_val e) wait i).
    rewrite <- GR_sum_plus. f_equal. apply map_ext. intros kv.
    unfold WD_new_val. cbn [get].
    destruct (snd (fst kv) =? i) eqn:E.
    + apply N.eqb_eq in E. rewrite E. rewrite (WD_get_notin l i Hni). lia.
    + lia.
Qed.

(** pointwise: value after the release = value before + value under the fresh entries *)
Lemma WD_entry_val_after h t A kv :
  WD_entry_val (h_hist (GR_after h (GR_group h t) A)) kv =
  WD_entry_val (h_hist h) kv + WD_new_val (GR_release (GR_group h t) A) kv.
Proof.
  unfold WD_entry_val, WD_new_val. rewrite WD_hist_after.
  unfold GR_release. cbv zeta. rewrite WD_get_map_rel.
  destruct (get N.eqb (GR_group h t) (snd (fst kv))) as [e|] eqn:Eg.
  - assert (Hin : In (snd (fst kv), e) (GR_group h t)).
    { clear - Eg. induction (GR_group h t) as [|[i e0] g IH]; cbn [get] in Eg; [discriminate|].
      destruct (snd (fst kv) =? i) eqn:E.
      - apply N.eqb_eq in E. inversion Eg; subst. left. reflexivity.
      - right. exact (IH Eg). }
    apply WD_rg_in in Hin. destruct Hin as (Hget & Hrel & _).
    rewrite Hget, Hrel. cbn [he_released GR_rel]. lia.
  - destruct (get N.eqb (h_hist h) (snd (fst kv))) as [e|]; [destruct (he_released e)|]; lia.
Qed.

Lemma WD_R_after h t A :
  WD_R (GR_after h (GR_group h t) A) =
  WD_R h + sumN (map (WD_new_val (GR_release (GR_group h t) A)) (h_wait h)).
Proof.
  unfold WD_R. cbn [h_wait GR_after set_h_state set_h_hist].
  rewrite <- GR_sum_plus. f_equal. apply map_ext. intros kv. apply WD_entry_val_after.
Qed.

(** all claims on the freshly released batches are together worth at most the arrived coins *)
Lemma WD_new_val_le h t A :
  GR_E1' (GR_group h t) A -> WD_claims_le h (GR_group h t) ->
  sumN (map (WD_new_val (GR_release (GR_group h t) A)) (h_wait h)) <= A.
Proof.
  intros HE Hcl.
  rewrite WD_sum_by_batch by (rewrite WD_release_keys; apply WD_rg_nodup).
  pose proof (GR_group_paid_le_arrived _ _ HE) as Hpaid.
  eapply N.le_trans; [|exact Hpaid]. clear Hpaid HE.
  unfold GR_release. cbv zeta. rewrite !map_map. cbn [fst snd].
  unfold WD_claims_le in Hcl.
  generalize (GR_tot_s (GR_group h t)) (GR_tot_b (GR_group h t))
             (GR_sgn (GR_tot_s (GR_group h t)) (fst (GR_split (GR_tot_s (GR_group h t)) (GR_tot_b (GR_group h t)) A)))
             (GR_sgn (GR_tot_b (GR_group h t)) (snd (GR_split (GR_tot_s (GR_group h t)) (GR_tot_b (GR_group h t)) A))).
  intros Us Ub ss sb.
  induction (GR_group h t) as [|[i e] g IH]; [cbn; lia|].
  cbn [map sumN fst snd].
  specialize (IH (fun i' e' Hin => Hcl i' e' (or_intror Hin))).
  destruct (Hcl i e (or_introl eq_refl)) as [Hb Hs].
  pose proof (GR_claims_le_batch (GR_rel Us Ub ss sb e) (WD_batch_claims (h_wait h) i)) as Hc.
  cbn [GR_rel he_bamt he_samt] in Hc. specialize (Hc Hb Hs). lia.
Qed.

(** Target A at the hub level *)
Theorem WD_group_paid_le_arrived h t balance h1 :
  process_withdraw_rate h t balance = Some h1 ->
  GR_E1' (GR_group h t) (balance - hs_phb (h_state h)) ->
  WD_claims_le h (GR_group h t) ->
  exists newly, WD_R h1 = WD_R h + newly /\
                (GR_group h t <> [] -> newly <= balance - hs_phb (h_state h) /\ hs_phb (h_state h) <= balance) /\
                (GR_group h t = [] -> newly = 0).
Proof.
  intros H HE Hcl. apply GR_pwr_spec in H. destruct H as [[Hg ->]|(Hg & Hle & ->)].
  - exists 0. split; [lia|]. split; [contradiction|reflexivity].
  - exists (sumN (map (WD_new_val (GR_release (GR_group h t) (balance - hs_phb (h_state h)))) (h_wait h))).
    split; [apply WD_R_after|]. split; [|contradiction].
    intros _. split; [apply WD_new_val_le; assumption | exact Hle].
Qed.

(** ** 7. The funding invariant *)

(** [bank] = the hub's bank balance of the staking coin.  prev_hub_balance never exceeds it and
    covers all released claims. *)
Definition WD_Fund (h : hub) (bank : N) : Prop :=
  hs_phb (h_state h) <= bank /\ WD_R h <= hs_phb (h_state h).

Lemma WD_sum_user_mine hist u (wait : fmap (addr * N) (N * N)) :
  sumN (map (WD_entry_val hist) (filter (WD_is_user u) wait)) =
  sumN (map (WD_entry_val hist) (filter (WD_mine u hist) wait)).
Proof.
  induction wait as [|kv r IH]; [reflexivity|].
  cbn [filter]. unfold WD_mine at 1. fold (WD_is_user u kv).
  destruct (WD_is_user u kv); cbn [andb]; [|exact IH].
  destruct (WD_rel hist (snd (fst kv))) eqn:Er; cbn [map sumN]; [lia|].
  rewrite (WD_entry_val_unreleased _ _ Er). lia.
Qed.

Lemma WD_R_paid h1 sender balance :
  WD_R h1 = WD_R (WD_paid h1 sender balance) + WD_user_val h1 sender.
Proof.
  unfold WD_R, WD_user_val, WD_paid. cbn [h_hist h_wait set_h_state set_h_wait].
  rewrite WD_sum_user_mine.
  rewrite (WD_sum_filter_split (WD_entry_val (h_hist h1)) (WD_mine sender (h_hist h1)) (h_wait h1)).
  lia.
Qed.

(** [WD_Fund] is preserved by a successful withdrawal; the new bank balance is the old one minus
    the payment.  Hypotheses: E1' and the claims bound for the group released by this call. *)
Theorem WD_fund_withdraw w h self sender h' msgs :
  execute_withdraw w h self sender = Some (h', msgs) ->
  let p := h_params h in
  let balance := bal (w_env w) self (hp_underlying p) in
  let g := GR_group h (e_now (w_env w) - hp_unbonding p) in
  WD_Fund h balance ->
  GR_E1' g (balance - hs_phb (h_state h)) ->
  WD_claims_le h g ->
  exists amount, msgs = [MBank sender [(hp_underlying p, amount)]] /\ amount <= balance /\
                 WD_Fund h' (balance - amount) /\ hs_phb (h_state h') = balance - amount.
Proof.
  intros H. cbv zeta. intros [Hphb HR] HE Hcl.
  apply WD_withdraw_exact in H. cbv zeta in H.
  destruct H as (Ht & h1 & Hp & Hnz & Hle & -> & ->).
  exists (WD_user_val h1 sender). split; [reflexivity|]. split; [exact Hle|].
  destruct (WD_group_paid_le_arrived _ _ _ _ Hp HE Hcl) as (newly & HR1 & Hne & He).
  pose proof (WD_R_paid h1 sender (bal (w_env w) self (hp_underlying (h_params h)))) as Hsplit.
  assert (Hnew : newly <= bal (w_env w) self (hp_underlying (h_params h)) - hs_phb (h_state h)).
  { destruct (GR_group h (e_now (w_env w) - hp_unbonding (h_params h))) as [|g0 gr].
    - rewrite (He eq_refl). lia.
    - apply Hne. discriminate. }
  unfold WD_Fund. cbn [WD_paid h_state set_h_state hs_phb]. split; [|reflexivity].
  split; [lia|]. lia.
Qed.

(** ** 8. Order independence *)
Definition WD_amount_of (msgs : list cmsg) : N :=
  match msgs with [MBank _ [(_, a)]] => a | _ => 0 end.

Lemma WD_fa_bound hist l t0 l0 amt bs :
  foldM (WD_fa_step hist) l (t0, l0) = Some (amt, bs) -> t0 <= U128MAX -> amt <= U128MAX.
Proof.
  revert t0 l0. induction l as [|bx l IH]; intros t0 l0 H Ht0.
  - cbn in H. inversion H; subst. exact Ht0.
  - cbn [foldM] in H. bind_inv H as acc' Hstep. unfold WD_fa_step in Hstep. cbn [fst snd] in Hstep.
    destruct (get N.eqb hist (fst bx)) as [e|].
    + destruct (he_released e).
      * bind_inv Hstep as v0 Hv. bind_inv Hstep as t1 Ht1. apply GR_narrow128_val in Ht1.
        destruct Ht1 as [-> Hfit]. inversion Hstep; subst acc'. eapply IH; [exact H|exact Hfit].
      * inversion Hstep; subst acc'. eapply IH; [exact H|exact Ht0].
    + inversion Hstep; subst acc'. eapply IH; [exact H|exact Ht0].
Qed.

Lemma WD_withdraw_fits w h self sender h' msgs h1 :
  execute_withdraw w h self sender = Some (h', msgs) ->
  process_withdraw_rate h (e_now (w_env w) - hp_unbonding (h_params h))
                        (bal (w_env w) self (hp_underlying (h_params h))) = Some h1 ->
  WD_user_val h1 sender <= U128MAX.
Proof.
  unfold execute_withdraw. intros H Hp.
  bind_inv H as historical Hh. unfold sub64 in Hh.
  destruct (hp_unbonding (h_params h) <=? e_now (w_env w)); [|discriminate].
  inversion Hh; subst historical. rewrite Hp in H. cbn [bind] in H.
  bind_inv H as fa Hfa. destruct fa as [amount batches].
  pose proof (WD_fa_spec _ _ _ _ Hfa) as [<- _].
  rewrite WD_fa_unfold in Hfa. eapply WD_fa_bound; [exact Hfa|]. apply N.leb_le. reflexivity.
Qed.

Lemma WD_pwr_empty h t balance : GR_group h t = [] -> process_withdraw_rate h t balance = Some h.
Proof. unfold process_withdraw_rate, GR_group. intros ->. reflexivity. Qed.

Lemma WD_filter_other_user hist u v (wait : fmap (addr * N) (N * N)) :
  u <> v ->
  filter (WD_is_user v) (filter (fun kv => negb (WD_mine u hist kv)) wait) = filter (WD_is_user v) wait.
Proof.
  intros Hne. induction wait as [|kv r IH]; [reflexivity|].
  cbn [filter]. destruct (WD_mine u hist kv) eqn:Em; cbn [negb].
  - unfold WD_mine in Em. apply andb_true_iff in Em. destruct Em as [Eu _].
    unfold WD_is_user at 2. apply N.eqb_eq in Eu.
    assert (Ev : (fst (fst kv) =? v) = false) by (apply N.eqb_neq; congruence).
    rewrite Ev. exact IH.
  - cbn [filter]. rewrite IH. reflexivity.
Qed.

Lemma WD_user_val_other h1 u v balance :
  u <> v -> WD_user_val (WD_paid h1 u balance) v = WD_user_val h1 v.
Proof.
  intros Hne. unfold WD_user_val, WD_paid. cbn [h_hist h_wait set_h_state set_h_wait].
  rewrite (WD_filter_other_user _ _ _ _ Hne). reflexivity.
Qed.

Lemma WD_filter_comm {T} (P Q : T -> bool) l : filter P (filter Q l) = filter Q (filter P l).
Proof.
  induction l as [|x l IH]; [reflexivity|]. cbn [filter].
  destruct (P x) eqn:EP; destruct (Q x) eqn:EQ; cbn [filter]; rewrite ?EP, ?EQ, IH; reflexivity.
Qed.

Lemma WD_paid_comm h1 u v B au av :
  u <> v -> au = WD_user_val h1 u -> av = WD_user_val h1 v ->
  WD_paid (WD_paid h1 v B) u (B - av) = WD_paid (WD_paid h1 u B) v (B - au).
Proof.
  intros Hne Hau Hav. unfold WD_paid at 1 3.
  rewrite (WD_user_val_other h1 v u B (not_eq_sym Hne)), (WD_user_val_other h1 u v B Hne).
  unfold WD_paid. cbn [h_hist h_wait h_state set_h_state set_h_wait hs_ber hs_ser hs_bb hs_bst hs_lim hs_lut hs_lpb
                       h_cfg h_params h_batch h_newowner h_oldwait].
  rewrite (WD_filter_comm (fun kv => negb (WD_mine u (h_hist h1) kv))).
  subst au av.
  replace (B - WD_user_val h1 v - WD_user_val h1 u) with (B - WD_user_val h1 u - WD_user_val h1 v) by lia.
  reflexivity.
Qed.

Lemma WD_paid_group_empty h t balance h1 sender B :
  process_withdraw_rate h t balance = Some h1 ->
  GR_group (WD_paid h1 sender B) t = [].
Proof.
  intros Hp. apply WD_after_stops in Hp.
  unfold GR_group, WD_paid. cbn [h_hist h_state set_h_state set_h_wait hs_lpb].
  apply WD_rg_empty. exact Hp.
Qed.

Theorem WD_order_independent w h self u v hu mu wu huv mv :
  u <> v ->
  let d := hp_underlying (h_params h) in
  execute_withdraw w h self u = Some (hu, mu) ->
  e_now (w_env wu) = e_now (w_env w) ->
  bal (w_env wu) self d = bal (w_env w) self d - WD_amount_of mu ->
  execute_withdraw wu hu self v = Some (huv, mv) ->
  forall wv,
    e_now (w_env wv) = e_now (w_env w) ->
    bal (w_env wv) self d = bal (w_env w) self d - WD_amount_of mv ->
    exists hv, execute_withdraw w h self v = Some (hv, mv) /\
               execute_withdraw wv hv self u = Some (huv, mu).
Proof.
  intros Hne d H1 Hnow_u Hbal_u H2 wv Hnow_v Hbal_v. subst d.
  set (B := bal (w_env w) self (hp_underlying (h_params h))) in *.
  set (t := e_now (w_env w) - hp_unbonding (h_params h)).
  pose proof (WD_withdraw_exact _ _ _ _ _ _ H1) as E1. cbv zeta in E1. fold B t in E1.
  destruct E1 as (Ht & h1 & Hp & Hnz_u & Hle_u & Hmu & Hhu).
  pose proof (WD_withdraw_fits _ _ _ _ _ _ h1 H1 Hp) as Hfit_u.
  pose proof (WD_pwr_frame _ _ _ _ Hp) as (_ & _ & Hpar & _).
  assert (Hpar_u : h_params hu = h_params h) by (rewrite Hhu; cbn; exact Hpar).
  assert (Hamt_u : WD_amount_of mu = WD_user_val h1 u) by (rewrite Hmu; reflexivity).
  (* second step of order 1 *)
  pose proof (WD_withdraw_exact _ _ _ _ _ _ H2) as E2. cbv zeta in E2.
  rewrite Hpar_u, Hnow_u, Hbal_u, Hamt_u in E2. fold t in E2.
  destruct E2 as (_ & h2 & Hp2 & Hnz_v & Hle_v & Hmv & Hhuv).
  pose proof (WD_withdraw_fits _ _ _ _ _ _ h2 H2) as Hfit_v.
  rewrite Hpar_u, Hnow_u, Hbal_u, Hamt_u in Hfit_v. fold t in Hfit_v. specialize (Hfit_v Hp2).
  assert (Hh2 : h2 = hu).
  { rewrite Hhu in Hp2. rewrite (WD_pwr_empty _ _ _ (WD_paid_group_empty _ _ _ _ u B Hp)) in Hp2.
    inversion Hp2. rewrite Hhu. reflexivity. }
  subst h2. rewrite Hhu in Hnz_v, Hle_v, Hmv, Hfit_v.
  rewrite (WD_user_val_other h1 u v B Hne) in Hnz_v, Hle_v, Hmv, Hfit_v.
  assert (Hamt_v : WD_amount_of mv = WD_user_val h1 v) by (rewrite Hmv; reflexivity).
  (* order 2, first step *)
  exists (WD_paid h1 v B). split.
  - rewrite Hmv. apply (WD_withdraw_ok w h self v h1); try assumption. fold B. lia.
  - rewrite Hmu.
    pose proof (WD_withdraw_ok wv (WD_paid h1 v B) self u (WD_paid h1 v B)) as Hok. cbv zeta in Hok.
    assert (Hpar_v : h_params (WD_paid h1 v B) = h_params h) by (cbn; exact Hpar).
    rewrite Hpar_v, Hnow_v, Hbal_v, Hamt_v in Hok. fold t in Hok.
    rewrite (WD_user_val_other h1 v u B (not_eq_sym Hne)) in Hok.
    rewrite Hok; try assumption; try lia.
    + f_equal. f_equal. rewrite Hhuv, Hhu.
      apply WD_paid_comm; [exact Hne|reflexivity|reflexivity].
    + apply WD_pwr_empty. exact (WD_paid_group_empty _ _ _ _ v B Hp).
Qed.

(** ** 9. Success under the funding invariant and the E1 magnitudes *)
Lemma WD_c_D128 : D <= U128MAX. Proof. apply N.leb_le. vm_compute. reflexivity. Qed.
Lemma WD_c_D1_128 : D + 1 <= U128MAX. Proof. apply N.leb_le. vm_compute. reflexivity. Qed.
Lemma WD_c_DU : D * U128MAX <= U256MAX. Proof. apply N.leb_le. vm_compute. reflexivity. Qed.
Lemma WD_c_DD : D * D <= U256MAX. Proof. apply N.leb_le. vm_compute. reflexivity. Qed.
Lemma WD_c_2DD : (2 * D) * D <= U128MAX. Proof. apply N.leb_le. vm_compute. reflexivity. Qed.
Lemma WD_c_128_256 : U128MAX <= U256MAX. Proof. apply N.leb_le. vm_compute. reflexivity. Qed.

Lemma WD_mulU256_ok a r : a * r <= U256MAX -> mulU256 a r = Some (a * r / D).
Proof.
  intros H. unfold mulU256, mul256, narrow256, fits256. destruct (a =? 0) eqn:Ea; cbn [orb].
  - apply N.eqb_eq in Ea. subst a. rewrite N.mul_0_l, N.div_0_l by exact D_nz. reflexivity.
  - destruct (r =? 0) eqn:Er.
    + apply N.eqb_eq in Er. subst r. rewrite N.mul_0_r, N.div_0_l by exact D_nz. reflexivity.
    + apply N.leb_le in H. rewrite H. reflexivity.
Qed.

Lemma WD_ratio256_ok a b : b <> 0 -> a * D <= U256MAX -> ratio256 a b = Some (a * D / b).
Proof.
  intros Hb H. unfold ratio256, mul256, narrow256, fits256.
  apply N.eqb_neq in Hb. rewrite Hb. apply N.leb_le in H. rewrite H. reflexivity.
Qed.

Lemma WD_add256_ok a b : a + b <= U256MAX -> add256 a b = Some (a + b).
Proof. intros H. unfold add256, narrow256, fits256. apply N.leb_le in H. rewrite H. reflexivity. Qed.

Lemma WD_signed_sub_ok a b : a <= U128MAX -> b <= U128MAX -> signed_sub a b = Some (GR_sgn a b).
Proof.
  intros Ha Hb. unfold signed_sub, fits128, GR_sgn.
  apply N.leb_le in Ha. apply N.leb_le in Hb. rewrite Ha, Hb. destruct (b <=? a); reflexivity.
Qed.

Lemma WD_floor_le a w : w <= D -> a * w / D <= a.
Proof. intros H. apply N.div_le_upper_bound; [exact D_nz|]. nia. Qed.

Lemma WD_nwr_ok amount wrate total slashed neg :
  amount <= D -> wrate <= U128MAX -> amount * wrate / D <= total -> total <= D -> slashed <= D ->
  exists r, new_withdraw_rate amount wrate total slashed neg = Some r.
Proof.
  intros Ha Hw Hu Ht Hs. unfold new_withdraw_rate.
  pose proof WD_c_D128 as C1. pose proof WD_c_DU as C2. pose proof WD_c_DD as C3.
  pose proof WD_c_2DD as C4. pose proof WD_c_128_256 as C5. pose proof WD_c_D1_128 as C6.
  rewrite WD_mulU256_ok by (pose proof (N.mul_le_mono _ _ _ _ Ha Hw); lia). cbn [bind].
  set (unb := amount * wrate / D) in *.
  assert (Hunb : unb <= D) by lia.
  match goal with |- exists r, bind ?m _ = Some r =>
    assert (Hwt : exists weight, m = Some weight /\ weight <= D) end.
  { destruct (total =? 0) eqn:Et.
    - exists 0. split; [reflexivity|lia].
    - exists (unb * D / total). split.
      + apply WD_ratio256_ok; [lia|]. pose proof (N.mul_le_mono _ _ _ _ Hunb (N.le_refl D)). lia.
      + apply N.div_le_upper_bound; [lia|]. nia. }
  destruct Hwt as (weight & -> & Hwt). cbn [bind].
  rewrite WD_mulU256_ok by (pose proof (N.mul_le_mono _ _ _ _ Hs Hwt); lia). cbn [bind].
  pose proof (WD_floor_le slashed weight Hwt) as Hsb.
  set (sb := slashed * weight / D) in *.
  match goal with |- exists r, bind ?m _ = Some r =>
    assert (Hact : exists actual, m = Some actual /\ actual <= 2 * D) end.
  { destruct neg.
    - exists (unb + (if 1 <? sb then sb - 1 else 0)).
      assert (Hb : unb + (if 1 <? sb then sb - 1 else 0) <= 2 * D) by (destruct (1 <? sb); lia).
      split; [apply WD_add256_ok; nia | exact Hb].
    - match goal with |- exists a, bind ?m _ = Some a /\ _ =>
        assert (Hsb' : exists sb', m = Some sb' /\ sb' <= D + 1) end.
      { destruct (slashed =? 0); [exists sb; split; [reflexivity|lia]|].
        exists (sb + 1). split; [apply WD_add256_ok; lia | lia]. }
      destruct Hsb' as (sb' & -> & Hsb'). cbn [bind].
      rewrite WD_signed_sub_ok by lia. cbn [bind]. eexists. split; [reflexivity|].
      unfold GR_sgn. destruct (sb' <=? unb); cbn [fst snd]; lia. }
  destruct Hact as (actual & -> & Hact). cbn [bind].
  destruct (amount =? 0) eqn:Ea; [eexists; reflexivity|].
  unfold narrow128 at 1, fits128.
  assert (Hf : (actual <=? U128MAX) = true) by nia. rewrite Hf. cbn [bind].
  unfold ratio. rewrite Ea. unfold narrow128, fits128.
  assert (Hq : actual * D / amount <= U128MAX).
  { assert (actual * D / amount <= actual * D) by (apply N.div_le_upper_bound; [lia|]; nia).
    pose proof (N.mul_le_mono _ _ _ _ Hact (N.le_refl D)). lia. }
  apply N.leb_le in Hq. rewrite Hq. eexists; reflexivity.
Qed.

(** E1 magnitudes for the release of group [g] at hub balance [balance] *)
Definition WD_E1 (g : list (N * hist_entry)) (balance : N) : Prop :=
  balance <= D /\ GR_tot_s g + GR_tot_b g <= D /\
  forall i e, In (i, e) g ->
    he_samt e <= D /\ he_bamt e <= D /\ he_swithdraw e <= U128MAX /\ he_bwithdraw e <= U128MAX.

Lemma WD_group_totals_ok g s0 b0 :
  s0 + GR_tot_s g <= U256MAX -> b0 + GR_tot_b g <= U256MAX ->
  (forall i e, In (i, e) g ->
     he_samt e <= D /\ he_bamt e <= D /\ he_swithdraw e <= U128MAX /\ he_bwithdraw e <= U128MAX) ->
  foldM (fun acc (ie : N * hist_entry) =>
           let e := snd ie in
           do su <- mulU256 (he_samt e) (he_swithdraw e);
           do bu <- mulU256 (he_bamt e) (he_bwithdraw e);
           do st <- add256 (fst acc) su;
           do bt <- add256 (snd acc) bu;
           Some (st, bt)) g (s0, b0) = Some (s0 + GR_tot_s g, b0 + GR_tot_b g).
Proof.
  revert s0 b0. induction g as [|[i e] g IH]; intros s0 b0 Hs Hb Hin.
  - cbn. rewrite !N.add_0_r. reflexivity.
  - unfold GR_tot_s, GR_tot_b, GR_us, GR_ub in *. cbn [map sumN snd] in *.
    cbn [foldM]. cbv zeta. cbn [fst snd].
    destruct (Hin i e (or_introl eq_refl)) as (H1 & H2 & H3 & H4).
    pose proof WD_c_DU as C2.
    rewrite WD_mulU256_ok by (pose proof (N.mul_le_mono _ _ _ _ H1 H3); lia). cbn [bind].
    rewrite WD_mulU256_ok by (pose proof (N.mul_le_mono _ _ _ _ H2 H4); lia). cbn [bind].
    rewrite WD_add256_ok by lia. cbn [bind]. rewrite WD_add256_ok by lia. cbn [bind].
    rewrite IH; [f_equal; f_equal; lia | lia | lia |].
    intros i' e' H'. apply (Hin i' e'). right. exact H'.
Qed.

Lemma WD_group_totals_ok' g :
  GR_tot_s g <= U256MAX -> GR_tot_b g <= U256MAX ->
  (forall i e, In (i, e) g ->
     he_samt e <= D /\ he_bamt e <= D /\ he_swithdraw e <= U128MAX /\ he_bwithdraw e <= U128MAX) ->
  group_totals g = Some (GR_tot_s g, GR_tot_b g).
Proof.
  intros Hs Hb Hin. unfold group_totals.
  exact (WD_group_totals_ok g 0 0 ltac:(lia) ltac:(lia) Hin).
Qed.

Lemma WD_in_le_sum (f : N * hist_entry -> N) g ie : In ie g -> f ie <= sumN (map f g).
Proof.
  induction g as [|x g IH]; intros H; [destruct H|]. cbn [map sumN].
  destruct H as [->|H]; [lia|]. specialize (IH H). lia.
Qed.

Lemma WD_release_fold_ok Ust Ub slst slb g hist :
  Ust <= D -> Ub <= D -> fst slst <= D -> fst slb <= D ->
  (forall i e, In (i, e) g ->
     he_samt e <= D /\ he_bamt e <= D /\ he_swithdraw e <= U128MAX /\ he_bwithdraw e <= U128MAX /\
     he_samt e * he_swithdraw e / D <= Ust /\ he_bamt e * he_bwithdraw e / D <= Ub) ->
  exists hist',
  foldM (fun hist (ie : N * hist_entry) =>
           let '(i, e) := ie in
           do sr <- new_withdraw_rate (he_samt e) (he_swithdraw e) Ust (fst slst) (snd slst);
           do br <- new_withdraw_rate (he_bamt e) (he_bwithdraw e) Ub (fst slb) (snd slb);
           Some (hist_put hist i
                   (mkHist (he_time e) (he_bamt e) (he_bapplied e) br
                           (he_samt e) (he_sapplied e) sr true)))
        g hist = Some hist'.
Proof.
  intros HUs HUb Hss Hsb. revert hist. induction g as [|[i e] g IH]; intros hist Hin.
  - eexists. reflexivity.
  - cbn [foldM].
    destruct (Hin i e (or_introl eq_refl)) as (H1 & H2 & H3 & H4 & H5 & H6).
    destruct (WD_nwr_ok (he_samt e) (he_swithdraw e) Ust (fst slst) (snd slst) H1 H3 H5 HUs Hss) as (sr & ->).
    cbn [bind].
    destruct (WD_nwr_ok (he_bamt e) (he_bwithdraw e) Ub (fst slb) (snd slb) H2 H4 H6 HUb Hsb) as (br & ->).
    cbn [bind]. apply IH. intros i' e' H'. apply (Hin i' e'). right. exact H'.
Qed.

Lemma WD_pwr_ok h t balance :
  WD_E1 (GR_group h t) balance -> hs_phb (h_state h) <= balance ->
  exists h1, process_withdraw_rate h t balance = Some h1.
Proof.
  intros (HbD & HU & Hin) Hphb. unfold process_withdraw_rate. fold (GR_group h t).
  destruct (GR_group h t) as [|g0 gr] eqn:Eg; [eexists; reflexivity|].
  set (g := g0 :: gr) in *.
  pose proof WD_c_D128 as C1. pose proof WD_c_DU as C2. pose proof WD_c_DD as C3.
  pose proof WD_c_128_256 as C5.
  rewrite (WD_group_totals_ok' g) by (try lia; exact Hin).
  cbn [bind].
  set (Us := GR_tot_s g) in *. set (Ub := GR_tot_b g) in *.
  rewrite WD_signed_sub_ok by lia. cbn [bind].
  assert (E : (hs_phb (h_state h) <=? balance) = true) by lia.
  replace (GR_sgn balance (hs_phb (h_state h))) with (balance - hs_phb (h_state h), false)
    by (unfold GR_sgn; rewrite E; reflexivity).
  cbn [fst snd negb].
  set (A := balance - hs_phb (h_state h)). assert (HA : A <= D) by lia.
  rewrite WD_add256_ok by lia. cbn [bind].
  match goal with |- exists h1, bind ?m _ = Some h1 =>
    assert (Hbr : exists br, m = Some br /\ br <= D) end.
  { destruct (0 <? Us + Ub) eqn:E0; [|exists 0; split; [reflexivity|lia]].
    rewrite WD_ratio256_ok; [|lia|].
    - cbn [bind]. unfold sub256.
      assert (Hq : Us * D / (Us + Ub) <= D) by (apply N.div_le_upper_bound; [lia|]; nia).
      assert (E2 : (Us * D / (Us + Ub) <=? D) = true) by (apply N.leb_le; exact Hq). rewrite E2.
      eexists. split; [reflexivity|]. generalize dependent (Us * D / (Us + Ub)). intros; lia.
    - assert (Us <= D) by lia. pose proof (N.mul_le_mono _ _ _ _ H (N.le_refl D)). lia. }
  destruct Hbr as (br & -> & Hbr). cbn [bind].
  rewrite WD_mulU256_ok by (pose proof (N.mul_le_mono _ _ _ _ HA Hbr); lia). cbn [bind].
  pose proof (WD_floor_le A br Hbr) as Hba. set (Ab := A * br / D) in *.
  rewrite WD_signed_sub_ok by lia. cbn [bind].
  unfold sub256. assert (E3 : (Ab <=? A) = true) by lia. rewrite E3. cbn [bind].
  rewrite WD_signed_sub_ok by lia. cbn [bind].
  destruct (WD_release_fold_ok Us Ub (GR_sgn Us (A - Ab)) (GR_sgn Ub Ab) g (h_hist h)) as (hist' & ->).
  - lia.
  - lia.
  - unfold GR_sgn. destruct (A - Ab <=? Us); cbn [fst]; lia.
  - unfold GR_sgn. destruct (Ab <=? Ub); cbn [fst]; lia.
  - intros i e Hie. destruct (Hin i e Hie) as (H1 & H2 & H3 & H4). repeat split; try assumption.
    + exact (WD_in_le_sum (fun ie => he_samt (snd ie) * he_swithdraw (snd ie) / D) g (i, e) Hie).
    + exact (WD_in_le_sum (fun ie => he_bamt (snd ie) * he_bwithdraw (snd ie) / D) g (i, e) Hie).
  - cbn [bind]. eexists. reflexivity.
Qed.

Lemma WD_user_val_le_R h u : WD_user_val h u <= WD_R h.
Proof.
  unfold WD_user_val, WD_R.
  rewrite (WD_sum_filter_split (WD_entry_val (h_hist h)) (WD_is_user u) (h_wait h)). lia.
Qed.

(** a claimant whose released claims (after the release this call performs) are worth >= 1 succeeds *)
Theorem WD_withdraw_succeeds w h self sender :
  let p := h_params h in
  let balance := bal (w_env w) self (hp_underlying p) in
  let t := e_now (w_env w) - hp_unbonding p in
  let g := GR_group h t in
  hp_unbonding p <= e_now (w_env w) ->
  WD_Fund h balance -> WD_E1 g balance ->
  GR_E1' g (balance - hs_phb (h_state h)) -> WD_claims_le h g ->
  exists h1,
    process_withdraw_rate h t balance = Some h1 /\
    WD_R h1 <= balance /\
    (1 <= WD_user_val h1 sender ->
     execute_withdraw w h self sender =
     Some (WD_paid h1 sender balance, [MBank sender [(hp_underlying p, WD_user_val h1 sender)]])).
Proof.
  cbv zeta. intros Ht [Hphb HR] HE1 HE1' Hcl.
  destruct (WD_pwr_ok _ _ _ HE1 Hphb) as (h1 & Hp). exists h1. split; [exact Hp|].
  destruct (WD_group_paid_le_arrived _ _ _ _ Hp HE1' Hcl) as (newly & HR1 & Hne & He).
  assert (HRb : WD_R h1 <= bal (w_env w) self (hp_underlying (h_params h))).
  { destruct (GR_group h (e_now (w_env w) - hp_unbonding (h_params h))) as [|g0 gr].
    - rewrite (He eq_refl) in HR1. lia.
    - destruct (Hne ltac:(discriminate)). lia. }
  split; [exact HRb|]. intros H1.
  pose proof (WD_user_val_le_R h1 sender) as Hle.
  destruct HE1 as (HbD & _). pose proof WD_c_D128.
  apply WD_withdraw_ok; try assumption; lia.
Qed.

(** ** 10. The funding invariant under the other hub handlers *)

(** transitions that keep prev_hub_balance and the value of the released claims *)
Definition WD_keeps (h h' : hub) : Prop :=
  hs_phb (h_state h') = hs_phb (h_state h) /\ WD_R h' = WD_R h.

Theorem WD_fund_frame h h' bank bank' :
  WD_keeps h h' -> bank <= bank' -> WD_Fund h bank -> WD_Fund h' bank'.
Proof. intros [Hp HR] Hb [F1 F2]. unfold WD_Fund. rewrite Hp, HR. split; lia. Qed.

Lemma WD_keeps_refl h : WD_keeps h h. Proof. split; reflexivity. Qed.
Lemma WD_keeps_trans a b c : WD_keeps a b -> WD_keeps b c -> WD_keeps a c.
Proof. intros [A1 A2] [B1 B2]. split; congruence. Qed.

Lemma WD_keeps_same h h' :
  h_wait h' = h_wait h -> h_hist h' = h_hist h -> hs_phb (h_state h') = hs_phb (h_state h) ->
  WD_keeps h h'.
Proof. intros Hw Hh Hp. split; [exact Hp|]. unfold WD_R. rewrite Hw, Hh. reflexivity. Qed.

Lemma WD_qas_phb w self h s :
  query_actual_state w self h = Some s -> hs_phb s = hs_phb (h_state h).
Proof.
  unfold query_actual_state. intros H.
  destruct (all_delegations (w_env w) self) as [|d0 dr]; [inversion H; reflexivity|].
  bind_inv H as actual Ha. bind_inv H as st Hst.
  destruct (st =? 0); [inversion H; reflexivity|].
  bind_inv H as bi Hbi. bind_inv H as si Hsi. bind_inv H as s1 Hs1.
  bind_inv H as ber Hber. bind_inv H as ser Hser. inversion H; subst s. cbn [set_rates hs_phb].
  destruct (actual <? st).
  - bind_inv Hs1 as r Hr. bind_inv Hs1 as bb Hbb. bind_inv Hs1 as bst Hbst.
    inversion Hs1; subst s1. reflexivity.
  - inversion Hs1; subst s1. reflexivity.
Qed.

Lemma WD_slashing_keeps w self h h1 :
  slashing w self h = Some h1 ->
  h_wait h1 = h_wait h /\ h_hist h1 = h_hist h /\ hs_phb (h_state h1) = hs_phb (h_state h) /\
  h_batch h1 = h_batch h.
Proof.
  unfold slashing. intros H. bind_inv H as s Hs. apply WD_qas_phb in Hs.
  inversion H; subst h1. cbn. repeat split. exact Hs.
Qed.

Lemma WD_bond_keeps w h self sender funds k h' out :
  execute_bond w h self sender funds k = Some (h', out) -> WD_keeps h h'.
Proof.
  unfold execute_bond. intros H.
  bind_inv H as dispaddr Hd. check_inv H as Hauth. check_inv H as Hlen.
  bind_inv H as pay Hpay. bind_inv H as h1 Hh1.
  apply WD_slashing_keeps in Hh1. destruct Hh1 as (F1 & F2 & F3 & _).
  bind_inv H as mint Hmint. bind_inv H as supply Hsupply. bind_inv H as s' Hs'.
  assert (Hphb : hs_phb s' = hs_phb (h_state h1)).
  { destruct k.
    - bind_inv Hs' as bb Hbb. bind_inv Hs' as ber Hber. inversion Hs'; reflexivity.
    - bind_inv Hs' as bst Hbst. inversion Hs'; reflexivity.
    - bind_inv Hs' as bst Hbst. bind_inv Hs' as ser Hser. inversion Hs'; reflexivity. }
  bind_inv H as vals Hvals. destruct vals as [|v0 vr]; [discriminate|].
  bind_inv H as r Hr.
  assert (Hh' : h_wait h' = h_wait h1 /\ h_hist h' = h_hist h1 /\ h_state h' = s').
  { destruct k.
    - bind_inv H as tok Htok. inversion H; subst. cbn. repeat split.
    - bind_inv H as tok Htok. inversion H; subst. cbn. repeat split.
    - inversion H; subst. cbn. repeat split. }
  destruct Hh' as (G1 & G2 & G3).
  apply WD_keeps_same; [congruence | congruence | rewrite G3; congruence].
Qed.

Lemma WD_convert_sb_keeps w h self amount user h' out :
  convert_stsei_bsei w h self amount user = Some (h', out) -> WD_keeps h h'.
Proof.
  unfold convert_stsei_bsei. intros H.
  bind_inv H as h1 Hh1. apply WD_slashing_keeps in Hh1. destruct Hh1 as (F1 & F2 & F3 & _).
  bind_inv H as a1 E1. bind_inv H as a2 E2. bind_inv H as a3 E3. bind_inv H as a4 E4.
  bind_inv H as a5 E5. bind_inv H as a6 E6. bind_inv H as a7 E7. bind_inv H as a8 E8.
  bind_inv H as a9 E9. bind_inv H as a10 E10. bind_inv H as a11 E11. bind_inv H as a12 E12.
  bind_inv H as a13 E13. inversion H; subst h'.
  apply WD_keeps_same; cbn; assumption.
Qed.

Lemma WD_convert_bs_keeps w h self amount user h' out :
  convert_bsei_stsei w h self amount user = Some (h', out) -> WD_keeps h h'.
Proof.
  unfold convert_bsei_stsei. intros H.
  bind_inv H as h1 Hh1. apply WD_slashing_keeps in Hh1. destruct Hh1 as (F1 & F2 & F3 & _).
  bind_inv H as a1 E1. bind_inv H as a2 E2. bind_inv H as a3 E3. bind_inv H as a4 E4.
  bind_inv H as a5 E5. bind_inv H as a6 E6. bind_inv H as a7 E7. bind_inv H as a8 E8.
  bind_inv H as a9 E9. bind_inv H as a10 E10. bind_inv H as a11 E11. bind_inv H as a12 E12.
  bind_inv H as a13 E13. inversion H; subst h'.
  apply WD_keeps_same; cbn; assumption.
Qed.

Lemma WD_update_global_keeps w h self sender n h' out :
  execute_update_global w h self sender n = Some (h', out) -> WD_keeps h h'.
Proof.
  unfold execute_update_global. intros H. check_inv H as Hauth.
  bind_inv H as d Hd. bind_inv H as hooks Hhooks. inversion H; subst h'.
  apply WD_keeps_same; reflexivity.
Qed.

(** the open batch has no released history entry (part of the C08 life-cycle invariant:
    history has exactly the ids below the open batch) *)
Definition WD_open_unreleased (h : hub) : Prop := WD_rel (h_hist h) (cb_id (h_batch h)) = false.

Lemma WD_R_set_wait hist (m : fmap (addr * N) (N * N)) k v :
  WD_rel hist (snd k) = false ->
  sumN (map (WD_entry_val hist) (set eqbAN m k v)) = sumN (map (WD_entry_val hist) m).
Proof.
  intros Hr. induction m as [|[k' v'] r IH]; cbn [set map sumN].
  - rewrite (WD_entry_val_unreleased hist (k, v) Hr). reflexivity.
  - destruct (eqbAN k k') eqn:E; cbn [map sumN].
    + apply eqbNN_eq in E. subst k'.
      rewrite (WD_entry_val_unreleased hist (k, v) Hr), (WD_entry_val_unreleased hist (k, v') Hr). reflexivity.
    + rewrite IH. reflexivity.
Qed.

Lemma WD_add_wait_keeps h u is_b amt h' :
  add_wait h u (cb_id (h_batch h)) is_b amt = Some h' -> WD_open_unreleased h ->
  WD_keeps h h' /\ h_hist h' = h_hist h /\ h_batch h' = h_batch h /\ h_state h' = h_state h.
Proof.
  unfold add_wait. destruct (wait_of h u (cb_id (h_batch h))) as [x y]. intros H Ho.
  bind_inv H as x' Hx. bind_inv H as y' Hy. inversion H; subst h'. cbn.
  repeat split. unfold WD_R. cbn [h_hist h_wait set_h_wait].
  apply WD_R_set_wait. exact Ho.
Qed.

Lemma WD_entry_val_hist_put hist i e kv :
  he_released e = false -> WD_rel hist i = false ->
  WD_entry_val (hist_put hist i e) kv = WD_entry_val hist kv.
Proof.
  intros He Hr. unfold WD_entry_val.
  destruct (N.eq_dec (snd (fst kv)) i) as [->|Hne].
  - rewrite WD_get_put_same, He. unfold WD_rel in Hr.
    destruct (get N.eqb hist i) as [e0|]; [rewrite Hr|]; reflexivity.
  - rewrite (WD_get_put_other _ _ _ _ Hne). reflexivity.
Qed.

Lemma WD_maybe_undelegate_keeps w self h h' out :
  maybe_undelegate w self h = Some (h', out) -> WD_open_unreleased h -> WD_keeps h h'.
Proof.
  unfold maybe_undelegate. intros H Ho. bind_inv H as p Hp.
  destruct (hp_epoch (h_params h) <? p); [|inversion H; subst; apply WD_keeps_refl].
  unfold process_undelegations in H.
  bind_inv H as a1 E1. bind_inv H as a2 E2. bind_inv H as a3 E3. bind_inv H as a4 E4.
  bind_inv H as a5 E5. bind_inv H as a6 E6. bind_inv H as a7 E7. inversion H; subst h'.
  split; [reflexivity|]. unfold WD_R. cbn [h_hist h_wait set_h_state set_h_batch set_h_hist].
  f_equal. apply map_ext. intros kv. apply WD_entry_val_hist_put; [reflexivity | exact Ho].
Qed.

Lemma WD_unbond_keeps w h self amount user h' out :
  execute_unbond w h self amount user = Some (h', out) -> WD_open_unreleased h -> WD_keeps h h'.
Proof.
  unfold execute_unbond. intros H Ho.
  bind_inv H as h1 Hh1. apply WD_slashing_keeps in Hh1. destruct Hh1 as (F1 & F2 & F3 & F4).
  bind_inv H as supply Hs. bind_inv H as awf Hawf. bind_inv H as reqb Hreqb.
  bind_inv H as h2 Hh2.
  assert (Ho1 : WD_open_unreleased h1) by (unfold WD_open_unreleased; rewrite F2, F4; exact Ho).
  apply WD_add_wait_keeps in Hh2; [|exact Ho1]. destruct Hh2 as (K2 & G1 & G2 & G3).
  bind_inv H as supply' Hs'. bind_inv H as ber Hber. bind_inv H as r Hr. destruct r as [h4 msgs].
  apply WD_maybe_undelegate_keeps in Hr.
  - bind_inv H as tok Htok. inversion H; subst h'.
    eapply WD_keeps_trans; [apply WD_keeps_same; [exact F1|exact F2|exact F3]|].
    eapply WD_keeps_trans; [exact K2|].
    eapply WD_keeps_trans; [|exact Hr].
    split; [cbn; rewrite G3; reflexivity | reflexivity].
  - unfold WD_open_unreleased. cbn [h_hist h_batch set_h_batch set_h_state cb_id].
    rewrite G1. exact Ho1.
Qed.

Lemma WD_unbond_stsei_keeps w h self amount user h' out :
  execute_unbond_stsei w h self amount user = Some (h', out) -> WD_open_unreleased h -> WD_keeps h h'.
Proof.
  unfold execute_unbond_stsei. intros H Ho.
  bind_inv H as h1 Hh1. apply WD_slashing_keeps in Hh1. destruct Hh1 as (F1 & F2 & F3 & F4).
  bind_inv H as reqst Hreq. bind_inv H as h2 Hh2.
  assert (Ho1 : WD_open_unreleased h1) by (unfold WD_open_unreleased; rewrite F2, F4; exact Ho).
  apply WD_add_wait_keeps in Hh2; [|exact Ho1]. destruct Hh2 as (K2 & G1 & G2 & G3).
  bind_inv H as r Hr. destruct r as [h4 msgs].
  apply WD_maybe_undelegate_keeps in Hr.
  - bind_inv H as tok Htok. inversion H; subst h'.
    eapply WD_keeps_trans; [apply WD_keeps_same; [exact F1|exact F2|exact F3]|].
    eapply WD_keeps_trans; [exact K2|].
    eapply WD_keeps_trans; [|exact Hr].
    split; reflexivity.
  - unfold WD_open_unreleased. cbn [h_hist h_batch set_h_batch cb_id].
    rewrite G1. exact Ho1.
Qed.

Lemma WD_receive_keeps w h self sender user amount hk h' out :
  receive_cw20 w h self sender user amount hk = Some (h', out) -> WD_open_unreleased h -> WD_keeps h h'.
Proof.
  unfold receive_cw20. intros H Ho. bind_inv H as b Hb. bind_inv H as st Hst.
  destruct hk; [| |discriminate].
  - destruct (sender =? b); [eapply WD_unbond_keeps; eauto|].
    destruct (sender =? st); [eapply WD_unbond_stsei_keeps; eauto|discriminate].
  - destruct (sender =? b); [eapply WD_convert_bs_keeps; eauto|].
    destruct (sender =? st); [eapply WD_convert_sb_keeps; eauto|discriminate].
Qed.

(** every hub message except WithdrawUnbonded keeps prev_hub_balance and the value of released claims
    (hypotheses: no legacy wait list (E6); the open batch has no released history entry) *)
Theorem WD_hub_execute_keeps w h self sender funds m h' out :
  hub_execute w h self sender funds m = Some (h', out) ->
  m <> HWithdraw -> h_oldwait h = [] -> WD_open_unreleased h ->
  WD_keeps h h'.
Proof.
  unfold hub_execute. intros H Hm Hold Ho.
  destruct m.
  - check_inv H as Hp. eapply WD_bond_keeps; eauto.
  - check_inv H as Hp. eapply WD_bond_keeps; eauto.
  - check_inv H as Hp. eapply WD_bond_keeps; eauto.
  - check_inv H as Hp. eapply WD_update_global_keeps; eauto.
  - contradiction.
  - check_inv H as Hp. bind_inv H as h1 Hh1. inversion H; subst h'.
    apply WD_slashing_keeps in Hh1. destruct Hh1 as (F1 & F2 & F3 & _). apply WD_keeps_same; assumption.
  - unfold execute_update_params in H. check_inv H as Hs. check_inv H as Hf. check_inv H as Hz.
    inversion H; subst h'. apply WD_keeps_same; reflexivity.
  - check_inv H as Hp. unfold execute_update_config in H.
    check_inv H as Hs. check_inv H as Hb1. check_inv H as Hb2. inversion H; subst h'.
    apply WD_keeps_same; reflexivity.
  - check_inv H as Hp. check_inv H as Hs. inversion H; subst h'. apply WD_keeps_same; reflexivity.
  - check_inv H as Hp. check_inv H as Hs. inversion H; subst h'. apply WD_keeps_same; reflexivity.
  - check_inv H as Hp. bind_inv H as reg Hreg. check_inv H as Hs. inversion H; subst. apply WD_keeps_refl.
  - check_inv H as Hp. check_inv H as Hs. bind_inv H as t Ht. check_inv H as Hb.
    inversion H; subst. apply WD_keeps_refl.
  - check_inv H as Hp. bind_inv H as reg Hreg. check_inv H as Hs. inversion H; subst. apply WD_keeps_refl.
  - destruct (paused h); [|discriminate]. inversion H; subst h'.
    unfold migrate_wait_lists. rewrite Hold. rewrite firstn_nil. apply WD_keeps_refl.
  - check_inv H as Hp. eapply WD_receive_keeps; eauto.
Qed.

(** one hub step preserves the funding invariant: a withdrawal lowers the bank balance by exactly the
    payment; any other message is assumed not to lower it (bond transactions forward exactly the
    attached funds as Delegate messages: C02/C12 at world level) *)
Theorem WD_fund_step w h self sender funds m h' out bank' :
  hub_execute w h self sender funds m = Some (h', out) ->
  let balance := bal (w_env w) self (hp_underlying (h_params h)) in
  let g := GR_group h (e_now (w_env w) - hp_unbonding (h_params h)) in
  WD_Fund h balance -> h_oldwait h = [] -> WD_open_unreleased h ->
  (m = HWithdraw -> GR_E1' g (balance - hs_phb (h_state h)) /\ WD_claims_le h g /\
                    bank' = balance - WD_amount_of out) ->
  (m <> HWithdraw -> balance <= bank') ->
  WD_Fund h' bank'.
Proof.
  intros H. cbv zeta. intros HF Hold Ho Hw Hnw.
  assert (Hcase : m = HWithdraw \/ m <> HWithdraw) by (destruct m; (left; reflexivity) || (right; discriminate)).
  destruct Hcase as [->|Hne].
  - destruct (Hw eq_refl) as (HE & Hcl & ->).
    unfold hub_execute in H. check_inv H as Hp.
    destruct (WD_fund_withdraw _ _ _ _ _ _ H HF HE Hcl) as (amount & -> & _ & HF' & _).
    exact HF'.
  - eapply WD_fund_frame; [eapply WD_hub_execute_keeps; eassumption | exact (Hnw Hne) | exact HF].
Qed.

(** ** 11. Non-vacuity: a concrete hub satisfying every hypothesis above
    History = the former F3 witness (stSei batches 1, 1, 1000 at rate 0.9, not yet released);
    users 20, 21 hold the dust batches, users 22 and 23 hold 600 and 400 of batch 3, user 22 also has
    a claim on the open batch 4; 810 of the expected 900 coins are in the hub's balance. *)
Definition WD_ex_hub : hub :=
  mkHub (mkHubConfig A_owner A_owner None None None None None None)
        (mkHubState D D 0 0 0 0 0 0)
        (mkHubParams 30 usei 100 0 D uusd (Some false))
        (mkBatch 4 0 0) A_owner
        [((20, 1), (0, 1)); ((21, 2), (0, 1)); ((22, 3), (0, 600)); ((23, 3), (0, 400)); ((22, 4), (5, 5))]
        GR_ex_g [].
Definition WD_ex_world (balance : N) : world :=
  mkWorld None None None None None None (set_bank (empty_env 100) [((A_hub, usei), balance)]).

Lemma WD_ex_group : GR_group WD_ex_hub (e_now (w_env (WD_ex_world 810)) - 100) = GR_ex_g.
Proof. vm_compute. reflexivity. Qed.

Example WD_ex_hyps_nonvacuous :
  let w := WD_ex_world 810 in
  let h := WD_ex_hub in
  let balance := bal (w_env w) A_hub (hp_underlying (h_params h)) in
  let g := GR_group h (e_now (w_env w) - hp_unbonding (h_params h)) in
  hp_unbonding (h_params h) <= e_now (w_env w) /\
  WD_Fund h balance /\ WD_E1 g balance /\ GR_E1' g (balance - hs_phb (h_state h)) /\
  WD_claims_le h g /\ WD_open_unreleased h /\ h_oldwait h = [].
Proof.
  cbv zeta. change (hp_unbonding (h_params WD_ex_hub)) with 100. rewrite WD_ex_group.
  change (bal (w_env (WD_ex_world 810)) A_hub (hp_underlying (h_params WD_ex_hub))) with 810.
  change (hs_phb (h_state WD_ex_hub)) with 0.
  split; [apply N.leb_le; vm_compute; reflexivity|].
  split; [split; apply N.leb_le; vm_compute; reflexivity|].
  split.
  { split; [apply N.leb_le; vm_compute; reflexivity|].
    split; [apply N.leb_le; vm_compute; reflexivity|].
    intros i e [H|[H|[H|[]]]]; inversion H; subst; repeat split; apply N.leb_le; vm_compute; reflexivity. }
  split; [exact GR_ex_E1'|].
  split.
  { intros i e [H|[H|[H|[]]]]; inversion H; subst; split; apply N.leb_le; vm_compute; reflexivity. }
  split; reflexivity.
Qed.

(** user 22 is paid 485 = floor(600 * 0.809), user 23 then 323 = floor(400 * 0.809); 808 <= 810;
    a repeated withdrawal of user 22 fails; user 20, whose claim is worth 0, fails;
    the reverse order pays the same amounts and ends in the same state *)
Example WD_ex_run :
  exists h22 h23,
    execute_withdraw (WD_ex_world 810) WD_ex_hub A_hub 22 = Some (h22, [MBank 22 [(usei, 485)]]) /\
    execute_withdraw (WD_ex_world 325) h22 A_hub 23 = Some (h23, [MBank 23 [(usei, 323)]]) /\
    execute_withdraw (WD_ex_world 325) h22 A_hub 22 = None /\
    execute_withdraw (WD_ex_world 325) h22 A_hub 20 = None /\
    hs_phb (h_state h23) = 2 /\ WD_R h23 = 0 /\
    exists h23', execute_withdraw (WD_ex_world 810) WD_ex_hub A_hub 23 = Some (h23', [MBank 23 [(usei, 323)]]) /\
                 execute_withdraw (WD_ex_world 487) h23' A_hub 22 = Some (h23, [MBank 22 [(usei, 485)]]).
Proof.
  destruct (execute_withdraw (WD_ex_world 810) WD_ex_hub A_hub 22) as [[h22 m22]|] eqn:E1;
    [|vm_compute in E1; discriminate].
  destruct (execute_withdraw (WD_ex_world 325) h22 A_hub 23) as [[h23 m23]|] eqn:E2;
    [|vm_compute in E1; inversion E1; subst; vm_compute in E2; discriminate].
  exists h22, h23. vm_compute in E1. inversion E1; subst h22 m22. clear E1.
  vm_compute in E2. inversion E2; subst h23 m23. clear E2.
  split; [reflexivity|]. split; [reflexivity|].
  split; [vm_compute; reflexivity|]. split; [vm_compute; reflexivity|].
  split; [vm_compute; reflexivity|]. split; [vm_compute; reflexivity|].
  destruct (execute_withdraw (WD_ex_world 810) WD_ex_hub A_hub 23) as [[h23' m23']|] eqn:E3;
    [|vm_compute in E3; discriminate].
  exists h23'. vm_compute in E3. inversion E3; subst h23' m23'. clear E3.
  split; [reflexivity|]. vm_compute. reflexivity.
Qed.
