(** * AuthHistOwn (helper of AuthHist, C10): PART 2 (token addresses are immutable along histories)
    and PART 3 (two-step ownership along histories).  See the header of Proofs/AuthHist.v for the
    list of main theorems; this file contains their proofs.

    PART 2: [hub_bsei], [hub_stsei], [keeps_hub], [hub_execute_tokaddr], [step_msg_tokaddr],
            [step_tokaddr], [history_tokaddr], [reachable_tokaddr].
    PART 3: [ownable] (the four ownable contracts), [c_addr], [c_owner], [c_nominee], [reinst],
            [accept_msg], [set_msg]; [admin_msg] and [step_msg_emits_noadmin] (closed message class);
            [hub_execute_own], [reward_execute_own], [disp_execute_own], [reg_execute_own]
            (handler level: only SetOwner / Accept touch owner / nominee, and how);
            [step_msg_own] (message level), [run_kother], [run_root_own] (transaction level),
            [ownership_step] (every operation), [outsider_tx], [outsider_history]. *)
From Krp Require Import Tactics Prelude Fixed FMap Types Env Registry Cw20 Reward Dispatcher Hub Exec
     ExecP Hist HubFrame HubAdmin MirrorWire AuthHistEmit.
Open Scope N_scope.

Ltac call_cases Hc :=
  destruct Hc as [h0 hm0 h0' Et Em Hw He Ew | r0 rm0 r0' Et Em Hw He Ew | d0 dm0 d0' Et Em Hw He Ew
                 | g0 gm0 g0' Et Em Hw He Ew | t0 cm0 t0' Et Em Hw He Ew | t0 cm0 t0' Et Em Hw He Ew
                 | sm0 e0' Et Em He Ew Eo | Et Ew Eo].

Lemma run_ops_app ops1 ops2 w : run_ops (ops1 ++ ops2) w = run_ops ops2 (run_ops ops1 w).
Proof. unfold run_ops. apply fold_left_app. Qed.

(** * PART 2 — token addresses *)

Definition hub_bsei (w : world) : option addr :=
  match w_hub w with Some h => hc_bsei (h_cfg h) | None => None end.
Definition hub_stsei (w : world) : option addr :=
  match w_hub w with Some h => hc_stsei (h_cfg h) | None => None end.

(** operations that do not (re-)instantiate the hub and do not reset the world *)
Definition keeps_hub (o : op) : Prop :=
  match o with OReset _ | OInstHub _ _ _ _ _ _ _ _ => False | _ => True end.

Lemma hub_execute_tokaddr w h self sender funds m h' out x :
  hub_execute w h self sender funds m = Some (h', out) ->
  (hc_bsei (h_cfg h) = Some x -> hc_bsei (h_cfg h') = Some x) /\
  (hc_stsei (h_cfg h) = Some x -> hc_stsei (h_cfg h') = Some x).
Proof.
  intros H. destruct (is_admin_msg m) eqn:Ha.
  - unfold hub_execute in H. destruct m; try discriminate Ha.
    + apply update_params_spec in H. destruct H as (_ & _ & _ & _ & ->). cbn [h_cfg set_h_params]. auto.
    + check_inv H as Hp. eapply token_addr_immutable; eauto.
    + check_inv H as Hp. check_inv H as Hs. inversion H; subst. cbn [h_cfg set_h_newowner]. auto.
    + check_inv H as Hp. check_inv H as Hs. inversion H; subst.
      cbn [h_cfg set_h_cfg hc_bsei hc_stsei]. auto.
    + destruct (paused h); [|discriminate]. inversion H; subst.
      pose proof (migrate_params h limit) as M. cbn zeta in M.
      destruct M as (_ & _ & _ & _ & _ & _ & Mc & _). rewrite Mc. auto.
  - apply hub_execute_static in H; [|exact Ha]. destruct H as (Hc & _). rewrite Hc. auto.
Qed.

Lemma step_msg_tokaddr w s m w' out x :
  step_msg w s m = Some (w', out) ->
  (hub_bsei w = Some x -> hub_bsei w' = Some x) /\ (hub_stsei w = Some x -> hub_stsei w' = Some x).
Proof.
  intros H. apply step_msg_inv in H.
  destruct H as [e' -> _ _ | to wm funds e1 o _ _ Hc _]; [split; auto|].
  call_cases Hc; subst w'; unfold hub_bsei, hub_stsei;
    cbn [w_hub set_hub set_reward set_disp set_reg set_bsei set_stsei set_env]; try (split; auto; fail).
  cbn [w_hub set_env] in Hw. rewrite Hw. eapply hub_execute_tokaddr; eauto.
Qed.

Lemma run_tokaddr fuel w stack tr w' tr' x :
  run fuel w stack tr = Some (w', tr') ->
  (hub_bsei w = Some x -> hub_bsei w' = Some x) /\ (hub_stsei w = Some x -> hub_stsei w' = Some x).
Proof.
  intros H. split; intros Hx.
  - eapply (run_preserves (fun w => hub_bsei w = Some x)); [|exact Hx|exact H].
    intros w1 s m w2 out H1 Hs. eapply step_msg_tokaddr; eauto.
  - eapply (run_preserves (fun w => hub_stsei w = Some x)); [|exact Hx|exact H].
    intros w1 s m w2 out H1 Hs. eapply step_msg_tokaddr; eauto.
Qed.

Theorem step_tokaddr w o x : keeps_hub o ->
  (hub_bsei w = Some x -> hub_bsei (fst (step w o)) = Some x) /\
  (hub_stsei w = Some x -> hub_stsei (fst (step w o)) = Some x).
Proof.
  intros Hk. destruct o; cbn [keeps_hub] in Hk; try contradiction; cbn [step]; try (split; auto; fail).
  - destruct (e_now (w_env w) + dt <=? 18446744073); split; auto.
  - destruct (ev_slash _ _ _ _ _); split; auto.
  - destruct (ev_accrue _ _ _ _ _); split; auto.
  - destruct (p =? 0); split; auto.
  - unfold hub_bsei, hub_stsei. destruct (w_hub w) as [h|] eqn:Eh; cbn [fst]; [|rewrite Eh; split; auto].
    cbn [w_hub set_hub h_cfg set_h_oldwait]. split; auto.
  - destruct (run tx_fuel w _ []) as [[w1 tr1]|] eqn:E; cbn [fst]; [|split; auto].
    eapply run_tokaddr; eauto.
Qed.

Theorem history_tokaddr x : forall ops w, Forall keeps_hub ops ->
  (hub_bsei w = Some x -> hub_bsei (run_ops ops w) = Some x) /\
  (hub_stsei w = Some x -> hub_stsei (run_ops ops w) = Some x).
Proof.
  unfold run_ops. induction ops as [|o ops IH]; intros w HF; cbn [fold_left]; [split; auto|].
  inversion HF as [|? ? Ho HF']; subst.
  destruct (step_tokaddr w o x Ho) as [S1 S2]. destruct (IH (fst (step w o)) HF') as [I1 I2].
  split; auto.
Qed.

Theorem reachable_tokaddr ut ops1 ops2 x : Forall keeps_hub ops2 ->
  (hub_bsei (run_ops ops1 (empty_world ut)) = Some x ->
   hub_bsei (run_ops (ops1 ++ ops2) (empty_world ut)) = Some x) /\
  (hub_stsei (run_ops ops1 (empty_world ut)) = Some x ->
   hub_stsei (run_ops (ops1 ++ ops2) (empty_world ut)) = Some x).
Proof. intros HF. rewrite run_ops_app. apply history_tokaddr. exact HF. Qed.

(** * PART 3 — two-step ownership *)

(** ** the closed message class: no contract emits an owner-only message *)

(** messages whose principal is the owner or the nominee of the receiving contract (registry
    AddValidator: owner or hub), and cw20 UpdateMinter (current minter) *)
Definition admin_msg (wm : wasm_msg) : bool :=
  match wm with
  | WHub (HConfig _ _ _ _ _ _ _) | WHub (HParams _ _ _ _ _ _) | WHub (HSetOwner _) | WHub HAccept => true
  | WReward (RConfig _ _ _) | WReward (RSetOwner _) | WReward RAccept | WReward (RSwapDenom _ _) => true
  | WDisp (DConfig _ _ _ _ _ _) | WDisp (DSetOwner _) | WDisp DAccept | WDisp (DSwapContract _)
  | WDisp (DSwapDenom _ _) | WDisp (DOracle _) => true
  | WReg (GAdd _) | WReg (GRemove _) | WReg (GConfig _) | WReg (GSetOwner _) | WReg GAccept => true
  | WCw20 (CUpdMinter _) => true
  | _ => false
  end.

Lemma emit_ok_noadmin wm : emit_wasm_ok wm = true -> admin_msg wm = false.
Proof. destruct wm as [m|m|m|m|m|m|]; try destruct m; cbn; congruence. Qed.

Theorem step_msg_emits_noadmin w s m w' out x to wm f :
  step_msg w s m = Some (w', out) -> In (x, MWasm to wm f) out -> admin_msg wm = false.
Proof.
  intros H Hin. apply step_msg_emits_emitok in H.
  rewrite Forall_forall in H. specialize (H _ Hin). apply emit_ok_noadmin. exact H.
Qed.

(** ** the four ownable contracts *)
Inductive ownable := CHub | CReward | CDisp | CReg.

Definition c_addr (c : ownable) : addr :=
  match c with CHub => A_hub | CReward => A_reward | CDisp => A_disp | CReg => A_reg end.

Definition hub_owner (w : world) : option addr := option_map (fun h => hc_creator (h_cfg h)) (w_hub w).
Definition hub_nominee (w : world) : option addr := option_map h_newowner (w_hub w).
Definition reward_owner (w : world) : option addr := option_map rw_owner (w_reward w).
Definition reward_nominee (w : world) : option addr := option_map rw_newowner (w_reward w).
Definition disp_owner (w : world) : option addr := option_map dp_owner (w_disp w).
Definition disp_nominee (w : world) : option addr := option_map dp_newowner (w_disp w).
Definition reg_owner (w : world) : option addr := option_map rg_owner (w_reg w).
Definition reg_nominee (w : world) : option addr := option_map rg_newowner (w_reg w).

Definition c_owner (c : ownable) (w : world) : option addr :=
  match c with CHub => hub_owner w | CReward => reward_owner w | CDisp => disp_owner w | CReg => reg_owner w end.
Definition c_nominee (c : ownable) (w : world) : option addr :=
  match c with CHub => hub_nominee w | CReward => reward_nominee w | CDisp => disp_nominee w
             | CReg => reg_nominee w end.

(** [o] resets the world or (re-)instantiates contract [c] *)
Definition reinst (c : ownable) (o : op) : Prop :=
  match o, c with
  | OReset _, _ => True
  | OInstHub _ _ _ _ _ _ _ _, CHub => True
  | OInstReward _ _ _ _ _, CReward => True
  | OInstDisp _ _ _ _ _ _ _ _ _ _, CDisp => True
  | OInstReg _ _ _, CReg => True
  | _, _ => False
  end.

Definition accept_msg (c : ownable) : wasm_msg :=
  match c with CHub => WHub HAccept | CReward => WReward RAccept | CDisp => WDisp DAccept
             | CReg => WReg GAccept end.
Definition set_msg (c : ownable) (a : addr) : wasm_msg :=
  match c with CHub => WHub (HSetOwner a) | CReward => WReward (RSetOwner a)
             | CDisp => WDisp (DSetOwner a) | CReg => WReg (GSetOwner a) end.

(** kind of a message with respect to ownership *)
Inductive okind := KOther | KSet (a : addr) | KAccept.

Definition hub_kind (m : hub_msg) : okind :=
  match m with HSetOwner a => KSet a | HAccept => KAccept | _ => KOther end.
Definition reward_kind (m : reward_msg) : okind :=
  match m with RSetOwner a => KSet a | RAccept => KAccept | _ => KOther end.
Definition disp_kind (m : disp_msg) : okind :=
  match m with DSetOwner a => KSet a | DAccept => KAccept | _ => KOther end.
Definition reg_kind (m : reg_msg) : okind :=
  match m with GSetOwner a => KSet a | GAccept => KAccept | _ => KOther end.

Definition c_kind (c : ownable) (wm : wasm_msg) : okind :=
  match c, wm with
  | CHub, WHub m => hub_kind m
  | CReward, WReward m => reward_kind m
  | CDisp, WDisp m => disp_kind m
  | CReg, WReg m => reg_kind m
  | _, _ => KOther
  end.

Definition msg_kind (c : ownable) (m : cmsg) : okind :=
  match m with
  | MWasm to wm _ => if to =? c_addr c then c_kind c wm else KOther
  | _ => KOther
  end.

(** handler level: what a successful handler does to (owner, nominee) *)
Definition own_spec (k : okind) (s own nom own' nom' : addr) (out : list cmsg) : Prop :=
  match k with
  | KOther => own' = own /\ nom' = nom
  | KSet a => s = own /\ own' = own /\ nom' = a /\ out = []
  | KAccept => s = nom /\ own' = nom /\ nom' = nom /\ out = []
  end.

Lemma hub_execute_own w h self s f m h' out :
  hub_execute w h self s f m = Some (h', out) ->
  own_spec (hub_kind m) s (hc_creator (h_cfg h)) (h_newowner h)
           (hc_creator (h_cfg h')) (h_newowner h') out.
Proof.
  intros H. destruct (is_admin_msg m) eqn:Ha.
  - unfold hub_execute in H. destruct m; try discriminate Ha; cbn [hub_kind own_spec].
    + apply update_params_spec in H. destruct H as (_ & _ & _ & _ & ->).
      cbn [h_cfg h_newowner set_h_params]. auto.
    + check_inv H as Hp. apply update_config_spec in H.
      destruct H as (_ & _ & _ & _ & Hn & _ & _ & _ & _ & _ & Hc & _). auto.
    + check_inv H as Hp. check_inv H as Hs. inversion H; subst. apply N.eqb_eq in Hs.
      cbn [h_cfg h_newowner set_h_newowner]. auto.
    + check_inv H as Hp. check_inv H as Hs. inversion H; subst. apply N.eqb_eq in Hs.
      cbn [h_cfg h_newowner set_h_cfg hc_creator]. auto.
    + destruct (paused h); [|discriminate]. inversion H; subst.
      pose proof (migrate_params h limit) as M. cbn zeta in M.
      destruct M as (_ & _ & _ & _ & _ & _ & Mc & Mn & _). rewrite Mc, Mn. auto.
  - apply hub_execute_static in H; [|exact Ha]. destruct H as (Hc & _ & Hn & _).
    destruct m; try discriminate Ha; cbn [hub_kind own_spec]; rewrite Hc, Hn; auto.
Qed.

Lemma reward_execute_own w r self s m r' out :
  reward_execute w r self s m = Some (r', out) ->
  own_spec (reward_kind m) s (rw_owner r) (rw_newowner r) (rw_owner r') (rw_newowner r') out.
Proof.
  intros H. destruct m; cbn [reward_execute] in H; cbn [reward_kind own_spec].
  - bind_inv H as all Hall. bind_inv H as rewards Hrw. bind_inv H as whole Hwh.
    bind_inv H as decimals Hdec. check_inv H as Hnz. bind_inv H as prev Hprev.
    inversion H; subst. cbn [rw_owner rw_newowner set_rw_holder set_rw_state]. auto.
  - check_inv H as Hs. inversion H; subst. cbn [rw_owner rw_newowner set_rw_cfg]. auto.
  - check_inv H as Hs. inversion H; subst. apply N.eqb_eq in Hs. cbn [rw_owner rw_newowner set_rw_cfg]. auto.
  - check_inv H as Hs. inversion H; subst. apply N.eqb_eq in Hs. cbn [rw_owner rw_newowner set_rw_cfg]. auto.
  - bind_inv H as dp Hdp. check_inv H as Hs. inversion H; subst. auto.
  - bind_inv H as dp Hdp. check_inv H as Hs.
    destruct (rw_total r =? 0); [inversion H; subst; auto|].
    bind_inv H as claimed Hc. bind_inv H as q Hq. bind_inv H as gi Hgi. inversion H; subst.
    cbn [rw_owner rw_newowner set_rw_state]. auto.
  - bind_inv H as tok Htok. check_inv H as Hs. bind_inv H as rewards Hrw. bind_inv H as pend Hpend.
    bind_inv H as b Hb. bind_inv H as tot Htot. inversion H; subst.
    cbn [rw_owner rw_newowner set_rw_holder set_rw_state]. auto.
  - bind_inv H as tok Htok. check_inv H as Hs. check_inv H as Hle.
    bind_inv H as rewards Hrw. bind_inv H as pend Hpend.
    bind_inv H as b Hb. bind_inv H as tot Htot. inversion H; subst.
    cbn [rw_owner rw_newowner set_rw_holder set_rw_state]. auto.
  - check_inv H as Hs. inversion H; subst. cbn [rw_owner rw_newowner set_rw_cfg]. auto.
Qed.

Lemma disp_execute_own w dp self s m dp' out :
  disp_execute w dp self s m = Some (dp', out) ->
  own_spec (disp_kind m) s (dp_owner dp) (dp_newowner dp) (dp_owner dp') (dp_newowner dp') out.
Proof.
  intros H. destruct m; cbn [disp_execute] in H; cbn [disp_kind own_spec].
  - check_inv H as Hs. bind_inv H as r Hr. destruct r as [[tsei tusd] msgs].
    check_inv H as Hor. bind_inv H as s2u Hs2u. bind_inv H as u2s Hu2s. bind_inv H as info Hinfo.
    destruct info as [[od oa] ask]. inversion H; subst. auto.
  - check_inv H as Hs. bind_inv H as m1 Hm1. bind_inv H as m2 Hm2. inversion H; subst. auto.
  - check_inv H as Hs. check_inv H as Hstd. check_inv H as Hrate. inversion H; subst.
    cbn [dp_owner dp_newowner set_dp]. auto.
  - check_inv H as Hs. inversion H; subst. apply N.eqb_eq in Hs. cbn [dp_owner dp_newowner set_dp]. auto.
  - check_inv H as Hs. inversion H; subst. apply N.eqb_eq in Hs. cbn [dp_owner dp_newowner set_dp]. auto.
  - check_inv H as Hs. inversion H; subst. cbn [dp_owner dp_newowner set_dp]. auto.
  - check_inv H as Hs. inversion H; subst. cbn [dp_owner dp_newowner set_dp]. auto.
  - check_inv H as Hs. inversion H; subst. cbn [dp_owner dp_newowner set_dp]. auto.
Qed.

Lemma reg_execute_own w g s m g' out :
  reg_execute w g s m = Some (g', out) ->
  own_spec (reg_kind m) s (rg_owner g) (rg_newowner g) (rg_owner g') (rg_newowner g') out.
Proof.
  intros H. destruct m; cbn [reg_execute] in H; cbn [reg_kind own_spec].
  - check_inv H as Hs. inversion H; subst. cbn [rg_owner rg_newowner set_rg_vals]. auto.
  - check_inv H as Hs. cbn [rg_vals set_rg_vals] in H.
    destruct (remove_val v (rg_vals g)) as [|x l]; [discriminate|].
    bind_inv H as msgs Hm. inversion H; subst. cbn [rg_owner rg_newowner set_rg_vals]. auto.
  - check_inv H as Hs. inversion H; subst. destruct hub; cbn [rg_owner rg_newowner]; auto.
  - check_inv H as Hs. bind_inv H as msgs Hm. inversion H; subst. auto.
  - check_inv H as Hs. inversion H; subst. apply N.eqb_eq in Hs. cbn [rg_owner rg_newowner]. auto.
  - check_inv H as Hs. inversion H; subst. apply N.eqb_eq in Hs. cbn [rg_owner rg_newowner]. auto.
Qed.

(** message level *)
Definition own_effect (k : okind) (s : addr) (o n o' n' : option addr) (out : list (addr * cmsg))
  : Prop :=
  match k with
  | KOther => o' = o /\ n' = n
  | KSet a => o = Some s /\ o' = Some s /\ n' = Some a /\ out = []
  | KAccept => n = Some s /\ o' = Some s /\ n' = Some s /\ out = []
  end.

Lemma own_spec_effect k s own nom own' nom' o to :
  own_spec k s own nom own' nom' o ->
  own_effect k s (Some own) (Some nom) (Some own') (Some nom') (map (fun x => (to, x)) o).
Proof.
  destruct k; cbn [own_spec own_effect].
  - intros [-> ->]. auto.
  - intros (-> & -> & -> & ->). auto.
  - intros (-> & -> & -> & ->). auto.
Qed.

Lemma msg_kind_nonwasm c m : (forall to wm f, m <> MWasm to wm f) -> msg_kind c m = KOther.
Proof. intros Hno. destruct m; try reflexivity. exfalso. eapply Hno. reflexivity. Qed.

Lemma step_msg_own c w s m w' out :
  step_msg w s m = Some (w', out) ->
  own_effect (msg_kind c m) s (c_owner c w) (c_nominee c w) (c_owner c w') (c_nominee c w') out.
Proof.
  intros H. apply step_msg_inv in H.
  destruct H as [e' -> _ Hno | to wm funds e1 o -> _ Hc ->].
  { rewrite msg_kind_nonwasm by exact Hno. destruct c; split; reflexivity. }
  call_cases Hc; subst to w'; try subst wm; cbn [w_hub w_reward w_disp w_reg set_env] in *.
  - destruct c; cbn [msg_kind c_addr c_kind]; try (split; reflexivity).
    change (A_hub =? A_hub) with true. cbn iota.
    unfold c_owner, c_nominee, hub_owner, hub_nominee. cbn [w_hub set_hub set_env]. rewrite Hw.
    cbn [option_map]. apply own_spec_effect. eapply hub_execute_own; eauto.
  - destruct c; cbn [msg_kind c_addr]; try (split; reflexivity).
    change (A_reward =? A_reward) with true. cbn iota.
    unfold c_owner, c_nominee, reward_owner, reward_nominee. cbn [w_reward set_reward set_env]. rewrite Hw.
    cbn [option_map]. apply reward_execute_own in He.
    destruct Em as [-> | (n & -> & ->)]; cbn [c_kind].
    + apply own_spec_effect. exact He.
    + cbn [reward_kind own_spec] in He. destruct He as [-> ->]. split; reflexivity.
  - destruct c; cbn [msg_kind c_addr c_kind]; try (split; reflexivity).
    change (A_disp =? A_disp) with true. cbn iota.
    unfold c_owner, c_nominee, disp_owner, disp_nominee. cbn [w_disp set_disp set_env]. rewrite Hw.
    cbn [option_map]. apply own_spec_effect. eapply disp_execute_own; eauto.
  - destruct c; cbn [msg_kind c_addr c_kind]; try (split; reflexivity).
    change (A_reg =? A_reg) with true. cbn iota.
    unfold c_owner, c_nominee, reg_owner, reg_nominee. cbn [w_reg set_reg set_env]. rewrite Hw.
    cbn [option_map]. apply own_spec_effect. eapply reg_execute_own; eauto.
  - destruct c; cbn [msg_kind c_addr]; split; reflexivity.
  - destruct c; cbn [msg_kind c_addr]; split; reflexivity.
  - destruct c; cbn [msg_kind c_addr]; split; reflexivity.
  - subst. destruct c; cbn [msg_kind c_addr]; split; reflexivity.
Qed.

(** transaction level *)
Definition kother (c : ownable) (sm : addr * cmsg) : Prop := msg_kind c (snd sm) = KOther.

Lemma admin_kind c wm : admin_msg wm = false -> c_kind c wm = KOther.
Proof. destruct c; destruct wm as [m|m|m|m|m|m|]; try reflexivity; destruct m; cbn; congruence. Qed.

Lemma emitted_kother c w s m w' out :
  step_msg w s m = Some (w', out) -> Forall (kother c) out.
Proof.
  intros H. apply step_msg_emits_emitok in H. eapply Forall_impl; [|exact H].
  intros [x m1] Hok. unfold kother, emitok_s, emitok in *. cbn [snd] in *.
  destruct m1; try reflexivity. cbn [msg_kind emit_ok] in *.
  destruct (to =? c_addr c); [|reflexivity]. apply admin_kind. apply emit_ok_noadmin. exact Hok.
Qed.

Lemma run_kother c fuel w stack tr w' tr' :
  run fuel w stack tr = Some (w', tr') -> Forall (kother c) stack ->
  c_owner c w' = c_owner c w /\ c_nominee c w' = c_nominee c w.
Proof.
  intros H HF.
  pose (J := fun (w1 : world) (st : list (addr * cmsg)) =>
               (c_owner c w1 = c_owner c w /\ c_nominee c w1 = c_nominee c w) /\ Forall (kother c) st).
  assert (HJ : J w' []).
  { eapply (run_preserves_stack J); [|split; [split; reflexivity|exact HF]|exact H].
    intros w1 s m rest w2 out [[Io In] HF1] Hs. inversion HF1 as [|? ? Hk Hrest]; subst.
    pose proof (step_msg_own c _ _ _ _ _ Hs) as He. unfold kother in Hk. cbn [snd] in Hk.
    rewrite Hk in He. cbn [own_effect] in He. destruct He as [Eo En]. split.
    - split; congruence.
    - apply Forall_app. split; [eapply emitted_kother; eauto|exact Hrest]. }
  exact (proj1 HJ).
Qed.

Lemma run_nil fuel w tr : run fuel w [] tr = Some (w, tr).
Proof. destruct fuel; reflexivity. Qed.

Lemma run_root_own c fuel w s m tr w' tr' :
  run fuel w [(s, m)] tr = Some (w', tr') ->
  exists w1 out, step_msg w s m = Some (w1, out) /\
    c_owner c w' = c_owner c w1 /\ c_nominee c w' = c_nominee c w1 /\
    (out = [] -> w' = w1 /\ tr' = tr ++ [(s, m)]).
Proof.
  intros H. destruct fuel as [|f]; cbn [run] in H; [discriminate|].
  bind_inv H as r Hr. destruct r as [w1 out]. cbn [fst snd] in H. exists w1, out.
  split; [reflexivity|].
  pose proof (run_kother c _ _ _ _ _ _ H) as Hk.
  destruct Hk as [Ko Kn].
  { apply Forall_app. split; [eapply emitted_kother; eauto|constructor]. }
  split; [exact Ko|]. split; [exact Kn|].
  intros ->. cbn [app] in H. rewrite run_nil in H. inversion H; subst. auto.
Qed.

Lemma msg_kind_accept c to wm f : msg_kind c (MWasm to wm f) = KAccept -> to = c_addr c /\ wm = accept_msg c.
Proof.
  cbn [msg_kind]. destruct (to =? c_addr c) eqn:E; [|discriminate]. apply N.eqb_eq in E.
  intros H. split; [exact E|].
  destruct c; destruct wm as [m|m|m|m|m|m|]; try discriminate H; destruct m; try discriminate H; reflexivity.
Qed.

Lemma msg_kind_set c to wm f a : msg_kind c (MWasm to wm f) = KSet a -> to = c_addr c /\ wm = set_msg c a.
Proof.
  cbn [msg_kind]. destruct (to =? c_addr c) eqn:E; [|discriminate]. apply N.eqb_eq in E.
  intros H. split; [exact E|].
  destruct c; destruct wm as [m|m|m|m|m|m|]; try discriminate H; destruct m; try discriminate H;
    cbn in H; inversion H; reflexivity.
Qed.

(** every operation of the alphabet *)
Definition own_same (c : ownable) (w w' : world) : Prop :=
  c_owner c w' = c_owner c w /\ c_nominee c w' = c_nominee c w.

Theorem ownership_step c w o :
  own_same c w (fst (step w o)) \/
  reinst c o \/
  (exists x f, o = OTx x (c_addr c) (accept_msg c) f /\ c_nominee c w = Some x /\
     c_owner c (fst (step w o)) = Some x /\ c_nominee c (fst (step w o)) = Some x /\
     snd (step w o) = (true, [(x, MWasm (c_addr c) (accept_msg c) f)])) \/
  (exists x a f, o = OTx x (c_addr c) (set_msg c a) f /\ c_owner c w = Some x /\
     c_owner c (fst (step w o)) = Some x /\ c_nominee c (fst (step w o)) = Some a /\
     snd (step w o) = (true, [(x, MWasm (c_addr c) (set_msg c a) f)])).
Proof.
  unfold own_same.
  destruct o; cbn [step];
    try (left; destruct c; split; reflexivity);
    try (destruct c; cbn [reinst]; try (right; left; exact I); left; split; reflexivity).
  - left. destruct (e_now (w_env w) + dt <=? 18446744073); destruct c; split; reflexivity.
  - left. destruct (ev_slash _ _ _ _ _); destruct c; split; reflexivity.
  - left. destruct (ev_accrue _ _ _ _ _); destruct c; split; reflexivity.
  - left. destruct (p =? 0); destruct c; split; reflexivity.
  - left. destruct (w_hub w) as [h|] eqn:Eh; cbn [fst]; [|split; reflexivity].
    destruct c; try (split; reflexivity).
    unfold c_owner, c_nominee, hub_owner, hub_nominee. cbn [w_hub set_hub]. rewrite Eh. split; reflexivity.
  - destruct (run tx_fuel w _ []) as [[w' tr']|] eqn:E; cbn [fst snd]; [|left; split; reflexivity].
    destruct (run_root_own c _ _ _ _ _ _ _ E) as (w1 & out & Hs & Ko & Kn & Hnil).
    pose proof (step_msg_own c _ _ _ _ _ Hs) as He.
    destruct (msg_kind c (MWasm target m funds)) as [|a|] eqn:Ek; cbn [own_effect] in He.
    + left. destruct He as [Eo En]. split; congruence.
    + right. right. right. destruct He as (Eo & Eo' & En' & Eout).
      apply msg_kind_set in Ek. destruct Ek as [-> ->].
      destruct (Hnil Eout) as [-> ->]. exists sender, a, funds. auto 6.
    + right. right. left. destruct He as (En & Eo' & En' & Eout).
      apply msg_kind_accept in Ek. destruct Ek as [-> ->].
      destruct (Hnil Eout) as [-> ->]. exists sender, funds. auto 6.
Qed.

(** ** an outsider, signing alone, cannot change owner or nominee — whatever the target *)
Theorem outsider_tx c w x tgt m f own nom :
  c_owner c w = Some own -> c_nominee c w = Some nom -> x <> own -> x <> nom ->
  c_owner c (fst (step w (OTx x tgt m f))) = Some own /\
  c_nominee c (fst (step w (OTx x tgt m f))) = Some nom.
Proof.
  intros Ho Hn Hxo Hxn.
  destruct (ownership_step c w (OTx x tgt m f)) as [[Eo En] | [Hr | [(y & g & E & Hy & _) | (y & a & g & E & Hy & _)]]].
  - split; congruence.
  - destruct c; contradiction.
  - inversion E; subst. congruence.
  - inversion E; subst. congruence.
Qed.

(** the operations of an outsider history: transactions signed by anybody except the owner and the
    nominee, and every other operation except reset / re-instantiation of the contract *)
Definition outsider_op (c : ownable) (own nom : addr) (o : op) : Prop :=
  match o with
  | OTx x _ _ _ => x <> own /\ x <> nom
  | _ => ~ reinst c o
  end.

Lemma outsider_step c w o own nom :
  outsider_op c own nom o -> c_owner c w = Some own -> c_nominee c w = Some nom ->
  c_owner c (fst (step w o)) = Some own /\ c_nominee c (fst (step w o)) = Some nom.
Proof.
  intros Hop Ho Hn.
  destruct (ownership_step c w o) as [[Eo En] | [Hr | [(y & g & E & Hy & _) | (y & a & g & E & Hy & _)]]].
  - split; congruence.
  - exfalso. destruct o; cbn [outsider_op] in Hop; try (apply Hop; exact Hr).
    destruct c; contradiction.
  - subst o. cbn [outsider_op] in Hop. destruct Hop. congruence.
  - subst o. cbn [outsider_op] in Hop. destruct Hop. congruence.
Qed.

Theorem outsider_history c own nom : forall ops w,
  Forall (outsider_op c own nom) ops -> c_owner c w = Some own -> c_nominee c w = Some nom ->
  c_owner c (run_ops ops w) = Some own /\ c_nominee c (run_ops ops w) = Some nom.
Proof.
  unfold run_ops. induction ops as [|o ops IH]; intros w HF Ho Hn; cbn [fold_left]; [auto|].
  inversion HF as [|? ? Hop HF']; subst.
  destruct (outsider_step c w o own nom Hop Ho Hn) as [Ho' Hn']. apply IH; assumption.
Qed.

(** ** the same, read as "what must have happened if the field changed" *)
Theorem ownership_changes c w o :
  (c_owner c (fst (step w o)) <> c_owner c w ->
   reinst c o \/
   exists x f, o = OTx x (c_addr c) (accept_msg c) f /\ c_nominee c w = Some x /\
     c_owner c (fst (step w o)) = Some x /\
     snd (step w o) = (true, [(x, MWasm (c_addr c) (accept_msg c) f)])) /\
  (c_nominee c (fst (step w o)) <> c_nominee c w ->
   reinst c o \/
   exists x a f, o = OTx x (c_addr c) (set_msg c a) f /\ c_owner c w = Some x /\
     c_nominee c (fst (step w o)) = Some a /\ c_owner c (fst (step w o)) = Some x /\
     snd (step w o) = (true, [(x, MWasm (c_addr c) (set_msg c a) f)])).
Proof.
  split; intros Hne;
    destruct (ownership_step c w o)
      as [[Eo En] | [Hr | [(y & g & E & Hy & Ho' & Hn' & Hsnd) | (y & a & g & E & Hy & Ho' & Hn' & Hsnd)]]];
    try (left; exact Hr); try contradiction.
  - right. exists y, g. auto.
  - exfalso. apply Hne. congruence.
  - exfalso. apply Hne. congruence.
  - right. exists y, a, g. auto 6.
Qed.

Lemma run_ops_snoc ops o w : run_ops (ops ++ [o]) w = fst (step (run_ops ops w) o).
Proof. rewrite run_ops_app. reflexivity. Qed.

Theorem ownership_changes_history c ut ops o :
  (c_owner c (run_ops (ops ++ [o]) (empty_world ut)) <> c_owner c (run_ops ops (empty_world ut)) ->
   reinst c o \/
   exists x f, o = OTx x (c_addr c) (accept_msg c) f /\
     c_nominee c (run_ops ops (empty_world ut)) = Some x /\
     c_owner c (run_ops (ops ++ [o]) (empty_world ut)) = Some x /\
     snd (step (run_ops ops (empty_world ut)) o) = (true, [(x, MWasm (c_addr c) (accept_msg c) f)])) /\
  (c_nominee c (run_ops (ops ++ [o]) (empty_world ut)) <> c_nominee c (run_ops ops (empty_world ut)) ->
   reinst c o \/
   exists x a f, o = OTx x (c_addr c) (set_msg c a) f /\
     c_owner c (run_ops ops (empty_world ut)) = Some x /\
     c_nominee c (run_ops (ops ++ [o]) (empty_world ut)) = Some a /\
     c_owner c (run_ops (ops ++ [o]) (empty_world ut)) = Some x /\
     snd (step (run_ops ops (empty_world ut)) o) = (true, [(x, MWasm (c_addr c) (set_msg c a) f)])).
Proof. rewrite run_ops_snoc. apply ownership_changes. Qed.

(** the closed class, as one statement about everything any executing message emits *)
Theorem closed_class w s m w' out x to wm f :
  step_msg w s m = Some (w', out) -> In (x, MWasm to wm f) out ->
  emit_wasm_ok wm = true /\ admin_msg wm = false.
Proof.
  intros H Hin. split.
  - apply step_msg_emits_emitok in H. rewrite Forall_forall in H. exact (H _ Hin).
  - exact (step_msg_emits_noadmin w s m w' out x to wm f H Hin).
Qed.
