(** * FundsFrame: coins attached to a transaction are a bank transfer followed by the plain transaction.

    A transaction [OTx s t m f] first moves the attached coins [f] from [s] to [t]
    ([send_coins], inside [step_msg]) and then runs the handler of [t] with [f] as [info.funds].
    Only the hub's Bond / BondForStSei / BondRewards read [info.funds].

    Main results (all closed under the global context):
    - [FF_hub_execute_ignores]  hub_execute does not depend on funds for every message other than the
                                three bond messages (the five other execute functions take no funds
                                argument at all: reward_execute, disp_execute, reg_execute,
                                bsei_execute, stsei_execute, and neither do the stubs);
    - [FF_execute_bond_funds], [FF_hub_execute_bond_funds]
                                the bond handlers depend on funds exactly through: "funds is a single
                                coin (d, a) with d the underlying denom and a <> 0", and the amount a;
    - [FF_bond_needs_single_coin]  a successful bond handler was given exactly one coin, of the
                                underlying denom, amount > 0;
    - [FF_call_ignores]         [call] (all six contracts and the stubs) does not depend on funds unless
                                the target is the hub and the message a bond message ([FF_reads_funds]);
    - [FF_run_tr]               the trace accumulator of [run] is a pure prefix;
    - [FF_tx_decompose]         step w (OTx s t m f) as a function of send_coins and the plain
                                transaction OTx s t m [] in the world after the transfer (one equation:
                                success, world, trace, failure + roll-back);
    - [FF_tx_success_iff], [FF_tx_failure_iff], [FF_tx_cannot_pay], [FF_tx_failed_unchanged]
                                the same, split into the usual reading;
    - [FF_tx_decompose_bank]    the transfer written as the bank message [MBank t f] (f <> []);
    - [FF_plain_trace_head]     the trace of a successful transaction starts with its root message;
    - [FF_bond_tx_single_coin], [FF_bond_tx_extra_fails], [FF_bond_tx_wrong_coin_fails]
                                a bond transaction succeeds only with exactly one coin, of the
                                underlying denom, amount > 0, which the sender can pay; any extra coin
                                (list of length <> 1) makes it fail with the world unchanged;
    - [FF_withdraw_with_funds]  WithdrawUnbonded with attached coins = transfer to the hub, then the
                                plain WithdrawUnbonded ([FF_transfer_to_hub_bal]: the transfer raises
                                the hub's balance by exactly the attached amount).
    Liquid-balance corollaries are in FundsFrameLiquid.v, the examples in FundsFrameEx.v. *)
From Krp Require Import Tactics Prelude Fixed FMap Types Env Registry Cw20 Reward Dispatcher Hub Exec
     ExecP Hist BooksEnv.
Open Scope N_scope.

(** ** 1. handlers and attached coins *)

Definition FF_bond (hm : hub_msg) : bool :=
  match hm with HBond | HBondSt | HBondRewards => true | _ => false end.

(** the only (target, message) pairs whose handler reads info.funds *)
Definition FF_reads_funds (t : addr) (m : wasm_msg) : bool :=
  (t =? A_hub) && match m with WHub hm => FF_bond hm | _ => false end.

Lemma FF_hub_execute_ignores w h self sender hm f1 f2 :
  FF_bond hm = false ->
  hub_execute w h self sender f1 hm = hub_execute w h self sender f2 hm.
Proof. intros H. destruct hm; try reflexivity; discriminate H. Qed.

(** exactly how the bond handler depends on funds *)
Lemma FF_execute_bond_funds w h self sender funds k :
  execute_bond w h self sender funds k =
  match funds with
  | [(d, a)] =>
      if (d =? hp_underlying (h_params h)) && negb (a =? 0)
      then execute_bond w h self sender [(hp_underlying (h_params h), a)] k
      else None
  | _ => None
  end.
Proof.
  destruct funds as [|[d a] [|c2 rest]].
  - unfold execute_bond. destruct (hc_disp (h_cfg h)) as [da|]; cbn [bind]; [|reflexivity].
    destruct (match k with BkRw => sender =? da | _ => true end); [|reflexivity].
    match goal with |- context [N.of_nat ?x <=? 1] => destruct (N.of_nat x <=? 1) end; reflexivity.
  - destruct ((d =? hp_underlying (h_params h)) && negb (a =? 0)) eqn:E.
    + apply andb_true_iff in E. destruct E as [E _]. apply N.eqb_eq in E. subst d. reflexivity.
    + unfold execute_bond. destruct (hc_disp (h_cfg h)) as [da|]; cbn [bind]; [|reflexivity].
      destruct (match k with BkRw => sender =? da | _ => true end); [|reflexivity].
      match goal with |- context [N.of_nat ?x <=? 1] => destruct (N.of_nat x <=? 1) end; [|reflexivity].
      unfold find_payment. cbn [filter fst snd]. rewrite E. reflexivity.
  - unfold execute_bond. destruct (hc_disp (h_cfg h)) as [da|]; cbn [bind]; [|reflexivity].
    destruct (match k with BkRw => sender =? da | _ => true end); [|reflexivity].
    match goal with |- context [N.of_nat ?x <=? 1] => replace (N.of_nat x <=? 1) with false end;
      [reflexivity|].
    symmetry. apply N.leb_gt. cbn [length]. lia.
Qed.

Lemma FF_hub_execute_bond_funds w h self sender funds hm :
  FF_bond hm = true ->
  hub_execute w h self sender funds hm =
  match funds with
  | [(d, a)] =>
      if (d =? hp_underlying (h_params h)) && negb (a =? 0)
      then hub_execute w h self sender [(hp_underlying (h_params h), a)] hm
      else None
  | _ => None
  end.
Proof.
  intros Hb.
  assert (G : forall k,
    (if negb (paused h) then execute_bond w h self sender funds k else None) =
    match funds with
    | [(d, a)] =>
        if (d =? hp_underlying (h_params h)) && negb (a =? 0)
        then (if negb (paused h) then execute_bond w h self sender [(hp_underlying (h_params h), a)] k
              else None)
        else None
    | _ => None
    end).
  { intros k. destruct (negb (paused h)).
    - apply FF_execute_bond_funds.
    - destruct funds as [|[d a] [|c2 rest]]; try reflexivity.
      destruct ((d =? hp_underlying (h_params h)) && negb (a =? 0)); reflexivity. }
  destruct hm; try discriminate Hb; cbn [hub_execute]; apply G.
Qed.

Lemma FF_bond_needs_single_coin w h self sender funds hm r :
  FF_bond hm = true ->
  hub_execute w h self sender funds hm = Some r ->
  exists a, funds = [(hp_underlying (h_params h), a)] /\ 0 < a.
Proof.
  intros Hb H. rewrite (FF_hub_execute_bond_funds _ _ _ _ _ _ Hb) in H.
  destruct funds as [|[d a] [|c2 rest]]; try discriminate H.
  destruct ((d =? hp_underlying (h_params h)) && negb (a =? 0)) eqn:E; [|discriminate H].
  apply andb_true_iff in E. destruct E as [E1 E2]. apply N.eqb_eq in E1. subst d.
  exists a. split; [reflexivity | lia].
Qed.

(** the router: all six contracts and the stubs *)
Lemma FF_call_ignores w s t m f1 f2 :
  FF_reads_funds t m = false -> call w s t m f1 = call w s t m f2.
Proof.
  unfold FF_reads_funds, call. intros H.
  destruct (t =? A_hub) eqn:Et; [|reflexivity].
  cbn [andb] in H. destruct m as [hm| | | | | |]; try reflexivity.
  destruct (w_hub w) as [h|]; cbn [bind]; [|reflexivity].
  rewrite (FF_hub_execute_ignores w h t s hm f1 f2 H). reflexivity.
Qed.

(** ** 2. the transaction *)

Lemma FF_run_tr : forall fuel w stack tr,
  run fuel w stack tr =
  match run fuel w stack [] with Some (w', ex) => Some (w', tr ++ ex) | None => None end.
Proof.
  induction fuel as [|n IH]; intros w stack tr.
  - destruct stack as [|[s m] rest]; cbn [run]; [rewrite app_nil_r|]; reflexivity.
  - destruct stack as [|[s m] rest]; cbn [run]; [rewrite app_nil_r; reflexivity|].
    destruct (step_msg w s m) as [r|]; cbn [bind]; [|reflexivity].
    rewrite (IH (fst r) (snd r ++ rest) (tr ++ [(s, m)])).
    rewrite (IH (fst r) (snd r ++ rest) ([] ++ [(s, m)])).
    destruct (run n (fst r) (snd r ++ rest) []) as [[w' ex]|]; [|reflexivity].
    rewrite <- app_assoc. reflexivity.
Qed.

Lemma FF_send_coins_nil e a b : send_coins e a b [] = Some e.
Proof. reflexivity. Qed.

Lemma FF_run_root n w s t m f :
  FF_reads_funds t m = false ->
  run (S n) w [(s, MWasm t m f)] [] =
  match send_coins (w_env w) s t f with
  | None => None
  | Some e1 =>
      match run (S n) (set_env w e1) [(s, MWasm t m [])] [] with
      | Some (w', tr0) => Some (w', (s, MWasm t m f) :: tl tr0)
      | None => None
      end
  end.
Proof.
  intros Hr. cbn [run step_msg].
  destruct (send_coins (w_env w) s t f) as [e1|]; cbn [bind]; [|reflexivity].
  change (w_env (set_env w e1)) with e1. rewrite FF_send_coins_nil. cbn [bind].
  change (set_env (set_env w e1) e1) with (set_env w e1).
  rewrite (FF_call_ignores (set_env w e1) s t m f [] Hr).
  destruct (call (set_env w e1) s t m []) as [[w1 out]|]; cbn [bind fst snd]; [|reflexivity].
  rewrite (FF_run_tr n w1 _ ([] ++ [(s, MWasm t m f)])).
  rewrite (FF_run_tr n w1 _ ([] ++ [(s, MWasm t m [])])).
  destruct (run n w1 (map (fun x => (t, x)) out ++ []) []) as [[w' ex]|]; reflexivity.
Qed.

(** the decomposition as one equation *)
Theorem FF_tx_decompose w s t m f :
  FF_reads_funds t m = false ->
  step w (OTx s t m f) =
  match send_coins (w_env w) s t f with
  | None => (w, (false, []))
  | Some e1 =>
      match step (set_env w e1) (OTx s t m []) with
      | (w', (true, tr0)) => (w', (true, (s, MWasm t m f) :: tl tr0))
      | (_, (false, _)) => (w, (false, []))
      end
  end.
Proof.
  intros Hr. cbn [step]. change tx_fuel with (S 399).
  rewrite (FF_run_root 399 w s t m f Hr).
  destruct (send_coins (w_env w) s t f) as [e1|]; [|reflexivity].
  destruct (run (S 399) (set_env w e1) [(s, MWasm t m [])] []) as [[w' tr0]|]; reflexivity.
Qed.

(** the trace of a successful transaction starts with its root message *)
Lemma FF_run_head n w s m w' tr :
  run (S n) w [(s, m)] [] = Some (w', tr) -> tr = (s, m) :: tl tr.
Proof.
  cbn [run]. destruct (step_msg w s m) as [r|]; cbn [bind]; [|intros H; discriminate H].
  rewrite FF_run_tr. destruct (run n (fst r) (snd r ++ []) []) as [[w2 ex]|]; intros H; [|discriminate H].
  inversion H; subst. reflexivity.
Qed.

Lemma FF_plain_trace_head w s t m f w' tr :
  step w (OTx s t m f) = (w', (true, tr)) -> tr = (s, MWasm t m f) :: tl tr.
Proof.
  cbn [step]. change tx_fuel with (S 399).
  destruct (run (S 399) w [(s, MWasm t m f)] []) as [[w2 tr2]|] eqn:E; intros H; [|discriminate H].
  inversion H; subst. exact (FF_run_head _ _ _ _ _ _ E).
Qed.

(** an operation never reports failure with a changed world or a non-empty trace *)
Lemma FF_tx_failed_unchanged w s t m f :
  fst (snd (step w (OTx s t m f))) = false -> step w (OTx s t m f) = (w, (false, [])).
Proof.
  cbn [step]. destruct (run tx_fuel w [(s, MWasm t m f)] []) as [[w' tr]|]; cbn [fst snd]; intros H;
    [discriminate H | reflexivity].
Qed.

Theorem FF_tx_success_iff w s t m f w' tr :
  FF_reads_funds t m = false ->
  (step w (OTx s t m f) = (w', (true, tr)) <->
   exists e1 rest,
     send_coins (w_env w) s t f = Some e1 /\
     step (set_env w e1) (OTx s t m []) = (w', (true, (s, MWasm t m []) :: rest)) /\
     tr = (s, MWasm t m f) :: rest).
Proof.
  intros Hr. rewrite (FF_tx_decompose w s t m f Hr). split.
  - intros H. destruct (send_coins (w_env w) s t f) as [e1|]; [|discriminate H].
    destruct (step (set_env w e1) (OTx s t m [])) as [w2 [b tr0]] eqn:E.
    destruct b; [|discriminate H]. inversion H; subst.
    exists e1, (tl tr0). split; [reflexivity|]. split; [|reflexivity].
    rewrite <- (FF_plain_trace_head _ _ _ _ _ _ _ E). exact E.
  - intros (e1 & rest & E1 & E2 & ->). rewrite E1, E2. reflexivity.
Qed.

Theorem FF_tx_failure_iff w s t m f :
  FF_reads_funds t m = false ->
  (fst (snd (step w (OTx s t m f))) = false <->
   send_coins (w_env w) s t f = None \/
   exists e1, send_coins (w_env w) s t f = Some e1 /\
              fst (snd (step (set_env w e1) (OTx s t m []))) = false).
Proof.
  intros Hr. rewrite (FF_tx_decompose w s t m f Hr).
  destruct (send_coins (w_env w) s t f) as [e1|].
  - destruct (step (set_env w e1) (OTx s t m [])) as [w2 [b tr0]] eqn:E. split.
    + intros H. right. exists e1. split; [reflexivity|]. rewrite E.
      destruct b; [discriminate H | reflexivity].
    + intros [H|(e2 & H1 & H2)]; [discriminate H|]. inversion H1; subst e2. rewrite E in H2.
      cbn [fst snd] in H2. subst b. reflexivity.
  - cbn [fst snd]. split; [intros _; left; reflexivity | reflexivity].
Qed.

Lemma FF_run_cannot_pay n w s t m f :
  send_coins (w_env w) s t f = None -> run (S n) w [(s, MWasm t m f)] [] = None.
Proof. intros H. cbn [run step_msg]. rewrite H. reflexivity. Qed.

(** the sender cannot pay: the transaction fails, nothing changes (also for bond messages) *)
Theorem FF_tx_cannot_pay w s t m f :
  send_coins (w_env w) s t f = None -> step w (OTx s t m f) = (w, (false, [])).
Proof.
  intros H. cbn [step]. change tx_fuel with (S 399). rewrite (FF_run_cannot_pay 399 _ _ _ _ _ H).
  reflexivity.
Qed.

(** the transfer as a bank message (BankMsg::Send rejects the empty list, hence f <> []) *)
Lemma FF_bank_step w s t f :
  f <> [] ->
  step_msg w s (MBank t f) =
  match send_coins (w_env w) s t f with Some e1 => Some (set_env w e1, []) | None => None end.
Proof.
  intros Hf. cbn [step_msg]. unfold bank_send. destruct f as [|c r]; [contradiction|].
  destruct (send_coins (w_env w) s t (c :: r)); reflexivity.
Qed.

Theorem FF_tx_decompose_bank w s t m f :
  FF_reads_funds t m = false -> f <> [] ->
  step w (OTx s t m f) =
  match step_msg w s (MBank t f) with
  | None => (w, (false, []))
  | Some (w1, _) =>
      match step w1 (OTx s t m []) with
      | (w', (true, tr0)) => (w', (true, (s, MWasm t m f) :: tl tr0))
      | (_, (false, _)) => (w, (false, []))
      end
  end.
Proof.
  intros Hr Hf. rewrite (FF_tx_decompose w s t m f Hr), (FF_bank_step w s t f Hf).
  destruct (send_coins (w_env w) s t f); reflexivity.
Qed.

(** ** the bond form *)

Lemma FF_run_bond n w s hm funds r :
  FF_bond hm = true ->
  run (S n) w [(s, MWasm A_hub (WHub hm) funds)] [] = Some r ->
  exists h a, w_hub w = Some h /\ funds = [(hp_underlying (h_params h), a)] /\ 0 < a /\
              a <= bal (w_env w) s (hp_underlying (h_params h)).
Proof.
  intros Hb. cbn [run step_msg].
  destruct (send_coins (w_env w) s A_hub funds) as [e1|] eqn:Es; cbn [bind]; [|intros H; discriminate H].
  unfold call. change (A_hub =? A_hub) with true. cbn iota.
  change (w_hub (set_env w e1)) with (w_hub w).
  destruct (w_hub w) as [h|]; cbn [bind]; [|intros H; discriminate H].
  destruct (hub_execute (set_env w e1) h A_hub s funds hm) as [r1|] eqn:Eh; cbn [bind];
    [|intros H; discriminate H].
  intros _. destruct (FF_bond_needs_single_coin _ _ _ _ _ _ _ Hb Eh) as (a & -> & Ha).
  exists h, a. split; [reflexivity|]. split; [reflexivity|]. split; [exact Ha|].
  unfold send_coins in Es. cbn [foldM send_coin bind] in Es.
  destruct (negb (a =? 0)); [|discriminate Es].
  unfold debit in Es. destruct (a <=? bal (w_env w) s (hp_underlying (h_params h))) eqn:El;
    [|discriminate Es]. apply N.leb_le. exact El.
Qed.

Theorem FF_bond_tx_single_coin w s hm funds :
  FF_bond hm = true ->
  fst (snd (step w (OTx s A_hub (WHub hm) funds))) = true ->
  exists h a, w_hub w = Some h /\ funds = [(hp_underlying (h_params h), a)] /\ 0 < a /\
              a <= bal (w_env w) s (hp_underlying (h_params h)).
Proof.
  intros Hb. cbn [step]. change tx_fuel with (S 399).
  destruct (run (S 399) w [(s, MWasm A_hub (WHub hm) funds)] []) as [r|] eqn:E.
  - intros _. exact (FF_run_bond _ _ _ _ _ _ Hb E).
  - cbn [fst snd]. intros H. discriminate H.
Qed.

(** extra coins: whatever they are, a bond with a coin list of length <> 1 fails *)
Theorem FF_bond_tx_extra_fails w s hm funds :
  FF_bond hm = true -> length funds <> 1%nat ->
  step w (OTx s A_hub (WHub hm) funds) = (w, (false, [])).
Proof.
  intros Hb Hl. apply FF_tx_failed_unchanged.
  destruct (fst (snd (step w (OTx s A_hub (WHub hm) funds)))) eqn:E; [|reflexivity].
  destruct (FF_bond_tx_single_coin w s hm funds Hb E) as (h & a & _ & -> & _). contradiction Hl. reflexivity.
Qed.

Corollary FF_bond_tx_append_fails w s hm c f extra :
  FF_bond hm = true -> extra <> [] ->
  step w (OTx s A_hub (WHub hm) ((c :: f) ++ extra)) = (w, (false, [])).
Proof.
  intros Hb He. apply FF_bond_tx_extra_fails; [exact Hb|].
  destruct extra as [|x r]; [contradiction|]. cbn [app length]. rewrite app_length. cbn [length]. lia.
Qed.

(** a single coin of another denom (or amount 0) fails as well *)
Theorem FF_bond_tx_wrong_coin_fails w s hm h d a :
  FF_bond hm = true -> w_hub w = Some h -> d <> hp_underlying (h_params h) \/ a = 0 ->
  step w (OTx s A_hub (WHub hm) [(d, a)]) = (w, (false, [])).
Proof.
  intros Hb Hh Hd. apply FF_tx_failed_unchanged.
  destruct (fst (snd (step w (OTx s A_hub (WHub hm) [(d, a)])))) eqn:E; [|reflexivity].
  destruct (FF_bond_tx_single_coin w s hm _ Hb E) as (h' & a' & Hh' & Ef & Ha & _).
  rewrite Hh in Hh'. inversion Hh'; subst h'. inversion Ef; subst. destruct Hd as [Hd|Hd]; [contradiction | lia].
Qed.

(** ** 3 (a). WithdrawUnbonded with attached coins *)

Theorem FF_withdraw_with_funds w s f :
  step w (OTx s A_hub (WHub HWithdraw) f) =
  match send_coins (w_env w) s A_hub f with
  | None => (w, (false, []))
  | Some e1 =>
      match step (set_env w e1) (OTx s A_hub (WHub HWithdraw) []) with
      | (w', (true, tr0)) => (w', (true, (s, MWasm A_hub (WHub HWithdraw) f) :: tl tr0))
      | (_, (false, _)) => (w, (false, []))
      end
  end.
Proof. apply FF_tx_decompose. reflexivity. Qed.

(** the transfer is an unsolicited transfer: it raises the hub's balance of every denom by exactly the
    attached amount of that denom (and lowers the sender's), and touches nothing else of the world *)
Lemma FF_transfer_to_hub_bal e s f e1 d :
  s <> A_hub -> send_coins e s A_hub f = Some e1 ->
  bal e1 A_hub d = bal e A_hub d + coin_amt d f /\
  bal e1 s d + coin_amt d f = bal e s d.
Proof.
  intros Hs H.
  pose proof (send_coins_bal _ _ _ _ _ H A_hub d) as E1.
  pose proof (send_coins_bal _ _ _ _ _ H s d) as E2.
  rewrite N.eqb_refl in E1, E2.
  destruct (A_hub =? s) eqn:E; [apply N.eqb_eq in E; congruence|].
  rewrite N.eqb_sym in E. rewrite E in E2. lia.
Qed.
