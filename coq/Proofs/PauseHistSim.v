(** * PauseHistSim (helper of PauseHist, C11 at world / history level, part 3b):
    worlds that differ only in the stored pause flag of the hub.

    - [hub_flag_eq h h']: equal except for the stored flag (ANY two values);
      [hub_eqv h h'] (PauseHistFlag): ... and both flags read as the same boolean;
    - [wrel R w w']: all components equal except the hubs, which are related by [R];
      [wflag := wrel hub_flag_eq], [wsim := wrel hub_eqv]  (the relation [w ~ w'] of C11h);
    - [reward_execute_flag] ... [stsei_execute_flag], [hub_execute_world]: no handler of another
      contract reads the flag; the hub handlers do not read the hub component of the world;
    - [call_nonhub]: a call to any contract other than the hub behaves identically in related worlds;
    - [call_sim], [step_msg_sim], [run_sim]: SIMULATION for [~]: same outcome, same emitted messages,
      same trace, related worlds, for every message / stack;
    - [step_sim]: for EVERY operation of the alphabet; [run_ops_sim]: for every history (with the
      list of all outcomes);
    - [wsim_queries]: all world-level hub queries agree on [~] worlds. *)
From Krp Require Import Tactics Prelude Fixed FMap Types Env Registry Cw20 Reward Dispatcher Hub Exec
     ExecP Hist HubFrame HubAdmin Auth Pause MirrorWire PauseHistFrozen PauseHistFlag.
Open Scope N_scope.

Definition hub_flag_eq (h h' : hub) : Prop := with_paused h None = with_paused h' None.

Definition opt_rel {A} (R : A -> A -> Prop) (a b : option A) : Prop :=
  match a, b with Some x, Some y => R x y | None, None => True | _, _ => False end.

Definition wrel (R : hub -> hub -> Prop) (w w' : world) : Prop :=
  opt_rel R (w_hub w) (w_hub w') /\ w_reward w = w_reward w' /\ w_disp w = w_disp w' /\
  w_reg w = w_reg w' /\ w_bsei w = w_bsei w' /\ w_stsei w = w_stsei w' /\ w_env w = w_env w'.

Definition wflag : world -> world -> Prop := wrel hub_flag_eq.
Definition wsim : world -> world -> Prop := wrel hub_eqv.

Lemma hub_flag_eq_refl h : hub_flag_eq h h. Proof. reflexivity. Qed.
Lemma hub_eqv_flag h h' : hub_eqv h h' -> hub_flag_eq h h'. Proof. intros [E _]. exact E. Qed.

Lemma hub_flag_eq_cfg h h' : hub_flag_eq h h' -> h_cfg h = h_cfg h'.
Proof. intros E. apply (f_equal h_cfg) in E. exact E. Qed.

Lemma hub_flag_eq_oldwait h h' : hub_flag_eq h h' -> h_oldwait h = h_oldwait h'.
Proof. intros E. apply (f_equal h_oldwait) in E. exact E. Qed.

Lemma opt_rel_impl {A} (R S : A -> A -> Prop) a b :
  (forall x y, R x y -> S x y) -> opt_rel R a b -> opt_rel S a b.
Proof. intros H. destruct a, b; cbn; auto. Qed.

Lemma wsim_wflag w w' : wsim w w' -> wflag w w'.
Proof.
  intros (H & Rest). split; [|exact Rest]. eapply opt_rel_impl; [|exact H]. apply hub_eqv_flag.
Qed.

Lemma wrel_env R w w' : wrel R w w' -> w_env w = w_env w'.
Proof. unfold wrel. tauto. Qed.

Lemma wrel_set_env R w w' e : wrel R w w' -> wrel R (set_env w e) (set_env w' e).
Proof. unfold wrel, set_env. cbn. tauto. Qed.

(** ** what the other contracts see of the hub: its config only *)
Lemma hub_at_cfg w w' a :
  wflag w w' -> option_map h_cfg (hub_at w a) = option_map h_cfg (hub_at w' a).
Proof.
  intros (H & _). unfold hub_at. destruct (a =? A_hub); [|reflexivity].
  destruct (w_hub w) as [h|], (w_hub w') as [h'|]; cbn in *; try contradiction; [|reflexivity].
  f_equal. apply hub_flag_eq_cfg. exact H.
Qed.

Lemma query_dispatcher_addr_flag w w' a :
  wflag w w' -> query_dispatcher_addr w a = query_dispatcher_addr w' a.
Proof.
  intros H. pose proof (hub_at_cfg _ _ a H) as E. unfold query_dispatcher_addr.
  destruct (hub_at w a), (hub_at w' a); cbn in *; try discriminate; [|reflexivity].
  inversion E as [E1]. rewrite E1. reflexivity.
Qed.

Lemma query_bsei_addr_flag w w' a :
  wflag w w' -> query_bsei_addr w a = query_bsei_addr w' a.
Proof.
  intros H. pose proof (hub_at_cfg _ _ a H) as E. unfold query_bsei_addr.
  destruct (hub_at w a), (hub_at w' a); cbn in *; try discriminate; [|reflexivity].
  inversion E as [E1]. rewrite E1. reflexivity.
Qed.

Lemma query_reward_contract_flag w w' t :
  wflag w w' -> query_reward_contract w t = query_reward_contract w' t.
Proof.
  intros (H & _ & Hd & _). unfold query_reward_contract. destruct (tk_hub t =? A_hub); [|reflexivity].
  rewrite Hd.
  destruct (w_hub w) as [h|], (w_hub w') as [h'|]; cbn in *; try contradiction; [|reflexivity].
  rewrite (hub_flag_eq_cfg _ _ H). reflexivity.
Qed.

Lemma reward_execute_flag w w' r self sender m :
  wflag w w' -> reward_execute w r self sender m = reward_execute w' r self sender m.
Proof.
  intros H. pose proof (wrel_env _ _ _ H) as He.
  destruct m; cbn [reward_execute];
    rewrite ?(query_dispatcher_addr_flag _ _ _ H), ?(query_bsei_addr_flag _ _ _ H), ?He; reflexivity.
Qed.

Lemma convert_loop_env w w' dp : w_env w = w_env w' ->
  forall coins a b c, convert_loop w dp coins a b c = convert_loop w' dp coins a b c.
Proof.
  intros He. induction coins as [|c0 cs IH]; intros a b c; cbn [convert_loop]; [reflexivity|].
  destruct (negb (existsb (N.eqb (fst c0)) (dp_denoms dp))); [apply IH|].
  destruct (fst c0 =? dp_std dp); [destruct (add128 a (snd c0)); cbn [bind]; [apply IH|reflexivity]|].
  destruct (fst c0 =? dp_bd dp); [destruct (add128 b (snd c0)); cbn [bind]; [apply IH|reflexivity]|].
  destruct (negb (snd c0 =? 0)); [|apply IH].
  destruct (dp_swap dp =? A_swap); [|reflexivity]. rewrite He.
  destruct (swap_simulate (w_env w') c0 (dp_bd dp)); cbn [bind]; [|reflexivity].
  destruct (add128 b n); cbn [bind]; [apply IH|reflexivity].
Qed.

Lemma disp_execute_flag w w' dp self sender m :
  wflag w w' -> disp_execute w dp self sender m = disp_execute w' dp self sender m.
Proof.
  intros H. pose proof (wrel_env _ _ _ H) as He.
  destruct m; cbn [disp_execute]; rewrite ?(convert_loop_env _ _ _ He), ?He; reflexivity.
Qed.

Lemma reg_execute_flag w w' g sender m :
  wflag w w' -> reg_execute w g sender m = reg_execute w' g sender m.
Proof.
  intros H. pose proof (wrel_env _ _ _ H) as He.
  destruct m; cbn [reg_execute]; unfold reg_redelegate_msgs, reg_query_validators; rewrite ?He; reflexivity.
Qed.

Lemma bsei_execute_flag w w' t sender m :
  wflag w w' -> bsei_execute w t sender m = bsei_execute w' t sender m.
Proof.
  intros H. pose proof (wrel_env _ _ _ H) as He.
  unfold bsei_execute. rewrite (query_reward_contract_flag _ _ _ H), He. reflexivity.
Qed.

Lemma stsei_execute_flag w w' t sender m :
  wflag w w' -> stsei_execute w t sender m = stsei_execute w' t sender m.
Proof.
  intros H. pose proof (wrel_env _ _ _ H) as He. unfold stsei_execute. rewrite He. reflexivity.
Qed.

(** the hub handlers do not read the hub component of the world *)
Lemma hub_execute_world w w' h self sender funds m :
  wflag w w' -> hub_execute w h self sender funds m = hub_execute w' h self sender funds m.
Proof.
  intros (_ & E1 & E2 & E3 & E4 & E5 & E6).
  destruct w as [hu rw dp rg bs st en], w' as [hu' rw' dp' rg' bs' st' en'].
  cbn in E1, E2, E3, E4, E5, E6. subst. reflexivity.
Qed.

(** ** one call *)
Section Rel.
  Variable R : hub -> hub -> Prop.
  Hypothesis R_flag : forall h h', R h h' -> hub_flag_eq h h'.

  Lemma wrel_wflag w w' : wrel R w w' -> wflag w w'.
  Proof.
    intros (H & Rest). split; [|exact Rest]. eapply opt_rel_impl; [|exact H]. exact R_flag.
  Qed.

  Lemma agree_handler {S} (c1 c2 : option S) (r1 r2 : S -> result (S * list cmsg))
        (upd1 upd2 : S -> world) :
    c1 = c2 -> (forall x, r1 x = r2 x) -> (forall x, wrel R (upd1 x) (upd2 x)) ->
    agree (wrel R) (do x <- c1; do r <- r1 x; Some (upd1 (fst r), snd r))
                   (do x <- c2; do r <- r2 x; Some (upd2 (fst r), snd r)).
  Proof.
    intros -> Hr Hu. destruct c2 as [x|]; cbn [bind agree]; [|exact I].
    rewrite Hr. destruct (r2 x) as [[s o]|]; cbn [bind agree fst snd]; [|exact I].
    split; [apply Hu | reflexivity].
  Qed.

  Lemma call_nonhub w w' sender target m funds :
    wrel R w w' -> (target =? A_hub) = false ->
    agree (wrel R) (call w sender target m funds) (call w' sender target m funds).
  Proof.
    intros Hw Ht. pose proof (wrel_wflag _ _ Hw) as Hf.
    pose proof Hw as (C1 & C2 & C3 & C4 & C5 & C6 & C7).
    unfold call. rewrite Ht.
    destruct (target =? A_reward) eqn:E2.
    { match goal with |- agree _ (bind ?a _) _ => destruct a as [rm|] end; cbn [bind]; [|exact I].
      apply agree_handler; [exact C2 | intros x; apply reward_execute_flag; exact Hf |].
      intros x. unfold wrel, set_reward. cbn. tauto. }
    destruct (target =? A_disp) eqn:E3.
    { destruct m as [| |dm| | | |]; try exact I.
      apply agree_handler; [exact C3 | intros x; apply disp_execute_flag; exact Hf |].
      intros x. unfold wrel, set_disp. cbn. tauto. }
    destruct (target =? A_reg) eqn:E4.
    { destruct m as [| | |gm| | |]; try exact I.
      apply agree_handler; [exact C4 | intros x; apply reg_execute_flag; exact Hf |].
      intros x. unfold wrel, set_reg. cbn. tauto. }
    destruct (target =? A_bsei) eqn:E5.
    { destruct m as [| | | |cm| |]; try exact I.
      apply agree_handler; [exact C5 | intros x; apply bsei_execute_flag; exact Hf |].
      intros x. unfold wrel, set_bsei. cbn. tauto. }
    destruct (target =? A_stsei) eqn:E6.
    { destruct m as [| | | |cm| |]; try exact I.
      apply agree_handler; [exact C6 | intros x; apply stsei_execute_flag; exact Hf |].
      intros x. unfold wrel, set_stsei. cbn. tauto. }
    destruct (target =? A_swap) eqn:E7.
    { destruct m as [| | | | |sm|]; try exact I. rewrite C7.
      destruct (swap_execute (w_env w') sender sm) as [e|]; cbn [bind agree]; [|exact I].
      split; [apply wrel_set_env; exact Hw | reflexivity]. }
    destruct (target =? A_airdrop) eqn:E8; [|exact I].
    cbn [agree]. split; [exact Hw | reflexivity].
  Qed.

  (** one message, given the agreement of the call it makes (if any) *)
  Lemma step_msg_rel w w' s m :
    wrel R w w' ->
    (forall to wm f e1, m = MWasm to wm f ->
       agree (wrel R) (call (set_env w e1) s to wm f) (call (set_env w' e1) s to wm f)) ->
    agree (wrel R) (step_msg w s m) (step_msg w' s m).
  Proof.
    intros Hw Hc. pose proof (wrel_env _ _ _ Hw) as He. unfold step_msg. rewrite He.
    destruct m.
    - destruct (send_coins (w_env w') s to funds) as [e1|]; cbn [bind]; [|exact I].
      specialize (Hc to m funds e1 eq_refl).
      destruct (call (set_env w e1) s to m funds) as [[x1 o1]|],
               (call (set_env w' e1) s to m funds) as [[x2 o2]|];
        cbn [agree bind fst snd] in *; try contradiction; [|exact I].
      destruct Hc as [Hx ->]. split; [exact Hx | reflexivity].
    - destruct (bank_send (w_env w') s to coins); cbn [bind agree]; [|exact I].
      split; [apply wrel_set_env; exact Hw | reflexivity].
    - destruct (do_delegate (w_env w') s v c); cbn [bind agree]; [|exact I].
      split; [apply wrel_set_env; exact Hw | reflexivity].
    - destruct (do_undelegate (w_env w') s v c); cbn [bind agree]; [|exact I].
      split; [apply wrel_set_env; exact Hw | reflexivity].
    - destruct (do_redelegate (w_env w') s src dst c); cbn [bind agree]; [|exact I].
      split; [apply wrel_set_env; exact Hw | reflexivity].
    - destruct (do_withdraw_reward (w_env w') s v); cbn [bind agree]; [|exact I].
      split; [apply wrel_set_env; exact Hw | reflexivity].
    - cbn [agree]. split; [apply wrel_set_env; exact Hw | reflexivity].
  Qed.

  (** the operations other than transactions *)
  Hypothesis R_refl : forall h, R h h.
  Hypothesis R_oldwait : forall h h' x, R h h' -> R (set_h_oldwait h x) (set_h_oldwait h' x).

  Lemma step_rel_nontx w w' o :
    wrel R w w' -> (forall s t m f, o <> OTx s t m f) ->
    snd (step w o) = snd (step w' o) /\ wrel R (fst (step w o)) (fst (step w' o)).
  Proof.
    intros Hw Ho. pose proof (wrel_env _ _ _ Hw) as He.
    pose proof Hw as (C1 & C2 & C3 & C4 & C5 & C6 & C7).
    destruct o; cbn [step]; rewrite ?He.
    - split; [reflexivity|]. unfold wrel. cbn. tauto.
    - destruct (e_now (w_env w') + dt <=? 18446744073); cbn [fst snd];
        (split; [reflexivity|]); [apply wrel_set_env|]; exact Hw.
    - destruct (ev_slash _ _ _ _ _); cbn [fst snd]; (split; [reflexivity|]); [apply wrel_set_env|]; exact Hw.
    - destruct (ev_accrue _ _ _ _ _); cbn [fst snd]; (split; [reflexivity|]); [apply wrel_set_env|]; exact Hw.
    - cbn [fst snd]. split; [reflexivity | apply wrel_set_env; exact Hw].
    - destruct (p =? 0); cbn [fst snd]; (split; [reflexivity|]); [|apply wrel_set_env]; exact Hw.
    - cbn [fst snd]. split; [reflexivity | apply wrel_set_env; exact Hw].
    - cbn [fst snd]. split; [reflexivity | apply wrel_set_env; exact Hw].
    - cbn [fst snd]. split; [reflexivity | apply wrel_set_env; exact Hw].
    - (* legacy wait *)
      destruct (w_hub w) as [h|] eqn:E1, (w_hub w') as [h'|] eqn:E2; cbn [opt_rel] in C1;
        try contradiction; cbn [fst snd]; (split; [reflexivity|]); [|exact Hw].
      rewrite (hub_flag_eq_oldwait _ _ (R_flag _ _ C1)).
      unfold wrel, set_hub. cbn [w_hub w_reward w_disp w_reg w_bsei w_stsei w_env opt_rel].
      split; [apply R_oldwait; exact C1 | tauto].
    - (* inst hub *) cbn [fst snd]. split; [reflexivity|]. unfold wrel, set_w_hub. cbn.
      split; [|tauto]. destruct (hub_instantiate _ _ _ _ _ _ _ _ _); cbn; [apply R_refl | exact I].
    - cbn [fst snd]. split; [reflexivity|]. unfold wrel, set_w_reward. cbn. tauto.
    - cbn [fst snd]. split; [reflexivity|]. unfold wrel, set_w_disp. cbn. tauto.
    - cbn [fst snd]. split; [reflexivity|]. unfold wrel, set_w_reg. cbn. tauto.
    - cbn [fst snd]. split; [reflexivity|]. unfold wrel, set_w_bsei. cbn. tauto.
    - cbn [fst snd]. split; [reflexivity|]. unfold wrel, set_w_stsei. cbn. tauto.
    - exfalso. eapply Ho. reflexivity.
  Qed.
End Rel.

(** ** SIMULATION for [~] *)
Lemma call_sim w w' sender target m funds :
  wsim w w' -> agree wsim (call w sender target m funds) (call w' sender target m funds).
Proof.
  intros Hw. destruct (target =? A_hub) eqn:Et.
  - pose proof Hw as (C1 & Rest). unfold call. rewrite Et.
    destruct m as [hm| | | | | |]; try exact I.
    destruct (w_hub w) as [h|] eqn:E1, (w_hub w') as [h'|] eqn:E2; cbn [opt_rel] in C1;
      try contradiction; cbn [bind]; [|exact I].
    rewrite <- (hub_execute_world w w' h' target sender funds hm (wsim_wflag _ _ Hw)).
    pose proof (hub_execute_sim w h h' target sender funds hm C1) as Ha.
    destruct (hub_execute w h target sender funds hm) as [[h1 o1]|],
             (hub_execute w h' target sender funds hm) as [[h2 o2]|];
      cbn [agree bind fst snd] in *; try contradiction; [|exact I].
    destruct Ha as [Hh ->]. split; [|reflexivity].
    unfold wsim, wrel, set_hub. cbn [w_hub w_reward w_disp w_reg w_bsei w_stsei w_env opt_rel].
    split; [exact Hh | exact Rest].
  - apply call_nonhub; [apply hub_eqv_flag | exact Hw | exact Et].
Qed.

Lemma step_msg_sim w w' s m :
  wsim w w' -> agree wsim (step_msg w s m) (step_msg w' s m).
Proof.
  intros Hw. apply step_msg_rel; [exact Hw|].
  intros to wm f e1 _. apply call_sim. apply wrel_set_env. exact Hw.
Qed.

Theorem run_sim : forall fuel w w' stack tr,
  wsim w w' -> agree wsim (run fuel w stack tr) (run fuel w' stack tr).
Proof.
  induction fuel as [|f IH]; intros w w' stack tr Hw.
  - destruct stack as [|[s m] rest]; cbn [run agree]; [split; [exact Hw | reflexivity] | exact I].
  - destruct stack as [|[s m] rest]; cbn [run]; [cbn [agree]; split; [exact Hw | reflexivity]|].
    pose proof (step_msg_sim w w' s m Hw) as Ha.
    destruct (step_msg w s m) as [[a o1]|], (step_msg w' s m) as [[b o2]|];
      cbn [agree bind fst snd] in *; try contradiction; [|exact I].
    destruct Ha as [Hab ->]. apply IH. exact Hab.
Qed.

Lemma hub_eqv_set_oldwait h h' x :
  hub_eqv h h' -> hub_eqv (set_h_oldwait h x) (set_h_oldwait h' x).
Proof.
  intros [E B]. split; [|exact B].
  change (set_h_oldwait (with_paused h None) x = set_h_oldwait (with_paused h' None) x).
  rewrite E. reflexivity.
Qed.

(** every operation of the alphabet: same outcome (success flag and trace), related worlds *)
Theorem step_sim w w' o :
  wsim w w' -> snd (step w o) = snd (step w' o) /\ wsim (fst (step w o)) (fst (step w' o)).
Proof.
  intros Hw. destruct o as [| | | | | | | | | | | | | | | |sender target m funds];
    try (apply step_rel_nontx;
         [apply hub_eqv_flag | apply hub_eqv_refl | apply hub_eqv_set_oldwait | exact Hw | congruence]).
  cbn [step].
  pose proof (run_sim tx_fuel w w' [(sender, MWasm target m funds)] [] Hw) as Ha.
  destruct (run tx_fuel w _ []) as [[a t1]|], (run tx_fuel w' _ []) as [[b t2]|];
    cbn [agree fst snd] in *; try contradiction.
  - destruct Ha as [Hab ->]. split; [reflexivity | exact Hab].
  - split; [reflexivity | exact Hw].
Qed.

(** the outcomes of a history *)
Fixpoint outcomes (ops : list op) (w : world) : list outcome :=
  match ops with
  | [] => []
  | o :: r => snd (step w o) :: outcomes r (fst (step w o))
  end.

Theorem run_ops_sim : forall ops w w',
  wsim w w' -> outcomes ops w = outcomes ops w' /\ wsim (run_ops ops w) (run_ops ops w').
Proof.
  induction ops as [|o ops IH]; intros w w' Hw; [split; [reflexivity | exact Hw]|].
  destruct (step_sim w w' o Hw) as [Ho Hw1]. destruct (IH _ _ Hw1) as [H1 H2].
  cbn [outcomes]. change (run_ops (o :: ops) w) with (run_ops ops (fst (step w o))).
  change (run_ops (o :: ops) w') with (run_ops ops (fst (step w' o))).
  split; [rewrite Ho, H1; reflexivity | exact H2].
Qed.

(** [~] is an equivalence *)
Lemma wsim_refl w : wsim w w.
Proof. unfold wsim, wrel. split; [|tauto]. destruct (w_hub w); cbn; [apply hub_eqv_refl | exact I]. Qed.

Lemma wsim_sym w w' : wsim w w' -> wsim w' w.
Proof.
  intros (H & E1 & E2 & E3 & E4 & E5 & E6). unfold wsim, wrel.
  split; [|repeat split; congruence].
  destruct (w_hub w), (w_hub w'); cbn in *; try contradiction; [apply hub_eqv_sym; exact H | exact I].
Qed.

Lemma wsim_trans a b c : wsim a b -> wsim b c -> wsim a c.
Proof.
  intros (H & E1 & E2 & E3 & E4 & E5 & E6) (H' & F1 & F2 & F3 & F4 & F5 & F6). unfold wsim, wrel.
  split; [|repeat split; congruence].
  destruct (w_hub a), (w_hub b), (w_hub c); cbn in *; try contradiction;
    [eapply hub_eqv_trans; eauto | exact I].
Qed.

(** all world-level queries of the hub (State, WithdrawableUnbonded, and the component reads of
    [hub_queries_eqv]) agree on [~] worlds *)
Theorem wsim_queries w w' self u :
  wsim w w' ->
  hub_query_state w self = hub_query_state w' self /\
  hub_query_withdrawable w u = hub_query_withdrawable w' u /\
  opt_rel hub_eqv (w_hub w) (w_hub w').
Proof.
  intros Hw. pose proof Hw as (C1 & _ & _ & _ & _ & _ & Cenv).
  split; [|split; [|exact C1]].
  - unfold hub_query_state.
    destruct (w_hub w) as [h|], (w_hub w') as [h'|]; cbn in *; try contradiction; [|reflexivity].
    pose proof (hub_queries_eqv w self h h' u None None C1) as (Q & _).
    rewrite Q. destruct w as [hu rw dp rg bs st en], w' as [hu' rw' dp' rg' bs' st' en'].
    destruct Hw as (_ & E1 & E2 & E3 & E4 & E5 & E6). cbn in E1, E2, E3, E4, E5, E6. subst.
    reflexivity.
  - unfold hub_query_withdrawable. rewrite Cenv.
    destruct (w_hub w) as [h|], (w_hub w') as [h'|]; cbn in *; try contradiction; [|reflexivity].
    rewrite (hub_eqv_repr _ _ C1). reflexivity.
Qed.
