(** * ParamsHistEx: non-vacuity examples and witnesses for Proofs/ParamsHist*.v (C20 at transaction /
    history level), all by computation on the concrete deployment [world0] / [genesis_ops] of
    Proofs/ExitWorld.v (owner [A_owner] = 10, alice = 11, bob = 12; hub: epoch 30, unbonding 100,
    peg fee 0.5 %, threshold 1, underlying usei, reward denom uusd; dispatcher: stSei reward denom
    usei, bSei reward denom uusd, keeper rate 5 %).

    - [params_partial_update_nonvacuous]: an accepted partial UpdateParams (only the peg fee);
    - [params_rejected_nonvacuous]: a multi-field UpdateParams with an out-of-range peg fee is
      rejected and the whole world is unchanged;
    - [thr_above_one_accepted_witness]: a threshold of 2 is ACCEPTED and stored as 1;
    - [reinst_changes_underlying_witness], [reinst_changes_stdenom_witness],
      [failed_inst_removes_witness]: the exclusions of PART 1 are necessary;
    - [hub_config_nonvacuous], [hub_accept_nonvacuous], [migrate_clears_flag_nonvacuous]: the other
      cases of [hub_params_step] / [hub_config_step] occur;
    - [disp_nonvacuous], [reward_nonvacuous], [reg_nonvacuous]: the dispatcher / reward / registry
      theorems;
    - [stretch_nonvacuous], [stretch_others_nonvacuous]: histories that change the world a lot but
      contain no parameter-changing (config-changing) operation; [stranger_nonvacuous],
      [stranger_history_nonvacuous]; [root_only_nonvacuous]; [fixed_by_instantiate_nonvacuous];
    - [history_nonvacuous]: a history from the empty world ending in an accepted partial update. *)
From Krp Require Import Tactics Prelude Fixed FMap Types Env Registry Cw20 Reward Dispatcher Hub Exec
     ExecP Hist HubFrame HubAdmin MirrorWire TokenTx AuthHistEmit AuthHistOwn ExitWorld
     ParamsHistBase ParamsHistTx ParamsHist.
Open Scope N_scope.

(** ** hub UpdateParams *)
Example params_partial_update_nonvacuous :
  let m := WHub (HParams None None (Some (D / 100)) None None None) in
  hub_params_of world0 = Some (mkHubParams 30 usei 100 (D / 200) D uusd (Some false)) /\
  exists w', step world0 (OTx A_owner A_hub m []) = (w', (true, [(A_owner, MWasm A_hub m [])])) /\
    hub_params_of w' = Some (mkHubParams 30 usei 100 (D / 100) D uusd None) /\
    hub_config_of w' = hub_config_of world0 /\ w_disp w' = w_disp world0 /\
    w_reward w' = w_reward world0 /\ w_reg w' = w_reg world0 /\ w_env w' = w_env world0.
Proof.
  cbn zeta. split; [vm_compute; reflexivity|]. eexists. split; [vm_compute; reflexivity|].
  vm_compute. repeat split; reflexivity.
Qed.

Example params_rejected_nonvacuous :
  D < D + 1 /\
  step world0 (OTx A_owner A_hub (WHub (HParams (Some 5) (Some 7) (Some (D + 1)) (Some 0) None (Some uatom))) [])
  = (world0, (false, [])).
Proof. split; [vm_compute; reflexivity|]. vm_compute. reflexivity. Qed.

(** a threshold above 1 is NOT rejected: it is accepted and clamped to 1 *)
Lemma thr_above_one_accepted_witness :
  let m := WHub (HParams None None None (Some (2 * D)) (Some false) None) in
  D < 2 * D /\
  exists w', step world0 (OTx A_owner A_hub m []) = (w', (true, [(A_owner, MWasm A_hub m [])])) /\
    hub_params_of w' = Some (mkHubParams 30 usei 100 (D / 200) D uusd (Some false)).
Proof.
  cbn zeta. split; [vm_compute; reflexivity|]. eexists. split; vm_compute; reflexivity.
Qed.

(** ** PART 1: the exclusions are necessary *)
Lemma reinst_changes_underlying_witness :
  hub_underlying world0 = Some usei /\
  hub_underlying (fst (step world0 (OInstHub A_owner 30 100 0 D updater uatom uusd))) = Some uatom /\
  hub_underlying (fst (step world0 (OReset 5))) = None.
Proof. repeat split; vm_compute; reflexivity. Qed.

Lemma reinst_changes_stdenom_witness :
  disp_std world0 = Some usei /\
  disp_std (fst (step world0 (OInstDisp A_owner A_hub A_reward uatom uusd keeper 0 A_swap A_oracle [])))
  = Some uatom.
Proof. split; vm_compute; reflexivity. Qed.

(** in the model a FAILED instantiate removes the instance (modelling artefact of [Exec.step]) *)
Lemma failed_inst_removes_witness :
  step world0 (OInstHub A_owner 30 100 (D + 1) D updater usei uusd) = (set_w_hub world0 None, (false, [])) /\
  step world0 (OInstDisp A_owner A_hub A_reward usei uusd keeper (D + 1) A_swap A_oracle [])
  = (set_w_disp world0 None, (false, [])).
Proof. split; vm_compute; reflexivity. Qed.

Example fixed_by_instantiate_nonvacuous :
  D / 200 <= D /\
  Forall keeps_hub (skipn 1 genesis_ops ++ [OAdvance 40; OInstDisp A_owner A_hub A_reward uatom uusd keeper 0 A_swap A_oracle []]) /\
  Forall keeps_disp (skipn 3 genesis_ops ++ [OAdvance 40; OInstHub A_owner 30 100 0 D updater uatom uusd]).
Proof.
  split; [vm_compute; intros C; discriminate C|]. split; repeat constructor.
Qed.

(** ** hub UpdateConfig, AcceptOwnership, MigrateUnbondWaitList *)
Example hub_config_nonvacuous :
  let m := WHub (HConfig (Some 77) None None None None None (Some 78)) in
  exists w', step world0 (OTx A_owner A_hub m [])
             = (w', (true, [(A_owner, MWasm A_hub m []); (A_hub, MSetWithdrawAddr 77)])) /\
    hub_config_of w' = Some (mkHubConfig A_owner 78 (Some 77) (Some A_reg) (Some A_bsei) (Some A_stsei)
                                         (Some A_airdrop) (Some A_reward)) /\
    hub_config_of world0 = Some (mkHubConfig A_owner updater (Some A_disp) (Some A_reg) (Some A_bsei)
                                             (Some A_stsei) (Some A_airdrop) (Some A_reward)) /\
    hub_params_of w' = hub_params_of world0 /\
    (* the owner's attempt to overwrite a set token address is rejected *)
    step world0 (OTx A_owner A_hub (WHub (HConfig None None (Some 77) None None None None)) [])
    = (world0, (false, [])).
Proof.
  cbn zeta. eexists. split; [vm_compute; reflexivity|]. repeat split; vm_compute; reflexivity.
Qed.

Example hub_accept_nonvacuous :
  let w1 := fst (step world0 (OTx A_owner A_hub (WHub (HSetOwner 42)) [])) in
  let w2 := fst (step w1 (OTx 42 A_hub (WHub HAccept) [])) in
  hub_config_of w1 = hub_config_of world0 /\ hub_nominee w1 = Some 42 /\
  hub_config_of w2 = Some (mkHubConfig 42 updater (Some A_disp) (Some A_reg) (Some A_bsei)
                                       (Some A_stsei) (Some A_airdrop) (Some A_reward)) /\
  hub_params_of w2 = hub_params_of world0.
Proof. vm_compute. repeat split; reflexivity. Qed.

(** legacy entries exist, the owner pauses, then ANYBODY (bob) migrates: the last page clears the flag *)
Example migrate_clears_flag_nonvacuous :
  let w1 := run_ops [OLegacyWait alice 1 500;
                     OTx A_owner A_hub (WHub (HParams None None None None (Some true) None)) []] world0 in
  let m := WHub (HMigrate None) in
  hub_owner w1 = Some A_owner /\ bob <> A_owner /\
  hub_params_of w1 = Some (mkHubParams 30 usei 100 (D / 200) D uusd (Some true)) /\
  exists w', step w1 (OTx bob A_hub m []) = (w', (true, [(bob, MWasm A_hub m [])])) /\
    hub_params_of w' = Some (mkHubParams 30 usei 100 (D / 200) D uusd (Some false)) /\
    (* while legacy entries exist the hub cannot be un-paused by UpdateParams *)
    step w1 (OTx A_owner A_hub (WHub (HParams None None None None None None)) []) = (w1, (false, [])).
Proof.
  cbn zeta. split; [vm_compute; reflexivity|]. split; [discriminate|]. split; [vm_compute; reflexivity|].
  eexists. split; [vm_compute; reflexivity|]. split; vm_compute; reflexivity.
Qed.

(** ** dispatcher *)
Example disp_nonvacuous :
  let m1 := WDisp (DConfig None (Some 55) None None None (Some (D / 10))) in
  w_disp world0 = Some (mkDisp A_owner A_hub A_reward usei uusd keeper (D / 20) A_swap [usei; uusd; uatom]
                               A_oracle A_owner) /\
  (exists w', step world0 (OTx A_owner A_disp m1 []) = (w', (true, [(A_owner, MWasm A_disp m1 [])])) /\
     w_disp w' = Some (mkDisp A_owner A_hub 55 usei uusd keeper (D / 10) A_swap [usei; uusd; uatom]
                              A_oracle A_owner) /\
     hub_params_of w' = hub_params_of world0 /\ w_env w' = w_env world0) /\
  (* out-of-range rate: rejected although the other field is fine; naming the stSei denom: rejected *)
  step world0 (OTx A_owner A_disp (WDisp (DConfig None (Some 55) None None None (Some (D + 1)))) [])
  = (world0, (false, [])) /\
  step world0 (OTx A_owner A_disp (WDisp (DConfig None None (Some usei) None None None)) [])
  = (world0, (false, [])) /\
  disp_config_of (fst (step world0 (OTx A_owner A_disp (WDisp (DSwapDenom ujunk true)) [])))
  = Some (A_hub, A_reward, usei, uusd, keeper, D / 20, A_swap, [usei; uusd; uatom; ujunk], A_oracle) /\
  disp_config_of (fst (step world0 (OTx A_owner A_disp (WDisp (DSwapDenom uatom false)) [])))
  = Some (A_hub, A_reward, usei, uusd, keeper, D / 20, A_swap, [usei; uusd], A_oracle) /\
  disp_config_of (fst (step world0 (OTx A_owner A_disp (WDisp (DSwapContract 66)) [])))
  = Some (A_hub, A_reward, usei, uusd, keeper, D / 20, 66, [usei; uusd; uatom], A_oracle) /\
  disp_config_of (fst (step world0 (OTx A_owner A_disp (WDisp (DOracle 67)) [])))
  = Some (A_hub, A_reward, usei, uusd, keeper, D / 20, A_swap, [usei; uusd; uatom], 67) /\
  (* somebody else: rejected *)
  step world0 (OTx alice A_disp (WDisp (DOracle 67)) []) = (world0, (false, [])).
Proof.
  cbn zeta. split; [vm_compute; reflexivity|]. split.
  - eexists. split; [vm_compute; reflexivity|]. repeat split; vm_compute; reflexivity.
  - repeat split; vm_compute; reflexivity.
Qed.

(** ** reward and registry *)
Example reward_nonvacuous :
  let m1 := WReward (RConfig None (Some ujunk) None) in
  reward_config_of world0 = Some (A_hub, uusd, A_swap, [uatom]) /\
  (exists w', step world0 (OTx A_owner A_reward m1 []) = (w', (true, [(A_owner, MWasm A_reward m1 [])])) /\
     reward_config_of w' = Some (A_hub, ujunk, A_swap, [uatom])) /\
  reward_config_of (fst (step world0 (OTx A_owner A_reward (WReward (RSwapDenom usei true)) [])))
  = Some (A_hub, uusd, A_swap, [uatom; usei]) /\
  step world0 (OTx alice A_reward (WReward (RSwapDenom usei true)) []) = (world0, (false, [])).
Proof.
  cbn zeta. split; [vm_compute; reflexivity|]. split.
  - eexists. split; vm_compute; reflexivity.
  - split; vm_compute; reflexivity.
Qed.

Example reg_nonvacuous :
  let m1 := WReg (GConfig (Some 99)) in
  reg_hub_of world0 = Some A_hub /\
  (exists w', step world0 (OTx A_owner A_reg m1 []) = (w', (true, [(A_owner, MWasm A_reg m1 [])])) /\
     reg_hub_of w' = Some 99) /\
  fst (step world0 (OTx A_owner A_reg (WReg (GConfig None)) [])) = world0 /\
  step world0 (OTx alice A_reg m1 []) = (world0, (false, [])).
Proof.
  cbn zeta. split; [vm_compute; reflexivity|]. split.
  - eexists. split; vm_compute; reflexivity.
  - split; vm_compute; reflexivity.
Qed.

(** ** stretches, strangers, roots *)

(** a history that bonds, lets time pass, distributes rewards, changes the hub's CONFIG and the
    dispatcher's rate, re-instantiates the reward contract — but contains no parameter-changing
    operation of the hub: the hub's parameter record is the same at the end *)
Definition quiet_ops : list op :=
  [OTx alice A_hub (WHub HBond) [(usei, 5000)]; OAdvance 10; OAccrue 0 usei 90000;
   OTx updater A_hub (WHub (HUpdateGlobal 0)) [];
   OTx A_owner A_hub (WHub (HConfig None None None None None None (Some 78))) [];
   OTx A_owner A_disp (WDisp (DConfig None None None None None (Some (D / 10)))) [];
   OInstReward alice A_hub uusd A_swap []].

Example stretch_nonvacuous :
  Forall (fun o => ~ hub_params_op o) quiet_ops /\
  Forall keeps_hub quiet_ops /\ Forall keeps_disp quiet_ops /\
  option_map tk_supply (w_bsei (run_ops quiet_ops world0)) <> option_map tk_supply (w_bsei world0) /\
  hub_config_of (run_ops quiet_ops world0) <> hub_config_of world0 /\
  hub_params_of (run_ops quiet_ops world0) = hub_params_of world0.
Proof.
  split; [repeat constructor; cbn; tauto|]. split; [repeat constructor|]. split; [repeat constructor|].
  split; [vm_compute; intros C; discriminate C|]. split; [vm_compute; intros C; discriminate C|].
  vm_compute. reflexivity.
Qed.

(** alice is not the owner: whatever she sends (here the owner-only UpdateParams, to the hub) the
    parameters stay; her transaction is rejected *)
Example stranger_nonvacuous :
  hub_owner world0 <> Some alice /\
  (forall lim, WHub (HParams None None (Some 0) None None None) <> WHub (HMigrate lim)) /\
  step world0 (OTx alice A_hub (WHub (HParams None None (Some 0) None None None)) [])
  = (world0, (false, [])).
Proof.
  split; [vm_compute; intros C; discriminate C|]. split; [intros lim C; discriminate C|].
  vm_compute. reflexivity.
Qed.

(** in a transaction with a two-message trace the owner-only message is the root *)
Example root_only_nonvacuous :
  let m := WHub (HConfig (Some 77) None None None None None None) in
  exists w' tr, step world0 (OTx A_owner A_hub m []) = (w', (true, tr)) /\
    tr = [] ++ (A_owner, MWasm A_hub m []) :: [(A_hub, MSetWithdrawAddr 77)] /\ admin_msg m = true.
Proof. cbn zeta. eexists. eexists. split; [vm_compute; reflexivity|]. split; reflexivity. Qed.

(** a history from the empty world ending with an accepted partial update: every omitted field,
    including the threshold, keeps its value; the supplied one is stored *)
Example history_nonvacuous :
  let m := WHub (HParams None (Some 200) None None (Some false) None) in
  exists w', step (run_ops genesis_ops (empty_world 100)) (OTx A_owner A_hub m [])
             = (w', (true, [(A_owner, MWasm A_hub m [])])) /\
    hub_params_of w' = Some (mkHubParams 30 usei 200 (D / 200) D uusd (Some false)).
Proof. cbn zeta. eexists. split; vm_compute; reflexivity. Qed.

(** the same for the other four records: a history containing an UpdateParams of the hub, user
    transactions and environment events, but no config-changing operation *)
Definition quiet_ops2 : list op :=
  [OTx alice A_hub (WHub HBond) [(usei, 5000)]; OAdvance 10; OAccrue 0 usei 90000;
   OTx updater A_hub (WHub (HUpdateGlobal 0)) [];
   OTx A_owner A_hub (WHub (HParams (Some 40) None None None (Some false) None)) [];
   OTx A_owner A_reg (WReg (GAdd 5)) []; OTx A_owner A_reg (WReg (GConfig None)) [];
   OInstBsei alice A_hub []].

Example stretch_others_nonvacuous :
  Forall (fun o => ~ hub_config_op o) quiet_ops2 /\ Forall (fun o => ~ disp_config_op o) quiet_ops2 /\
  Forall (fun o => ~ reward_config_op o) quiet_ops2 /\ Forall (fun o => ~ reg_hub_op o) quiet_ops2 /\
  hub_params_of (run_ops quiet_ops2 world0) <> hub_params_of world0 /\
  option_map rg_vals (w_reg (run_ops quiet_ops2 world0)) <> option_map rg_vals (w_reg world0) /\
  hub_config_of (run_ops quiet_ops2 world0) = hub_config_of world0 /\
  disp_config_of (run_ops quiet_ops2 world0) = disp_config_of world0 /\
  reward_config_of (run_ops quiet_ops2 world0) = reward_config_of world0 /\
  reg_hub_of (run_ops quiet_ops2 world0) = reg_hub_of world0.
Proof.
  split; [repeat constructor; cbn; tauto|]. split; [repeat constructor; cbn; tauto|].
  split; [repeat constructor; cbn; tauto|]. split; [repeat constructor; cbn; tauto|].
  split; [vm_compute; intros C; discriminate C|]. split; [vm_compute; intros C; discriminate C|].
  repeat split; vm_compute; reflexivity.
Qed.

(** strangers (alice, bob, the updater: neither owner nor nominee) transact with every contract,
    time passes, rewards accrue, other contracts are re-instantiated: the world changes, the hub's
    parameters, owner and nominee do not *)
Example stranger_history_nonvacuous :
  let ops := [OTx alice A_hub (WHub HBond) [(usei, 5000)]; OAdvance 10; OAccrue 0 usei 90000;
              OTx updater A_hub (WHub (HUpdateGlobal 0)) [];
              OTx alice A_hub (WHub (HParams None None (Some 0) None None None)) [];
              OTx bob A_disp (WDisp (DOracle 5)) []; OInstReward alice A_hub uusd A_swap []] in
  hub_owner world0 = Some A_owner /\ hub_nominee world0 = Some A_owner /\
  Forall (stranger_op A_owner A_owner) ops /\
  option_map tk_supply (w_bsei (run_ops ops world0)) <> option_map tk_supply (w_bsei world0) /\
  hub_params_of (run_ops ops world0) = hub_params_of world0.
Proof.
  cbn zeta. split; [vm_compute; reflexivity|]. split; [vm_compute; reflexivity|].
  split.
  - repeat constructor; cbn; try discriminate; try (intros lim C; discriminate C); auto.
  - split; [vm_compute; intros C; discriminate C|vm_compute; reflexivity].
Qed.
