(** * RateHistBase (helper of Proofs/RateHist.v, property C04 at history level).

    What the State query reports, as a function of the few data it really depends on; the relation
    "the reported rates and the claims are the same in two worlds"; its use to transport [SoundRates].

    - [rate4 s]            : the four rate-relevant fields of a hub state (bsei rate, stsei rate, pools);
    - [rview w]            : [rate4] of what [hub_query_state w A_hub] reports ([None] if the query fails);
    - [qas4] / [qas4_spec] : the State query as a pure function of stored rates and pools, open-batch
                             requests, "has the hub a delegation entry", its delegated total, supplies;
    - [rd w] / [rd_quiet]  : the rate data of a world; equal rate data => [Quiet];
    - [Quiet w w']         : [rview] and both claims coincide in [w] and [w'];
    - [qas4_idem] / [slashing_quiet] : the synchronisation is idempotent: CheckSlashing (the stored state
                             becomes the reported one) does not change what is reported;
    - [RateMono], [SoundNext], [Step] and their composition with [Quiet];
    - [MinterOk], [Good]   : the minter of both tokens is the hub; wiring + EntWf + MinterOk. *)
From Krp Require Import Tactics Prelude Fixed FMap Types Env Registry Cw20 Reward Dispatcher Hub Exec
     ExecP Hist Inv RegistryP HubFrame HubAdmin Cw20P MirrorWire MirrorP HubRates
     BooksEnv BooksHub BooksP IndexRun RateTxLegs RateTx RateTxConvert.
Open Scope N_scope.

(** ** the rate view *)
Definition rate4 (s : hub_state) : N * N * N * N := (hs_ber s, hs_ser s, hs_bb s, hs_bst s).
Definition rview (w : world) : option (N * N * N * N) := option_map rate4 (hub_query_state w A_hub).

Definition nilb {A} (l : list A) : bool := match l with [] => true | _ => false end.

Definition qas4 (ber ser bb bst reqb reqst : N) (nodel : bool) (act sb ss : result N)
  : result (N * N * N * N) :=
  if nodel then Some (ber, ser, bb, bst) else
  do actual <- act;
  do total <- add128 bb bst;
  if total =? 0 then Some (ber, ser, bb, bst) else
  do bi <- sb;
  do si <- ss;
  do p <- (if actual <? total then
             do r <- ratio bb total; do b' <- mulU actual r; do s' <- sub128 actual b'; Some (b', s')
           else Some (bb, bst));
  do ber' <- exchange_rate (fst p) bi reqb;
  do ser' <- exchange_rate (snd p) si reqst;
  Some (ber', ser', fst p, snd p).

Ltac rh_split :=
  cbn [bind option_map fst snd hs_bb hs_bst hs_ber hs_ser set_bonded set_rates rate4];
  try reflexivity;
  match goal with
  | |- context [bind ?m _] => destruct m
  | |- context [if ?b then _ else _] => destruct b
  end.

Lemma qas4_spec w self h :
  option_map rate4 (query_actual_state w self h) =
  qas4 (hs_ber (h_state h)) (hs_ser (h_state h)) (hs_bb (h_state h)) (hs_bst (h_state h))
       (cb_reqb (h_batch h)) (cb_reqst (h_batch h))
       (nilb (all_delegations (w_env w) self)) (actual_bonded w self h)
       (hub_bsei_supply w h) (hub_stsei_supply w h).
Proof.
  unfold query_actual_state, qas4.
  destruct (all_delegations (w_env w) self) as [|d0 dr]; cbn [nilb]; [reflexivity|].
  destruct (actual_bonded w self h) as [actual|]; cbn [bind option_map]; [|reflexivity].
  destruct (add128 (hs_bb (h_state h)) (hs_bst (h_state h))) as [total|]; cbn [bind option_map]; [|reflexivity].
  destruct (total =? 0); [reflexivity|].
  destruct (hub_bsei_supply w h) as [bi|]; cbn [bind option_map]; [|reflexivity].
  destruct (hub_stsei_supply w h) as [si|]; cbn [bind option_map]; [|reflexivity].
  destruct (actual <? total).
  - destruct (ratio (hs_bb (h_state h)) total) as [r|]; cbn [bind option_map]; [|reflexivity].
    destruct (mulU actual r) as [b'|]; cbn [bind option_map]; [|reflexivity].
    destruct (sub128 actual b') as [s'|]; cbn [bind option_map]; [|reflexivity].
    cbn [fst snd hs_bb hs_bst set_bonded].
    destruct (exchange_rate b' bi (cb_reqb (h_batch h))) as [x|]; cbn [bind option_map]; [|reflexivity].
    destruct (exchange_rate s' si (cb_reqst (h_batch h))) as [y|]; cbn [bind option_map]; reflexivity.
  - cbn [bind fst snd].
    destruct (exchange_rate (hs_bb (h_state h)) bi (cb_reqb (h_batch h))) as [x|]; cbn [bind option_map]; [|reflexivity].
    destruct (exchange_rate (hs_bst (h_state h)) si (cb_reqst (h_batch h))) as [y|]; cbn [bind option_map]; reflexivity.
Qed.

(** the hub's view of its stake, totalised *)
Lemma foldM_add128_narrow (l : list (val * N)) : forall a, a <= U128MAX ->
  foldM (fun acc d => add128 acc (snd d)) l a = narrow128 (a + sumN (map snd l)).
Proof.
  induction l as [|x l IH]; intros a Ha; cbn [foldM map sumN].
  - rewrite N.add_0_r. unfold narrow128, fits128.
    assert (E : (a <=? U128MAX) = true) by lia. rewrite E. reflexivity.
  - unfold add128 at 1, narrow128 at 1, fits128.
    destruct (a + snd x <=? U128MAX) eqn:E; cbn [bind].
    + rewrite IH by lia. f_equal. lia.
    + unfold narrow128, fits128.
      assert (E2 : (a + (snd x + sumN (map snd l)) <=? U128MAX) = false) by lia. rewrite E2. reflexivity.
Qed.

Lemma actual_bonded_total w self h :
  actual_bonded w self h =
  if hp_underlying (h_params h) =? usei then narrow128 (delegated (w_env w) self) else Some 0.
Proof.
  unfold actual_bonded, delegated. destruct (hp_underlying (h_params h) =? usei); [|reflexivity].
  rewrite foldM_add128_narrow by (vm_compute; discriminate). reflexivity.
Qed.

(** supplies *)
Definition supply_at (sb ss : option N) (a : addr) : option N :=
  if a =? A_bsei then sb else if a =? A_stsei then ss else None.

Lemma qts_supply_at w a :
  query_total_supply w a =
  supply_at (option_map tk_supply (w_bsei w)) (option_map tk_supply (w_stsei w)) a.
Proof.
  unfold query_total_supply, token_at, supply_at.
  destruct (a =? A_bsei); [destruct (w_bsei w); reflexivity|].
  destruct (a =? A_stsei); [destruct (w_stsei w); reflexivity|reflexivity].
Qed.

(** ** the rate data of a world *)
Definition hub_rd (h : hub) :=
  (rate4 (h_state h), cb_reqb (h_batch h), cb_reqst (h_batch h),
   hc_bsei (h_cfg h), hc_stsei (h_cfg h), hp_underlying (h_params h)).

Definition rd (w : world) :=
  (option_map hub_rd (w_hub w), option_map tk_supply (w_bsei w), option_map tk_supply (w_stsei w),
   nilb (all_delegations (w_env w) A_hub), delegated (w_env w) A_hub).

Definition rv_hub (h : hub) (sb ss : option N) (nd : bool) (dt : N) : result (N * N * N * N) :=
  qas4 (hs_ber (h_state h)) (hs_ser (h_state h)) (hs_bb (h_state h)) (hs_bst (h_state h))
       (cb_reqb (h_batch h)) (cb_reqst (h_batch h)) nd
       (if hp_underlying (h_params h) =? usei then narrow128 dt else Some 0)
       (do a <- hc_bsei (h_cfg h); supply_at sb ss a)
       (do a <- hc_stsei (h_cfg h); supply_at sb ss a).

Lemma rview_rd w :
  rview w = match w_hub w with
            | Some h => rv_hub h (option_map tk_supply (w_bsei w)) (option_map tk_supply (w_stsei w))
                               (nilb (all_delegations (w_env w) A_hub)) (delegated (w_env w) A_hub)
            | None => None
            end.
Proof.
  unfold rview, hub_query_state. destruct (w_hub w) as [h|]; cbn [bind option_map]; [|reflexivity].
  rewrite qas4_spec, actual_bonded_total. unfold rv_hub, hub_bsei_supply, hub_stsei_supply.
  destruct (hc_bsei (h_cfg h)) as [a|], (hc_stsei (h_cfg h)) as [b|]; cbn [bind];
    rewrite ?qts_supply_at; reflexivity.
Qed.

Lemma rv_hub_ext h h' sb ss nd dt : hub_rd h' = hub_rd h -> rv_hub h' sb ss nd dt = rv_hub h sb ss nd dt.
Proof.
  unfold hub_rd, rate4, rv_hub. intros E. inversion E as [[E1 E2 E3 E4 E5 E6 E7 E8 E9]].
  rewrite E1, E2, E3, E4, E5, E6, E7, E8, E9. reflexivity.
Qed.

Lemma rd_rview w w' : rd w' = rd w -> rview w' = rview w.
Proof.
  rewrite !rview_rd. unfold rd. intros E. inversion E as [[E1 E2 E3 E4 E5]].
  destruct (w_hub w) as [h|], (w_hub w') as [h'|]; cbn [option_map] in E1; try discriminate; [|reflexivity].
  assert (E1' : hub_rd h' = hub_rd h) by congruence.
  rewrite E2, E3, E4, E5. apply rv_hub_ext. exact E1'.
Qed.

Lemma rd_claims w w' : rd w' = rd w -> w_claims_b w' = w_claims_b w /\ w_claims_st w' = w_claims_st w.
Proof.
  unfold rd, w_claims_b, w_claims_st, claims_b, claims_st. intros E. inversion E as [[E1 E2 E3 E4 E5]].
  destruct (w_hub w) as [h|], (w_hub w') as [h'|]; cbn [option_map] in E1; try discriminate;
    [|split; reflexivity].
  unfold hub_rd in E1. inversion E1 as [[F1 F2 F3 F4 F5 F6]].
  destruct (w_bsei w) as [tb|], (w_bsei w') as [tb'|]; cbn [option_map] in E2; try discriminate;
  destruct (w_stsei w) as [ts|], (w_stsei w') as [ts'|]; cbn [option_map] in E3; try discriminate;
    try (inversion E2); try (inversion E3); split; congruence.
Qed.

(** ** Quiet: reported rates, pools and claims are the same *)
Definition Quiet (w w' : world) : Prop :=
  rview w' = rview w /\ w_claims_b w' = w_claims_b w /\ w_claims_st w' = w_claims_st w.

Lemma Quiet_refl w : Quiet w w.
Proof. repeat split. Qed.

Lemma Quiet_trans a b c : Quiet a b -> Quiet b c -> Quiet a c.
Proof. intros (A1 & A2 & A3) (B1 & B2 & B3). repeat split; congruence. Qed.

Lemma rd_quiet w w' : rd w' = rd w -> Quiet w w'.
Proof. intros E. split; [apply rd_rview; exact E | apply rd_claims; exact E]. Qed.

Lemma rd_set_env w e : e_del e = e_del (w_env w) -> rd (set_env w e) = rd w.
Proof.
  intros He. unfold rd. cbn [w_hub w_bsei w_stsei w_env set_env].
  rewrite (all_delegations_same_del (w_env w) e A_hub He), (delegated_same_del (w_env w) e A_hub He).
  reflexivity.
Qed.

Lemma quiet_set_env w e : e_del e = e_del (w_env w) -> Quiet w (set_env w e).
Proof. intros He. apply rd_quiet. apply rd_set_env. exact He. Qed.

Lemma rview_some w x : rview w = Some x -> exists s, hub_query_state w A_hub = Some s /\ rate4 s = x.
Proof.
  unfold rview. destruct (hub_query_state w A_hub) as [s|]; cbn [option_map]; [|discriminate].
  intros E. inversion E. eauto.
Qed.

Lemma rview_of_query w s : hub_query_state w A_hub = Some s -> rview w = Some (rate4 s).
Proof. unfold rview. intros ->. reflexivity. Qed.

Lemma quiet_query w w' s' :
  Quiet w w' -> hub_query_state w' A_hub = Some s' ->
  exists s, hub_query_state w A_hub = Some s /\ rate4 s = rate4 s'.
Proof.
  intros (Q1 & _) Hq. apply rview_of_query in Hq. rewrite Q1 in Hq. apply rview_some. exact Hq.
Qed.

Lemma quiet_query_fwd w w' s :
  Quiet w w' -> hub_query_state w A_hub = Some s ->
  exists s', hub_query_state w' A_hub = Some s' /\ rate4 s' = rate4 s.
Proof.
  intros (Q1 & _) Hq. apply rview_of_query in Hq. rewrite <- Q1 in Hq. apply rview_some. exact Hq.
Qed.

Lemma rate4_inv s s' : rate4 s = rate4 s' ->
  hs_ber s = hs_ber s' /\ hs_ser s = hs_ser s' /\ hs_bb s = hs_bb s' /\ hs_bst s = hs_bst s'.
Proof. unfold rate4. intros E. inversion E. auto. Qed.

Lemma SoundRates_quiet w w' : Quiet w w' -> SoundRates w -> SoundRates w'.
Proof.
  intros HQ HS s' Hq'. destruct (quiet_query _ _ _ HQ Hq') as (s & Hq & E).
  apply rate4_inv in E. destruct E as (E1 & E2 & E3 & E4).
  destruct HQ as (_ & C1 & C2). destruct (HS s Hq) as [A B].
  rewrite C1, C2, <- E1, <- E2, <- E3, <- E4. split; assumption.
Qed.

(** ** the synchronisation is idempotent *)
Lemma qas4_idem ber ser bb bst reqb reqst nd act sb ss ber' ser' bb' bst' :
  qas4 ber ser bb bst reqb reqst nd act sb ss = Some (ber', ser', bb', bst') ->
  qas4 ber' ser' bb' bst' reqb reqst nd act sb ss = Some (ber', ser', bb', bst').
Proof.
  unfold qas4. destruct nd; [intros H; inversion H; reflexivity|].
  destruct act as [actual|]; cbn [bind]; [|discriminate].
  destruct (add128 bb bst) as [total|] eqn:Et; cbn [bind]; [|discriminate].
  apply add128_some in Et. destruct Et as [-> Hfit].
  destruct (bb + bst =? 0) eqn:Ez.
  - intros H. inversion H; subst. unfold add128, narrow128, fits128.
    assert (E : (bb' + bst' <=? U128MAX) = true) by lia. rewrite E. cbn [bind]. rewrite Ez. reflexivity.
  - destruct sb as [bi|]; cbn [bind]; [|discriminate].
    destruct ss as [si|]; cbn [bind]; [|discriminate].
    destruct (actual <? bb + bst) eqn:Elt.
    + destruct (ratio bb (bb + bst)) as [r|]; cbn [bind]; [|discriminate].
      destruct (mulU actual r) as [b1|]; cbn [bind]; [|discriminate].
      destruct (sub128 actual b1) as [s1|] eqn:Es; cbn [bind fst snd]; [|discriminate].
      apply sub128_some in Es. destruct Es as [-> Hle].
      destruct (exchange_rate b1 bi reqb) as [x|] eqn:Ex; cbn [bind]; [|discriminate].
      destruct (exchange_rate (actual - b1) si reqst) as [y|] eqn:Ey; cbn [bind]; [|discriminate].
      intros H. inversion H; subst ber' ser' bb' bst'; clear H.
      unfold add128, narrow128, fits128.
      assert (E : (b1 + (actual - b1) <=? U128MAX) = true) by lia. rewrite E. cbn [bind].
      destruct (b1 + (actual - b1) =? 0); [reflexivity|].
      assert (E2 : (actual <? b1 + (actual - b1)) = false) by lia. rewrite E2.
      cbn [bind fst snd]. rewrite Ex, Ey. reflexivity.
    + cbn [bind fst snd].
      destruct (exchange_rate bb bi reqb) as [x|] eqn:Ex; cbn [bind]; [|discriminate].
      destruct (exchange_rate bst si reqst) as [y|] eqn:Ey; cbn [bind]; [|discriminate].
      intros H. inversion H; subst ber' ser' bb' bst'; clear H.
      unfold add128, narrow128, fits128.
      assert (E : (bb + bst <=? U128MAX) = true) by lia. rewrite E. cbn [bind]. rewrite Ez, Elt.
      cbn [bind fst snd]. rewrite Ex, Ey. reflexivity.
Qed.

Lemma rd_set_hub_other w h h' : w_hub w = Some h -> hub_rd h' = hub_rd h -> rd (set_hub w h') = rd w.
Proof.
  intros Hh E. unfold rd. cbn [w_hub w_bsei w_stsei w_env set_hub]. rewrite Hh. cbn [option_map].
  rewrite E. reflexivity.
Qed.

(** CheckSlashing: the stored state becomes the reported one; nothing reported changes *)
Lemma slashing_quiet w h h1 :
  w_hub w = Some h -> slashing w A_hub h = Some h1 -> Quiet w (set_hub w h1).
Proof.
  intros Hh Hs. unfold slashing in Hs. bind_inv Hs as s1 Hq. inversion Hs; subst h1; clear Hs.
  split; [|split].
  - assert (Hv : rview w = Some (rate4 s1)) by (apply rview_of_query; unfold hub_query_state; rewrite Hh; exact Hq).
    rewrite Hv. rewrite rview_rd, Hh in Hv. rewrite rview_rd.
    cbn [w_hub w_bsei w_stsei w_env set_hub]. unfold rv_hub in *.
    cbn [h_state h_batch h_cfg h_params set_h_state].
    unfold rate4 in *. apply qas4_idem in Hv. exact Hv.
  - unfold w_claims_b. cbn [w_hub w_bsei set_hub]. rewrite Hh. reflexivity.
  - unfold w_claims_st. cbn [w_hub w_stsei set_hub]. rewrite Hh. reflexivity.
Qed.

(** ** one step of a history: what is to be shown *)
Definition RateMono (w w' : world) : Prop :=
  forall s s', hub_query_state w A_hub = Some s -> hub_query_state w' A_hub = Some s' ->
    (0 < w_claims_b w' -> hs_ber s <= hs_ber s') /\ (0 < w_claims_st w' -> hs_ser s <= hs_ser s').

Definition SoundNext (w' : world) : Prop :=
  w_claims_b w' <= LIM -> w_claims_st w' <= LIM -> 0 < w_claims_b w' \/ 0 < w_claims_st w' -> SoundRates w'.

Definition Step (w w' : world) : Prop := RateMono w w' /\ SoundNext w'.

Lemma quiet_step w w' : Quiet w w' -> SoundRates w -> Step w w'.
Proof.
  intros HQ HS. split.
  - intros s s' Hq Hq'. destruct (quiet_query _ _ _ HQ Hq') as (s0 & Hq0 & E).
    rewrite Hq in Hq0. inversion Hq0; subst s0. apply rate4_inv in E. destruct E as (E1 & E2 & _).
    split; intros _; lia.
  - intros _ _ _. eapply SoundRates_quiet; eauto.
Qed.

Lemma step_quiet_r w w1 w2 : Step w w1 -> Quiet w1 w2 -> Step w w2.
Proof.
  intros [HM HN] HQ. split.
  - intros s s2 Hq Hq2. destruct (quiet_query _ _ _ HQ Hq2) as (s1 & Hq1 & E).
    apply rate4_inv in E. destruct E as (E1 & E2 & _). destruct HQ as (_ & C1 & C2).
    destruct (HM s s1 Hq Hq1) as [M1 M2]. rewrite C1, C2, <- E1, <- E2. split; assumption.
  - intros L1 L2 Hpos. pose proof HQ as (_ & C1 & C2). rewrite C1 in L1, Hpos. rewrite C2 in L2, Hpos.
    eapply SoundRates_quiet; [exact HQ|]. apply HN; assumption.
Qed.

Lemma quiet_step_l w0 w w' : Quiet w0 w -> Step w w' -> Step w0 w'.
Proof.
  intros HQ [HM HN]. split; [|exact HN].
  intros s0 s' Hq0 Hq'. destruct (quiet_query_fwd _ _ _ HQ Hq0) as (s & Hq & E).
  apply rate4_inv in E. destruct E as (E1 & E2 & _).
  destruct (HM s s' Hq Hq') as [M1 M2]. rewrite <- E1, <- E2. split; assumption.
Qed.

(** ** the minter of both tokens is the hub *)
Definition minter_ok (t : token) : Prop := forall m cap, tk_minter t = Some (m, cap) -> m = A_hub.

Definition MinterOk (w : world) : Prop :=
  (forall t, w_bsei w = Some t -> minter_ok t) /\ (forall t, w_stsei w = Some t -> minter_ok t).

Definition Good (w : world) : Prop := Wired w /\ EntWf w /\ MinterOk w.

Lemma MinterOk_same w w' : w_bsei w' = w_bsei w -> w_stsei w' = w_stsei w -> MinterOk w -> MinterOk w'.
Proof. unfold MinterOk. intros -> ->. auto. Qed.
