(** * RateHistInert (helper of Proofs/RateHist.v, property C04 at history level).

    The messages that can never move a reported rate, whoever sends them, whatever they spawn.

    - [inert (sender, msg)] : the syntactic class.  NOT inert are exactly: hub Bond / BondForStSei /
      UpdateGlobalIndex, hub BondRewards sent by the dispatcher, hub Receive{Unbond|Convert} sent by a
      token, cw20 Send / SendFrom to the hub (with a non-junk hook), cw20 BurnFrom, cw20 Mint / Burn /
      UpdateMinter sent by the hub, dispatcher DispatchRewards, registry RemoveValidator /
      Redelegations, and Delegate / Undelegate staking messages sent by the hub;
    - [inert_step]   : in a wired world with hub-minted tokens an inert message leaves the reported
                       rates, the pools and both claims alone ([Quiet]), keeps [EntWf] and [MinterOk]
                       (and the wiring unless it is one of the four UpdateConfig messages), and
                       emits only inert messages;
    - [inert_forest] : hence a whole forest of inert messages is [Quiet]. *)
From Krp Require Import Tactics Prelude Fixed FMap Types Env Registry Cw20 Reward Dispatcher Hub Exec
     ExecP Hist Inv RegistryP HubFrame HubAdmin Cw20P MirrorWire MirrorP HubRates
     BooksEnv BooksHub BooksP IndexRun RateTxLegs RateTx RateTxConvert RateHistBase.
Open Scope N_scope.

(** ** the class *)
Definition is_junk (h : hook) : bool := match h with HkJunk => true | _ => false end.

Definition inert_hub (s : addr) (hm : hub_msg) : bool :=
  match hm with
  | HBond | HBondSt | HUpdateGlobal _ => false
  | HBondRewards => negb (s =? A_disp)
  | HReceive _ _ hk => is_junk hk || (negb (s =? A_bsei) && negb (s =? A_stsei))
  | _ => true
  end.

Definition inert_cw20 (s : addr) (cm : cw20_msg) : bool :=
  match cm with
  | CSend c _ hk => negb (c =? A_hub) || is_junk hk
  | CSendFrom _ c _ hk => negb (c =? A_hub) || is_junk hk
  | CBurn _ | CMint _ _ | CUpdMinter _ => negb (s =? A_hub)
  | CBurnFrom _ _ => false
  | _ => true
  end.

Definition inert_wasm (s to : addr) (wm : wasm_msg) : bool :=
  if to =? A_hub then match wm with WHub hm => inert_hub s hm | _ => true end
  else if (to =? A_bsei) || (to =? A_stsei) then match wm with WCw20 cm => inert_cw20 s cm | _ => true end
  else if to =? A_disp then match wm with WDisp DDispatch => false | _ => true end
  else if to =? A_reg then match wm with WReg (GRemove _) | WReg (GRedelegations _) => false | _ => true end
  else true.

Definition inert (sm : addr * cmsg) : bool :=
  match snd sm with
  | MWasm to wm _ => inert_wasm (fst sm) to wm
  | MDelegate _ _ | MUndelegate _ _ => negb (fst sm =? A_hub)
  | _ => true
  end.

Definition Inert (l : list (addr * cmsg)) : Prop := Forall (fun x => inert x = true) l.

(** messages that are inert whatever their target *)
Lemma inert_reward_msg s to rm f : inert (s, MWasm to (WReward rm) f) = true.
Proof.
  unfold inert, inert_wasm. cbn [fst snd].
  destruct (to =? A_hub); [reflexivity|]. destruct ((to =? A_bsei) || (to =? A_stsei)); [reflexivity|].
  destruct (to =? A_disp); [reflexivity|]. destruct (to =? A_reg); reflexivity.
Qed.

Lemma inert_swap_msg s to sm f : inert (s, MWasm to (WSwap sm) f) = true.
Proof.
  unfold inert, inert_wasm. cbn [fst snd].
  destruct (to =? A_hub); [reflexivity|]. destruct ((to =? A_bsei) || (to =? A_stsei)); [reflexivity|].
  destruct (to =? A_disp); [reflexivity|]. destruct (to =? A_reg); reflexivity.
Qed.

Lemma inert_opaque_msg s to f : inert (s, MWasm to WOpaque f) = true.
Proof.
  unfold inert, inert_wasm. cbn [fst snd].
  destruct (to =? A_hub); [reflexivity|]. destruct ((to =? A_bsei) || (to =? A_stsei)); [reflexivity|].
  destruct (to =? A_disp); [reflexivity|]. destruct (to =? A_reg); reflexivity.
Qed.

Lemma inert_receive_msg s c u a hk :
  negb (c =? A_hub) || is_junk hk = true -> inert (s, m_receive c u a hk) = true.
Proof.
  intros H. unfold inert, inert_wasm, m_receive. cbn [fst snd].
  destruct (c =? A_hub) eqn:E.
  - cbn [negb orb] in H. cbn [inert_hub]. rewrite H. reflexivity.
  - destruct ((c =? A_bsei) || (c =? A_stsei)); [reflexivity|].
    destruct (c =? A_disp); [reflexivity|]. destruct (c =? A_reg); reflexivity.
Qed.

Lemma inert_check_slashing_msg s : inert (s, m_check_slashing A_hub) = true.
Proof. reflexivity. Qed.

Lemma inert_send_junk_msg s tok c b f : inert (s, MWasm tok (WCw20 (CSend c b HkJunk)) f) = true.
Proof.
  unfold inert, inert_wasm. cbn [fst snd].
  destruct (tok =? A_hub); [reflexivity|].
  destruct ((tok =? A_bsei) || (tok =? A_stsei)); [cbn [inert_cw20 is_junk]; apply orb_true_r|].
  destruct (tok =? A_disp); [reflexivity|]. destruct (tok =? A_reg); reflexivity.
Qed.

Ltac inert_list :=
  repeat first [ apply Forall_nil
               | apply Forall_cons;
                 [first [reflexivity | apply inert_reward_msg | apply inert_swap_msg | apply inert_opaque_msg
                        | apply inert_send_junk_msg]|]
               | apply Forall_app; split ].

Lemma Inert_tag_all (to : addr) (o : list cmsg) :
  (forall m, In m o -> inert (to, m) = true) -> Inert (map (fun x => (to, x)) o).
Proof.
  intros H. apply Forall_forall. intros sm Hi. apply in_map_iff in Hi. destruct Hi as (m & <- & Hm).
  apply H. exact Hm.
Qed.

Lemma Inert_tag (to : addr) (o : list cmsg) :
  Forall (fun m => inert (to, m) = true) o -> Inert (map (fun x => (to, x)) o).
Proof. intros H. apply Inert_tag_all. apply Forall_forall. exact H. Qed.

(** ** tokens *)
Lemma bsei_execute_inert w t s cm t' out :
  tk_hub t = A_hub -> minter_ok t ->
  bsei_execute w t s cm = Some (t', out) -> inert_cw20 s cm = true ->
  tk_supply t' = tk_supply t /\ tk_minter t' = tk_minter t /\
  Forall (fun m => inert (A_bsei, m) = true) out.
Proof.
  intros Hh Hm H Hi. pose proof (bsei_execute_out _ _ _ _ _ _ H) as Ho.
  unfold bsei_execute in H. destruct cm; cbn [inert_cw20] in Hi.
  - bind_inv H as rc Hrc. check_inv H as Hz. bind_inv H as t1 Hmv. inversion H; subst t1 out; clear H.
    apply tok_move_spec in Hmv. destruct Hmv as (_ & _ & S & M & _).
    split; [exact S|]. split; [exact M|]. unfold m_dec, m_inc. inert_list.
  - bind_inv H as rc Hrc. rewrite Hh in H.
    assert (E : (s =? A_hub) = false) by (destruct (s =? A_hub); [discriminate Hi|reflexivity]).
    rewrite E in H. discriminate H.
  - bind_inv H as rc Hrc. bind_inv H as t1 Hmt. apply tok_mint_spec in Hmt.
    destruct Hmt as (_ & (cap & Hcap) & _). apply Hm in Hcap. subst s. discriminate Hi.
  - bind_inv H as rc Hrc. check_inv H as Hz. bind_inv H as t1 Hmv. inversion H; subst t1 out; clear H.
    apply tok_move_spec in Hmv. destruct Hmv as (_ & _ & S & M & _).
    split; [exact S|]. split; [exact M|]. unfold m_dec, m_inc.
    apply Forall_cons; [apply inert_reward_msg|]. apply Forall_cons; [apply inert_reward_msg|].
    apply Forall_cons; [apply inert_receive_msg; exact Hi|constructor].
  - bind_inv H as t1 Ha. inversion H; subst t1 out; clear H. apply tok_inc_allow_frame in Ha.
    destruct Ha as (_ & S & M & _). split; [exact S|]. split; [exact M|constructor].
  - bind_inv H as t1 Ha. inversion H; subst t1 out; clear H. apply tok_dec_allow_frame in Ha.
    destruct Ha as (_ & S & M & _). split; [exact S|]. split; [exact M|constructor].
  - bind_inv H as rc Hrc. bind_inv H as t1 Hd. bind_inv H as t2 Hmv. inversion H; subst t2 out; clear H.
    apply deduct_allowance_spec in Hd. destruct Hd as (a0 & _ & _ & _ & _ & _ & S1 & M1 & _).
    apply tok_move_spec in Hmv. destruct Hmv as (_ & _ & S & M & _).
    split; [congruence|]. split; [congruence|]. unfold m_dec, m_inc. inert_list.
  - discriminate Hi.
  - bind_inv H as rc Hrc. bind_inv H as t1 Hd. bind_inv H as t2 Hmv. inversion H; subst t2 out; clear H.
    apply deduct_allowance_spec in Hd. destruct Hd as (a0 & _ & _ & _ & _ & _ & S1 & M1 & _).
    apply tok_move_spec in Hmv. destruct Hmv as (_ & _ & S & M & _).
    split; [congruence|]. split; [congruence|]. unfold m_dec, m_inc.
    apply Forall_cons; [apply inert_reward_msg|]. apply Forall_cons; [apply inert_reward_msg|].
    apply Forall_cons; [apply inert_receive_msg; exact Hi|constructor].
  - discriminate H.
Qed.

Lemma stsei_execute_inert w t s cm t' out :
  tk_hub t = A_hub -> minter_ok t ->
  stsei_execute w t s cm = Some (t', out) -> inert_cw20 s cm = true ->
  tk_supply t' = tk_supply t /\ tk_minter t' = tk_minter t /\
  Forall (fun m => inert (A_stsei, m) = true) out.
Proof.
  intros Hh Hm H Hi. unfold stsei_execute in H. destruct cm; cbn [inert_cw20] in Hi.
  - check_inv H as Hz. bind_inv H as t1 Hmv. inversion H; subst t1 out; clear H.
    apply tok_move_spec in Hmv. destruct Hmv as (_ & _ & S & M & _).
    split; [exact S|]. split; [exact M|constructor].
  - rewrite Hh in H.
    assert (E : (s =? A_hub) = false) by (destruct (s =? A_hub); [discriminate Hi|reflexivity]).
    rewrite E in H. discriminate H.
  - bind_inv H as t1 Hmt. apply tok_mint_spec in Hmt.
    destruct Hmt as (_ & (cap & Hcap) & _). apply Hm in Hcap. subst s. discriminate Hi.
  - check_inv H as Hz. bind_inv H as t1 Hmv. inversion H; subst t1 out; clear H.
    apply tok_move_spec in Hmv. destruct Hmv as (_ & _ & S & M & _).
    split; [exact S|]. split; [exact M|].
    apply Forall_cons; [apply inert_receive_msg; exact Hi|constructor].
  - bind_inv H as t1 Ha. inversion H; subst t1 out; clear H. apply tok_inc_allow_frame in Ha.
    destruct Ha as (_ & S & M & _). split; [exact S|]. split; [exact M|constructor].
  - bind_inv H as t1 Ha. inversion H; subst t1 out; clear H. apply tok_dec_allow_frame in Ha.
    destruct Ha as (_ & S & M & _). split; [exact S|]. split; [exact M|constructor].
  - bind_inv H as t1 Hd. bind_inv H as t2 Hmv. inversion H; subst t2 out; clear H.
    apply deduct_allowance_spec in Hd. destruct Hd as (a0 & _ & _ & _ & _ & _ & S1 & M1 & _).
    apply tok_move_spec in Hmv. destruct Hmv as (_ & _ & S & M & _).
    split; [congruence|]. split; [congruence|constructor].
  - discriminate Hi.
  - bind_inv H as t1 Hd. bind_inv H as t2 Hmv. inversion H; subst t2 out; clear H.
    apply deduct_allowance_spec in Hd. destruct Hd as (a0 & _ & _ & _ & _ & _ & S1 & M1 & _).
    apply tok_move_spec in Hmv. destruct Hmv as (_ & _ & S & M & _).
    split; [congruence|]. split; [congruence|].
    apply Forall_cons; [apply inert_receive_msg; exact Hi|constructor].
  - destruct (tk_minter t) as [[mn cap]|] eqn:Em; [|discriminate H]. check_inv H as Hs.
    apply N.eqb_eq in Hs. subst mn. apply Hm in Em. subst s. discriminate Hi.
Qed.

(** ** reward contract, dispatcher, registry: what they emit *)
Lemma reward_execute_inert w r self sender m r' out :
  reward_execute w r self sender m = Some (r', out) -> Forall (fun x => inert (A_reward, x) = true) out.
Proof.
  intros H. destruct m; cbn [reward_execute] in H.
  - bind_inv H as all Hall. bind_inv H as rewards Hrw. bind_inv H as whole Hwh.
    bind_inv H as decimals Hdec. check_inv H as Hnz. bind_inv H as prev Hprev.
    inversion H; subst. inert_list.
  - check_inv H as Hs. inversion H; subst. constructor.
  - check_inv H as Hs. inversion H; subst. constructor.
  - check_inv H as Hs. inversion H; subst. constructor.
  - bind_inv H as dp Hdp. check_inv H as Hs. inversion H; subst.
    apply Forall_flat_map_all. intros c.
    destruct (existsb (N.eqb (fst c)) (rw_denoms r') && negb (snd c =? 0)); inert_list.
  - bind_inv H as dp Hdp. check_inv H as Hs.
    destruct (rw_total r =? 0); [inversion H; subst; constructor|].
    bind_inv H as claimed Hc. bind_inv H as q Hq. bind_inv H as gi Hgi. inversion H; subst. constructor.
  - bind_inv H as tok Htok. check_inv H as Hs. bind_inv H as rewards Hrw. bind_inv H as pend Hpend.
    bind_inv H as b Hb. bind_inv H as tot Htot. inversion H; subst. constructor.
  - bind_inv H as tok Htok. check_inv H as Hs. check_inv H as Hle.
    bind_inv H as rewards Hrw. bind_inv H as pend Hpend.
    bind_inv H as b Hb. bind_inv H as tot Htot. inversion H; subst. constructor.
  - check_inv H as Hs. inversion H; subst. constructor.
Qed.

Lemma convert_loop_inert w dp : forall coins tsei tusd msgs r,
  Forall (fun x => inert (A_disp, x) = true) msgs -> convert_loop w dp coins tsei tusd msgs = Some r ->
  Forall (fun x => inert (A_disp, x) = true) (snd r).
Proof.
  induction coins as [|c cs IH]; intros tsei tusd msgs r Hm H; cbn [convert_loop] in H.
  - inversion H; subst. exact Hm.
  - destruct (negb (existsb (N.eqb (fst c)) (dp_denoms dp))); [eapply IH; eauto|].
    destruct (fst c =? dp_std dp); [bind_inv H as t Ht; eapply IH; eauto|].
    destruct (fst c =? dp_bd dp); [bind_inv H as t Ht; eapply IH; eauto|].
    destruct (negb (snd c =? 0)); [|eapply IH; eauto].
    check_inv H as Hsw. bind_inv H as ret Hret. bind_inv H as t Ht.
    eapply IH; [|exact H]. apply Forall_app. split; [exact Hm|]. unfold m_swap. inert_list.
Qed.

Lemma disp_execute_inert w dp self sender m dp' out :
  disp_execute w dp self sender m = Some (dp', out) -> m <> DDispatch ->
  Forall (fun x => inert (A_disp, x) = true) out.
Proof.
  intros H Hne. destruct m; cbn [disp_execute] in H; try congruence.
  - check_inv H as Hs. bind_inv H as r Hr. destruct r as [[tsei tusd] msgs].
    apply convert_loop_inert in Hr; [|constructor]. cbn [snd] in Hr.
    check_inv H as Hor. bind_inv H as s2u Hs2u. bind_inv H as u2s Hu2s. bind_inv H as info Hinfo.
    destruct info as [[od oa] ask]. inversion H; subst.
    destruct (oa =? 0); [exact Hr|]. apply Forall_app. split; [exact Hr|]. unfold m_swap. inert_list.
  - check_inv H as Hs. check_inv H as Hstd. check_inv H as Hrate. inversion H; subst. constructor.
  - check_inv H as Hs. inversion H; subst. constructor.
  - check_inv H as Hs. inversion H; subst. constructor.
  - check_inv H as Hs. inversion H; subst. constructor.
  - check_inv H as Hs. inversion H; subst. constructor.
  - check_inv H as Hs. inversion H; subst. constructor.
Qed.

Lemma reg_execute_inert w g sender m g' out :
  reg_execute w g sender m = Some (g', out) ->
  (forall v, m <> GRemove v) -> (forall v, m <> GRedelegations v) -> out = [].
Proof.
  intros H N1 N2. destruct m; cbn [reg_execute] in H.
  - check_inv H as Hs. inversion H; subst. reflexivity.
  - exfalso. eapply N1. reflexivity.
  - check_inv H as Hs. inversion H; subst. reflexivity.
  - exfalso. eapply N2. reflexivity.
  - check_inv H as Hs. inversion H; subst. reflexivity.
  - check_inv H as Hs. inversion H; subst. reflexivity.
Qed.

(** ** the hub *)
Lemma process_withdraw_rate_rd h historical b h' :
  process_withdraw_rate h historical b = Some h' -> hub_rd h' = hub_rd h.
Proof.
  unfold process_withdraw_rate. intros H.
  destruct (release_group _ _ _ _) as [|g0 gr]; [inversion H; subst; reflexivity|].
  bind_inv H as tot Htot. destruct tot as [st_total b_total].
  bind_inv H as change Hch. check_inv H as Hneg.
  bind_inv H as both Hboth. bind_inv H as b_ratio Hbr. bind_inv H as b_actual Hba.
  bind_inv H as b_sl Hbsl. bind_inv H as st_actual Hsta. bind_inv H as st_sl Hstsl.
  bind_inv H as hist' Hhist. inversion H; subst. reflexivity.
Qed.

Lemma execute_withdraw_rd w h self sender h' out :
  execute_withdraw w h self sender = Some (h', out) ->
  hub_rd h' = hub_rd h /\ exists c, out = [MBank sender c].
Proof.
  unfold execute_withdraw. intros H.
  bind_inv H as historical Hh. bind_inv H as h1 Hh1. apply process_withdraw_rate_rd in Hh1.
  bind_inv H as fa Hfa. destruct fa as [amount batches]. check_inv H as Hnz.
  bind_inv H as prev Hprev. inversion H; subst. split; [|eauto].
  rewrite <- Hh1. reflexivity.
Qed.

Lemma hub_execute_inert w h s funds hm h' o :
  hc_disp (h_cfg h) = Some A_disp -> hc_bsei (h_cfg h) = Some A_bsei -> hc_stsei (h_cfg h) = Some A_stsei ->
  hub_execute w h A_hub s funds hm = Some (h', o) -> inert_hub s hm = true ->
  (hm = HCheckSlashing /\ o = [] /\ slashing w A_hub h = Some h') \/
  (is_pricing hm = false /\ hub_rd h' = hub_rd h /\ Forall (fun m => inert (A_hub, m) = true) o).
Proof.
  intros Wd Wb Ws H Hi. unfold hub_execute in H. destruct hm; cbn [inert_hub] in Hi; try discriminate Hi.
  - (* BondRewards by somebody else *)
    exfalso. check_inv H as Hp. unfold execute_bond in H. rewrite Wd in H. cbn [bind] in H.
    assert (E : (s =? A_disp) = false) by (destruct (s =? A_disp); [discriminate Hi|reflexivity]).
    rewrite E in H. discriminate H.
  - (* Withdraw *)
    right. check_inv H as Hp. apply execute_withdraw_rd in H. destruct H as (E & c & ->).
    split; [reflexivity|]. split; [exact E|]. inert_list.
  - (* CheckSlashing *)
    left. check_inv H as Hp. bind_inv H as h1 Hh1. inversion H; subst. auto.
  - (* Params *)
    right. apply update_params_spec in H. destruct H as (_ & _ & _ & -> & ->).
    split; [reflexivity|]. split; [reflexivity|constructor].
  - (* Config *)
    right. check_inv H as Hp. pose proof H as H0. apply update_config_spec in H0.
    destruct H0 as (_ & Cb & Cs & Ep & _ & _ & Est & Eb & _ & _ & _ & _ & _ & _ & Ebs & Ess & _).
    split; [reflexivity|]. split.
    + unfold hub_rd. rewrite Est, Eb, Ep, Ebs, Ess.
      assert (Xb : bsei = None) by (destruct bsei; [rewrite Cb in Wb by discriminate; discriminate Wb|reflexivity]).
      assert (Xs : stsei = None) by (destruct stsei; [rewrite Cs in Ws by discriminate; discriminate Ws|reflexivity]).
      rewrite Xb, Xs. reflexivity.
    + unfold execute_update_config in H. check_inv H as C1. check_inv H as C2. check_inv H as C3.
      inversion H; subst. destruct disp; inert_list.
  - right. check_inv H as Hp. check_inv H as Hs. inversion H; subst.
    split; [reflexivity|]. split; [reflexivity|constructor].
  - right. check_inv H as Hp. check_inv H as Hs. inversion H; subst.
    split; [reflexivity|]. split; [reflexivity|constructor].
  - (* RedelProxy *)
    right. check_inv H as Hp. bind_inv H as reg Hreg. check_inv H as Hs. inversion H; subst.
    split; [reflexivity|]. split; [reflexivity|].
    apply Forall_forall. intros m Hm. apply in_map_iff in Hm. destruct Hm as (p & <- & _). reflexivity.
  - (* SwapHook *)
    right. check_inv H as Hp. check_inv H as Hs. bind_inv H as t Ht. check_inv H as Hb. inversion H; subst.
    split; [reflexivity|]. split; [reflexivity|]. inert_list.
  - (* ClaimAirdrop *)
    right. check_inv H as Hp. bind_inv H as reg Hreg. check_inv H as Hs. inversion H; subst.
    split; [reflexivity|]. split; [reflexivity|]. inert_list.
  - (* Migrate *)
    right. destruct (paused h); [|discriminate H]. inversion H; subst.
    pose proof (migrate_params h limit) as M. cbn zeta in M.
    destruct M as (_ & M2 & _ & _ & _ & _ & M7 & _ & M9 & M10 & _).
    split; [reflexivity|]. split; [|constructor]. unfold hub_rd. rewrite M2, M7, M9, M10. reflexivity.
  - (* Receive from somebody else, or with a junk hook *)
    exfalso. check_inv H as Hp. unfold receive_cw20 in H. rewrite Wb, Ws in H. cbn [bind] in H.
    destruct h0; cbn [is_junk orb] in Hi; try discriminate H;
      apply andb_true_iff in Hi; destruct Hi as [I1 I2];
      destruct (s =? A_bsei); try discriminate I1; destruct (s =? A_stsei); try discriminate I2; discriminate H.
Qed.

(** ** the rate data under changes that do not concern it *)
Lemma rd_ext w w' :
  w_hub w' = w_hub w ->
  option_map tk_supply (w_bsei w') = option_map tk_supply (w_bsei w) ->
  option_map tk_supply (w_stsei w') = option_map tk_supply (w_stsei w) ->
  e_del (w_env w') = e_del (w_env w) -> rd w' = rd w.
Proof.
  intros E1 E2 E3 E4. unfold rd. rewrite E1, E2, E3.
  rewrite (all_delegations_same_del (w_env w) (w_env w') A_hub E4),
          (delegated_same_del (w_env w) (w_env w') A_hub E4). reflexivity.
Qed.

Lemma rd_ext_hub w w' h h' :
  w_hub w = Some h -> w_hub w' = Some h' -> hub_rd h' = hub_rd h ->
  option_map tk_supply (w_bsei w') = option_map tk_supply (w_bsei w) ->
  option_map tk_supply (w_stsei w') = option_map tk_supply (w_stsei w) ->
  e_del (w_env w') = e_del (w_env w) -> rd w' = rd w.
Proof.
  intros Hh Hh' E1 E2 E3 E4. unfold rd. rewrite Hh, Hh', E2, E3. cbn [option_map]. rewrite E1.
  rewrite (all_delegations_same_del (w_env w) (w_env w') A_hub E4),
          (delegated_same_del (w_env w) (w_env w') A_hub E4). reflexivity.
Qed.

(** hub-signed or foreign staking messages that are inert *)
Lemma rd_env_deleg w e' :
  all_delegations e' A_hub = all_delegations (w_env w) A_hub -> rd (set_env w e') = rd w.
Proof.
  intros E. unfold rd, delegated. cbn [w_hub w_bsei w_stsei w_env set_env]. rewrite E. reflexivity.
Qed.

Lemma redelegate_rd w s a b c e' :
  DelWf (w_env w) -> do_redelegate (w_env w) s a b c = Some e' -> rd (set_env w e') = rd w.
Proof.
  intros Hwf H. pose proof H as H0. apply do_redelegate_spec in H0; [|exact Hwf].
  destruct H0 as (_ & Hpos & _ & Hle & Hsrc & Hdst & _ & _ & _ & Hdg & Hoth & Hent & _).
  destruct (N.eq_dec s A_hub) as [->|Hne].
  - unfold rd. cbn [w_hub w_bsei w_stsei w_env set_env]. rewrite Hdg. f_equal. f_equal.
    assert (N1 : all_delegations e' A_hub <> []).
    { intros E. rewrite all_delegations_nil in E. apply Hent. apply E. apply is_val_In. exact Hdst. }
    assert (N2 : all_delegations (w_env w) A_hub <> []).
    { intros E. rewrite all_delegations_nil in E. specialize (E a (is_val_In _ Hsrc)).
      unfold dv in Hle. rewrite E in Hle. lia. }
    destruct (all_delegations e' A_hub); [congruence|].
    destruct (all_delegations (w_env w) A_hub); [congruence|]. reflexivity.
  - apply rd_env_deleg. apply Hoth. congruence.
Qed.

(** ** EntWf under an inert message *)
Lemma inert_no_hub_du s m : inert (s, m) = true -> hub_du (s, m) = false.
Proof.
  unfold inert, hub_du. cbn [fst snd]. intros H.
  destruct m; cbn [is_du]; try apply andb_false_r.
  - destruct (s =? A_hub); [discriminate H|reflexivity].
  - destruct (s =? A_hub); [discriminate H|reflexivity].
Qed.

(** ** one inert message *)
Theorem inert_step w s m w1 out :
  Good w -> inert (s, m) = true -> step_msg w s m = Some (w1, out) ->
  Quiet w w1 /\ EntWf w1 /\ MinterOk w1 /\ (plain m -> Wired w1) /\ Inert out.
Proof.
  intros (HW & HE & HM) Hi H.
  assert (HWp : plain m -> Wired w1) by (intros Hp; eapply step_msg_wired; eauto).
  destruct (Wired_inv _ HW) as (h & r & d & g & tb & ts & Hh & Hr & Hd & Hg & Hb & Hs &
                                Wd & Wr & Wb & Ws & Wu & _ & _ & _ & _ & _ & Wtb & Wts).
  destruct HM as [HMb HMs]. pose proof (HMb tb Hb) as Mb. pose proof (HMs ts Hs) as Ms.
  (* EntWf: generic two-phase argument, except for CheckSlashing *)
  assert (HP1 : Phase1 w [(s, m)]).
  { split; [exact HE|]. constructor; [apply inert_no_hub_du; exact Hi|constructor]. }
  pose proof (step_msg_phase1 _ _ _ _ _ _ HP1 H) as [PA PB]. rewrite app_nil_r in PA, PB.
  pose proof H as H0. apply step_msg_inv in H0.
  destruct H0 as [e' -> -> Hn | to wm funds e1 o -> Hsend Hc ->].
  - (* environment messages *)
    assert (HEnt : EntWf (set_env w e')).
    { apply PB. unfold is_pricing_msg. cbn [snd]. destruct m; try reflexivity. exfalso. eapply Hn. reflexivity. }
    assert (HMin : MinterOk (set_env w e')) by (split; assumption).
    split; [|split; [exact HEnt|split; [exact HMin|split; [exact HWp|constructor]]]].
    pose proof (step_msg_env_del _ _ _ _ _ H) as Hd0. cbn [w_env set_env] in Hd0.
    destruct m.
    + exfalso. eapply Hn. reflexivity.
    + apply quiet_set_env. exact Hd0.
    + apply rd_quiet. apply rd_env_deleg. apply do_delegate_spec in Hd0.
      destruct Hd0 as (_ & _ & _ & _ & _ & _ & _ & Hoth & _). apply Hoth.
      unfold inert in Hi. cbn [fst snd] in Hi. intros E. rewrite E, N.eqb_refl in Hi. discriminate Hi.
    + apply rd_quiet. apply rd_env_deleg. apply do_undelegate_spec in Hd0; [|apply HE].
      destruct Hd0 as (_ & _ & _ & _ & _ & _ & _ & Hoth & _). apply Hoth.
      unfold inert in Hi. cbn [fst snd] in Hi. intros E. rewrite E, N.eqb_refl in Hi. discriminate Hi.
    + apply rd_quiet. eapply redelegate_rd; [apply HE|exact Hd0].
    + apply quiet_set_env. exact Hd0.
    + apply quiet_set_env. exact Hd0.
  - (* calls *)
    apply send_coins_static in Hsend. destruct Hsend as (_ & _ & Hdel1 & _).
    unfold inert in Hi. cbn [fst snd] in Hi.
    destruct Hc as [h0 hm h' -> -> Hw He -> | r0 rm r' -> Hrm Hw He -> | d0 dm d' -> -> Hw He ->
                   | g0 gm g' -> -> Hw He -> | t cm t' -> -> Hw He -> | t cm t' -> -> Hw He ->
                   | sm e' -> -> He -> -> | -> -> ->];
      cbn [w_hub w_reward w_disp w_reg w_bsei w_stsei set_env] in *.
    + (* hub *)
      rewrite Hh in Hw. inversion Hw; subst h0; clear Hw.
      unfold inert_wasm in Hi. change (A_hub =? A_hub) with true in Hi. cbv iota in Hi.
      destruct (hub_execute_inert _ _ _ _ _ _ _ Wd Wb Ws He Hi) as [(-> & -> & Hsl)|(Hnp & Hrd & Ho)].
      * assert (HQ : Quiet w (set_hub (set_env w e1) h')).
        { eapply Quiet_trans; [apply quiet_set_env; exact Hdel1|].
          apply (slashing_quiet (set_env w e1) h h'); [exact Hh|exact Hsl]. }
        split; [exact HQ|].
        split.
        { destruct (BooksS_nil (set_hub (set_env w e1) h')) as [B1 _].
          destruct (B1 (PA eq_refl)) as [A B]. split; [exact A|apply Books_Ent; exact B]. }
        split; [split; assumption|]. split; [exact HWp|constructor].
      * split.
        { apply rd_quiet. eapply rd_ext_hub; [exact Hh|reflexivity|exact Hrd|reflexivity|reflexivity|exact Hdel1]. }
        split.
        { apply PB. unfold is_pricing_msg. cbn [snd]. rewrite Hnp. apply andb_false_r. }
        split; [split; assumption|]. split; [exact HWp|]. apply Inert_tag. exact Ho.
    + (* reward *)
      split; [apply rd_quiet; apply rd_ext; try reflexivity; exact Hdel1|].
      split.
      { apply PB. unfold is_pricing_msg. cbn [snd]. destruct wm; reflexivity. }
      split; [split; assumption|]. split; [exact HWp|]. apply Inert_tag.
      eapply reward_execute_inert; eauto.
    + (* dispatcher *)
      assert (Hnd : dm <> DDispatch).
      { unfold inert_wasm in Hi. change (A_disp =? A_hub) with false in Hi.
        change ((A_disp =? A_bsei) || (A_disp =? A_stsei)) with false in Hi.
        change (A_disp =? A_disp) with true in Hi. cbv iota in Hi. intros ->. discriminate Hi. }
      split; [apply rd_quiet; apply rd_ext; try reflexivity; exact Hdel1|].
      split; [apply PB; reflexivity|].
      split; [split; assumption|]. split; [exact HWp|]. apply Inert_tag.
      eapply disp_execute_inert; eauto.
    + (* registry *)
      assert (Ho : o = []).
      { unfold inert_wasm in Hi. change (A_reg =? A_hub) with false in Hi.
        change ((A_reg =? A_bsei) || (A_reg =? A_stsei)) with false in Hi.
        change (A_reg =? A_disp) with false in Hi. change (A_reg =? A_reg) with true in Hi. cbv iota in Hi.
        eapply reg_execute_inert; [exact He| |]; intros v ->; discriminate Hi. }
      subst o.
      split; [apply rd_quiet; apply rd_ext; try reflexivity; exact Hdel1|].
      split; [apply PB; reflexivity|].
      split; [split; assumption|]. split; [exact HWp|constructor].
    + (* bSei *)
      rewrite Hb in Hw. inversion Hw; subst t; clear Hw.
      unfold inert_wasm in Hi. change (A_bsei =? A_hub) with false in Hi.
      change ((A_bsei =? A_bsei) || (A_bsei =? A_stsei)) with true in Hi. cbv iota in Hi.
      destruct (bsei_execute_inert _ _ _ _ _ _ Wtb Mb He Hi) as (S & M & Ho).
      split.
      { apply rd_quiet. apply rd_ext; cbn [w_hub w_bsei w_stsei w_env set_bsei set_env]; try reflexivity;
          [rewrite Hb; cbn [option_map]; rewrite S; reflexivity|exact Hdel1]. }
      split; [apply PB; reflexivity|].
      split.
      { split; cbn [w_bsei w_stsei set_bsei set_env]; [|exact HMs].
        intros t0 E. inversion E; subst t0. unfold minter_ok. rewrite M. exact Mb. }
      split; [exact HWp|]. apply Inert_tag. exact Ho.
    + (* stSei *)
      rewrite Hs in Hw. inversion Hw; subst t; clear Hw.
      unfold inert_wasm in Hi. change (A_stsei =? A_hub) with false in Hi.
      change ((A_stsei =? A_bsei) || (A_stsei =? A_stsei)) with true in Hi. cbv iota in Hi.
      destruct (stsei_execute_inert _ _ _ _ _ _ Wts Ms He Hi) as (S & M & Ho).
      split.
      { apply rd_quiet. apply rd_ext; cbn [w_hub w_bsei w_stsei w_env set_stsei set_env]; try reflexivity;
          [rewrite Hs; cbn [option_map]; rewrite S; reflexivity|exact Hdel1]. }
      split; [apply PB; reflexivity|].
      split.
      { split; cbn [w_bsei w_stsei set_stsei set_env]; [exact HMb|].
        intros t0 E. inversion E; subst t0. unfold minter_ok. rewrite M. exact Ms. }
      split; [exact HWp|]. apply Inert_tag. exact Ho.
    + (* swap stub *)
      apply swap_execute_static in He. destruct He as (_ & _ & Hdel2 & _).
      cbn [w_env set_env] in Hdel2.
      split; [apply (quiet_set_env w e'); congruence|].
      split; [apply PB; reflexivity|].
      split; [split; assumption|]. split; [exact HWp|constructor].
    + (* airdrop stub *)
      split; [apply (quiet_set_env w e1); exact Hdel1|].
      split; [apply PB; unfold is_pricing_msg; cbn [snd]; destruct wm; reflexivity|].
      split; [split; assumption|]. split; [exact HWp|constructor].
Qed.

(** ** forests of inert messages *)
Theorem inert_forest w l w' n :
  Exec w l w' n -> Good w -> Inert l -> Forall plain_s l -> Good w' /\ Quiet w w'.
Proof.
  induction 1 as [w | w s m w1 out w2 rest w3 n1 n2 Hstep H1 IH1 H2 IH2]; intros HG HI HP.
  - split; [exact HG|apply Quiet_refl].
  - apply Forall_cons_iff in HI. destruct HI as [Hi HI]. apply Forall_cons_iff in HP. destruct HP as [Hp HP].
    destruct (inert_step _ _ _ _ _ HG Hi Hstep) as (Q1 & E1 & M1 & W1 & O1).
    assert (HG1 : Good w1) by (split; [apply W1; exact Hp|split; assumption]).
    destruct (IH1 HG1 O1 (step_msg_emits_plain _ _ _ _ _ Hstep)) as [HG2 Q2].
    destruct (IH2 HG2 HI HP) as [HG3 Q3].
    split; [exact HG3|]. eapply Quiet_trans; [exact Q1|]. eapply Quiet_trans; [exact Q2|exact Q3].
Qed.
