(** * Cw20P: the two token ledgers (C18; building blocks of C16) *)
From Krp Require Import Tactics Prelude Fixed FMap Types Env Cw20 Exec ExecP.
Open Scope N_scope.
Ltac Zify.zify_post_hook ::= Z.div_mod_to_equations.

Definition idN (x : N) : N := x.
Definition bal_sum (t : token) : N := msum idN (tk_bal t).
(** ledger invariant: the balances add up to the reported total supply *)
Definition TInv (t : token) : Prop := bal_sum t = tk_supply t.

Lemma eqbA_eq a b : eqbA a b = true <-> a = b.
Proof. unfold eqbA. apply N.eqb_eq. Qed.

Lemma tbal_getf t a : tbal t a = getf eqbA idN (tk_bal t) a.
Proof. unfold tbal, getN, getf, idN. reflexivity. Qed.

Lemma tbal_le_sum t a : tbal t a <= bal_sum t.
Proof. rewrite tbal_getf. apply getf_le_msum. Qed.

Lemma bal_sum_set t a v :
  bal_sum (set_tk_bal t (set eqbA (tk_bal t) a v)) + tbal t a = bal_sum t + v.
Proof.
  unfold bal_sum. cbn [tk_bal set_tk_bal]. rewrite tbal_getf.
  pose proof (msum_set eqbA idN (tk_bal t) a v) as H. unfold idN at 3 in H. exact H.
Qed.

Lemma tbal_set_same t a v : tbal (set_tk_bal t (set eqbA (tk_bal t) a v)) a = v.
Proof. unfold tbal, getN. cbn [tk_bal set_tk_bal]. rewrite (get_set_same eqbA eqbA_eq). reflexivity. Qed.

Lemma tbal_set_other t a b v : b <> a -> tbal (set_tk_bal t (set eqbA (tk_bal t) a v)) b = tbal t b.
Proof.
  intros Hne. unfold tbal, getN. cbn [tk_bal set_tk_bal].
  rewrite (get_set_other eqbA eqbA_eq) by exact Hne. reflexivity.
Qed.

(** ** the three ledger primitives, exactly *)
Lemma tok_move_spec t from to amt t' :
  tok_move t from to amt = Some t' ->
  amt <= tbal t from /\ bal_sum t' = bal_sum t /\ tk_supply t' = tk_supply t /\
  tk_minter t' = tk_minter t /\ tk_allow t' = tk_allow t /\ tk_hub t' = tk_hub t /\
  (from <> to -> tbal t' from = tbal t from - amt /\ tbal t' to = tbal t to + amt) /\
  (from = to -> tbal t' from = tbal t from) /\
  (forall a, a <> from -> a <> to -> tbal t' a = tbal t a).
Proof.
  unfold tok_move. intros H.
  bind_inv H as fb Hfb. unfold sub128 in Hfb. check_inv Hfb as Hle. inversion Hfb; subst fb; clear Hfb.
  set (t1 := set_tk_bal t (set eqbA (tk_bal t) from (tbal t from - amt))) in *.
  bind_inv H as tb Htb. unfold add128, narrow128 in Htb. check_inv Htb as Hfit. inversion Htb; subst tb; clear Htb.
  assert (Ht' : t' = set_tk_bal t1 (set eqbA (tk_bal t1) to (tbal t1 to + amt))) by (inversion H; reflexivity).
  clear H. rewrite Ht'. clear Ht'.
  pose proof (bal_sum_set t from (tbal t from - amt)) as S1. fold t1 in S1.
  pose proof (bal_sum_set t1 to (tbal t1 to + amt)) as S2.
  pose proof (tbal_le_sum t from) as L1.
  split; [lia|]. split; [lia|].
  split; [reflexivity|]. split; [reflexivity|]. split; [reflexivity|]. split; [reflexivity|].
  split; [|split].
  - intros Hne. split.
    + rewrite tbal_set_other by congruence. unfold t1. apply tbal_set_same.
    + rewrite tbal_set_same. unfold t1. rewrite tbal_set_other by congruence. reflexivity.
  - intros <-. rewrite tbal_set_same. unfold t1. rewrite tbal_set_same. lia.
  - intros a H1 H2. rewrite tbal_set_other by exact H2. unfold t1. rewrite tbal_set_other by exact H1. reflexivity.
Qed.

Lemma tok_burn_spec t from amt t' :
  tok_burn_from_acct t from amt = Some t' ->
  amt <= tbal t from /\ amt <= tk_supply t /\
  bal_sum t' + amt = bal_sum t /\ tk_supply t' + amt = tk_supply t /\
  tk_minter t' = tk_minter t /\ tk_allow t' = tk_allow t /\ tk_hub t' = tk_hub t /\
  tbal t' from = tbal t from - amt /\ (forall a, a <> from -> tbal t' a = tbal t a).
Proof.
  unfold tok_burn_from_acct. intros H.
  bind_inv H as fb Hfb. unfold sub128 in Hfb. check_inv Hfb as Hle. inversion Hfb; subst fb; clear Hfb.
  bind_inv H as s Hs. unfold sub128 in Hs. cbn [tk_supply set_tk_bal] in Hs. check_inv Hs as Hle2.
  inversion Hs; subst s; clear Hs.
  set (t1 := set_tk_bal t (set eqbA (tk_bal t) from (tbal t from - amt))) in *.
  assert (Ht' : t' = set_tk_supply t1 (tk_supply t - amt)) by (inversion H; reflexivity).
  clear H. rewrite Ht'. clear Ht'.
  pose proof (bal_sum_set t from (tbal t from - amt)) as S1. fold t1 in S1.
  pose proof (tbal_le_sum t from) as L1.
  assert (B1 : bal_sum (set_tk_supply t1 (tk_supply t - amt)) = bal_sum t1) by reflexivity.
  assert (B2 : tk_supply (set_tk_supply t1 (tk_supply t - amt)) = tk_supply t - amt) by reflexivity.
  assert (B3 : forall a, tbal (set_tk_supply t1 (tk_supply t - amt)) a = tbal t1 a) by reflexivity.
  assert (Hsup : amt <= tk_supply t) by (cbn [tk_supply set_tk_bal] in Hle2; lia).
  split; [lia|]. split; [lia|]. split; [lia|]. split; [lia|].
  split; [reflexivity|]. split; [reflexivity|]. split; [reflexivity|]. split.
  - rewrite B3. unfold t1. apply tbal_set_same.
  - intros a Ha. rewrite B3. unfold t1. apply tbal_set_other. exact Ha.
Qed.

Lemma tok_mint_spec t sender to amt t' :
  tok_mint t sender to amt = Some t' ->
  0 < amt /\ (exists cap, tk_minter t = Some (sender, cap)) /\
  bal_sum t' = bal_sum t + amt /\ tk_supply t' = tk_supply t + amt /\
  tk_minter t' = tk_minter t /\ tk_allow t' = tk_allow t /\ tk_hub t' = tk_hub t /\
  tbal t' to = tbal t to + amt /\ (forall a, a <> to -> tbal t' a = tbal t a).
Proof.
  unfold tok_mint. intros H. check_inv H as Hz.
  destruct (tk_minter t) as [[m cap]|] eqn:Hm; [|discriminate].
  check_inv H as Hs. apply N.eqb_eq in Hs. subst m.
  bind_inv H as s Hsup. unfold add128, narrow128 in Hsup. check_inv Hsup as Hfit. inversion Hsup; subst s; clear Hsup.
  check_inv H as Hcap.
  bind_inv H as tb Htb. unfold add128, narrow128 in Htb. check_inv Htb as Hfit2. inversion Htb; subst tb; clear Htb.
  set (t1 := set_tk_supply t (tk_supply t + amt)) in *.
  assert (Ht' : t' = set_tk_bal t1 (set eqbA (tk_bal t1) to (tbal t1 to + amt))) by (inversion H; reflexivity).
  clear H. rewrite Ht'. clear Ht'.
  pose proof (bal_sum_set t1 to (tbal t1 to + amt)) as S1.
  assert (B1 : bal_sum t1 = bal_sum t) by reflexivity.
  assert (B2 : tbal t1 to = tbal t to) by reflexivity.
  assert (B3 : forall a, tbal t1 a = tbal t a) by reflexivity.
  split; [lia|]. split; [eauto|]. split; [lia|]. split; [reflexivity|].
  split; [cbn; congruence|]. split; [reflexivity|]. split; [reflexivity|]. split.
  - rewrite tbal_set_same. lia.
  - intros a Ha. rewrite tbal_set_other by exact Ha. apply B3.
Qed.

(** ** allowances *)
Definition allowance_of (t : token) (o s : addr) : option allowance := get eqbNN (tk_allow t) (o, s).

Lemma deduct_allowance_spec t now o s amt t' :
  deduct_allowance t now o s amt = Some t' ->
  exists a, allowance_of t o s = Some a /\ is_expired (al_exp a) now (height_of now) = false /\
            amt <= al_amt a /\
            allowance_of t' o s = Some (mkAllow (al_amt a - amt) (al_exp a)) /\
            tk_bal t' = tk_bal t /\ tk_supply t' = tk_supply t /\ tk_minter t' = tk_minter t /\
            tk_hub t' = tk_hub t /\
            (forall k, k <> (o, s) -> get eqbNN (tk_allow t') k = get eqbNN (tk_allow t) k).
Proof.
  unfold deduct_allowance, allowance_of. intros H.
  destruct (get eqbNN (tk_allow t) (o, s)) as [a|] eqn:Ha; [|discriminate].
  check_inv H as Hexp. apply negb_true_iff in Hexp.
  bind_inv H as rest Hrest. unfold sub128 in Hrest. check_inv Hrest as Hle. inversion Hrest; subst rest; clear Hrest.
  inversion H; subst t'; clear H. exists a. cbn [tk_allow set_tk_allow tk_bal tk_supply tk_minter tk_hub].
  repeat split; try assumption; try lia.
  - rewrite (get_set_same eqbNN eqbNN_eq). reflexivity.
  - intros k Hk. rewrite (get_set_other eqbNN eqbNN_eq) by exact Hk. reflexivity.
Qed.

(** ** C18: every token message preserves the ledger invariant *)
Lemma tok_inc_allow_frame base t now o s amt e t' :
  tok_inc_allow base t now o s amt e = Some t' ->
  tk_bal t' = tk_bal t /\ tk_supply t' = tk_supply t /\ tk_minter t' = tk_minter t /\ tk_hub t' = tk_hub t.
Proof.
  unfold tok_inc_allow. intros H. check_inv H as Hs. bind_inv H as ex Hex. bind_inv H as a' Ha.
  inversion H; subst. repeat split.
Qed.

Lemma tok_dec_allow_frame base t now o s amt e t' :
  tok_dec_allow base t now o s amt e = Some t' ->
  tk_bal t' = tk_bal t /\ tk_supply t' = tk_supply t /\ tk_minter t' = tk_minter t /\ tk_hub t' = tk_hub t.
Proof.
  unfold tok_dec_allow. intros H. check_inv H as Hs.
  destruct (get eqbNN (tk_allow t) (o, s)) as [cur|]; [|discriminate].
  destruct (amt <? al_amt cur).
  - bind_inv H as ex Hex. inversion H; subst. repeat split.
  - inversion H; subst. repeat split.
Qed.

Lemma TInv_frame t t' : tk_bal t' = tk_bal t -> tk_supply t' = tk_supply t -> TInv t -> TInv t'.
Proof. unfold TInv, bal_sum. intros -> ->. auto. Qed.

Theorem bsei_execute_tinv w t sender m t' out :
  bsei_execute w t sender m = Some (t', out) -> TInv t -> TInv t' /\ tk_hub t' = tk_hub t.
Proof.
  intros H HI. unfold bsei_execute in H. unfold TInv in *.
  destruct m.
  - bind_inv H as rc Hrc. check_inv H as Hz. bind_inv H as t1 Hm. inversion H; subst.
    apply tok_move_spec in Hm. destruct Hm as (_ & Hs & Hsup & _ & _ & Hh & _). split; congruence.
  - bind_inv H as rc Hrc. check_inv H as Hs. check_inv H as Hz. bind_inv H as t1 Hb. inversion H; subst.
    apply tok_burn_spec in Hb. destruct Hb as (_ & _ & B1 & B2 & _ & _ & Hh & _). split; [lia|exact Hh].
  - bind_inv H as rc Hrc. bind_inv H as t1 Hm. inversion H; subst.
    apply tok_mint_spec in Hm. destruct Hm as (_ & _ & B1 & B2 & _ & _ & Hh & _). split; [lia|exact Hh].
  - bind_inv H as rc Hrc. check_inv H as Hz. bind_inv H as t1 Hm. inversion H; subst.
    apply tok_move_spec in Hm. destruct Hm as (_ & Hs & Hsup & _ & _ & Hh & _). split; congruence.
  - bind_inv H as t1 Ha. inversion H; subst. apply tok_inc_allow_frame in Ha.
    destruct Ha as (A1 & A2 & _ & A4). unfold bal_sum. rewrite A1, A2. auto.
  - bind_inv H as t1 Ha. inversion H; subst. apply tok_dec_allow_frame in Ha.
    destruct Ha as (A1 & A2 & _ & A4). unfold bal_sum. rewrite A1, A2. auto.
  - bind_inv H as rc Hrc. bind_inv H as t1 Hd. bind_inv H as t2 Hm. inversion H; subst.
    apply deduct_allowance_spec in Hd. destruct Hd as (a & _ & _ & _ & _ & D1 & D2 & _ & D4 & _).
    apply tok_move_spec in Hm. destruct Hm as (_ & Hs & Hsup & _ & _ & Hh & _).
    unfold bal_sum in *. rewrite D1 in Hs. split; congruence.
  - bind_inv H as rc Hrc. bind_inv H as t1 Hd. bind_inv H as t2 Hb. inversion H; subst.
    apply deduct_allowance_spec in Hd. destruct Hd as (a & _ & _ & _ & _ & D1 & D2 & _ & D4 & _).
    apply tok_burn_spec in Hb. destruct Hb as (_ & _ & B1 & B2 & _ & _ & Hh & _).
    unfold bal_sum in *. rewrite D1 in B1. split; [lia|congruence].
  - bind_inv H as rc Hrc. bind_inv H as t1 Hd. bind_inv H as t2 Hm. inversion H; subst.
    apply deduct_allowance_spec in Hd. destruct Hd as (a & _ & _ & _ & _ & D1 & D2 & _ & D4 & _).
    apply tok_move_spec in Hm. destruct Hm as (_ & Hs & Hsup & _ & _ & Hh & _).
    unfold bal_sum in *. rewrite D1 in Hs. split; congruence.
  - discriminate.
Qed.

Theorem stsei_execute_tinv w t sender m t' out :
  stsei_execute w t sender m = Some (t', out) -> TInv t -> TInv t' /\ tk_hub t' = tk_hub t.
Proof.
  intros H HI. unfold stsei_execute in H. unfold TInv in *.
  destruct m.
  - check_inv H as Hz. bind_inv H as t1 Hm. inversion H; subst.
    apply tok_move_spec in Hm. destruct Hm as (_ & Hs & Hsup & _ & _ & Hh & _). split; congruence.
  - check_inv H as Hs. check_inv H as Hz. bind_inv H as t1 Hb. inversion H; subst.
    apply tok_burn_spec in Hb. destruct Hb as (_ & _ & B1 & B2 & _ & _ & Hh & _). split; [lia|exact Hh].
  - bind_inv H as t1 Hm. inversion H; subst.
    apply tok_mint_spec in Hm. destruct Hm as (_ & _ & B1 & B2 & _ & _ & Hh & _). split; [lia|exact Hh].
  - check_inv H as Hz. bind_inv H as t1 Hm. inversion H; subst.
    apply tok_move_spec in Hm. destruct Hm as (_ & Hs & Hsup & _ & _ & Hh & _). split; congruence.
  - bind_inv H as t1 Ha. inversion H; subst. apply tok_inc_allow_frame in Ha.
    destruct Ha as (A1 & A2 & _ & A4). unfold bal_sum. rewrite A1, A2. auto.
  - bind_inv H as t1 Ha. inversion H; subst. apply tok_dec_allow_frame in Ha.
    destruct Ha as (A1 & A2 & _ & A4). unfold bal_sum. rewrite A1, A2. auto.
  - bind_inv H as t1 Hd. bind_inv H as t2 Hm. inversion H; subst.
    apply deduct_allowance_spec in Hd. destruct Hd as (a & _ & _ & _ & _ & D1 & D2 & _ & D4 & _).
    apply tok_move_spec in Hm. destruct Hm as (_ & Hs & Hsup & _ & _ & Hh & _).
    unfold bal_sum in *. rewrite D1 in Hs. split; congruence.
  - bind_inv H as t1 Hd. bind_inv H as t2 Hb. inversion H; subst.
    apply deduct_allowance_spec in Hd. destruct Hd as (a & _ & _ & _ & _ & D1 & D2 & _ & D4 & _).
    apply tok_burn_spec in Hb. destruct Hb as (_ & _ & B1 & B2 & _ & _ & Hh & _).
    unfold bal_sum in *. rewrite D1 in B1. split; [lia|congruence].
  - bind_inv H as t1 Hd. bind_inv H as t2 Hm. inversion H; subst.
    apply deduct_allowance_spec in Hd. destruct Hd as (a & _ & _ & _ & _ & D1 & D2 & _ & D4 & _).
    apply tok_move_spec in Hm. destruct Hm as (_ & Hs & Hsup & _ & _ & Hh & _).
    unfold bal_sum in *. rewrite D1 in Hs. split; congruence.
  - destruct (tk_minter t) as [[mn cap]|]; [|discriminate]. check_inv H as Hs.
    inversion H; subst. split; [exact HI | reflexivity].
Qed.

(** ** instantiate *)
Definition acct_step (acc : fmap addr N * N) (row : addr * N) : result (fmap addr N * N) :=
  let '(b, s) := acc in do s' <- add128 s (snd row); Some (set eqbA b (fst row) (snd row), s').

Lemma create_accounts_unfold rows : create_accounts rows = foldM acct_step rows ([], 0).
Proof. reflexivity. Qed.

Lemma has_dup_cons a l : has_dup (a :: l) = false -> ~ In a l /\ has_dup l = false.
Proof.
  cbn [has_dup]. intros H. apply orb_false_iff in H. destruct H as [H1 H2]. split; [|exact H2].
  intros Hin. assert (existsb (N.eqb a) l = true); [|congruence].
  apply existsb_exists. exists a. split; [exact Hin | apply N.eqb_refl].
Qed.

Lemma foldM_acct_sum rows : forall b s r,
  (forall k, In k (map fst rows) -> get eqbA b k = None) ->
  has_dup (map fst rows) = false ->
  foldM acct_step rows (b, s) = Some r ->
  msum idN (fst r) + s = msum idN b + snd r /\ s <= snd r.
Proof.
  induction rows as [|[k v] rows IH]; intros b s r Habs Hnd H; cbn [foldM] in H.
  - inversion H; subst. cbn [fst snd]. lia.
  - bind_inv H as acc1 Hstep. unfold acct_step in Hstep. cbn [fst snd] in Hstep.
    bind_inv Hstep as s' Hs'. inversion Hstep; subst acc1; clear Hstep.
    unfold add128, narrow128 in Hs'. check_inv Hs' as Hfit. inversion Hs'; subst s'; clear Hs'.
    cbn [map fst] in Hnd. apply has_dup_cons in Hnd. destruct Hnd as [Hnin Hnd].
    specialize (IH (set eqbA b k v) (s + v) r).
    destruct IH as [IH1 IH2]; [|exact Hnd|exact H|].
    + intros k' Hk'. rewrite (get_set_other eqbA eqbA_eq).
      * apply Habs. right. exact Hk'.
      * intros ->. contradiction.
    + pose proof (msum_set eqbA idN b k v) as Hm. unfold getf in Hm.
      rewrite (Habs k) in Hm by (left; reflexivity). unfold idN at 3 in Hm. lia.
Qed.

(** the ledger invariant holds right after instantiate, for every instantiate message: both crates
    reject repeated addresses (cw20-legacy since the fix of finding F4) *)
Theorem tok_instantiate_tinv base hubaddr mk rows t :
  tok_instantiate base hubaddr mk rows = Some t ->
  TInv t /\ tk_hub t = hubaddr /\ tk_minter t = Some (hubaddr, None) /\ has_dup (map fst rows) = false.
Proof.
  unfold tok_instantiate. intros H. check_inv H as Hmk. check_inv H as Hdup.
  bind_inv H as bs Hbs. inversion H; subst t; clear H.
  apply negb_true_iff in Hdup.
  rewrite create_accounts_unfold in Hbs.
  apply foldM_acct_sum in Hbs; [|intros k _; reflexivity|exact Hdup].
  unfold TInv, bal_sum. cbn [tk_bal tk_supply tk_hub tk_minter]. cbn [msum map sumN] in Hbs.
  repeat split; [|exact Hdup]. destruct Hbs as [Hb _]. unfold msum in *. cbn [map sumN] in Hb. lia.
Qed.
