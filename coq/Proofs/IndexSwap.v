(** * IndexSwap: the SwapToRewardDenom leg of an UpdateGlobalIndex transaction (C19).
    - [convert_loop_ok]: what [convert_to_target_denoms] returns, exactly;
    - [swap_info_ok]: [get_swap_info] succeeds under E1/E7;
    - [disp_swap_ok]: the handler succeeds, and the swap it requests is covered by the balances;
    - [swap_step]: one SwapDenom message executed by the swap stub (mode [SwOk]);
    - [swap_phase]: the whole DSwap subtree executes (at most 6 messages) and touches only the
      bank balances of the dispatcher and of the swap contract. *)
From Krp Require Import Tactics Prelude Fixed FMap Types Env Registry Cw20 Reward Dispatcher Hub Exec
     DispatcherP Inv IndexRun IndexEnv IndexHandlers.
Open Scope N_scope.
Ltac Zify.zify_post_hook ::= Z.div_mod_to_equations.

(** ** world plumbing *)
Lemma set_env_same w : set_env w (w_env w) = w.
Proof. destruct w; reflexivity. Qed.

Lemma set_disp_same w d : w_disp w = Some d -> set_disp w d = w.
Proof. destruct w; cbn. intros ->. reflexivity. Qed.

Lemma set_env_set_env w e1 e2 : set_env (set_env w e1) e2 = set_env w e2.
Proof. reflexivity. Qed.

Lemma call_disp w s dm f :
  call w s A_disp (WDisp dm) f =
  (do x <- w_disp w; do r <- disp_execute w x A_disp s dm; Some (set_disp w (fst r), snd r)).
Proof. reflexivity. Qed.

Lemma call_swap w s sm f :
  call w s A_swap (WSwap sm) f = (do e <- swap_execute (w_env w) s sm; Some (set_env w e, [])).
Proof. reflexivity. Qed.

Lemma send_coins_nil e a b : send_coins e a b [] = Some e.
Proof. reflexivity. Qed.

(** ** the stub rates (E7) when the stSei-side coin is usei and the bSei-side coin is not *)
Lemma stub_rate_conv e d bd : d <> usei -> bd <> usei -> stub_rate e d bd = D.
Proof.
  intros H1 H2. unfold stub_rate.
  assert (E1 : (d =? usei) = false) by lia. assert (E2 : (bd =? usei) = false) by lia.
  rewrite E1, E2, andb_false_r. reflexivity.
Qed.

Lemma DD_ge_D : D <= D * D.
Proof. apply N.leb_le. vm_compute. reflexivity. Qed.

Lemma stub_rate_le e a b : 0 < e_price e -> e_price e <= D * D -> stub_rate e a b <= D * D.
Proof.
  intros Hp Hle. unfold stub_rate. pose proof DD_ge_D.
  destruct ((a =? usei) && (b =? uusd)); [exact Hle|].
  destruct ((a =? uusd) && (b =? usei)); [|assumption].
  apply N.div_le_upper_bound; [lia|]. nia.
Qed.

Lemma stub_rate_pos e a b : 0 < e_price e -> e_price e <= D * D -> 0 < stub_rate e a b.
Proof.
  intros Hp Hle. unfold stub_rate. pose proof D_pos.
  destruct ((a =? usei) && (b =? uusd)); [exact Hp|].
  destruct ((a =? uusd) && (b =? usei)); [|assumption].
  apply N.div_str_pos. lia.
Qed.

Definition C5 : N := 5 * LIM * (D * D) / D.

Lemma C5_fits : LIM + C5 <= U128MAX.
Proof. apply N.leb_le. vm_compute. reflexivity. Qed.

Lemma swap_out_ok e c t :
  snd c <= 5 * LIM -> stub_rate e (fst c) t <= D * D ->
  swap_out e c t = Some (snd c * stub_rate e (fst c) t / D).
Proof.
  intros Hx Hr. unfold swap_out, narrow128, fits128.
  pose proof (muldiv_le _ _ _ _ Hx Hr) as Hle. fold C5 in Hle. pose proof C5_fits.
  assert (E : (snd c * stub_rate e (fst c) t / D <=? U128MAX) = true) by lia.
  rewrite E. reflexivity.
Qed.

(** ** convert_to_target_denoms *)
Section Conv.
  Variables (w : world) (dp : disp).

  Definition in_dd (c : coin) : bool := existsb (N.eqb (fst c)) (dp_denoms dp).
  Definition is_conv (c : coin) : bool :=
    in_dd c && negb (fst c =? dp_std dp) && negb (fst c =? dp_bd dp) && negb (snd c =? 0).
  Definition out_of (c : coin) : N :=
    match swap_out (w_env w) c (dp_bd dp) with Some r => r | None => 0 end.
  Definition sum_std (coins : list coin) : N :=
    sumN (map snd (filter (fun c => in_dd c && (fst c =? dp_std dp)) coins)).
  Definition sum_bd (coins : list coin) : N :=
    sumN (map snd (filter (fun c => (in_dd c && negb (fst c =? dp_std dp)) && (fst c =? dp_bd dp)) coins)).
  Definition conv_coins (coins : list coin) : list coin := filter is_conv coins.
  Definition sum_conv (coins : list coin) : N := sumN (map out_of (conv_coins coins)).
  Definition conv_msgs (coins : list coin) : list cmsg :=
    map (fun c => m_swap (dp_swap dp) c (dp_bd dp) None) (conv_coins coins).

  Lemma convert_loop_ok : forall coins tsei tusd msgs,
    dp_swap dp = A_swap -> e_swapmode (w_env w) = SwOk ->
    (forall c, In c coins -> is_conv c = true -> swap_out (w_env w) c (dp_bd dp) <> None) ->
    tsei + sum_std coins <= U128MAX -> tusd + sum_bd coins + sum_conv coins <= U128MAX ->
    convert_loop w dp coins tsei tusd msgs =
    Some (tsei + sum_std coins, tusd + sum_bd coins + sum_conv coins, msgs ++ conv_msgs coins).
  Proof.
    intros coins tsei tusd msgs Hsw Hmode. revert tsei tusd msgs.
    induction coins as [|c r IH]; intros tsei tusd msgs Hout Hs Hb.
    - cbn. rewrite !N.add_0_r, app_nil_r. reflexivity.
    - assert (Hout' : forall c0, In c0 r -> is_conv c0 = true -> swap_out (w_env w) c0 (dp_bd dp) <> None)
        by (intros c0 Hc0; apply Hout; right; exact Hc0).
      specialize (Hout c (or_introl eq_refl)).
      unfold sum_std, sum_bd, sum_conv, conv_msgs, conv_coins, is_conv in *.
      cbn [convert_loop filter] in *. fold (in_dd c) in *.
      destruct (in_dd c) eqn:Ein; cbn [negb andb] in *.
      2:{ apply IH; assumption. }
      destruct (fst c =? dp_std dp) eqn:Es; cbn [negb andb map sumN] in *.
      { rewrite add128_ok by lia. cbn [bind]. rewrite IH by (try assumption; lia). f_equal. f_equal. f_equal. lia. }
      destruct (fst c =? dp_bd dp) eqn:Eb; cbn [negb andb map sumN] in *.
      { rewrite add128_ok by lia. cbn [bind]. rewrite IH by (try assumption; lia). f_equal. f_equal. f_equal. lia. }
      destruct (snd c =? 0) eqn:Ez; cbn [negb andb map sumN] in *.
      { apply IH; assumption. }
      rewrite Hsw, N.eqb_refl. unfold swap_simulate. rewrite Hmode.
      unfold out_of in *. destruct (swap_out (w_env w) c (dp_bd dp)) as [ret|] eqn:Eo;
        [|exfalso; apply Hout; reflexivity].
      cbn [bind]. rewrite add128_ok by lia. cbn [bind].
      rewrite IH by (try assumption; lia). rewrite <- app_assoc. cbn [app]. rewrite Hsw.
      f_equal. f_equal. f_equal. lia.
  Qed.
End Conv.

(** ** the coins of an account *)
Lemma filter_len_le {A} (f : A -> bool) (l : list A) : (length (filter f l) <= length l)%nat.
Proof. induction l as [|x r IH]; cbn [filter length]; [lia|]. destruct (f x); cbn [length]; lia. Qed.

Lemma all_balances_spec e a (c : coin) :
  In c (all_balances e a) <-> In (fst c) DENOMS /\ snd c = bal e a (fst c) /\ snd c <> 0.
Proof.
  unfold all_balances. rewrite filter_In, in_map_iff. split.
  - intros [[d [<- Hd]] Hnz]. cbn [fst snd] in *. repeat split; [exact Hd|].
    destruct (bal e a d =? 0) eqn:E; [discriminate | lia].
  - intros (Hd & Hb & Hnz). split.
    + exists (fst c). split; [|exact Hd]. rewrite <- Hb. destruct c; reflexivity.
    + destruct (snd c =? 0) eqn:E; [lia | reflexivity].
Qed.

Lemma NoDup_fst_filter_map (g : denom -> N) (P : coin -> bool) (L : list denom) :
  NoDup L -> NoDup (map fst (filter P (map (fun d => (d, g d)) L))).
Proof.
  induction 1 as [|d r Hnin Hnd IH]; [constructor|]. cbn [map filter].
  destruct (P (d, g d)); [|exact IH]. cbn [map fst]. constructor; [|exact IH].
  intros H. apply Hnin. apply in_map_iff in H. destruct H as [[d' x] [E H]]. cbn in E. subst d'.
  apply filter_In in H. destruct H as [H _]. apply in_map_iff in H. destruct H as [d'' [E H]].
  inversion E; subst. exact H.
Qed.

Lemma all_balances_NoDup e a : NoDup (map fst (all_balances e a)).
Proof. unfold all_balances. apply NoDup_fst_filter_map. exact DENOMS_NoDup. Qed.

Lemma all_balances_length e a : (length (all_balances e a) <= 4)%nat.
Proof.
  unfold all_balances. eapply Nat.le_trans; [apply filter_len_le|]. rewrite map_length. cbn. lia.
Qed.

Lemma filter_key_empty (P : coin -> bool) (k : denom) (r : list coin) :
  ~ In k (map fst r) -> filter (fun c => P c && (fst c =? k)) r = [].
Proof.
  induction r as [|c r IH]; intros H; [reflexivity|]. cbn [filter].
  assert (E : (fst c =? k) = false) by (apply N.eqb_neq; intros E; apply H; left; exact E).
  rewrite E, andb_false_r. apply IH. intros Hin. apply H. right. exact Hin.
Qed.

Lemma sum_key_le (g : denom -> N) (P : coin -> bool) (k : denom) (coins : list coin) :
  NoDup (map fst coins) -> (forall c, In c coins -> snd c = g (fst c)) ->
  sumN (map snd (filter (fun c => P c && (fst c =? k)) coins)) <= g k.
Proof.
  induction coins as [|c r IH]; intros Hnd Hg; [cbn; lia|].
  cbn [map] in Hnd. inversion Hnd as [|? ? Hnin Hnd']; subst. cbn [filter].
  destruct (P c && (fst c =? k)) eqn:E.
  - apply andb_true_iff in E. destruct E as [_ E]. apply N.eqb_eq in E.
    rewrite filter_key_empty by (rewrite <- E; exact Hnin). cbn [map sumN].
    rewrite (Hg c (or_introl eq_refl)), E. lia.
  - apply IH; [exact Hnd'|]. intros c0 Hc0. apply Hg. right. exact Hc0.
Qed.

Lemma sumN_le_len (f : coin -> N) B (l : list coin) :
  (forall c, In c l -> f c <= B) -> sumN (map f l) <= N.of_nat (length l) * B.
Proof.
  induction l as [|c r IH]; intros H; [cbn; lia|]. cbn [map sumN length].
  specialize (IH (fun c0 Hc0 => H c0 (or_intror Hc0))). specialize (H c (or_introl eq_refl)). lia.
Qed.

(** ** get_swap_info succeeds *)
Lemma swap_info_ok std bd stb bb rst rb q p :
  rst <= LIM -> rb <= 5 * LIM -> q * p <= D * D -> q <= D * D ->
  0 < stb + bb -> stb + bb <= U128MAX ->
  exists od oa ask, swap_info std bd stb bb rst rb q p = Some (od, oa, ask).
Proof.
  intros Hrst Hrb Hqp Hq Hpos Hfit. pose proof C5_fits as HC. pose proof LIM_fits as HL.
  unfold swap_info.
  assert (Hconv : rb * q / D <= C5) by (apply muldiv_le; assumption).
  rewrite (mulU_ok rb q (5 * LIM) (D * D)) by (try assumption; fold C5; lia). cbn [bind].
  set (conv := rb * q / D) in *.
  rewrite add128_ok by lia. cbn [bind]. rewrite add128_ok by exact Hfit. cbn [bind].
  unfold mul_ratio, narrow128, fits128.
  assert (Ez : (stb + bb =? 0) = false) by lia. rewrite Ez.
  assert (Hsh : (rst + conv) * stb / (stb + bb) <= rst + conv).
  { apply N.div_le_upper_bound; [lia|]. nia. }
  assert (Ef : ((rst + conv) * stb / (stb + bb) <=? U128MAX) = true) by lia. rewrite Ef. cbn [bind].
  set (share := (rst + conv) * stb / (stb + bb)) in *.
  destruct (share <? rst) eqn:Elt.
  - rewrite sub128_ok by lia. cbn [bind]. eauto.
  - rewrite sub128_ok by lia. cbn [bind].
    assert (Hbuy : share - rst <= conv) by lia.
    assert (H1 : conv * p <= D * rb).
    { assert (H2 : D * conv <= rb * q) by (apply N.mul_div_le; exact D_nz).
      assert (H3 : D * (conv * p) <= D * (D * rb)) by nia.
      apply N.mul_le_mono_pos_l in H3; [exact H3 | exact D_pos]. }
    assert (Hbs : (share - rst) * p / D <= rb).
    { apply N.div_le_upper_bound; [exact D_nz|]. nia. }
    unfold mulU, narrow128, fits128.
    destruct ((share - rst =? 0) || (p =? 0)); cbn [bind]; [eauto|].
    assert (Ef2 : ((share - rst) * p / D <=? U128MAX) = true) by lia. rewrite Ef2. cbn [bind]. eauto.
Qed.

(** ** SwapToRewardDenom succeeds, and the swap it requests is covered *)
Theorem disp_swap_ok w dp self sender bb stb :
  let e := w_env w in
  let coins := all_balances e self in
  sender = dp_hub dp -> dp_swap dp = A_swap -> dp_oracle dp = A_oracle ->
  dp_std dp = usei -> dp_bd dp <> usei ->
  e_swapmode e = SwOk -> e_oraclemode e = OrOk -> 0 < e_price e -> e_price e <= D * D ->
  (forall d, bal e self d <= LIM) ->
  0 < stb + bb -> stb + bb <= LIM ->
  exists od oa ask,
    disp_execute w dp self sender (DSwap bb stb) =
      Some (dp, conv_msgs dp coins ++
                (if oa =? 0 then [] else [m_swap A_swap (od, oa) ask None])) /\
    ((od = usei /\ ask = dp_bd dp /\ oa <= sum_std dp coins) \/
     (od = dp_bd dp /\ ask = usei /\ oa <= sum_bd dp coins + sum_conv w dp coins)) /\
    (forall c, In c (conv_coins dp coins) -> swap_out e c (dp_bd dp) <> None) /\
    swap_out e (od, oa) ask <> None.
Proof.
  intros e coins Hs Hsw Hor Hstd Hbd Hsm Hom Hp0 Hp1 Hbal Hb0 Hb1.
  pose proof LIM_fits as HL. pose proof C5_fits as HC.
  assert (Hspec : forall c, In c coins -> snd c = bal e self (fst c))
    by (intros c Hc; apply all_balances_spec in Hc; tauto).
  assert (Hnd : NoDup (map fst coins)) by apply all_balances_NoDup.
  assert (Hstd_le : sum_std dp coins <= LIM).
  { eapply N.le_trans; [apply (sum_key_le (bal e self) _ (dp_std dp) coins Hnd Hspec) | apply Hbal]. }
  assert (Hbd_le : sum_bd dp coins <= LIM).
  { eapply N.le_trans; [apply (sum_key_le (bal e self) _ (dp_bd dp) coins Hnd Hspec) | apply Hbal]. }
  assert (Hconv_out : forall c, In c (conv_coins dp coins) ->
            swap_out e c (dp_bd dp) = Some (snd c) /\ snd c <= LIM).
  { intros c Hc. unfold conv_coins in Hc. apply filter_In in Hc. destruct Hc as [Hin Hc].
    unfold is_conv in Hc. rewrite !andb_true_iff in Hc. destruct Hc as [[[_ H1] H2] _].
    assert (Hle : snd c <= LIM) by (rewrite (Hspec c Hin); apply Hbal).
    assert (Hr : stub_rate e (fst c) (dp_bd dp) = D).
    { apply stub_rate_conv; [|exact Hbd]. rewrite Hstd in H1. destruct (fst c =? usei) eqn:E; [discriminate|lia]. }
    split; [|exact Hle]. rewrite swap_out_ok by (rewrite ?Hr; pose proof DD_ge_D; lia).
    rewrite Hr, N.div_mul by exact D_nz. reflexivity. }
  assert (Hconv_le : sum_conv w dp coins <= 4 * LIM).
  { unfold sum_conv. eapply N.le_trans; [apply (sumN_le_len _ LIM)|].
    - intros c Hc. unfold out_of. fold e. destruct (Hconv_out c Hc) as [-> Hle]. exact Hle.
    - assert (Hl : (length (conv_coins dp coins) <= 4)%nat).
      { unfold conv_coins. eapply Nat.le_trans; [apply filter_len_le | apply all_balances_length]. }
      nia. }
  cbn [disp_execute]. rewrite Hs, N.eqb_refl. fold e coins.
  rewrite (convert_loop_ok w dp coins 0 0 []); try assumption; try lia.
  2:{ intros c Hc Hic. fold e. assert (Hcc : In c (conv_coins dp coins)) by (apply filter_In; auto).
      destruct (Hconv_out c Hcc) as [-> _]. discriminate. }
  rewrite Hor, N.eqb_refl. unfold oracle_rate. fold e. rewrite Hom. cbn [bind].
  set (p := stub_rate e (dp_std dp) (dp_bd dp)).
  assert (Hpp : 0 < p) by (apply stub_rate_pos; assumption).
  assert (Hple : p <= D * D) by (apply stub_rate_le; assumption).
  unfold dinv. assert (Epz : (p =? 0) = false) by lia. rewrite Epz. cbn [bind].
  set (q := D * D / p).
  assert (Hqp : q * p <= D * D) by (unfold q; rewrite N.mul_comm; apply N.mul_div_le; lia).
  assert (Hq : q <= D * D) by (unfold q; apply N.div_le_upper_bound; [lia|]; nia).
  rewrite !N.add_0_l. cbn [app].
  destruct (swap_info_ok (dp_std dp) (dp_bd dp) stb bb (sum_std dp coins)
              (sum_bd dp coins + sum_conv w dp coins) q p) as (od & oa & ask & Hinfo);
    try assumption; try lia.
  rewrite Hinfo. cbn [bind]. rewrite Hsw.
  pose proof (offer_le_held _ _ _ _ _ _ _ _ _ _ _ Hqp Hinfo) as Hoff. rewrite Hstd in Hoff.
  exists od, oa, ask. split; [destruct (oa =? 0); rewrite ?app_nil_r; reflexivity|]. split; [exact Hoff|]. split.
  - intros c Hc. destruct (Hconv_out c Hc) as [-> _]. discriminate.
  - rewrite swap_out_ok; [discriminate | | apply stub_rate_le; assumption].
    cbn [snd]. destruct Hoff as [(_ & _ & H)|(_ & _ & H)]; lia.
Qed.

(** ** one SwapDenom message through the swap stub *)
Definition swapped (e : env) (self : addr) (c : coin) (ask : denom) (r : N) : env :=
  let e1 := xfer e self A_swap (fst c) (snd c) in
  if r =? 0 then e1 else credit e1 self ask r.

Lemma swap_step w e self c ask r :
  e_swapmode e = SwOk -> snd c <> 0 -> snd c <= bal e self (fst c) ->
  swap_out e c ask = Some r ->
  step_msg (set_env w e) self (m_swap A_swap c ask None) = Some (set_env w (swapped e self c ask r), []).
Proof.
  intros Hm Hnz Hle Hout. destruct c as [od x]. cbn [fst snd] in *.
  unfold m_swap. cbn [step_msg]. change (w_env (set_env w e)) with e.
  rewrite send_coins_one, (send_coin_ok _ _ _ _ _ Hnz Hle). cbn [bind].
  rewrite call_swap. change (w_env (set_env (set_env w e) _)) with (xfer e self A_swap od x).
  unfold swap_execute. change (e_swapmode (xfer e self A_swap od x)) with (e_swapmode e). rewrite Hm.
  change (swap_out (xfer e self A_swap od x) (od, x) ask) with (swap_out e (od, x) ask).
  rewrite Hout. cbn [bind]. unfold swapped. cbn [fst snd].
  destruct (r =? 0); reflexivity.
Qed.

Lemma swapped_nonbank e self c ask r : same_nonbank e (swapped e self c ask r).
Proof. unfold swapped. cbn zeta. destruct (r =? 0); unfold same_nonbank; repeat split. Qed.

Lemma swapped_bal e self c ask r a d :
  self <> A_swap ->
  bal (swapped e self c ask r) a d =
  (if (a =? self) && (d =? fst c) then bal e self (fst c) - snd c
   else if (a =? A_swap) && (d =? fst c) then bal e A_swap (fst c) + snd c
   else bal e a d) + (if (a =? self) && (d =? ask) then r else 0).
Proof.
  intros Hne. unfold swapped. cbn zeta.
  assert (Hx : forall a' d', bal (xfer e self A_swap (fst c) (snd c)) a' d' =
     if (a' =? self) && (d' =? fst c) then bal e self (fst c) - snd c
     else if (a' =? A_swap) && (d' =? fst c) then bal e A_swap (fst c) + snd c else bal e a' d').
  { intros a' d'. unfold xfer. rewrite bal_credit, !bal_debited.
    assert (E : (A_swap =? self) = false) by lia. rewrite E. cbn [andb].
    destruct (a' =? A_swap) eqn:E1; destruct (a' =? self) eqn:E2; destruct (d' =? fst c) eqn:E3; cbn [andb];
      try reflexivity. lia. }
  destruct (r =? 0) eqn:Er.
  - rewrite Hx. apply N.eqb_eq in Er. subst r. destruct ((a =? self) && (d =? ask)); lia.
  - rewrite bal_credit, !Hx. destruct ((a =? self) && (d =? ask)) eqn:E; [|lia].
    apply andb_true_iff in E. destruct E as [E1 E2]. apply N.eqb_eq in E1, E2. subst. lia.
Qed.

(** a list of conversion swaps, all towards [bd] *)
Lemma exec_swaps w self bd : self <> A_swap -> forall cs e,
  e_swapmode e = SwOk -> NoDup (map fst cs) ->
  (forall c, In c cs -> fst c <> bd /\ snd c <> 0 /\ snd c <= bal e self (fst c) /\
                        swap_out e c bd <> None) ->
  exists e', Exec (set_env w e) (map (fun c => (self, m_swap A_swap c bd None)) cs) (set_env w e') (length cs) /\
    same_nonbank e e' /\
    (forall a d, a <> self -> a <> A_swap -> bal e' a d = bal e a d) /\
    (forall d, d <> bd -> ~ In d (map fst cs) -> bal e' self d = bal e self d) /\
    bal e' self bd = bal e self bd +
       sumN (map (fun c => match swap_out e c bd with Some r => r | None => 0 end) cs).
Proof.
  intros Hne. induction cs as [|c r IH]; intros e Hm Hnd Hall.
  - exists e. cbn [map length sumN]. split; [constructor|]. split; [apply same_nonbank_refl|].
    repeat split; intros; try reflexivity. lia.
  - cbn [map] in Hnd. inversion Hnd as [|? ? Hnin Hnd']; subst.
    destruct (Hall c (or_introl eq_refl)) as (Hcb & Hcnz & Hcle & Hco).
    destruct (swap_out e c bd) as [o|] eqn:Eo; [|congruence].
    set (e1 := swapped e self c bd o).
    assert (Hnb : same_nonbank e e1) by apply swapped_nonbank.
    assert (Hout1 : forall c0, swap_out e1 c0 bd = swap_out e c0 bd).
    { intros c0. unfold swap_out, stub_rate. destruct Hnb as (_ & _ & _ & _ & _ & _ & _ & -> & _). reflexivity. }
    destruct (IH e1) as (e' & Hex & Hnb' & Hoth & Hself & Hbd).
    + destruct Hnb as (_ & _ & _ & _ & _ & _ & _ & _ & -> & _). exact Hm.
    + exact Hnd'.
    + intros c0 Hc0. destruct (Hall c0 (or_intror Hc0)) as (H1 & H2 & H3 & H4).
      repeat split; try assumption.
      * unfold e1. rewrite swapped_bal by exact Hne. rewrite N.eqb_refl. cbn [andb].
        assert (E1 : (fst c0 =? fst c) = false).
        { apply N.eqb_neq. intros E. apply Hnin. rewrite <- E. apply in_map. exact Hc0. }
        rewrite E1. assert (E2 : (A_swap =? self) = false) by lia.
        assert (E3 : (self =? A_swap) = false) by lia. rewrite E3. cbn [andb]. lia.
      * rewrite Hout1. exact H4.
    + exists e'. split; [|split; [|split; [|split]]].
      * cbn [map length]. eapply Exec_leaf_cons; [|exact Hex].
        apply swap_step; assumption.
      * eapply same_nonbank_trans; eassumption.
      * intros a d Ha1 Ha2. rewrite Hoth by assumption. unfold e1. rewrite swapped_bal by exact Hne.
        assert (E1 : (a =? self) = false) by lia. assert (E2 : (a =? A_swap) = false) by lia.
        rewrite E1, E2. cbn [andb]. lia.
      * intros d Hd Hnind. cbn [map In] in Hnind.
        rewrite Hself by tauto. unfold e1. rewrite swapped_bal by exact Hne. rewrite N.eqb_refl. cbn [andb].
        assert (E1 : (d =? fst c) = false) by (apply N.eqb_neq; intros E; apply Hnind; left; congruence).
        assert (E2 : (d =? bd) = false) by lia. assert (E3 : (self =? A_swap) = false) by lia.
        rewrite E1, E2, E3. cbn [andb]. lia.
      * rewrite Hbd. unfold e1. rewrite swapped_bal by exact Hne. rewrite !N.eqb_refl. cbn [andb].
        assert (E1 : (bd =? fst c) = false) by (apply N.eqb_neq; congruence).
        assert (E3 : (self =? A_swap) = false) by lia. rewrite E1, E3. cbn [andb map sumN].
        rewrite (map_ext _ _ (fun c0 => f_equal (fun x => match x with Some r0 => r0 | None => 0 end) (Hout1 c0))).
        rewrite Eo. lia.
Qed.

(** ** the whole SwapToRewardDenom subtree *)
Theorem swap_phase w dp bb stb :
  let e := w_env w in
  w_disp w = Some dp ->
  dp_hub dp = A_hub -> dp_swap dp = A_swap -> dp_oracle dp = A_oracle ->
  dp_std dp = usei -> dp_bd dp <> usei ->
  e_swapmode e = SwOk -> e_oraclemode e = OrOk -> 0 < e_price e -> e_price e <= D * D ->
  (forall d, bal e A_disp d <= LIM) ->
  0 < stb + bb -> stb + bb <= LIM ->
  exists e' n,
    Exec w [(A_hub, MWasm A_disp (WDisp (DSwap bb stb)) [])] (set_env w e') n /\ (n <= 6)%nat /\
    same_nonbank e e' /\
    (forall a d, a <> A_disp -> a <> A_swap -> bal e' a d = bal e a d).
Proof.
  intros e Hwd Hh Hsw Hor Hstd Hbd Hsm Hom Hp0 Hp1 Hbal Hb0 Hb1.
  destruct (disp_swap_ok w dp A_disp A_hub bb stb (eq_sym Hh) Hsw Hor Hstd Hbd Hsm Hom Hp0 Hp1 Hbal Hb0 Hb1)
    as (od & oa & ask & Hex & Hoff & Hco & Hfo).
  fold e in Hex, Hoff, Hco, Hfo.
  set (coins := all_balances e A_disp) in *.
  set (cs := conv_coins dp coins) in *.
  assert (Hne : A_disp <> A_swap) by discriminate.
  assert (Hcs : forall c, In c cs -> In c coins /\ is_conv dp c = true) by (intros c Hc; apply filter_In in Hc; exact Hc).
  assert (Hcspec : forall c, In c cs ->
            fst c <> dp_bd dp /\ fst c <> usei /\ snd c <> 0 /\ snd c = bal e A_disp (fst c)).
  { intros c Hc. destruct (Hcs c Hc) as [Hin Hic]. apply all_balances_spec in Hin.
    unfold is_conv in Hic. rewrite !andb_true_iff in Hic. destruct Hic as [[[_ H1] H2] _]. rewrite Hstd in H1.
    repeat split; try tauto.
    - destruct (fst c =? dp_bd dp) eqn:E; [discriminate | lia].
    - destruct (fst c =? usei) eqn:E; [discriminate | lia]. }
  assert (Hcsnd : NoDup (map fst cs)).
  { assert (G : forall (l : list coin), NoDup (map fst l) -> NoDup (map fst (filter (is_conv dp) l))).
    { induction l as [|c r IH]; intros Hn; [constructor|]. cbn [map] in Hn. inversion Hn as [|? ? Hnin Hn']; subst.
      cbn [filter]. destruct (is_conv dp c); [|apply IH; exact Hn']. cbn [map]. constructor; [|apply IH; exact Hn'].
      intros Hc. apply Hnin. apply in_map_iff in Hc. destruct Hc as [c0 [E Hc0]]. apply filter_In in Hc0.
      rewrite <- E. apply in_map. tauto. }
    apply G. apply all_balances_NoDup. }
  (* the root of the subtree *)
  assert (Hstep : step_msg w A_hub (MWasm A_disp (WDisp (DSwap bb stb)) []) =
     Some (w, map (fun x => (A_disp, x)) (conv_msgs dp coins ++
                (if oa =? 0 then [] else [m_swap A_swap (od, oa) ask None])))).
  { cbn [step_msg]. rewrite send_coins_nil. cbn [bind]. rewrite set_env_same, call_disp, Hwd. cbn [bind].
    rewrite Hex. cbn [bind fst snd]. rewrite (set_disp_same _ _ Hwd). reflexivity. }
  (* the conversion swaps *)
  destruct (exec_swaps w A_disp (dp_bd dp) Hne cs e Hsm Hcsnd) as (e1 & Hex1 & Hnb1 & Hoth1 & Hself1 & Hbd1).
  { intros c Hc. destruct (Hcspec c Hc) as (H1 & H2 & H3 & H4). repeat split; try assumption; [lia|].
    apply Hco. exact Hc. }
  rewrite set_env_same in Hex1.
  assert (Hmsgs1 : map (fun x => (A_disp, x)) (conv_msgs dp coins) =
                   map (fun c => (A_disp, m_swap A_swap c (dp_bd dp) None)) cs).
  { unfold conv_msgs. fold cs. rewrite map_map, Hsw. reflexivity. }
  (* the final swap *)
  destruct (oa =? 0) eqn:Eoa.
  - exists e1, (S (length cs + 0)). split; [|split; [|split]].
    + eapply Exec_cons; [exact Hstep | | constructor].
      rewrite app_nil_r, Hmsgs1. exact Hex1.
    + assert (Hl : (length cs <= 4)%nat).
      { unfold cs, conv_coins. eapply Nat.le_trans; [apply filter_len_le | apply all_balances_length]. }
      lia.
    + exact Hnb1.
    + exact Hoth1.
  - destruct (swap_out e (od, oa) ask) as [o|] eqn:Eo; [|congruence].
    assert (Hm1 : e_swapmode e1 = SwOk) by (destruct Hnb1 as (_ & _ & _ & _ & _ & _ & _ & _ & -> & _); exact Hsm).
    assert (Ho1 : swap_out e1 (od, oa) ask = Some o).
    { rewrite <- Eo. unfold swap_out, stub_rate. destruct Hnb1 as (_ & _ & _ & _ & _ & _ & _ & -> & _). reflexivity. }
    assert (Hcover : oa <= bal e1 A_disp od).
    { destruct Hoff as [(-> & _ & Hle)|(-> & _ & Hle)].
      - rewrite Hself1.
        + eapply N.le_trans; [exact Hle|]. unfold sum_std. rewrite Hstd.
          apply (sum_key_le (bal e A_disp) _ usei coins); [apply all_balances_NoDup|].
          intros c Hc. apply all_balances_spec in Hc. tauto.
        + congruence.
        + intros Hin. apply in_map_iff in Hin. destruct Hin as [c [E Hc]]. destruct (Hcspec c Hc) as (_ & H2 & _). congruence.
      - rewrite Hbd1. eapply N.le_trans; [exact Hle|]. apply N.add_le_mono.
        + unfold sum_bd. apply (sum_key_le (bal e A_disp) _ (dp_bd dp) coins); [apply all_balances_NoDup|].
          intros c Hc. apply all_balances_spec in Hc. tauto.
        + unfold sum_conv, out_of. fold e cs. lia. }
    pose proof (swap_step w e1 A_disp (od, oa) ask o Hm1 ltac:(cbn [snd]; lia) Hcover Ho1) as Hfin.
    exists (swapped e1 A_disp (od, oa) ask o), (S ((length cs + 1) + 0)). split; [|split; [|split]].
    + eapply Exec_cons; [exact Hstep | | constructor].
      rewrite map_app, Hmsgs1. eapply Exec_app; [exact Hex1|]. cbn [map]. apply Exec_leaf. exact Hfin.
    + assert (Hl : (length cs <= 4)%nat).
      { unfold cs, conv_coins. eapply Nat.le_trans; [apply filter_len_le | apply all_balances_length]. }
      lia.
    + eapply same_nonbank_trans; [exact Hnb1 | apply swapped_nonbank].
    + intros a d Ha1 Ha2. rewrite swapped_bal by exact Hne.
      assert (E1 : (a =? A_disp) = false) by lia. assert (E2 : (a =? A_swap) = false) by lia.
      rewrite E1, E2. cbn [andb]. rewrite N.add_0_r. apply Hoth1; assumption.
Qed.
