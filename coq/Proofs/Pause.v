(** * Pause (C11) *)
From Krp Require Import Tactics Prelude Fixed FMap Types Env Registry Cw20 Hub Exec HubFrame HubAdmin Auth.
Open Scope N_scope.

(** 1. while paused every message other than UpdateParams and the legacy migration fails,
       for every sender and every payload *)
Theorem paused_blocks w h self sender funds m :
  paused h = true ->
  (forall a b c d e f, m <> HParams a b c d e f) -> (forall l, m <> HMigrate l) ->
  hub_execute w h self sender funds m = None.
Proof.
  intros Hp H1 H2. unfold hub_execute.
  destruct m; try (rewrite Hp; reflexivity).
  - exfalso. eapply H1. reflexivity.
  - exfalso. eapply H2. reflexivity.
Qed.

(** 2. UpdateParams is owner-only also while paused *)
Theorem paused_params_owner_only w h self sender funds a b c d e f h' out :
  hub_execute w h self sender funds (HParams a b c d e f) = Some (h', out) ->
  sender = hc_creator (h_cfg h).
Proof. unfold hub_execute. intros H. apply update_params_spec in H. tauto. Qed.

(** 3. the hub cannot be unpaused (paused omitted or false) while legacy entries remain *)
Theorem no_unpause_with_legacy h sender a b c d pz f :
  h_oldwait h <> [] -> pz <> Some true ->
  execute_update_params h sender a b c d pz f = None.
Proof.
  intros Hl Hz. destruct (execute_update_params h sender a b c d pz f) as [[h' out]|] eqn:E; [|reflexivity].
  apply update_params_spec in E. destruct E as (_ & _ & Hw & _). exfalso. apply Hl. apply Hw. exact Hz.
Qed.

(** the migration itself clears the flag only when no legacy entry remains *)
Theorem migrate_unpauses_only_when_drained h limit :
  hp_paused (h_params (migrate_wait_lists h limit)) <> hp_paused (h_params h) ->
  h_oldwait (migrate_wait_lists h limit) = [].
Proof.
  unfold migrate_wait_lists.
  destruct (firstn _ (h_oldwait h)) as [|e0 er] eqn:Ef; [congruence|].
  destruct (fold_left _ (e0 :: er) (h_oldwait h)) eqn:Eo; cbn; [reflexivity|congruence].
Qed.

(** 4. queries do not depend on the pause flag *)
Definition with_paused (h : hub) (pz : option bool) : hub :=
  let p := h_params h in
  set_h_params h (mkHubParams (hp_epoch p) (hp_underlying p) (hp_unbonding p) (hp_pegfee p) (hp_thr p)
                              (hp_rdenom p) pz).

Theorem queries_ignore_pause w self h pz u start limit :
  query_actual_state w self (with_paused h pz) = query_actual_state w self h /\
  hub_query_history (with_paused h pz) start limit = hub_query_history h start limit /\
  user_waits (with_paused h pz) u = user_waits h u /\
  h_batch (with_paused h pz) = h_batch h /\ h_cfg (with_paused h pz) = h_cfg h.
Proof. repeat split. Qed.

(** 5. a pause / unpause cycle that carries no other field restores the hub state exactly,
       up to the representation of the cleared flag *)
Theorem pause_sets_only_flag h sender pz h' out :
  HPInv h ->
  execute_update_params h sender None None None None pz None = Some (h', out) ->
  h' = with_paused h pz /\ out = [].
Proof.
  intros [_ Ht] H. apply update_params_spec in H. destruct H as (_ & _ & _ & -> & ->).
  split; [|reflexivity]. unfold with_paused, new_params. cbn [opt_or].
  replace (N.min (hp_thr (h_params h)) D) with (hp_thr (h_params h)) by lia. reflexivity.
Qed.

Theorem with_paused_twice h a b : with_paused (with_paused h a) b = with_paused h b.
Proof. reflexivity. Qed.

Theorem pause_cycle_identity h s1 s2 h1 h2 o1 o2 pz :
  HPInv h -> h_oldwait h = [] ->
  execute_update_params h s1 None None None None (Some true) None = Some (h1, o1) ->
  execute_update_params h1 s2 None None None None pz None = Some (h2, o2) ->
  h2 = with_paused h pz /\ paused h2 = (match pz with Some b => b | None => false end).
Proof.
  intros Hi Hl H1 H2.
  apply pause_sets_only_flag in H1; [|exact Hi]. destruct H1 as [-> _].
  apply pause_sets_only_flag in H2; [|exact Hi]. destruct H2 as [-> _].
  rewrite with_paused_twice. split; [reflexivity|]. unfold paused, with_paused. cbn. reflexivity.
Qed.

(** with no legacy entries the migration message is a no-op *)
Theorem migrate_noop h limit : h_oldwait h = [] -> migrate_wait_lists h limit = h.
Proof.
  intros Hl. unfold migrate_wait_lists. rewrite Hl.
  destruct (N.to_nat (N.min (opt_or limit 1000) 100000)); reflexivity.
Qed.

(** world level: while the hub is paused, a transaction whose root is a hub message other than
    UpdateParams / MigrateUnbondWaitList fails and changes nothing *)
Theorem paused_tx_rejected w h sender funds m :
  w_hub w = Some h -> paused h = true ->
  (forall a b c d e f, m <> HParams a b c d e f) -> (forall l, m <> HMigrate l) ->
  step w (OTx sender A_hub (WHub m) funds) = (w, (false, [])).
Proof.
  intros Hw Hp H1 H2. apply tx_root_rejected. intros e1 _.
  unfold call. cbn [N.eqb]. rewrite N.eqb_refl. cbn [w_hub set_env]. rewrite Hw. cbn [bind].
  rewrite paused_blocks; auto.
Qed.
