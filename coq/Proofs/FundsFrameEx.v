(** * FundsFrameEx: non-vacuity examples for Proofs/FundsFrame.v (vm_compute on a concrete world).

    [FF_w]: the wired world of ExitWorld.v (alice bonded 1 000 000 for bSei, bob 2 000 000 for stSei);
    then alice unbonds 400 000 bSei and bob 300 000 stSei, the epoch passes, alice's next unbond of
    1 000 bSei closes batch 1 (701 000 usei undelegated), and the unbonding period passes: batch 1 is
    matured and unreleased, the hub holds 701 000 usei, alice holds 9 000 000 usei and no uusd.

    - [FF_ex_withdraw]      WithdrawUnbonded by alice with 777 usei attached: both sides of the
                            decomposition compute to the same world; the 777 usei count as arrived
                            coins of the release (alice is paid 401 442 instead of 401 000);
    - [FF_ex_token_send]    a bSei Send (unbond hook) with 5 usei attached: both sides equal, the 5 usei
                            stay on the token contract's account;
    - [FF_ex_cannot_pay]    alice attaches 3 uusd she does not have: send_coins fails, the transaction
                            fails, the world is unchanged, although the plain WithdrawUnbonded succeeds;
    - [FF_ex_rollback]      updater (no claim) attaches 777 usei it does have... (it has none: see below)
                            handler failure after a successful transfer rolls the transfer back;
    - [FF_bond_not_decomposable_witness]
                            the exclusion of the bond messages is necessary: Bond with 1000 usei
                            succeeds, the transfer followed by a plain Bond fails;
    - [FF_ex_bond_extra]    Bond with [(usei,1000); (usei,1)] fails (and any list of length <> 1). *)
From Krp Require Import Tactics Prelude Fixed FMap Types Env Registry Cw20 Reward Dispatcher Hub Exec
     ExecP Hist BooksEnv ExitWorld FundsFrame.
Open Scope N_scope.

Definition FF_ops : list op :=
  genesis_ops ++
  [ OTx alice A_bsei (WCw20 (CSend A_hub 400000 HkUnbond)) [];
    OTx bob A_stsei (WCw20 (CSend A_hub 300000 HkUnbond)) [];
    OAdvance 31;
    OTx alice A_bsei (WCw20 (CSend A_hub 1000 HkUnbond)) [];
    OAdvance 100 ].
Definition FF_w : world := run_ops FF_ops (empty_world 100).

(** the world after the transfer of [f] from [s] to [t] (the start world if the sender cannot pay) *)
Definition FF_after_transfer (w : world) (s t : addr) (f : list coin) : world :=
  match send_coins (w_env w) s t f with Some e1 => set_env w e1 | None => w end.

Example FF_ex_world :
  bal (w_env FF_w) A_hub usei = 701000 /\ bal (w_env FF_w) alice usei = 9000000 /\
  bal (w_env FF_w) alice uusd = 0 /\ bal (w_env FF_w) bob usei = 8000000.
Proof. repeat split; vm_compute; reflexivity. Qed.

Example FF_ex_withdraw :
  let f := [(usei, 777)] in
  let w1 := FF_after_transfer FF_w alice A_hub f in
  let w' := fst (step FF_w (OTx alice A_hub (WHub HWithdraw) f)) in
  is_some (send_coins (w_env FF_w) alice A_hub f) = true /\
  bal (w_env w1) A_hub usei = 701777 /\
  step FF_w (OTx alice A_hub (WHub HWithdraw) f) =
    (w', (true, [(alice, MWasm A_hub (WHub HWithdraw) f); (A_hub, MBank alice [(usei, 401442)])])) /\
  step w1 (OTx alice A_hub (WHub HWithdraw) []) =
    (w', (true, [(alice, MWasm A_hub (WHub HWithdraw) []); (A_hub, MBank alice [(usei, 401442)])])) /\
  bal (w_env w') A_hub usei = 300335 /\ bal (w_env w') alice usei = 9400665 /\
  (* without attached coins the same claim is worth 401 000 *)
  snd (step FF_w (OTx alice A_hub (WHub HWithdraw) [])) =
    (true, [(alice, MWasm A_hub (WHub HWithdraw) []); (A_hub, MBank alice [(usei, 401000)])]).
Proof. cbv zeta. repeat split; vm_compute; reflexivity. Qed.

Example FF_ex_token_send :
  let f := [(usei, 5)] in
  let m := WCw20 (CSend A_hub 1000 HkUnbond) in
  let w1 := FF_after_transfer FF_w alice A_bsei f in
  let w' := fst (step FF_w (OTx alice A_bsei m f)) in
  is_some (send_coins (w_env FF_w) alice A_bsei f) = true /\
  fst (snd (step FF_w (OTx alice A_bsei m f))) = true /\
  step w1 (OTx alice A_bsei m []) = (w', (true, (alice, MWasm A_bsei m []) :: tl (snd (snd (step FF_w (OTx alice A_bsei m f)))))) /\
  snd (snd (step FF_w (OTx alice A_bsei m f))) =
    (alice, MWasm A_bsei m f) :: tl (snd (snd (step w1 (OTx alice A_bsei m [])))) /\
  length (snd (snd (step FF_w (OTx alice A_bsei m f)))) = 9%nat /\
  bal (w_env w') A_bsei usei = 5 /\ bal (w_env w') A_hub usei = 701000 /\
  w' <> fst (step FF_w (OTx alice A_bsei m [])).
Proof.
  cbv zeta. repeat split; try (vm_compute; reflexivity).
  intros H. apply (f_equal (fun w => bal (w_env w) A_bsei usei)) in H. vm_compute in H. discriminate H.
Qed.

(** the sender cannot pay *)
Example FF_ex_cannot_pay :
  let f := [(usei, 777); (uusd, 3)] in
  send_coins (w_env FF_w) alice A_hub f = None /\
  step FF_w (OTx alice A_hub (WHub HWithdraw) f) = (FF_w, (false, [])) /\
  fst (snd (step FF_w (OTx alice A_hub (WHub HWithdraw) []))) = true.
Proof.
  cbv zeta. assert (E : send_coins (w_env FF_w) alice A_hub [(usei, 777); (uusd, 3)] = None)
    by (vm_compute; reflexivity).
  split; [exact E|]. split; [exact (FF_tx_cannot_pay _ _ _ _ _ E) | vm_compute; reflexivity].
Qed.

(** the transfer succeeds, the handler fails (keeper has coins after a gift but no claim): everything is
    rolled back *)
Example FF_ex_rollback :
  let w := fst (step FF_w (OGift keeper usei 1000)) in
  let f := [(usei, 777)] in
  is_some (send_coins (w_env w) keeper A_hub f) = true /\
  fst (snd (step (FF_after_transfer w keeper A_hub f) (OTx keeper A_hub (WHub HWithdraw) []))) = false /\
  step w (OTx keeper A_hub (WHub HWithdraw) f) = (w, (false, [])).
Proof.
  cbv zeta. split; [vm_compute; reflexivity|]. split; [vm_compute; reflexivity|].
  apply FF_tx_failed_unchanged. vm_compute. reflexivity.
Qed.

(** the bond messages must be excluded from the decomposition *)
Lemma FF_bond_not_decomposable_witness :
  let f := [(usei, 1000)] in
  FF_reads_funds A_hub (WHub HBond) = true /\
  fst (snd (step FF_w (OTx alice A_hub (WHub HBond) f))) = true /\
  is_some (send_coins (w_env FF_w) alice A_hub f) = true /\
  fst (snd (step (FF_after_transfer FF_w alice A_hub f) (OTx alice A_hub (WHub HBond) []))) = false.
Proof. cbv zeta. repeat split; vm_compute; reflexivity. Qed.

Example FF_ex_bond_extra :
  fst (snd (step FF_w (OTx alice A_hub (WHub HBond) [(usei, 1000)]))) = true /\
  step FF_w (OTx alice A_hub (WHub HBond) ([(usei, 1000)] ++ [(usei, 1)])) = (FF_w, (false, [])) /\
  step FF_w (OTx alice A_hub (WHub HBond) []) = (FF_w, (false, [])) /\
  step FF_w (OTx alice A_hub (WHub HBond) [(uusd, 1000)]) = (FF_w, (false, [])).
Proof.
  split; [vm_compute; reflexivity|].
  split; [apply FF_bond_tx_append_fails; [reflexivity | discriminate]|].
  split; [apply FF_bond_tx_extra_fails; [reflexivity | discriminate]|].
  assert (Eh : exists h, w_hub FF_w = Some h /\ hp_underlying (h_params h) = usei).
  { destruct (w_hub FF_w) as [h|] eqn:E; [|vm_compute in E; discriminate E].
    exists h. split; [reflexivity|]. vm_compute in E. inversion E; subst h. reflexivity. }
  destruct Eh as (h & Eh & Eu).
  apply (FF_bond_tx_wrong_coin_fails _ _ _ h); [reflexivity | exact Eh |].
  left. rewrite Eu. discriminate.
Qed.
