(** * IndexPhases: the legs of an UpdateGlobalIndex transaction as big-step executions (C19).
    - [withdraw_phase]: the MWithdrawReward messages;
    - [bank_step], [seg_b]: the bSei-side transfers of DispatchRewards (keeper fee, reward contract);
    - [do_delegate_ok], [exec_delegates]: the MDelegate messages of BondRewards;
    - [bond_phase]: BondRewards with its delegations;
    - [seg_s]: the stSei-side messages of DispatchRewards (keeper fee, BondRewards);
    - [reward_phase]: the reward contract's index update. *)
From Coq Require Import Permutation.
From Krp Require Import Tactics Prelude Fixed FMap Types Env Registry Cw20 Reward Dispatcher Hub Exec
     RegistryP DispatcherP Inv IndexRun IndexEnv IndexHandlers IndexSwap.
Open Scope N_scope.
Ltac Zify.zify_post_hook ::= Z.div_mod_to_equations.

(** ** withdrawals *)
Lemma withdraw_phase vs : forall w,
  (forall v, In v vs -> delegation (w_env w) A_hub v <> None) ->
  Exec w (map (fun v => (A_hub, MWithdrawReward v)) vs)
       (set_env w (withdraw_all A_hub vs (w_env w))) (length vs).
Proof.
  induction vs as [|v r IH]; intros w H.
  - cbn [map withdraw_all fold_left length]. rewrite set_env_same. constructor.
  - cbn [map length]. eapply Exec_leaf_cons.
    + cbn [step_msg]. unfold do_withdraw_reward.
      destruct (delegation (w_env w) A_hub v) eqn:E; [|exfalso; apply (H v); [left; reflexivity | exact E]].
      cbn [bind]. reflexivity.
    + specialize (IH (set_env w (payout (w_env w) A_hub v))).
      change (w_env (set_env w (payout (w_env w) A_hub v))) with (payout (w_env w) A_hub v) in IH.
      apply IH. intros u Hu. rewrite payout_delegation. apply H. right. exact Hu.
Qed.

(** ** bank transfers *)
Lemma bank_step w e s to d x :
  x <> 0 -> x <= bal e s d ->
  step_msg (set_env w e) s (MBank to [(d, x)]) = Some (set_env w (xfer e s to d x), []).
Proof.
  intros Hx Hle. cbn [step_msg]. change (w_env (set_env w e)) with e.
  rewrite bank_send_one, (send_coin_ok _ _ _ _ _ Hx Hle). reflexivity.
Qed.

Lemma bal_xfer e from to d x a d' :
  from <> to ->
  bal (xfer e from to d x) a d' =
  if d' =? d then (if a =? from then bal e a d - x else if a =? to then bal e a d + x else bal e a d)
  else bal e a d'.
Proof.
  intros Hne. unfold xfer. rewrite bal_credit, !bal_debited.
  assert (E : (to =? from) = false) by lia. rewrite E. cbn [andb].
  destruct (d' =? d) eqn:Ed; rewrite ?andb_false_r; [|reflexivity].
  apply N.eqb_eq in Ed. subst d'. rewrite !andb_true_r.
  destruct (a =? to) eqn:E1; destruct (a =? from) eqn:E2;
    try (apply N.eqb_eq in E1); try (apply N.eqb_eq in E2); subst; try reflexivity; congruence.
Qed.

(** the bSei-side transfers of DispatchRewards *)
Lemma seg_b w e keeper bd X kb :
  X = bal e A_disp bd -> kb <= X -> (X <> 0 -> kb <> 0 /\ X - kb <> 0) ->
  keeper <> A_disp ->
  exists e' n,
    Exec (set_env w e)
         (map (fun m => (A_disp, m))
              (if X =? 0 then [] else [MBank keeper [(bd, kb)]; MBank A_reward [(bd, X - kb)]]))
         (set_env w e') n /\ (n <= 2)%nat /\ same_nonbank e e' /\
    forall a d, bal e' a d =
      if d =? bd then
        (if a =? A_disp then 0
         else bal e a d + (if a =? keeper then kb else 0) + (if a =? A_reward then X - kb else 0))
      else bal e a d.
Proof.
  intros HX Hkb Hnz Hk. destruct (X =? 0) eqn:E0.
  - exists e, 0%nat. split; [constructor|]. split; [lia|]. split; [apply same_nonbank_refl|].
    intros a d. destruct (d =? bd) eqn:Ed; [|reflexivity]. apply N.eqb_eq in Ed. subst d.
    destruct (a =? A_disp) eqn:Ea; [apply N.eqb_eq in Ea; subst a; lia|].
    assert (kb = 0) by lia. assert (X - kb = 0) by lia.
    destruct (a =? keeper), (a =? A_reward); lia.
  - destruct Hnz as [Hkb0 Hrest0]; [lia|].
    set (e1 := xfer e A_disp keeper bd kb).
    set (e2 := xfer e1 A_disp A_reward bd (X - kb)).
    assert (Hd : A_disp <> A_reward) by discriminate.
    assert (Hk' : A_disp <> keeper) by congruence.
    exists e2, 2%nat. split; [|split; [lia|split]].
    + cbn [map]. eapply Exec_leaf_cons; [apply bank_step; [exact Hkb0 | lia]|].
      apply Exec_leaf. apply bank_step; [exact Hrest0|].
      unfold e1. rewrite bal_xfer by exact Hk'. rewrite !N.eqb_refl. lia.
    + unfold same_nonbank. repeat split.
    + intros a d. unfold e2, e1. rewrite !bal_xfer by assumption.
      destruct (d =? bd) eqn:Ed; [|reflexivity]. apply N.eqb_eq in Ed. subst d.
      assert (Ea1 : (A_disp =? keeper) = false) by lia.
      change (A_reward =? A_disp) with false. change (A_disp =? A_reward) with false.
      rewrite !N.eqb_refl, ?Ea1.
      destruct (a =? A_disp) eqn:Ea.
      * apply N.eqb_eq in Ea. subst a. lia.
      * destruct (a =? A_reward); destruct (a =? keeper); lia.
Qed.

(** ** delegations *)
Definition delegated_to (e : env) (x : addr) (v : val) (amt : N) : env :=
  let e2 := debited e x usei amt in
  set_del e2 (set eqbNN (e_del e2) (x, v)
                ((match delegation e2 x v with Some a => a | None => 0 end) + amt)).

Lemma do_delegate_ok e x v amt :
  amt <> 0 -> is_val v = true -> amt <= bal e x usei ->
  (delegation e x v <> None -> forall d, In d DENOMS -> pending e x v d = 0) ->
  do_delegate e x v (usei, amt) = Some (delegated_to e x v amt).
Proof.
  intros Hnz Hv Hle Hp. unfold do_delegate, staking_coin_ok. cbn [fst snd].
  change (usei =? usei) with true. assert (E : (amt =? 0) = false) by lia. rewrite E. cbn [negb andb].
  rewrite Hv. assert (E2 : (amt <=? bal e x usei) = true) by lia. rewrite E2.
  assert (Hpe : payout_if_entry e x v = e).
  { unfold payout_if_entry. destruct (delegation e x v) eqn:Ed; [|reflexivity].
    apply payout_noop. apply Hp. congruence. }
  rewrite Hpe, debit_ok by exact Hle. reflexivity.
Qed.

Lemma delegated_to_delegation e x v amt x' v' :
  delegation (delegated_to e x v amt) x' v' =
  if (x' =? x) && (v' =? v)
  then Some ((match delegation e x v with Some a => a | None => 0 end) + amt)
  else delegation e x' v'.
Proof. unfold delegated_to. cbn zeta. apply (delegation_set e (debited e x usei amt)). reflexivity. Qed.

Lemma delegated_to_bal e x v amt a d :
  bal (delegated_to e x v amt) a d = if (a =? x) && (d =? usei) then bal e x usei - amt else bal e a d.
Proof. unfold delegated_to. cbn zeta. change (bal (set_del ?e0 _) a d) with (bal e0 a d). apply bal_debited. Qed.

(** everything except bank and delegations *)
Definition same_misc (e e' : env) : Prop :=
  e_now e' = e_now e /\ e_ut e' = e_ut e /\ e_unb e' = e_unb e /\
  e_pend e' = e_pend e /\ e_wdaddr e' = e_wdaddr e /\ e_noredel e' = e_noredel e /\
  e_price e' = e_price e /\ e_swapmode e' = e_swapmode e /\ e_oraclemode e' = e_oraclemode e.

Lemma same_misc_refl e : same_misc e e.
Proof. unfold same_misc. repeat split. Qed.

Lemma same_misc_trans e1 e2 e3 : same_misc e1 e2 -> same_misc e2 e3 -> same_misc e1 e3.
Proof. unfold same_misc. intuition congruence. Qed.

Lemma same_nonbank_misc e e' : same_nonbank e e' -> same_misc e e' /\ e_del e' = e_del e.
Proof. unfold same_nonbank, same_misc. intuition. Qed.

Lemma same_misc_pending e e' x v d : same_misc e e' -> pending e' x v d = pending e x v d.
Proof. intros (_ & _ & _ & H & _). unfold pending. rewrite H. reflexivity. Qed.

Lemma exec_delegates w : forall ps e,
  NoDup (map fst ps) ->
  (forall p, In p ps -> is_val (fst p) = true /\ snd p <> 0) ->
  sumN (map snd ps) <= bal e A_hub usei ->
  (forall v d, In v (map fst ps) -> delegation e A_hub v <> None -> In d DENOMS -> pending e A_hub v d = 0) ->
  exists e',
    Exec (set_env w e) (map (fun p => (A_hub, MDelegate (fst p) (usei, snd p))) ps) (set_env w e') (length ps) /\
    same_misc e e' /\
    (forall a d, bal e' a d =
       if (a =? A_hub) && (d =? usei) then bal e a d - sumN (map snd ps) else bal e a d) /\
    delegated e' A_hub = delegated e A_hub + sumN (map snd ps) /\
    (forall y, y <> A_hub -> delegated e' y = delegated e y) /\
    (forall v, delegation e A_hub v <> None -> delegation e' A_hub v <> None).
Proof.
  induction ps as [|p r IH]; intros e Hnd Hall Hsum Hpend.
  - exists e. cbn [map length sumN]. split; [constructor|]. split; [apply same_misc_refl|].
    split; [|split; [lia|split; [reflexivity|tauto]]].
    intros a d. destruct ((a =? A_hub) && (d =? usei)); lia.
  - cbn [map sumN] in *. inversion Hnd as [|? ? Hnin Hnd']; subst.
    destruct (Hall p (or_introl eq_refl)) as [Hv Hnz].
    set (e1 := delegated_to e A_hub (fst p) (snd p)).
    assert (Hstep : do_delegate e A_hub (fst p) (usei, snd p) = Some e1).
    { apply do_delegate_ok; [exact Hnz | exact Hv | lia |]. intros Hd d Hin. apply Hpend; [left; reflexivity | exact Hd | exact Hin]. }
    assert (Hmisc1 : same_misc e e1) by (unfold same_misc; repeat split).
    destruct (IH e1) as (e' & Hex & Hmisc & Hbal & Hdel & Hoth & Hkeep).
    + exact Hnd'.
    + intros q Hq. apply Hall. right. exact Hq.
    + unfold e1. rewrite delegated_to_bal. rewrite !N.eqb_refl. cbn [andb]. lia.
    + intros v d Hvin Hd Hin. rewrite (same_misc_pending e e1) by exact Hmisc1.
      apply Hpend; [right; exact Hvin | | exact Hin].
      unfold e1 in Hd. rewrite delegated_to_delegation in Hd. rewrite N.eqb_refl in Hd. cbn [andb] in Hd.
      assert (E : (v =? fst p) = false) by (apply N.eqb_neq; intros ->; contradiction).
      rewrite E in Hd. exact Hd.
    + pose proof (delegated_set e e1 A_hub (fst p) (snd p) Hv (delegated_to_delegation e A_hub (fst p) (snd p)))
        as [Hd1 Hd2].
      exists e'. split; [|split; [|split; [|split; [|split]]]].
      * cbn [length]. eapply Exec_leaf_cons; [|exact Hex].
        cbn [step_msg]. change (w_env (set_env w e)) with e. rewrite Hstep. reflexivity.
      * exact (same_misc_trans _ _ _ Hmisc1 Hmisc).
      * intros a d. rewrite Hbal. unfold e1. rewrite !delegated_to_bal.
        destruct ((a =? A_hub) && (d =? usei)) eqn:E; [|reflexivity].
        apply andb_true_iff in E. destruct E as [E1 E2]. apply N.eqb_eq in E1, E2. subst. rewrite ?N.eqb_refl.
        cbn [andb]. lia.
      * rewrite Hdel, Hd1. lia.
      * intros y Hy. rewrite Hoth, Hd2 by exact Hy. reflexivity.
      * intros v Hd. apply Hkeep. unfold e1. rewrite delegated_to_delegation. rewrite N.eqb_refl. cbn [andb].
        destruct (v =? fst p); [discriminate | exact Hd].
Qed.

(** ** the registry's view *)
Definition RegOk (g : registry) : Prop :=
  rg_vals g <> [] /\ NoDup (rg_vals g) /\ (forall v, In v (rg_vals g) -> is_val v = true).

Lemma RegOk_length g : RegOk g -> (length (rg_vals g) <= 12)%nat.
Proof.
  intros (_ & Hnd & Hv). change 12%nat with (length VALS).
  apply NoDup_incl_length; [exact Hnd|]. intros v Hin. apply In_VALS. apply Hv. exact Hin.
Qed.

Lemma rqv_fst w g : map fst (reg_query_validators w g) = rg_vals g.
Proof. unfold reg_query_validators. rewrite map_map. cbn [fst]. apply map_id. Qed.

Lemma vfd_spec w h g :
  hc_reg (h_cfg h) = Some A_reg -> w_reg w = Some g ->
  validators_for_delegation w h = Some (sort_asc (reg_query_validators w g)).
Proof.
  intros Hr Hg. unfold validators_for_delegation, reg_validators_for_delegation. rewrite Hr. cbn [bind].
  change (A_reg =? A_reg) with true. cbn match. rewrite Hg. reflexivity.
Qed.

Lemma vals_facts w g :
  RegOk g -> rg_hub g = A_hub -> delegated (w_env w) A_hub <= LIM ->
  let vals := sort_asc (reg_query_validators w g) in
  vals <> [] /\ (length vals <= 12)%nat /\ NoDup (map fst vals) /\
  (forall v, In v (map fst vals) -> is_val v = true) /\
  sumN (map snd vals) <= 12 * LIM.
Proof.
  intros Hok Hh Hdel vals.
  pose proof (stable_sort_perm (fun a b : val * N => snd a <? snd b) (reg_query_validators w g)) as Hperm.
  fold (sort_asc (reg_query_validators w g)) in Hperm. fold vals in Hperm.
  pose proof (RegOk_length g Hok) as Hlen. destruct Hok as (Hne & Hnd & Hv).
  assert (Hl : length vals = length (rg_vals g)).
  { rewrite (Permutation_length Hperm). unfold reg_query_validators. apply map_length. }
  assert (Hpf : Permutation (map fst vals) (rg_vals g)).
  { rewrite <- (rqv_fst w g). apply Permutation_map. exact Hperm. }
  split; [|split; [|split; [|split]]].
  - intros E. rewrite E in Hl. cbn in Hl. destruct (rg_vals g); [congruence | discriminate].
  - lia.
  - eapply Permutation_NoDup; [apply Permutation_sym; exact Hpf | exact Hnd].
  - intros v Hin. apply Hv. eapply Permutation_in; [exact Hpf | exact Hin].
  - rewrite (sumN_perm _ _ (Permutation_map snd Hperm)).
    unfold reg_query_validators. rewrite map_map. cbn [snd].
    assert (G : forall l, (forall v, In v l -> is_val v = true) ->
              sumN (map (fun v => match get N.eqb (all_delegations (w_env w) (rg_hub g)) v with
                                  | Some a => a | None => 0 end) l) <= N.of_nat (length l) * LIM).
    { induction l as [|v l IH]; intros Hvl; [cbn; lia|]. cbn [map sumN length].
      specialize (IH (fun u Hu => Hvl u (or_intror Hu))).
      assert (Hone : match get N.eqb (all_delegations (w_env w) (rg_hub g)) v with Some a => a | None => 0 end <= LIM).
      { rewrite Hh, all_delegations_sel, get_sel.
        destruct (existsb (N.eqb v) VALS); [|lia].
        destruct (delegation (w_env w) A_hub v) as [a|] eqn:Ed; [|lia].
        eapply N.le_trans; [|exact Hdel]. unfold delegated. rewrite all_delegations_sel.
        apply (sel_entry_le _ VALS v a); [|exact Ed]. apply In_VALS. apply Hvl. left. reflexivity. }
      lia. }
    specialize (G (rg_vals g) Hv). nia.
Qed.

(** ** BondRewards and its delegations *)
Lemma call_hub w s hm f :
  call w s A_hub (WHub hm) f =
  (do h <- w_hub w; do r <- hub_execute w h A_hub s f hm; Some (set_hub w (fst r), snd r)).
Proof. reflexivity. Qed.

Lemma bond_phase w h g tb ts e rb :
  w_hub w = Some h -> w_reg w = Some g -> w_bsei w = Some tb -> w_stsei w = Some ts ->
  hc_disp (h_cfg h) = Some A_disp -> hc_reg (h_cfg h) = Some A_reg ->
  hc_bsei (h_cfg h) = Some A_bsei -> hc_stsei (h_cfg h) = Some A_stsei ->
  hp_underlying (h_params h) = usei -> paused h = false ->
  rg_hub g = A_hub -> RegOk g ->
  rb <> 0 -> rb <= bal e A_disp usei -> rb <= LIM ->
  delegated e A_hub <= LIM -> hs_bb (h_state h) + hs_bst (h_state h) <= LIM ->
  claims_b h tb <= LIM -> claims_st h ts <= LIM ->
  (forall v d, is_val v = true -> delegation e A_hub v <> None -> In d DENOMS -> pending e A_hub v d = 0) ->
  exists s1 ser e' n,
    query_actual_state (set_env w e) A_hub h = Some s1 /\
    exchange_rate (hs_bst s1 + rb) (tk_supply ts) (cb_reqst (h_batch h)) = Some ser /\
    ser = rate_of (hs_bst s1 + rb) (claims_st h ts) /\
    Exec (set_env w e) [(A_disp, MWasm A_hub (WHub HBondRewards) [(usei, rb)])]
         (set_env (set_hub w (set_h_state h (bonded_rewards s1 rb ser))) e') n /\ (n <= 13)%nat /\
    same_misc e e' /\
    (forall a d, bal e' a d = if (a =? A_disp) && (d =? usei) then bal e a d - rb else bal e a d) /\
    delegated e' A_hub = delegated e A_hub + rb /\
    (forall y, y <> A_hub -> delegated e' y = delegated e y) /\
    (forall v, delegation e A_hub v <> None -> delegation e' A_hub v <> None).
Proof.
  intros Hwh Hwg Hwb Hws Hcd Hcr Hcb Hcs Hu Hpz Hgh Hok Hnz Hle Hlim Hdel Hbook Hclb Hcls Hpend.
  pose proof LIM_fits as HL.
  set (ea := xfer e A_disp A_hub usei rb).
  set (wa := set_env w ea).
  assert (Hdelea : e_del ea = e_del e) by reflexivity.
  (* slashing synchronisation *)
  destruct (qas_ok wa A_hub h tb ts Hu Hcb Hcs Hwb Hws) as (s1 & Hq & Hb1 & Hb2 & _).
  { unfold wa. cbn [w_env set_env]. rewrite (delegated_ext e ea A_hub Hdelea). exact Hdel. }
  { exact Hbook. } { exact Hclb. } { exact Hcls. }
  assert (Hq0 : query_actual_state (set_env w e) A_hub h = Some s1).
  { rewrite <- Hq. apply qas_ext; reflexivity. }
  assert (Hser : exchange_rate (hs_bst s1 + rb) (tk_supply ts) (cb_reqst (h_batch h)) =
                 Some (rate_of (hs_bst s1 + rb) (claims_st h ts))).
  { unfold claims_st in *. apply exchange_rate_ok; lia. }
  set (ser := rate_of (hs_bst s1 + rb) (claims_st h ts)) in *.
  (* validators *)
  pose proof (vals_facts wa g Hok Hgh) as Hvf. cbn zeta in Hvf.
  set (vals := sort_asc (reg_query_validators wa g)) in *.
  destruct Hvf as (Hvne & Hvlen & Hvnd & Hvval & Hvsum).
  { unfold wa. cbn [w_env set_env]. rewrite (delegated_ext e ea A_hub Hdelea). exact Hdel. }
  destruct (deleg_total rb (map snd vals)) as (xs & Hxs & Hxlen & Hxsum).
  { destruct vals; [congruence | discriminate]. }
  { lia. }
  rewrite map_length in Hxlen.
  assert (Hbond : execute_bond wa h A_hub A_disp [(usei, rb)] BkRw =
                  Some (set_h_state h (bonded_rewards s1 rb ser), delegate_msgs vals xs usei)).
  { rewrite <- Hu. apply (bond_rewards_ok wa h A_hub A_disp rb s1 (tk_supply ts) ser vals xs); try assumption.
    - unfold hub_stsei_supply, query_total_supply, token_at. rewrite Hcs. cbn [bind].
      change (A_stsei =? A_bsei) with false. change (A_stsei =? A_stsei) with true. cbn match.
      unfold wa. cbn [w_stsei set_env]. rewrite Hws. reflexivity.
    - unfold claims_st in Hcls. lia.
    - lia.
    - apply vfd_spec; [exact Hcr | exact Hwg]. }
  (* the delegations *)
  set (ps := deleg_pairs vals xs).
  set (h2 := set_h_state h (bonded_rewards s1 rb ser)).
  assert (Hbalea : forall a d, bal ea a d =
            if d =? usei then (if a =? A_disp then bal e a usei - rb else if a =? A_hub then bal e a usei + rb else bal e a usei)
            else bal e a d).
  { intros a d. unfold ea. apply bal_xfer. discriminate. }
  destruct (exec_delegates (set_hub w h2) ps ea) as (e' & Hex & Hmisc & Hbal & Hdl & Hoth & Hkeep).
  { apply deleg_pairs_NoDup. exact Hvnd. }
  { intros p Hp. split; [|eapply deleg_pairs_nz; exact Hp].
    apply Hvval. eapply deleg_pairs_fst_incl. apply in_map. exact Hp. }
  { unfold ps. rewrite deleg_pairs_sum by exact Hxlen. rewrite Hxsum, Hbalea.
    change (usei =? usei) with true. change (A_hub =? A_disp) with false. change (A_hub =? A_hub) with true.
    cbn match. lia. }
  { intros v d Hvin Hd Hin. change (pending ea A_hub v d) with (pending e A_hub v d). apply Hpend; [| |exact Hin].
    - apply Hvval. eapply deleg_pairs_fst_incl. exact Hvin.
    - exact Hd. }
  assert (Hps : sumN (map snd ps) = rb) by (unfold ps; rewrite deleg_pairs_sum by exact Hxlen; exact Hxsum).
  exists s1, ser, e', (S (length ps + 0)).
  split; [exact Hq0|]. split; [exact Hser|]. split; [reflexivity|].
  split; [|split; [|split; [|split; [|split; [|split]]]]].
  - eapply Exec_cons; [| exact Hex | constructor].
    cbn [step_msg]. change (w_env (set_env w e)) with e.
    rewrite send_coins_one, (send_coin_ok _ _ _ _ _ Hnz Hle). cbn [bind]. fold ea.
    change (set_env (set_env w e) ea) with wa.
    rewrite call_hub. unfold wa at 1. cbn [w_hub set_env]. rewrite Hwh. cbn [bind].
    unfold hub_execute. unfold paused in Hpz. unfold paused. rewrite Hpz. cbn [negb].
    rewrite Hbond. cbn [bind fst snd]. rewrite delegate_msgs_pairs, map_map. reflexivity.
  - assert (Hl : (length ps <= length vals)%nat).
    { unfold ps, deleg_pairs. eapply Nat.le_trans; [apply filter_len_le|]. rewrite map_length, combine_length. lia. }
    lia.
  - eapply same_misc_trans; [|exact Hmisc]. unfold same_misc. repeat split.
  - intros a d. rewrite Hbal, Hps, !Hbalea.
    destruct (d =? usei) eqn:Ed; rewrite ?andb_false_r; [|reflexivity]. rewrite !andb_true_r.
    apply N.eqb_eq in Ed. subst d.
    destruct (a =? A_hub) eqn:Ea.
    + apply N.eqb_eq in Ea. subst a. change (A_hub =? A_disp) with false. cbn match. lia.
    + reflexivity.
  - rewrite Hdl, Hps. rewrite (delegated_ext e ea A_hub Hdelea). reflexivity.
  - intros y Hy. rewrite Hoth by exact Hy. apply delegated_ext. exact Hdelea.
  - intros v Hd. apply Hkeep. exact Hd.
Qed.

(** ** the stSei-side messages of DispatchRewards *)
Definition st_msgs (keeper : addr) (X ks : N) : list cmsg :=
  if X =? 0 then [] else
    MBank keeper [(usei, ks)] ::
    (if X - ks =? 0 then [] else [MWasm A_hub (WHub HBondRewards) [(usei, X - ks)]]).

Lemma seg_s w h g tb ts e keeper X ks :
  w_hub w = Some h -> w_reg w = Some g -> w_bsei w = Some tb -> w_stsei w = Some ts ->
  hc_disp (h_cfg h) = Some A_disp -> hc_reg (h_cfg h) = Some A_reg ->
  hc_bsei (h_cfg h) = Some A_bsei -> hc_stsei (h_cfg h) = Some A_stsei ->
  hp_underlying (h_params h) = usei -> paused h = false ->
  rg_hub g = A_hub -> RegOk g ->
  X = bal e A_disp usei -> X <= LIM -> ks <= X -> (X <> 0 -> ks <> 0) ->
  keeper <> A_disp -> keeper <> A_hub ->
  delegated e A_hub <= LIM -> hs_bb (h_state h) + hs_bst (h_state h) <= LIM ->
  claims_b h tb <= LIM -> claims_st h ts <= LIM ->
  (forall v d, is_val v = true -> delegation e A_hub v <> None -> In d DENOMS -> pending e A_hub v d = 0) ->
  exists h' e' n,
    Exec (set_env w e) (map (fun m => (A_disp, m)) (st_msgs keeper X ks))
         (set_env (set_hub w h') e') n /\ (n <= 14)%nat /\
    (X - ks = 0 -> h' = h) /\
    (X - ks <> 0 -> exists s1 ser,
        query_actual_state (set_env w e) A_hub h = Some s1 /\
        exchange_rate (hs_bst s1 + (X - ks)) (tk_supply ts) (cb_reqst (h_batch h)) = Some ser /\
        ser = rate_of (hs_bst s1 + (X - ks)) (claims_st h ts) /\
        h' = set_h_state h (bonded_rewards s1 (X - ks) ser)) /\
    same_misc e e' /\
    (forall a d, bal e' a d =
       if d =? usei then (if a =? A_disp then 0 else bal e a d + (if a =? keeper then ks else 0))
       else bal e a d) /\
    delegated e' A_hub = delegated e A_hub + (X - ks) /\
    (forall y, y <> A_hub -> delegated e' y = delegated e y) /\
    (forall v, delegation e A_hub v <> None -> delegation e' A_hub v <> None).
Proof.
  intros Hwh Hwg Hwb Hws Hcd Hcr Hcb Hcs Hu Hpz Hgh Hok HX HXl Hks Hksnz Hk1 Hk2 Hdel Hbook Hclb Hcls Hpend.
  unfold st_msgs. destruct (X =? 0) eqn:E0.
  - (* nothing to send *)
    assert (X = 0) by lia. assert (ks = 0) by lia.
    exists h, e, 0%nat. cbn [map].
    assert (Hsh : set_hub w h = w) by (destruct w; cbn in *; subst; reflexivity). rewrite Hsh.
    split; [constructor|]. split; [lia|]. split; [reflexivity|]. split; [intros; lia|].
    split; [apply same_misc_refl|]. split; [|split; [lia | split; [reflexivity | tauto]]].
    intros a d. destruct (d =? usei) eqn:Ed; [|reflexivity]. apply N.eqb_eq in Ed. subst d.
    destruct (a =? A_disp) eqn:Ea; [apply N.eqb_eq in Ea; subst a; lia|]. destruct (a =? keeper); lia.
  - specialize (Hksnz ltac:(lia)).
    set (e1 := xfer e A_disp keeper usei ks).
    assert (Hk' : A_disp <> keeper) by congruence.
    assert (Hbal1 : forall a d, bal e1 a d =
              if d =? usei then (if a =? A_disp then bal e a usei - ks else if a =? keeper then bal e a usei + ks else bal e a usei)
              else bal e a d).
    { intros a d. unfold e1. apply bal_xfer. exact Hk'. }
    assert (Hstep1 : step_msg (set_env w e) A_disp (MBank keeper [(usei, ks)]) = Some (set_env w e1, [])).
    { apply bank_step; [exact Hksnz | lia]. }
    destruct (X - ks =? 0) eqn:Er.
    + (* keeper takes everything *)
      exists h, e1, 1%nat. cbn [map].
      assert (Hsh : set_hub w h = w) by (destruct w; cbn in *; subst; reflexivity). rewrite Hsh.
      split; [apply Exec_leaf; exact Hstep1|]. split; [lia|]. split; [reflexivity|]. split; [intros; lia|].
      split; [unfold same_misc; repeat split|].
      split; [|split; [|split; [|tauto]]].
      * intros a d. rewrite Hbal1. destruct (d =? usei) eqn:Ed; [|reflexivity]. apply N.eqb_eq in Ed. subst d.
        destruct (a =? A_disp) eqn:Ea; [apply N.eqb_eq in Ea; subst a; lia|]. destruct (a =? keeper); lia.
      * rewrite (delegated_ext e e1 A_hub eq_refl). lia.
      * intros y _. apply delegated_ext. reflexivity.
    + (* keeper fee, then BondRewards *)
      destruct (bond_phase w h g tb ts e1 (X - ks) Hwh Hwg Hwb Hws Hcd Hcr Hcb Hcs Hu Hpz Hgh Hok)
        as (s1 & ser & e' & n & Hq & Hser & Hsereq & Hex & Hn & Hmisc & Hbal & Hdl & Hoth & Hkeep).
      { lia. }
      { rewrite Hbal1. change (usei =? usei) with true. rewrite N.eqb_refl. cbn match. lia. }
      { lia. }
      { rewrite (delegated_ext e e1 A_hub eq_refl). exact Hdel. }
      { exact Hbook. } { exact Hclb. } { exact Hcls. }
      { intros v d Hv Hd Hin. change (pending e1 A_hub v d) with (pending e A_hub v d).
        apply Hpend; [exact Hv | exact Hd | exact Hin]. }
      exists (set_h_state h (bonded_rewards s1 (X - ks) ser)), e', (S n). cbn [map].
      split; [eapply Exec_leaf_cons; [exact Hstep1 | exact Hex]|]. split; [lia|].
      split; [intros; lia|]. split.
      { intros _. exists s1, ser. split; [|split; [exact Hser | split; [exact Hsereq | reflexivity]]].
        rewrite <- Hq. apply qas_ext; reflexivity. }
      split; [eapply same_misc_trans; [|exact Hmisc]; unfold same_misc; repeat split|].
      split; [|split; [|split]].
      * intros a d. rewrite Hbal, !Hbal1.
        destruct (d =? usei) eqn:Ed; rewrite ?andb_false_r; [|reflexivity]. rewrite !andb_true_r.
        apply N.eqb_eq in Ed. subst d. rewrite ?N.eqb_refl.
        destruct (a =? A_disp) eqn:Ea; [apply N.eqb_eq in Ea; subst a; lia|]. destruct (a =? keeper); lia.
      * rewrite Hdl. rewrite (delegated_ext e e1 A_hub eq_refl). reflexivity.
      * intros y Hy. rewrite Hoth by exact Hy. apply delegated_ext. reflexivity.
      * intros v Hd. apply Hkeep. exact Hd.
Qed.

(** ** the reward contract's index update *)
Lemma call_reward_ugi w s n f :
  call w s A_reward (WHub (HUpdateGlobal n)) f =
  (do x <- w_reward w; do r <- reward_execute w x A_reward s RUpdateIndex; Some (set_reward w (fst r), snd r)).
Proof. reflexivity. Qed.

Lemma reward_phase w h r :
  w_hub w = Some h -> w_reward w = Some r ->
  hc_disp (h_cfg h) = Some A_disp -> rw_hub r = A_hub ->
  rw_prev r <= bal (w_env w) A_reward (rw_denom r) ->
  bal (w_env w) A_reward (rw_denom r) <= 2 * LIM -> rw_gi r <= D * D ->
  Exec w [(A_disp, MWasm A_reward (WHub (HUpdateGlobal 0)) [])]
       (set_reward w (index_updated r (bal (w_env w) A_reward (rw_denom r)))) 1.
Proof.
  intros Hwh Hwr Hcd Hrh Hprev Hbal Hgi. apply Exec_leaf.
  cbn [step_msg]. rewrite send_coins_nil. cbn [bind]. rewrite set_env_same, call_reward_ugi, Hwr. cbn [bind].
  rewrite (reward_update_index_ok w r A_reward A_disp); try assumption.
  - reflexivity.
  - unfold query_dispatcher_addr, hub_at. rewrite Hrh. change (A_hub =? A_hub) with true. cbn match.
    rewrite Hwh. cbn [bind]. exact Hcd.
Qed.
