(** * RateHistUnit (helper of Proofs/RateHist.v, property C04 at history level).

    One pricing hub message — Bond, BondForStSei, BondRewards, Receive{Unbond|Convert} — executed with
    the whole sub-tree it spawns, from ANY sender, as root of a transaction or deep inside one.

    - [handler_facts] : shape of the emitted messages (staking legs first, then cw20 Mint / Burn legs to
                        the two tokens) and the handler-level rate facts of Proofs/HubRates.v, in one
                        statement for all seven handlers;
    - [pricing_unit]  : in a wired world with sound reported rates, after the handler and all its legs
                        no reported rate is lower ([RateMono]), the rates of the new world are sound
                        again within E1 ([SoundNext]) and the world is [Good] again. *)
From Krp Require Import Tactics Prelude Fixed FMap Types Env Registry Cw20 Reward Dispatcher Hub Exec
     ExecP Hist Inv RegistryP HubFrame HubAdmin Cw20P MirrorWire MirrorP HubRates
     BooksEnv BooksHub BooksP IndexRun RateTxLegs RateTx RateTxConvert
     RateHistBase RateHistInert RateHistLegs.
Open Scope N_scope.

Definition pricing_hub (hm : hub_msg) : Prop :=
  hm = HBond \/ hm = HBondSt \/ hm = HBondRewards \/ exists u a hk, hm = HReceive u a hk.

Lemma AllDU_delegates ms : Forall (fun m => exists v c, m = MDelegate v c) ms -> AllDU ms.
Proof. intros H. eapply Forall_impl; [|exact H]. intros m (v & c & ->). reflexivity. Qed.

Lemma AllDU_undelegates ms : Forall (fun m => exists v c, m = MUndelegate v c) ms -> AllDU ms.
Proof. intros H. eapply Forall_impl; [|exact H]. intros m (v & c & ->). reflexivity. Qed.

Ltac tp_simpl :=
  unfold tp_sum; cbn [map sumN tp_amt];
  change (A_bsei =? A_bsei) with true; change (A_stsei =? A_stsei) with true;
  change (A_bsei =? A_stsei) with false; change (A_stsei =? A_bsei) with false;
  cbn [andb negb]; rewrite ?N.add_0_r, ?N.add_0_l, ?N.sub_0_r.

(** the facts every pricing handler provides; [mb bb ms bs] = bSei minted / burnt, stSei minted / burnt *)
Definition UnitFacts (h' : hub) (s0 : hub_state) (sb ss : N) (o : list cmsg) : Prop :=
  exists du tk, o = du ++ tk /\ AllDU du /\ Forall tokprim tk /\
    let mb := tp_sum A_bsei true tk in let bb := tp_sum A_bsei false tk in
    let ms := tp_sum A_stsei true tk in let bs := tp_sum A_stsei false tk in
    (bb <= sb + mb -> bs <= ss + ms ->
     let Cb' := sb + mb - bb + cb_reqb (h_batch h') in
     let Cst' := ss + ms - bs + cb_reqst (h_batch h') in
     Backed (hs_bb (h_state h')) Cb' /\ (0 < Cb' -> hs_ber s0 <= rate_of (hs_bb (h_state h')) Cb') /\
     Backed (hs_bst (h_state h')) Cst' /\ (0 < Cst' -> hs_ser s0 <= rate_of (hs_bst (h_state h')) Cst')).

Lemma sound_keeps r B C : Sound r B C -> Backed B C /\ (0 < C -> r <= rate_of B C).
Proof. intros [Hr H]. apply rate_step; assumption. Qed.

Lemma handler_facts w h s funds hm h' o sb ss s0 :
  hc_bsei (h_cfg h) = Some A_bsei -> hc_stsei (h_cfg h) = Some A_stsei ->
  hub_bsei_supply w h = Some sb -> hub_stsei_supply w h = Some ss ->
  hub_execute w h A_hub s funds hm = Some (h', o) -> pricing_hub hm ->
  query_actual_state w A_hub h = Some s0 ->
  Sound (hs_ber s0) (hs_bb s0) (sb + cb_reqb (h_batch h)) ->
  Sound (hs_ser s0) (hs_bst s0) (ss + cb_reqst (h_batch h)) ->
  UnitFacts h' s0 sb ss o.
Proof.
  intros Wb Ws Hsb Hss H Hp Hq Sb Sst.
  set (h1 := set_h_state h s0).
  assert (Hsl : slashing w A_hub h = Some h1) by (unfold slashing; rewrite Hq; reflexivity).
  assert (Sb1 : Sound (hs_ber (h_state h1)) (hs_bb (h_state h1)) (sb + cb_reqb (h_batch h1))) by exact Sb.
  assert (Sst1 : Sound (hs_ser (h_state h1)) (hs_bst (h_state h1)) (ss + cb_reqst (h_batch h1))) by exact Sst.
  destruct (sound_keeps _ _ _ Sb) as [KbB KbR]. destruct (sound_keeps _ _ _ Sst) as [KsB KsR].
  unfold hub_execute in H.
  destruct Hp as [-> | [-> | [-> | (u & a & hk & ->)]]].
  - (* Bond *)
    check_inv H as Hpz.
    destruct (bond_b_mints _ _ _ _ _ _ _ _ H Hsb) as (h1' & p & vals & xs & tok & Hsl' & _ & _ & Htok & E3).
    cbv zeta in E3. destruct E3 as (_ & _ & Eo & _).
    rewrite Wb in Htok. inversion Htok; subst tok; clear Htok.
    destruct (bond_b_rate_mono _ _ _ _ _ _ _ _ _ H Hsb Hsl Sb1) as (dmsgs & tok' & mint & Eo' & Hall & F).
    cbv zeta in F. destruct F as (F1 & F2 & _ & F4 & F5).
    rewrite Eo' in Eo. apply app_inj_tail in Eo. destruct Eo as [_ Eo]. inversion Eo; subst tok'.
    exists dmsgs, [MWasm A_bsei (WCw20 (CMint s mint)) []].
    split; [exact Eo'|]. split; [apply AllDU_delegates; exact Hall|].
    split; [constructor; [constructor|constructor]|].
    cbv zeta. tp_simpl. intros _ _. rewrite F4. rewrite F5 in *. subst h1. cbn [h_state h_batch set_h_state] in *.
    split; [exact F1|]. split; [exact F2|]. split; [exact KsB|exact KsR].
  - (* BondForStSei *)
    check_inv H as Hpz.
    destruct (bond_st_mints _ _ _ _ _ _ _ H) as (h1' & p & vals & xs & tok & Hsl' & _ & _ & Htok & E3).
    cbv zeta in E3. destruct E3 as (_ & Eo & _).
    rewrite Ws in Htok. inversion Htok; subst tok; clear Htok.
    destruct (bond_st_rate_mono _ _ _ _ _ _ _ ss _ H Hsl Sst1) as (dmsgs & tok' & mint & Eo' & Hall & F).
    cbv zeta in F. destruct F as (F1 & F2 & F4 & F5).
    rewrite Eo' in Eo. apply app_inj_tail in Eo. destruct Eo as [_ Eo]. inversion Eo; subst tok'.
    exists dmsgs, [MWasm A_stsei (WCw20 (CMint s mint)) []].
    split; [exact Eo'|]. split; [apply AllDU_delegates; exact Hall|].
    split; [constructor; [constructor|constructor]|].
    cbv zeta. tp_simpl. intros _ _. rewrite F4. rewrite F5 in *. subst h1. cbn [h_state h_batch set_h_state] in *.
    split; [exact KbB|]. split; [exact KbR|]. split; [exact F1|exact F2].
  - (* BondRewards *)
    check_inv H as Hpz.
    destruct (bond_rw_rate_mono _ _ _ _ _ _ _ _ _ H Hss Hsl Sst1) as (Hall & F).
    cbv zeta in F. destruct F as (_ & F1 & F2 & _ & F4 & _ & F5).
    exists o, []. split; [rewrite app_nil_r; reflexivity|]. split; [apply AllDU_delegates; exact Hall|].
    split; [constructor|].
    cbv zeta. tp_simpl. intros _ _. rewrite F4. rewrite F5 in *. subst h1. cbn [h_state h_batch set_h_state] in *.
    split; [exact KbB|]. split; [exact KbR|]. split; [exact F1|exact F2].
  - (* Receive *)
    check_inv H as Hpz. unfold receive_cw20 in H. rewrite Wb, Ws in H. cbn [bind] in H.
    destruct hk; [| |discriminate H].
    + (* Unbond *)
      destruct (s =? A_bsei).
      * destruct (unbond_b_effect _ _ _ _ _ _ _ _ H Hsb) as (h1' & h2 & msgs & tok & _ & E3).
        cbv zeta in E3. destruct E3 as (_ & _ & _ & _ & Htok & Eo).
        rewrite Wb in Htok. inversion Htok; subst tok; clear Htok.
        destruct (unbond_b_rate_mono _ _ _ _ _ _ _ _ ss _ H Hsb Hsl Sb1 Sst1) as (msgs' & tok' & Eo' & Hall & Hle & F).
        cbv zeta in F. destruct F as (F1 & F2 & F3 & F4).
        rewrite Eo' in Eo. apply app_inj_tail in Eo. destruct Eo as [_ Eo]. inversion Eo; subst tok'.
        exists msgs', [MWasm A_bsei (WCw20 (CBurn a)) []].
        split; [exact Eo'|]. split; [apply AllDU_undelegates; exact Hall|].
        split; [constructor; [constructor|constructor]|].
        cbv zeta. tp_simpl. intros _ _.
        split; [exact F1|]. split; [exact F2|]. split; [exact F3|exact F4].
      * destruct (s =? A_stsei); [|discriminate H].
        destruct (unbond_st_effect _ _ _ _ _ _ _ H) as (h1' & h2 & msgs & tok & _ & E3).
        cbv zeta in E3. destruct E3 as (_ & _ & Htok & Eo).
        rewrite Ws in Htok. inversion Htok; subst tok; clear Htok.
        exists msgs, [MWasm A_stsei (WCw20 (CBurn a)) []].
        split; [exact Eo|].
        assert (Hshape : Forall (fun m => exists v c, m = MUndelegate v c) msgs).
        { destruct (execute_unbond_stsei_shape _ _ _ _ _ _ _ H) as (msgs2 & tok2 & Eo2 & Hm2).
          rewrite Eo2 in Eo. apply app_inj_tail in Eo. destruct Eo as [<- _].
          apply Forall_forall. exact Hm2. }
        split; [apply AllDU_undelegates; exact Hshape|].
        split; [constructor; [constructor|constructor]|].
        cbv zeta. tp_simpl. intros _ Hle.
        destruct (unbond_st_rate_mono _ _ _ _ _ _ _ sb ss _ H Hsl Hle Sb1 Sst1) as (msgs' & tok' & _ & _ & F).
        cbv zeta in F. destruct F as (F1 & F2 & F3 & F4).
        split; [exact F1|]. split; [exact F2|]. split; [exact F3|exact F4].
    + (* Convert *)
      destruct (s =? A_bsei).
      * destruct (convert_b_st_prices _ _ _ _ _ _ _ _ _ H Hsb Hss) as (h1' & stok & btok & _ & Hst & Hbt & E3).
        cbv zeta in E3. destruct E3 as (_ & _ & _ & _ & Eo & _).
        rewrite Ws in Hst. rewrite Wb in Hbt. inversion Hst; inversion Hbt; subst stok btok; clear Hst Hbt.
        destruct (convert_b_st_rate_mono _ _ _ _ _ _ _ _ _ _ H Hsb Hss Hsl Sb1 Sst1)
          as (stok' & btok' & mint & Eo' & Hle & Hbt & F).
        cbv zeta in F. destruct F as (F1 & F2 & F3 & F4 & _).
        rewrite Eo' in Eo. inversion Eo; subst stok' btok'.
        exists [], [MWasm A_stsei (WCw20 (CMint u mint)) []; MWasm A_bsei (WCw20 (CBurn a)) []].
        split; [exact Eo'|]. split; [constructor|].
        split; [constructor; [constructor|constructor; [constructor|constructor]]|].
        cbv zeta. tp_simpl. intros _ _.
        split; [exact F1|]. split; [exact F2|]. split; [exact F3|exact F4].
      * destruct (s =? A_stsei); [|discriminate H].
        destruct (convert_st_b_prices _ _ _ _ _ _ _ _ _ H Hsb Hss) as (h1' & stok & btok & _ & Hst & Hbt & E3).
        cbv zeta in E3. destruct E3 as (_ & _ & _ & _ & Eo & _).
        rewrite Ws in Hst. rewrite Wb in Hbt. inversion Hst; inversion Hbt; subst stok btok; clear Hst Hbt.
        destruct (convert_st_b_rate_mono _ _ _ _ _ _ _ _ _ _ H Hsb Hss Hsl Sb1 Sst1)
          as (stok' & btok' & mint & Eo' & Hle & Hbt & F).
        cbv zeta in F. destruct F as (F1 & F2 & F3 & F4 & _).
        rewrite Eo' in Eo. inversion Eo; subst stok' btok'.
        exists [], [MWasm A_bsei (WCw20 (CMint u mint)) []; MWasm A_stsei (WCw20 (CBurn a)) []].
        split; [exact Eo'|]. split; [constructor|].
        split; [constructor; [constructor|constructor; [constructor|constructor]]|].
        cbv zeta. tp_simpl. intros _ _.
        split; [exact F1|]. split; [exact F2|]. split; [exact F3|exact F4].
Qed.

(** ** the whole sub-tree of a pricing hub message *)
Lemma tokprim_no_du tk : Forall tokprim tk -> usum tk = 0 /\ dsum tk = 0.
Proof.
  unfold usum, dsum. induction 1 as [|m l Hm Hl IH]; cbn [map sumN]; [auto|].
  destruct IH as [I1 I2]. destruct Hm; cbn [umsg_amt dmsg_amt]; lia.
Qed.

Lemma pricing_is_pricing w h s funds hm h' o :
  pricing_hub hm -> hub_execute w h A_hub s funds hm = Some (h', o) ->
  is_pricing hm = true /\ is_admin_msg hm = false /\ rewire_wasm (WHub hm) = false.
Proof.
  intros Hp H. destruct Hp as [-> | [-> | [-> | (u & a & hk & ->)]]]; try (repeat split; reflexivity).
  destruct hk; try (repeat split; reflexivity).
  exfalso. unfold hub_execute in H. check_inv H as Hpz. unfold receive_cw20 in H.
  bind_inv H as b Hb. bind_inv H as st Hst. discriminate H.
Qed.

Theorem pricing_unit w s hm funds w1 out w2 n :
  Good w -> SoundRates w -> pricing_hub hm ->
  step_msg w s (MWasm A_hub (WHub hm) funds) = Some (w1, out) -> Exec w1 out w2 n ->
  Good w2 /\ Step w w2.
Proof.
  intros (HW & HE & HM) HS Hp Hstep Hex.
  destruct (Wired_inv _ HW) as (h & r & d & g & tb & ts & Hh & Hr & Hd & Hg & Hb & Hs &
                                Wd & Wr & Wb & Ws & Wu & _).
  pose proof Hstep as Hroot. apply rt_root_inv in Hroot.
  destruct Hroot as (h0 & e1 & h' & o & Hh0 & Hsend & He & -> & ->).
  rewrite Hh in Hh0. inversion Hh0; subst h0; clear Hh0.
  pose proof (rt_send_del _ _ _ _ _ Hsend) as Hdel1.
  destruct (pricing_is_pricing _ _ _ _ _ _ _ Hp He) as (Hpr & Hna & Hnr).
  set (wa := set_env w e1) in *.
  destruct (rt_supplies wa h tb ts Wb Ws Hb Hs) as [Sb0 Ss0].
  pose proof (hub_execute_books _ _ _ _ _ _ _ _ He) as (PB & _ & _).
  destruct (PB Hpr) as (h1 & Hsl & Hbk).
  pose proof (hub_execute_static _ _ _ _ _ _ _ _ He Hna) as (Hcfg & Hpar & _).
  assert (Hb1 : booked h1 <= delegated e1 A_hub).
  { apply (slashing_restores wa A_hub h h1 Hsl). cbn [w_env wa set_env].
    rewrite (all_delegations_same_del (w_env w) e1 A_hub Hdel1). apply HE. exact Hh. }
  pose proof Hsl as Hsl0. unfold slashing in Hsl0. bind_inv Hsl0 as s0 Hq. inversion Hsl0; subst h1; clear Hsl0.
  assert (Hq0 : hub_query_state w A_hub = Some s0).
  { unfold hub_query_state. rewrite Hh. cbn [bind]. rewrite <- Hq. symmetry. apply rt_qas_env. exact Hdel1. }
  destruct (HS s0 Hq0) as [SoB SoS].
  rewrite (rt_claims_b w h tb Hh Hb) in SoB. rewrite (rt_claims_st w h ts Hh Hs) in SoS.
  destruct (handler_facts wa h s funds hm h' o _ _ s0 Wb Ws Sb0 Ss0 He Hp Hq SoB SoS)
    as (du & tk & Eo & Hdu & Htk & Far).
  cbv zeta in Far.
  (* the legs *)
  assert (HW1 : Wired (set_hub wa h')) by (eapply step_msg_wired; [exact Hstep|exact Hnr|exact HW]).
  rewrite Eo, map_app in Hex. apply Exec_app_inv in Hex. destruct Hex as (wm & m1 & m2 & Hxd & Hxt).
  assert (Hwf1 : DelWf (w_env (set_hub wa h'))).
  { cbn [w_env set_hub wa set_env]. eapply DelWf_same_del; [exact Hdel1|apply HE]. }
  destruct (du_legs du _ _ _ Hdu Hwf1 Hxd) as (e2 & -> & Hwf2 & Hd2).
  cbn [w_env set_hub wa set_env] in Hd2.
  destruct (tokprim_no_du tk Htk) as [Ut Dt].
  assert (Hbooks : booked h' <= delegated e2 A_hub).
  { rewrite Eo, usum_app, dsum_app, Ut, Dt in Hbk. lia. }
  assert (HLm : LegsOk (set_env (set_hub wa h') e2)).
  { split; [eapply Wired_wdata; [apply wdata_set_env|exact HW1]|]. split; [exact Hwf2|].
    intros k Hk. cbn [w_hub set_env set_hub] in Hk. inversion Hk; subst k. exact Hbooks. }
  destruct (tok_legs tk _ _ _ Htk HLm Hxt) as [Eff HL2].
  destruct Eff as (hA & h2 & tbA & tb2 & tsA & ts2 & A1 & A2 & A3 & A4 & A5 & A6 & A7 & A8 & A9 & A10 & A11 & A12).
  cbn [w_hub w_bsei w_stsei w_env set_env set_hub wa] in A1, A4, A6, A12.
  inversion A1; subst hA; clear A1.
  rewrite Hb in A4. inversion A4; subst tbA; clear A4. rewrite Hs in A6. inversion A6; subst tsA; clear A6.
  destruct A3 as (C1 & C2 & C3 & C4 & C5).
  set (mb := tp_sum A_bsei true tk) in *. set (bb := tp_sum A_bsei false tk) in *.
  set (ms := tp_sum A_stsei true tk) in *. set (bs := tp_sum A_stsei false tk) in *.
  destruct (Far ltac:(lia) ltac:(lia)) as (F1 & F2 & F3 & F4).
  assert (Eb : tk_supply tb + mb - bb = tk_supply tb2) by lia.
  assert (Es : tk_supply ts + ms - bs = tk_supply ts2) by lia.
  rewrite Eb in F1, F2. rewrite Es in F3, F4. rewrite <- C3 in F1, F2, F3, F4. rewrite <- C1 in F1, F2. rewrite <- C2 in F3, F4.
  fold (claims_b h2 tb2) in F1, F2. fold (claims_st h2 ts2) in F3, F4.
  assert (Wb2 : hc_bsei (h_cfg h2) = Some A_bsei) by (rewrite C4, Hcfg; exact Wb).
  assert (Ws2 : hc_stsei (h_cfg h2) = Some A_stsei) by (rewrite C4, Hcfg; exact Ws).
  assert (Wu2 : hp_underlying (h_params h2) = usei) by (rewrite C5, Hpar; exact Wu).
  assert (Hbooks2 : booked h2 <= delegated (w_env w2) A_hub).
  { rewrite A12. unfold booked in *. rewrite C1, C2. exact Hbooks. }
  assert (Hcb : w_claims_b w2 = claims_b h2 tb2) by (unfold w_claims_b; rewrite A2, A5; reflexivity).
  assert (Hcs : w_claims_st w2 = claims_st h2 ts2) by (unfold w_claims_st; rewrite A2, A7; reflexivity).
  assert (Hrep : forall s2, hub_query_state w2 A_hub = Some s2 ->
            hs_bb s2 = hs_bb (h_state h2) /\ hs_bst s2 = hs_bst (h_state h2) /\
            (0 < booked h2 -> hs_ber s2 = rate_of (hs_bb (h_state h2)) (claims_b h2 tb2) /\
                              hs_ser s2 = rate_of (hs_bst (h_state h2)) (claims_st h2 ts2))).
  { intros s2 Hq2. exact (final_report w2 h2 tb2 ts2 s2 Wb2 Ws2 Wu2 A2 A5 A7 Hbooks2 Hq2). }
  split.
  - (* Good *)
    destruct HL2 as (HW2 & HWf2 & HB2).
    split; [exact HW2|]. split; [split; [exact HWf2|apply Books_Ent; exact HB2]|].
    destruct HM as [HMb HMs]. split.
    + intros t Ht. rewrite A5 in Ht. inversion Ht; subst t. unfold minter_ok. rewrite A10. apply HMb. exact Hb.
    + intros t Ht. rewrite A7 in Ht. inversion Ht; subst t. unfold minter_ok. rewrite A11. apply HMs. exact Hs.
  - split.
    + (* RateMono *)
      intros sA s2 HqA Hq2. rewrite Hq0 in HqA. inversion HqA; subst sA; clear HqA.
      destruct (Hrep s2 Hq2) as (R1 & R2 & R3). rewrite Hcb, Hcs. unfold booked in R3. split; intros Hc.
      * assert (0 < hs_bb (h_state h2)) by (apply F1; exact Hc).
        destruct R3 as [R3 _]; [lia|]. rewrite R3. apply F2. exact Hc.
      * assert (0 < hs_bst (h_state h2)) by (apply F3; exact Hc).
        destruct R3 as [_ R3]; [lia|]. rewrite R3. apply F4. exact Hc.
    + (* SoundNext *)
      intros L1 L2 Hpos s2 Hq2. destruct (Hrep s2 Hq2) as (R1 & R2 & R3).
      rewrite Hcb in *. rewrite Hcs in *. unfold booked in R3.
      assert (Hbk2 : 0 < hs_bb (h_state h2) + hs_bst (h_state h2)).
      { destruct Hpos as [Hc|Hc]; [pose proof (F1 Hc)|pose proof (F3 Hc)]; lia. }
      destruct (R3 Hbk2) as [R4 R5]. rewrite R1, R2, R4, R5.
      split; apply synced_sound; assumption.
Qed.
