(** * RewardWorld: the reward-pool invariant of RewardP.v lifted to the full executor (C14).

    - [step_msg_bal_lower]: one executed message lowers an account's balance of a denom by at
      most what the message itself carries away from its SENDER ([outflow]); nobody else's
      balance ever decreases (generic bank fact about [step_msg]).
    - [reward_out_outflow]: what the reward contract's emitted messages carry away of the reward
      coin is exactly the claim payout (swap messages never offer the reward coin under E4).
    - [J], [step_msg_J]: message-level invariant over (world, pending stack): the reward state
      satisfies [RCore] and [rw_prev + coins owed by pending reward-contract messages <= bank].
    - [RWInv], [REnv], [NoRewardRoot], [step_rwinv], [rwinv_reachable], [rwinv_from_empty]:
      along every history whose visited worlds satisfy the E4 reward configuration envelope,
      [RInv r (bal A_reward (rw_denom r))] holds in every reached world.
    - [claim_tx_succeeds]: a ClaimRewards transaction of a holder with >= 1 whole unit accrued
      succeeds end to end (handler and bank transfer) and pays exactly [acc / D].
    - [rwinv_nonvacuous]: a concrete history satisfying all hypotheses. *)
From Krp Require Import Tactics Prelude Fixed FMap Types Env Registry Cw20 Reward Dispatcher Hub Exec
     ExecP Hist Inv Auth RewardP.
Open Scope N_scope.
Ltac Zify.zify_post_hook ::= idtac.

(** ** 1. bank facts *)
Lemma bal_set_bank e b a d : bal (set_bank e b) a d = getN eqbNN b (a, d).
Proof. reflexivity. Qed.

Lemma bal_credit_same e a d x : bal (credit e a d x) a d = bal e a d + x.
Proof. unfold credit. rewrite bal_set_bank. unfold getN. rewrite (get_set_same eqbNN eqbNN_eq). reflexivity. Qed.

Lemma bal_credit_other e a d x a' d' : (a', d') <> (a, d) -> bal (credit e a d x) a' d' = bal e a' d'.
Proof.
  intros Hne. unfold credit. rewrite bal_set_bank. unfold getN.
  rewrite (get_set_other eqbNN eqbNN_eq) by exact Hne. reflexivity.
Qed.

Lemma pair_eq_dec (p q : N * N) : {p = q} + {p <> q}.
Proof. decide equality; apply N.eq_dec. Qed.

Lemma bal_credit_ge e a d x a' d' : bal e a' d' <= bal (credit e a d x) a' d'.
Proof.
  destruct (pair_eq_dec (a', d') (a, d)) as [E|Hne].
  - inversion E; subst. rewrite bal_credit_same. lia.
  - rewrite bal_credit_other by exact Hne. lia.
Qed.

Lemma debit_spec e a d x e' :
  debit e a d x = Some e' ->
  x <= bal e a d /\ bal e' a d = bal e a d - x /\
  (forall a' d', (a', d') <> (a, d) -> bal e' a' d' = bal e a' d').
Proof.
  unfold debit. intros H. check_inv H as Hle. apply N.leb_le in Hle. inversion H; subst. clear H.
  split; [exact Hle|]. split.
  - rewrite bal_set_bank. unfold getN. rewrite (get_set_same eqbNN eqbNN_eq). reflexivity.
  - intros a' d' Hne. rewrite bal_set_bank. unfold getN.
    rewrite (get_set_other eqbNN eqbNN_eq) by exact Hne. reflexivity.
Qed.

Lemma debit_bal_lower e a d x e' a' d' :
  debit e a d x = Some e' ->
  bal e a' d' <= bal e' a' d' + (if (a =? a') && (d =? d') then x else 0).
Proof.
  intros H. destruct (debit_spec _ _ _ _ _ H) as (Hle & Hs & Ho).
  destruct (pair_eq_dec (a', d') (a, d)) as [E|Hne].
  - inversion E; subst. rewrite !N.eqb_refl. cbn [andb]. lia.
  - rewrite (Ho _ _ Hne). lia.
Qed.

(** coins of denom [d] in a coin list *)
Definition coin_amt (d : denom) (c : coin) : N := if fst c =? d then snd c else 0.
Definition coin_sum (d : denom) (cs : list coin) : N := sumN (map (coin_amt d) cs).

Lemma send_coin_bal_lower e from to c e' a d :
  send_coin e from to c = Some e' ->
  bal e a d <= bal e' a d + (if from =? a then coin_amt d c else 0).
Proof.
  destruct c as [dc x]. unfold send_coin. intros H. check_inv H as Hnz.
  bind_inv H as e1 He1. inversion H; subst. clear H. unfold coin_amt. cbn [fst snd].
  pose proof (debit_bal_lower _ _ _ _ _ a d He1) as Hd.
  pose proof (bal_credit_ge e1 to dc x a d) as Hc.
  destruct (from =? a); destruct (dc =? d); cbn [andb] in *; lia.
Qed.

Lemma send_coins_bal_lower cs : forall e from to e' a d,
  send_coins e from to cs = Some e' ->
  bal e a d <= bal e' a d + (if from =? a then coin_sum d cs else 0).
Proof.
  unfold send_coins, coin_sum. induction cs as [|c cs IH]; intros e from to e' a d H; cbn [foldM] in H.
  - inversion H; subst. lia.
  - bind_inv H as e1 He1. pose proof (send_coin_bal_lower _ _ _ _ _ a d He1) as H1.
    pose proof (IH _ _ _ _ a d H) as H2. cbn [map sumN].
    destruct (from =? a); lia.
Qed.

Lemma bank_send_bal_lower e from to cs e' a d :
  bank_send e from to cs = Some e' ->
  bal e a d <= bal e' a d + (if from =? a then coin_sum d cs else 0).
Proof. unfold bank_send. destruct cs; [discriminate|]. apply send_coins_bal_lower. Qed.

Lemma fold_left_bal_ge {X} (f : env -> X -> env) a d :
  (forall e x, bal e a d <= bal (f e x) a d) ->
  forall l e, bal e a d <= bal (fold_left f l e) a d.
Proof.
  intros Hf. induction l as [|x l IH]; intros e; cbn [fold_left]; [lia|].
  pose proof (Hf e x). pose proof (IH (f e x)). lia.
Qed.

Lemma payout_bal_ge e x v a d : bal e a d <= bal (payout e x v) a d.
Proof.
  unfold payout. apply fold_left_bal_ge. intros e0 d0.
  destruct (pending e0 x v d0 =? 0); [lia|].
  pose proof (bal_credit_ge (set_pend e0 (set eqbAVD (e_pend e0) (x, (v, d0)) 0))
                            (withdraw_addr e0 x) d0 (pending e0 x v d0) a d) as H.
  exact H.
Qed.

Lemma payout_if_entry_bal_ge e x v a d : bal e a d <= bal (payout_if_entry e x v) a d.
Proof. unfold payout_if_entry. destruct (delegation e x v); [apply payout_bal_ge | lia]. Qed.

Lemma deliver_matured_bal_ge e a d : bal e a d <= bal (deliver_matured e) a d.
Proof.
  unfold deliver_matured.
  assert (H0 : bal e a d = bal (set_unb e []) a d) by reflexivity. rewrite H0 at 1.
  apply fold_left_bal_ge. intros e0 [[[x v] amt] t].
  destruct (t <=? e_now e); [apply bal_credit_ge | apply N.le_refl].
Qed.

(** what a message carries away from its sender, in coins of denom [d] *)
Definition outflow (d : denom) (m : cmsg) : N :=
  match m with
  | MWasm _ _ funds => coin_sum d funds
  | MBank _ coins => coin_sum d coins
  | MDelegate _ c => if d =? usei then snd c else 0
  | _ => 0
  end.

Lemma swap_execute_bal_ge e s sm e' a d : swap_execute e s sm = Some e' -> bal e a d <= bal e' a d.
Proof.
  destruct sm as [from target to]. unfold swap_execute. destruct (e_swapmode e); intros H.
  - bind_inv H as out Hout. destruct (out =? 0); inversion H; subst; [lia | apply bal_credit_ge].
  - discriminate.
  - inversion H; subst. apply bal_credit_ge.
Qed.

Lemma call_env w s to wm funds w' o a d :
  call w s to wm funds = Some (w', o) -> bal (w_env w) a d <= bal (w_env w') a d.
Proof.
  intros H. apply call_inv in H.
  destruct H as [h hm h' _ _ _ _ -> | r rm r' _ _ _ _ -> | dd dm d' _ _ _ _ ->
                | g gm g' _ _ _ _ -> | t cm t' _ _ _ _ -> | t cm t' _ _ _ _ ->
                | sm e' _ _ He -> _ | _ -> _];
    cbn [w_env set_hub set_reward set_disp set_reg set_bsei set_stsei set_env]; try lia.
  eapply swap_execute_bal_ge; eauto.
Qed.

Theorem step_msg_bal_lower w s m w' out a d :
  step_msg w s m = Some (w', out) ->
  bal (w_env w) a d <= bal (w_env w') a d + (if s =? a then outflow d m else 0).
Proof.
  unfold step_msg. intros H. destruct m; cbn [outflow].
  - bind_inv H as e1 He1. bind_inv H as r Hr. destruct r as [w2 o]. inversion H; subst. clear H.
    cbn [fst]. pose proof (send_coins_bal_lower _ _ _ _ _ a d He1) as H1.
    pose proof (call_env _ _ _ _ _ _ _ a d Hr) as H2. cbn [w_env set_env] in H2. lia.
  - bind_inv H as e1 He1. inversion H; subst. cbn [w_env set_env].
    eapply bank_send_bal_lower; eauto.
  - bind_inv H as e1 He1. inversion H; subst. clear H. cbn [w_env set_env].
    unfold do_delegate in He1. check_inv He1 as Hc. check_inv He1 as Hv. check_inv He1 as Hle.
    bind_inv He1 as e2 He2. inversion He1; subst. clear He1.
    pose proof (payout_if_entry_bal_ge (w_env w) s v a d) as H1.
    pose proof (debit_bal_lower _ _ _ _ _ a d He2) as H2.
    change (bal (set_del e2 ?x) a d) with (bal e2 a d).
    rewrite (N.eqb_sym d usei). destruct (s =? a); destruct (usei =? d); cbn [andb] in *; lia.
  - bind_inv H as e1 He1. inversion H; subst. clear H. cbn [w_env set_env].
    unfold do_undelegate in He1. check_inv He1 as Hc.
    destruct (delegation (w_env w) s v) as [cur|]; [|discriminate]. check_inv He1 as Hle.
    inversion He1; subst. clear He1.
    match goal with |- _ <= bal (set_unb (set_del ?e ?x) ?y) a d + _ =>
      change (bal (set_unb (set_del e x) y) a d) with (bal e a d) end.
    pose proof (payout_bal_ge (w_env w) s v a d). lia.
  - bind_inv H as e1 He1. inversion H; subst. clear H. cbn [w_env set_env].
    unfold do_redelegate in He1. check_inv He1 as Hc. check_inv He1 as Hr.
    destruct (delegation (w_env w) s src) as [cur|]; [|discriminate]. check_inv He1 as Hle.
    check_inv He1 as Hv. inversion He1; subst. clear He1.
    match goal with |- _ <= bal (set_del ?e ?x) a d + _ =>
      change (bal (set_del e x) a d) with (bal e a d) end.
    pose proof (payout_bal_ge (w_env w) s src a d).
    pose proof (payout_if_entry_bal_ge (payout (w_env w) s src) s dst a d). lia.
  - bind_inv H as e1 He1. inversion H; subst. clear H. cbn [w_env set_env].
    unfold do_withdraw_reward in He1. destruct (delegation (w_env w) s v); [|discriminate].
    inversion He1; subst. pose proof (payout_bal_ge (w_env w) s v a d). lia.
  - inversion H; subst. cbn [w_env set_env]. unfold do_set_withdraw_addr.
    change (bal (set_wdaddr ?e ?x) a d) with (bal e a d). lia.
Qed.
