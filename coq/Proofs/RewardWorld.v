(** * RewardWorld: the reward-pool invariant of RewardP.v lifted to the full executor (C14).

    - [step_msg_bal_lower]: one executed message lowers an account's balance of a denom by at
      most what the message itself carries away from its SENDER ([outflow]); nobody else's
      balance ever decreases (generic bank fact about [step_msg]).
    - [reward_out_outflow]: what the reward contract's emitted messages carry away of the reward
      coin is exactly the claim payout (swap messages never offer the reward coin under E4).
    - [J], [step_msg_J]: message-level invariant over (world, pending stack): the reward state
      satisfies [RCore] and [rw_prev + coins owed by pending reward-contract messages <= bank].
    - [RWInv], [REnv], [NoRewardRoot], [step_rwinv], [rwinv_reachable], [rwinv_from_empty]:
      along every history whose visited worlds satisfy the E4 reward configuration envelope,
      [RInv r (bal A_reward (rw_denom r))] holds in every reached world.
    - [claim_tx_succeeds]: a ClaimRewards transaction of a holder with >= 1 whole unit accrued
      succeeds end to end (handler and bank transfer) and pays exactly [acc / D].
    - [reward_state_changes_only_by_handler]: (C15) no other contract or chain message touches
      the reward state.
    - [rwinv_nonvacuous], [claim_tx_nonvacuous]: a concrete history satisfying all hypotheses. *)
From Krp Require Import Tactics Prelude Fixed FMap Types Env Registry Cw20 Reward Dispatcher Hub Exec
     ExecP Hist Inv Auth RewardP.
Open Scope N_scope.
Ltac Zify.zify_post_hook ::= idtac.

(** ** 1. bank facts *)
Lemma bal_set_bank e b a d : bal (set_bank e b) a d = getN eqbNN b (a, d).
Proof. reflexivity. Qed.

Lemma bal_credit_same e a d x : bal (credit e a d x) a d = bal e a d + x.
Proof. unfold credit. rewrite bal_set_bank. unfold getN. rewrite (get_set_same eqbNN eqbNN_eq). reflexivity. Qed.

Lemma bal_credit_other e a d x a' d' : (a', d') <> (a, d) -> bal (credit e a d x) a' d' = bal e a' d'.
Proof.
  intros Hne. unfold credit. rewrite bal_set_bank. unfold getN.
  rewrite (get_set_other eqbNN eqbNN_eq) by exact Hne. reflexivity.
Qed.

Lemma pair_eq_dec (p q : N * N) : {p = q} + {p <> q}.
Proof. decide equality; apply N.eq_dec. Qed.

Lemma bal_credit_ge e a d x a' d' : bal e a' d' <= bal (credit e a d x) a' d'.
Proof.
  destruct (pair_eq_dec (a', d') (a, d)) as [E|Hne].
  - inversion E; subst. rewrite bal_credit_same. lia.
  - rewrite bal_credit_other by exact Hne. lia.
Qed.

Lemma debit_spec e a d x e' :
  debit e a d x = Some e' ->
  x <= bal e a d /\ bal e' a d = bal e a d - x /\
  (forall a' d', (a', d') <> (a, d) -> bal e' a' d' = bal e a' d').
Proof.
  unfold debit. intros H. check_inv H as Hle. apply N.leb_le in Hle. inversion H; subst. clear H.
  split; [exact Hle|]. split.
  - rewrite bal_set_bank. unfold getN. rewrite (get_set_same eqbNN eqbNN_eq). reflexivity.
  - intros a' d' Hne. rewrite bal_set_bank. unfold getN.
    rewrite (get_set_other eqbNN eqbNN_eq) by exact Hne. reflexivity.
Qed.

Lemma debit_bal_lower e a d x e' a' d' :
  debit e a d x = Some e' ->
  bal e a' d' <= bal e' a' d' + (if (a =? a') && (d =? d') then x else 0).
Proof.
  intros H. destruct (debit_spec _ _ _ _ _ H) as (Hle & Hs & Ho).
  destruct (pair_eq_dec (a', d') (a, d)) as [E|Hne].
  - inversion E; subst. rewrite !N.eqb_refl. cbn [andb]. lia.
  - rewrite (Ho _ _ Hne). lia.
Qed.

(** coins of denom [d] in a coin list *)
Definition coin_amt (d : denom) (c : coin) : N := if fst c =? d then snd c else 0.
Definition coin_sum (d : denom) (cs : list coin) : N := sumN (map (coin_amt d) cs).

Lemma send_coin_bal_lower e from to c e' a d :
  send_coin e from to c = Some e' ->
  bal e a d <= bal e' a d + (if from =? a then coin_amt d c else 0).
Proof.
  destruct c as [dc x]. unfold send_coin. intros H. check_inv H as Hnz.
  bind_inv H as e1 He1. inversion H; subst. clear H. unfold coin_amt. cbn [fst snd].
  pose proof (debit_bal_lower _ _ _ _ _ a d He1) as Hd.
  pose proof (bal_credit_ge e1 to dc x a d) as Hc.
  destruct (from =? a); destruct (dc =? d); cbn [andb] in *; lia.
Qed.

Lemma send_coins_bal_lower cs : forall e from to e' a d,
  send_coins e from to cs = Some e' ->
  bal e a d <= bal e' a d + (if from =? a then coin_sum d cs else 0).
Proof.
  unfold send_coins, coin_sum. induction cs as [|c cs IH]; intros e from to e' a d H; cbn [foldM] in H.
  - inversion H; subst. lia.
  - bind_inv H as e1 He1. pose proof (send_coin_bal_lower _ _ _ _ _ a d He1) as H1.
    pose proof (IH _ _ _ _ a d H) as H2. cbn [map sumN].
    destruct (from =? a); lia.
Qed.

Lemma bank_send_bal_lower e from to cs e' a d :
  bank_send e from to cs = Some e' ->
  bal e a d <= bal e' a d + (if from =? a then coin_sum d cs else 0).
Proof. unfold bank_send. destruct cs; [discriminate|]. apply send_coins_bal_lower. Qed.

Lemma fold_left_bal_ge {X} (f : env -> X -> env) a d :
  (forall e x, bal e a d <= bal (f e x) a d) ->
  forall l e, bal e a d <= bal (fold_left f l e) a d.
Proof.
  intros Hf. induction l as [|x l IH]; intros e; cbn [fold_left]; [lia|].
  pose proof (Hf e x). pose proof (IH (f e x)). lia.
Qed.

Lemma payout_bal_ge e x v a d : bal e a d <= bal (payout e x v) a d.
Proof.
  unfold payout. apply fold_left_bal_ge. intros e0 d0.
  destruct (pending e0 x v d0 =? 0); [lia|].
  pose proof (bal_credit_ge (set_pend e0 (set eqbAVD (e_pend e0) (x, (v, d0)) 0))
                            (withdraw_addr e0 x) d0 (pending e0 x v d0) a d) as H.
  exact H.
Qed.

Lemma payout_if_entry_bal_ge e x v a d : bal e a d <= bal (payout_if_entry e x v) a d.
Proof. unfold payout_if_entry. destruct (delegation e x v); [apply payout_bal_ge | lia]. Qed.

Lemma deliver_matured_bal_ge e a d : bal e a d <= bal (deliver_matured e) a d.
Proof.
  unfold deliver_matured.
  assert (H0 : bal e a d = bal (set_unb e []) a d) by reflexivity. rewrite H0 at 1.
  apply fold_left_bal_ge. intros e0 [[[x v] amt] t].
  destruct (t <=? e_now e); [apply bal_credit_ge | apply N.le_refl].
Qed.

(** what a message carries away from its sender, in coins of denom [d] *)
Definition outflow (d : denom) (m : cmsg) : N :=
  match m with
  | MWasm _ _ funds => coin_sum d funds
  | MBank _ coins => coin_sum d coins
  | MDelegate _ c => if d =? usei then snd c else 0
  | _ => 0
  end.

Lemma swap_execute_bal_ge e s sm e' a d : swap_execute e s sm = Some e' -> bal e a d <= bal e' a d.
Proof.
  destruct sm as [from target to]. unfold swap_execute. destruct (e_swapmode e); intros H.
  - bind_inv H as out Hout. destruct (out =? 0); inversion H; subst; [lia | apply bal_credit_ge].
  - discriminate.
  - inversion H; subst. apply bal_credit_ge.
Qed.

Lemma call_env w s to wm funds w' o a d :
  call w s to wm funds = Some (w', o) -> bal (w_env w) a d <= bal (w_env w') a d.
Proof.
  intros H. apply call_inv in H.
  destruct H as [h hm h' _ _ _ _ -> | r rm r' _ _ _ _ -> | dd dm d' _ _ _ _ ->
                | g gm g' _ _ _ _ -> | t cm t' _ _ _ _ -> | t cm t' _ _ _ _ ->
                | sm e' _ _ He -> _ | _ -> _];
    cbn [w_env set_hub set_reward set_disp set_reg set_bsei set_stsei set_env]; try lia.
  eapply swap_execute_bal_ge; eauto.
Qed.

Theorem step_msg_bal_lower w s m w' out a d :
  step_msg w s m = Some (w', out) ->
  bal (w_env w) a d <= bal (w_env w') a d + (if s =? a then outflow d m else 0).
Proof.
  unfold step_msg. intros H. destruct m; cbn [outflow].
  - bind_inv H as e1 He1. bind_inv H as r Hr. destruct r as [w2 o]. inversion H; subst. clear H.
    cbn [fst]. pose proof (send_coins_bal_lower _ _ _ _ _ a d He1) as H1.
    pose proof (call_env _ _ _ _ _ _ _ a d Hr) as H2. cbn [w_env set_env] in H2. lia.
  - bind_inv H as e1 He1. inversion H; subst. cbn [w_env set_env].
    eapply bank_send_bal_lower; eauto.
  - bind_inv H as e1 He1. inversion H; subst. clear H. cbn [w_env set_env].
    unfold do_delegate in He1. check_inv He1 as Hc. check_inv He1 as Hv. check_inv He1 as Hle.
    bind_inv He1 as e2 He2. inversion He1; subst. clear He1.
    pose proof (payout_if_entry_bal_ge (w_env w) s v a d) as H1.
    pose proof (debit_bal_lower _ _ _ _ _ a d He2) as H2.
    change (bal (set_del e2 ?x) a d) with (bal e2 a d).
    rewrite (N.eqb_sym d usei). destruct (s =? a); destruct (usei =? d); cbn [andb] in *; lia.
  - bind_inv H as e1 He1. inversion H; subst. clear H. cbn [w_env set_env].
    unfold do_undelegate in He1. check_inv He1 as Hc.
    destruct (delegation (w_env w) s v) as [cur|]; [|discriminate]. check_inv He1 as Hle.
    inversion He1; subst. clear He1.
    match goal with |- _ <= bal (set_unb (set_del ?e ?x) ?y) a d + _ =>
      change (bal (set_unb (set_del e x) y) a d) with (bal e a d) end.
    pose proof (payout_bal_ge (w_env w) s v a d). lia.
  - bind_inv H as e1 He1. inversion H; subst. clear H. cbn [w_env set_env].
    unfold do_redelegate in He1. check_inv He1 as Hc. check_inv He1 as Hr.
    destruct (delegation (w_env w) s src) as [cur|]; [|discriminate]. check_inv He1 as Hle.
    check_inv He1 as Hv. inversion He1; subst. clear He1.
    match goal with |- _ <= bal (set_del ?e ?x) a d + _ =>
      change (bal (set_del e x) a d) with (bal e a d) end.
    pose proof (payout_bal_ge (w_env w) s src a d).
    pose proof (payout_if_entry_bal_ge (payout (w_env w) s src) s dst a d). lia.
  - bind_inv H as e1 He1. inversion H; subst. clear H. cbn [w_env set_env].
    unfold do_withdraw_reward in He1. destruct (delegation (w_env w) s v); [|discriminate].
    inversion He1; subst. pose proof (payout_bal_ge (w_env w) s v a d). lia.
  - inversion H; subst. cbn [w_env set_env]. unfold do_set_withdraw_addr.
    change (bal (set_wdaddr ?e ?x) a d) with (bal e a d). lia.
Qed.

(** ** 2. the messages the reward contract emits *)
(** messages that emit nothing further and never re-enter the reward contract *)
Definition leaf (m : cmsg) : Prop :=
  match m with MBank _ _ => True | MWasm _ (WSwap _) _ => True | _ => False end.

Lemma leaf_step w s m w' out :
  leaf m -> step_msg w s m = Some (w', out) -> out = [] /\ w_reward w' = w_reward w.
Proof.
  intros HL H. apply step_msg_inv in H.
  destruct H as [e' -> -> _ | to wm funds e1 o -> Hsend Hc ->]; [split; reflexivity|].
  cbn [leaf] in HL. destruct wm; try contradiction.
  destruct Hc as [h hm h' _ Hm _ _ _ | r rm r' _ Hm _ _ _ | dd dm d' _ Hm _ _ _
                 | g gm g' _ Hm _ _ _ | t cm t' _ Hm _ _ _ | t cm t' _ Hm _ _ _
                 | sm e' _ _ He -> -> | _ -> ->]; try discriminate Hm.
  - destruct Hm as [Hm | (n & Hm & _)]; discriminate Hm.
  - split; reflexivity.
  - split; reflexivity.
Qed.

Definition swap_msgs (r : reward) (self : addr) (coins : list coin) : list cmsg :=
  flat_map (fun c => if existsb (N.eqb (fst c)) (rw_denoms r) && negb (snd c =? 0)
                     then [MWasm (rw_swap r) (WSwap (SSwapDenom c (rw_denom r) (Some self))) [c]]
                     else []) coins.

Lemma flat_map_leaf (d : denom) (p : coin -> bool) (mk : coin -> cmsg) (coins : list coin) :
  (forall c, p c = true -> leaf (mk c)) ->
  Forall leaf (flat_map (fun c => if p c then [mk c] else []) coins) /\
  ((forall c, p c = true -> outflow d (mk c) = 0) ->
   sumN (map (outflow d) (flat_map (fun c => if p c then [mk c] else []) coins)) = 0).
Proof.
  intros HL. induction coins as [|c cs [IH1 IH2]]; cbn [flat_map].
  - split; [constructor | reflexivity].
  - destruct (p c) eqn:E; cbn [app].
    + split; [constructor; [apply HL; exact E | exact IH1]|]. intros H0. cbn [map sumN].
      rewrite (IH2 H0), (H0 c E). reflexivity.
    + split; assumption.
Qed.

Lemma swap_msgs_spec r self coins :
  Forall leaf (swap_msgs r self coins) /\
  (~ In (rw_denom r) (rw_denoms r) -> sumN (map (outflow (rw_denom r)) (swap_msgs r self coins)) = 0).
Proof.
  unfold swap_msgs.
  pose proof (flat_map_leaf (rw_denom r)
    (fun c => existsb (N.eqb (fst c)) (rw_denoms r) && negb (snd c =? 0))
    (fun c => MWasm (rw_swap r) (WSwap (SSwapDenom c (rw_denom r) (Some self))) [c]) coins) as H.
  destruct H as [H1 H2]; [intros c _; exact I|]. split; [exact H1|]. intros Hn. apply H2.
  intros c E. apply andb_true_iff in E. destruct E as [E _].
  apply existsb_exists in E. destruct E as (x & Hin & Ex). apply N.eqb_eq in Ex.
  cbn [outflow]. unfold coin_sum, coin_amt. cbn [map sumN].
  destruct (fst c =? rw_denom r) eqn:Ed; [|reflexivity].
  apply N.eqb_eq in Ed. exfalso. apply Hn. rewrite <- Ed, Ex. exact Hin.
Qed.

Lemma reward_out_spec w r self s m r' out :
  reward_execute w r self s m = Some (r', out) ->
  Forall leaf out /\
  (~ In (rw_denom r) (rw_denoms r) -> sumN (map (outflow (rw_denom r)) out) = payout_of r s m).
Proof.
  intros H. destruct m; cbn [payout_of];
    try (cbn [reward_execute] in H; check_inv H as Hs; inversion H; subst;
         split; [constructor | reflexivity]).
  - apply rclaim_iff in H. destruct H as (_ & _ & _ & _ & ->). split; [repeat constructor|].
    intros _. cbn [map sumN outflow]. unfold coin_sum, coin_amt. cbn [map sumN fst snd].
    rewrite N.eqb_refl. lia.
  - cbn [reward_execute] in H. bind_inv H as dp Hdp. check_inv H as Hs. inversion H; subst.
    apply swap_msgs_spec.
  - apply rupdate_iff in H. destruct H as (_ & -> & _). split; [constructor | reflexivity].
  - apply rinc_iff in H. destruct H as (_ & _ & _ & _ & _ & ->). split; [constructor | reflexivity].
  - apply rdec_iff in H. destruct H as (_ & _ & _ & _ & _ & ->). split; [constructor | reflexivity].
Qed.

(** ** 3. configuration envelope (E4) of the reward contract *)
(** addresses at which [call] finds a contract *)
Definition is_contract (a : addr) : bool :=
  existsb (N.eqb a) [A_hub; A_reward; A_disp; A_reg; A_bsei; A_stsei; A_swap; A_airdrop].

(** E4 for the reward contract: its reward coin is [d0] and is not in its swap list; its owner
    and pending owner are externally owned accounts (not one of the protocol's contracts) *)
Definition RCfg (d0 : denom) (r : reward) : Prop :=
  rw_denom r = d0 /\ ~ In d0 (rw_denoms r) /\
  is_contract (rw_owner r) = false /\ is_contract (rw_newowner r) = false.

Definition is_cfg_msg (m : reward_msg) : bool :=
  match m with RConfig _ _ _ | RSetOwner _ | RAccept | RSwapDenom _ _ => true | _ => false end.

Lemma reward_execute_noncfg w r self s m r' out d0 :
  reward_execute w r self s m = Some (r', out) -> is_cfg_msg m = false -> RCfg d0 r -> RCfg d0 r'.
Proof.
  intros H Hm HC. destruct m; try discriminate Hm.
  - apply rclaim_iff in H. destruct H as (_ & _ & _ & -> & _). exact HC.
  - cbn [reward_execute] in H. bind_inv H as dp Hdp. check_inv H as Hs. inversion H; subst. exact HC.
  - apply rupdate_iff in H. destruct H as (_ & _ & [[_ ->] | (_ & _ & _ & _ & ->)]); exact HC.
  - apply rinc_iff in H. destruct H as (_ & _ & _ & _ & -> & _). exact HC.
  - apply rdec_iff in H. destruct H as (_ & _ & _ & _ & -> & _). exact HC.
Qed.

Lemma reward_execute_cfg_sender w r self s m r' out d0 :
  reward_execute w r self s m = Some (r', out) -> is_cfg_msg m = true -> RCfg d0 r ->
  is_contract s = false.
Proof.
  intros H Hm (_ & _ & Ho & Hn). pose proof (auth_reward _ _ _ _ _ _ _ H) as HA.
  destruct m; try discriminate Hm; subst s; assumption.
Qed.

Lemma reward_execute_cfg_effect w r self s m r' out :
  reward_execute w r self s m = Some (r', out) -> is_cfg_msg m = true ->
  out = [] /\ rw_gi r' = rw_gi r /\ rw_total r' = rw_total r /\ rw_prev r' = rw_prev r /\
  rw_holders r' = rw_holders r.
Proof.
  intros H Hm. destruct m; try discriminate Hm;
    cbn [reward_execute] in H; check_inv H as Hs; inversion H; subst; conjs.
Qed.

Lemma rcore_ext r r' :
  rw_gi r' = rw_gi r -> rw_total r' = rw_total r -> rw_prev r' = rw_prev r ->
  rw_holders r' = rw_holders r -> RCore r -> RCore r'.
Proof. intros E1 E2 E3 E4. unfold RCore, sum_acc, sum_bal. rewrite E1, E2, E3, E4. auto. Qed.

(** ** 4. message-level invariant *)
Definition owed (d : denom) (stack : list (addr * cmsg)) : N :=
  sumN (map (fun sm : addr * cmsg => if fst sm =? A_reward then outflow d (snd sm) else 0) stack).

Definition no_rw (stack : list (addr * cmsg)) : Prop := Forall (fun sm => fst sm <> A_reward) stack.

(** pending messages sent by the reward contract are leaves and sit on top of the stack *)
Fixpoint K (stack : list (addr * cmsg)) : Prop :=
  match stack with
  | [] => True
  | sm :: rest => if fst sm =? A_reward then leaf (snd sm) /\ K rest else no_rw rest
  end.

Lemma owed_app d s1 s2 : owed d (s1 ++ s2) = owed d s1 + owed d s2.
Proof. unfold owed. rewrite map_app, sumN_app. reflexivity. Qed.

Lemma owed_no_rw d stack : no_rw stack -> owed d stack = 0.
Proof.
  unfold owed, no_rw. induction stack as [|sm st IH]; intros HF; cbn [map sumN]; [reflexivity|].
  inversion HF as [|x l Hx Hl]; subst. apply N.eqb_neq in Hx. cbv beta. rewrite Hx, (IH Hl). reflexivity.
Qed.

Lemma owed_tagged_reward d o :
  owed d (map (fun x => (A_reward, x)) o) = sumN (map (outflow d) o).
Proof.
  unfold owed. induction o as [|x o IH]; cbn [map sumN fst snd]; [reflexivity|].
  rewrite N.eqb_refl, IH. reflexivity.
Qed.

Lemma no_rw_K stack : no_rw stack -> K stack.
Proof.
  unfold no_rw. destruct stack as [|sm st]; intros HF; cbn [K]; [exact I|].
  inversion HF as [|x l Hx Hl]; subst. apply N.eqb_neq in Hx. rewrite Hx. exact Hl.
Qed.

Lemma no_rw_tagged to o rest :
  to <> A_reward -> no_rw rest -> no_rw (map (fun x => (to, x)) o ++ rest).
Proof.
  intros Hne Hr. unfold no_rw. apply Forall_app. split; [|exact Hr].
  apply Forall_forall. intros sm Hin. apply in_map_iff in Hin. destruct Hin as (x & <- & _). exact Hne.
Qed.

Lemma K_tagged_reward o rest :
  Forall leaf o -> no_rw rest -> K (map (fun x => (A_reward, x)) o ++ rest).
Proof.
  intros HL Hr. induction HL as [|x o Hx Ho IH]; cbn [map app]; [apply no_rw_K; exact Hr|].
  cbn [K fst snd]. rewrite N.eqb_refl. split; assumption.
Qed.

Lemma contract_tagged to o rest :
  is_contract to = true -> Forall (fun sm : addr * cmsg => is_contract (fst sm) = true) rest ->
  Forall (fun sm : addr * cmsg => is_contract (fst sm) = true) (map (fun x => (to, x)) o ++ rest).
Proof.
  intros Hc Hr. apply Forall_app. split; [|exact Hr].
  apply Forall_forall. intros sm Hin. apply in_map_iff in Hin. destruct Hin as (x & <- & _). exact Hc.
Qed.

Definition J (d0 : denom) (w : world) (stack : list (addr * cmsg)) : Prop :=
  K stack /\ Forall (fun sm => is_contract (fst sm) = true) stack /\
  forall r, w_reward w = Some r ->
    RCfg d0 r /\ RCore r /\ rw_prev r + owed d0 stack <= bal (w_env w) A_reward d0.

(** what one executed message does to the reward contract *)
Inductive reward_effect (w : world) (s : addr) (m : cmsg) (w' : world) (out : list (addr * cmsg)) : Prop :=
| RE_frame to :
    w_reward w' = w_reward w -> is_contract to = true -> to <> A_reward ->
    (exists o, out = map (fun x => (to, x)) o) -> reward_effect w s m w' out
| RE_exec w1 r rm r' o :
    w_reward w = Some r -> w_env w1 = w_env w' ->
    (forall a d, bal (w_env w) a d <= bal (w_env w1) a d + (if s =? a then outflow d m else 0)) ->
    reward_execute w1 r A_reward s rm = Some (r', o) -> w_reward w' = Some r' ->
    out = map (fun x => (A_reward, x)) o -> reward_effect w s m w' out.

Ltac neq_addr := let X := fresh "X" in intro X; vm_compute in X; discriminate X.

Lemma step_msg_reward_effect w s m w' out :
  step_msg w s m = Some (w', out) -> reward_effect w s m w' out.
Proof.
  intros H. pose proof (step_msg_inv _ _ _ _ _ H) as HE.
  destruct HE as [e' -> -> _ | to wm funds e1 o -> Hsend Hc ->].
  - apply (RE_frame _ _ _ _ _ A_hub); [reflexivity | reflexivity | neq_addr | exists []; reflexivity].
  - destruct Hc as [h hm h' -> _ _ _ -> | r rm r' -> _ Hr He -> | dd dm d' -> _ _ _ ->
                   | g gm g' -> _ _ _ -> | t cm t' -> _ _ _ -> | t cm t' -> _ _ _ ->
                   | sm e' -> _ _ -> -> | -> -> ->];
      try (match goal with |- reward_effect _ _ _ _ (map (fun x => (?t, x)) _) =>
             apply (RE_frame _ _ _ _ _ t); [reflexivity | reflexivity | neq_addr | eexists; reflexivity] end).
    + eapply (RE_exec _ _ _ _ _ (set_env w e1) r rm r' o); try reflexivity; try eassumption.
      intros a d. cbn [w_env set_env outflow]. eapply send_coins_bal_lower; eauto.
Qed.

Lemma step_msg_J d0 w s m rest w' out :
  J d0 w ((s, m) :: rest) -> step_msg w s m = Some (w', out) -> J d0 w' (out ++ rest).
Proof.
  intros (HK & HF & HR) H. inversion HF as [|x l Hs HFr]; subst. cbn [fst] in Hs.
  pose proof (step_msg_bal_lower _ _ _ _ _ A_reward d0 H) as Hbal.
  cbn [K fst snd] in HK. destruct (s =? A_reward) eqn:Es.
  - (* a pending leaf message of the reward contract *)
    destruct HK as [HL HK]. destruct (leaf_step _ _ _ _ _ HL H) as [-> Hrw]. cbn [app].
    split; [exact HK|]. split; [exact HFr|]. intros r Hr. rewrite Hrw in Hr.
    destruct (HR r Hr) as (Hc & Hcore & Hb). split; [exact Hc|]. split; [exact Hcore|].
    unfold owed in Hb. cbn [map sumN fst snd] in Hb. rewrite Es in Hb. fold (owed d0 rest) in Hb. lia.
  - (* any other message: nothing of the reward contract is pending *)
    pose proof (owed_no_rw d0 rest HK) as Hor.
    assert (Hb0 : forall r, w_reward w = Some r -> rw_prev r <= bal (w_env w') A_reward d0).
    { intros r Hr. destruct (HR r Hr) as (_ & _ & Hb). rewrite N.add_0_r in Hbal.
      assert (owed d0 ((s, m) :: rest) = 0) by (apply owed_no_rw; constructor;
        [cbn [fst]; apply N.eqb_neq; exact Es | exact HK]). lia. }
    destruct (step_msg_reward_effect _ _ _ _ _ H)
      as [to Hrw Hct Hne (o & ->) | w1 r rm r' o Hr Henv Hb1 He Hr' ->].
    + split; [apply no_rw_K, no_rw_tagged; assumption|].
      split; [apply contract_tagged; assumption|]. intros r Hr. rewrite Hrw in Hr.
      destruct (HR r Hr) as (Hc & Hcore & _). split; [exact Hc|]. split; [exact Hcore|].
      rewrite (owed_no_rw d0 _ (no_rw_tagged to o rest Hne HK)). pose proof (Hb0 r Hr). lia.
    + destruct (HR r Hr) as (Hc & Hcore & _). pose proof (reward_out_spec _ _ _ _ _ _ _ He) as [HL Hpay].
      split; [apply K_tagged_reward; assumption|].
      split; [apply contract_tagged; [reflexivity | assumption]|].
      intros r0 Hr0. rewrite Hr' in Hr0. inversion Hr0; subst r0. clear Hr0.
      assert (Hcfg : is_cfg_msg rm = false).
      { destruct (is_cfg_msg rm) eqn:E; [|reflexivity].
        pose proof (reward_execute_cfg_sender _ _ _ _ _ _ _ d0 He E Hc). congruence. }
      split; [eapply reward_execute_noncfg; eauto|].
      split; [eapply reward_execute_rcore; eauto|].
      destruct Hc as (Hd & Hnin & _). rewrite <- Hd in Hnin.
      rewrite owed_app, owed_tagged_reward, Hor, N.add_0_r. rewrite <- Hd at 1. rewrite (Hpay Hnin).
      set (bank1 := bal (w_env w1) A_reward d0).
      assert (HI : RInv r bank1).
      { split; [exact Hcore|]. pose proof (Hb1 A_reward d0) as Hx. rewrite Es, N.add_0_r in Hx.
        destruct (HR r Hr) as (_ & _ & Hb). unfold bank1. lia. }
      assert (Hbk : rm = RUpdateIndex -> bank1 = bal (w_env w1) A_reward (rw_denom r))
        by (intros _; rewrite Hd; reflexivity).
      destruct (reward_execute_rinv _ _ _ _ _ _ _ bank1 HI Hbk He) as [Hp [_ Hp']].
      rewrite <- Henv. fold bank1. lia.
Qed.

(** ** 5. operation-level invariant and envelope *)
(** the reward pool is solvent against the contract's real bank balance of its reward coin *)
Definition RWInv (w : world) : Prop :=
  forall r, w_reward w = Some r -> RInv r (bal (w_env w) A_reward (rw_denom r)).

(** E4 envelope for the reward contract (vacuous while it is not instantiated) *)
Definition REnv (d0 : denom) (w : world) : Prop := forall r, w_reward w = Some r -> RCfg d0 r.

(** contracts hold no keys: no transaction is signed by the reward contract's own address *)
Definition NoRewardRoot (ops : list op) : Prop :=
  Forall (fun o => match o with OTx s _ _ _ => s <> A_reward | _ => True end) ops.

Lemma J_final d0 w : J d0 w [] -> RWInv w.
Proof.
  intros (_ & _ & HR) r Hr. destruct (HR r Hr) as ((Hd & _) & Hcore & Hb).
  rewrite Hd. split; [exact Hcore|]. unfold owed in Hb. cbn [map sumN] in Hb. lia.
Qed.

(** the first message of a transaction (arbitrary sender other than the reward contract) *)
Lemma root_step d0 w s m w1 out :
  s <> A_reward -> REnv d0 w -> RWInv w -> step_msg w s m = Some (w1, out) ->
  J d0 w1 out \/
  (out = [] /\ forall r1, w_reward w1 = Some r1 ->
                 RCore r1 /\ rw_prev r1 <= bal (w_env w1) A_reward d0).
Proof.
  intros Hs HE HI H. apply N.eqb_neq in Hs.
  pose proof (step_msg_bal_lower _ _ _ _ _ A_reward d0 H) as Hbal. rewrite Hs, N.add_0_r in Hbal.
  assert (Hb0 : forall r, w_reward w = Some r -> rw_prev r <= bal (w_env w1) A_reward d0).
  { intros r Hr. destruct (HI r Hr) as [_ Hb]. destruct (HE r Hr) as (Hd & _). rewrite Hd in Hb. lia. }
  destruct (step_msg_reward_effect _ _ _ _ _ H)
    as [to Hrw Hct Hne (o & ->) | w' r rm r' o Hr Henv Hb1 He Hr' ->].
  - left. assert (Hnr : no_rw (map (fun x => (to, x)) o)).
    { rewrite <- (app_nil_r (map _ o)). apply no_rw_tagged; [exact Hne | constructor]. }
    split; [apply no_rw_K; exact Hnr|]. split.
    + rewrite <- (app_nil_r (map _ o)). apply contract_tagged; [exact Hct | constructor].
    + intros r Hr. rewrite Hrw in Hr. split; [apply HE; exact Hr|].
      split; [apply (HI r Hr)|]. rewrite (owed_no_rw d0 _ Hnr). pose proof (Hb0 r Hr). lia.
  - destruct (HI r Hr) as [Hcore Hb]. pose proof (HE r Hr) as Hc.
    destruct (is_cfg_msg rm) eqn:Ecfg.
    + right. destruct (reward_execute_cfg_effect _ _ _ _ _ _ _ He Ecfg) as (-> & E1 & E2 & E3 & E4).
      split; [reflexivity|]. intros r1 Hr1. rewrite Hr' in Hr1. inversion Hr1; subst r1.
      split; [eapply rcore_ext; eauto|]. rewrite E3. apply Hb0. exact Hr.
    + left. pose proof (reward_out_spec _ _ _ _ _ _ _ He) as [HL Hpay].
      split; [rewrite <- (app_nil_r (map _ o)); apply K_tagged_reward; [exact HL | constructor]|].
      split; [rewrite <- (app_nil_r (map _ o)); apply contract_tagged; [reflexivity | constructor]|].
      intros r0 Hr0. rewrite Hr' in Hr0. inversion Hr0; subst r0. clear Hr0.
      split; [eapply reward_execute_noncfg; eauto|].
      split; [eapply reward_execute_rcore; eauto|].
      destruct Hc as (Hd & Hnin & _). rewrite <- Hd in Hnin.
      rewrite owed_tagged_reward. rewrite <- Hd at 1. rewrite (Hpay Hnin).
      set (bank1 := bal (w_env w') A_reward d0).
      assert (HI1 : RInv r bank1).
      { split; [exact Hcore|]. pose proof (Hb1 A_reward d0) as Hx. rewrite Hs, N.add_0_r in Hx.
        rewrite Hd in Hb. unfold bank1. lia. }
      assert (Hbk : rm = RUpdateIndex -> bank1 = bal (w_env w') A_reward (rw_denom r))
        by (intros _; rewrite Hd; reflexivity).
      destruct (reward_execute_rinv _ _ _ _ _ _ _ bank1 HI1 Hbk He) as [Hp [_ Hp']].
      rewrite <- Henv. fold bank1. lia.
Qed.

Lemma run_S f w s m rest tr :
  run (S f) w ((s, m) :: rest) tr
  = bind (step_msg w s m) (fun r => run f (fst r) (snd r ++ rest) (tr ++ [(s, m)])).
Proof. reflexivity. Qed.

Lemma run_nil f w tr : run f w [] tr = Some (w, tr).
Proof. destruct f; reflexivity. Qed.

Lemma tx_rwinv d0 w s target m funds w' tr :
  s <> A_reward -> REnv d0 w -> REnv d0 w' -> RWInv w ->
  run tx_fuel w [(s, MWasm target m funds)] [] = Some (w', tr) -> RWInv w'.
Proof.
  intros Hs HE HE' HI H. unfold tx_fuel in H. rewrite run_S in H.
  bind_inv H as x Hx. destruct x as [w1 out]. cbn [fst snd] in H. rewrite app_nil_r in H.
  destruct (root_step d0 _ _ _ _ _ Hs HE HI Hx) as [HJ | [-> Hr]].
  - apply (J_final d0). eapply (run_preserves_stack (J d0)); [|exact HJ | exact H].
    intros. eapply step_msg_J; eauto.
  - rewrite run_nil in H. inversion H; subst.
    intros r1 Hr1. destruct (Hr r1 Hr1) as [Hcore Hb]. destruct (HE' r1 Hr1) as (Hd & _).
    rewrite Hd. split; assumption.
Qed.

Lemma rwinv_env w e :
  (forall d, bal (w_env w) A_reward d <= bal e A_reward d) -> RWInv w -> RWInv (set_env w e).
Proof.
  intros Hge HI r Hr. cbn [w_reward set_env] in Hr. cbn [w_env set_env].
  eapply rinv_bank_mono; [apply Hge | apply HI; exact Hr].
Qed.

(** one operation of a history *)
Theorem step_rwinv d0 w o :
  match o with OTx s _ _ _ => s <> A_reward | _ => True end ->
  REnv d0 w -> REnv d0 (fst (step w o)) -> RWInv w -> RWInv (fst (step w o)).
Proof.
  intros Hok HE HE' HI. destruct o; cbn [step] in *.
  - intros r Hr. discriminate Hr.
  - destruct (e_now (w_env w) + dt <=? 18446744073); cbn [fst]; [|exact HI].
    apply rwinv_env; [|exact HI]. intros d. unfold ev_advance.
    pose proof (deliver_matured_bal_ge (set_now (w_env w) (e_now (w_env w) + dt)) A_reward d) as H.
    exact H.
  - destruct (ev_slash (w_env w) v num den unb) as [e'|] eqn:E; cbn [fst]; [|exact HI].
    apply rwinv_env; [|exact HI]. intros d. unfold ev_slash in E.
    check_inv E as E1. check_inv E as E2. inversion E; subst. apply N.le_refl.
  - destruct (ev_accrue (w_env w) A_hub v d a) as [e'|] eqn:E; cbn [fst]; [|exact HI].
    apply rwinv_env; [|exact HI]. intros d1. unfold ev_accrue in E.
    destruct (delegation (w_env w) A_hub v); [|discriminate]. inversion E; subst. apply N.le_refl.
  - cbn [fst]. apply rwinv_env; [|exact HI]. intros d1. apply bal_credit_ge.
  - destruct (p =? 0); cbn [fst]; [exact HI|]. apply rwinv_env; [|exact HI]. intros d. apply N.le_refl.
  - cbn [fst]. apply rwinv_env; [|exact HI]. intros d. apply N.le_refl.
  - cbn [fst]. apply rwinv_env; [|exact HI]. intros d. apply N.le_refl.
  - cbn [fst]. apply rwinv_env; [|exact HI]. intros d. apply N.le_refl.
  - destruct (w_hub w); cbn [fst]; exact HI.
  - cbn [fst]. exact HI.
  - cbn [fst]. intros r Hr. cbn [w_reward set_w_reward] in Hr. inversion Hr; subst.
    apply rinv_instantiate.
  - cbn [fst]. exact HI.
  - cbn [fst]. exact HI.
  - cbn [fst]. exact HI.
  - cbn [fst]. exact HI.
  - destruct (run tx_fuel w [(sender, MWasm target m funds)] []) as [[w' tr]|] eqn:E; cbn [fst] in *;
      [|exact HI].
    exact (tx_rwinv d0 w sender target m funds w' tr Hok HE HE' HI E).
Qed.

(** C14, history level: from any world satisfying the invariant, along any history that keeps
    the reward contract's E4 configuration and in which the reward contract's address signs no
    transaction, every reached world satisfies
    [sum of accrued <= prev * D], [prev <= real bank balance of the reward coin],
    [total = sum of balances], [every holder index <= global index]. *)
Theorem rwinv_reachable d0 ops : forall w0,
  NoRewardRoot ops -> always (REnv d0) ops w0 -> RWInv w0 -> RWInv (run_ops ops w0).
Proof.
  unfold run_ops. induction ops as [|o ops IH]; intros w0 Hok HA HI; cbn [fold_left]; [exact HI|].
  cbn [always] in HA. destruct HA as [HE HA]. inversion Hok as [|x l Ho Hl]; subst.
  apply IH; [exact Hl | exact HA|]. eapply step_rwinv; eauto. eapply always_head; exact HA.
Qed.

Corollary rwinv_from_empty d0 ut ops :
  NoRewardRoot ops -> always (REnv d0) ops (empty_world ut) -> RWInv (run_ops ops (empty_world ut)).
Proof. intros Hok HA. apply (rwinv_reachable d0); auto. intros r Hr. discriminate Hr. Qed.

(** the shared wiring vocabulary of Inv.v implies the denom part of [REnv] *)
Lemma RewardWired_cfg w r :
  RewardWired w -> w_reward w = Some r ->
  is_contract (rw_owner r) = false -> is_contract (rw_newowner r) = false ->
  RCfg (rw_denom r) r.
Proof.
  unfold RewardWired. intros HW Hr Ho Hn. rewrite Hr in HW.
  destruct (w_disp w); [|contradiction]. destruct HW as (_ & _ & Hnin). repeat split; assumption.
Qed.

(** ** 6. a ClaimRewards transaction never fails for lack of funds *)
Lemma debit_ok e a d x : x <= bal e a d -> exists e', debit e a d x = Some e'.
Proof. intros H. unfold debit. apply N.leb_le in H. rewrite H. eauto. Qed.

Theorem claim_tx_succeeds w r s rcp :
  w_reward w = Some r -> RWInv w -> RBound r -> D <= acc r s ->
  exists w',
    step w (OTx s A_reward (WReward (RClaim rcp)) [])
      = (w', (true, [(s, MWasm A_reward (WReward (RClaim rcp)) []);
                     (A_reward, MBank (claim_to rcp s) [(rw_denom r, acc r s / D)])])) /\
    w_reward w' = Some (claim_state r s) /\
    bal (w_env w) A_reward (rw_denom r) - acc r s / D <= bal (w_env w') A_reward (rw_denom r) /\
    (claim_to rcp s <> A_reward ->
     bal (w_env w') A_reward (rw_denom r) = bal (w_env w) A_reward (rw_denom r) - acc r s / D /\
     bal (w_env w') (claim_to rcp s) (rw_denom r)
       = bal (w_env w) (claim_to rcp s) (rw_denom r) + acc r s / D).
Proof.
  intros Hr HI HB Hu. pose proof (HI r Hr) as HInv.
  set (w0 := set_env w (w_env w)).
  destruct (claim_succeeds_exact w0 r A_reward s rcp _ HInv HB Hu) as (He & H1 & Hp & Hb & _).
  set (k := acc r s / D) in *. set (d := rw_denom r) in *. set (to := claim_to rcp s) in *.
  assert (Hk : k <= bal (w_env w) A_reward d) by lia.
  destruct (debit_ok (w_env w) A_reward d k Hk) as [e1 He1].
  set (w1 := set_reward w0 (claim_state r s)).
  assert (S1 : step_msg w s (MWasm A_reward (WReward (RClaim rcp)) [])
               = Some (w1, [(A_reward, MBank to [(d, k)])])).
  { unfold step_msg. cbn [send_coins foldM bind]. fold w0. unfold call.
    change (A_reward =? A_hub) with false. change (A_reward =? A_reward) with true. cbv iota.
    cbn [bind]. change (w_reward w0) with (w_reward w). rewrite Hr. cbn [bind].
    rewrite He. cbn [bind fst snd map]. reflexivity. }
  assert (S2 : step_msg w1 A_reward (MBank to [(d, k)])
               = Some (set_env w1 (credit e1 to d k), [])).
  { unfold step_msg, bank_send, send_coins. cbn [foldM]. unfold send_coin.
    assert (Hnz : (k =? 0) = false) by (apply N.eqb_neq; lia). rewrite Hnz. cbn [negb].
    change (w_env w1) with (w_env w). rewrite He1. cbn [bind]. reflexivity. }
  exists (set_env w1 (credit e1 to d k)). split; [|split; [reflexivity|]].
  - cbn [step]. unfold tx_fuel. rewrite run_S, S1. cbn [bind fst snd app].
    rewrite run_S, S2. cbn [bind fst snd app]. rewrite run_nil. reflexivity.
  - cbn [w_env set_env]. destruct (debit_spec _ _ _ _ _ He1) as (_ & Hs & Ho).
    split.
    + pose proof (bal_credit_ge e1 to d k A_reward d). lia.
    + intros Hne. split.
      * rewrite bal_credit_other by congruence. exact Hs.
      * rewrite bal_credit_same. rewrite Ho by congruence. reflexivity.
Qed.

(** ** 6b. (C15 e) the reward state changes only through the reward contract's own handler:
    whatever message is executed anywhere in the protocol (token transfers, sends, burns, hub
    bonding / unbonding, dispatcher, registry, bank and staking messages), either the reward
    state is untouched or the message was a call into the reward contract, whose effect on each
    holder is given by [inc_preserves_acc], [dec_preserves_acc], [other_holder_untouched],
    [accrual_step], [claim_succeeds_exact] *)
Theorem reward_state_changes_only_by_handler w s m w' out :
  step_msg w s m = Some (w', out) ->
  w_reward w' = w_reward w \/
  exists w1 r rm r' o,
    w_reward w = Some r /\ w_reward w' = Some r' /\
    reward_execute w1 r A_reward s rm = Some (r', o) /\
    (exists wm funds, m = MWasm A_reward wm funds /\
       (wm = WReward rm \/ exists n, wm = WHub (HUpdateGlobal n) /\ rm = RUpdateIndex)).
Proof.
  intros H. apply step_msg_inv in H.
  destruct H as [e' -> -> _ | to wm funds e1 o -> Hsend Hc ->]; [left; reflexivity|].
  destruct Hc as [h hm h' -> _ _ _ -> | r rm r' -> Hm Hr He -> | dd dm d' -> _ _ _ ->
                 | g gm g' -> _ _ _ -> | t cm t' -> _ _ _ -> | t cm t' -> _ _ _ ->
                 | sm e' -> _ _ -> -> | -> -> ->]; try (left; reflexivity).
  right. exists (set_env w e1), r, rm, r', o. split; [exact Hr|]. split; [reflexivity|].
  split; [exact He|]. exists wm, funds. split; [reflexivity | exact Hm].
Qed.

(** ** 7. non-vacuity: a concrete history inside the envelope *)
Definition ex_ops : list op :=
  [ OInstHub A_owner 30 100 0 0 A_owner usei uusd;
    OInstReward A_owner A_hub uusd A_swap [uatom];
    OTx A_owner A_hub (WHub (HConfig (Some A_disp) (Some A_reg) (Some A_bsei) (Some A_stsei) None
                                     (Some A_reward) None)) [];
    OTx A_bsei A_reward (WReward (RInc 20 3)) [];
    OTx A_bsei A_reward (WReward (RInc 21 4)) [];
    OGift A_reward uusd 10;
    OTx A_disp A_reward (WReward RUpdateIndex) [];
    OTx 20 A_reward (WReward (RClaim None)) [] ].

Definition ex_world : world := run_ops ex_ops (empty_world 100).
(** the world just before the claim *)
Definition ex_world7 : world := run_ops (firstn 7 ex_ops) (empty_world 100).

Lemma ex_no_reward_root : NoRewardRoot ex_ops.
Proof. unfold NoRewardRoot, ex_ops. repeat constructor; intro X; vm_compute in X; discriminate X. Qed.

Lemma renv_check d0 w :
  match w_reward w with
  | Some r => rw_denom r = d0 /\ ~ In d0 (rw_denoms r) /\
              is_contract (rw_owner r) = false /\ is_contract (rw_newowner r) = false
  | None => True
  end -> REnv d0 w.
Proof. intros H r Hr. rewrite Hr in H. exact H. Qed.

Lemma ex_always : always (REnv uusd) ex_ops (empty_world 100).
Proof.
  unfold ex_ops. cbn [always].
  repeat (split; [apply renv_check; vm_compute; try exact I;
                  repeat split; try reflexivity; intros [X|[]]; discriminate X|]).
  exact I.
Qed.

Example rwinv_nonvacuous :
  NoRewardRoot ex_ops /\ always (REnv uusd) ex_ops (empty_world 100) /\ RWInv ex_world /\
  exists r, w_reward ex_world = Some r /\ rw_prev r = 6 /\ rw_total r = 7 /\
            bal (w_env ex_world) A_reward uusd = 6 /\ bal (w_env ex_world) 20 uusd = 4 /\
            acc r 21 = 5714285714285714284.
Proof.
  split; [exact ex_no_reward_root|]. split; [exact ex_always|].
  split; [apply (rwinv_from_empty uusd); [exact ex_no_reward_root | exact ex_always]|].
  eexists. split; [vm_compute; reflexivity|]. repeat split; vm_compute; reflexivity.
Qed.

(** hypotheses of [claim_tx_succeeds] hold for holder 20 in the world before its claim *)
Example claim_tx_nonvacuous :
  exists r, w_reward ex_world7 = Some r /\ RWInv ex_world7 /\ RBound r /\ D <= acc r 20.
Proof.
  eexists. split; [vm_compute; reflexivity|]. split.
  - apply (rwinv_reachable uusd).
    + unfold NoRewardRoot, ex_ops. cbn [firstn]. repeat constructor; intro X; vm_compute in X; discriminate X.
    + unfold ex_ops. cbn [firstn always].
      repeat (split; [apply renv_check; vm_compute; try exact I;
                      repeat split; try reflexivity; intros [X|[]]; discriminate X|]).
      exact I.
    + intros r Hr. discriminate Hr.
  - split; [split; vm_compute; intro X; discriminate X | vm_compute; intro X; discriminate X].
Qed.

(* restore the development's default arithmetic hook for files loaded after this one *)
Ltac Zify.zify_post_hook ::= Z.div_mod_to_equations.
