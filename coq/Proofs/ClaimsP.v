(** * ClaimsP (C07): every unbonded token is recorded in exactly one batch claim of its sender.

    Main theorems
    - [claims_inv_instantiate] / [claims_inv_execute] : [ClaimsInv] holds after instantiate and is
      preserved by every successful hub message (E6: the legacy wait list is empty);
    - [ClaimsInv_reachable]   : [ClaimsInv] holds in every world reached by a legacy-free history;
    - [claims_sums_reachable] : the same, spelled out: per-batch sums of the wait list equal the open
      batch totals / the history amounts of every unreleased batch (and never exceed those of a
      released one);
    - [unbond_effect]         : an accepted Unbond hook burns exactly the amount sent (last message,
      to the calling token), credits amount - fee (bSei) / amount (stSei) to wait(user, open batch)
      and to the batch total, and touches no other wait entry;
    - [bsei_hook_names_caller] / [stsei_hook_names_caller] : the Receive hook built by the tokens names
      the caller of Send / SendFrom (the spender) and the amount moved;
    - [wait_change_cases]           : trichotomy for every wait entry across one hub message;
    - [claims_only_via_tokens]      : a wait entry is created / changed to a new value only by an
      Unbond hook coming from one of the two registered token contracts;
    - [claims_removed_only_by_owner]: a wait entry disappears only in a WithdrawUnbonded sent by its
      owner, for a batch that is released; otherwise it can only grow;
    - [user_waits_faithful], [user_waits_sorted_reachable], [query_history_slice] : the
      UnbondRequests / AllHistory queries report the books faithfully;
    - [example_*_nonvacuous], [claims_inv_refuted_by_legacy] : concrete worlds (two users, both
      tokens in one batch, Send and SendFrom, peg fee, epoch boundary, paid withdrawal). *)
From Krp Require Import Tactics Prelude Fixed FMap Types Env Registry Cw20 Reward Dispatcher Hub Exec
     ExecP HubFrame HubAdmin Pause ClaimsStep.
From Coq Require Import Sorted.
Open Scope N_scope.

(** per user, the wait-list keys appear in ascending batch order *)
Definition key_before (k1 k2 : addr * N) : Prop := fst k1 = fst k2 -> snd k1 < snd k2.

(** the C07 invariant of the hub state; [c] is the id of the open batch *)
Definition ClaimsInv (h : hub) : Prop :=
  let c := cb_id (h_batch h) in
  NoDup (keys (h_wait h)) /\
  StronglySorted key_before (keys (h_wait h)) /\
  HistShape h /\
  (forall u i, get eqbAN (h_wait h) (u, i) <> None -> 1 <= i <= c) /\
  wsum fst (h_wait h) c = cb_reqb (h_batch h) /\
  wsum snd (h_wait h) c = cb_reqst (h_batch h) /\
  (forall i e, get N.eqb (h_hist h) i = Some e ->
     wsum fst (h_wait h) i <= he_bamt e /\ wsum snd (h_wait h) i <= he_samt e /\
     (he_released e = false ->
      wsum fst (h_wait h) i = he_bamt e /\ wsum snd (h_wait h) i = he_samt e)).

Lemma claims_inv_ext h h' :
  h_wait h' = h_wait h -> h_hist h' = h_hist h -> h_batch h' = h_batch h ->
  ClaimsInv h -> ClaimsInv h'.
Proof. unfold ClaimsInv, HistShape. intros -> -> ->. tauto. Qed.

(** ** instantiate *)
Lemma claims_inv_instantiate sender now epoch unbonding pegfee thr updater underlying rdenom h :
  hub_instantiate sender now epoch unbonding pegfee thr updater underlying rdenom = Some h ->
  h_oldwait h = [] /\ ClaimsInv h.
Proof.
  unfold hub_instantiate. intros H. check_inv H as Hf. inversion H; subst. clear H.
  split; [reflexivity|]. unfold ClaimsInv, HistShape. cbn.
  split; [constructor|]. split; [constructor|]. split; [split; [lia | reflexivity]|].
  split; [congruence|]. split; [reflexivity|]. split; [reflexivity|]. intros i e E. discriminate.
Qed.

(** ** helper facts *)
Lemma wgetf_wait_of h u c :
  wgetf fst (h_wait h) (u, c) = fst (wait_of h u c) /\ wgetf snd (h_wait h) (u, c) = snd (wait_of h u c).
Proof. unfold wgetf, wait_of. destruct (get eqbAN (h_wait h) (u, c)); split; reflexivity. Qed.

Lemma key_dec (k1 k2 : addr * N) : k1 = k2 \/ k1 <> k2.
Proof.
  destruct (eqbAN k1 k2) eqn:E; [left; apply eqbAN_eq; exact E|].
  right. intros ->. rewrite (eqb_refl eqbAN eqbAN_eq) in E. discriminate.
Qed.

Lemma get_set_cases (m : fmap (addr * N) (N * N)) k v k2 :
  get eqbAN (set eqbAN m k v) k2 = if eqbAN k2 k then Some v else get eqbAN m k2.
Proof.
  destruct (eqbAN k2 k) eqn:E.
  - apply eqbAN_eq in E. subst. apply get_set_same. exact eqbAN_eq.
  - apply get_set_other; [exact eqbAN_eq|]. intros ->. rewrite (eqb_refl eqbAN eqbAN_eq) in E. discriminate.
Qed.

Lemma sorted_snoc (l : list (addr * N)) k :
  StronglySorted key_before l -> Forall (fun a => key_before a k) l ->
  StronglySorted key_before (l ++ [k]).
Proof.
  induction l as [|a l IH]; cbn [app]; intros Hs Hf.
  - constructor; constructor.
  - apply StronglySorted_inv in Hs. destruct Hs as [Hs Ha]. inversion Hf; subst.
    constructor; [apply IH; assumption|]. apply Forall_app. split; [exact Ha | constructor; [assumption|constructor]].
Qed.

Lemma sorted_set (m : fmap (addr * N) (N * N)) u c v :
  StronglySorted key_before (keys m) ->
  (forall u0 i, get eqbAN m (u0, i) <> None -> i <= c) ->
  StronglySorted key_before (keys (set eqbAN m (u, c) v)).
Proof.
  intros Hs Hb. destruct (get eqbAN m (u, c)) as [x|] eqn:E.
  - rewrite set_present; [exact Hs | exact eqbAN_eq | congruence].
  - rewrite (set_absent eqbAN m (u, c) v E). unfold keys. rewrite map_app. cbn [map fst].
    apply sorted_snoc; [exact Hs|]. apply Forall_forall. intros [u1 i1] Hin Heq. cbn [fst snd] in *. subst u1.
    assert (Hp : get eqbAN m (u, i1) <> None).
    { intros X. apply (get_none_iff eqbAN eqbAN_eq) in X. apply X. exact Hin. }
    specialize (Hb _ _ Hp). assert (i1 <> c) by (intros ->; congruence). lia.
Qed.

Lemma sorted_del (m : fmap (addr * N) (N * N)) k :
  StronglySorted key_before (keys m) -> StronglySorted key_before (keys (del eqbAN m k)).
Proof.
  induction m as [|[k0 v0] r IH]; cbn [del keys map fst]; [auto|].
  intros Hs. apply StronglySorted_inv in Hs. destruct Hs as [Hs Ha].
  destruct (eqbAN k k0); [exact Hs|]. cbn [map fst]. constructor; [apply IH; exact Hs|].
  apply Forall_forall. intros x Hin. rewrite Forall_forall in Ha. apply Ha.
  eapply keys_del_incl. exact Hin.
Qed.

(** ** preservation: Unbond *)
Lemma claims_inv_unbond w h user db dst h' msgs :
  ClaimsInv h -> unbond_shape w h user db dst h' msgs -> ClaimsInv h'.
Proof.
  intros (Hnd & Hso & Hsh & Hbd & Hsb & Hss & Hhist) (Hw & _ & _ & Hcase).
  set (c := cb_id (h_batch h)) in *.
  destruct (wgetf_wait_of h user c) as [Wf Ws].
  pose proof (wsum_set fst (h_wait h) (user, c)
               (fst (wait_of h user c) + db, snd (wait_of h user c) + dst) c) as S1.
  pose proof (wsum_set snd (h_wait h) (user, c)
               (fst (wait_of h user c) + db, snd (wait_of h user c) + dst) c) as S2.
  cbn [fst snd] in S1, S2. rewrite N.eqb_refl, <- Hw in S1, S2.
  assert (Hoth : forall f i, i <> c -> wsum f (h_wait h') i = wsum f (h_wait h) i).
  { intros f i Hi. rewrite Hw. apply wsum_other_set. cbn [snd]. congruence. }
  assert (Hbd' : forall u i, get eqbAN (h_wait h') (u, i) <> None -> 1 <= i <= c).
  { intros u i. rewrite Hw, get_set_cases. destruct (eqbAN (u, i) (user, c)) eqn:E.
    - apply eqbAN_eq in E. inversion E; subst. destruct Hsh as [H1 _]. fold c in H1. lia.
    - apply Hbd. }
  assert (Hnd' : NoDup (keys (h_wait h'))) by (rewrite Hw; apply nodup_set; [exact eqbAN_eq | exact Hnd]).
  assert (Hso' : StronglySorted key_before (keys (h_wait h'))).
  { rewrite Hw. apply sorted_set; [exact Hso|]. intros u0 i Hg. apply Hbd in Hg. lia. }
  destruct Hcase as [(_ & Hb & Hh & _) | Hcl].
  - (* batch stays open *)
    unfold ClaimsInv, HistShape. rewrite Hb, Hh. cbn [cb_id cb_reqb cb_reqst]. fold c.
    split; [exact Hnd'|]. split; [exact Hso'|]. split; [exact Hsh|]. split; [exact Hbd'|].
    split; [lia|]. split; [lia|].
    intros i e Hg. assert (Hi : i <> c).
    { assert (X : 1 <= i < c) by (apply (shape_get h i Hsh); congruence). lia. }
    rewrite !Hoth by exact Hi. apply Hhist. exact Hg.
  - (* batch closes *)
    destruct Hcl as (_ & _ & Hb & _ & _ & entry & bund & sund & Hh & _ & Hba & Hsa & Hrel & _).
    unfold ClaimsInv, HistShape. rewrite Hb, Hh. cbn [cb_id cb_reqb cb_reqst]. fold c.
    split; [exact Hnd'|]. split; [exact Hso'|].
    split. { split; [lia|]. apply shape_put_end. exact Hsh. }
    split. { intros u i Hg. apply Hbd' in Hg. lia. }
    assert (Hz : forall f, wsum f (h_wait h') (c + 1) = 0).
    { intros f. apply wsum_absent. intros u.
      destruct (get eqbAN (h_wait h') (u, c + 1)) eqn:E; [|reflexivity].
      assert (X : 1 <= c + 1 <= c) by (apply (Hbd' u); congruence). lia. }
    split; [apply Hz|]. split; [apply Hz|].
    intros i e Hg. destruct (N.eq_dec i c) as [->|Hi].
    + rewrite hget_put_same in Hg. inversion Hg; subst e. rewrite Hba, Hsa. repeat split; lia.
    + rewrite hget_put_other in Hg by exact Hi. rewrite !Hoth by exact Hi. apply Hhist. exact Hg.
Qed.

(** ** preservation: release of matured batches, then deletion of the paid entries *)
Lemma claims_inv_pwr h historical hbal h1 :
  ClaimsInv h -> process_withdraw_rate h historical hbal = Some h1 -> ClaimsInv h1.
Proof.
  intros (Hnd & Hso & Hsh & Hbd & Hsb & Hss & Hhist) H.
  apply pwr_spec in H. destruct H as (n & _ & _ & Hw & Hb & Hrel & Hoth & Hkeys & _).
  unfold ClaimsInv, HistShape. rewrite Hw, Hb, (Hkeys Hsh).
  split; [exact Hnd|]. split; [exact Hso|]. split; [exact Hsh|]. split; [exact Hbd|].
  split; [exact Hsb|]. split; [exact Hss|].
  intros i e1 Hg.
  destruct (N.ltb_spec (hs_lpb (h_state h)) i) as [L1|L1];
    [destruct (N.leb_spec i (hs_lpb (h_state h) + N.of_nat n)) as [L2|L2]|].
  - destruct (Hrel i (conj L1 L2)) as (e & e' & G1 & G2 & _ & G3 & (_ & Rb & _ & Rs & _ & Rr)).
    rewrite Hg in G3. inversion G3; subst e'. rewrite Rb, Rs, Rr.
    destruct (Hhist _ _ G1) as (_ & _ & Heq). destruct (Heq G2) as [E1 E2].
    split; [lia|]. split; [lia|]. discriminate.
  - rewrite Hoth in Hg by lia. apply Hhist. exact Hg.
  - rewrite Hoth in Hg by lia. apply Hhist. exact Hg.
Qed.

Lemma claims_inv_del h u b :
  ClaimsInv h -> released_at (h_hist h) b = true ->
  ClaimsInv (set_h_wait h (del eqbAN (h_wait h) (u, b))).
Proof.
  intros (Hnd & Hso & Hsh & Hbd & Hsb & Hss & Hhist) Hr.
  unfold released_at in Hr. destruct (get N.eqb (h_hist h) b) as [eb|] eqn:Eb; [|discriminate].
  assert (Hb : 1 <= b < cb_id (h_batch h)) by (apply (shape_get h b Hsh); congruence).
  unfold ClaimsInv, HistShape. cbn [h_wait h_hist h_batch set_h_wait].
  split; [apply nodup_del; exact Hnd|].
  split; [apply sorted_del; exact Hso|]. split; [exact Hsh|].
  split. { intros u0 i. rewrite (get_del_cases eqbAN eqbAN_eq) by exact Hnd.
           destruct (eqbAN (u0, i) (u, b)); [congruence | apply Hbd]. }
  split. { rewrite wsum_other_del; [exact Hsb | cbn [snd]; lia]. }
  split. { rewrite wsum_other_del; [exact Hss | cbn [snd]; lia]. }
  intros i e Hg. destruct (N.eq_dec i b) as [->|Hi].
  - rewrite Eb in Hg. inversion Hg; subst e. destruct (Hhist _ _ Eb) as (A1 & A2 & _).
    pose proof (wsum_del_le fst (h_wait h) (u, b) b). pose proof (wsum_del_le snd (h_wait h) (u, b) b).
    split; [lia|]. split; [lia|]. congruence.
  - rewrite !wsum_other_del by (cbn [snd]; congruence). apply Hhist. exact Hg.
Qed.

Lemma claims_inv_dels u : forall bs h,
  ClaimsInv h -> (forall b, In b bs -> released_at (h_hist h) b = true) ->
  ClaimsInv (set_h_wait h (fold_left (fun m b => del eqbAN m (u, b)) bs (h_wait h))).
Proof.
  induction bs as [|b bs IH]; intros h HI Hr; cbn [fold_left].
  - eapply claims_inv_ext; [| | |exact HI]; reflexivity.
  - pose proof (claims_inv_del h u b HI (Hr b (or_introl eq_refl))) as H1.
    specialize (IH _ H1). cbn [h_wait h_hist set_h_wait] in IH.
    eapply claims_inv_ext; [| | |apply IH]; try reflexivity.
    intros b0 Hin. apply Hr. right. exact Hin.
Qed.

Lemma claims_inv_withdraw w h self sender h' out :
  ClaimsInv h -> withdraw_shape w h self sender h' out -> ClaimsInv h'.
Proof.
  intros HI (h1 & amount & vs & _ & Hpwr & Hw & Hh & Hb & _ & _ & _ & _ & _ & _ & _).
  pose proof (claims_inv_pwr _ _ _ _ HI Hpwr) as H1.
  pose proof (pwr_spec _ _ _ _ Hpwr) as (n & _ & _ & Hw1 & Hb1 & _).
  eapply claims_inv_ext; [| | | apply (claims_inv_dels sender
     (map fst (filter (fun bx => released_at (h_hist h1) (fst bx)) (user_waits h sender))) h1 H1)].
  - cbn [h_wait set_h_wait]. rewrite Hw, Hw1. reflexivity.
  - cbn [h_hist set_h_wait]. exact Hh.
  - cbn [h_batch set_h_wait]. congruence.
  - intros b Hin. apply in_map_iff in Hin. destruct Hin as (bx & <- & Hin).
    apply filter_In in Hin. tauto.
Qed.

(** ** preservation by every hub message (E6: legacy list empty) *)
Theorem claims_inv_execute w h self sender funds m h' out :
  h_oldwait h = [] -> ClaimsInv h ->
  hub_execute w h self sender funds m = Some (h', out) ->
  h_oldwait h' = [] /\ ClaimsInv h'.
Proof.
  intros Ho HI H. apply hub_execute_cases in H.
  destruct H as [_ _ _ (B1 & B2 & B3 & _ & _ & B6) _ | limit -> -> _
                | user amount db dst msgs -> _ _ Hshape | -> Hshape].
  - split; [congruence|]. eapply claims_inv_ext; eauto.
  - rewrite (migrate_noop h limit Ho). auto.
  - split.
    + destruct Hshape as (_ & _ & (_ & _ & _ & S4) & _). congruence.
    + eapply claims_inv_unbond; eauto.
  - split.
    + destruct Hshape as (h1 & amount & vs & _ & _ & _ & _ & _ & _ & _ & (_ & _ & _ & S4) & _). congruence.
    + eapply claims_inv_withdraw; eauto.
Qed.

(** ** every reachable world of a legacy-free history *)
Definition ClaimsHub (h : hub) : Prop := h_oldwait h = [] /\ ClaimsInv h.

Theorem ClaimsInv_reachable ut ops :
  legacy_free ops = true ->
  forall h, w_hub (run_ops ops (empty_world ut)) = Some h -> h_oldwait h = [] /\ ClaimsInv h.
Proof.
  intros Hl. apply (hubw_run_ops ClaimsHub).
  - intros w h self sender funds m h' out [Ho HI] H. eapply claims_inv_execute; eauto.
  - intros. eapply claims_inv_instantiate; eauto.
  - exact Hl.
  - apply hubw_empty.
Qed.

(** the content of the invariant, spelled out for reachable worlds *)
Theorem claims_sums_reachable ut ops h :
  legacy_free ops = true -> w_hub (run_ops ops (empty_world ut)) = Some h ->
  let c := cb_id (h_batch h) in
  NoDup (keys (h_wait h)) /\
  (forall u i, get eqbAN (h_wait h) (u, i) <> None -> 1 <= i <= c) /\
  (forall i, get N.eqb (h_hist h) i <> None <-> 1 <= i < c) /\
  wsum fst (h_wait h) c = cb_reqb (h_batch h) /\
  wsum snd (h_wait h) c = cb_reqst (h_batch h) /\
  (forall i e, get N.eqb (h_hist h) i = Some e ->
     wsum fst (h_wait h) i <= he_bamt e /\ wsum snd (h_wait h) i <= he_samt e /\
     (he_released e = false ->
      wsum fst (h_wait h) i = he_bamt e /\ wsum snd (h_wait h) i = he_samt e)).
Proof.
  intros Hl Hw. destruct (ClaimsInv_reachable ut ops Hl h Hw) as [_ (A1 & A2 & A3 & A4 & A5 & A6 & A7)].
  cbn zeta. split; [exact A1|]. split; [exact A4|]. split; [intros i; apply shape_get; exact A3|].
  auto.
Qed.

(** ** unbond_effect *)
Theorem unbond_effect w h self sender funds user amt h' out :
  hub_execute w h self sender funds (HReceive user amt HkUnbond) = Some (h', out) ->
  let c := cb_id (h_batch h) in
  (hc_bsei (h_cfg h) = Some sender \/ hc_stsei (h_cfg h) = Some sender) /\
  exists msgs db dst,
    out = msgs ++ [MWasm sender (WCw20 (CBurn amt)) []] /\
    (hc_bsei (h_cfg h) = Some sender ->
       dst = 0 /\ exists fee, unbond_fee w h self amt = Some fee /\ fee <= amt /\ db = amt - fee) /\
    (hc_bsei (h_cfg h) <> Some sender -> db = 0 /\ dst = amt) /\
    wait_of h' user c = (fst (wait_of h user c) + db, snd (wait_of h user c) + dst) /\
    (forall k, k <> (user, c) -> get eqbAN (h_wait h') k = get eqbAN (h_wait h) k) /\
    ((msgs = [] /\ h_hist h' = h_hist h /\
      h_batch h' = mkBatch c (cb_reqb (h_batch h) + db) (cb_reqst (h_batch h) + dst))
     \/
     (h_batch h' = mkBatch (c + 1) 0 0 /\
      exists e, get N.eqb (h_hist h') c = Some e /\ he_released e = false /\
                he_bamt e = cb_reqb (h_batch h) + db /\ he_samt e = cb_reqst (h_batch h) + dst /\
                forall i, i <> c -> get N.eqb (h_hist h') i = get N.eqb (h_hist h) i)).
Proof.
  intros H. cbn zeta. apply hub_execute_cases in H.
  destruct H as [_ Hn _ _ _ | limit Hm _ _ | user0 amount db dst msgs Hm Hout Hwho Hshape | Hm _];
    try discriminate; [exfalso; eapply Hn; reflexivity|].
  inversion Hm; subst user0 amount. clear Hm.
  split. { destruct Hwho as [(A & _)|(_ & A & _)]; auto. }
  exists msgs, db, dst. split; [exact Hout|].
  split. { intros Hb. destruct Hwho as [(_ & A & B)|(A & _)]; [auto | contradiction]. }
  split. { intros Hb. destruct Hwho as [(A & _)|(_ & _ & A & B)]; [contradiction | auto]. }
  destruct Hshape as (Hw & _ & _ & Hcase).
  split. { unfold wait_of at 1. rewrite Hw, get_set_same by exact eqbAN_eq. reflexivity. }
  split. { intros k Hk. rewrite Hw. apply get_set_other; [exact eqbAN_eq | exact Hk]. }
  destruct Hcase as [(Em & Hb & Hh & _) | Hcl].
  - left. auto.
  - right. destruct Hcl as (_ & _ & Hb & _ & _ & entry & bund & sund & Hh & _ & Hba & Hsa & Hrel & _).
    split; [exact Hb|]. exists entry. rewrite Hh, hget_put_same.
    split; [reflexivity|]. split; [exact Hrel|]. split; [exact Hba|]. split; [exact Hsa|].
    intros i Hi. apply hget_put_other. exact Hi.
Qed.

(** ** who is credited: the hook built by the token contracts names the cw20 caller
    (for SendFrom: the spender, not the owner whose tokens move) and the amount moved *)
Lemma bsei_hook_names_caller w t sender m t' out c u a hk :
  bsei_execute w t sender m = Some (t', out) ->
  In (MWasm c (WHub (HReceive u a hk)) []) out ->
  u = sender /\ (m = CSend c a hk \/ exists o, m = CSendFrom o c a hk).
Proof.
  intros H Hin. unfold bsei_execute in H.
  destruct m; cbv beta iota zeta in H; inv_all H; cbn [In] in Hin;
    unfold m_dec, m_inc, m_receive, m_check_slashing in Hin;
    repeat (destruct Hin as [Hin|Hin]; [try discriminate Hin|]); try contradiction;
    inversion Hin; subst; split; eauto.
Qed.

Lemma stsei_hook_names_caller w t sender m t' out c u a hk :
  stsei_execute w t sender m = Some (t', out) ->
  In (MWasm c (WHub (HReceive u a hk)) []) out ->
  u = sender /\ (m = CSend c a hk \/ exists o, m = CSendFrom o c a hk).
Proof.
  intros H Hin. unfold stsei_execute in H.
  destruct m; cbv beta iota zeta in H; inv_all H; cbn [In] in Hin;
    unfold m_dec, m_inc, m_receive, m_check_slashing in Hin;
    repeat (destruct Hin as [Hin|Hin]; [try discriminate Hin|]); try contradiction;
    inversion Hin; subst; split; eauto.
Qed.

(** ** how wait entries can change *)
Lemma get_fold_del (u : addr) : forall bs (m : fmap (addr * N) (N * N)) k,
  NoDup (keys m) ->
  get eqbAN (fold_left (fun m b => del eqbAN m (u, b)) bs m) k =
  if (fst k =? u) && existsb (N.eqb (snd k)) bs then None else get eqbAN m k.
Proof.
  induction bs as [|b bs IH]; intros m k Hnd; cbn [fold_left existsb].
  - rewrite andb_false_r. reflexivity.
  - rewrite IH by (apply nodup_del; exact Hnd).
    rewrite (get_del_cases eqbAN eqbAN_eq) by exact Hnd.
    destruct k as [ku kb]. cbn [fst snd]. unfold eqbAN, eqbNN. cbn [fst snd].
    destruct (ku =? u); cbn [andb]; [|reflexivity].
    destruct (kb =? b); cbn [orb]; [|reflexivity]. destruct (existsb (N.eqb kb) bs); reflexivity.
Qed.

(** every wait entry, across one successful hub message: unchanged, or credited by an Unbond hook
    from a registered token, or removed by its owner's withdrawal of a released batch *)
Theorem wait_change_cases w h self sender funds m h' out u i :
  h_oldwait h = [] -> NoDup (keys (h_wait h)) ->
  hub_execute w h self sender funds m = Some (h', out) ->
  get eqbAN (h_wait h') (u, i) = get eqbAN (h_wait h) (u, i) \/
  (exists amt db dst, m = HReceive u amt HkUnbond /\
     (hc_bsei (h_cfg h) = Some sender \/ hc_stsei (h_cfg h) = Some sender) /\
     i = cb_id (h_batch h) /\
     get eqbAN (h_wait h') (u, i) = Some (fst (wait_of h u i) + db, snd (wait_of h u i) + dst)) \/
  (m = HWithdraw /\ sender = u /\ get eqbAN (h_wait h) (u, i) <> None /\
   get eqbAN (h_wait h') (u, i) = None /\
   exists e, get N.eqb (h_hist h') i = Some e /\ he_released e = true).
Proof.
  intros Ho Hnd H. apply hub_execute_cases in H.
  destruct H as [_ _ _ (B1 & _) _ | limit -> -> _
                | user amount db dst msgs -> _ Hwho Hshape | -> Hshape].
  - left. rewrite B1. reflexivity.
  - left. rewrite (migrate_noop h limit Ho). reflexivity.
  - destruct Hshape as (Hw & _). rewrite Hw, get_set_cases.
    destruct (eqbAN (u, i) (user, cb_id (h_batch h))) eqn:E; [|left; reflexivity].
    apply eqbAN_eq in E. inversion E; subst user i. right. left. exists amount, db, dst.
    split; [reflexivity|]. split; [|split; reflexivity].
    destruct Hwho as [(A & _)|(_ & A & _)]; auto.
  - destruct Hshape as (h1 & amount & vs & _ & Hpwr & Hw & Hh & _).
    rewrite Hw, get_fold_del by exact Hnd. cbn [fst snd].
    destruct (u =? sender) eqn:Eu; cbn [andb]; [|left; reflexivity].
    destruct (existsb (N.eqb i) _) eqn:Ex; [|left; reflexivity].
    right. right. apply N.eqb_eq in Eu. subst u.
    apply existsb_exists in Ex. destruct Ex as (b & Hin & Eb). apply N.eqb_eq in Eb. subst b.
    apply in_map_iff in Hin. destruct Hin as ([b x] & Hb & Hin). cbn [fst] in Hb. subst b.
    apply filter_In in Hin. destruct Hin as [Hin Hr]. cbn [fst] in Hr.
    split; [reflexivity|]. split; [reflexivity|]. split; [|split; [reflexivity|]].
    + unfold user_waits in Hin. apply in_flat_map in Hin. destruct Hin as ([[ku kb] kv] & Hin & Hx).
      cbn [fst snd] in Hx. destruct (ku =? sender) eqn:Ek; [|destruct Hx].
      destruct Hx as [Hx|[]]. inversion Hx; subst. apply N.eqb_eq in Ek. subst ku.
      erewrite in_get_nodup; [discriminate | exact eqbAN_eq | exact Hnd | exact Hin].
    + rewrite Hh. unfold released_at in Hr. destruct (get N.eqb (h_hist h1) i) as [e|]; [|discriminate].
      exists e. auto.
Qed.

Theorem claims_only_via_tokens w h self sender funds m h' out k x' :
  h_oldwait h = [] -> NoDup (keys (h_wait h)) ->
  hub_execute w h self sender funds m = Some (h', out) ->
  get eqbAN (h_wait h') k = Some x' -> get eqbAN (h_wait h) k <> Some x' ->
  exists user amt, m = HReceive user amt HkUnbond /\
    (hc_bsei (h_cfg h) = Some sender \/ hc_stsei (h_cfg h) = Some sender) /\
    k = (user, cb_id (h_batch h)).
Proof.
  intros Ho Hnd H Ha Hb. destruct k as [u i].
  destruct (wait_change_cases _ _ _ _ _ _ _ _ u i Ho Hnd H)
    as [E | [(amt & db & dst & -> & Hwho & -> & _) | (_ & _ & _ & E & _)]].
  - congruence.
  - exists u, amt. auto.
  - congruence.
Qed.

Theorem claims_removed_only_by_owner w h self sender funds m h' out u i x :
  h_oldwait h = [] -> NoDup (keys (h_wait h)) ->
  hub_execute w h self sender funds m = Some (h', out) ->
  get eqbAN (h_wait h) (u, i) = Some x -> get eqbAN (h_wait h') (u, i) <> Some x ->
  (m = HWithdraw /\ sender = u /\ get eqbAN (h_wait h') (u, i) = None /\
   exists e, get N.eqb (h_hist h') i = Some e /\ he_released e = true)
  \/
  (exists amt db dst, m = HReceive u amt HkUnbond /\ i = cb_id (h_batch h) /\
     get eqbAN (h_wait h') (u, i) = Some (fst x + db, snd x + dst)).
Proof.
  intros Ho Hnd H Ha Hb.
  destruct (wait_change_cases _ _ _ _ _ _ _ _ u i Ho Hnd H)
    as [E | [(amt & db & dst & -> & Hwho & -> & E) | (-> & -> & _ & E & Hrel)]].
  - congruence.
  - right. exists amt, db, dst. split; [reflexivity|]. split; [reflexivity|].
    rewrite E. unfold wait_of. rewrite Ha. reflexivity.
  - left. auto.
Qed.

(** ** queries *)
Lemma user_waits_in h u b x : In (b, x) (user_waits h u) <-> In ((u, b), x) (h_wait h).
Proof.
  unfold user_waits. rewrite in_flat_map. split.
  - intros ([[ku kb] kv] & Hin & Hx). cbn [fst snd] in Hx.
    destruct (ku =? u) eqn:E; [|destruct Hx]. destruct Hx as [Hx|[]]. inversion Hx; subst.
    apply N.eqb_eq in E. subst. exact Hin.
  - intros Hin. exists ((u, b), x). split; [exact Hin|]. cbn [fst snd]. rewrite N.eqb_refl. left. reflexivity.
Qed.

(** UnbondRequests: the entries listed for [u] are exactly [u]'s entries of the wait list *)
Theorem user_waits_faithful h u b x :
  NoDup (keys (h_wait h)) ->
  (In (b, x) (user_waits h u) <-> get eqbAN (h_wait h) (u, b) = Some x).
Proof.
  intros Hnd. rewrite user_waits_in. split.
  - apply in_get_nodup; [exact eqbAN_eq | exact Hnd].
  - apply get_some_in. exact eqbAN_eq.
Qed.

Lemma user_waits_keys (m : fmap (addr * N) (N * N)) u b :
  In b (map fst (flat_map (fun kv => if fst (fst kv) =? u then [(snd (fst kv), snd kv)] else []) m)) ->
  In (u, b) (keys m).
Proof.
  induction m as [|[[ku kb] kv] r IH]; cbn [flat_map map fst snd keys In app]; [tauto|].
  rewrite map_app, in_app_iff. intros [H|H].
  - destruct (ku =? u) eqn:E; [|destruct H]. destruct H as [H|[]]. cbn [fst] in H. subst.
    apply N.eqb_eq in E. subst. left. reflexivity.
  - right. apply IH. exact H.
Qed.

(** ... each batch at most once and in ascending batch order *)
Lemma user_waits_sorted h u :
  StronglySorted key_before (keys (h_wait h)) -> StronglySorted N.lt (map fst (user_waits h u)).
Proof.
  unfold user_waits. induction (h_wait h) as [|[[ku kb] kv] r IH]; cbn [flat_map keys map fst snd]; intros Hs.
  - constructor.
  - apply StronglySorted_inv in Hs. destruct Hs as [Hs Ha]. specialize (IH Hs).
    destruct (ku =? u) eqn:E; cbn [app map fst]; [|exact IH].
    apply N.eqb_eq in E. subst ku. constructor; [exact IH|].
    apply Forall_forall. intros b Hin. apply user_waits_keys in Hin.
    rewrite Forall_forall in Ha. specialize (Ha _ Hin). apply Ha. reflexivity.
Qed.

Theorem user_waits_sorted_reachable ut ops h u :
  legacy_free ops = true -> w_hub (run_ops ops (empty_world ut)) = Some h ->
  StronglySorted N.lt (map fst (user_waits h u)) /\
  (forall b x, In (b, x) (user_waits h u) <-> get eqbAN (h_wait h) (u, b) = Some x).
Proof.
  intros Hl Hw. destruct (ClaimsInv_reachable ut ops Hl h Hw) as [_ (A1 & A2 & _)].
  split; [apply user_waits_sorted; exact A2 | intros; apply user_waits_faithful; exact A1].
Qed.

(** *** AllHistory *)
Lemma filter_ids_keys (s : N) : forall (m : fmap N hist_entry) a n,
  map fst m = ids_from a n ->
  map fst (filter (fun ie => s <? fst ie) m)
  = ids_from (N.max a (s + 1)) (n - N.to_nat (N.max a (s + 1) - a)).
Proof.
  induction m as [|[j e] r IH]; intros a n Hk.
  - destruct n; [|discriminate]. reflexivity.
  - destruct n as [|n]; [discriminate|]. cbn [map fst ids_from] in Hk. inversion Hk as [[Hj Hr]]. subst j.
    cbn [filter fst]. specialize (IH _ _ Hr). destruct (s <? a) eqn:E.
    + cbn [map fst]. rewrite IH.
      replace (N.max (a + 1) (s + 1)) with (a + 1) by lia. replace (N.max a (s + 1)) with a by lia.
      replace (S n - N.to_nat (a - a))%nat with (S n) by lia.
      replace (n - N.to_nat (a + 1 - (a + 1)))%nat with n by lia. reflexivity.
    + rewrite IH. replace (N.max (a + 1) (s + 1)) with (s + 1) by lia.
      replace (N.max a (s + 1)) with (s + 1) by lia. f_equal. lia.
Qed.

Lemma firstn_ids : forall L a n, firstn L (ids_from a n) = ids_from a (Nat.min L n).
Proof.
  induction L as [|L IH]; intros a n; [reflexivity|].
  destruct n as [|n]; [reflexivity|]. cbn [ids_from firstn Nat.min]. rewrite IH. reflexivity.
Qed.

Lemma in_firstn {A} (x : A) : forall L l, In x (firstn L l) -> In x l.
Proof. intros L l H. rewrite <- (firstn_skipn L l). apply in_or_app. left. exact H. Qed.

Lemma ids_from_nodup n : forall s, NoDup (ids_from s n).
Proof.
  induction n as [|n IH]; intros s; cbn [ids_from]; constructor; [|apply IH].
  rewrite ids_from_in. lia.
Qed.

(** AllHistory{start_from, limit} returns, in ascending id order, exactly the history entries with
    ids start+1 .. start+min(limit|10, 100) (those that exist) *)
Theorem query_history_slice h start limit :
  HistShape h ->
  let s := opt_or start 0 in
  let lim := N.to_nat (N.min (opt_or limit 10) 100) in
  let res := hub_query_history h start limit in
  map fst res = ids_from (s + 1) (Nat.min lim (N.to_nat (cb_id (h_batch h) - 1 - s))) /\
  (forall i e, In (i, e) res <->
               (get N.eqb (h_hist h) i = Some e /\ s < i /\ i <= s + N.of_nat lim)).
Proof.
  intros Hsh. cbn zeta. pose proof Hsh as [H1 Hk].
  set (s := opt_or start 0). set (lim := N.to_nat (N.min (opt_or limit 10) 100)).
  assert (Hl : exists l, hub_query_history h start limit = firstn lim l /\
             map fst l = ids_from (s + 1) (N.to_nat (cb_id (h_batch h) - 1 - s)) /\
             (forall x, In x l -> In x (h_hist h))).
  { unfold hub_query_history. fold lim. destruct start as [s0|]; cbn [opt_or] in s; subst s.
    - eexists. split; [reflexivity|]. split.
      + rewrite (filter_ids_keys s0 _ _ _ Hk). f_equal; lia.
      + intros x Hx. apply filter_In in Hx. tauto.
    - exists (h_hist h). split; [reflexivity|]. split; [|auto]. rewrite Hk. f_equal. lia. }
  destruct Hl as (l & -> & Hlk & Hsub).
  assert (Hkeys : map fst (firstn lim l)
                  = ids_from (s + 1) (Nat.min lim (N.to_nat (cb_id (h_batch h) - 1 - s)))).
  { rewrite <- firstn_map, Hlk. apply firstn_ids. }
  split; [exact Hkeys|].
  assert (Hnd : NoDup (keys (h_hist h))) by (unfold keys; rewrite Hk; apply ids_from_nodup).
  intros i e. split.
  - intros Hin. assert (Hg : get N.eqb (h_hist h) i = Some e).
    { apply (in_get_nodup N.eqb Neqb_eq); [exact Hnd|]. apply Hsub. eapply in_firstn. exact Hin. }
    split; [exact Hg|]. assert (Hi : In i (map fst (firstn lim l))).
    { change i with (fst (i, e)). apply in_map. exact Hin. }
    rewrite Hkeys, ids_from_in in Hi. lia.
  - intros (Hg & Hs & Hle).
    assert (Hc : 1 <= i < cb_id (h_batch h)) by (apply (shape_get h i Hsh); congruence).
    assert (Hi : In i (map fst (firstn lim l))) by (rewrite Hkeys, ids_from_in; lia).
    apply in_map_iff in Hi. destruct Hi as ([i0 e0] & Hi0 & Hin). cbn [fst] in Hi0. subst i0.
    assert (Hg0 : get N.eqb (h_hist h) i = Some e0).
    { apply (in_get_nodup N.eqb Neqb_eq); [exact Hnd|]. apply Hsub. eapply in_firstn. exact Hin. }
    rewrite Hg in Hg0. inversion Hg0; subst. exact Hin.
Qed.

Theorem query_history_slice_reachable ut ops h start limit :
  legacy_free ops = true -> w_hub (run_ops ops (empty_world ut)) = Some h ->
  let s := opt_or start 0 in
  let lim := N.to_nat (N.min (opt_or limit 10) 100) in
  let res := hub_query_history h start limit in
  map fst res = ids_from (s + 1) (Nat.min lim (N.to_nat (cb_id (h_batch h) - 1 - s))) /\
  (forall i e, In (i, e) res <->
               (get N.eqb (h_hist h) i = Some e /\ s < i /\ i <= s + N.of_nat lim)).
Proof.
  intros Hl Hw. destruct (ClaimsInv_reachable ut ops Hl h Hw) as [_ (_ & _ & A3 & _)].
  apply query_history_slice. exact A3.
Qed.

(** ** concrete worlds: non-vacuity *)
Definition cx_owner : addr := 10.
Definition cx_alice : addr := 11.
Definition cx_bob : addr := 12.

(** deployment: epoch 30 s, unbonding 100 s, peg fee 0.5 %, recovery threshold 1 *)
Definition cx_setup : list op :=
  [ OInstHub cx_owner 30 100 5000000000000000 D cx_owner usei uusd;
    OInstReward cx_owner A_hub uusd A_swap [uatom];
    OInstDisp cx_owner A_hub A_reward usei uusd cx_owner 0 A_swap A_oracle [usei; uusd];
    OInstReg cx_owner A_hub [0; 1];
    OInstBsei cx_owner A_hub [];
    OInstStsei cx_owner A_hub 2 [];
    OTx cx_owner A_hub (WHub (HConfig (Some A_disp) (Some A_reg) (Some A_bsei) (Some A_stsei) None None None)) [] ].

(** two users bond both tokens, a 1 % slash pushes the bSei rate below the threshold (so the peg
    fee applies), then: a direct Send-unbond of bSei by alice, of stSei by bob, and an
    allowance-based SendFrom-unbond of alice's bSei by bob (credited to bob, the cw20 sender) *)
Definition cx_acts1 : list op :=
  [ OGift cx_alice usei 100000; OGift cx_bob usei 50000;
    OTx cx_alice A_hub (WHub HBond) [(usei, 100000)];
    OTx cx_bob A_hub (WHub HBondSt) [(usei, 50000)];
    OSlash 0 1 100 false;
    OTx cx_alice A_bsei (WCw20 (CSend A_hub 20000 HkUnbond)) [];
    OTx cx_bob A_stsei (WCw20 (CSend A_hub 10000 HkUnbond)) [];
    OTx cx_alice A_bsei (WCw20 (CIncAllow cx_bob 5000 None)) [];
    OTx cx_bob A_bsei (WCw20 (CSendFrom cx_alice A_hub 5000 HkUnbond)) [] ].

(** one second past the epoch: the next unbond closes batch 1 *)
Definition cx_acts2 : list op :=
  [ OAdvance 31; OTx cx_alice A_bsei (WCw20 (CSend A_hub 1000 HkUnbond)) [] ].

(** exactly the unbonding period later alice withdraws *)
Definition cx_acts3 : list op :=
  [ OAdvance 100; OTx cx_alice A_hub (WHub HWithdraw) [] ].

Definition cx_w1 : world := run_ops (cx_setup ++ cx_acts1) (empty_world 100).
Definition cx_w2 : world := run_ops (cx_setup ++ cx_acts1 ++ cx_acts2) (empty_world 100).
Definition cx_w3 : world := run_ops (cx_setup ++ cx_acts1 ++ cx_acts2 ++ cx_acts3) (empty_world 100).

Lemma cx_legacy_free : legacy_free (cx_setup ++ cx_acts1 ++ cx_acts2 ++ cx_acts3) = true.
Proof. reflexivity. Qed.

(** the invariant is not vacuous: an open batch with two users' claims of both token types *)
Example example_claims_open_nonvacuous :
  exists h, w_hub cx_w1 = Some h /\ h_oldwait h = [] /\ ClaimsInv h /\
    h_wait h = [((cx_alice, 1), (19900, 0)); ((cx_bob, 1), (4975, 10000))] /\
    h_batch h = mkBatch 1 24875 10000 /\ h_hist h = [].
Proof.
  unfold cx_w1.
  destruct (w_hub (run_ops (cx_setup ++ cx_acts1) (empty_world 100))) as [h|] eqn:E;
    [|vm_compute in E; discriminate].
  exists h. split; [reflexivity|].
  destruct (ClaimsInv_reachable 100 (cx_setup ++ cx_acts1) eq_refl h E) as [Ho HI].
  split; [exact Ho|]. split; [exact HI|].
  vm_compute in E. inversion E; subst. repeat split.
Qed.

(** ... a closed, unreleased batch whose history amounts equal the sums of the claims *)
Example example_claims_closed_nonvacuous :
  exists h e, w_hub cx_w2 = Some h /\ ClaimsInv h /\
    h_wait h = [((cx_alice, 1), (20895, 0)); ((cx_bob, 1), (4975, 10000))] /\
    h_batch h = mkBatch 2 0 0 /\ get N.eqb (h_hist h) 1 = Some e /\
    he_bamt e = 25870 /\ he_samt e = 10000 /\ he_released e = false /\ he_time e = 1000031.
Proof.
  unfold cx_w2.
  destruct (w_hub (run_ops (cx_setup ++ cx_acts1 ++ cx_acts2) (empty_world 100))) as [h|] eqn:E;
    [|vm_compute in E; discriminate].
  destruct (ClaimsInv_reachable 100 (cx_setup ++ cx_acts1 ++ cx_acts2) eq_refl h E) as [Ho HI].
  vm_compute in E. inversion E; subst. eexists _, _. split; [reflexivity|]. split; [exact HI|].
  repeat split.
Qed.

(** ... and a released batch from which alice's claim has been paid and removed (sum < amount) *)
Example example_claims_paid_nonvacuous :
  exists h e, w_hub cx_w3 = Some h /\ ClaimsInv h /\
    h_wait h = [((cx_bob, 1), (4975, 10000))] /\
    get N.eqb (h_hist h) 1 = Some e /\ he_bamt e = 25870 /\ he_samt e = 10000 /\ he_released e = true.
Proof.
  unfold cx_w3.
  destruct (w_hub (run_ops (cx_setup ++ cx_acts1 ++ cx_acts2 ++ cx_acts3) (empty_world 100))) as [h|] eqn:E;
    [|vm_compute in E; discriminate].
  destruct (ClaimsInv_reachable 100 _ cx_legacy_free h E) as [Ho HI].
  vm_compute in E. inversion E; subst. eexists _, _. split; [reflexivity|]. split; [exact HI|].
  repeat split.
Qed.

(** [unbond_effect] is not vacuous: a bSei unbond with a peg fee that keeps the batch open, ... *)
Example example_unbond_effect_nonvacuous :
  exists h h' out, w_hub cx_w1 = Some h /\
    hub_execute cx_w1 h A_hub A_bsei [] (HReceive cx_alice 1000 HkUnbond) = Some (h', out) /\
    unbond_fee cx_w1 h A_hub 1000 = Some 5 /\
    out = [MWasm A_bsei (WCw20 (CBurn 1000)) []] /\
    wait_of h' cx_alice 1 = (20895, 0) /\ h_batch h' = mkBatch 1 25870 10000.
Proof.
  destruct (w_hub cx_w1) as [h|] eqn:E; [|vm_compute in E; discriminate].
  vm_compute in E. inversion E; subst h. clear E.
  eexists _, _, _. split; [reflexivity|]. split; [vm_compute; reflexivity|].
  vm_compute. repeat split.
Qed.

(** ... and an stSei unbond one second past the epoch that closes it *)
Example example_unbond_closing_nonvacuous :
  exists h h' out v1 v2, let w := fst (step cx_w1 (OAdvance 31)) in
    w_hub w = Some h /\
    hub_execute w h A_hub A_stsei [] (HReceive cx_bob 700 HkUnbond) = Some (h', out) /\
    out = [MUndelegate 1 (usei, v1); MUndelegate 0 (usei, v2); MWasm A_stsei (WCw20 (CBurn 700)) []] /\
    wait_of h' cx_bob 1 = (4975, 10700) /\ h_batch h' = mkBatch 2 0 0.
Proof.
  destruct (w_hub (fst (step cx_w1 (OAdvance 31)))) as [h|] eqn:E; [|vm_compute in E; discriminate].
  vm_compute in E. inversion E; subst h. clear E.
  eexists _, _, _, _, _. cbn zeta. split; [vm_compute; reflexivity|]. split; [vm_compute; reflexivity|].
  vm_compute. repeat split.
Qed.

(** the E6 hypothesis is needed: a migration of a legacy entry overwrites a v2 claim, so the
    wait list no longer adds up to the open batch total *)
Lemma claims_inv_refuted_by_legacy :
  let w := run_ops [OLegacyWait cx_alice 1 7;
                    OTx cx_owner A_hub (WHub (HParams None None None None (Some true) None)) [];
                    OTx cx_owner A_hub (WHub (HMigrate None)) []] cx_w1 in
  exists h, w_hub w = Some h /\ wsum fst (h_wait h) 1 = 4982 /\ cb_reqb (h_batch h) = 24875.
Proof. vm_compute. eexists. repeat split. Qed.
