(** * MirrorWire (helper of MirrorP, C16): the wiring of the six contracts inside a transaction.
    - [rewire_wasm]: the four owner messages that can change the wiring (hub UpdateConfig, reward
      UpdateConfig, dispatcher UpdateConfig, registry UpdateConfig);
    - [call_emits_plain]: NO handler of any contract ever emits one of them;
    - [wdata] / [call_wdata]: every other message leaves the wiring data of the world unchanged,
      hence [Wired] is stable (in both directions) under every non-re-wiring message;
    - [run_wdata]: a transaction whose root is not a re-wiring message never changes the wiring. *)
From Krp Require Import Tactics Prelude Fixed FMap Types Env Registry Cw20 Reward Dispatcher Hub Exec
     ExecP Hist Inv HubFrame HubAdmin.
Open Scope N_scope.

(** ** re-wiring messages *)
Definition rewire_wasm (m : wasm_msg) : bool :=
  match m with
  | WHub (HConfig _ _ _ _ _ _ _) => true
  | WReward (RConfig _ _ _) => true
  | WDisp (DConfig _ _ _ _ _ _) => true
  | WReg (GConfig _) => true
  | _ => false
  end.

Definition rewire (m : cmsg) : bool :=
  match m with MWasm _ wm _ => rewire_wasm wm | _ => false end.

Definition plain (m : cmsg) : Prop := rewire m = false.
Definition plain_s (sm : addr * cmsg) : Prop := plain (snd sm).

Lemma Forall_flat_map_all {A B} (P : B -> Prop) (f : A -> list B) l :
  (forall x, Forall P (f x)) -> Forall P (flat_map f l).
Proof.
  intros H. induction l as [|x l IH]; cbn [flat_map]; [constructor|].
  apply Forall_app. split; [apply H | exact IH].
Qed.

Lemma Forall_map_all {A B} (P : B -> Prop) (f : A -> B) l :
  (forall x, P (f x)) -> Forall P (map f l).
Proof. intros H. induction l as [|x l IH]; cbn [map]; constructor; auto. Qed.

Lemma Forall_repeat {A} (P : A -> Prop) x n : P x -> Forall P (repeat x n).
Proof. intros H. induction n; cbn [repeat]; constructor; auto. Qed.

Ltac plain_list :=
  repeat first [ apply Forall_nil
               | apply Forall_cons; [reflexivity|]
               | apply Forall_app; split ].

(** ** no handler emits a re-wiring message *)

(** hub *)
Lemma delegate_msgs_plain vals xs d : Forall plain (delegate_msgs vals xs d).
Proof.
  unfold delegate_msgs. apply Forall_flat_map_all. intros p.
  destruct (snd p =? 0); plain_list.
Qed.

Lemma pick_validator_plain w self h claim out :
  pick_validator w self h claim = Some out -> Forall plain out.
Proof.
  unfold pick_validator. intros H. bind_inv H as ys Hys. inversion H; subst.
  apply Forall_flat_map_all. intros p. destruct (snd p =? 0); plain_list.
Qed.

Lemma maybe_undelegate_plain w self h h' out :
  maybe_undelegate w self h = Some (h', out) -> Forall plain out.
Proof.
  unfold maybe_undelegate. intros H. bind_inv H as p Hp.
  destruct (hp_epoch (h_params h) <? p); [|inversion H; subst; constructor].
  unfold process_undelegations in H.
  bind_inv H as a1 E1. bind_inv H as a2 E2. bind_inv H as a3 E3. bind_inv H as a4 E4.
  bind_inv H as a5 E5. bind_inv H as a6 E6. bind_inv H as a7 E7. inversion H; subst.
  eapply pick_validator_plain; eauto.
Qed.

Lemma execute_bond_plain w h self sender funds k h' out :
  execute_bond w h self sender funds k = Some (h', out) -> Forall plain out.
Proof.
  unfold execute_bond. intros H.
  bind_inv H as dispaddr Hd. check_inv H as Hauth. check_inv H as Hlen.
  bind_inv H as pay Hpay. bind_inv H as h1 Hh1.
  bind_inv H as mint Hmint. bind_inv H as supply Hsupply. bind_inv H as s' Hs'.
  bind_inv H as vals Hvals.
  destruct vals as [|v0 vr]; [discriminate|].
  bind_inv H as r Hr.
  destruct k.
  - bind_inv H as tok Htok. inversion H; subst. apply Forall_app. split; [apply delegate_msgs_plain|plain_list].
  - bind_inv H as tok Htok. inversion H; subst. apply Forall_app. split; [apply delegate_msgs_plain|plain_list].
  - inversion H; subst. apply delegate_msgs_plain.
Qed.

Lemma execute_unbond_plain w h self amount user h' out :
  execute_unbond w h self amount user = Some (h', out) -> Forall plain out.
Proof.
  unfold execute_unbond. intros H.
  bind_inv H as h1 Hh1. bind_inv H as supply Hs. bind_inv H as awf Hawf. bind_inv H as reqb Hreqb.
  bind_inv H as h2 Hh2. bind_inv H as supply' Hs'. bind_inv H as ber Hber.
  bind_inv H as r Hr. destruct r as [h4 msgs]. apply maybe_undelegate_plain in Hr.
  bind_inv H as tok Htok. inversion H; subst. apply Forall_app. split; [exact Hr|plain_list].
Qed.

Lemma execute_unbond_stsei_plain w h self amount user h' out :
  execute_unbond_stsei w h self amount user = Some (h', out) -> Forall plain out.
Proof.
  unfold execute_unbond_stsei. intros H.
  bind_inv H as h1 Hh1. bind_inv H as reqst Hreq. bind_inv H as h2 Hh2.
  bind_inv H as r Hr. destruct r as [h4 msgs]. apply maybe_undelegate_plain in Hr.
  bind_inv H as tok Htok. inversion H; subst. apply Forall_app. split; [exact Hr|plain_list].
Qed.

Lemma convert_stsei_bsei_plain w h self amount user h' out :
  convert_stsei_bsei w h self amount user = Some (h', out) -> Forall plain out.
Proof.
  unfold convert_stsei_bsei. intros H.
  bind_inv H as h1 Hh1.
  bind_inv H as a1 E1. bind_inv H as a2 E2. bind_inv H as a3 E3. bind_inv H as a4 E4.
  bind_inv H as a5 E5. bind_inv H as a6 E6. bind_inv H as a7 E7. bind_inv H as a8 E8.
  bind_inv H as a9 E9. bind_inv H as a10 E10. bind_inv H as a11 E11. bind_inv H as a12 E12.
  bind_inv H as a13 E13. inversion H; subst. plain_list.
Qed.

Lemma convert_bsei_stsei_plain w h self amount user h' out :
  convert_bsei_stsei w h self amount user = Some (h', out) -> Forall plain out.
Proof.
  unfold convert_bsei_stsei. intros H.
  bind_inv H as h1 Hh1.
  bind_inv H as a1 E1. bind_inv H as a2 E2. bind_inv H as a3 E3. bind_inv H as a4 E4.
  bind_inv H as a5 E5. bind_inv H as a6 E6. bind_inv H as a7 E7. bind_inv H as a8 E8.
  bind_inv H as a9 E9. bind_inv H as a10 E10. bind_inv H as a11 E11. bind_inv H as a12 E12.
  bind_inv H as a13 E13. inversion H; subst. plain_list.
Qed.

Lemma receive_cw20_plain w h self sender user amount hk h' out :
  receive_cw20 w h self sender user amount hk = Some (h', out) -> Forall plain out.
Proof.
  unfold receive_cw20. intros H. bind_inv H as b Hb. bind_inv H as st Hst.
  destruct hk; [| |discriminate].
  - destruct (sender =? b); [eapply execute_unbond_plain; eauto|].
    destruct (sender =? st); [eapply execute_unbond_stsei_plain; eauto|discriminate].
  - destruct (sender =? b); [eapply convert_bsei_stsei_plain; eauto|].
    destruct (sender =? st); [eapply convert_stsei_bsei_plain; eauto|discriminate].
Qed.

Lemma execute_update_global_plain w h self sender n h' out :
  execute_update_global w h self sender n = Some (h', out) -> Forall plain out.
Proof.
  unfold execute_update_global. intros H. check_inv H as Hauth.
  bind_inv H as d Hd. bind_inv H as hooks Hhooks. inversion H; subst.
  apply Forall_app. split; [|apply Forall_app; split].
  - destruct (n =? 0); [inversion Hhooks; subst; constructor|].
    bind_inv Hhooks as reg Hreg. inversion Hhooks; subst. apply Forall_repeat. reflexivity.
  - apply Forall_map_all. intros x. reflexivity.
  - plain_list.
Qed.

Lemma execute_withdraw_plain w h self sender h' out :
  execute_withdraw w h self sender = Some (h', out) -> Forall plain out.
Proof.
  unfold execute_withdraw. intros H.
  bind_inv H as historical Hh. bind_inv H as h1 Hh1.
  bind_inv H as fa Hfa. destruct fa as [amount batches]. check_inv H as Hnz.
  bind_inv H as prev Hprev. inversion H; subst. plain_list.
Qed.

Lemma execute_update_config_out h sender a b c d e f g h' out :
  execute_update_config h sender a b c d e f g = Some (h', out) ->
  out = match a with Some x => [MSetWithdrawAddr x] | None => [] end.
Proof.
  unfold execute_update_config. intros H.
  check_inv H as Hs. check_inv H as Hb. check_inv H as Hst. inversion H; subst. reflexivity.
Qed.

Lemma hub_execute_plain w h self sender funds m h' out :
  hub_execute w h self sender funds m = Some (h', out) -> Forall plain out.
Proof.
  unfold hub_execute. intros H.
  destruct m.
  - check_inv H as Hp. eapply execute_bond_plain; eauto.
  - check_inv H as Hp. eapply execute_bond_plain; eauto.
  - check_inv H as Hp. eapply execute_bond_plain; eauto.
  - check_inv H as Hp. eapply execute_update_global_plain; eauto.
  - check_inv H as Hp. eapply execute_withdraw_plain; eauto.
  - check_inv H as Hp. bind_inv H as h1 Hh1. inversion H; subst. constructor.
  - apply update_params_spec in H. destruct H as (_ & _ & _ & -> & _). constructor.
  - check_inv H as Hp. apply execute_update_config_out in H. subst out.
    destruct disp; plain_list.
  - check_inv H as Hp. check_inv H as Hs. inversion H; subst. constructor.
  - check_inv H as Hp. check_inv H as Hs. inversion H; subst. constructor.
  - check_inv H as Hp. bind_inv H as reg Hreg. check_inv H as Hs. inversion H; subst.
    apply Forall_map_all. intros x. reflexivity.
  - check_inv H as Hp. check_inv H as Hs. bind_inv H as t Ht. check_inv H as Hb. inversion H; subst.
    plain_list.
  - check_inv H as Hp. bind_inv H as reg Hreg. check_inv H as Hs. inversion H; subst. plain_list.
  - destruct (paused h); [|discriminate]. inversion H; subst. constructor.
  - check_inv H as Hp. eapply receive_cw20_plain; eauto.
Qed.

(** reward contract *)
Lemma reward_execute_plain w r self sender m r' out :
  reward_execute w r self sender m = Some (r', out) -> Forall plain out.
Proof.
  intros H. destruct m; cbn [reward_execute] in H.
  - bind_inv H as all Hall. bind_inv H as rewards Hrw. bind_inv H as whole Hwh.
    bind_inv H as decimals Hdec. check_inv H as Hnz. bind_inv H as prev Hprev.
    inversion H; subst. plain_list.
  - check_inv H as Hs. inversion H; subst. constructor.
  - check_inv H as Hs. inversion H; subst. constructor.
  - check_inv H as Hs. inversion H; subst. constructor.
  - bind_inv H as dp Hdp. check_inv H as Hs. inversion H; subst.
    apply Forall_flat_map_all. intros c.
    destruct (existsb (N.eqb (fst c)) (rw_denoms r') && negb (snd c =? 0)); plain_list.
  - bind_inv H as dp Hdp. check_inv H as Hs.
    destruct (rw_total r =? 0); [inversion H; subst; constructor|].
    bind_inv H as claimed Hc. bind_inv H as q Hq. bind_inv H as gi Hgi. inversion H; subst. constructor.
  - bind_inv H as tok Htok. check_inv H as Hs. bind_inv H as rewards Hrw. bind_inv H as pend Hpend.
    bind_inv H as b Hb. bind_inv H as tot Htot. inversion H; subst. constructor.
  - bind_inv H as tok Htok. check_inv H as Hs. check_inv H as Hle.
    bind_inv H as rewards Hrw. bind_inv H as pend Hpend.
    bind_inv H as b Hb. bind_inv H as tot Htot. inversion H; subst. constructor.
  - check_inv H as Hs. inversion H; subst. constructor.
Qed.

(** dispatcher *)
Lemma convert_loop_plain w dp : forall coins tsei tusd msgs r,
  Forall plain msgs -> convert_loop w dp coins tsei tusd msgs = Some r -> Forall plain (snd r).
Proof.
  induction coins as [|c cs IH]; intros tsei tusd msgs r Hm H; cbn [convert_loop] in H.
  - inversion H; subst. exact Hm.
  - destruct (negb (existsb (N.eqb (fst c)) (dp_denoms dp))); [eapply IH; eauto|].
    destruct (fst c =? dp_std dp); [bind_inv H as t Ht; eapply IH; eauto|].
    destruct (fst c =? dp_bd dp); [bind_inv H as t Ht; eapply IH; eauto|].
    destruct (negb (snd c =? 0)); [|eapply IH; eauto].
    check_inv H as Hsw. bind_inv H as ret Hret. bind_inv H as t Ht.
    eapply IH; [|exact H]. apply Forall_app. split; [exact Hm|]. unfold m_swap. plain_list.
Qed.

Lemma disp_execute_plain w dp self sender m dp' out :
  disp_execute w dp self sender m = Some (dp', out) -> Forall plain out.
Proof.
  intros H. destruct m; cbn [disp_execute] in H.
  - check_inv H as Hs. bind_inv H as r Hr. destruct r as [[tsei tusd] msgs].
    apply convert_loop_plain in Hr; [|constructor]. cbn [snd] in Hr.
    check_inv H as Hor. bind_inv H as s2u Hs2u. bind_inv H as u2s Hu2s. bind_inv H as info Hinfo.
    destruct info as [[od oa] ask]. inversion H; subst.
    destruct (oa =? 0); [exact Hr|]. apply Forall_app. split; [exact Hr|]. unfold m_swap. plain_list.
  - check_inv H as Hs. bind_inv H as m1 Hm1. bind_inv H as m2 Hm2. inversion H; subst.
    apply Forall_app. split; [|apply Forall_app; split].
    + destruct (bal (w_env w) self (dp_bd dp') =? 0); [inversion Hm1; subst; constructor|].
      bind_inv Hm1 as k Hk. bind_inv Hm1 as rest Hrest. inversion Hm1; subst. plain_list.
    + destruct (bal (w_env w) self (dp_std dp') =? 0); [inversion Hm2; subst; constructor|].
      bind_inv Hm2 as k Hk. bind_inv Hm2 as rebond Hre. inversion Hm2; subst.
      destruct (rebond =? 0); plain_list.
    + plain_list.
  - check_inv H as Hs. check_inv H as Hstd. check_inv H as Hrate. inversion H; subst. constructor.
  - check_inv H as Hs. inversion H; subst. constructor.
  - check_inv H as Hs. inversion H; subst. constructor.
  - check_inv H as Hs. inversion H; subst. constructor.
  - check_inv H as Hs. inversion H; subst. constructor.
  - check_inv H as Hs. inversion H; subst. constructor.
Qed.

(** registry *)
Lemma reg_redelegate_msgs_plain w g v out : reg_redelegate_msgs w g v = Some out -> Forall plain out.
Proof.
  unfold reg_redelegate_msgs. intros H.
  destruct (delegation (w_env w) (rg_hub g) v) as [amount|]; [|inversion H; subst; constructor].
  destruct ((if can_redelegate (w_env w) v then amount else 0) <? amount);
    [inversion H; subst; constructor|].
  bind_inv H as r Hr. inversion H; subst. plain_list.
Qed.

Lemma reg_execute_plain w g sender m g' out :
  reg_execute w g sender m = Some (g', out) -> Forall plain out.
Proof.
  intros H. destruct m; cbn [reg_execute] in H.
  - check_inv H as Hs. inversion H; subst. constructor.
  - check_inv H as Hs. cbn [rg_vals set_rg_vals] in H.
    destruct (remove_val v (rg_vals g)) as [|x l]; [discriminate|].
    bind_inv H as msgs Hm. inversion H; subst. eapply reg_redelegate_msgs_plain; eauto.
  - check_inv H as Hs. inversion H; subst. constructor.
  - check_inv H as Hs. bind_inv H as msgs Hm. inversion H; subst. eapply reg_redelegate_msgs_plain; eauto.
  - check_inv H as Hs. inversion H; subst. constructor.
  - check_inv H as Hs. inversion H; subst. constructor.
Qed.

(** tokens: the exact shape of what the bSei token emits *)
Lemma bsei_execute_out w t sender m t' out :
  bsei_execute w t sender m = Some (t', out) ->
  match m with
  | CIncAllow _ _ _ | CDecAllow _ _ _ => out = []
  | CUpdMinter _ => False
  | _ => exists rc, query_reward_contract w t = Some rc /\
      match m with
      | CTransfer to amt => out = [m_dec rc sender amt; m_inc rc to amt]
      | CBurn amt => out = [m_dec rc sender amt]
      | CMint to amt => out = [m_inc rc to amt]
      | CSend c amt h => out = [m_dec rc sender amt; m_inc rc c amt; m_receive c sender amt h]
      | CTransferFrom o to amt => out = [m_dec rc o amt; m_inc rc to amt]
      | CBurnFrom o amt => out = [m_dec rc o amt; m_check_slashing (tk_hub t)]
      | CSendFrom o c amt h => out = [m_dec rc o amt; m_inc rc c amt; m_receive c sender amt h]
      | _ => True
      end
  end.
Proof.
  intros H. unfold bsei_execute in H. destruct m.
  - bind_inv H as rc Hrc. check_inv H as Hz. bind_inv H as t1 Hm. inversion H; subst. eauto.
  - bind_inv H as rc Hrc. check_inv H as Hs. check_inv H as Hz. bind_inv H as t1 Hb. inversion H; subst. eauto.
  - bind_inv H as rc Hrc. bind_inv H as t1 Hm. inversion H; subst. eauto.
  - bind_inv H as rc Hrc. check_inv H as Hz. bind_inv H as t1 Hm. inversion H; subst. eauto.
  - bind_inv H as t1 Ha. inversion H; subst. reflexivity.
  - bind_inv H as t1 Ha. inversion H; subst. reflexivity.
  - bind_inv H as rc Hrc. bind_inv H as t1 Hd. bind_inv H as t2 Hm. inversion H; subst. eauto.
  - bind_inv H as rc Hrc. bind_inv H as t1 Hd. bind_inv H as t2 Hm. inversion H; subst. eauto.
  - bind_inv H as rc Hrc. bind_inv H as t1 Hd. bind_inv H as t2 Hm. inversion H; subst. eauto.
  - discriminate.
Qed.

Lemma bsei_execute_plain w t sender m t' out :
  bsei_execute w t sender m = Some (t', out) -> Forall plain out.
Proof.
  intros H. apply bsei_execute_out in H.
  destruct m; try (subst out; constructor); try contradiction;
    destruct H as (rc & _ & ->); unfold m_dec, m_inc, m_receive, m_check_slashing; plain_list.
Qed.

Lemma stsei_execute_plain w t sender m t' out :
  stsei_execute w t sender m = Some (t', out) -> Forall plain out.
Proof.
  intros H. unfold stsei_execute in H. destruct m.
  - check_inv H as Hz. bind_inv H as t1 Hm. inversion H; subst. constructor.
  - check_inv H as Hs. check_inv H as Hz. bind_inv H as t1 Hb. inversion H; subst.
    unfold m_check_slashing. plain_list.
  - bind_inv H as t1 Hm. inversion H; subst. constructor.
  - check_inv H as Hz. bind_inv H as t1 Hm. inversion H; subst. unfold m_receive. plain_list.
  - bind_inv H as t1 Ha. inversion H; subst. constructor.
  - bind_inv H as t1 Ha. inversion H; subst. constructor.
  - bind_inv H as t1 Hd. bind_inv H as t2 Hm. inversion H; subst. constructor.
  - bind_inv H as t1 Hd. bind_inv H as t2 Hb. inversion H; subst. unfold m_check_slashing. plain_list.
  - bind_inv H as t1 Hd. bind_inv H as t2 Hm. inversion H; subst. unfold m_receive. plain_list.
  - destruct (tk_minter t) as [[mn cap]|]; [|discriminate]. check_inv H as Hs.
    inversion H; subst. constructor.
Qed.

(** every message emitted by any contract is a non-re-wiring message *)
Lemma call_emits_plain w sender target m funds w' out :
  call w sender target m funds = Some (w', out) -> Forall plain out.
Proof.
  intros H. apply call_inv in H.
  destruct H as [h hm h' _ _ _ He _ | r rm r' _ _ _ He _ | d dm d' _ _ _ He _
                | g gm g' _ _ _ He _ | t cm t' _ _ _ He _ | t cm t' _ _ _ He _
                | sm e' _ _ _ _ -> | _ _ ->]; try constructor.
  - eapply hub_execute_plain; eauto.
  - eapply reward_execute_plain; eauto.
  - eapply disp_execute_plain; eauto.
  - eapply reg_execute_plain; eauto.
  - eapply bsei_execute_plain; eauto.
  - eapply stsei_execute_plain; eauto.
Qed.

Lemma step_msg_emits_plain w s m w' out :
  step_msg w s m = Some (w', out) -> Forall plain_s out.
Proof.
  intros H. apply step_msg_inv in H.
  destruct H as [e' _ -> _ | to wm funds e1 o _ _ Hc ->]; [constructor|].
  assert (Hp : Forall plain o).
  { destruct Hc as [h hm h' _ _ _ He _ | r rm r' _ _ _ He _ | d dm d' _ _ _ He _
                   | g gm g' _ _ _ He _ | t cm t' _ _ _ He _ | t cm t' _ _ _ He _
                   | sm e' _ _ _ _ -> | _ _ ->]; try constructor.
    - eapply hub_execute_plain; eauto.
    - eapply reward_execute_plain; eauto.
    - eapply disp_execute_plain; eauto.
    - eapply reg_execute_plain; eauto.
    - eapply bsei_execute_plain; eauto.
    - eapply stsei_execute_plain; eauto. }
  apply Forall_map. exact Hp.
Qed.

(** ** the wiring data of a world: exactly the fields [Wired] looks at *)
Definition wd_hub (h : hub) :=
  (hc_disp (h_cfg h), hc_reg (h_cfg h), hc_bsei (h_cfg h), hc_stsei (h_cfg h), hp_underlying (h_params h)).
Definition wd_disp (d : disp) := (dp_hub d, dp_reward d, dp_std d).

Definition wdata (w : world) :=
  (option_map wd_hub (w_hub w), option_map rw_hub (w_reward w), option_map wd_disp (w_disp w),
   option_map rg_hub (w_reg w), option_map tk_hub (w_bsei w), option_map tk_hub (w_stsei w)).

Lemma Wired_wdata w w' : wdata w' = wdata w -> Wired w -> Wired w'.
Proof.
  unfold wdata, Wired. intros E H.
  destruct (w_hub w) as [h|]; [|contradiction]. destruct (w_reward w) as [r|]; [|contradiction].
  destruct (w_disp w) as [d|]; [|contradiction]. destruct (w_reg w) as [g|]; [|contradiction].
  destruct (w_bsei w) as [tb|]; [|contradiction]. destruct (w_stsei w) as [ts|]; [|contradiction].
  destruct (w_hub w') as [h'|]; [|discriminate]. destruct (w_reward w') as [r'|]; [|discriminate].
  destruct (w_disp w') as [d'|]; [|discriminate]. destruct (w_reg w') as [g'|]; [|discriminate].
  destruct (w_bsei w') as [tb'|]; [|discriminate]. destruct (w_stsei w') as [ts'|]; [|discriminate].
  cbn [option_map] in E. unfold wd_hub, wd_disp in E. inversion E.
  destruct H as (W1 & W2 & W3 & W4 & W5 & W6 & W7 & W8 & W9 & W10 & W11 & W12).
  repeat split; congruence.
Qed.

Lemma wdata_set_env w e : wdata (set_env w e) = wdata w.
Proof. reflexivity. Qed.

(** hub: everything except UpdateConfig keeps the wiring fields *)
Lemma hub_execute_wd w h self sender funds m h' out :
  hub_execute w h self sender funds m = Some (h', out) -> rewire_wasm (WHub m) = false ->
  wd_hub h' = wd_hub h.
Proof.
  intros H Hm. unfold wd_hub.
  destruct (is_admin_msg m) eqn:Ha.
  - destruct m; try discriminate Ha; try discriminate Hm.
    + unfold hub_execute in H. apply update_params_spec in H. destruct H as (_ & _ & _ & _ & ->). reflexivity.
    + apply hub_set_owner_spec in H. destruct H as (_ & _ & -> & _). reflexivity.
    + unfold hub_execute in H. check_inv H as Hp. check_inv H as Hs. inversion H; subst. reflexivity.
    + unfold hub_execute in H. destruct (paused h); [|discriminate]. inversion H; subst.
      pose proof (migrate_params h limit) as M. cbn zeta in M.
      destruct M as (_ & M2 & _ & _ & _ & _ & M7 & _). rewrite M2, M7. reflexivity.
  - apply hub_execute_static in H; [|exact Ha]. destruct H as (Hc & Hp & _). rewrite Hc, Hp. reflexivity.
Qed.

Lemma reward_execute_wd w r self sender m r' out :
  reward_execute w r self sender m = Some (r', out) -> rewire_wasm (WReward m) = false ->
  rw_hub r' = rw_hub r.
Proof.
  intros H Hm. destruct m; cbn [reward_execute] in H; try discriminate Hm.
  - bind_inv H as all Hall. bind_inv H as rewards Hrw. bind_inv H as whole Hwh.
    bind_inv H as decimals Hdec. check_inv H as Hnz. bind_inv H as prev Hprev.
    inversion H; subst. reflexivity.
  - check_inv H as Hs. inversion H; subst. reflexivity.
  - check_inv H as Hs. inversion H; subst. reflexivity.
  - bind_inv H as dp Hdp. check_inv H as Hs. inversion H; subst. reflexivity.
  - bind_inv H as dp Hdp. check_inv H as Hs.
    destruct (rw_total r =? 0); [inversion H; subst; reflexivity|].
    bind_inv H as claimed Hc. bind_inv H as q Hq. bind_inv H as gi Hgi. inversion H; subst. reflexivity.
  - bind_inv H as tok Htok. check_inv H as Hs. bind_inv H as rewards Hrw. bind_inv H as pend Hpend.
    bind_inv H as b Hb. bind_inv H as tot Htot. inversion H; subst. reflexivity.
  - bind_inv H as tok Htok. check_inv H as Hs. check_inv H as Hle.
    bind_inv H as rewards Hrw. bind_inv H as pend Hpend.
    bind_inv H as b Hb. bind_inv H as tot Htot. inversion H; subst. reflexivity.
  - check_inv H as Hs. inversion H; subst. reflexivity.
Qed.

Lemma disp_execute_wd w dp self sender m dp' out :
  disp_execute w dp self sender m = Some (dp', out) -> rewire_wasm (WDisp m) = false ->
  wd_disp dp' = wd_disp dp.
Proof.
  intros H Hm. destruct m; cbn [disp_execute] in H; try discriminate Hm.
  - check_inv H as Hs. bind_inv H as r Hr. destruct r as [[tsei tusd] msgs].
    check_inv H as Hor. bind_inv H as s2u Hs2u. bind_inv H as u2s Hu2s. bind_inv H as info Hinfo.
    destruct info as [[od oa] ask]. inversion H; subst. reflexivity.
  - check_inv H as Hs. bind_inv H as m1 Hm1. bind_inv H as m2 Hm2. inversion H; subst. reflexivity.
  - check_inv H as Hs. inversion H; subst. reflexivity.
  - check_inv H as Hs. inversion H; subst. reflexivity.
  - check_inv H as Hs. inversion H; subst. reflexivity.
  - check_inv H as Hs. inversion H; subst. reflexivity.
  - check_inv H as Hs. inversion H; subst. reflexivity.
Qed.

Lemma reg_execute_wd w g sender m g' out :
  reg_execute w g sender m = Some (g', out) -> rewire_wasm (WReg m) = false -> rg_hub g' = rg_hub g.
Proof.
  intros H Hm. destruct m; cbn [reg_execute] in H; try discriminate Hm.
  - check_inv H as Hs. inversion H; subst. reflexivity.
  - check_inv H as Hs. cbn [rg_vals set_rg_vals] in H.
    destruct (remove_val v (rg_vals g)) as [|x l]; [discriminate|].
    bind_inv H as msgs Hmsgs. inversion H; subst. reflexivity.
  - check_inv H as Hs. bind_inv H as msgs Hmsgs. inversion H; subst. reflexivity.
  - check_inv H as Hs. inversion H; subst. reflexivity.
  - check_inv H as Hs. inversion H; subst. reflexivity.
Qed.

Lemma tok_move_hub t from to amt t' : tok_move t from to amt = Some t' -> tk_hub t' = tk_hub t.
Proof.
  unfold tok_move. intros H. bind_inv H as fb Hfb. bind_inv H as tb Htb. inversion H; subst. reflexivity.
Qed.
Lemma tok_burn_hub t from amt t' : tok_burn_from_acct t from amt = Some t' -> tk_hub t' = tk_hub t.
Proof.
  unfold tok_burn_from_acct. intros H. bind_inv H as fb Hfb. bind_inv H as s Hs. inversion H; subst. reflexivity.
Qed.
Lemma tok_mint_hub t sender to amt t' : tok_mint t sender to amt = Some t' -> tk_hub t' = tk_hub t.
Proof.
  unfold tok_mint. intros H. check_inv H as Hz. destruct (tk_minter t) as [[m cap]|]; [|discriminate].
  check_inv H as Hs. bind_inv H as s Hsup. check_inv H as Hcap. bind_inv H as tb Htb.
  inversion H; subst. reflexivity.
Qed.
Lemma deduct_allowance_hub t now o s amt t' : deduct_allowance t now o s amt = Some t' -> tk_hub t' = tk_hub t.
Proof.
  unfold deduct_allowance. intros H. destruct (get eqbNN (tk_allow t) (o, s)) as [a|]; [|discriminate].
  check_inv H as Hexp. bind_inv H as rest Hrest. inversion H; subst. reflexivity.
Qed.
Lemma tok_inc_allow_hub base t now o s amt e t' : tok_inc_allow base t now o s amt e = Some t' -> tk_hub t' = tk_hub t.
Proof.
  unfold tok_inc_allow. intros H. check_inv H as Hs. bind_inv H as ex Hex. bind_inv H as a' Ha.
  inversion H; subst. reflexivity.
Qed.
Lemma tok_dec_allow_hub base t now o s amt e t' : tok_dec_allow base t now o s amt e = Some t' -> tk_hub t' = tk_hub t.
Proof.
  unfold tok_dec_allow. intros H. check_inv H as Hs.
  destruct (get eqbNN (tk_allow t) (o, s)) as [cur|]; [|discriminate].
  destruct (amt <? al_amt cur).
  - bind_inv H as ex Hex. inversion H; subst. reflexivity.
  - inversion H; subst. reflexivity.
Qed.

Lemma bsei_execute_hub w t sender m t' out :
  bsei_execute w t sender m = Some (t', out) -> tk_hub t' = tk_hub t.
Proof.
  intros H. unfold bsei_execute in H. destruct m.
  - bind_inv H as rc Hrc. check_inv H as Hz. bind_inv H as t1 Hm. inversion H; subst. eapply tok_move_hub; eauto.
  - bind_inv H as rc Hrc. check_inv H as Hs. check_inv H as Hz. bind_inv H as t1 Hb. inversion H; subst.
    eapply tok_burn_hub; eauto.
  - bind_inv H as rc Hrc. bind_inv H as t1 Hm. inversion H; subst. eapply tok_mint_hub; eauto.
  - bind_inv H as rc Hrc. check_inv H as Hz. bind_inv H as t1 Hm. inversion H; subst. eapply tok_move_hub; eauto.
  - bind_inv H as t1 Ha. inversion H; subst. eapply tok_inc_allow_hub; eauto.
  - bind_inv H as t1 Ha. inversion H; subst. eapply tok_dec_allow_hub; eauto.
  - bind_inv H as rc Hrc. bind_inv H as t1 Hd. bind_inv H as t2 Hm. inversion H; subst.
    apply deduct_allowance_hub in Hd. apply tok_move_hub in Hm. congruence.
  - bind_inv H as rc Hrc. bind_inv H as t1 Hd. bind_inv H as t2 Hb. inversion H; subst.
    apply deduct_allowance_hub in Hd. apply tok_burn_hub in Hb. congruence.
  - bind_inv H as rc Hrc. bind_inv H as t1 Hd. bind_inv H as t2 Hm. inversion H; subst.
    apply deduct_allowance_hub in Hd. apply tok_move_hub in Hm. congruence.
  - discriminate.
Qed.

Lemma stsei_execute_hub w t sender m t' out :
  stsei_execute w t sender m = Some (t', out) -> tk_hub t' = tk_hub t.
Proof.
  intros H. unfold stsei_execute in H. destruct m.
  - check_inv H as Hz. bind_inv H as t1 Hm. inversion H; subst. eapply tok_move_hub; eauto.
  - check_inv H as Hs. check_inv H as Hz. bind_inv H as t1 Hb. inversion H; subst. eapply tok_burn_hub; eauto.
  - bind_inv H as t1 Hm. inversion H; subst. eapply tok_mint_hub; eauto.
  - check_inv H as Hz. bind_inv H as t1 Hm. inversion H; subst. eapply tok_move_hub; eauto.
  - bind_inv H as t1 Ha. inversion H; subst. eapply tok_inc_allow_hub; eauto.
  - bind_inv H as t1 Ha. inversion H; subst. eapply tok_dec_allow_hub; eauto.
  - bind_inv H as t1 Hd. bind_inv H as t2 Hm. inversion H; subst.
    apply deduct_allowance_hub in Hd. apply tok_move_hub in Hm. congruence.
  - bind_inv H as t1 Hd. bind_inv H as t2 Hb. inversion H; subst.
    apply deduct_allowance_hub in Hd. apply tok_burn_hub in Hb. congruence.
  - bind_inv H as t1 Hd. bind_inv H as t2 Hm. inversion H; subst.
    apply deduct_allowance_hub in Hd. apply tok_move_hub in Hm. congruence.
  - destruct (tk_minter t) as [[mn cap]|]; [|discriminate]. check_inv H as Hs.
    inversion H; subst. reflexivity.
Qed.

(** a non-re-wiring message never changes the wiring data *)
Lemma step_msg_wdata w s m w' out :
  step_msg w s m = Some (w', out) -> plain m -> wdata w' = wdata w.
Proof.
  intros H Hpl. apply step_msg_inv in H.
  destruct H as [e' -> _ _ | to wm funds e1 o -> Hsend Hc _]; [reflexivity|].
  unfold plain in Hpl. cbn [rewire] in Hpl.
  destruct Hc as [h hm h' -> -> Hw He -> | r rm r' -> Hrm Hw He -> | d dm d' -> -> Hw He ->
                 | g gm g' -> -> Hw He -> | t cm t' -> -> Hw He -> | t cm t' -> -> Hw He ->
                 | sm e' -> -> He -> -> | -> -> ->];
    try reflexivity;
    cbn [w_hub w_reward w_disp w_reg w_bsei w_stsei set_env] in Hw; unfold wdata;
    cbn [w_hub w_reward w_disp w_reg w_bsei w_stsei set_hub set_reward set_disp set_reg set_bsei
         set_stsei set_env]; rewrite Hw; cbn [option_map].
  - erewrite hub_execute_wd; eauto.
  - erewrite reward_execute_wd; eauto.
    destruct Hrm as [-> | (n & -> & ->)]; [exact Hpl | reflexivity].
  - erewrite disp_execute_wd; eauto.
  - erewrite reg_execute_wd; eauto.
  - erewrite bsei_execute_hub; eauto.
  - erewrite stsei_execute_hub; eauto.
Qed.

Lemma step_msg_wired w s m w' out :
  step_msg w s m = Some (w', out) -> plain m -> Wired w -> Wired w'.
Proof. intros H Hp. apply Wired_wdata. eapply step_msg_wdata; eauto. Qed.

(** a transaction all of whose pending messages are non-re-wiring never changes the wiring *)
Lemma run_wdata fuel w stack tr w' tr' :
  Forall plain_s stack -> run fuel w stack tr = Some (w', tr') -> wdata w' = wdata w.
Proof.
  intros Hp H.
  pose (J := fun (x : world) (st : list (addr * cmsg)) => wdata x = wdata w /\ Forall plain_s st).
  assert (HJ : J w' []).
  { eapply (run_preserves_stack J); [|split; [reflexivity|exact Hp]|exact H].
    intros x s m rest x' out [Hx Hf] Hs.
    apply Forall_cons_iff in Hf. destruct Hf as [Hm Hrest]. split.
    - rewrite <- Hx. eapply step_msg_wdata; eauto.
    - apply Forall_app. split; [eapply step_msg_emits_plain; eauto | exact Hrest]. }
  exact (proj1 HJ).
Qed.

Lemma tx_wdata w sender target m funds w' tr :
  rewire_wasm m = false ->
  run tx_fuel w [(sender, MWasm target m funds)] [] = Some (w', tr) -> wdata w' = wdata w.
Proof.
  intros Hm H. eapply run_wdata; [|exact H]. constructor; [exact Hm|constructor].
Qed.
