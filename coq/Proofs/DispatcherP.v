(** * DispatcherP: the rewards dispatcher (C17; parameter part of C20) *)
From Krp Require Import Tactics Prelude Fixed FMap Types Env Dispatcher.
Open Scope N_scope.
Ltac Zify.zify_post_hook ::= Z.div_mod_to_equations.

(** ** floor facts *)
Lemma mulU_val a r x : mulU a r = Some x -> x = a * r / D.
Proof.
  unfold mulU, narrow128. destruct ((a =? 0) || (r =? 0)) eqn:E.
  - intros H; inversion H; subst. apply orb_true_iff in E. destruct E as [E|E]; apply N.eqb_eq in E; subst.
    + rewrite N.mul_0_l. rewrite N.div_0_l; [reflexivity|exact D_nz].
    + rewrite N.mul_0_r. rewrite N.div_0_l; [reflexivity|exact D_nz].
  - destruct (fits128 (a * r / D)); intros H; inversion H; reflexivity.
Qed.

Lemma mulU_le a r x : r <= D -> mulU a r = Some x -> x <= a.
Proof.
  intros Hr H. apply mulU_val in H. subst x.
  apply N.div_le_upper_bound; [exact D_nz|]. rewrite N.mul_comm. apply N.mul_le_mono_r. exact Hr.
Qed.

Lemma mulU_total a r : a <= U128MAX -> r <= D -> exists x, mulU a r = Some x.
Proof.
  intros Ha Hr. unfold mulU, narrow128, fits128.
  destruct ((a =? 0) || (r =? 0)); [eauto|].
  assert (a * r / D <= a).
  { apply N.div_le_upper_bound; [exact D_nz|]. rewrite N.mul_comm. apply N.mul_le_mono_r. exact Hr. }
  assert (E : (a * r / D <=? U128MAX) = true) by lia. rewrite E. eauto.
Qed.

(** ** C17.1 — the swap never offers more of a coin than the dispatcher holds.
    [x_st2b] is the oracle price (stSei-side coin -> bSei-side coin), [x_b2st] its [Decimal::inv]. *)
Theorem offer_le_held std bd stb bb rst rb x_b2st x_st2b od oa ask :
  x_b2st * x_st2b <= D * D ->
  swap_info std bd stb bb rst rb x_b2st x_st2b = Some (od, oa, ask) ->
  (od = std /\ ask = bd /\ oa <= rst) \/ (od = bd /\ ask = std /\ oa <= rb).
Proof.
  intros Hinv H. unfold swap_info in H.
  bind_inv H as conv Hconv. bind_inv H as total Htotal. bind_inv H as bonded Hbonded.
  bind_inv H as share Hshare.
  apply mulU_val in Hconv.
  unfold add128, narrow128 in Htotal, Hbonded.
  destruct (fits128 (rst + conv)); inversion Htotal; subst total; clear Htotal.
  destruct (fits128 (stb + bb)); inversion Hbonded; subst bonded; clear Hbonded.
  unfold mul_ratio, narrow128 in Hshare.
  destruct (stb + bb =? 0) eqn:Hz; [discriminate|].
  destruct (fits128 ((rst + conv) * stb / (stb + bb))); inversion Hshare; subst share; clear Hshare.
  destruct ((rst + conv) * stb / (stb + bb) <? rst) eqn:Hlt.
  - bind_inv H as sell Hsell. inversion H; subst. left.
    unfold sub128 in Hsell. check_inv Hsell as Hc. inversion Hsell; subst. repeat split. apply N.le_sub_l.
  - bind_inv H as buy Hbuy. bind_inv H as bsell Hbsell. inversion H; subst. right.
    unfold sub128 in Hbuy. check_inv Hbuy as Hle. inversion Hbuy; subst buy; clear Hbuy.
    apply mulU_val in Hbsell. subst oa. repeat split.
    set (total := rst + rb * x_b2st / D) in *.
    assert (Hsh : total * stb / (stb + bb) <= total).
    { apply N.div_le_upper_bound; [lia|]. nia. }
    assert (Hb : total * stb / (stb + bb) - rst <= rb * x_b2st / D) by (unfold total in *; lia).
    apply N.div_le_upper_bound; [exact D_nz|].
    assert (H1 : (rb * x_b2st / D) * x_st2b <= D * rb).
    { assert (H2 : D * (rb * x_b2st / D) <= rb * x_b2st) by (apply N.mul_div_le; exact D_nz).
      assert (H3 : D * ((rb * x_b2st / D) * x_st2b) <= D * (D * rb)) by nia.
      apply N.mul_le_mono_pos_l in H3; [exact H3|exact D_pos]. }
    nia.
Qed.

(** [Decimal::inv] satisfies the hypothesis of [offer_le_held] *)
Lemma dinv_mul p q : dinv p = Some q -> q * p <= D * D.
Proof.
  unfold dinv. destruct (p =? 0) eqn:E; [discriminate|]. intros H; inversion H; subst.
  rewrite N.mul_comm. apply N.mul_div_le. lia.
Qed.

(** ** C17.3 — what DispatchRewards sends, exactly *)
Definition dispatch_msgs (dp : disp) (b st : N) : list cmsg :=
  let kb := b * dp_rate dp / D in
  let ks := st * dp_rate dp / D in
  (if b =? 0 then [] else
     [MBank (dp_keeper dp) [(dp_bd dp, kb)]; MBank (dp_reward dp) [(dp_bd dp, b - kb)]]) ++
  (if st =? 0 then [] else
     MBank (dp_keeper dp) [(dp_std dp, ks)] ::
     (if st - ks =? 0 then [] else [MWasm (dp_hub dp) (WHub HBondRewards) [(dp_std dp, st - ks)]])) ++
  [MWasm (dp_reward dp) (WHub (HUpdateGlobal 0)) []].

Theorem dispatch_exact w dp self sender dp' msgs :
  disp_execute w dp self sender DDispatch = Some (dp', msgs) ->
  sender = dp_hub dp /\ dp' = dp /\
  msgs = dispatch_msgs dp (bal (w_env w) self (dp_bd dp)) (bal (w_env w) self (dp_std dp)).
Proof.
  intros H. cbn [disp_execute] in H.
  check_inv H as Hs. apply N.eqb_eq in Hs.
  set (st := bal (w_env w) self (dp_std dp)) in *.
  set (b := bal (w_env w) self (dp_bd dp)) in *.
  bind_inv H as m1 Hm1. bind_inv H as m2 Hm2.
  inversion H; subst dp' msgs; clear H.
  repeat split; [assumption|]. unfold dispatch_msgs. f_equal; [|f_equal].
  - destruct (b =? 0); [inversion Hm1; reflexivity|].
    bind_inv Hm1 as k Hk. bind_inv Hm1 as rest Hrest. inversion Hm1; subst.
    apply mulU_val in Hk. subst k. unfold sub128 in Hrest.
    check_inv Hrest as Hc. inversion Hrest; subst. reflexivity.
  - destruct (st =? 0); [inversion Hm2; reflexivity|].
    bind_inv Hm2 as k Hk. bind_inv Hm2 as rest Hrest. inversion Hm2; subst.
    apply mulU_val in Hk. subst k. unfold sub128 in Hrest.
    check_inv Hrest as Hc. inversion Hrest; subst. reflexivity.
Qed.

(** DispatchRewards succeeds for every balance and every keeper rate in [0,1] when sent by the hub
    (at the dispatcher level; whether the bank accepts the transfers is C17.5) *)
Theorem dispatch_succeeds w dp self :
  dp_rate dp <= D ->
  bal (w_env w) self (dp_bd dp) <= U128MAX -> bal (w_env w) self (dp_std dp) <= U128MAX ->
  exists msgs, disp_execute w dp self (dp_hub dp) DDispatch = Some (dp, msgs).
Proof.
  intros Hr Hb Hs. cbn [disp_execute]. rewrite N.eqb_refl.
  set (st := bal (w_env w) self (dp_std dp)) in *.
  set (b := bal (w_env w) self (dp_bd dp)) in *.
  destruct (mulU_total b (dp_rate dp) Hb Hr) as [kb Hkb].
  destruct (mulU_total st (dp_rate dp) Hs Hr) as [ks Hks].
  pose proof (mulU_le _ _ _ Hr Hkb). pose proof (mulU_le _ _ _ Hr Hks).
  rewrite Hkb, Hks. cbn [bind]. unfold sub128.
  assert (E1 : (kb <=? b) = true) by lia. assert (E2 : (ks <=? st) = true) by lia.
  rewrite E1, E2. cbn [bind].
  destruct (b =? 0); destruct (st =? 0); cbn [bind]; eauto.
Qed.

(** amounts carried by the messages of a dispatch *)
Definition msg_amounts (m : cmsg) : list N :=
  match m with
  | MBank _ cs => map snd cs
  | MWasm _ _ fs => map snd fs
  | _ => []
  end.

Definition sent_of (d : denom) (m : cmsg) : N :=
  match m with
  | MBank _ cs => sumN (map (fun c => if fst c =? d then snd c else 0) cs)
  | MWasm _ _ fs => sumN (map (fun c => if fst c =? d then snd c else 0) fs)
  | _ => 0
  end.

(** conservation: what is sent in each coin equals what was held (keeper rate <= 1) *)
Theorem dispatch_conserves dp b st :
  dp_rate dp <= D -> dp_bd dp <> dp_std dp ->
  sumN (map (sent_of (dp_bd dp)) (dispatch_msgs dp b st)) = b /\
  sumN (map (sent_of (dp_std dp)) (dispatch_msgs dp b st)) = st.
Proof.
  intros Hr Hne. unfold dispatch_msgs.
  assert (Hkb : b * dp_rate dp / D <= b).
  { apply N.div_le_upper_bound; [exact D_nz|]. rewrite N.mul_comm. apply N.mul_le_mono_r. exact Hr. }
  assert (Hks : st * dp_rate dp / D <= st).
  { apply N.div_le_upper_bound; [exact D_nz|]. rewrite N.mul_comm. apply N.mul_le_mono_r. exact Hr. }
  assert (E1 : (dp_bd dp =? dp_bd dp) = true) by apply N.eqb_refl.
  assert (E2 : (dp_std dp =? dp_std dp) = true) by apply N.eqb_refl.
  assert (E3 : (dp_std dp =? dp_bd dp) = false) by (apply N.eqb_neq; congruence).
  assert (E4 : (dp_bd dp =? dp_std dp) = false) by (apply N.eqb_neq; congruence).
  split.
  - destruct (b =? 0) eqn:Hb; destruct (st =? 0) eqn:Hs; [| destruct (st - st * dp_rate dp / D =? 0) | | destruct (st - st * dp_rate dp / D =? 0)];
      cbn [app map sent_of sumN fst snd]; rewrite ?E1, ?E2, ?E3, ?E4; lia.
  - destruct (b =? 0) eqn:Hb; destruct (st =? 0) eqn:Hs; [| destruct (st - st * dp_rate dp / D =? 0) eqn:Hz | | destruct (st - st * dp_rate dp / D =? 0) eqn:Hz];
      cbn [app map sent_of sumN fst snd]; rewrite ?E1, ?E2, ?E3, ?E4; lia.
Qed.

(** ** C17.5 — zero-coin transfers.  The dispatcher emits a zero-coin bank transfer exactly in the
    class [Known_F2] (finding F2: the repository's own test asserts those messages). *)
Definition Known_F2 (rate b st : N) : Prop :=
  (0 < b /\ (b * rate / D = 0 \/ b * rate / D = b)) \/ (0 < st /\ st * rate / D = 0).

Theorem no_zero_transfer dp b st :
  dp_rate dp <= D -> ~ Known_F2 (dp_rate dp) b st ->
  forall m x, In m (dispatch_msgs dp b st) -> In x (msg_amounts m) -> 0 < x.
Proof.
  intros Hr Hk m x Hm Hx. unfold Known_F2 in Hk. unfold dispatch_msgs in Hm. cbn zeta in Hm.
  assert (Hkb : b * dp_rate dp / D <= b).
  { apply N.div_le_upper_bound; [exact D_nz|]. rewrite N.mul_comm. apply N.mul_le_mono_r. exact Hr. }
  assert (Hks : st * dp_rate dp / D <= st).
  { apply N.div_le_upper_bound; [exact D_nz|]. rewrite N.mul_comm. apply N.mul_le_mono_r. exact Hr. }
  set (kb := b * dp_rate dp / D) in *. set (ks := st * dp_rate dp / D) in *. clearbody kb ks.
  apply in_app_or in Hm. destruct Hm as [Hm|Hm]; [|apply in_app_or in Hm; destruct Hm as [Hm|Hm]].
  - destruct (b =? 0) eqn:Hb; [contradiction|].
    destruct Hm as [<-|[<-|[]]]; cbn in Hx; destruct Hx as [<-|[]]; lia.
  - destruct (st =? 0) eqn:Hs; [contradiction|].
    destruct Hm as [<-|Hm].
    + cbn in Hx. destruct Hx as [<-|[]]. lia.
    + destruct (st - ks =? 0) eqn:Hz; [contradiction|].
      destruct Hm as [<-|[]]. cbn in Hx. destruct Hx as [<-|[]]. lia.
  - destruct Hm as [<-|[]]. cbn in Hx. contradiction.
Qed.

(** witness: the class is inhabited and a zero-coin transfer is emitted there
    (balances 300 / 200 and keeper rate 0: the repository's own
    test_dispatch_rewards_zero_krp_keeper_rate) *)
Lemma known_F2_witness :
  let dp := mkDisp 10 1 2 usei uusd 12 0 7 [usei; uusd] 8 10 in
  Known_F2 (dp_rate dp) 300 200 /\
  exists m, In m (dispatch_msgs dp 300 200) /\ In 0 (msg_amounts m).
Proof.
  cbn zeta. split.
  - left. split; [lia|]. left. reflexivity.
  - exists (MBank 12 [(uusd, 0)]). split; [left; reflexivity | left; reflexivity].
Qed.

(** ** C17.4 / C20 — the keeper rate can never be configured above 1 *)
Definition DInv (dp : disp) : Prop := dp_rate dp <= D.

Theorem disp_instantiate_inv s h r std bd k rate sw orc ds dp :
  disp_instantiate s h r std bd k rate sw orc ds = Some dp -> DInv dp /\ dp_std dp = std.
Proof.
  unfold disp_instantiate. intros H. inv_bind H. inversion H; subst. unfold DInv. cbn. split; [lia|reflexivity].
Qed.

Theorem disp_execute_inv w dp self sender m dp' msgs :
  disp_execute w dp self sender m = Some (dp', msgs) -> DInv dp -> DInv dp' /\ dp_std dp' = dp_std dp.
Proof.
  unfold DInv. intros H Hi. destruct m; cbn [disp_execute] in H.
  - (* DSwap *) repeat (inv_bind H; cbn [bind] in H). destruct a as [[? ?] ?]. repeat (inv_bind H; cbn [bind] in H).
    destruct a1 as [[? ?] ?]. inversion H; subst. auto.
  - repeat (inv_bind H; cbn [bind] in H). inversion H; subst. auto.
  - repeat (inv_bind H; cbn [bind] in H). inversion H; subst. cbn. split; [|reflexivity].
    destruct rate; [lia|assumption].
  - repeat (inv_bind H; cbn [bind] in H). inversion H; subst. cbn. auto.
  - repeat (inv_bind H; cbn [bind] in H). inversion H; subst. cbn. auto.
  - repeat (inv_bind H; cbn [bind] in H). inversion H; subst. cbn. auto.
  - repeat (inv_bind H; cbn [bind] in H). inversion H; subst. cbn. auto.
  - repeat (inv_bind H; cbn [bind] in H). inversion H; subst. cbn. auto.
Qed.

(** ** C17.2 — the share after the swap.  Selling the stSei-side coin leaves exactly the share;
    buying it (by selling [bsell] of the bSei-side coin at the oracle price [p], with the stub's
    floor rounding, [q = inv p]) leaves the share up to rounding: one unit of the sold coin valued
    at the price, plus the relative error p/10^36 of [Decimal::inv]. *)
Lemma swap_buy_generic d buy p q bsell got e f :
  0 < d -> 0 < p ->
  q * p <= d * d -> d * d < q * p + p ->
  bsell * d <= buy * p -> buy * p < bsell * d + d ->
  got * d <= bsell * q -> bsell * q < got * d + d ->
  buy * p < (e + 1) * (d * d) -> q < (f + 1) * d ->
  got <= buy /\ buy <= got + e + f + 2.
Proof.
  intros Hd Hp Hq1 Hq2 Hb1 Hb2 Hg1 Hg2 He Hf.
  assert (Hdd : 0 < d * d) by nia.
  split.
  - assert (A : got * d * d <= bsell * q * d) by (apply N.mul_le_mono_r; exact Hg1).
    assert (B : bsell * d * q <= buy * p * q) by (apply N.mul_le_mono_r; exact Hb1).
    assert (C : buy * (q * p) <= buy * (d * d)) by (apply N.mul_le_mono_l; exact Hq1).
    assert (E : got * (d * d) <= buy * (d * d)) by lia.
    apply N.mul_le_mono_pos_r in E; assumption.
  - assert (A1 : bsell * q * d < (got * d + d) * d) by (apply N.mul_lt_mono_pos_r; assumption).
    assert (A2 : buy * p * q <= (bsell * d + d) * q) by (apply N.mul_le_mono_r; lia).
    assert (A3 : buy * (d * d) <= buy * (q * p + p)) by (apply N.mul_le_mono_l; lia).
    assert (A4 : q * d < (f + 1) * d * d) by (apply N.mul_lt_mono_pos_r; assumption).
    assert (E : buy * (d * d) < (got + e + f + 3) * (d * d)) by lia.
    apply N.mul_lt_mono_pos_r in E; [lia|assumption].
Qed.

Theorem swap_buy_within_rounding buy p q :
  0 < p -> q = D * D / p ->
  let bsell := buy * p / D in
  let got := bsell * q / D in
  got <= buy /\ buy <= got + buy * p / (D * D) + q / D + 2.
Proof.
  intros Hp Hq bsell got.
  assert (HDD : D * D <> 0) by discriminate.
  apply (swap_buy_generic D buy p q bsell got).
  - exact D_pos.
  - exact Hp.
  - subst q. rewrite N.mul_comm. apply N.mul_div_le. lia.
  - subst q. pose proof (N.mod_lt (D * D) p ltac:(lia)) as Hm.
    pose proof (N.div_mod (D * D) p ltac:(lia)) as Hdm.
    rewrite (N.mul_comm (D * D / p) p). lia.
  - unfold bsell. rewrite N.mul_comm. apply N.mul_div_le. exact D_nz.
  - unfold bsell. pose proof (N.mod_lt (buy * p) D D_nz). pose proof (N.div_mod (buy * p) D D_nz).
    rewrite (N.mul_comm (buy * p / D) D). lia.
  - unfold got. rewrite N.mul_comm. apply N.mul_div_le. exact D_nz.
  - unfold got. pose proof (N.mod_lt (bsell * q) D D_nz). pose proof (N.div_mod (bsell * q) D D_nz).
    rewrite (N.mul_comm (bsell * q / D) D). lia.
  - pose proof (N.mod_lt (buy * p) (D * D) HDD) as H1. pose proof (N.div_mod (buy * p) (D * D) HDD) as H2.
    set (X := buy * p) in *. set (DD := D * D) in *. set (Y := X / DD) in *. clearbody X DD Y. lia.
  - pose proof (N.mod_lt q D D_nz) as H1. pose proof (N.div_mod q D D_nz) as H2.
    set (DD := D) in *. set (Y := q / DD) in *. clearbody DD Y. lia.
Qed.
